/-
  C01 with DAQmx segments, the per-chunk data step: `DaqmxDataReader._read_data_chunk` (`readDaqmxChunk`) on
  the spec encoding of one DAQmx chunk (any number of raw buffers) returns the dictionary `bmChunk`: the
  reader walks the buffers in order and, inside a buffer, the data objects in order and their scalers living in
  that buffer, storing `rows.map (scalerValue …)` under the scale id — exactly the lists the spec's
  `addDaqmxObj` appends, in buffer-major instead of object-major order.  Built on C11
  (`readDaqmxChunk_reads_rows`, `daq_scaler_column_eq_spec`).  Core Lean only.
-/
import TdmsProofs.Lemmas.C01LayoutsDaqMeta

namespace Tdms.Proofs.C01Layouts

open Tdms Tdms.Generated Tdms.Model Tdms.Proofs.C02 Tdms.Proofs.C01Multi
open Tdms.Proofs.C11 (RowsConform feedRows scalerOfSpec)
open Tdms.Proofs.Bytes (dictSet_fresh)

abbrev ScalDict := List (Nat × List Bytes)

/-! ## the dictionary the reader builds -/

/-- replace-or-append of one (scale id, values) item -/
def roa (cur : ScalDict) (iv : Nat × List Bytes) : ScalDict :=
  if cur.any (·.1 = iv.1) then cur.map (fun x => if x.1 = iv.1 then (x.1, iv.2) else x) else cur ++ [iv]

/-- the scaler items stored under a path -/
def itemsOfD (scal : RawChunk) (p : Bytes) : ScalDict := ((scal.find? (·.1 = p)).bind (·.2.scalers)).getD []

/-- store one item under a path (what the loop body of `daqBufferScalers` does for a raw-typed object) -/
def upsertItem (scal : RawChunk) (p : Bytes) (iv : Nat × List Bytes) : RawChunk :=
  dictSet scal p { scalers := some (roa (itemsOfD scal p) iv) }

def dgOf (x : ActiveObj) : Bool :=
  match x.idx with
  | some (.daq dg _ _ _ _) => dg
  | _ => false

/-- the items of the scalers of `x` that live in buffer `b`, for the rows of that buffer -/
def classItems (e : Endian) (x : ActiveObj) (b : Nat) (rows : List Bytes) : ScalDict :=
  ((daqScalers x).filter (·.buffer = b)).map fun s => (s.scaleId, rows.map (scalerValue e (dgOf x) s))

/-- one object in one buffer -/
def objBuf (e : Endian) (b : Nat) (rows : List Bytes) (scal : RawChunk) (x : ActiveObj) : RawChunk :=
  (classItems e x b rows).foldl (fun scal iv => upsertItem scal x.path iv) scal

/-- all objects in one buffer -/
def bufPass (e : Endian) (b : Nat) (rows : List Bytes) (d : List ActiveObj) (scal : RawChunk) : RawChunk :=
  d.foldl (objBuf e b rows) scal

/-- **the chunk the reader yields**: buffers in order, objects in order, scalers of the buffer in order -/
def bmChunk (e : Endian) (d : List ActiveObj) : Nat → List (List Bytes) → RawChunk → RawChunk
  | _, [], scal => scal
  | b, rows :: rest, scal => bmChunk e d (b + 1) rest (bufPass e b rows d scal)

/-! ## one scaler -/

/-- the loop body of `daqBufferScalers` for one object -/
def scalerStep (e : Endian) (rows : List Bytes) (crop : Bytes → Option Nat) (o : SegObj)
    (acc : Except Err (RawChunk × RawChunk)) (sc : DaqScaler) : Except Err (RawChunk × RawChunk) := do
  let (data, scal) ← acc
  let vals ← mapExcept (daqScalerValue e sc) rows
  let vals := match crop o.path with
    | some k => vals.take k
    | none => vals
  if o.dataType = some tyDaqmxRaw then
    let cur := ((scal.find? (·.1 = o.path)).bind (·.2.scalers)).getD []
    let cur' := if cur.any (·.1 = sc.scaleId) then cur.map (fun x => if x.1 = sc.scaleId then (x.1, vals) else x)
                else cur ++ [(sc.scaleId, vals)]
    pure (data, dictSet scal o.path { scalers := some cur' })
  else pure (dictSet data o.path { data := some vals }, scal)

theorem daqBufferScalers_cons (e : Endian) (b : Nat) (rows : List Bytes) (crop : Bytes → Option Nat)
    (o : SegObj) (os : List SegObj) (data scal : RawChunk) :
    daqBufferScalers e b rows crop (o :: os) data scal =
      (do let x ← (((o.daq.map (·.scalers)).getD []).filter (·.buffer = b)).foldl (scalerStep e rows crop o)
            (.ok (data, scal))
          daqBufferScalers e b rows crop os x.1 x.2) := by
  rw [daqBufferScalers]
  rfl

theorem convScaler_eq (dg : Bool) (s : ScalerEnc) (ty : Nat) (h : daqmxTypeCode s.daqType = some ty) :
    convScaler dg s = scalerOfSpec dg s ty := by
  unfold daqmxTypeCode at h
  simp [convScaler, scalerOfSpec, h]

/-- one scaler of a raw-typed object -/
theorem scalerStep_upsert (e : Endian) (rows : List Bytes) (w : Nat) (hrows : ∀ r ∈ rows, r.length = w)
    (o : SegObj) (hraw : o.dataType = some tyDaqmxRaw) (dg : Bool) (s : ScalerEnc) (ty sz : Nat)
    (hty : daqmxTypeCode s.daqType = some ty) (hsz : typeSize ty = some sz)
    (hfit : scalerByteOffset dg s + sz ≤ w) (data scal : RawChunk) :
    scalerStep e rows (fun _ => none) o (.ok (data, scal)) (convScaler dg s) =
      .ok (data, upsertItem scal o.path (s.scaleId, rows.map (scalerValue e dg s))) := by
  have hcol := Tdms.Proofs.C11.daq_scaler_column_eq_spec e dg s ty sz w rows hty hsz hrows hfit
  rw [← convScaler_eq dg s ty hty] at hcol
  unfold scalerStep
  simp only [bind, Except.bind, hcol, hraw, if_true, pure, Except.pure]
  rfl

theorem concObj_raw {F : ScF} {W : List Nat} {x : ActiveObj} (h : DaqObj F W x) :
    (concObj x).dataType = some tyDaqmxRaw := by
  obtain ⟨dg, n, sc, hi, _⟩ := h
  unfold concObj; rw [hi]

/-- one object in one buffer -/
theorem scalers_objBuf {F : ScF} {W : List Nat} {x : ActiveObj} (hx : DaqObj F W x) (e : Endian) (b : Nat)
    (rows : List Bytes) (hrows : ∀ r ∈ rows, r.length = W.getD b 0) (data scal : RawChunk) :
    ((((concObj x).daq.map (·.scalers)).getD []).filter (·.buffer = b)).foldl
        (scalerStep e rows (fun _ => none) (concObj x)) (.ok (data, scal)) =
      .ok (data, objBuf e b rows scal x) := by
  have hraw := concObj_raw hx
  obtain ⟨dg, n, sc, hi, hd⟩ := hx
  have hdaq : (concObj x).daq = some ⟨n, W, sc.map (convScaler dg)⟩ := by unfold concObj; rw [hi]
  have hfacts := scaler_facts hd.wf
  have hfilter : (((concObj x).daq.map (·.scalers)).getD []).filter (·.buffer = b) =
      (sc.filter (·.buffer = b)).map (convScaler dg) := by
    rw [hdaq]
    simp only [Option.map_some, Option.getD_some, List.filter_map]
    rfl
  have hcls : classItems e x b rows = (sc.filter (·.buffer = b)).map fun s => (s.scaleId, rows.map (scalerValue e dg s)) := by
    simp [classItems, daqScalers, dgOf, hi]
  rw [hfilter]
  unfold objBuf
  rw [hcls]
  have hpath : (concObj x).path = x.path := concObj_path x
  suffices h : ∀ (ss : List ScalerEnc) (scal : RawChunk), (∀ s ∈ ss, s ∈ sc ∧ s.buffer = b) →
      (ss.map (convScaler dg)).foldl (scalerStep e rows (fun _ => none) (concObj x)) (.ok (data, scal)) =
        .ok (data, (ss.map fun s => (s.scaleId, rows.map (scalerValue e dg s))).foldl
          (fun scal iv => upsertItem scal x.path iv) scal) from
    h _ scal (fun s hs => by
      have := List.mem_filter.mp hs
      exact ⟨this.1, by simpa using this.2⟩)
  intro ss
  induction ss with
  | nil => intro scal _; rfl
  | cons s ss ih =>
    intro scal hss
    obtain ⟨hs, hsb⟩ := hss s List.mem_cons_self
    obtain ⟨ty, sz, hty, hsz, _, hfit⟩ := hfacts s hs
    rw [hsb] at hfit
    rw [List.map_cons, List.foldl_cons,
      scalerStep_upsert e rows (W.getD b 0) hrows (concObj x) hraw dg s ty sz hty hsz hfit data scal, hpath,
      ih _ (fun s' hs' => hss s' (List.mem_cons_of_mem _ hs'))]
    rfl

/-- **`daqBufferScalers` on one buffer** -/
theorem daqBufferScalers_bufPass {F : ScF} {W : List Nat} (e : Endian) (b : Nat) (rows : List Bytes)
    (hrows : ∀ r ∈ rows, r.length = W.getD b 0) :
    ∀ (d : List ActiveObj) (data scal : RawChunk), (∀ x ∈ d, DaqObj F W x) →
      daqBufferScalers e b rows (fun _ => none) (d.map concObj) data scal = .ok (data, bufPass e b rows d scal) := by
  intro d
  induction d with
  | nil => intro data scal _; simp [daqBufferScalers, bufPass]
  | cons x xs ih =>
    intro data scal hobj
    rw [List.map_cons, daqBufferScalers_cons, scalers_objBuf (hobj x List.mem_cons_self) e b rows hrows data scal]
    simp only [bind, Except.bind]
    rw [ih data _ (fun y hy => hobj y (List.mem_cons_of_mem _ hy))]
    rfl

/-- **all buffers** -/
theorem feedRows_bmChunk {F : ScF} {W : List Nat} (e : Endian) (d : List ActiveObj) (hobj : ∀ x ∈ d, DaqObj F W x) :
    ∀ (bufs : List (List Bytes)) (b : Nat) (data scal : RawChunk),
      (∀ i, i < bufs.length → ∀ r ∈ bufs.getD i [], r.length = W.getD (b + i) 0) →
      feedRows e (fun _ => none) (d.map concObj) b bufs data scal = .ok (data, bmChunk e d b bufs scal) := by
  intro bufs
  induction bufs with
  | nil => intro b data scal _; rfl
  | cons rows rest ih =>
    intro b data scal hw
    have h0 := hw 0 (by simp)
    simp only [List.getD_cons_zero, Nat.add_zero] at h0
    simp only [feedRows, bmChunk]
    rw [daqBufferScalers_bufPass e b rows h0 d data scal hobj]
    simp only []
    apply ih
    intro i hi r hr
    have := hw (i + 1) (by simpa using hi) r (by simpa using hr)
    rw [show b + (i + 1) = b + 1 + i from by omega] at this
    exact this

/-! ## one chunk -/

theorem bufferDimensions_filter (objs : List SegObj) :
    bufferDimensions (objs.filter (·.hasData)) = bufferDimensions objs := by
  unfold bufferDimensions
  rw [List.filter_filter]
  simp

/-- **the per-chunk DAQmx step**: on a file holding the encoded chunk at the current position,
    `readDaqmxChunk` returns the dictionary `bmChunk` and advances to the end of the chunk -/
theorem readDaqmxChunk_encChunk (F : ScF) (file : Bytes) (seg : Segment) (hov : seg.override = none)
    (d : List ActiveObj) (W : List Nat) (dims : List (Nat × Nat)) (hobj : ∀ x ∈ d, DaqObj F W x)
    (hdims : bufferDimensions (d.map concObj) = .ok dims)
    (bufs : List (List Bytes)) (hck : DaqChunkOK W d bufs) (hc : RowsConform bufs dims)
    (i : Nat) (st : FState) (tail : Bytes) (hf : file.drop st.pos = encChunkDaqmx bufs ++ tail) :
    ∃ st', readDaqmxChunk file seg (d.map concObj) i st = .ok (bmChunk seg.endian d 0 bufs [], st') ∧
      st'.pos = st.pos + (encChunkDaqmx bufs).length := by
  have h := Tdms.Proofs.C11.readDaqmxChunk_reads_rows file seg (d.map concObj) i dims bufs st tail hdims hc hf
  simp only [hov] at h
  have hfeed := feedRows_bmChunk seg.endian d hobj bufs 0 [] [] (by
    intro j hj r hr
    rw [Nat.zero_add]
    exact hck.rows j (by rw [← hck.len]; exact hj) r hr)
  rw [hfeed] at h
  simpa using h

end Tdms.Proofs.C01Layouts
