/-
  C06 (lazy = eager on cut files): the bundle `LazyEqEager file r` of all agreement statements of `C03.lean`
  between the open file and the eager result, and its derivation from `SegShape` / `SizedOk` of the segment
  records (`C03.invariants_hold_sized`).  Core Lean only.
-/
import TdmsProofs.Lemmas.C06LazyFile
import TdmsProofs.Properties.C03

namespace Tdms.Proofs.C06Lazy

open Tdms Tdms.Generated Tdms.Model Tdms.Proofs.Bytes Tdms.Proofs.C01Compose Tdms.Proofs.C04 Tdms.Proofs.C03

/-- **every lazy access path on `TdmsFile.open(file)` returns the corresponding part of what `TdmsFile.read(file)`
    holds** (`r` is the eager result; `valuesIn r.channels p` the eager values of channel `p`).  For every object
    `p` with `object_metadata` entry `m`, from any file position / I/O state `st`:
    * `opens` — `TdmsFile.open` succeeds and yields the segments and the object metadata of the eager read;
    * `len` — `len(channel)` (`m.numValues`) is the number of eager values;
    * `chunks` — the chunks of `read_raw_data_for_channel(path)` concatenate to the eager values;
    * `iter` — `channel.data_chunks()` / iteration over the channel: the same, with the reported offsets;
    * `window` — `read_data(offset, length)` is `eager[offset : offset + length]` (every window);
    * `full` — `read_data()` is the eager data;
    * `slice` — `channel[a:b:c]` is CPython's slice of the eager values (for all `a b c`);
    * `index` — `channel[i]` with the one-chunk cache in any consistent state is `eager[i mod n]`;
    * `scan` — the indices `i0 … i0+n-1` in turn, cache threaded through, give `eager[i0 : i0+n]`. -/
structure LazyEqEager (file : Bytes) (r : EagerResult) : Prop where
  opens : openFile file = .ok (openOf file r)
  len : ∀ p m, r.state.objects.get p = some m → m.numValues = (valuesIn r.channels p).length
  chunks : ∀ p m, r.state.objects.get p = some m → ∀ st : FState,
    ∃ cs st', (readRawDataForChannel (openOf file r) p 0 none).run st = .ok (cs, st') ∧
      dataOf cs = valuesIn r.channels p
  iter : ∀ p m, r.state.objects.get p = some m →
    ∃ N, ∀ n st, N ≤ n → ∃ out st',
      (chanIterAll (openOf file r) n (newChanIter (openOf file r) p)).run st = .ok (out, st') ∧
      dataOf (out.map (·.1)) = valuesIn r.channels p ∧
      ∀ j x, out[j]? = some x → x.2 = (dataOf ((out.take j).map (·.1))).length
  window : ∀ p m, r.state.objects.get p = some m → m.dataType.isSome = true →
    ∀ (offset : Int) (length : Option Int), 0 ≤ offset → (∀ l, length = some l → 0 ≤ l) → ∀ st : FState,
      ∃ st' out, (channelReadData (openOf file r) p offset length).run st = .ok (some out, st') ∧
        out.data.getD [] = takeOpt length ((valuesIn r.channels p).drop offset.toNat)
  full : ∀ p m, r.state.objects.get p = some m → m.dataType.isSome = true → ∀ st : FState,
    ∃ st' out, (channelReadData (openOf file r) p 0 none).run st = .ok (some out, st') ∧
      out.data.getD [] = valuesIn r.channels p
  slice : ∀ p m, r.state.objects.get p = some m → m.dataType.isSome = true →
    ∀ (a b c : Option Int) (st : FState),
      match Tdms.Spec.PySlice.pySlice (valuesIn r.channels p) a b c with
      | .error _ => (channelReadSlice (openOf file r) p a b c).run st = .error .stepZero
      | .ok xs => ∃ st', (channelReadSlice (openOf file r) p a b c).run st = .ok (xs, st')
  index : ∀ p m, r.state.objects.get p = some m →
    ∀ (cache : Option ChunkCache), CacheOk? (valuesIn r.channels p) cache →
    ∀ (i : Int), -(m.numValues : Int) ≤ i ∧ i < m.numValues → ∀ st : FState,
      ∃ v cache' st', (channelReadAtIndex (openOf file r) p cache i).run st = .ok ((v, cache'), st') ∧
        (valuesIn r.channels p)[(i % (m.numValues : Int)).toNat]? = some v ∧
        CacheOk? (valuesIn r.channels p) cache'
  scan : ∀ p m, r.state.objects.get p = some m →
    ∀ (n i0 : Nat) (cache : Option ChunkCache), CacheOk? (valuesIn r.channels p) cache →
    i0 + n ≤ m.numValues → ∀ st : FState,
      ∃ cache' st', (indexScan (openOf file r) p n i0 cache).run st
          = .ok ((((valuesIn r.channels p).drop i0).take n, cache'), st') ∧
        CacheOk? (valuesIn r.channels p) cache'

/-- the bundle from the invariants of `C03.lean` -/
theorem lazyEqEager_of_invariants (file : Bytes) (r : EagerResult) (h : readFile file = .ok r)
    (hwf : SegsWf file r.state.segments)
    (hc : ∀ p m, r.state.objects.get p = some m → ChanOk r.state.objects r.state.segments p m) :
    LazyEqEager file r where
  opens := openFile_of_readFile file r h
  len p m hm := (eager_length_eq_numValues file r h hwf p m (hc p m hm)).symm
  chunks p m hm st := channel_chunks_eq_eager file r h hwf p m (hc p m hm) st
  iter p m hm := channel_data_chunks_eq_eager file r h hwf p m (hc p m hm)
  window p m hm hty offset length h0 hl st := window_eq_eager file r h hwf p m (hc p m hm) hty offset length h0 hl st
  full p m hm hty st := window_full_eq_eager file r h hwf p m (hc p m hm) hty st
  slice p m hm hty a b c st := slice_eq_eager file r h hwf p m (hc p m hm) hty a b c st
  index p m hm cache hcache i hi st := index_eq_eager file r h hwf p m (hc p m hm) cache hcache i hi st
  scan p m hm n i0 cache hcache hle st := index_scan_eq_eager file r h hwf p m (hc p m hm) n i0 cache hcache hle st

/-- the bundle for the eager result of ANY byte string whose segment records are contiguous with fixed-width
    data objects (`SegShape`, `SizedOk`: decidable properties of the records) -/
theorem lazyEqEager_of_sized (file : Bytes) (r : EagerResult) (h : readFile file = .ok r)
    (hshape : ∀ s ∈ r.state.segments, SegShape s) (hsized : ∀ s ∈ r.state.segments, SizedOk s) :
    LazyEqEager file r := by
  obtain ⟨_, _, hm, _, _⟩ := readFile_values file r h
  obtain ⟨hwf, hc⟩ := invariants_hold_sized file r.state hm hshape hsized
  exact lazyEqEager_of_invariants file r h hwf hc

end Tdms.Proofs.C06Lazy
