/-
  C04Layouts — the eager values `eagerW` (what `C03Mixed` compares the lazy paths with) of the segment table
  of an encoded file with contiguous and interleaved segments are the values `denote` assigns:
  `eagerW file (segRecs 0 ss as) p = colOf (allPairs ss as) p`.  No hypothesis on the kind of the objects
  (`readFile` is not run).  Core Lean only.
-/
import TdmsProofs.Lemmas.C04LayoutsSeg

namespace Tdms.Proofs.C04Layouts

open Tdms Tdms.Generated Tdms.Model Tdms.Proofs.C02 Tdms.Proofs.C01Multi Tdms.Proofs.C01Layouts Tdms.Proofs.C03
open Tdms.Proofs.C01Compose (pairsChunk bump)

/-- the eager values are the values of the eager chunk stream (for any bytes and any segment table) -/
theorem eagerW_eq_stream (file : Bytes) (p : Bytes) : ∀ (segs : List Segment),
    eagerW file segs p = streamVals (eagerChunksAllG file segs) p := by
  intro segs
  unfold streamVals eagerChunksAllG eagerW
  induction segs with
  | nil => rfl
  | cons s ss ih =>
    rw [List.flatMap_cons, List.flatMap_cons, List.flatMap_append, ← ih]
    congr 1
    unfold segE streamVals
    rw [List.flatMap_append]
    have hpre : ((if !hasFlag s.toc kTocRawData then [([] : RawChunk)] else []).flatMap fun c => chunkVals c p) = [] := by
      split <;> simp [chunkVals_nil]
    rw [hpre, List.nil_append]

/-- the values a chunk given as pairs holds for a path -/
theorem chunkVals_pairsChunk (pairs : List (Bytes × List Bytes)) (p : Bytes) :
    chunkVals (pairsChunk pairs) p = colOf pairs p := by
  unfold chunkVals pairsChunk colOf
  induction pairs with
  | nil => rfl
  | cons pv pairs ih =>
    simp only [List.map_cons, List.filter_cons]
    by_cases h : pv.1 = p
    · simp only [h, decide_true, if_true, List.flatMap_cons, Option.getD_some]
      rw [ih]
    · simp only [h, decide_false, Bool.false_eq_true, if_false]
      exact ih

theorem streamVals_pairs (ls : List (List (Bytes × List Bytes))) (p : Bytes) :
    streamVals (ls.map pairsChunk) p = colOf ls.flatten p := by
  unfold streamVals
  induction ls with
  | nil => rfl
  | cons l ls ih =>
    rw [List.map_cons, List.flatMap_cons, ih, chunkVals_pairsChunk, List.flatten_cons]
    simp [colOf, List.filter_append, List.flatMap_append]

/-- the chunk stream of a file of the class holds, per path, the values the encoding lists under it -/
theorem streamVals_rawChunksAllI (ss : List SegEnc) (as : List (List ActiveObj)) (hok : SegsOKI ss as)
    (hnd : ActsNodup as) (p : Bytes) : streamVals (rawChunksAllI ss as) p = colOf (allPairs ss as) p := by
  rw [rawChunksAllI_eq, streamVals_pairs]
  have h := pairListsAllI_fold ss as hok hnd (fun _ => [])
  rw [bump_closed, bump_closed] at h
  have := congrFun h p
  simpa using this

/-- **the eager values of the segment table of an encoded file** -/
theorem eagerW_encoded (file : Bytes) (ss : List SegEnc) (as : List (List ActiveObj))
    (hfile : file = zipEncode encodeSeg ss as) (hok : SegsOKI ss as) (hnd : ActsNodup as)
    (hw : SegsWOk file (segRecs 0 ss as)) (p : Bytes) :
    eagerW file (segRecs 0 ss as) p = colOf (allPairs ss as) p := by
  rw [eagerW_eq_stream]
  obtain ⟨st1, h1⟩ := readRawDataAll_G file (segRecs 0 ss as) hw.toF {}
  obtain ⟨st2, h2⟩ := readRawDataAll_multiI file ss as 0 {} hok hnd (by rw [hfile]; rfl)
  have h2' : readRawDataAll file (segRecs 0 ss as) {} = .ok (rawChunksAllI ss as, st2) := h2
  rw [h1] at h2'
  simp only [Except.ok.injEq, Prod.mk.injEq] at h2'
  rw [h2'.1]
  exact streamVals_rawChunksAllI ss as hok hnd p

/-- the values `denote` assigns to an object, in closed form -/
theorem values_eq_colOf (ss : List SegEnc) (as : List (List ActiveObj)) (hok : SegsOKI ss as)
    (oc : ObjContent) (hoc : oc ∈ denoteSegs [] ss as) :
    oc.values = colOf (allPairs ss as) oc.path ∧ ((denoteSegs [] ss as).map (·.path)).Nodup := by
  have hokd := segsOK_deint ss as hok
  have hnodup : ((denoteSegs [] ss as).map (·.path)).Nodup := by
    have := denoteSegs_nodup (ss.map deint) as [] hokd (by simp)
    rwa [denoteSegs_deint] at this
  have hvals : valsOf (denoteSegs [] ss as) = (allPairs ss as).foldl bump (fun _ => []) := by
    have := valsOf_denoteSegs (ss.map deint) as [] hokd
    rwa [denoteSegs_deint, allPairs_deint] at this
  refine ⟨?_, hnodup⟩
  have hvoc : valsOf (denoteSegs [] ss as) oc.path = oc.values := by
    unfold valsOf
    rw [find_of_nodup hnodup hoc]
    rfl
  rw [← hvoc, hvals, bump_closed]
  simp

end Tdms.Proofs.C04Layouts
