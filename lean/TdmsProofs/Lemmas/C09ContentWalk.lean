/-
  C09 (content): the whole loop, on a data file (possibly cut short) and on its complete index twin.
  Files are arbitrary bytes subject to `TwinOk`.  Core Lean only.
-/
import TdmsProofs.Lemmas.C09ContentStep
import TdmsProofs.Lemmas.BytesLemmas

namespace Tdms.Proofs.C09Content

open Tdms Tdms.Model Tdms.Generated Tdms.Proofs.LeadIn Tdms.Proofs.C02

/-! ## twin files -/

/-- one segment as arbitrary bytes: the 24 bytes after the tag, the metadata block, the raw data -/
structure TSeg where
  hdr : Bytes
  md : Bytes
  raw : Bytes

def TSeg.dataBytes (t : TSeg) : Bytes := tagData ++ t.hdr ++ (t.md ++ t.raw)
def TSeg.indexBytes (t : TSeg) : Bytes := tagIndex ++ t.hdr ++ t.md

def dataOf : List TSeg → Bytes
  | [] => []
  | t :: ts => t.dataBytes ++ dataOf ts

def indexOf : List TSeg → Bytes
  | [] => []
  | t :: ts => t.indexBytes ++ indexOf ts

/-- what the theorems assume of the segments: the header has 24 bytes; its raw-data offset is the length of
    the metadata block; its next-segment offset is the length of metadata plus raw data (and is not the
    `2^64-1` marker) or — in the last segment only — the marker; the metadata block is read independently of
    what follows it -/
def TwinOk : List TSeg → Prop
  | [] => True
  | t :: ts =>
    t.hdr.length = 24 ∧ hRawOff t.hdr = t.md.length ∧ MetaIndep (hToc t.hdr) t.md ∧
    ((hNextOff t.hdr = t.md.length + t.raw.length ∧ hNextOff t.hdr ≠ 2 ^ 64 - 1) ∨
     (ts = [] ∧ hNextOff t.hdr = 2 ^ 64 - 1)) ∧
    TwinOk ts

/-- no segment carries the `2^64-1` marker -/
def NoMarker : List TSeg → Prop
  | [] => True
  | t :: ts => hNextOff t.hdr ≠ 2 ^ 64 - 1 ∧ NoMarker ts

/-- position (in the data file) of the byte after the lead-in of the last segment; `0` when there is none -/
def cutBound : Nat → List TSeg → Nat
  | _, [] => 0
  | P, [_] => P + 28
  | P, t :: t' :: ts => cutBound (P + t.dataBytes.length) (t' :: ts)

theorem cutBound_ge : ∀ (ts : List TSeg) (P : Nat), ts ≠ [] → P + 28 ≤ cutBound P ts
  | [], _, h => absurd rfl h
  | [_], P, _ => Nat.le_refl _
  | t :: t' :: ts, P, _ => by
    have := cutBound_ge (t' :: ts) (P + t.dataBytes.length) (by simp)
    show P + 28 ≤ cutBound (P + t.dataBytes.length) (t' :: ts)
    omega

theorem cutBound_le_length : ∀ (ts : List TSeg) (P : Nat), (∀ t ∈ ts, t.hdr.length = 24) →
    cutBound P ts ≤ P + (dataOf ts).length
  | [], _, _ => Nat.zero_le _
  | [t], P, h => by
    have := h t (by simp)
    simp [cutBound, dataOf, TSeg.dataBytes, tagData_length, this]; omega
  | t :: t' :: ts, P, h => by
    have := cutBound_le_length (t' :: ts) (P + t.dataBytes.length) (fun x hx => h x (List.mem_cons_of_mem _ hx))
    show cutBound (P + t.dataBytes.length) (t' :: ts) ≤ P + (t.dataBytes ++ dataOf (t' :: ts)).length
    rw [List.length_append]; omega

theorem TwinOk.hdr_length : ∀ {ts : List TSeg}, TwinOk ts → ∀ t ∈ ts, t.hdr.length = 24
  | [], _, _, h => by simp at h
  | t :: ts, hok, x, hx => by
    obtain ⟨h1, _, _, _, h5⟩ := hok
    rcases List.mem_cons.mp hx with rfl | hx
    · exact h1
    · exact TwinOk.hdr_length h5 x hx

theorem dec_lt (e : Endian) (bs : Bytes) : dec e bs < 2 ^ (8 * bs.length) := by
  cases e with
  | little => exact Tdms.Proofs.Bytes.decLE_lt bs
  | big =>
    have := Tdms.Proofs.Bytes.decLE_lt bs.reverse
    rw [List.length_reverse] at this
    exact this

theorem hRawOff_lt (hdr : Bytes) : hRawOff hdr < 2 ^ 64 := by
  unfold hRawOff
  have h := dec_lt (hEndian hdr) ((hdr.drop 16).take 8)
  have hl : ((hdr.drop 16).take 8).length ≤ 8 := by simp; omega
  exact Nat.lt_of_lt_of_le h (Nat.pow_le_pow_right (by decide) (by omega))

/-! ## the relation between the two results -/

/-- the walk over the index gives the same result as the walk over the data file — or (only possible when the
    data file is cut before `bound`) both succeed and the index walk has recorded one more version number -/
def WalkRel (k bound : Nat) (resI resD : Except Err ReaderState) : Prop :=
  resI = resD ∨ (k < bound ∧ ∃ s v, resD = .ok s ∧ resI = .ok (withVersion s v))

theorem loop_past_end (file : Bytes) (isIndex : Bool) (dfs : Option Nat) (fuel fp sp : Nat) (st : ReaderState)
    (h : file.length < fp + 28) : readMetadataLoop file isIndex dfs (fuel + 1) fp sp st = .ok st := by
  rw [readMetadataLoop_succ, loopStep_past_end _ _ _ _ _ _ h]

theorem drop_take_prefix (pre rest : Bytes) (k : Nat) :
    ((pre ++ rest).take k).drop pre.length = rest.take (k - pre.length) := by
  rw [List.drop_take, List.drop_left' rfl]

theorem take_cons_segments (a b c : Bytes) (n : Nat) (h : a.length + b.length ≤ n) :
    (a ++ b ++ c).take n = a ++ b ++ c.take (n - (a.length + b.length)) := by
  rw [List.take_append, List.take_of_length_le (by simp; omega), List.length_append]

/-- **the two walks**, from any state: `dat = preD ++ dataOf ts` cut after `k` bytes against the complete
    index `preI ++ indexOf ts`, the loops standing at the first segment of `ts` -/
theorem twin_walk : ∀ (ts : List TSeg) (preD preI : Bytes) (k : Nat) (st : ReaderState) (fuelD fuelI : Nat),
    TwinOk ts → k ≤ (preD ++ dataOf ts).length → preD.length ≤ k → Keyed st.prevObjs →
    ts.length + 1 ≤ fuelD → ts.length + 1 ≤ fuelI →
    WalkRel k (cutBound preD.length ts)
      (readMetadataLoop (preI ++ indexOf ts) true (some k) fuelI preI.length preD.length st)
      (readMetadataLoop ((preD ++ dataOf ts).take k) false (some k) fuelD preD.length preD.length st) := by
  intro ts
  induction ts with
  | nil =>
    intro preD preI k st fuelD fuelI _ hk hP _ hfD hfI
    obtain ⟨fD, rfl⟩ : ∃ f, fuelD = f + 1 := ⟨fuelD - 1, by simp at hfD; omega⟩
    obtain ⟨fI, rfl⟩ : ∃ f, fuelI = f + 1 := ⟨fuelI - 1, by simp at hfI; omega⟩
    left
    rw [loop_past_end _ _ _ _ _ _ _ (by simp [indexOf]),
      loop_past_end _ _ _ _ _ _ _ (by simp [dataOf]; omega)]
  | cons t ts' ih =>
    intro preD preI k st fuelD fuelI hok hk hP hkey hfD hfI
    obtain ⟨hh, hraw, hm, hnext, hok'⟩ := hok
    obtain ⟨fD, rfl⟩ : ∃ f, fuelD = f + 1 := ⟨fuelD - 1, by simp at hfD; omega⟩
    obtain ⟨fI, rfl⟩ : ∃ f, fuelI = f + 1 := ⟨fuelI - 1, by simp at hfI; omega⟩
    have hfD' : ts'.length + 1 ≤ fD := by simp at hfD; omega
    have hfI' : ts'.length + 1 ≤ fI := by simp at hfI; omega
    -- the files at the current positions
    have hlenD : ((preD ++ dataOf (t :: ts')).take k).length = k := by
      rw [List.length_take]; omega
    have hdropD : ((preD ++ dataOf (t :: ts')).take k).drop preD.length =
        (tagData ++ t.hdr ++ (t.md ++ (t.raw ++ dataOf ts'))).take (k - preD.length) := by
      rw [drop_take_prefix]
      simp [dataOf, TSeg.dataBytes, List.append_assoc]
    have hdropI : (preI ++ indexOf (t :: ts')).drop preI.length =
        tagOf true ++ t.hdr ++ (t.md ++ indexOf ts') := by
      rw [List.drop_left' rfl]
      simp [indexOf, TSeg.indexBytes, tagOf, List.append_assoc]
    have hle : hRawOff t.hdr ≤ hNextOff t.hdr := by
      rcases hnext with ⟨h1, _⟩ | ⟨_, h2⟩
      · omega
      · have := hRawOff_lt t.hdr; omega
    have hbound : preD.length + 28 ≤ cutBound preD.length (t :: ts') := cutBound_ge _ _ (by simp)
    by_cases hc1 : k < preD.length + 28
    · -- (i) the data file ends inside this lead-in
      right
      refine ⟨by omega, st, hVersion t.hdr, ?_, ?_⟩
      · exact loop_past_end _ _ _ _ _ _ _ (by omega)
      · rw [readMetadataLoop_succ,
          loopStep_short _ true k _ _ st t.hdr _ hdropI hh (by omega) hle]
    · have htake28 : (tagData ++ t.hdr ++ (t.md ++ (t.raw ++ dataOf ts'))).take (k - preD.length) =
          tagData ++ t.hdr ++ (t.md ++ (t.raw ++ dataOf ts')).take (k - preD.length - 28) := by
        rw [take_cons_segments _ _ _ _ (by simp [tagData_length, hh]; omega)]
        simp [tagData_length, hh]
      by_cases hc2 : k < preD.length + 28 + t.md.length
      · -- (ii) the data file ends inside this segment's metadata
        left
        rw [readMetadataLoop_succ, readMetadataLoop_succ,
          loopStep_short _ true k _ _ st t.hdr _ hdropI hh (by omega) hle,
          loopStep_short _ false k _ _ st t.hdr _ (by rw [hdropD, htake28]; rfl) hh (by omega) hle]
      · -- (iii) the lead-in and the metadata are there
        have htakeM : (t.md ++ (t.raw ++ dataOf ts')).take (k - preD.length - 28) =
            t.md ++ (t.raw ++ dataOf ts').take (k - preD.length - 28 - t.md.length) := by
          rw [List.take_append, List.take_of_length_le (by omega)]
        have hD : ((preD ++ dataOf (t :: ts')).take k).drop preD.length =
            tagData ++ t.hdr ++ (t.md ++ (t.raw ++ dataOf ts').take (k - preD.length - 28 - t.md.length)) := by
          rw [hdropD, htake28, htakeM]
        have hstep := twin_step _ (preI ++ indexOf (t :: ts')) (some k) preD.length preI.length st t.hdr t.md _ _
          hD hdropI hh hraw hm hkey
        rw [readMetadataLoop_succ, readMetadataLoop_succ, hstep]
        cases hs : loopStep ((preD ++ dataOf (t :: ts')).take k) false (some k) preD.length preD.length st with
        | error e => left; rfl
        | ok r =>
          cases r with
          | done s => left; rfl
          | next fp sp s =>
            simp only []
            have hfp : fp = sp := (loopStep_progress _ _ _ _ _ _ _ _ _ hs).2.2 rfl
            have hkey' := loopStep_next_keyed _ _ _ _ _ _ _ _ _ hs hkey
            obtain ⟨li, _, hli, hsp, _⟩ := loopStep_next _ _ _ _ _ _ _ _ _ hs
            rw [hD] at hli
            have hli' : leadInOf t.hdr preD.length (some k) = .ok (some li) := by
              rw [← readLeadIn_twin false t.hdr _ preD.length (some k) hh]; exact hli
            have hnp := leadInOf_next hli'
            subst hfp
            by_cases hcomplete : hNextOff t.hdr ≠ 2 ^ 64 - 1 ∧ preD.length + hNextOff t.hdr + 28 ≤ k
            · -- (iii-a) the segment is complete: go on with the next one
              obtain ⟨hnm, hfit⟩ := hcomplete
              have hno : hNextOff t.hdr = t.md.length + t.raw.length := by
                rcases hnext with ⟨h1, _⟩ | ⟨_, h2⟩
                · exact h1
                · exact absurd h2 hnm
              rw [if_neg (by intro hc; rcases hc with a | b; exact hnm a; omega)] at hnp
              have hlenT : t.dataBytes.length = 28 + t.md.length + t.raw.length := by
                simp [TSeg.dataBytes, tagData_length, hh]; omega
              have hlenTI : t.indexBytes.length = 28 + t.md.length := by
                simp [TSeg.indexBytes, tagIndex_length, hh]; omega
              have hspv : fp = (preD ++ t.dataBytes).length := by
                rw [List.length_append, hlenT, hsp, hnp, hno]; omega
              have hq : preI.length + 28 + t.md.length = (preI ++ t.indexBytes).length := by
                rw [List.length_append, hlenTI]; omega
              have e1 : preD ++ dataOf (t :: ts') = (preD ++ t.dataBytes) ++ dataOf ts' := by
                simp [dataOf, List.append_assoc]
              have e2 : preI ++ indexOf (t :: ts') = (preI ++ t.indexBytes) ++ indexOf ts' := by
                simp [indexOf, List.append_assoc]
              rw [hspv, hq, e1, e2]
              have := ih (preD ++ t.dataBytes) (preI ++ t.indexBytes) k s fD fI hok'
                (by rw [← e1]; exact hk) (by rw [← hspv, hsp, hnp]; omega) hkey' hfD' hfI'
              cases ts' with
              | nil =>
                rcases this with h | ⟨hlt, _⟩
                · left; exact h
                · exact absurd hlt (Nat.not_lt_zero _)
              | cons t' ts'' =>
                have hcb : cutBound preD.length (t :: t' :: ts'') =
                    cutBound (preD ++ t.dataBytes).length (t' :: ts'') := by
                  rw [List.length_append]; rfl
                rw [hcb]
                exact this
            · -- (iii-b) the segment runs to the end of the data file: the data walk stops there
              have hspk : fp = k := by
                rw [hsp, hnp, if_pos]
                by_cases hmk : hNextOff t.hdr = 2 ^ 64 - 1
                · exact Or.inl hmk
                · right
                  have : ¬ (preD.length + hNextOff t.hdr + 28 ≤ k) := fun h => hcomplete ⟨hmk, h⟩
                  omega
              subst hspk
              obtain ⟨fD2, rfl⟩ : ∃ f, fD = f + 1 := ⟨fD - 1, by omega⟩
              obtain ⟨fI2, rfl⟩ : ∃ f, fI = f + 1 := ⟨fI - 1, by omega⟩
              rw [loop_past_end _ false _ _ _ _ _ (by omega)]
              cases ts' with
              | nil =>
                left
                rw [loop_past_end _ true _ _ _ _ _ (by
                  simp [indexOf, TSeg.indexBytes, tagIndex_length, hh]; omega)]
              | cons t' ts'' =>
                have hh' : t'.hdr.length = 24 := hok'.1
                have hnm : hNextOff t.hdr ≠ 2 ^ 64 - 1 := by
                  rcases hnext with ⟨_, h2⟩ | ⟨h1, _⟩
                  · exact h2
                  · cases h1
                have hno : hNextOff t.hdr = t.md.length + t.raw.length := by
                  rcases hnext with ⟨h1, _⟩ | ⟨h1, _⟩
                  · exact h1
                  · cases h1
                have hlt : fp < preD.length + t.dataBytes.length := by
                  have : ¬ (preD.length + hNextOff t.hdr + 28 ≤ fp) := fun h => hcomplete ⟨hnm, h⟩
                  simp [TSeg.dataBytes, tagData_length, hh]; omega
                have hle' : hRawOff t'.hdr ≤ hNextOff t'.hdr := by
                  obtain ⟨_, hraw', _, hn', _⟩ := hok'
                  rcases hn' with ⟨h1, _⟩ | ⟨_, h2⟩
                  · omega
                  · have := hRawOff_lt t'.hdr; omega
                have hdropI' : (preI ++ indexOf (t :: t' :: ts'')).drop (preI.length + 28 + t.md.length) =
                    tagOf true ++ t'.hdr ++ (t'.md ++ indexOf ts'') := by
                  have : preI ++ indexOf (t :: t' :: ts'') =
                      (preI ++ t.indexBytes) ++ (tagOf true ++ t'.hdr ++ (t'.md ++ indexOf ts'')) := by
                    simp [indexOf, TSeg.indexBytes, tagOf, List.append_assoc]
                  rw [this, List.drop_left' (by simp [TSeg.indexBytes, tagIndex_length, hh]; omega)]
                right
                refine ⟨?_, s, hVersion t'.hdr, rfl, ?_⟩
                · have := cutBound_ge (t' :: ts'') (preD.length + t.dataBytes.length) (by simp)
                  show fp < cutBound (preD.length + t.dataBytes.length) (t' :: ts'')
                  omega
                · rw [readMetadataLoop_succ,
                    loopStep_short _ true fp _ fp s t'.hdr _ hdropI' hh' (by omega) hle']
