/-
  C11 (lazy DAQmx) — scaler data as a function of the chunk stream.

  What the eager read holds for scaler `id` of channel `p` is the concatenation, chunk by chunk, of the
  scaler's values in every entry for `p` (`readFile_scalers`, unconditional); what `read_data` returns for
  the scaler is the same concatenation over the chunks `read_raw_data_for_channel` yields
  (`concatChunks_scalers`).  Core Lean only.
-/
import TdmsProofs.Lemmas.C11LazyChunk
import TdmsProofs.Lemmas.C03Stream

namespace Tdms.Proofs.C11Lazy

open Tdms Tdms.Generated Tdms.Model Tdms.Proofs.Bytes Tdms.Proofs.C03 Tdms.Proofs.C01Compose

/-- the values stored for scaler `id` in a scaler dictionary (first entry) -/
def scGet (l : List (Nat × List Bytes)) (id : Nat) : List Bytes := ((l.find? (·.1 = id)).map (·.2)).getD []

/-- all values listed for scaler `id`, in order -/
def scAll (sc : List (Nat × List Bytes)) (id : Nat) : List Bytes := (sc.filter (·.1 = id)).flatMap (·.2)

/-- what one channel chunk contributes to scaler `id` (nothing when it carries plain data) -/
def entrySc (cc : ChanChunk) (id : Nat) : List Bytes :=
  match cc.data, cc.scalers with
  | none, some sc => scAll sc id
  | _, _ => []

def chunkSc (c : RawChunk) (p : Bytes) (id : Nat) : List Bytes := (c.filter (·.1 = p)).flatMap fun x => entrySc x.2 id

def streamSc (chunks : List RawChunk) (p : Bytes) (id : Nat) : List Bytes := chunks.flatMap fun c => chunkSc c p id

/-- scaler `id` of channel `p` in a list of receivers -/
def scalersIn (rs : List ChannelData) (p : Bytes) (id : Nat) : List Bytes :=
  scGet (((rs.find? (·.path = p)).map (·.scalers)).getD []) id

theorem scAll_cons (x : Nat × List Bytes) (sc : List (Nat × List Bytes)) (id : Nat) :
    scAll (x :: sc) id = (if x.1 = id then x.2 else []) ++ scAll sc id := by
  unfold scAll
  by_cases h : x.1 = id
  · rw [List.filter_cons_of_pos (by simpa using h), if_pos h, List.flatMap_cons]
  · rw [List.filter_cons_of_neg (by simpa using h), if_neg h]; rfl

theorem chunkSc_cons (x : Bytes × ChanChunk) (c : RawChunk) (q : Bytes) (id : Nat) :
    chunkSc (x :: c) q id = (if x.1 = q then entrySc x.2 id else []) ++ chunkSc c q id := by
  unfold chunkSc
  by_cases h : x.1 = q
  · rw [List.filter_cons_of_pos (by simpa using h), if_pos h, List.flatMap_cons]
  · rw [List.filter_cons_of_neg (by simpa using h), if_neg h]; rfl

theorem find?_map_key (l : List (Nat × List Bytes)) (g : Nat × List Bytes → Nat × List Bytes) (hg : ∀ x, (g x).1 = x.1)
    (id : Nat) : (l.map g).find? (·.1 = id) = (l.find? (·.1 = id)).map g := by
  induction l with
  | nil => rfl
  | cons x xs ih =>
    simp only [List.map_cons, List.find?_cons, hg]
    split
    · rfl
    · exact ih

theorem scGet_append (l : List (Nat × List Bytes)) (i id : Nat) (v : List Bytes) :
    scGet (appendScalerData l i v) id = scGet l id ++ (if i = id then v else []) := by
  unfold appendScalerData scGet
  by_cases hany : (l.any fun x => decide (x.1 = i)) = true
  · rw [if_pos hany, find?_map_key l _ (by intro x; split <;> rfl) id]
    cases hf : l.find? (fun x => decide (x.1 = id)) with
    | none =>
      have hne : ¬ i = id := by
        intro h
        obtain ⟨y, hy, hyi⟩ := List.any_eq_true.mp hany
        rw [List.find?_eq_none] at hf
        exact hf y hy (by simpa using (of_decide_eq_true hyi).trans h)
      simp [hne]
    | some x =>
      have hx : x.1 = id := by simpa using List.find?_some hf
      by_cases hi : i = id
      · have : x.1 = i := hx.trans hi.symm
        simp [hi, this]
      · have : ¬ x.1 = i := fun h => hi (h.symm.trans hx)
        simp [hi, this]
  · rw [if_neg hany, List.find?_append]
    cases hf : l.find? (fun x => decide (x.1 = id)) with
    | some x =>
      have hx : x.1 = id := by simpa using List.find?_some hf
      have hne : ¬ i = id := by
        intro h
        apply hany
        rw [List.any_eq_true]
        exact ⟨x, List.mem_of_find?_eq_some hf, by simpa using hx.trans h.symm⟩
      simp [hne]
    | none =>
      by_cases hi : i = id <;> simp [hi]

theorem scGet_foldl (sc : List (Nat × List Bytes)) : ∀ (l : List (Nat × List Bytes)) (id : Nat),
    scGet (sc.foldl (fun l (x : Nat × List Bytes) => appendScalerData l x.1 x.2) l) id = scGet l id ++ scAll sc id := by
  induction sc with
  | nil => intro l id; simp [scAll]
  | cons x sc ih =>
    intro l id
    rw [List.foldl_cons, ih, scGet_append, scAll_cons, List.append_assoc]

/-! ## receivers -/

theorem rcvStep_scalers (rs rs' : List ChannelData) (pc : Bytes × ChanChunk) (h : rcvStep (.ok rs) pc = .ok rs')
    (q : Bytes) (id : Nat) :
    scalersIn rs' q id = scalersIn rs q id ++ (if pc.1 = q then entrySc pc.2 id else []) := by
  unfold rcvStep at h
  simp only [bind, Except.bind] at h
  cases hf : rs.find? (·.path = pc.1) with
  | none =>
    rw [hf] at h
    simp only [] at h
    split at h
    · cases h
    · rename_i hno
      simp only [pure, Except.pure, Except.ok.injEq] at h
      subst h
      by_cases hq : pc.1 = q
      · rw [if_pos hq]
        have : pc.2.scalers = none := by
          cases hd : pc.2.scalers with
          | none => rfl
          | some d => exfalso; apply hno; right; simp [hd]
        simp [entrySc, this]
      · simp [hq]
  | some r0 =>
    rw [hf] at h
    simp only [pure, Except.pure, Except.ok.injEq] at h
    subst h
    unfold scalersIn
    rw [find?_map_path _ _ (by intro r; split <;> (try rfl); split <;> rfl)]
    by_cases hq : pc.1 = q
    · rw [if_pos hq, ← hq, hf]
      have hr0 : r0.path = pc.1 := by
        have := List.find?_some hf; simpa using this
      simp only [Option.map_some, Option.getD_some, ne_eq, hr0, not_true_eq_false, if_false]
      unfold entrySc
      cases hd : pc.2.data with
      | some d => simp
      | none =>
        cases hs : pc.2.scalers with
        | none => simp
        | some sc =>
          simp only []
          exact scGet_foldl sc r0.scalers id
    · rw [if_neg hq, List.append_nil]
      cases hfq : rs.find? (·.path = q) with
      | none => rfl
      | some r =>
        have hr : r.path = q := by
          have := List.find?_some hfq; simpa using this
        have : r.path ≠ pc.1 := by rw [hr]; exact fun e => hq e.symm
        simp [this]

theorem receiveChunk_scalers (c : RawChunk) : ∀ (rs rs' : List ChannelData), receiveChunk rs c = .ok rs' →
    ∀ q id, scalersIn rs' q id = scalersIn rs q id ++ chunkSc c q id := by
  simp only [receiveChunk_eq]
  induction c with
  | nil =>
    intro rs rs' h q id
    simp only [List.foldl_nil, Except.ok.injEq] at h
    subst h; simp [chunkSc]
  | cons x c ih =>
    intro rs rs' h q id
    rw [List.foldl_cons] at h
    cases h1 : rcvStep (.ok rs) x with
    | error e =>
      rw [h1] at h
      have : ∀ (l : RawChunk), l.foldl rcvStep (.error e) = .error e := by
        intro l; induction l with
        | nil => rfl
        | cons y l ihl => rw [List.foldl_cons]; exact ihl
      rw [this] at h; cases h
    | ok rs1 =>
      rw [h1] at h
      rw [ih rs1 rs' h q id, rcvStep_scalers rs rs1 x h1 q id, chunkSc_cons, List.append_assoc]

theorem foldl_fileStep_scalers (st : ReaderState) (chunks : List RawChunk) :
    ∀ (rs rs' : List ChannelData), chunks.foldl (fileStep st) (.ok rs) = .ok rs' →
      ∀ q id, scalersIn rs' q id = scalersIn rs q id ++ streamSc chunks q id := by
  induction chunks with
  | nil =>
    intro rs rs' h q id
    simp only [List.foldl_nil, Except.ok.injEq] at h
    subst h; simp [streamSc]
  | cons c cs ih =>
    intro rs rs' h q id
    rw [List.foldl_cons] at h
    cases h1 : fileStep st (.ok rs) c with
    | error e => rw [h1, foldl_fileStep_error] at h; cases h
    | ok rs1 =>
      rw [h1] at h
      have hrc : receiveChunk rs c = .ok rs1 := by
        unfold fileStep at h1
        simp only [bind, Except.bind] at h1
        cases hr : receiveChunk rs c with
        | error e => rw [hr] at h1; cases h1
        | ok rs2 =>
          rw [hr] at h1
          simp only [] at h1
          cases hc : checkCapacity st rs2 with
          | error e => rw [hc] at h1; cases h1
          | ok u => rw [hc] at h1; simp only [pure, Except.pure, Except.ok.injEq] at h1; rw [h1]
      rw [ih rs1 rs' h q id, receiveChunk_scalers c rs rs1 hrc q id]
      simp [streamSc, List.append_assoc]

theorem scGet_map_nil (ids : List Nat) (id : Nat) : scGet (ids.map fun i => (i, ([] : List Bytes))) id = [] := by
  unfold scGet
  cases hf : (ids.map fun i => (i, ([] : List Bytes))).find? (·.1 = id) with
  | none => rfl
  | some x =>
    have := List.mem_of_find?_eq_some hf
    rw [List.mem_map] at this
    obtain ⟨i, _, rfl⟩ := this
    rfl

theorem scalersIn_receivers (ms : List ObjMeta) (q : Bytes) (id : Nat) : scalersIn (ms.filterMap newReceiver) q id = [] := by
  unfold scalersIn
  cases hf : (ms.filterMap newReceiver).find? (·.path = q) with
  | none => rfl
  | some r =>
    have hm := List.mem_of_find?_eq_some hf
    rw [List.mem_filterMap] at hm
    obtain ⟨m, _, hm⟩ := hm
    unfold newReceiver at hm
    split at hm
    · cases hm
    · split at hm
      · cases hm
        simp only [Option.map_some, Option.getD_some]
        have : (List.map (fun x => (x.1, ([] : List Bytes))) (m.scalerTypes.getD []))
            = ((m.scalerTypes.getD []).map (·.1)).map fun i => (i, ([] : List Bytes)) := by
          rw [List.map_map]; rfl
        rw [this]
        exact scGet_map_nil _ id
      · cases hm; rfl

/-- **what the eager read holds for a scaler is the concatenation over the chunk stream**, which is the
    concatenation of `segEager` over the segments — unconditional -/
theorem readFile_scalers (file : Bytes) (r : EagerResult) (h : readFile file = .ok r) :
    ∀ p id, scalersIn r.channels p id = streamSc (r.state.segments.flatMap (segEager file)) p id := by
  unfold readFile at h
  simp only [bind, Except.bind] at h
  cases hm : readMetadata file with
  | error e => rw [hm] at h; cases h
  | ok st =>
    rw [hm] at h
    simp only [] at h
    cases hr : (readRawDataAll file st.segments).run {} with
    | error e => rw [hr] at h; cases h
    | ok cf =>
      obtain ⟨chunks, fs⟩ := cf
      rw [hr] at h
      simp only [] at h
      have hfold : ∀ rs, chunks.foldl (fileStep st) (.ok rs) =
          chunks.foldl (fun acc c => do
            let rs ← acc
            let rs' ← receiveChunk rs c
            checkCapacity st rs'
            pure rs') (.ok rs) := fun _ => rfl
      cases hf : chunks.foldl (fileStep st)
          (.ok ((st.objects.filter fun m => countComponents m.path = 2).filterMap newReceiver)) with
      | error e =>
        rw [hfold] at hf
        simp only [bind, Except.bind] at hf
        rw [hf] at h; cases h
      | ok rs =>
        have hf' := hf
        rw [hfold] at hf
        simp only [bind, Except.bind] at hf
        rw [hf] at h
        simp only [pure, Except.pure, Except.ok.injEq] at h
        subst h
        intro p id
        have hch : chunks = st.segments.flatMap (segEager file) := readRawDataAll_flatMap file st.segments {} fs chunks hr
        rw [foldl_fileStep_scalers st chunks _ rs hf' p id, scalersIn_receivers, hch]
        rfl

/-! ## `concatChunks` -/

/-- the scaler values `read_data` returns are the concatenated chunk contributions -/
theorem concatChunks_scalers (dataType : Option Nat) (ids : List Nat) (cs : List ChanChunk) (id : Nat) :
    scGet (concatChunks dataType ids cs).scalers id = cs.flatMap fun c => entrySc c id := by
  unfold concatChunks
  simp only []
  have hfold : ∀ (cs : List ChanChunk) (r : ReadOut),
      scGet (cs.foldl (fun r c =>
        match c.data, c.scalers with
        | some d, _ => { r with data := some (r.data.getD [] ++ d) }
        | none, some sc => { r with scalers := sc.foldl (fun l (x : Nat × List Bytes) => appendScalerData l x.1 x.2) r.scalers }
        | none, none => r) r).scalers id = scGet r.scalers id ++ cs.flatMap fun c => entrySc c id := by
    intro cs
    induction cs with
    | nil => intro r; simp
    | cons c cs ih =>
      intro r
      rw [List.foldl_cons, ih, List.flatMap_cons, ← List.append_assoc]
      congr 1
      unfold entrySc
      cases hd : c.data with
      | some d => simp
      | none =>
        cases hs : c.scalers with
        | none => simp
        | some sc => simp only []; exact scGet_foldl sc r.scalers id
  refine (hfold cs _).trans ?_
  split
  · rw [scGet_map_nil]; rfl
  · rfl

end Tdms.Proofs.C11Lazy
