import Tdms.Generated.Code
import Tdms.Model.Timestamp
import TdmsProofs.Lemmas.TiedPrelude
import TdmsProofs.Lemmas.C12Lemmas

/-!
# Helper lemmas for the C12 tied theorems (`TdmsProofs/Properties/C12Tied.lean`)

The GENERATED timestamp definitions of `Tdms/Generated/Code.lean`
(`TdmsTimestamp.as_datetime64`, `_multiply_high`, `TimestampArray.as_datetime64_steps`,
`TimeStamp.init_encode`) equal the hand-written model `Tdms/Model/Timestamp.lean`.  Core Lean only.
-/

namespace Tdms.Generated.Py

/-! ## generic facts about the `Py.*` integer operations (candidates for `TiedPrelude.lean`) -/

/-- `a >> n` on a non-negative int -/
theorem shr_natCast (a n : Nat) : shr (a : Int) n = ((a / 2 ^ n : Nat) : Int) := by
  unfold shr
  rw [Int.fdiv_eq_ediv_of_nonneg _ (Int.le_of_lt (Int.pow_pos (by decide)))]
  rw [Int.natCast_ediv, Int.natCast_pow]
  rfl

/-- `a >> n` is Lean's `/` (floor for a positive divisor) -/
theorem shr_eq_ediv (a : Int) (n : Nat) : shr a n = a / 2 ^ n := by
  unfold shr
  rw [Int.fdiv_eq_ediv_of_nonneg _ (Int.le_of_lt (Int.pow_pos (by decide)))]

theorem shl_eq_mul (a : Int) (n : Nat) : shl a n = a * 2 ^ n := rfl

/-- `np.uint64(i)` of an in-range-or-not non-negative int: reduction modulo `2^64` -/
theorem toNat_u64_natCast (a : Nat) : (u64 (a : Int)).toNat = a % 2 ^ 64 := by
  unfold u64
  rw [UInt64.toNat_ofNat']
  have h : ((a : Int) % 18446744073709551616).toNat = a % 18446744073709551616 := by omega
  rw [h]
  omega

theorem toNat_u64 (i : Int) : (u64 i).toNat = (i % 2 ^ 64).toNat := by
  unfold u64
  rw [UInt64.toNat_ofNat']
  have h : (2 : Int) ^ 64 = 18446744073709551616 := by decide
  rw [h]
  omega

/-- `np.uint64(lit)` of a non-negative literal -/
theorem toNat_u64_ofNat (n : Nat) : (u64 (OfNat.ofNat n : Int)).toNat = n % 2 ^ 64 :=
  toNat_u64_natCast n

/-- `a & lit` on a non-negative int and a non-negative literal -/
theorem band_natCast_ofNat (a n : Nat) : band (a : Int) (OfNat.ofNat n : Int) = ((a &&& n : Nat) : Int) := rfl

/-- `a & (2^k - 1)` on a non-negative int is `a % 2^k` -/
theorem band_natCast_mask (a k n : Nat) (hn : n = 2 ^ k - 1) :
    band (a : Int) (OfNat.ofNat n : Int) = ((a % 2 ^ k : Nat) : Int) := by
  rw [band_natCast_ofNat, hn, Nat.and_two_pow_sub_one_eq_mod]

/-- `np.minimum` / `min` of two `uint64` -/
theorem UInt64_toNat_min (a b : UInt64) : (min a b).toNat = min a.toNat b.toNat := by
  rw [Nat.min_def]
  show (if a ≤ b then a else b).toNat = _
  by_cases h : a ≤ b
  · rw [if_pos h, if_pos (UInt64.le_iff_toNat_le.mp h)]
  · rw [if_neg h, if_neg (fun h' => h (UInt64.le_iff_toNat_le.mpr h'))]

/-- `try: d[k] except KeyError: raise ValueError` when the key is present -/
theorem tryCatch_ok {α : Type} (v : α) (cls : Exc) (h : Except Exc α) : tryCatch (.ok v) cls h = .ok v := rfl

theorem tryCatch_error_same {α : Type} (cls : Exc) (h : Except Exc α) :
    tryCatch (.error cls) cls h = h := by
  simp [tryCatch]

theorem ok_bind {α β : Type} (a : α) (f : α → Except Exc β) : (Except.ok a >>= f) = f a := rfl
theorem error_bind {α β : Type} (e : Exc) (f : α → Except Exc β) : (Except.error e >>= f) = .error e := rfl
theorem throw_bind {α β : Type} (e : Exc) (f : α → Except Exc β) :
    ((throw e : Except Exc α) >>= f) = .error e := rfl

theorem Dict.getE_of_not_mem {κ ν : Type} [DecidableEq κ] (d : Dict κ ν) (k : κ)
    (h : ∀ kv ∈ d, kv.1 ≠ k) : Dict.getE d k = .error "KeyError" := by
  unfold Dict.getE
  have : d.find? (fun kv => decide (kv.1 = k)) = none := by
    rw [List.find?_eq_none]
    intro kv hkv
    simpa using h kv hkv
  rw [this]

/-- `d[k]` either returns the value of an entry with that key or raises `KeyError` -/
theorem Dict.getE_cases {κ ν : Type} [DecidableEq κ] (d : Dict κ ν) (k : κ) :
    (∃ v, (k, v) ∈ d ∧ Dict.getE d k = .ok v) ∨ ((∀ kv ∈ d, kv.1 ≠ k) ∧ Dict.getE d k = .error "KeyError") := by
  unfold Dict.getE
  cases hf : d.find? (fun kv => decide (kv.1 = k)) with
  | none =>
    right
    rw [List.find?_eq_none] at hf
    exact ⟨fun kv hkv => by simpa using hf kv hkv, rfl⟩
  | some kv =>
    left
    have h1 := List.find?_some hf
    have h2 := List.mem_of_find?_eq_some hf
    have hk : kv.1 = k := by simpa using h1
    refine ⟨kv.2, ?_, rfl⟩
    rw [← hk]
    exact h2

end Tdms.Generated.Py

namespace Tdms.Proofs.TiedC12

open Tdms.Generated Tdms.Generated.Code Tdms.Model.Timestamp

/-! ## 1. scalar reader -/

theorem tolerance_eq : _FRACTIONS_TOLERANCE = ((tol : Nat) : Int) := by decide
theorem maxFractions_eq : _MAX_FRACTIONS = ((maxFrac : Nat) : Int) := by decide

theorem scalar_fractions (frac : Nat) :
    min ((frac : Int) + _FRACTIONS_TOLERANCE) _MAX_FRACTIONS = ((min (frac + tol) maxFrac : Nat) : Int) := by
  rw [tolerance_eq, maxFractions_eq]
  omega

theorem as_datetime64_ok (seconds : Int) (frac : Nat) (res : List Char) (R : Nat)
    (h : Py.Dict.getE _steps_per_second res = .ok (R : Int)) :
    TdmsTimestamp.as_datetime64 ⟨seconds, (frac : Int)⟩ res
      = .ok (seconds, ((steps R frac : Nat) : Int)) := by
  unfold TdmsTimestamp.as_datetime64
  simp only [h, Py.tryCatch_ok, Py.ok_bind]
  rw [scalar_fractions, ← Int.natCast_mul, Py.shr_natCast]
  rfl

theorem as_datetime64_keyError (self : TdmsTimestamp) (res : List Char)
    (h : Py.Dict.getE _steps_per_second res = .error "KeyError") :
    TdmsTimestamp.as_datetime64 self res = .error "ValueError" := by
  unfold TdmsTimestamp.as_datetime64
  simp only [h, Py.tryCatch_error_same, Py.throw_bind]

/-- the keys of the generated table, in order -/
theorem steps_per_second_keys :
    _steps_per_second.map (·.1) = [['s'], ['m', 's'], ['u', 's'], ['n', 's'], ['p', 's']] := rfl

theorem getE_unknown (res : List Char)
    (h : res ∉ [['s'], ['m', 's'], ['u', 's'], ['n', 's'], ['p', 's']]) :
    Py.Dict.getE _steps_per_second res = .error "KeyError" := by
  apply Py.Dict.getE_of_not_mem
  intro kv hkv hk
  apply h
  rw [← steps_per_second_keys, ← hk]
  exact List.mem_map_of_mem hkv

/-- every value of the generated table is a positive natural number `≤ 10^12` -/
theorem getE_ok_nat (res : List Char) (v : Int) (h : Py.Dict.getE _steps_per_second res = .ok v) :
    ∃ R : Nat, v = (R : Int) ∧ R ∈ [1, 10 ^ 3, 10 ^ 6, 10 ^ 9, 10 ^ 12] := by
  rcases Py.Dict.getE_cases _steps_per_second res with ⟨w, hw, hg⟩ | ⟨_, hg⟩
  · rw [hg] at h
    injection h with h
    subst h
    simp only [_steps_per_second, List.mem_cons, Prod.mk.injEq, List.not_mem_nil, or_false] at hw
    rcases hw with ⟨_, rfl⟩ | ⟨_, rfl⟩ | ⟨_, rfl⟩ | ⟨_, rfl⟩ | ⟨_, rfl⟩
    · exact ⟨1, rfl, by simp⟩
    · exact ⟨10 ^ 3, rfl, by simp⟩
    · exact ⟨10 ^ 6, rfl, by simp⟩
    · exact ⟨10 ^ 9, rfl, by simp⟩
    · exact ⟨10 ^ 12, rfl, by simp⟩
  · rw [hg] at h
    cases h

/-! ## 2. `_multiply_high` -/

theorem u64_32 : (Py.u64 32).toNat = 32 := by decide
theorem u64_mask32 : (Py.u64 4294967295).toNat = 2 ^ 32 - 1 := by decide

theorem multiply_high_toNat (x : UInt64) (m : Nat) :
    (_multiply_high x (m : Int)).toNat = mulhi64 x.toNat m := by
  unfold _multiply_high mulhi64
  simp only [UInt64.toNat_add, UInt64.toNat_mul, UInt64.toNat_shiftRight, UInt64.toNat_and,
    Py.shr_natCast, Py.toNat_u64_natCast, u64_32, u64_mask32,
    Py.band_natCast_mask _ 32 4294967295 (by decide), Nat.and_two_pow_sub_one_eq_mod,
    Nat.shiftRight_eq_div_pow, W64]

/-- chained with the exactness theorem of the model (`mulhi64_exact_aux`): the high 64 bits of the product -/
theorem multiply_high_exact (x : UInt64) (m : Nat) (hm : m < 2 ^ 64) :
    (_multiply_high x (m : Int)).toNat = x.toNat * m / 2 ^ 64 := by
  rw [multiply_high_toNat]
  exact Tdms.Proofs.C12.mulhi64_exact_aux x.toNat m x.toNat_lt hm

/-! ## 3. array reader -/

theorem array_fractions (x : UInt64) :
    ((min x (Py.u64 (_MAX_FRACTIONS - _FRACTIONS_TOLERANCE))) + (Py.u64 _FRACTIONS_TOLERANCE)).toNat
      = (min x.toNat (maxFrac - tol) + tol) % W64 := by
  have h1 : _MAX_FRACTIONS - _FRACTIONS_TOLERANCE = (((maxFrac - tol : Nat)) : Int) := by decide
  rw [UInt64.toNat_add, Py.UInt64_toNat_min, h1, tolerance_eq, Py.toNat_u64_natCast, Py.toNat_u64_natCast]
  have h2 : (maxFrac - tol) % 2 ^ 64 = maxFrac - tol := by decide
  have h3 : tol % 2 ^ 64 = tol := by decide
  rw [h2, h3]
  rfl

theorem as_datetime64_steps_toNat (x : UInt64) (R : Nat) :
    (TimestampArray.as_datetime64_steps x (R : Int)).toNat = stepsArr R x.toNat := by
  unfold TimestampArray.as_datetime64_steps stepsArr
  simp only [multiply_high_toNat, array_fractions]

/-! ## 4. writer -/

theorem init_encode_eq (delta : Int) :
    TimeStamp.init_encode delta = ((encodeFloor delta).1, (((encodeFloor delta).2 : Nat) : Int)) := by
  unfold TimeStamp.init_encode encodeFloor encode encodeFracInt
  simp only [Py.shl_eq_mul, Int.reduceMul, Int.reducePow, Int.fdiv_eq_ediv_of_nonneg _ (by decide : (0:Int) ≤ 1000000)]
  by_cases h : delta - delta / 1000000 * 1000000 < 0
  · omega
  · simp only [if_neg h]
    congr 1
    omega

end Tdms.Proofs.TiedC12
