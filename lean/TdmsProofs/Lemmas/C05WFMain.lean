import TdmsProofs.Lemmas.C05WFFacts
import TdmsProofs.Lemmas.C05ChunkLocal
import TdmsProofs.Lemmas.C19WF
import TdmsProofs.Lemmas.C04WholeFile

/-!
# C05WF / C19WF: `IndexWF`, `SegWF` and C04's layout hypotheses for what `openFile` returns

For ARBITRARY bytes, given the three properties of the FILE that the reader cannot guarantee (distinct
paths within a segment, no DAQmx segment, no truncated interleaved segment); and unconditionally for the
encoding of a file of the class `MultiStd`.  Core Lean only.
-/

namespace Tdms.Proofs.C05WF

open Tdms Tdms.Model Tdms.Generated Tdms.Proofs.C02 Tdms.Proofs.C04 Tdms.Proofs.C05 Tdms.Proofs.C19
open Tdms.Proofs.C01Multi

/-- distinct paths within every segment: a property of the file (a metadata block with a new object list
    may name the same path twice, and the reader then keeps both objects) -/
def UniquePaths (f : OpenFile) : Prop := ∀ s ∈ f.segments, (s.objects.map (·.path)).Nodup

/-- no segment is read by the DAQmx reader -/
def NoDaqmx (f : OpenFile) : Prop := ∀ s ∈ f.segments, dataReaderKind s ≠ .ok .daqmx

/-- no interleaved segment has a truncated final chunk -/
def InterleavedFull (f : OpenFile) : Prop :=
  ∀ s ∈ f.segments, dataReaderKind s = .ok .interleaved → s.override = none

instance (f : OpenFile) : Decidable (UniquePaths f) := by unfold UniquePaths; infer_instance
instance (f : OpenFile) : Decidable (NoDaqmx f) := by unfold NoDaqmx; infer_instance
instance (f : OpenFile) : Decidable (InterleavedFull f) := by unfold InterleavedFull; infer_instance

theorem haveDaqmx_of_not_daqmx {s : Segment} {c : Nat} (hc : chunkSize s.objects = .ok c)
    (hk : dataReaderKind s ≠ .ok .daqmx) : haveDaqmxObjects s.objects = .ok false := by
  unfold chunkSize at hc
  cases hd : haveDaqmxObjects s.objects with
  | error e => simp [hd, bind, Except.bind] at hc
  | ok b =>
    cases b with
    | false => rfl
    | true =>
      exfalso
      apply hk
      unfold dataReaderKind
      simp [hd, bind, Except.bind, pure, Except.pure]

/-- the facts about one segment of an opened file -/
theorem segFacts_of_inv {segs : List Segment} {prev : PrevObjs} {ms : ObjMetas} (hi : Inv segs prev ms)
    (s : Segment) (hs : s ∈ segs) (hk : dataReaderKind s ≠ .ok .daqmx) (hnd : (s.objects.map (·.path)).Nodup) :
    SegFacts s := by
  obtain ⟨s0, h0, hcalc⟩ := hi.calcd s hs
  obtain ⟨c, hc, _, _⟩ := calculateChunks_inv h0 hcalc
  exact segFacts_of_calc h0 hcalc (hi.segOK s hs) (haveDaqmx_of_not_daqmx hc hk) hnd

/-! ## the index total -/

theorem indexTotal_eq_sum (f : OpenFile) (p : Bytes) : indexTotal f p = (C04.nvOf f.segments p).sum := by
  unfold indexTotal
  have spec := buildIndex_spec f.segments p
  generalize C04.nvOf f.segments p = nv at spec
  cases spec with
  | empty hzero hix => rw [hix]; simp [sum_eq_zero_of_all_zero nv hzero]
  | data first last hfl hlast hfpos hlpos hbefore hafter hix =>
    rw [hix]
    simp only
    have hlen : ((nv.drop first).take (last + 1 - first)).length = last + 1 - first := by
      rw [List.length_take, List.length_drop]; omega
    have hget := C04.cumsumFrom_getD 0 ((nv.drop first).take (last + 1 - first)) (last - first) (by omega)
    rw [List.getLast?_eq_getElem?, C04.cumsumFrom_length, hlen,
      getD_eq_of_lt _ _ (by rw [C04.cumsumFrom_length, hlen]; omega)]
    simp only [Option.getD_some]
    rw [show last + 1 - first - 1 = last - first by omega, hget, Nat.zero_add,
      List.take_of_length_le (by omega)]
    have h1 := psum_add nv first (last + 1 - first)
    rw [show first + (last + 1 - first) = last + 1 by omega, psum_eq_zero_of_before nv first hbefore first (Nat.le_refl _),
      psum_eq_sum_of_after nv last hafter (last + 1) (by omega), Nat.zero_add] at h1
    exact h1.symm

theorem chanLen_eq_nvAt (f : OpenFile) (p : Bytes) : chanLen f p = nvAt f.objects p := rfl

/-- **`len(channel)` = last offset of the index**, for an opened file with distinct paths per segment -/
theorem chanLen_eq_indexTotal {f : OpenFile} {prev : PrevObjs} (hi : Inv f.segments prev f.objects)
    (hu : UniquePaths f) (p : Bytes) : chanLen f p = indexTotal f p := by
  rw [chanLen_eq_nvAt, hi.counts p, indexTotal_eq_sum]
  unfold C04.nvOf
  congr 1
  apply List.map_congr_left
  intro s hs
  exact segContrib_of_nodup s (hu s hs) p

/-- **`IndexWF` for an opened file** -/
theorem indexWF_of_inv {f : OpenFile} {prev : PrevObjs} (hi : Inv f.segments prev f.objects)
    (hu : UniquePaths f) (hnd : NoDaqmx f) (hil : InterleavedFull f) : IndexWF f := by
  refine ⟨hnd, hil, ?_, ?_, ?_, ?_⟩
  · intro s hs o ho o' ho' hp
    obtain ⟨i, hi', rfl⟩ := List.getElem_of_mem ho
    obtain ⟨j, hj, rfl⟩ := List.getElem_of_mem ho'
    have h1 : (s.objects.map (·.path))[i]? = some s.objects[i].path := by simp [hi']
    have h2 : (s.objects.map (·.path))[j]? = some s.objects[i].path := by simp [hj, hp]
    have := (List.getElem?_inj (by simpa using hi') (hu s hs)).1 (h1.trans h2.symm)
    subst this; rfl
  · intro s hs ov hov o ho
    exact (segFacts_of_inv hi s hs (hnd s hs) (hu s hs)).override_le ov hov o ho
  · intro s hs ov hov
    obtain ⟨s0, h0, hcalc⟩ := hi.calcd s hs
    obtain ⟨c, _, _, hcase⟩ := calculateChunks_inv h0 hcalc
    rcases hcase with ⟨hnone, _⟩ | ⟨ov', r, _, _, _, hk, _, _⟩
    · rw [hnone] at hov; cases hov
    · exact hk
  · intro p
    rw [chanLen_eq_indexTotal hi hu p]
    exact Nat.le_refl _

/-- **`SegWF` for a segment of an opened file** -/
theorem segWF_of_inv {f : OpenFile} {prev : PrevObjs} (hi : Inv f.segments prev f.objects)
    (s : Segment) (hs : s ∈ f.segments) (hk : dataReaderKind s ≠ .ok .daqmx)
    (hnd : (s.objects.map (·.path)).Nodup) : SegWF s := by
  have hf := segFacts_of_inv hi s hs hk hnd
  exact ⟨hf.dataSize_eq, fun ov hov o ho => hf.override_le ov hov o (List.mem_filter.1 ho).1⟩

/-- **C04's layout hypotheses for an opened file**: the layout of every path is well formed and
    `object_metadata[p].num_values` is its total -/
theorem layout_of_inv {f : OpenFile} {prev : PrevObjs} (hi : Inv f.segments prev f.objects)
    (hu : UniquePaths f) (hnd : NoDaqmx f) (p : Bytes) :
    WellFormed (f.segments.map (layoutOf p)) ∧ chanLen f p = total (f.segments.map (layoutOf p)) := by
  have hwf : WellFormed (f.segments.map (layoutOf p)) := by
    intro l hl
    obtain ⟨s, hs, rfl⟩ := List.mem_map.1 hl
    have hf := segFacts_of_inv hi s hs (hnd s hs) (hu s hs)
    unfold SegL.WF layoutOf
    cases hov : s.override with
    | none => trivial
    | some ov =>
      simp only [Option.map_some]
      refine ⟨?_, hf.override_chunks ov hov⟩
      cases hg : getSegmentObject s p with
      | none =>
        simp only
        have h0 : overrideGet ov p = 0 := by
          apply hf.override_absent ov hov p
          intro hmem
          obtain ⟨o, ho, hp⟩ := List.mem_map.1 hmem
          have := (existingIndex_none s.objects p).1 (by
            unfold getSegmentObject at hg
            cases he : existingIndex s.objects p with
            | none => rfl
            | some i =>
              exfalso
              obtain ⟨o', ho', _⟩ := existingIndex_some_getElem he
              simp [he, ho'] at hg) o (List.mem_filter.1 ho).1
          exact this hp
        rw [h0]; exact Nat.le_refl _
      | some o =>
        obtain ⟨hmem, hp⟩ := getSegmentObject_some hg
        simp only
        cases hd : o.hasData with
        | true => simp only [if_true]; rw [← hp]; exact hf.override_le ov hov o hmem
        | false =>
          simp only [Bool.false_eq_true, if_false]
          have h0 : overrideGet ov p = 0 := by
            apply hf.override_absent ov hov p
            intro hm
            obtain ⟨o', ho', hp'⟩ := List.mem_map.1 hm
            have ho'' := List.mem_filter.1 ho'
            have hget := Tdms.Proofs.C04Whole.getSegmentObject_of_mem s (hu s hs) o' ho''.1
            rw [hp', hg] at hget
            cases hget
            rw [hd] at ho''
            exact absurd ho''.2 (by simp)
          rw [h0]; exact Nat.le_refl _
  refine ⟨hwf, ?_⟩
  rw [chanLen_eq_indexTotal hi hu p, indexTotal_eq_sum, C04.nvOf_eq f.segments p hwf]
  rfl

/-! ## the encoding of a file of the class -/

theorem segRec_kind {pos : Nat} {s : SegEnc} {a : List ActiveObj} (hok : SegOK s a) :
    dataReaderKind (segRec pos s a) = .ok .contiguous :=
  dataReaderKind_conc _ a hok.good rfl (by
    show hasFlag (tocMask s) kTocInterleavedData = false
    rw [Tdms.Proofs.Bytes.hasFlag_tocMask_interleaved, hok.std.contiguous])

/-- the three file properties hold for `openFile (encodeFile e)` -/
theorem file_props_encoded (e : FileEnc) (h : MultiStd e) (fit : FileFits e) (bytes : Bytes)
    (hb : encodeFile e = .ok bytes) (hlen : bytes.length < 2 ^ 63) :
    ∃ f, openFile bytes = .ok f ∧ UniquePaths f ∧ (∀ s ∈ f.segments, dataReaderKind s = .ok .contiguous) ∧
      (∀ s ∈ f.segments, s.override = none) := by
  obtain ⟨f, acts, ss, as, hopen, ha, hc, hfile, hsegs, hobjs⟩ :=
    Tdms.Proofs.C04Whole.openFile_encoded e h fit bytes hb hlen
  have hall : ∀ seg ∈ f.segments, ∃ pos s a, seg = segRec pos s a ∧ SegOK s a ∧ (a.map (·.path)).Nodup := by
    intro seg hseg
    obtain ⟨i, hi, rfl⟩ := List.getElem_of_mem hseg
    have hget : (segRecs 0 ss as)[i]? = some f.segments[i] := by rw [← hsegs]; exact List.getElem?_eq_getElem hi
    obtain ⟨pos', s, a, rest, hs, ha', heq, _⟩ :=
      Tdms.Proofs.C04Whole.segRecs_at f.file ss as 0 (by rw [hfile]; rfl) i _ hget
    exact ⟨pos', s, a, heq, Tdms.Proofs.C04Whole.segsOK_getElem ss as hc.ok i s a hs ha',
      hc.nodup a (List.mem_of_getElem? ha')⟩
  refine ⟨f, hopen, ?_, ?_, ?_⟩
  · intro seg hseg
    obtain ⟨pos, s, a, rfl, _, hnd⟩ := hall seg hseg
    show ((a.map concObj).map (·.path)).Nodup
    rw [map_concObj_paths]; exact hnd
  · intro seg hseg
    obtain ⟨pos, s, a, rfl, hok, _⟩ := hall seg hseg
    exact segRec_kind hok
  · intro seg hseg
    obtain ⟨pos, s, a, rfl, _, _⟩ := hall seg hseg
    rfl

end Tdms.Proofs.C05WF
