/-
  C01, composed theorem for one-segment files: `readRawDataAll` on the encoding of a single standard
  segment.  Core Lean only.
-/
import TdmsProofs.Lemmas.C01ComposeMeta

namespace Tdms.Proofs.C01Compose

open Tdms Tdms.Generated Tdms.Model Tdms.Proofs.Bytes

/-! ## reader objects, encoder objects and values of a chunk agree -/

theorem contOK_std (ds : List ObjEnc) :
    ∀ (chunk : List (List Bytes)), (∀ d ∈ ds, wfObj d = true) →
      (∀ d ∈ ds, ∀ n total, d.idx = .full tyString n total → total < 2 ^ 32) →
      wfStdChunk (ds.map actOf) chunk = true →
      contOK (ds.map segObjOf) (ds.map actOf) chunk := by
  induction ds with
  | nil => intro chunk _ _ hch; cases chunk <;> simp [wfStdChunk, contOK] at hch ⊢
  | cons d ds ih =>
    intro chunk hwf hstr hch
    cases chunk with
    | nil => simp [wfStdChunk] at hch
    | cons v vs =>
      have hd := hwf d List.mem_cons_self
      have hs := hstr d List.mem_cons_self
      have ih' := fun h => ih vs (fun q hq => hwf q (List.mem_cons_of_mem _ hq))
        (fun q hq => hstr q (List.mem_cons_of_mem _ hq)) h
      obtain ⟨p, idx, ps⟩ := d
      cases idx with
      | noData => simp [wfStdChunk, actOf] at hch
      | matchesPrev => simp [wfStdChunk, actOf] at hch
      | daqmx dg ty n sc w => simp [wfStdChunk, actOf] at hch
      | full ty n total =>
        simp only [List.map_cons, actOf, wfStdChunk, Bool.and_eq_true, decide_eq_true_eq] at hch
        obtain ⟨⟨hn, hshape⟩, hrest⟩ := hch
        refine ⟨⟨rfl, ?_, ?_⟩, ih' hrest⟩
        · simp [segObjOf, segObjOfIdx, stdIndexObj, hn]
        · by_cases hty : ty = tyString
          · subst hty
            right
            simp only [if_true, decide_eq_true_eq] at hshape
            refine ⟨rfl, ?_⟩
            have := hs n total rfl
            rw [← sum_map_length_eq_flatten]
            omega
          · left
            simp only [hty, if_false, List.all_eq_true, decide_eq_true_eq] at hshape
            simp only [wfObj, wfIdx, Bool.and_eq_true, Bool.or_eq_true, decide_eq_true_eq, hty,
              false_or] at hd
            obtain ⟨sz, hsz⟩ := Option.isSome_iff_exists.mp hd.1.1.1
            refine ⟨sz, hsz, fun x hx => ?_⟩
            have := hshape x hx
            rw [hsz] at this
            exact Option.some.inj this

/-! ## all chunks of the segment -/

theorem readChunksSeq_enc (file : Bytes) (seg : Segment) (hov : seg.override = none) (ds : List ObjEnc) :
    ∀ (chs : List (List (List Bytes))) (i pos : Nat) (tr : List (Nat × Nat)) (rest : Bytes),
      (∀ ch ∈ chs, contOK (ds.map segObjOf) (ds.map actOf) ch) →
      file.drop pos = chs.flatMap (encChunkContiguous seg.endian (ds.map actOf)) ++ rest →
      ∃ tr', (readChunksSeq file seg .contiguous (ds.map segObjOf) i chs.length).run ⟨pos, tr⟩ =
        .ok (chs.map (setCols [] (ds.map segObjOf)),
          ⟨pos + (chs.flatMap (encChunkContiguous seg.endian (ds.map actOf))).length, tr'⟩) := by
  intro chs
  induction chs with
  | nil => intro i pos tr rest _ _; exact ⟨tr, rfl⟩
  | cons ch chs ih =>
    intro i pos tr rest hok hfile
    simp only [List.flatMap_cons, List.append_assoc] at hfile
    obtain ⟨tr1, h1⟩ := Tdms.Proofs.C01.readContiguousChunk_encChunkContiguous file seg i hov
      (ds.map segObjOf) (ds.map actOf) ch [] pos tr _ (hok ch List.mem_cons_self) hfile
    obtain ⟨tr2, h2⟩ := ih (i + 1) (pos + (encChunkContiguous seg.endian (ds.map actOf) ch).length) tr1 rest
      (fun c hc => hok c (List.mem_cons_of_mem _ hc)) (drop_add_of_drop_eq hfile)
    refine ⟨tr2, ?_⟩
    show readChunksSeq file seg .contiguous (ds.map segObjOf) i (chs.length + 1) ⟨pos, tr⟩ = _
    unfold readChunksSeq
    simp only
    have h1' : readContiguousChunk file seg i (ds.map segObjOf) [] ⟨pos, tr⟩ = _ := h1
    have h2' : readChunksSeq file seg .contiguous (ds.map segObjOf) (i + 1) chs.length
      ⟨pos + (encChunkContiguous seg.endian (ds.map actOf) ch).length, tr1⟩ = _ := h2
    rw [F_bind_ok h1', F_bind_ok h2']
    simp only [F_pure, List.map_cons, List.flatMap_cons, List.length_append, Nat.add_assoc]

theorem dataReaderKind_std (seg : Segment) (os : List ObjEnc) (hstd : ∀ o ∈ os, stdIdx o)
    (hobjs : seg.objects = os.map segObjOf) (hint : hasFlag seg.toc kTocInterleavedData = false) :
    dataReaderKind seg = .ok .contiguous := by
  simp [dataReaderKind, hobjs, haveDaqmxObjects_std os hstd, haveInterleavedData, hint, bind,
    Except.bind, pure, Except.pure]

/-- the chunks the reader yields for the segment -/
def rawChunksOf (s : SegEnc) : List RawChunk :=
  (if !s.rawFlag then [[]] else []) ++ s.chunks.map (setCols [] ((dataOs s.objs).map segObjOf))

/-- **`readRawDataAll` on the encoding of a single standard segment**, from any file state -/
theorem readRawDataAll_single (s : SegEnc) (hi : s.interleaved = false)
    (hstd : ∀ o ∈ s.objs, stdIdx o) (w : WfSingle s) (fit : SegFits s) (st : FState) :
    ∃ st', (readRawDataAll (encodeSeg s (s.objs.map actOf))
        [segOf s (encodeSeg s (s.objs.map actOf)).length]).run st = .ok (rawChunksOf s, st') := by
  generalize hfile : encodeSeg s (s.objs.map actOf) = file
  have hfile' : file = encLeadIn tagData s (segMeta s).length (encRaw s (s.objs.map actOf)).length ++
      (segMeta s ++ encRaw s (s.objs.map actOf)) := by
    rw [← hfile]; simp [encodeSeg]
  -- the tag
  have htag : file.drop (⟨0, st.trace⟩ : FState).pos = tagData ++ (encLE 4 (tocMask s) ++ enc s.endian 4 s.version ++
      enc s.endian 8 (if s.lengthUnknown then 2 ^ 64 - 1 else (segMeta s).length + (encRaw s (s.objs.map actOf)).length) ++
      enc s.endian 8 (segMeta s).length ++ (segMeta s ++ encRaw s (s.objs.map actOf))) := by
    rw [hfile']; simp [encLeadIn]
  -- the raw data
  have hdrop : file.drop (28 + (segMeta s).length) =
      s.chunks.flatMap (encChunkContiguous s.endian ((dataOs s.objs).map actOf)) ++ [] := by
    rw [hfile', ← List.append_assoc, List.drop_left' (by simp [encLeadIn, tagData]; omega), encRaw_std s hi]
    simp
  have hend : (segOf s file.length).endian = s.endian := segEndian_of_tocMask s
  have hok : ∀ ch ∈ s.chunks, contOK ((dataOs s.objs).map segObjOf) ((dataOs s.objs).map actOf) ch :=
    fun ch hch => contOK_std (dataOs s.objs) ch (fun d hd => w.objs d (dataOs_sub hd).1)
      (fun d hd => fit.strData d (dataOs_sub hd).1) (w.chunks ch hch)
  obtain ⟨tr', hseq⟩ := readChunksSeq_enc file (segOf s file.length) rfl (dataOs s.objs) s.chunks 0
    (28 + (segMeta s).length) (st.trace ++ [(0, 4)]) [] hok (by rw [hend]; exact hdrop)
  have hkind : dataReaderKind (segOf s file.length) = .ok .contiguous :=
    dataReaderKind_std _ s.objs hstd rfl (by
      show hasFlag (tocMask s) kTocInterleavedData = false
      rw [hasFlag_tocMask_interleaved, hi])
  have hverify : verifySegmentStart file (segOf s file.length) st = .ok ((), ⟨4, st.trace ++ [(0, 4)]⟩) := by
    have hread : fRead file 4 ⟨0, st.trace⟩ = .ok (tagData, ⟨4, st.trace ++ [(0, 4)]⟩) :=
      fRead_of_drop htag
    unfold verifySegmentStart
    have hseek : fSeek (segOf s file.length).position st = .ok ((), ⟨0, st.trace⟩) := rfl
    rw [F_bind_ok hseek, F_bind_ok hread]
    simp [F_pure]
  have hsegread : ∃ st1, segmentReadRawData file (segOf s file.length) ⟨4, st.trace ++ [(0, 4)]⟩ =
      .ok (rawChunksOf s, st1) := by
    refine ⟨⟨28 + (segMeta s).length +
      (s.chunks.flatMap (encChunkContiguous (segOf s file.length).endian ((dataOs s.objs).map actOf))).length, tr'⟩, ?_⟩
    unfold segmentReadRawData
    have hseek : fSeek (segOf s file.length).dataPosition ⟨4, st.trace ++ [(0, 4)]⟩ =
        .ok ((), ⟨28 + (segMeta s).length, st.trace ++ [(0, 4)]⟩) := rfl
    have hlift : liftE (dataReaderKind (segOf s file.length)) ⟨28 + (segMeta s).length, st.trace ++ [(0, 4)]⟩ =
        .ok (.contiguous, ⟨28 + (segMeta s).length, st.trace ++ [(0, 4)]⟩) := by
      rw [hkind]; rfl
    have hd : (segOf s file.length).objects.filter (·.hasData) = (dataOs s.objs).map segObjOf :=
      filter_hasData_map_segObjOf s.objs hstd
    have hflagraw : hasFlag (segOf s file.length).toc kTocRawData = s.rawFlag := hasFlag_tocMask_raw s
    simp only []
    rw [F_bind_ok hseek, F_bind_ok hlift]
    simp only [hd]
    have hk : (segOf s file.length).numChunks = s.chunks.length := rfl
    have hseq' : readChunksSeq file (segOf s file.length) .contiguous ((dataOs s.objs).map segObjOf) 0
      s.chunks.length ⟨28 + (segMeta s).length, st.trace ++ [(0, 4)]⟩ = _ := hseq
    rw [hk, F_bind_ok hseq']
    simp only [F_pure, rawChunksOf, hflagraw]
  obtain ⟨st1, hsegread⟩ := hsegread
  refine ⟨st1, ?_⟩
  show readRawDataAll file [segOf s file.length] st = _
  unfold readRawDataAll
  rw [F_bind_ok hverify, F_bind_ok hsegread]
  simp only [readRawDataAll]
  rw [F_bind_ok (F_pure _ _)]
  simp [F_pure]

end Tdms.Proofs.C01Compose
