import Tdms.Generated.Thermocouples
import Tdms.Reference
import Tdms.Model.Thermocouple

/-! Helper definitions and lemmas for property C18 (headline theorems are in `TdmsProofs/C18.lean`). -/

namespace Tdms.Proofs.C18
open Tdms.Generated Tdms.Reference Tdms.Model.Thermocouple

/-! ## 1. Comparison of a generated table with a vendored NIST table -/

/-- The generated forward table `t` *is* the NIST table `n`:
same name; piecewise the same coefficient lists; the interior boundaries (every `lo` but the first,
every `hi` but the last) are NIST's; the exponential term that the code adds for `t ≥ expTermFrom` is
exactly the term NIST attaches to each piece (and, when there is such a term, no NIST piece straddles
`expTermFrom`). -/
def ForwardMatches (t : TcTable) (n : NistTable) : Prop :=
  t.name = n.name ∧
  t.forward.map (·.coeffs) = n.pieces.map (·.coeffs) ∧
  (t.forward.map (·.lo)).tail = (n.pieces.map (fun p => some p.lo)).tail ∧
  (t.forward.map (·.hi)).dropLast = (n.pieces.map (fun p => some p.hi)).dropLast ∧
  (∀ p ∈ n.pieces, p.expTerm = (if expTermFrom ≤ p.lo then t.expTerm else none) ∧
                   (t.expTerm = none ∨ expTermFrom ≤ p.lo ∨ p.hi ≤ expTermFrom))

instance (t : TcTable) (n : NistTable) : Decidable (ForwardMatches t n) := by
  unfold ForwardMatches; infer_instance

/-! ## 2. Contiguous half-open pieces partition ℚ -/

/-- `chainFrom b ps`: the first piece starts at `some b`, every piece but the last ends at a finite
bound strictly above its start, the next piece starts exactly there, and the last piece is open-ended
(`hi = none`). -/
def chainFrom (b : Rat) : List TcPiece → Bool
  | [] => false
  | [p] => decide (p.lo = some b) && decide (p.hi = none)
  | p :: q :: rest =>
    decide (p.lo = some b) &&
      (match p.hi with
       | some c => decide (b < c) && chainFrom c (q :: rest)
       | none => false)

/-- `contiguous ps`: at least two pieces; first `lo = none`; last `hi = none`; each piece's `hi` is the
next piece's `lo`; the boundaries are strictly increasing.  (This is what `_verify_contiguous` plus
`Range.__init__` plus the open ends of the literal tables amount to.) -/
def contiguous : List TcPiece → Bool
  | p :: q :: rest =>
    decide (p.lo = none) &&
      (match p.hi with
       | some c => chainFrom c (q :: rest)
       | none => false)
  | _ => false

/-- number of pieces accepting `x` -/
def acceptCount (ps : List TcPiece) (x : Rat) : Nat := ps.countP (fun p => acceptPiece p x)

theorem acceptPiece_some_none {p : TcPiece} {b : Rat} (hlo : p.lo = some b) (hhi : p.hi = none) (x : Rat) :
    acceptPiece p x = decide (b ≤ x) := by
  simp [acceptPiece, hlo, hhi]

theorem acceptPiece_some_some {p : TcPiece} {b c : Rat} (hlo : p.lo = some b) (hhi : p.hi = some c) (x : Rat) :
    acceptPiece p x = (decide (b ≤ x) && decide (x < c)) := by
  simp [acceptPiece, hlo, hhi]

theorem acceptPiece_none_some {p : TcPiece} {c : Rat} (hlo : p.lo = none) (hhi : p.hi = some c) (x : Rat) :
    acceptPiece p x = decide (x < c) := by
  simp [acceptPiece, hlo, hhi]

/-- General lemma (induction on the piece list): in a chain starting at `b`, exactly one piece accepts
`x` if `b ≤ x`, and none otherwise. -/
theorem acceptCount_chainFrom (ps : List TcPiece) :
    ∀ (b : Rat), chainFrom b ps = true → ∀ x : Rat, acceptCount ps x = if b ≤ x then 1 else 0 := by
  induction ps with
  | nil => intro b h; simp [chainFrom] at h
  | cons p rest ih =>
    intro b h x
    cases rest with
    | nil =>
      simp only [chainFrom, Bool.and_eq_true, decide_eq_true_eq] at h
      simp only [acceptCount, List.countP_cons, List.countP_nil, acceptPiece_some_none h.1 h.2]
      by_cases hx : b ≤ x <;> simp [hx]
    | cons q rest' =>
      simp only [chainFrom, Bool.and_eq_true, decide_eq_true_eq] at h
      obtain ⟨hlo, h2⟩ := h
      cases hhi : p.hi with
      | none => simp [hhi] at h2
      | some c =>
        simp only [hhi, Bool.and_eq_true, decide_eq_true_eq] at h2
        obtain ⟨hbc, hchain⟩ := h2
        have hrest := ih c hchain x
        simp only [acceptCount] at hrest
        simp only [acceptCount, List.countP_cons (l := q :: rest'), hrest, acceptPiece_some_some hlo hhi]
        by_cases h1 : b ≤ x <;> by_cases h2 : c ≤ x <;> by_cases h3 : x < c <;> simp [h1, h2, h3] <;> grind

/-- A contiguous list of half-open pieces with open ends partitions ℚ: every `x` is accepted by
exactly one piece. -/
theorem acceptCount_contiguous (ps : List TcPiece) (h : contiguous ps = true) (x : Rat) :
    acceptCount ps x = 1 := by
  match ps, h with
  | p :: q :: rest, h =>
    simp only [contiguous, Bool.and_eq_true, decide_eq_true_eq] at h
    obtain ⟨hlo, h2⟩ := h
    cases hhi : p.hi with
    | none => simp [hhi] at h2
    | some c =>
      simp only [hhi] at h2
      have hrest := acceptCount_chainFrom (q :: rest) c h2 x
      simp only [acceptCount] at hrest
      simp only [acceptCount, List.countP_cons (l := q :: rest), hrest, acceptPiece_none_some hlo hhi]
      by_cases h2 : c ≤ x <;> by_cases h3 : x < c <;> simp [h2, h3] <;> grind

/-! ## 3. `np.piecewise` selection when exactly one piece accepts -/

theorem foldl_select (f : TcPiece → Bool) (ps : List TcPiece) :
    ∀ acc : Option TcPiece,
      ps.foldl (fun acc p => if f p then some p else acc) acc = ((ps.filter f).getLast?).or acc := by
  induction ps with
  | nil => intro acc; simp
  | cons p rest ih =>
    intro acc
    simp only [List.foldl_cons, ih, List.filter_cons]
    by_cases hp : f p
    · simp only [hp, if_true]
      cases hr : (rest.filter f) with
      | nil => simp
      | cons r rs =>
        have h := List.getLast?_eq_some_getLast (l := r :: rs) (by simp)
        simp [h]
    · simp [hp]

/-- `np.piecewise` picks the last accepting piece -/
theorem selectPiece_eq_getLast? (ps : List TcPiece) (x : Rat) :
    selectPiece ps x = (ps.filter (fun p => acceptPiece p x)).getLast? := by
  simp [selectPiece, foldl_select (fun p => acceptPiece p x) ps none]

theorem selectFirst_eq_head? (ps : List TcPiece) (x : Rat) :
    selectFirst ps x = (ps.filter (fun p => acceptPiece p x)).head? := by
  simp [selectFirst, List.head?_filter]

theorem filter_singleton_of_count (ps : List TcPiece) (x : Rat) (h : acceptCount ps x = 1) :
    ∃ r, ps.filter (fun p => acceptPiece p x) = [r] := by
  have hl : (ps.filter (fun p => acceptPiece p x)).length = 1 := by
    simpa [acceptCount, List.countP_eq_length_filter] using h
  match hf : ps.filter (fun p => acceptPiece p x), hl with
  | [r], _ => exact ⟨r, rfl⟩

/-- if exactly one piece accepts `x` and `q` is an accepting piece of the list, `np.piecewise` uses `q`
(and so would first-match selection) -/
theorem selectPiece_eq_of_unique (ps : List TcPiece) (x : Rat) (h : acceptCount ps x = 1)
    (q : TcPiece) (hq : q ∈ ps) (hacc : acceptPiece q x = true) :
    selectPiece ps x = some q ∧ selectFirst ps x = some q := by
  obtain ⟨r, hr⟩ := filter_singleton_of_count ps x h
  have hmem : q ∈ ps.filter (fun p => acceptPiece p x) := List.mem_filter.mpr ⟨hq, hacc⟩
  rw [hr] at hmem
  have : q = r := by simpa using hmem
  subst this
  simp [selectPiece_eq_getLast?, selectFirst_eq_head?, hr]

theorem selectPiece_isSome_of_unique (ps : List TcPiece) (x : Rat) (h : acceptCount ps x = 1) :
    ∃ q, q ∈ ps ∧ acceptPiece q x = true ∧ selectPiece ps x = some q ∧ selectFirst ps x = some q := by
  obtain ⟨r, hr⟩ := filter_singleton_of_count ps x h
  have hmem : r ∈ ps.filter (fun p => acceptPiece p x) := by simp [hr]
  obtain ⟨h1, h2⟩ := List.mem_filter.mp hmem
  exact ⟨r, h1, h2, selectPiece_eq_of_unique ps x h r h1 h2⟩

/-! ## 4. Boundary jumps -/

/-- absolute value on `Rat` (core has no `|·|` notation) -/
def absRat (q : Rat) : Rat := if q < 0 then -q else q

/-- for every interior boundary `b` (a finite `hi` followed by another piece): `(b, pᵢ(b) − pᵢ₊₁(b))` -/
def boundaryJumps : List TcPiece → List (Rat × Rat)
  | p :: q :: rest =>
    (match p.hi with
     | some b => [(b, horner p.coeffs b - horner q.coeffs b)]
     | none => []) ++ boundaryJumps (q :: rest)
  | _ => []

/-- all boundary jumps of the piece list are at most `ε` in absolute value -/
def JumpsWithin (ps : List TcPiece) (ε : Rat) : Prop :=
  ∀ bj ∈ boundaryJumps ps, absRat bj.2 ≤ ε

instance (ps : List TcPiece) (ε : Rat) : Decidable (JumpsWithin ps ε) := by
  unfold JumpsWithin; infer_instance

/-! ## 5. Grids -/

/-- `n + 1` equally spaced rationals `lo, lo + h, …, hi` -/
def grid (lo hi : Rat) (n : Nat) : List Rat :=
  (List.range (n + 1)).map (fun i => lo + (hi - lo) * ((i : Nat) : Rat) / (n : Rat))

/-- strictly increasing list of optional values (`none` anywhere = failure) -/
def strictlyIncreasing : List (Option Rat) → Bool
  | some a :: some b :: rest => decide (a < b) && strictlyIncreasing (some b :: rest)
  | [some _] => true
  | [] => true
  | _ => false

/-- strictly decreasing list of optional values -/
def strictlyDecreasing : List (Option Rat) → Bool
  | some a :: some b :: rest => decide (b < a) && strictlyDecreasing (some b :: rest)
  | [some _] => true
  | [] => true
  | _ => false

/-- consecutive differences exceed `slope * step` (used for type K: the polynomial part rises faster
than the exponential term can fall) -/
def increasingWithMargin (margin : Rat) : List (Option Rat) → Bool
  | some a :: some b :: rest => decide (a + margin < b) && increasingWithMargin margin (some b :: rest)
  | [some _] => true
  | [] => true
  | _ => false

/-! ## 6. A rational enclosure of `exp q` for `q ≤ 0` (type K exponential term)

Core Lean has no real `exp`, so these are plain rational definitions; every grid check below that
involves type K for `t ≥ 0` is a statement about this enclosure.  That the enclosure really contains
`Real.exp q` is proved once and for all (∀ `q ≤ 0`) in the optional Mathlib file `C18ExpSound.lean`
(`expEnclosure_sound`), which is not part of the core `lake build`.

Construction: `y = -q / 2^k ∈ [0, 1]`; Taylor: `S_n(y) ≤ exp y ≤ S_n(y) + y^n (n+1)/(n!·n)`;
`exp (-y) ∈ [1/hi, 1/lo]`; square `k` times, rounding outwards to a fixed denominator. -/

/-- `(Σ_{i<n} y^i / i!, y^n / n!)` -/
def taylorExpAux (y : Rat) : Nat → Rat × Rat
  | 0 => (0, 1)
  | n + 1 => let (s, term) := taylorExpAux y n; (s + term, term * y / ((n : Rat) + 1))

/-- `Σ_{i<n} y^i / i!` -/
def taylorExp (y : Rat) (n : Nat) : Rat := (taylorExpAux y n).1

/-- Lagrange-type remainder bound valid for `0 ≤ y ≤ 1`, `n ≥ 1`: `y^n/n! · (n+1)/n` -/
def taylorExpRem (y : Rat) (n : Nat) : Rat := (taylorExpAux y n).2 * ((n : Rat) + 1) / (n : Rat)

/-- round down / up to a multiple of `1/d` -/
def roundDown (d : Nat) (q : Rat) : Rat := ((q * (d : Rat)).floor : Rat) / (d : Rat)
def roundUp (d : Nat) (q : Rat) : Rat := ((q * (d : Rat)).ceil : Rat) / (d : Rat)

/-- number of Taylor terms and rounding denominator used throughout -/
def expTerms : Nat := 30
def expDenom : Nat := 10 ^ 40

/-- square an enclosure `0 ≤ l ≤ u` `k` times, rounding outwards -/
def squareEnclosure : Nat → Rat × Rat → Rat × Rat
  | 0, lu => lu
  | k + 1, (l, u) => squareEnclosure k (roundDown expDenom (l * l), roundUp expDenom (u * u))

/-- smallest `k ≤ fuel` with `y ≤ 2^k` (else `fuel`) -/
def halvings (y : Rat) : Nat → Nat → Nat
  | 0, k => k
  | fuel + 1, k => if y ≤ (2 : Rat) ^ k then k else halvings y fuel (k + 1)

/-- enclosure `(l, u)` of `exp q`; for `q ≤ 0` it satisfies `0 ≤ l ≤ exp q ≤ u`; the trivial
enclosure `(0, 1)` is returned if the argument reduction fails, and `(0, 0)`… is never returned.
For `q > 0` the result is meaningless (the model never asks: `a1 < 0`). -/
def expEnclosure (q : Rat) : Rat × Rat :=
  let y := -q
  let k := halvings y 64 0
  let z := y / (2 : Rat) ^ k
  if 0 ≤ z ∧ z ≤ 1 then
    let lo := taylorExp z expTerms
    let hi := lo + taylorExpRem z expTerms
    squareEnclosure k (roundDown expDenom (1 / hi), roundUp expDenom (1 / lo))
  else (0, 1)

/-- enclosure `(v_lo, v_hi)` of the complete `celsius_to_mv x` (polynomial + exponential term) -/
def forwardEnclosure (t : TcTable) (x : Rat) : Option (Rat × Rat) :=
  match forwardPoly t x, forwardExp t x with
  | none, _ => none
  | some v, none => some (v, v)
  | some v, some (a0, e) =>
    let (l, u) := expEnclosure e
    if 0 ≤ a0 then some (v + a0 * l, v + a0 * u) else some (v + a0 * u, v + a0 * l)

/-! ## 7. Grid predicates for the complete forward function -/

/-- `u(tᵢ) < l(tᵢ₊₁)` along the list: the enclosed function is strictly increasing on the grid -/
def enclosuresIncreasing : List (Option (Rat × Rat)) → Bool
  | some a :: some b :: rest => decide (a.2 < b.1) && enclosuresIncreasing (some b :: rest)
  | [some _] => true
  | [] => true
  | _ => false

def enclosuresDecreasing : List (Option (Rat × Rat)) → Bool
  | some a :: some b :: rest => decide (b.2 < a.1) && enclosuresDecreasing (some b :: rest)
  | [some _] => true
  | [] => true
  | _ => false

/-- `Σ i·|cᵢ|·M^(i-1)`: bound of `|P(v) − P(w)| / |v − w|` for `|v|, |w| ≤ M` (algebraic, no calculus) -/
def lipschitzBound (coeffs : List Rat) (M : Rat) : Rat :=
  match coeffs with
  | [] => 0
  | _ :: cs => ((List.range cs.length).zip cs).foldl
      (fun acc ic => acc + ((ic.1 : Nat) + 1 : Rat) * absRat ic.2 * M ^ ic.1) 0

/-- index of the piece that `np.piecewise` selects (last accepting), if any -/
def selectIndex (ps : List TcPiece) (x : Rat) : Option Nat :=
  ((List.range ps.length).zip ps).foldl (fun acc ip => if acceptPiece ip.2 x then some ip.1 else acc) none

/-- Upper bound for `|mv_to_celsius(v) − x|` over all `v` in the enclosure of `celsius_to_mv x`,
together with the index of the inverse piece used: `|P(v_lo) − x| + (v_hi − v_lo)·L` where `L` is
`lipschitzBound`; `none` if anything is undefined or if the two ends of the enclosure fall into
different inverse pieces. -/
def inverseErrorBound (t : TcTable) (x : Rat) : Option (Nat × Rat) :=
  match forwardEnclosure t x with
  | none => none
  | some (vl, vu) =>
    match selectIndex t.inverse vl, selectIndex t.inverse vu, selectPiece t.inverse vl with
    | some i, some j, some p =>
      if i = j then
        let M := if absRat vl ≤ absRat vu then absRat vu else absRat vl
        some (i, absRat (horner p.coeffs vl - x) + (vu - vl) * lipschitzBound p.coeffs M)
      else none
    | _, _, _ => none

/-- every grid point has an inverse error bound within the per-piece tolerance `tol[i]` -/
def inverseErrorsWithin (t : TcTable) (tol : List Rat) (pts : List Rat) : Bool :=
  pts.all (fun x =>
    match inverseErrorBound t x with
    | some (i, e) => (match tol[i]? with | some ε => decide (e ≤ ε) | none => false)
    | none => false)

/-- the per-piece maxima of `inverseErrorBound` over a grid (for reporting via `#eval`) -/
def inverseErrorMaxima (t : TcTable) (pts : List Rat) : List (Nat × Rat) :=
  (List.range t.inverse.length).map (fun i =>
    (i, pts.foldl (fun m x =>
      match inverseErrorBound t x with
      | some (j, e) => if i = j ∧ m < e then e else m
      | none => m) 0))

/-! ## 8. Grid specifications

A grid is cut into `chunks` consecutive sub-grids that share their end points (so that a statement
about every chunk is a statement about the whole grid); each chunk is one kernel evaluation. -/

structure GridSpec where
  table : TcTable
  lo : Rat
  hi : Rat
  chunks : Nat
  /-- steps per chunk: a chunk has `n + 1` points -/
  n : Nat

/-- the `i`-th chunk of the grid: `n + 1` equally spaced points from `lo + (hi-lo)·i/chunks` to
`lo + (hi-lo)·(i+1)/chunks` -/
def GridSpec.chunk (s : GridSpec) (i : Nat) : List Rat :=
  grid (s.lo + (s.hi - s.lo) * (i : Rat) / (s.chunks : Rat))
       (s.lo + (s.hi - s.lo) * ((i : Rat) + 1) / (s.chunks : Rat)) s.n

/-- number of distinct grid points -/
def GridSpec.points (s : GridSpec) : Nat := s.chunks * s.n + 1

/-- the complete forward function (polynomial + enclosure of the exponential term) is strictly
increasing along every chunk of the grid -/
def IncreasingOnGrid (s : GridSpec) : Prop :=
  ∀ i, i < s.chunks → enclosuresIncreasing ((s.chunk i).map (forwardEnclosure s.table)) = true

def DecreasingOnGrid (s : GridSpec) : Prop :=
  ∀ i, i < s.chunks → enclosuresDecreasing ((s.chunk i).map (forwardEnclosure s.table)) = true

/-- at every grid point `x`: `|mv_to_celsius(celsius_to_mv x) − x| ≤ tol[k]`, `k` the inverse piece used -/
def InverseErrorOnGrid (s : GridSpec) (tol : List Rat) : Prop :=
  ∀ i, i < s.chunks → inverseErrorsWithin s.table tol (s.chunk i) = true

/-- `∀ i < 4` from the four instances -/
theorem forall_lt_four {P : Nat → Prop} (h0 : P 0) (h1 : P 1) (h2 : P 2) (h3 : P 3) :
    ∀ i, i < 4 → P i := by
  intro i hi
  match i, hi with
  | 0, _ => exact h0
  | 1, _ => exact h1
  | 2, _ => exact h2
  | 3, _ => exact h3

theorem forall_lt_one {P : Nat → Prop} (h0 : P 0) : ∀ i, i < 1 → P i := by
  intro i hi
  match i, hi with
  | 0, _ => exact h0

/-- Region on which each NIST forward function is strictly increasing, as a grid.
All types but B: the whole NIST range.  Type B is NOT monotone on its NIST range `[0, 1820]`: it has a
minimum at t ≈ 21.0203 °C (E ≈ −0.002585 mV, see `C18.type_b_minimum_bracket`), so the increasing
region is `[21.03, 1820]`. -/
def monoSpecB : GridSpec := ⟨type_b, 2103 / 100, 1820, 4, 125⟩
def monoSpecE : GridSpec := ⟨type_e, -270, 1000, 4, 125⟩
def monoSpecJ : GridSpec := ⟨type_j, -210, 1200, 4, 125⟩
def monoSpecK : GridSpec := ⟨type_k, -270, 1372, 4, 125⟩
def monoSpecN : GridSpec := ⟨type_n, -270, 1300, 4, 125⟩
def monoSpecR : GridSpec := ⟨type_r, -50, 17681 / 10, 4, 125⟩
def monoSpecS : GridSpec := ⟨type_s, -50, 17681 / 10, 4, 125⟩
def monoSpecT : GridSpec := ⟨type_t, -270, 400, 4, 125⟩
/-- type B is strictly DEcreasing on `[0, 21.02]` -/
def decrSpecB : GridSpec := ⟨type_b, 0, 2102 / 100, 1, 200⟩

def monotoneGrids : List GridSpec :=
  [monoSpecB, monoSpecE, monoSpecJ, monoSpecK, monoSpecN, monoSpecR, monoSpecS, monoSpecT]

/-- Temperature domain of the inverse-error grid.  NIST gives inverse polynomials only from 250 °C
(type B) resp. −200 °C (types E, K, N, T) upwards; npTDMS extrapolates the lowest inverse polynomial
below that (errors of 20–98 °C at the lower end of the forward range, see NOTES.md), so those parts are
excluded.  J, R, S: whole NIST range. -/
def invSpecB : GridSpec := ⟨type_b, 250, 1820, 4, 125⟩
def invSpecE : GridSpec := ⟨type_e, -200, 1000, 4, 125⟩
def invSpecJ : GridSpec := ⟨type_j, -210, 1200, 4, 125⟩
def invSpecK : GridSpec := ⟨type_k, -200, 1372, 4, 125⟩
def invSpecN : GridSpec := ⟨type_n, -200, 1300, 4, 125⟩
def invSpecR : GridSpec := ⟨type_r, -50, 17681 / 10, 4, 125⟩
def invSpecS : GridSpec := ⟨type_s, -50, 17681 / 10, 4, 125⟩
def invSpecT : GridSpec := ⟨type_t, -200, 400, 4, 125⟩

/-- Per-inverse-piece tolerances in °C for `|mv_to_celsius(celsius_to_mv t) − t|` on the grids above.
NIST's stated inverse-error table is not available offline, so NO number here is taken from NIST:
each value is the maximum observed — on the Lean grid (1001 points when measured; the committed grid has 501, a subset) and on a 100 001-point exact-rational
Python sweep of the same domain (NOTES.md lists both; the denser sweep is larger in three places:
B[1], J[1], R[2]) — rounded UP to two significant digits.  Index = index of the inverse piece in
`nptdms/thermocouples.py`.  `sweep.py` checks the same table on the real code. -/
def invTolB : List Rat := [27 / 1000, 13 / 1000]
def invTolE : List Rat := [22 / 1000, 16 / 1000]
def invTolJ : List Rat := [49 / 1000, 38 / 1000, 37 / 1000]
def invTolK : List Rat := [41 / 1000, 47 / 1000, 54 / 1000]
def invTolN : List Rat := [27 / 1000, 28 / 1000, 39 / 1000]
def invTolR : List Rat := [19 / 1000, 48 / 10000, 73 / 100000, 11 / 10000]
def invTolS : List Rat := [20 / 1000, 92 / 10000, 18 / 100000, 17 / 10000]
def invTolT : List Rat := [39 / 1000, 26 / 1000]

def inverseGrids : List (GridSpec × List Rat) :=
  [(invSpecB, invTolB), (invSpecE, invTolE), (invSpecJ, invTolJ), (invSpecK, invTolK),
   (invSpecN, invTolN), (invSpecR, invTolR), (invSpecS, invTolS), (invSpecT, invTolT)]

/-! ## 9. The model's forward function is NIST's function on NIST's range -/

/-- coefficients of the derivative polynomial -/
def derivCoeffs (coeffs : List Rat) : List Rat :=
  match coeffs with
  | [] => []
  | _ :: cs => ((List.range cs.length).zip cs).map (fun ic => ((ic.1 : Nat) + 1 : Rat) * ic.2)

/-- generated piece `q` has NIST piece `p`'s coefficients and covers at least `[p.lo, p.hi)` -/
def PieceCovers (q : TcPiece) (p : NistPiece) : Prop :=
  q.coeffs = p.coeffs ∧ (q.lo = none ∨ q.lo = some p.lo) ∧ (q.hi = none ∨ q.hi = some p.hi)

instance (q : TcPiece) (p : NistPiece) : Decidable (PieceCovers q p) := by
  unfold PieceCovers; infer_instance

theorem acceptPiece_of_covers {q : TcPiece} {p : NistPiece} (h : PieceCovers q p) (x : Rat)
    (h1 : p.lo ≤ x) (h2 : x < p.hi) : acceptPiece q x = true := by
  obtain ⟨_, hlo, hhi⟩ := h
  rcases hlo with hlo | hlo <;> rcases hhi with hhi | hhi <;> simp [acceptPiece, hlo, hhi, h1, h2]

theorem tables_contiguous_aux :
    ∀ t ∈ tcTables, contiguous t.forward = true ∧ contiguous t.inverse = true := by
  decide +kernel

theorem nist_pieces_covered :
    ∀ tn ∈ tcTables.zip nistForward, ∀ p ∈ tn.2.pieces,
      (∃ q ∈ tn.1.forward, PieceCovers q p) ∧
      p.expTerm = (if expTermFrom ≤ p.lo then tn.1.expTerm else none) ∧
      (tn.1.expTerm = none ∨ expTermFrom ≤ p.lo ∨ p.hi ≤ expTermFrom) := by
  decide +kernel

theorem forward_is_nist_function_aux :
    ∀ tn ∈ tcTables.zip nistForward, ∀ p ∈ tn.2.pieces, ∀ x : Rat, p.lo ≤ x → x < p.hi →
      forwardPoly tn.1 x = some (horner p.coeffs x) ∧
      forwardExp tn.1 x = p.expTerm.map (fun a => (a.1, a.2.1 * ((x - a.2.2) * (x - a.2.2)))) := by
  intro tn htn p hp x h1 h2
  obtain ⟨⟨q, hq, hcov⟩, hexp, hstr⟩ := nist_pieces_covered tn htn p hp
  have ht : tn.1 ∈ tcTables := (List.of_mem_zip htn).1
  have hcount := acceptCount_contiguous _ (tables_contiguous_aux tn.1 ht).1 x
  have hsel := (selectPiece_eq_of_unique tn.1.forward x hcount q hq (acceptPiece_of_covers hcov x h1 h2)).1
  refine ⟨by simp [forwardPoly, evalPieces, hsel, hcov.1], ?_⟩
  rw [hexp]
  unfold forwardExp
  cases hE : tn.1.expTerm with
  | none => simp
  | some a =>
    obtain ⟨a0, a1, a2⟩ := a
    simp only [hE] at hstr
    rcases hstr with h | h | h
    · cases h
    · have hx : expTermFrom ≤ x := by grind
      simp [h, hx]
    · have hx : ¬ expTermFrom ≤ x := by grind
      have hl : ¬ expTermFrom ≤ p.lo := by grind
      simp [hx, hl]

end Tdms.Proofs.C18
