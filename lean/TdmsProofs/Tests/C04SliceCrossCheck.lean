import TdmsProofs.Spec.PySlice
import TdmsProofs.Lemmas.C04SliceLemmas

/-!
TEST (not a proof): exhaustive dump of `pySliceIndices` for comparison with real CPython.
Run: `lake env lean --run TdmsProofs/Tests/C04SliceCrossCheck.lean > lean.out`
then `TdmsProofs/Tests/c04_slice_crosscheck.py lean.out`.

TEST 2 (not a proof): brute-force comparison `sliceResult = pySlice` and `indexRequest = pyIndex`
(the statements proved in `TdmsProofs/Properties/C04Slice.lean`), run with
`lake env lean --run TdmsProofs/Tests/C04SliceCrossCheck.lean brute`.
-/

open Tdms.Spec.PySlice

def optRange (lo hi : Int) : List (Option Int) :=
  none :: (List.range (hi - lo + 1).toNat).map fun (i : Nat) => some (lo + i)

def showOpt : Option Int → String
  | none => "None"
  | some i => toString i

def showRes : Except Unit (List Nat) → String
  | .error _ => "ERR"
  | .ok l => "[" ++ ",".intercalate (l.map toString) ++ "]"

def exceptEq {ε α : Type} [DecidableEq ε] [DecidableEq α] : Except ε α → Except ε α → Bool
  | .ok a, .ok b => decide (a = b)
  | .error a, .error b => decide (a = b)
  | _, _ => false

open Tdms Tdms.Model Tdms.Proofs.C04 in
/-- TEST: number of (cases, mismatches) of `sliceResult full a b c = pySlice full a b c` for
    `full = [[0],…,[n-1]]`, n ≤ 5, a,b ∈ [-8,8] ∪ none, c ∈ [-3,3] ∪ none, and of
    `indexRequest n i = pyIndex n i`, n ≤ 5, i ∈ [-8,8] -/
def bruteForce : IO Unit := do
  let mut cases := 0
  let mut bad := 0
  for n in List.range 6 do
    let full : List Bytes := (List.range n).map fun i => [i.toUInt8]
    for a in optRange (-8) 8 do
      for b in optRange (-8) 8 do
        for c in optRange (-3) 3 do
          cases := cases + 1
          let lhs := sliceResult full a b c
          let rhs := (pySlice full a b c).mapError (fun _ => Err.stepZero)
          if !(exceptEq lhs rhs) then
            bad := bad + 1
            IO.println s!"MISMATCH n={n} {showOpt a} {showOpt b} {showOpt c}: {repr lhs} vs {repr rhs}"
  IO.println s!"sliceResult vs pySlice: cases {cases}, mismatches {bad}"
  let mut icases := 0
  let mut ibad := 0
  for n in List.range 6 do
    for i in (List.range 17).map (fun (k : Nat) => (k : Int) - 8) do
      icases := icases + 1
      let lhs := indexRequest n i
      let rhs : Except Err Nat := match pyIndex n i with | some k => .ok k | none => .error .indexError
      if !(exceptEq lhs rhs) then
        ibad := ibad + 1
        IO.println s!"MISMATCH index n={n} i={i}"
  IO.println s!"indexRequest vs pyIndex: cases {icases}, mismatches {ibad}"

def main (args : List String) : IO Unit := do
  if args = ["brute"] then bruteForce; return
  let out ← IO.getStdout
  for n in List.range 7 do
    for a in optRange (-9) 9 do
      for b in optRange (-9) 9 do
        for c in optRange (-4) 4 do
          out.putStrLn s!"{n} {showOpt a} {showOpt b} {showOpt c} -> {showRes (pySliceIndices n a b c)}"
