#!/venv/bin/python
"""Cross-check of Tdms.Spec.PySlice.pySliceIndices against CPython (TEST, not a proof).

usage: c04_slice_crosscheck.py <output of `lake env lean --run TdmsProofs/Tests/C04SliceCrossCheck.lean`>
"""
import sys


def show(v):
    return "None" if v is None else str(v)


def expected():
    opts_ab = [None] + list(range(-9, 10))
    opts_c = [None] + list(range(-4, 5))
    lines = []
    self_mismatch = 0
    for n in range(7):
        xs = list(range(n))
        for a in opts_ab:
            for b in opts_ab:
                for c in opts_c:
                    try:
                        idx = list(range(*slice(a, b, c).indices(n)))
                        res = "[" + ",".join(str(i) for i in idx) + "]"
                        # the indices really are what list slicing selects
                        if xs[a:b:c] != idx:
                            self_mismatch += 1
                        if any(not (0 <= i < n) for i in idx):
                            self_mismatch += 1
                    except ValueError:
                        res = "ERR"
                        try:
                            xs[a:b:c]
                            self_mismatch += 1
                        except ValueError:
                            pass
                    lines.append(f"{n} {show(a)} {show(b)} {show(c)} -> {res}")
    return lines, self_mismatch


def main():
    with open(sys.argv[1]) as fh:
        got = [l.rstrip("\n") for l in fh if l.strip()]
    exp, self_mismatch = expected()
    mism = [(g, e) for g, e in zip(got, exp) if g != e]
    print(f"python version: {sys.version.split()[0]}")
    print(f"cases (python): {len(exp)}")
    print(f"cases (lean):   {len(got)}")
    print(f"ERR cases:      {sum(1 for e in exp if e.endswith('ERR'))}")
    print(f"python self-check (range(*indices) vs list slicing) mismatches: {self_mismatch}")
    print(f"mismatches:     {len(mism) + abs(len(got) - len(exp))}")
    for g, e in mism[:20]:
        print("  lean:  ", g)
        print("  python:", e)
    sys.exit(0 if not mism and len(got) == len(exp) and self_mismatch == 0 else 1)


if __name__ == "__main__":
    main()
