import TdmsProofs.Lemmas.C04WindowDefs

/-!
# TEST (not a proof): brute-force check of the statement of `window_eq_slice`

All layouts of ≤ 3 segments drawn from the shapes below, all windows `offset ∈ [0, total+2]`,
`length ∈ {none} ∪ [0, total+2]`.  Run: `lake env lean --run TdmsProofs/Tests/C04WindowBrute.lean`.
-/

namespace Tdms.Proofs.C04
open Tdms Tdms.Model

def shapes : List SegL :=
  [⟨0,0,none⟩, ⟨0,2,none⟩, ⟨0,1,some 0⟩, ⟨1,1,none⟩, ⟨2,0,none⟩, ⟨2,1,none⟩, ⟨2,3,none⟩, ⟨3,2,none⟩,
   ⟨2,3,some 0⟩, ⟨2,2,some 1⟩, ⟨3,1,some 2⟩, ⟨2,1,some 0⟩, ⟨3,3,some 3⟩]

def testVals (L : List SegL) : Vals := fun s j =>
  (List.range ((L.getD s default).chunkLen j)).map fun t => [s.toUInt8, j.toUInt8, t.toUInt8]

def layouts : List (List SegL) :=
  let l1 := shapes.map fun a => [a]
  let l2 := shapes.flatMap fun a => shapes.map fun b => [a, b]
  let l3 := shapes.flatMap fun a => shapes.flatMap fun b => shapes.map fun c => [a, b, c]
  [[]] ++ l1 ++ l2 ++ l3

def checkOne (L : List SegL) : Nat × Nat := Id.run do
  let vals := testVals L
  let fl := full L vals
  let n := total L
  let mut cnt := 0
  let mut bad := 0
  for off in List.range (n + 3) do
    for len in (none : Option Int) :: (List.range (n + 3)).map (fun (l : Nat) => some (l : Int)) do
      cnt := cnt + 1
      let got := dataOf (windowPure L vals (off : Nat) len)
      let want := takeOpt len (fl.drop off)
      if got ≠ want then bad := bad + 1
  return (cnt, bad)

def main : IO Unit := do
  let mut cnt := 0
  let mut bad := 0
  let mut nl := 0
  let mut lenBad := 0
  for L in layouts do
    if decide (WellFormed L) then
      nl := nl + 1
      if (full L (testVals L)).length ≠ total L then lenBad := lenBad + 1
      let (c, b) := checkOne L
      cnt := cnt + c
      bad := bad + b
      if b ≠ 0 then IO.println s!"MISMATCH layout {repr L}"
  IO.println s!"layouts {nl} windows {cnt} mismatches {bad} full-length-mismatches {lenBad}"

end Tdms.Proofs.C04

def main : IO Unit := Tdms.Proofs.C04.main
