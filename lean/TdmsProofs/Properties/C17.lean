/-
  C17 — "Sensor scalings invert their sensor laws".

  Headline theorems only (helper lemmas are in C17Lemmas.lean), each followed by a
  non-vacuity `example` that instantiates it with concrete physical parameters.
  Model   : Tdms.Model.Sensors  (Sensors.lean, transcription of nptdms/scaling.py)
  Spec    : Tdms.Spec.Sensors   (SensorLaws.lean, the forward physical laws)
-/
import TdmsProofs.Lemmas.C17Lemmas
import Tdms.Generated.Thermocouples

namespace Tdms.Proofs.C17

open Tdms.Model.Sensors Tdms.Spec.Sensors Tdms.Proofs.C17Lemmas

/-! # RTD (Callendar–Van Dusen) -/

/-- Quadratic branch: for `T ≥ 0` the code returns `T`.  The exact condition for
`√((a+2bT)²) = a+2bT` is `0 ≤ a + 2bT` (for PT100 that is `T ≤ 3383.8 °C`). -/
theorem rtd_positive {a b r0 I T : ℝ} (c lead : ℝ) (cfg : Nat)
    (hb : b < 0) (hs : 0 ≤ a + 2 * b * T) (hr0 : r0 ≠ 0) (hI : I ≠ 0) (hT : 0 ≤ T) :
    rtdPositive a b r0 I lead cfg
      (I * (callendarVanDusen r0 a b c T + currentLeadTerm cfg lead)) = T := by
  have h := rtdResistance_law hI cfg (callendarVanDusen r0 a b c T) lead
  unfold currentExcitedVoltage at h
  show (-a + Real.sqrt (a ^ 2 - 4 * b * (1 - rtdResistance I lead cfg
    (I * (callendarVanDusen r0 a b c T + currentLeadTerm cfg lead)) / r0))) / (2 * b) = T
  rw [h, cvd_nonneg hT]
  exact rtd_quadratic_inverse hb.ne hr0 hs

example :
    rtdPositive 3.9083e-3 (-5.775e-7) 100 1e-3 0.5 3
      (1e-3 * (callendarVanDusen 100 3.9083e-3 (-5.775e-7) (-4.183e-12) 250 + currentLeadTerm 3 0.5))
      = (250 : ℝ) :=
  rtd_positive _ _ _ (by norm_num) (by norm_num) (by norm_num) (by norm_num) (by norm_num)

/-- If the sign condition fails the quadratic branch returns the other root `-a/b - T`
(so `0 ≤ a + 2bT` is necessary whenever `a + 2bT ≠ 0`). -/
theorem rtd_positive_other_root {a b r0 I T : ℝ} (c lead : ℝ) (cfg : Nat)
    (hb : b ≠ 0) (hs : a + 2 * b * T ≤ 0) (hr0 : r0 ≠ 0) (hI : I ≠ 0) (hT : 0 ≤ T) :
    rtdPositive a b r0 I lead cfg
      (I * (callendarVanDusen r0 a b c T + currentLeadTerm cfg lead)) = -a / b - T := by
  have h := rtdResistance_law hI cfg (callendarVanDusen r0 a b c T) lead
  unfold currentExcitedVoltage at h
  show (-a + Real.sqrt (a ^ 2 - 4 * b * (1 - rtdResistance I lead cfg
    (I * (callendarVanDusen r0 a b c T + currentLeadTerm cfg lead)) / r0))) / (2 * b) = -a / b - T
  rw [h, cvd_nonneg hT]
  exact rtd_quadratic_other_root hb hr0 hs

example :
    rtdPositive 3.9083e-3 (-5.775e-7) 100 1e-3 0 4
      (1e-3 * (callendarVanDusen 100 3.9083e-3 (-5.775e-7) 0 4000 + currentLeadTerm 4 0))
      = -3.9083e-3 / (-5.775e-7) - 4000 :=
  rtd_positive_other_root _ _ _ (by norm_num) (by norm_num) (by norm_num) (by norm_num) (by norm_num)

/-- Branch selection: for `T ≥ 0` (and `r0 > 0`, `b ≤ 0`) the code's test `r_t >= r_0` is true. -/
theorem rtd_positive_branch {a b r0 I T : ℝ} (c lead : ℝ) (cfg : Nat)
    (hb : b ≤ 0) (hs : 0 ≤ a + 2 * b * T) (hr0 : 0 < r0) (hI : I ≠ 0) (hT : 0 ≤ T) :
    r0 ≤ rtdResistance I lead cfg (rtdVoltage I r0 a b c lead cfg T) := by
  unfold rtdVoltage
  rw [rtdResistance_law hI]
  exact cvd_ge_r0 hr0 hb hT hs

/-- `RtdScaling.scale` (whatever the root finder does) returns `T` for `T ≥ 0`. -/
theorem rtd_scale_nonneg (solve : List ℝ → ℝ) {a b r0 I T : ℝ} (c lead : ℝ) (cfg : Nat)
    (hb : b < 0) (hs : 0 ≤ a + 2 * b * T) (hr0 : 0 < r0) (hI : I ≠ 0) (hT : 0 ≤ T) :
    rtdScale solve a b c r0 I lead cfg (rtdVoltage I r0 a b c lead cfg T) = T := by
  unfold rtdScale
  simp only [if_pos (rtd_positive_branch c lead cfg hb.le hs hr0 hI hT)]
  exact rtd_positive c lead cfg hb hs hr0.ne' hI hT

example (solve : List ℝ → ℝ) :
    rtdScale solve 3.9083e-3 (-5.775e-7) (-4.183e-12) 100 1e-3 0.25 2
      (rtdVoltage 1e-3 100 3.9083e-3 (-5.775e-7) (-4.183e-12) 0.25 2 0) = 0 :=
  rtd_scale_nonneg solve _ _ _ (by norm_num) (by norm_num) (by norm_num) (by norm_num) (by norm_num)

/-- PARTIAL.  Negative temperatures: the quartic handed to `polyroots` has exactly the law's
coefficients, i.e. it vanishes at the true temperature.  That `polyroots` (a companion-matrix
eigenvalue solver) finds this root, and `_get_negative_real_root`'s filtering of
complex/real roots, are NOT proved. -/
theorem rtd_quartic_partial {a b c r0 T : ℝ} (hT : T < 0) :
    polyEval (rtdQuarticCoeffs a b c r0 (callendarVanDusen r0 a b c T)) T = 0 := by
  rw [polyEval_rtdQuartic, cvd_neg hT, sub_self]

example :
    polyEval (rtdQuarticCoeffs 3.9083e-3 (-5.775e-7) (-4.183e-12) 100
      (callendarVanDusen 100 3.9083e-3 (-5.775e-7) (-4.183e-12) (-50))) (-50) = (0 : ℝ) :=
  rtd_quartic_partial (by norm_num)

/-- PARTIAL.  The quartic is a faithful encoding: `t` is a root iff the law (with `C` term)
gives the measured resistance at `t`. -/
theorem rtd_quartic_root_iff_partial (a b c r0 r_t t : ℝ) :
    polyEval (rtdQuarticCoeffs a b c r0 r_t) t = 0
      ↔ r0 * (1 + a * t + b * t ^ 2 + c * (t - 100) * t ^ 3) = r_t := by
  rw [polyEval_rtdQuartic, sub_eq_zero]

/-- PARTIAL.  `RtdScaling.scale` for `T < 0` with the usual signs (`r0, a > 0`, `b, c ≤ 0`):
the code takes the quartic branch, hands the root finder the quartic of the law at
`r_t = R(T)`, `T` is a negative root of it, and it is the ONLY negative real root.  Hence
`_get_negative_real_root` cannot raise for a wrong count and returns `T`, PROVIDED `polyroots`
returns the exact roots — that proviso (the numerical solver) is not proved. -/
theorem rtd_scale_negative_partial (solve : List ℝ → ℝ) {a b c r0 I T : ℝ} (lead : ℝ) (cfg : Nat)
    (ha : 0 < a) (hb : b ≤ 0) (hc : c ≤ 0) (hr0 : 0 < r0) (hI : I ≠ 0) (hT : T < 0) :
    rtdScale solve a b c r0 I lead cfg (rtdVoltage I r0 a b c lead cfg T)
        = solve (rtdQuarticCoeffs a b c r0 (callendarVanDusen r0 a b c T))
    ∧ polyEval (rtdQuarticCoeffs a b c r0 (callendarVanDusen r0 a b c T)) T = 0
    ∧ ∀ t, t < 0 → polyEval (rtdQuarticCoeffs a b c r0 (callendarVanDusen r0 a b c T)) t = 0 → t = T := by
  refine ⟨?_, rtd_quartic_partial hT, ?_⟩
  · unfold rtdScale rtdVoltage
    simp only [rtdResistance_law hI]
    rw [if_neg (not_le.mpr (cvd_lt_r0 hr0 ha hb hc hT))]
  · intro t ht hroot
    rw [polyEval_rtdQuartic, cvd_neg hT, ← mul_sub, mul_eq_zero] at hroot
    have h := hroot.resolve_left hr0.ne'
    rcases lt_trichotomy t T with hlt | heq | hgt
    · have := cvdPoly_strictMono_neg ha hb hc hlt hT.le
      linarith
    · exact heq
    · have := cvdPoly_strictMono_neg ha hb hc hgt ht.le
      linarith

example (solve : List ℝ → ℝ) :
    rtdScale solve 3.9083e-3 (-5.775e-7) (-4.183e-12) 100 1e-3 0.5 3
        (rtdVoltage 1e-3 100 3.9083e-3 (-5.775e-7) (-4.183e-12) 0.5 3 (-100))
      = solve (rtdQuarticCoeffs 3.9083e-3 (-5.775e-7) (-4.183e-12) 100
          (callendarVanDusen 100 3.9083e-3 (-5.775e-7) (-4.183e-12) (-100))) :=
  (rtd_scale_negative_partial solve 0.5 3 (by norm_num) (by norm_num) (by norm_num) (by norm_num)
    (by norm_num) (by norm_num)).1

/-! # Thermistor (Steinhart–Hart) -/

/-- Current excitation, any wiring: the resistance step recovers `R` from `V = I (R + leads)`. -/
theorem thermistor_current {I : ℝ} (R R1 lead : ℝ) (cfg : Nat) (hI : I ≠ 0) :
    thermistorResistance true I R1 lead cfg (I * (R + currentLeadTerm cfg lead)) = R := by
  unfold thermistorResistance thermistorResistanceCurrent
  rw [if_pos rfl, mul_div_cancel_left₀ _ hI]
  exact adjustLead_current cfg R lead

example : thermistorResistance true (1e-4 : ℝ) 0 1.5 2 (1e-4 * (10000 + currentLeadTerm 2 1.5)) = 10000 :=
  thermistor_current _ _ _ _ (by norm_num)

/-- Voltage excitation: the code's reciprocal formula inverts the voltage divider. -/
theorem thermistor_voltage {R R1 Vex : ℝ} (hR : R ≠ 0) (hV : Vex ≠ 0) (hR1 : R1 ≠ 0)
    (hS : R1 + R ≠ 0) :
    thermistorResistanceVoltage R1 Vex (dividerVoltage Vex R1 R) = R :=
  thermistorResistanceVoltage_law hR hV hR1 hS

example : thermistorResistanceVoltage 10000 2.5 (dividerVoltage 2.5 10000 (5000 : ℝ)) = 5000 :=
  thermistor_voltage (by norm_num) (by norm_num) (by norm_num) (by norm_num)

/-- Voltage excitation with lead handling exactly as coded: only the 3-wire configuration is
compensated (by one `lead`); in particular a 2-wire divider leg is returned uncompensated. -/
theorem thermistor_voltage_lead {Rleg R1 Vex : ℝ} (lead : ℝ) (cfg : Nat) (hR : Rleg ≠ 0)
    (hV : Vex ≠ 0) (hR1 : R1 ≠ 0) (hS : R1 + Rleg ≠ 0) :
    thermistorResistance false Vex R1 lead cfg (dividerVoltage Vex R1 Rleg)
      = if cfg = 3 then Rleg - lead else Rleg := by
  unfold thermistorResistance
  rw [if_neg (by simp), adjustLead_voltage]
  have := thermistorResistanceVoltage_law hR hV hR1 hS
  unfold thermistorResistanceVoltage dividerVoltage
  rw [this]

example : thermistorResistance false 2.5 10000 1.5 3 (dividerVoltage 2.5 10000 (5000 + 1.5 : ℝ)) = 5000 := by
  rw [thermistor_voltage_lead 1.5 3 (by norm_num) (by norm_num) (by norm_num) (by norm_num)]
  norm_num

/-- Steinhart–Hart step. -/
theorem thermistor_steinhart_hart {a b c R T : ℝ} (offset : ℝ) (hT : T ≠ 0)
    (h : SteinhartHart a b c R T) : thermistorScale a b c offset R = T - offset :=
  thermistorScale_law offset hT h

/-- Non-vacuity: for any `R` with `a + b ln R + c ln³R ≠ 0` the Steinhart–Hart temperature
exists and is non-zero (here `R = 1`, `ln R = 0`, `1/T = a`). -/
example : thermistorScale 1.0e-3 2.4e-4 1.5e-7 273.15 1 = 1000 - 273.15 :=
  thermistor_steinhart_hart (T := 1000) _ (by norm_num) (by
    unfold SteinhartHart
    rw [Real.log_one]
    norm_num)

/-- `ThermistorScaling.scale` end to end, current excitation. -/
theorem thermistor_full_current {a b c R T I : ℝ} (R1 lead offset : ℝ) (cfg : Nat) (hI : I ≠ 0)
    (hT : T ≠ 0) (h : SteinhartHart a b c R T) :
    thermistorFull true I R1 lead cfg a b c offset (I * (R + currentLeadTerm cfg lead))
      = T - offset := by
  unfold thermistorFull
  rw [thermistor_current R R1 lead cfg hI]
  exact thermistor_steinhart_hart offset hT h

/-- `ThermistorScaling.scale` end to end, voltage excitation (no lead term). -/
theorem thermistor_full_voltage {a b c R T R1 Vex : ℝ} (offset : ℝ) (cfg : Nat) (hcfg : cfg ≠ 3)
    (hR : R ≠ 0) (hV : Vex ≠ 0) (hR1 : R1 ≠ 0) (hS : R1 + R ≠ 0)
    (hT : T ≠ 0) (h : SteinhartHart a b c R T) (lead : ℝ) :
    thermistorFull false Vex R1 lead cfg a b c offset (dividerVoltage Vex R1 R) = T - offset := by
  unfold thermistorFull
  rw [thermistor_voltage_lead lead cfg hR hV hR1 hS, if_neg hcfg]
  exact thermistor_steinhart_hart offset hT h

example : thermistorFull false 2.5 10000 0 4 1.0e-3 2.4e-4 1.5e-7 0 (dividerVoltage 2.5 10000 1) = 1000 - 0 :=
  thermistor_full_voltage (T := 1000) 0 4 (by norm_num) (by norm_num) (by norm_num) (by norm_num)
    (by norm_num) (by norm_num) (by unfold SteinhartHart; rw [Real.log_one]; norm_num) 0

/-! # Strain gauges (Wheatstone bridge) -/

section Strain
variable {K : Type*} [Field K] [CharZero K] [DecidableEq K]

omit [CharZero K] in
/-- The configuration codes dispatch to the seven formulas. -/
theorem strain_dispatch (p : StrainParams K) (v : K) :
    strainScale 10183 p v = some (strainFullBridge1 p v)
    ∧ strainScale 10184 p v = some (strainFullBridge2 p v)
    ∧ strainScale 10185 p v = some (strainFullBridge3 p v)
    ∧ strainScale 10188 p v = some (strainHalfBridge1 p v)
    ∧ strainScale 10189 p v = some (strainHalfBridge2 p v)
    ∧ strainScale 10271 p v = some (strainQuarterBridge p v)
    ∧ strainScale 10272 p v = some (strainQuarterBridge p v) := by
  simp [strainScale]

/-- FULL_BRIDGE_1 (10183): code returns `gain · ε`. -/
theorem strain_full_bridge_1 (p : StrainParams K) {R0 : K} (ε : K)
    (hR0 : R0 ≠ 0) (hV : p.vex ≠ 0) (hG : p.gageFactor ≠ 0) :
    strainFullBridge1 p (fullBridge1 R0 p.gageFactor p.vex ε + p.vInit) = p.gain * ε := by
  rw [fullBridge1_closed hR0]
  exact strainFullBridge1_core p hV hG ε

theorem strain_full_bridge_1_plain (p : StrainParams K) {R0 : K} (ε : K)
    (hgain : p.gain = 1) (hinit : p.vInit = 0)
    (hR0 : R0 ≠ 0) (hV : p.vex ≠ 0) (hG : p.gageFactor ≠ 0) :
    strainFullBridge1 p (fullBridge1 R0 p.gageFactor p.vex ε) = ε := by
  have h := strain_full_bridge_1 p ε hR0 hV hG
  rwa [hinit, add_zero, hgain, one_mul] at h

/-- FULL_BRIDGE_2 (10184): code returns `gain · ε`. -/
theorem strain_full_bridge_2 (p : StrainParams K) {R0 : K} (ε : K)
    (hR0 : R0 ≠ 0) (hV : p.vex ≠ 0) (hG : p.gageFactor ≠ 0) (hν : 1 + p.nu ≠ 0) :
    strainFullBridge2 p (fullBridge2 R0 p.gageFactor p.nu p.vex ε + p.vInit) = p.gain * ε := by
  rw [fullBridge2_closed hR0]
  exact strainFullBridge2_core p hV hG hν ε

theorem strain_full_bridge_2_plain (p : StrainParams K) {R0 : K} (ε : K)
    (hgain : p.gain = 1) (hinit : p.vInit = 0)
    (hR0 : R0 ≠ 0) (hV : p.vex ≠ 0) (hG : p.gageFactor ≠ 0) (hν : 1 + p.nu ≠ 0) :
    strainFullBridge2 p (fullBridge2 R0 p.gageFactor p.nu p.vex ε) = ε := by
  have h := strain_full_bridge_2 p ε hR0 hV hG hν
  rwa [hinit, add_zero, hgain, one_mul] at h

/-- FULL_BRIDGE_3 (10185): code returns `gain · ε`. -/
theorem strain_full_bridge_3 (p : StrainParams K) {R0 : K} (ε : K)
    (hR0 : R0 ≠ 0) (hV : p.vex ≠ 0) (hG : p.gageFactor ≠ 0) (hg : p.gain ≠ 0)
    (hν : 1 + p.nu ≠ 0) (hD : 2 + ε * p.gageFactor * (1 - p.nu) ≠ 0) :
    strainFullBridge3 p (fullBridge3 R0 p.gageFactor p.nu p.vex ε + p.vInit) = p.gain * ε := by
  rw [fullBridge3_closed hR0 hD]
  exact strainFullBridge3_core p hV hG hg hν ε hD

theorem strain_full_bridge_3_plain (p : StrainParams K) {R0 : K} (ε : K)
    (hgain : p.gain = 1) (hinit : p.vInit = 0)
    (hR0 : R0 ≠ 0) (hV : p.vex ≠ 0) (hG : p.gageFactor ≠ 0)
    (hν : 1 + p.nu ≠ 0) (hD : 2 + ε * p.gageFactor * (1 - p.nu) ≠ 0) :
    strainFullBridge3 p (fullBridge3 R0 p.gageFactor p.nu p.vex ε) = ε := by
  have h := strain_full_bridge_3 p ε hR0 hV hG (by rw [hgain]; exact one_ne_zero) hν hD
  rwa [hinit, add_zero, hgain, one_mul] at h

/-- HALF_BRIDGE_1 (10188): against the *ideal* bridge the code returns
`gain · (1 + lead/Rg) · ε` (NI's lead-desensitisation factor is applied to the reading). -/
theorem strain_half_bridge_1 (p : StrainParams K) {R0 : K} (ε : K)
    (hR0 : R0 ≠ 0) (hV : p.vex ≠ 0) (hG : p.gageFactor ≠ 0) (hg : p.gain ≠ 0)
    (hν : 1 + p.nu ≠ 0) (hL : 1 + p.lead / p.gageResistance ≠ 0)
    (hD : 2 + ε * p.gageFactor * (1 - p.nu) ≠ 0) :
    strainHalfBridge1 p (halfBridge1 R0 p.gageFactor p.nu p.vex ε + p.vInit)
      = p.gain * (1 + p.lead / p.gageResistance) * ε := by
  rw [halfBridge1_closed hR0 hD, strainHalfBridge1_core p _ ε hV hG hg hν hL hD, div_self hG, mul_one]

/-- HALF_BRIDGE_1 with the lead wire in the bridge law (gauge factor desensitised by
`1/(1 + lead/Rg)`): the code returns `gain · ε`. -/
theorem strain_half_bridge_1_desensitised (p : StrainParams K) {R0 : K} (ε : K)
    (hR0 : R0 ≠ 0) (hV : p.vex ≠ 0) (hG : p.gageFactor ≠ 0) (hg : p.gain ≠ 0)
    (hν : 1 + p.nu ≠ 0) (hL : 1 + p.lead / p.gageResistance ≠ 0)
    (hD : 2 + ε * desensitisedGaugeFactor p.gageFactor p.gageResistance p.lead * (1 - p.nu) ≠ 0) :
    strainHalfBridge1 p
      (halfBridge1 R0 (desensitisedGaugeFactor p.gageFactor p.gageResistance p.lead) p.nu p.vex ε
        + p.vInit) = p.gain * ε := by
  rw [halfBridge1_closed hR0 hD, strainHalfBridge1_core p _ ε hV hG hg hν hL hD]
  unfold desensitisedGaugeFactor
  field_simp

theorem strain_half_bridge_1_plain (p : StrainParams K) {R0 : K} (ε : K)
    (hgain : p.gain = 1) (hlead : p.lead = 0) (hinit : p.vInit = 0)
    (hR0 : R0 ≠ 0) (hV : p.vex ≠ 0) (hG : p.gageFactor ≠ 0)
    (hν : 1 + p.nu ≠ 0) (hD : 2 + ε * p.gageFactor * (1 - p.nu) ≠ 0) :
    strainHalfBridge1 p (halfBridge1 R0 p.gageFactor p.nu p.vex ε) = ε := by
  have hL : 1 + p.lead / p.gageResistance ≠ 0 := by rw [hlead, zero_div, add_zero]; exact one_ne_zero
  have h := strain_half_bridge_1 p ε hR0 hV hG (by rw [hgain]; exact one_ne_zero) hν hL hD
  rwa [hinit, add_zero, hgain, one_mul, hlead, zero_div, add_zero, one_mul] at h

/-- HALF_BRIDGE_2 (10189): against the ideal bridge the code returns `gain · (1 + lead/Rg) · ε`. -/
theorem strain_half_bridge_2 (p : StrainParams K) {R0 : K} (ε : K)
    (hR0 : R0 ≠ 0) (hV : p.vex ≠ 0) (hG : p.gageFactor ≠ 0)
    (hL : 1 + p.lead / p.gageResistance ≠ 0) :
    strainHalfBridge2 p (halfBridge2 R0 p.gageFactor p.vex ε + p.vInit)
      = p.gain * (1 + p.lead / p.gageResistance) * ε := by
  rw [halfBridge2_closed hR0, strainHalfBridge2_core p _ ε hV hG hL, div_self hG, mul_one]

theorem strain_half_bridge_2_desensitised (p : StrainParams K) {R0 : K} (ε : K)
    (hR0 : R0 ≠ 0) (hV : p.vex ≠ 0) (hG : p.gageFactor ≠ 0)
    (hL : 1 + p.lead / p.gageResistance ≠ 0) :
    strainHalfBridge2 p
      (halfBridge2 R0 (desensitisedGaugeFactor p.gageFactor p.gageResistance p.lead) p.vex ε
        + p.vInit) = p.gain * ε := by
  rw [halfBridge2_closed hR0, strainHalfBridge2_core p _ ε hV hG hL]
  unfold desensitisedGaugeFactor
  field_simp

theorem strain_half_bridge_2_plain (p : StrainParams K) {R0 : K} (ε : K)
    (hgain : p.gain = 1) (hlead : p.lead = 0) (hinit : p.vInit = 0)
    (hR0 : R0 ≠ 0) (hV : p.vex ≠ 0) (hG : p.gageFactor ≠ 0) :
    strainHalfBridge2 p (halfBridge2 R0 p.gageFactor p.vex ε) = ε := by
  have hL : 1 + p.lead / p.gageResistance ≠ 0 := by rw [hlead, zero_div, add_zero]; exact one_ne_zero
  have h := strain_half_bridge_2 p ε hR0 hV hG hL
  rwa [hinit, add_zero, hgain, one_mul, hlead, zero_div, add_zero, one_mul] at h

/-- QUARTER_BRIDGE_1/2 (10271, 10272): against the ideal bridge the code returns
`gain · (1 + lead/Rg) · ε`. -/
theorem strain_quarter_bridge (p : StrainParams K) {R0 : K} (ε : K)
    (hR0 : R0 ≠ 0) (hV : p.vex ≠ 0) (hG : p.gageFactor ≠ 0)
    (hL : 1 + p.lead / p.gageResistance ≠ 0) (hD : 2 + ε * p.gageFactor ≠ 0) :
    strainQuarterBridge p (quarterBridge R0 p.gageFactor p.vex ε + p.vInit)
      = p.gain * (1 + p.lead / p.gageResistance) * ε := by
  rw [quarterBridge_closed hR0 hD, strainQuarterBridge_core p _ ε hV hG hL hD, div_self hG, mul_one]

theorem strain_quarter_bridge_desensitised (p : StrainParams K) {R0 : K} (ε : K)
    (hR0 : R0 ≠ 0) (hV : p.vex ≠ 0) (hG : p.gageFactor ≠ 0)
    (hL : 1 + p.lead / p.gageResistance ≠ 0)
    (hD : 2 + ε * desensitisedGaugeFactor p.gageFactor p.gageResistance p.lead ≠ 0) :
    strainQuarterBridge p
      (quarterBridge R0 (desensitisedGaugeFactor p.gageFactor p.gageResistance p.lead) p.vex ε
        + p.vInit) = p.gain * ε := by
  rw [quarterBridge_closed hR0 hD, strainQuarterBridge_core p _ ε hV hG hL hD]
  unfold desensitisedGaugeFactor
  field_simp

theorem strain_quarter_bridge_plain (p : StrainParams K) {R0 : K} (ε : K)
    (hgain : p.gain = 1) (hlead : p.lead = 0) (hinit : p.vInit = 0)
    (hR0 : R0 ≠ 0) (hV : p.vex ≠ 0) (hG : p.gageFactor ≠ 0) (hD : 2 + ε * p.gageFactor ≠ 0) :
    strainQuarterBridge p (quarterBridge R0 p.gageFactor p.vex ε) = ε := by
  have hL : 1 + p.lead / p.gageResistance ≠ 0 := by rw [hlead, zero_div, add_zero]; exact one_ne_zero
  have h := strain_quarter_bridge p ε hR0 hV hG hL hD
  rwa [hinit, add_zero, hgain, one_mul, hlead, zero_div, add_zero, one_mul] at h

end Strain

/-! ### Non-vacuity of the strain theorems (ℚ; steel, 350 Ω gauges, 2.5 V excitation) -/

/-- ν = 0.3, Rg = 350 Ω, lead = 0.5 Ω, Vinit = 1 mV, G = 2.1, gain = 1.01, Vex = 2.5 V. -/
def pEx : StrainParams ℚ := ⟨3/10, 350, 1/2, 1/1000, 21/10, 101/100, 5/2⟩
/-- The same gauge with gain 1, no lead resistance, no initial voltage. -/
def pPlain : StrainParams ℚ := ⟨3/10, 350, 0, 0, 21/10, 1, 5/2⟩

example : strainFullBridge1 pEx (fullBridge1 350 pEx.gageFactor pEx.vex (1/1000) + pEx.vInit)
    = pEx.gain * (1/1000) :=
  strain_full_bridge_1 pEx _ (by norm_num) (by norm_num [pEx]) (by norm_num [pEx])
example : strainFullBridge1 pPlain (fullBridge1 350 pPlain.gageFactor pPlain.vex (1/1000)) = 1/1000 :=
  strain_full_bridge_1_plain pPlain _ rfl rfl (by norm_num) (by norm_num [pPlain]) (by norm_num [pPlain])

example : strainFullBridge2 pEx (fullBridge2 350 pEx.gageFactor pEx.nu pEx.vex (1/1000) + pEx.vInit)
    = pEx.gain * (1/1000) :=
  strain_full_bridge_2 pEx _ (by norm_num) (by norm_num [pEx]) (by norm_num [pEx]) (by norm_num [pEx])
example : strainFullBridge2 pPlain (fullBridge2 350 pPlain.gageFactor pPlain.nu pPlain.vex (1/1000))
    = 1/1000 :=
  strain_full_bridge_2_plain pPlain _ rfl rfl (by norm_num) (by norm_num [pPlain])
    (by norm_num [pPlain]) (by norm_num [pPlain])

example : strainFullBridge3 pEx (fullBridge3 350 pEx.gageFactor pEx.nu pEx.vex (1/1000) + pEx.vInit)
    = pEx.gain * (1/1000) :=
  strain_full_bridge_3 pEx _ (by norm_num) (by norm_num [pEx]) (by norm_num [pEx])
    (by norm_num [pEx]) (by norm_num [pEx]) (by norm_num [pEx])
example : strainFullBridge3 pPlain (fullBridge3 350 pPlain.gageFactor pPlain.nu pPlain.vex (1/1000))
    = 1/1000 :=
  strain_full_bridge_3_plain pPlain _ rfl rfl (by norm_num) (by norm_num [pPlain])
    (by norm_num [pPlain]) (by norm_num [pPlain]) (by norm_num [pPlain])

example : strainHalfBridge1 pEx (halfBridge1 350 pEx.gageFactor pEx.nu pEx.vex (1/1000) + pEx.vInit)
    = pEx.gain * (1 + pEx.lead / pEx.gageResistance) * (1/1000) :=
  strain_half_bridge_1 pEx _ (by norm_num) (by norm_num [pEx]) (by norm_num [pEx])
    (by norm_num [pEx]) (by norm_num [pEx]) (by norm_num [pEx]) (by norm_num [pEx])
example : strainHalfBridge1 pEx
    (halfBridge1 350 (desensitisedGaugeFactor pEx.gageFactor pEx.gageResistance pEx.lead)
      pEx.nu pEx.vex (1/1000) + pEx.vInit) = pEx.gain * (1/1000) :=
  strain_half_bridge_1_desensitised pEx _ (by norm_num) (by norm_num [pEx]) (by norm_num [pEx])
    (by norm_num [pEx]) (by norm_num [pEx]) (by norm_num [pEx])
    (by norm_num [pEx, desensitisedGaugeFactor])
example : strainHalfBridge1 pPlain (halfBridge1 350 pPlain.gageFactor pPlain.nu pPlain.vex (1/1000))
    = 1/1000 :=
  strain_half_bridge_1_plain pPlain _ rfl rfl rfl (by norm_num) (by norm_num [pPlain])
    (by norm_num [pPlain]) (by norm_num [pPlain]) (by norm_num [pPlain])

example : strainHalfBridge2 pEx (halfBridge2 350 pEx.gageFactor pEx.vex (1/1000) + pEx.vInit)
    = pEx.gain * (1 + pEx.lead / pEx.gageResistance) * (1/1000) :=
  strain_half_bridge_2 pEx _ (by norm_num) (by norm_num [pEx]) (by norm_num [pEx]) (by norm_num [pEx])
example : strainHalfBridge2 pEx
    (halfBridge2 350 (desensitisedGaugeFactor pEx.gageFactor pEx.gageResistance pEx.lead)
      pEx.vex (1/1000) + pEx.vInit) = pEx.gain * (1/1000) :=
  strain_half_bridge_2_desensitised pEx _ (by norm_num) (by norm_num [pEx]) (by norm_num [pEx])
    (by norm_num [pEx])
example : strainHalfBridge2 pPlain (halfBridge2 350 pPlain.gageFactor pPlain.vex (1/1000)) = 1/1000 :=
  strain_half_bridge_2_plain pPlain _ rfl rfl rfl (by norm_num) (by norm_num [pPlain])
    (by norm_num [pPlain])

example : strainQuarterBridge pEx (quarterBridge 350 pEx.gageFactor pEx.vex (1/1000) + pEx.vInit)
    = pEx.gain * (1 + pEx.lead / pEx.gageResistance) * (1/1000) :=
  strain_quarter_bridge pEx _ (by norm_num) (by norm_num [pEx]) (by norm_num [pEx])
    (by norm_num [pEx]) (by norm_num [pEx])
example : strainQuarterBridge pEx
    (quarterBridge 350 (desensitisedGaugeFactor pEx.gageFactor pEx.gageResistance pEx.lead)
      pEx.vex (1/1000) + pEx.vInit) = pEx.gain * (1/1000) :=
  strain_quarter_bridge_desensitised pEx _ (by norm_num) (by norm_num [pEx]) (by norm_num [pEx])
    (by norm_num [pEx]) (by norm_num [pEx, desensitisedGaugeFactor])
example : strainQuarterBridge pPlain (quarterBridge 350 pPlain.gageFactor pPlain.vex (1/1000))
    = 1/1000 :=
  strain_quarter_bridge_plain pPlain _ rfl rfl rfl (by norm_num) (by norm_num [pPlain])
    (by norm_num [pPlain]) (by norm_num [pPlain])

/-- The strain theorems also instantiate over `ℝ`. -/
example (p : StrainParams ℝ) (ε : ℝ) (hV : p.vex ≠ 0) (hG : p.gageFactor ≠ 0) :
    strainFullBridge1 p (fullBridge1 120 p.gageFactor p.vex ε + p.vInit) = p.gain * ε :=
  strain_full_bridge_1 p ε (by norm_num) hV hG

/-! ### Discrepancies (each with a concrete witness over ℚ) -/

/-- DISCREPANCY D-C17-1 (comment, not code).  scaling.py lines 246-248 say that in half bridge I
`R3 = R0 (1 + ε ν G)`.  With that arm the Wheatstone equation does NOT give the `Vo` quoted in
the next comment line, and the code does not invert it: for ν = 0.3, G = 2, Vex = 2.5 V,
R0 = 350 Ω, ε = 1000 µε the code returns 7/13012 ≈ 538 µε.  The code inverts
`R3 = R0 (1 - ε ν G)` (`strain_half_bridge_1`), which is the physical arrangement (Poisson
gauge) and NI's formula; only the comment's sign is wrong. -/
theorem half_bridge_1_comment_discrepancy :
    let p : StrainParams ℚ := ⟨3/10, 350, 0, 0, 2, 1, 5/2⟩
    strainHalfBridge1 p (halfBridge1AsCommented 350 2 (3/10) (5/2) (1/1000)) = 7/13012
    ∧ (7/13012 : ℚ) ≠ 1/1000
    ∧ strainHalfBridge1 p (halfBridge1 350 2 (3/10) (5/2) (1/1000)) = 1/1000 := by
  refine ⟨?_, by norm_num, ?_⟩ <;>
    norm_num [strainHalfBridge1, halfBridge1AsCommented, halfBridge1, wheatstone, subInitial,
      leadAdjustment]

/-- OBSERVATION O-C17-2.  Half/quarter bridges with `lead ≠ 0`: the code is not the inverse of
the *ideal* bridge equation; it returns `(1 + lead/Rg)·ε` (NI's documented lead correction).
Witness: quarter bridge, Rg = 350 Ω, lead = 3.5 Ω, returns 1.01·ε. -/
theorem quarter_bridge_lead_witness :
    let p : StrainParams ℚ := ⟨3/10, 350, 7/2, 0, 2, 1, 5/2⟩
    strainQuarterBridge p (quarterBridge 350 2 (5/2) (1/1000)) = 101/100 * (1/1000) := by
  norm_num [strainQuarterBridge, quarterBridge, wheatstone, subInitial, leadAdjustment]

/-- OBSERVATION O-C17-3.  Thermistor, voltage excitation, 2-wire: if the divider's lower leg is
`R + 2·lead` (both leads in series with the thermistor) the code returns `R + 2·lead`; the
`2·lead` compensation exists only for current excitation.  R = 5000 Ω, lead = 10 Ω → 5020 Ω. -/
theorem thermistor_voltage_two_wire_witness :
    thermistorResistance false (5/2 : ℚ) 10000 10 2 (dividerVoltage (5/2) 10000 (5000 + 2 * 10)) = 5020
    ∧ thermistorResistance true (1/10000 : ℚ) 10000 10 2 ((1/10000) * (5000 + 2 * 10)) = 5000 := by
  constructor <;>
    norm_num [thermistorResistance, thermistorResistanceVoltage, thermistorResistanceCurrent,
      dividerVoltage, adjustLead]

/-! # Polynomial and table scalings -/

/-- `polyval`'s Horner scheme computes `Σ cᵢ xⁱ`. -/
theorem polynomial_is_horner {K : Type*} [Field K] (cs : List K) (x : K) :
    horner cs x = polyEval cs x :=
  horner_eq_polyEval cs x

example : horner [1, -2, (3 : ℚ), 1/2] 2 = polyEval [1, -2, 3, 1/2] 2 ∧ horner [1, -2, (3 : ℚ), 1/2] 2 = 13 :=
  ⟨polynomial_is_horner _ _, by norm_num [horner]⟩

section Table
variable {K : Type*} [Field K] [LinearOrder K]

/-- Region 1: left of the table `np.interp` returns the first ordinate. -/
theorem table_below {xs ys : List K} {x : K} (hl : xs.length = ys.length) (hne : xs ≠ [])
    (hx : x < xs.headD 0) : interpClamped xs ys x = ys.headD 0 :=
  interpClamped_below hl hne hx

/-- Region 2: at or right of the last node it returns the last ordinate. -/
theorem table_above {xs ys : List K} {x : K} (hs : StrictlySorted xs) (hl : xs.length = ys.length)
    (hne : xs ≠ []) (hx : xs.getLastD 0 ≤ x) : interpClamped xs ys x = ys.getLastD 0 :=
  interpClamped_above hs hl hne hx

/-- Region 3: between neighbours `xs[j] ≤ x < xs[j+1]` it returns the chord. -/
theorem table_between {xs ys : List K} {x : K} {j : Nat} (hs : StrictlySorted xs)
    (hl : xs.length = ys.length) (hj : j + 1 < xs.length)
    (hlo : xs.getD j 0 ≤ x) (hhi : x < xs.getD (j + 1) 0) :
    interpClamped xs ys x
      = ys.getD j 0 + (ys.getD (j + 1) 0 - ys.getD j 0) / (xs.getD (j + 1) 0 - xs.getD j 0)
          * (x - xs.getD j 0) :=
  interpClamped_between hs hl hj hlo hhi

/-- The segment of region 3 is unique, so `piecewiseLinear` is well defined. -/
theorem segment_index_unique {xs : List K} {x : K} {i j : Nat} (hs : StrictlySorted xs)
    (hi : i + 1 < xs.length) (hj : j + 1 < xs.length)
    (hil : xs.getD i 0 ≤ x) (hih : x < xs.getD (i + 1) 0)
    (hjl : xs.getD j 0 ≤ x) (hjh : x < xs.getD (j + 1) 0) : i = j :=
  C17Lemmas.segment_index_unique hs hi hj hil hih hjl hjh

/-- `np.interp` on a strictly increasing table is clamped piecewise-linear interpolation. -/
theorem table_is_clamped_interp {xs ys : List K} (hs : StrictlySorted xs)
    (hl : xs.length = ys.length) (x : K) : interpClamped xs ys x = piecewiseLinear xs ys x :=
  interpClamped_eq_piecewiseLinear hs hl x

/-- `TableScaling` end to end: whatever table the constructor accepts (as given, or flipped when
decreasing) is strictly increasing, and `scale` is its clamped piecewise-linear interpolant. -/
theorem table_scale_spec {pre scaled xs ys : List K} (hl : pre.length = scaled.length)
    (h : tableInit pre scaled = some (xs, ys)) (x : K) :
    StrictlySorted xs
    ∧ ((xs = scaled ∧ ys = pre) ∨ (xs = scaled.reverse ∧ ys = pre.reverse))
    ∧ tableScale pre scaled x = some (piecewiseLinear xs ys x) := by
  obtain ⟨hs, hlen, hor⟩ := tableInit_spec hl h
  refine ⟨hs, hor, ?_⟩
  unfold tableScale
  rw [h, Option.map_some, table_is_clamped_interp hs hlen]

end Table

/-- Non-vacuity: a 3-node increasing table, one point per region, and a decreasing table that
the constructor flips. -/
example : StrictlySorted [(0 : ℚ), 1, 3] := by decide
example : interpClamped [(0 : ℚ), 1, 3] [10, 20, 60] (-1) = 10 :=
  table_below rfl (by simp) (by norm_num)
example : interpClamped [(0 : ℚ), 1, 3] [10, 20, 60] 3 = 60 :=
  table_above (by decide) rfl (by simp) (by norm_num)
example : interpClamped [(0 : ℚ), 1, 3] [10, 20, 60] 2 = 40 := by
  rw [table_between (xs := [(0 : ℚ), 1, 3]) (ys := [10, 20, 60]) (x := 2) (j := 1)
    (by decide) rfl (by simp) (by norm_num) (by norm_num)]
  norm_num
example : interpClamped [(0 : ℚ), 1, 3] [10, 20, 60] 2 = piecewiseLinear [0, 1, 3] [10, 20, 60] 2 :=
  table_is_clamped_interp (xs := [(0 : ℚ), 1, 3]) (ys := [10, 20, 60]) (by decide) rfl 2
example : tableInit [(60 : ℚ), 20, 10] [3, 1, 0] = some ([0, 1, 3], [10, 20, 60]) := by decide
example : tableScale [(60 : ℚ), 20, 10] [3, 1, 0] 2 = some (piecewiseLinear [0, 1, 3] [10, 20, 60] 2) :=
  (table_scale_spec (pre := [(60 : ℚ), 20, 10]) (scaled := [3, 1, 0]) (xs := [0, 1, 3])
    (ys := [10, 20, 60]) rfl (by decide) 2).2.2

/-- Tie to the constants extracted from `nptdms/scaling.py` on every run: the configuration codes that
`strainScale` dispatches on and the excitation codes that select `adjustLead`'s branch. -/
theorem codes_tied :
    Tdms.Generated.strain_FULL_BRIDGE_1 = 10183 ∧ Tdms.Generated.strain_FULL_BRIDGE_2 = 10184 ∧
    Tdms.Generated.strain_FULL_BRIDGE_3 = 10185 ∧ Tdms.Generated.strain_HALF_BRIDGE_1 = 10188 ∧
    Tdms.Generated.strain_HALF_BRIDGE_2 = 10189 ∧ Tdms.Generated.strain_QUARTER_BRIDGE_1 = 10271 ∧
    Tdms.Generated.strain_QUARTER_BRIDGE_2 = 10272 ∧ Tdms.Generated.voltageExcitation = 10322 ∧
    Tdms.Generated.currentExcitation = 10134 := by decide

end Tdms.Proofs.C17
