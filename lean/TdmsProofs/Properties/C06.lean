import TdmsProofs.Lemmas.C06Lemmas
import TdmsProofs.Lemmas.LeadInLoopLemmas
import TdmsProofs.Lemmas.C11Lemmas

/-!
# C06 — a file cut short by a crash reads as a prefix of the complete file (arithmetic core)

Theorems about `calculateChunks`, `computeFinalChunkLengths`, `contiguousFinalLengths`,
`numberOfSegmentValues`, `readLeadIn` and `readMetadataLoop` of `Tdms/Model/Reader.lean`, for arbitrary
object lists and sizes.

Notation used in the comments: `c` chunk size in bytes, `k` number of complete chunks, `r` bytes of the
truncated final chunk (`0 < r < c`), `n_o = o.numberValues`, `sz_o = objSz o` (byte width of one value),
`d = objects.filter hasData`.
-/

namespace Tdms.Proofs.C06

open Tdms Tdms.Model Tdms.Generated Tdms.Proofs.LeadIn

/-! ## 1, 2 — number of chunks -/

/-- **uncut segment**: a data region of exactly `k` chunks gives `k` chunks and touches nothing else -/
theorem calculateChunks_exact (s : Segment) (c k : Nat)
    (hc : chunkSize s.objects = .ok c) (hpos : c > 0)
    (hn : s.nextSegmentPos = s.dataPosition + k * c) :
    calculateChunks s = .ok { s with numChunks := k } :=
  calculateChunks_exact' s c k hc hpos hn

/-- **truncated segment**: `k` chunks and `0 < r < c` further bytes give `k + 1` chunks, the last one described by
    `computeFinalChunkLengths` (whose error, if any, is the error of `calculateChunks`) -/
theorem calculateChunks_truncated (s : Segment) (c k r : Nat)
    (hc : chunkSize s.objects = .ok c) (hr0 : 0 < r) (hrc : r < c)
    (hn : s.nextSegmentPos = s.dataPosition + (k * c + r)) :
    calculateChunks s =
      (computeFinalChunkLengths s c r).map fun ov => { s with numChunks := k + 1, override := some ov } :=
  calculateChunks_truncated' s c k r hc hr0 hrc hn

/-- the same, when the final lengths are computed successfully -/
theorem calculateChunks_truncated_ok (s : Segment) (c k r : Nat) (ov : List (Bytes × Nat))
    (hc : chunkSize s.objects = .ok c) (hr0 : 0 < r) (hrc : r < c)
    (hn : s.nextSegmentPos = s.dataPosition + (k * c + r))
    (hov : computeFinalChunkLengths s c r = .ok ov) :
    calculateChunks s = .ok { s with numChunks := k + 1, override := some ov } := by
  rw [calculateChunks_truncated s c k r hc hr0 hrc hn, hov]; rfl

/-! ## 3 — interleaved data, and truncated data of a segment that is not the last one -/

/-- in the interleaved / not-incomplete branch every listed object gets `(n_o * r) / c` values -/
theorem interleaved_final_lengths (s : Segment) (c r : Nat)
    (hd : haveDaqmxObjects s.objects = .ok false) (hs : allSized s.objects)
    (hbranch : (hasFlag s.toc kTocInterleavedData || !s.incomplete) = true) :
    computeFinalChunkLengths s c r =
      .ok ((s.objects.filter (·.hasData)).map fun o => (o.path, (o.numberValues * r) / c)) := by
  rw [computeFinalChunkLengths_std s c r hd hs, if_pos hbranch]

/-- `(n * r) / (n * W) = r / W`: the number of complete rows of width `W` inside `r` bytes, and it is below `n` -/
theorem truncated_rows_eq (n r W : Nat) (hn : 0 < n) (hr : r < n * W) :
    (n * r) / (n * W) = r / W ∧ r / W < n ∧ (r / W) * W ≤ r ∧ r < (r / W + 1) * W := by
  have hW : 0 < W := by
    cases W with
    | zero => simp at hr
    | succ w => omega
  exact ⟨rows_arith n r W hn, rows_le n r W hr, Nat.div_mul_le_self r W, Nat.lt_mul_of_div_lt (by omega) hW⟩

/-- interleaved segment whose data objects all have `n` values of fixed width: the chunk size is `n * W` and the
    truncated final chunk holds `r / W` values of every object — exactly the complete rows -/
theorem interleaved_final_rows (s : Segment) (n r : Nat)
    (hd : haveDaqmxObjects s.objects = .ok false) (hs : allSized s.objects)
    (hbranch : (hasFlag s.toc kTocInterleavedData || !s.incomplete) = true)
    (hn : 0 < n)
    (hnv : ∀ o ∈ s.objects, o.hasData = true → o.numberValues = n)
    (hds : ∀ o ∈ s.objects, o.hasData = true → o.dataSize = n * objSz o) :
    let W := rowWidth (s.objects.filter (·.hasData))
    chunkSize s.objects = .ok (n * W) ∧
    computeFinalChunkLengths s (n * W) r = .ok ((s.objects.filter (·.hasData)).map fun o => (o.path, r / W)) := by
  intro W
  refine ⟨chunkSize_uniform s.objects n hd hds, ?_⟩
  rw [interleaved_final_lengths s (n * W) r hd hs hbranch]
  congr 1
  apply List.map_congr_left
  intro o ho
  simp at ho
  rw [hnv o ho.1 ho.2, rows_arith n r W hn]

/-! ## 4 — contiguous truncated data -/

/-- in the contiguous branch (last, incomplete, non-interleaved segment) the override is `contiguousFinalLengths` -/
theorem contiguous_final_lengths_eq (s : Segment) (c r : Nat)
    (hd : haveDaqmxObjects s.objects = .ok false) (hs : allSized s.objects)
    (hbranch : (hasFlag s.toc kTocInterleavedData || !s.incomplete) = false) :
    computeFinalChunkLengths s c r = .ok (contiguousFinalLengths s.objects r) := by
  rw [computeFinalChunkLengths_std s c r hd hs, hbranch]; rfl

/-- **closed form**: with distinct paths and positive widths, the final length of every data object `o` is the
    number of its complete values that lie inside the first `r` bytes of the chunk,
    `min n_o ((r - start_o) / sz_o)`, where `start_o` is the byte offset of `o` in a full chunk.  In particular an
    object wholly inside (also one ending exactly at byte `r`) gets `n_o`, the object containing byte `r` gets
    `⌊(r - start_o) / sz_o⌋`, and later objects get `0`. -/
theorem contiguous_final_length_of_object (objs : List SegObj) (r : Nat)
    (pre : List SegObj) (o : SegObj) (post : List SegObj)
    (hsplit : objs.filter (·.hasData) = pre ++ o :: post)
    (hsz : ∀ x ∈ objs.filter (·.hasData), 0 < objSz x)
    (hnd : ((objs.filter (·.hasData)).map (·.path)).Nodup) :
    overrideGet (contiguousFinalLengths objs r) o.path
      = min o.numberValues ((r - totalBytes pre) / objSz o) := by
  rw [cfl_eq, hsplit]
  rw [hsplit] at hsz hnd
  exact cfl_overrideGet pre o post r hsz hnd

/-- the listed paths are those of a prefix of the data objects, in order; objects after it are absent and read
    as length `0` -/
theorem contiguous_final_lengths_prefix (objs : List SegObj) (r : Nat) :
    let d := objs.filter (·.hasData)
    let out := contiguousFinalLengths objs r
    out.length ≤ d.length ∧ out.map (·.1) = (d.take out.length).map (·.path) ∧
    (∀ pre o post, d = pre ++ o :: post → (d.map (·.path)).Nodup → out.length ≤ pre.length →
      overrideGet out o.path = 0) := by
  intro d out
  refine ⟨?_, ?_, ?_⟩
  · show (contiguousFinalLengths objs r).length ≤ _
    rw [cfl_eq]; exact cfl_length_le _ _
  · show (contiguousFinalLengths objs r).map _ = (List.take (contiguousFinalLengths objs r).length _).map _
    rw [cfl_eq]; exact cfl_paths _ _
  · intro pre o post hsplit hnd hlen
    show overrideGet (contiguousFinalLengths objs r) o.path = 0
    have hd : objs.filter (·.hasData) = pre ++ o :: post := hsplit
    have hlen' : (contiguousFinalLengths objs r).length ≤ pre.length := hlen
    rw [cfl_eq, hd] at hlen' ⊢
    have hnd' : ((objs.filter (·.hasData)).map (·.path)).Nodup := hnd
    rw [hd] at hnd'
    exact cfl_absent pre o post r hnd' hlen'

/-- **sound (nothing invented)**: the lengths account for at most `r` bytes, every length is at most `n_o`, the
    `i`-th entry belongs to the `i`-th data object, and every entry but the last is a whole object -/
theorem contiguous_final_lengths_sound (objs : List SegObj) (r : Nat)
    (hsz : ∀ x ∈ objs.filter (·.hasData), 0 < objSz x) :
    let d := objs.filter (·.hasData)
    let out := contiguousFinalLengths objs r
    usedBytes d out ≤ r ∧
    (∀ (i : Nat) (o : SegObj) (l : Bytes × Nat), d[i]? = some o → out[i]? = some l →
      l.1 = o.path ∧ l.2 ≤ o.numberValues ∧ (i + 1 < out.length → l.2 = o.numberValues)) := by
  intro d out
  have e : out = cfl d r := cfl_eq objs r
  rw [e]
  refine ⟨cfl_used_le d r, ?_⟩
  intro i o l hd hl
  exact ⟨cfl_path_at d r i o l hd hl, cfl_le_numberValues d r hsz i o l hd hl,
    fun hi => cfl_full_before_last d r i o l hi hd hl⟩

/-- **complete (nothing complete is lost)**: when `r` does not exceed a full chunk, the last listed object is the
    one containing byte `r`, and fewer than one value of it is left unaccounted for -/
theorem contiguous_final_lengths_complete (objs : List SegObj) (r : Nat)
    (hsz : ∀ x ∈ objs.filter (·.hasData), 0 < objSz x)
    (hne : objs.filter (·.hasData) ≠ [])
    (hr : r ≤ totalBytes (objs.filter (·.hasData))) :
    let d := objs.filter (·.hasData)
    let out := contiguousFinalLengths objs r
    ∃ o, d[out.length - 1]? = some o ∧ 0 < out.length ∧ r - usedBytes d out < objSz o := by
  intro d out
  have e : out = cfl d r := cfl_eq objs r
  rw [e]
  obtain ⟨o, h1, h2, h3⟩ := cfl_complete d r hne hr
  refine ⟨o, h1, h2, ?_⟩
  have hmem : o ∈ d := List.mem_of_getElem? h1
  have := hsz o hmem
  omega

/-- **maximal fit**, per object: either the object is whole, or one more value of it would not fit in `r` bytes -/
theorem contiguous_final_length_maximal (objs : List SegObj) (r : Nat)
    (pre : List SegObj) (o : SegObj) (post : List SegObj)
    (hsplit : objs.filter (·.hasData) = pre ++ o :: post)
    (hsz : ∀ x ∈ objs.filter (·.hasData), 0 < objSz x)
    (hnd : ((objs.filter (·.hasData)).map (·.path)).Nodup) :
    let len := overrideGet (contiguousFinalLengths objs r) o.path
    len ≤ o.numberValues ∧ len * objSz o ≤ r - totalBytes pre ∧
    (len = o.numberValues ∨ r - totalBytes pre < (len + 1) * objSz o) := by
  intro len
  have hlen : len = min o.numberValues ((r - totalBytes pre) / objSz o) :=
    contiguous_final_length_of_object objs r pre o post hsplit hsz hnd
  have hpos : 0 < objSz o := hsz o (by rw [hsplit]; simp)
  rw [hlen]
  refine ⟨Nat.min_le_left _ _, ?_, fit_maximal _ _ _ hpos⟩
  calc min o.numberValues ((r - totalBytes pre) / objSz o) * objSz o
      ≤ ((r - totalBytes pre) / objSz o) * objSz o := Nat.mul_le_mul_right _ (Nat.min_le_right _ _)
    _ ≤ r - totalBytes pre := Nat.div_mul_le_self _ _

/-! ## 5 — `len(channel)` of the cut file -/

/-- number of values of a data object in a truncated segment: `n_o` per complete chunk plus its final length -/
theorem number_of_values_truncated (s : Segment) (c k r : Nat) (ov : List (Bytes × Nat))
    (hc : chunkSize s.objects = .ok c) (hr0 : 0 < r) (hrc : r < c)
    (hn : s.nextSegmentPos = s.dataPosition + (k * c + r))
    (hov : computeFinalChunkLengths s c r = .ok ov) (o : SegObj) (hdat : o.hasData = true) :
    ∃ sc, calculateChunks s = .ok sc ∧
      numberOfSegmentValues o sc = o.numberValues * k + overrideGet ov o.path := by
  refine ⟨_, calculateChunks_truncated_ok s c k r ov hc hr0 hrc hn hov, ?_⟩
  simp [numberOfSegmentValues, hdat]

/-- final lengths never exceed the chunk length (non-DAQmx segments with distinct data paths) -/
theorem final_length_le (s : Segment) (c r : Nat) (ov : List (Bytes × Nat))
    (hd : haveDaqmxObjects s.objects = .ok false)
    (hnd : ((s.objects.filter (·.hasData)).map (·.path)).Nodup)
    (hrc : r ≤ c)
    (hov : computeFinalChunkLengths s c r = .ok ov)
    (o : SegObj) (ho : o ∈ s.objects) (hdat : o.hasData = true) :
    overrideGet ov o.path ≤ o.numberValues :=
  final_length_le_std s c r ov hd hnd hrc hov o ho hdat

/-- **prefix monotonicity of `len(channel)`**: the same segment (same objects, flags and data position) with a
    smaller end position never holds more values of any object than the complete segment of `K` whole chunks.
    `s₁` is the cut segment (its `incomplete` flag is free), `s₂` the complete one. -/
theorem number_of_values_truncated_le_full (s₁ s₂ : Segment) (c K : Nat)
    (hobj : s₁.objects = s₂.objects) (htoc : s₁.toc = s₂.toc)
    (hdp : s₁.dataPosition = s₂.dataPosition)
    (hov₁ : s₁.override = none) (hov₂ : s₂.override = none)
    (hc : chunkSize s₂.objects = .ok c) (hpos : 0 < c)
    (hfull : s₂.nextSegmentPos = s₂.dataPosition + K * c)
    (hle : s₁.nextSegmentPos ≤ s₂.nextSegmentPos)
    (hd : haveDaqmxObjects s₂.objects = .ok false)
    (hnd : ((s₂.objects.filter (·.hasData)).map (·.path)).Nodup)
    (sc sf : Segment) (h1 : calculateChunks s₁ = .ok sc) (h2 : calculateChunks s₂ = .ok sf)
    (o : SegObj) (ho : o ∈ s₂.objects) :
    numberOfSegmentValues o sc ≤ numberOfSegmentValues o sf := by
  have _ := htoc
  by_cases hdat : o.hasData = true
  · apply values_cut_le_full_of_bound s₁ s₂ c K hobj hdp hov₁ hov₂ hc hpos hfull hle sc sf h1 h2 o
    intro r ov hrc hov
    exact final_length_le s₁ c r ov (by rw [hobj]; exact hd) (by rw [hobj]; exact hnd) (by omega) hov o
      (by rw [hobj]; exact ho) hdat
  · simp [numberOfSegmentValues, hdat]

/-- DAQmx segments: every final length is bounded by the largest chunk size declared by a data object -/
theorem final_length_le_daqmx (s : Segment) (c r N : Nat) (ov : List (Bytes × Nat))
    (hd : haveDaqmxObjects s.objects = .ok true)
    (hN : ∀ m ∈ Tdms.Proofs.C11.daqMetas s.objects, m.chunkSize ≤ N)
    (hov : computeFinalChunkLengths s c r = .ok ov) (p : Bytes) :
    overrideGet ov p ≤ N := by
  have : computeFinalChunkLengths s c r = daqmxFinalChunkLengths s.objects r := by
    simp [computeFinalChunkLengths, hd, bind, Except.bind]
  rw [this] at hov
  exact Tdms.Proofs.C11.overrideGet_le_of_all N ov p
    (Tdms.Proofs.C11.daqmxFinalChunkLengths_bound N s.objects r ov hov hN)

/-- **prefix monotonicity for DAQmx segments** whose data objects all declare the same chunk size `N`
    (`numberValues = N` for the object considered) -/
theorem number_of_values_truncated_le_full_daqmx (s₁ s₂ : Segment) (c K N : Nat)
    (hobj : s₁.objects = s₂.objects)
    (hdp : s₁.dataPosition = s₂.dataPosition)
    (hov₁ : s₁.override = none) (hov₂ : s₂.override = none)
    (hc : chunkSize s₂.objects = .ok c) (hpos : 0 < c)
    (hfull : s₂.nextSegmentPos = s₂.dataPosition + K * c)
    (hle : s₁.nextSegmentPos ≤ s₂.nextSegmentPos)
    (hd : haveDaqmxObjects s₂.objects = .ok true)
    (hN : ∀ m ∈ Tdms.Proofs.C11.daqMetas s₂.objects, m.chunkSize ≤ N)
    (sc sf : Segment) (h1 : calculateChunks s₁ = .ok sc) (h2 : calculateChunks s₂ = .ok sf)
    (o : SegObj) (hn : o.numberValues = N) :
    numberOfSegmentValues o sc ≤ numberOfSegmentValues o sf := by
  apply values_cut_le_full_of_bound s₁ s₂ c K hobj hdp hov₁ hov₂ hc hpos hfull hle sc sf h1 h2 o
  intro r ov _ hov
  rw [hn]
  exact final_length_le_daqmx s₁ c r N ov (by rw [hobj]; exact hd) (by rw [hobj]; exact hN) hov o.path

/-! ## 6 — the `incomplete` flag -/

/-- lead-in with an explicit next-segment offset, data file of `size` bytes:
    * it is never an error;
    * the segment is dropped (`none`, the metadata itself is incomplete) iff the segment overruns the file **and**
      the file ends before the raw data would start;
    * otherwise `incomplete = true` iff `segmentPosition + nextOff + 28 > size`, and then the segment is taken to end
      at the end of the file. -/
theorem readLeadIn_incomplete_iff (bytes : Bytes) (p : Nat) (isIndex : Bool) (size : Nat)
    (hlen : 28 ≤ bytes.length) (htag : bytes.take 4 = (if isIndex then tagIndex else tagData))
    (hoff : liNextOff bytes ≠ 2 ^ 64 - 1) :
    (readLeadIn bytes p isIndex (some size) = .ok none ↔
      (p + liNextOff bytes + 28 > size ∧ size < p + 28 + liRawOff bytes)) ∧
    (∀ li, readLeadIn bytes p isIndex (some size) = .ok (some li) →
      (li.incomplete = true ↔ p + liNextOff bytes + 28 > size) ∧
      li.dataPosition = p + 28 + liRawOff bytes ∧
      li.nextSegmentPos = (if p + liNextOff bytes + 28 > size then size else p + liNextOff bytes + 28) ∧
      li.toc = liToc bytes ∧ li.version = liVersion bytes) ∧
    (∃ res, readLeadIn bytes p isIndex (some size) = .ok res) := by
  rw [readLeadIn_eq bytes p isIndex (some size) hlen htag]
  simp only [hoff, if_false]
  by_cases h1 : p + liNextOff bytes + 28 > size
  · by_cases h2 : size < p + 28 + liRawOff bytes
    · simp [h1, h2]
    · simp only [h1, h2, if_true, if_false]
      refine ⟨by simp, ?_, ⟨_, rfl⟩⟩
      intro li hli
      injection hli with hli; injection hli with hli; subst hli
      simp
  · simp only [h1, if_false]
    refine ⟨by simp, ?_, ⟨_, rfl⟩⟩
    intro li hli
    injection hli with hli; injection hli with hli; subst hli
    simp

/-- lead-in carrying the `2^64 - 1` marker ("length unknown": the writer crashed before patching the lead-in):
    the segment runs to the end of the file and is incomplete; it is dropped iff the file ends before its raw
    data start -/
theorem readLeadIn_unknown_length (bytes : Bytes) (p : Nat) (isIndex : Bool) (size : Nat)
    (hlen : 28 ≤ bytes.length) (htag : bytes.take 4 = (if isIndex then tagIndex else tagData))
    (hoff : liNextOff bytes = 2 ^ 64 - 1) :
    readLeadIn bytes p isIndex (some size) =
      if size < p + 28 + liRawOff bytes then .ok none
      else .ok (some ⟨liToc bytes, liVersion bytes, p + 28 + liRawOff bytes, size, true⟩) := by
  rw [readLeadIn_eq bytes p isIndex (some size) hlen htag]
  simp only [hoff, if_true]

/-! ## 7 — progress of the metadata loop -/

/-- every lead-in that is accepted places the next segment at least 28 bytes further (and the raw data too) -/
theorem lead_in_progress (bytes : Bytes) (p : Nat) (isIndex : Bool) (dfs : Option Nat) (li : LeadIn)
    (h : readLeadIn bytes p isIndex dfs = .ok (some li)) :
    p + 28 ≤ li.nextSegmentPos ∧ p + 28 ≤ li.dataPosition :=
  lead_in_progress_aux bytes p isIndex dfs li h

/-- one iteration of `readMetadataLoop` (`loopStep`, see `readMetadataLoop_succ`) that continues moves the segment
    position forward by at least 28; when a data file is read the file position is the segment position, when an
    index file is read the file position also advances by at least 28 -/
theorem readMetadataLoop_progress (file : Bytes) (isIndex : Bool) (dfs : Option Nat) (fp sp fp' sp' : Nat)
    (st st' : ReaderState) (h : loopStep file isIndex dfs fp sp st = .ok (.next fp' sp' st')) :
    sp + 28 ≤ sp' ∧ (isIndex = true → fp + 28 ≤ fp') ∧ (isIndex = false → fp' = sp') :=
  loopStep_progress file isIndex dfs fp sp fp' sp' st st' h

/-- `loopStep` is the loop body: unfolding lemma tying it to the model's `readMetadataLoop` -/
theorem readMetadataLoop_unfold (file : Bytes) (isIndex : Bool) (dfs : Option Nat) (fuel filePos segPos : Nat)
    (st : ReaderState) :
    readMetadataLoop file isIndex dfs (fuel + 1) filePos segPos st =
      match loopStep file isIndex dfs filePos segPos st with
      | .error e => .error e
      | .ok (.done st') => .ok st'
      | .ok (.next fp sp st') => readMetadataLoop file isIndex dfs fuel fp sp st' :=
  readMetadataLoop_succ file isIndex dfs fuel filePos segPos st

/-- **the fuel `file.length + 1` suffices**: any larger fuel gives the same result, for data and index files -/
theorem readMetadata_fuel_suffices (file : Bytes) (m : Nat) :
    readMetadataLoop file false (some file.length) (file.length + 1 + m) 0 0 {} = readMetadata file ∧
    ∀ dfs, readMetadataLoop file true dfs (file.length + 1 + m) 0 0 {} = readMetadataIndex file dfs := by
  refine ⟨?_, fun dfs => ?_⟩
  · exact readMetadataLoop_fuel_add file false _ m (file.length + 1) 0 0 {} (fun _ => rfl) (by omega)
  · exact readMetadataLoop_fuel_add file true dfs m (file.length + 1) 0 0 {} (fun h => by cases h) (by omega)

/-! ## non-vacuity: the hypotheses are satisfiable and the statements say something on concrete inputs -/

section Examples

private def oA : SegObj := { path := [1], numberValues := 3, dataSize := 12, hasData := true, dataType := some 3 }
private def oB : SegObj := { path := [2], numberValues := 2, dataSize := 16, hasData := true, dataType := some 10 }
private def oC : SegObj := { path := [3], numberValues := 4, dataSize := 8, hasData := true, dataType := some 2 }

/-- chunk = 12 + 16 + 8 = 36 bytes; 2 chunks + 20 bytes: A whole (3), B has ⌊8/8⌋ = 1, C absent -/
private def sCut : Segment :=
  { position := 0, toc := 14, nextSegmentPos := 100 + 2 * 36 + 20, dataPosition := 100, incomplete := true,
    objects := [oA, oB, oC] }

example : (chunkSize sCut.objects).toOption = some 36 := by decide
example : ((calculateChunks sCut).map (fun s => (s.numChunks, s.override))).toOption =
    some (3, some [([1], 3), ([2], 1)]) := by decide
example : ((calculateChunks sCut).map (fun s => [oA, oB, oC].map (numberOfSegmentValues · s))).toOption =
    some [9, 5, 8] := by decide
/-- the strict `>` test: an object ending exactly at byte `r` takes the else-branch and is still whole -/
example : contiguousFinalLengths [oA, oB, oC] 12 = [([1], 3)] := by decide
example : contiguousFinalLengths [oA, oB, oC] 28 = [([1], 3), ([2], 2)] := by decide
example : contiguousFinalLengths [oA, oB, oC] 31 = [([1], 3), ([2], 2), ([3], 1)] := by decide
/-- the same truncated segment when it is *not* the last one (`incomplete = false`): proportional rule -/
example : ((calculateChunks { sCut with incomplete := false }).map (·.override)).toOption =
    some (some [([1], 1), ([2], 1), ([3], 2)]) := by decide

/-- **the uniform-chunk-size hypothesis of `number_of_values_truncated_le_full_daqmx` cannot be dropped**:
    two DAQmx objects sharing buffer 0 but declaring 3 and 2 values per chunk (a nonsensical but parseable file).
    The buffer has `max 3 2 = 3` rows; cut after 13 of 18 bytes, object B is given 3 values — more than the 2
    it has in the complete chunk. -/
private def mA : DaqMeta := ⟨3, [4, 2], [⟨0, 2, 0, 0, 0, false⟩, ⟨1, 2, 1, 0, 0, false⟩]⟩
private def mB : DaqMeta := ⟨2, [4, 2], [⟨0, 2, 0, 2, 0, false⟩]⟩
private def qA : SegObj := { path := [1], numberValues := 3, hasData := true, dataType := some 0xFFFFFFFF, daq := some mA }
private def qB : SegObj := { path := [2], numberValues := 2, hasData := true, dataType := some 2, daq := some mB }
private def sFull : Segment :=
  { position := 0, toc := 142, nextSegmentPos := 100 + 18, dataPosition := 100, incomplete := false, objects := [qA, qB] }
private def sHalf : Segment := { sFull with nextSegmentPos := 100 + 13, incomplete := true }
example : ((calculateChunks sFull).map (numberOfSegmentValues qB)).toOption = some 2 := by decide
example : ((calculateChunks sHalf).map (numberOfSegmentValues qB)).toOption = some 3 := by decide

/-- **the distinct-paths hypothesis of `number_of_values_truncated_le_full` cannot be dropped**: two data objects
    with the same path (3 and 1 Int32 values).  The override is looked up by path, so the second object is
    credited with the first one's final length: 3 values in the cut chunk against 1 in the complete one. -/
private def dA : SegObj := { path := [1], numberValues := 3, dataSize := 12, hasData := true, dataType := some 3 }
private def dA' : SegObj := { path := [1], numberValues := 1, dataSize := 4, hasData := true, dataType := some 3 }
private def sDupFull : Segment :=
  { position := 0, toc := 14, nextSegmentPos := 100 + 16, dataPosition := 100, incomplete := false, objects := [dA, dA'] }
private def sDupCut : Segment := { sDupFull with nextSegmentPos := 100 + 14, incomplete := true }
example : ((calculateChunks sDupFull).map (numberOfSegmentValues dA')).toOption = some 1 := by decide
example : ((calculateChunks sDupCut).map (numberOfSegmentValues dA')).toOption = some 3 := by decide

/-- a data-file lead-in: ToC 14, version 4713, next segment offset 100, raw data offset 20 -/
private def li0 : Bytes := tagData ++ encLE 4 14 ++ encLE 4 4713 ++ encLE 8 100 ++ encLE 8 20
example : 28 ≤ li0.length ∧ li0.take 4 = tagData ∧ liNextOff li0 = 100 ∧ liRawOff li0 = 20 := by decide
example : (readLeadIn li0 0 false (some 128)).toOption = some (some ⟨14, 4713, 48, 128, false⟩) := by decide
example : (readLeadIn li0 0 false (some 127)).toOption = some (some ⟨14, 4713, 48, 127, true⟩) := by decide
example : (readLeadIn li0 0 false (some 48)).toOption = some (some ⟨14, 4713, 48, 48, true⟩) := by decide
example : (readLeadIn li0 0 false (some 47)).toOption = some none := by decide

end Examples

end Tdms.Proofs.C06
