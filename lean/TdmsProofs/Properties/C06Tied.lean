import TdmsProofs.Lemmas.TiedC06
import TdmsProofs.Properties.C11Tied

/-!
# C06 tied theorems: the GENERATED chunk computations equal the model's

`Tdms.Generated.Code` is produced from the Python source of npTDMS (`nptdms/tdms_segment.py`) by
`harness/pyast2lean.py`.  The theorems below say that the generated definitions

* `TdmsSegment._have_daqmx_objects`        ↔ `Tdms.Model.haveDaqmxObjects`
* `TdmsSegment._get_chunk_size`            ↔ `Tdms.Model.chunkSize`
* `TdmsSegment._compute_final_chunk_lengths` ↔ `Tdms.Model.computeFinalChunkLengths`
* `TdmsSegment._calculate_chunks`          ↔ `Tdms.Model.calculateChunks`

compute, on the representation `pySegC s cc dc` of a model segment `s` (`TiedRepr.lean`), the
representation of what the model computes, and say exactly which `self'` (with which cache contents)
the generated method returns.  `Agrees r m g`: model `.ok v` ⇒ generated `= .ok (r v)`; model
`.error e` ⇒ generated `= .error x` with `x ∈ errNames e`.

The statements do not mention the text of the generated loop bodies; the proofs
(`TdmsProofs/Lemmas/TiedC06.lean`) characterise each loop by a specification lemma and discharge the
per-iteration obligation by unfolding the generated body.  A semantic change of the Python source
changes `Code.lean` and breaks these proofs; a cosmetic one does not.

Sections A–D cover the segments without DAQmx data (`haveDaqmxObjects s.objects = .ok false`) for
`_get_chunk_size`, `_compute_final_chunk_lengths`, `_calculate_chunks` (`_have_daqmx_objects` is covered
for every segment).  Section E covers EVERY segment: no DAQmx data, only DAQmx data (through the C11
tied theorems about `get_daqmx_chunk_size` / `get_daqmx_final_chunk_lengths`), and a mixture (model
`.mixedDaqmx`, Python `Exception`).
-/

namespace Tdms.Proofs.C06Tied

open Tdms Tdms.Model Tdms.Generated Tdms.Generated.Code Tdms.Proofs.Tied

/-! ## A. `_have_daqmx_objects` -/

/-- Empty cache, any segment, no hypotheses: the generated method returns the model's answer and fills the
    cache with it; it raises `Exception` exactly when the model fails (`.mixedDaqmx` is the only error
    of `haveDaqmxObjects`). -/
theorem _have_daqmx_objects_tied (s : Segment) (cc : Option Int) :
    TdmsSegment._have_daqmx_objects (pySegC s cc none) =
      match haveDaqmxObjects s.objects with
      | .ok b => .ok (some b, pySegC s cc (some b))
      | .error _ => .error "Exception" := by
  rw [have_daqmx_fresh _ s.objects rfl rfl]
  cases haveDaqmxObjects s.objects <;> rfl

/-- Filled cache (any `TdmsSegment`, not only a representation): the cached value, `self` unchanged. -/
theorem _have_daqmx_objects_cached_tied (self : TdmsSegment) (b : Bool)
    (hc : self.has_daqmx_objects_cached = some b) :
    TdmsSegment._have_daqmx_objects self = .ok (some b, self) :=
  have_daqmx_cached self b hc

/-! ## B. `_get_chunk_size` -/

/-- Fresh segment without DAQmx data (`hd`).  The model cannot fail here (second alternative);
    the generated method returns the model's chunk size and a `self` with both caches filled. -/
theorem _get_chunk_size_tied (s : Segment) (hd : haveDaqmxObjects s.objects = .ok false) :
    match chunkSize s.objects with
    | .ok c => TdmsSegment._get_chunk_size (pySeg s) = .ok ((c : Int), pySegC s (some (c : Int)) (some false))
    | .error _ => False := by
  rw [chunkSize_std' s.objects hd]
  exact get_chunk_size_std s none (Or.inl rfl) hd

/-- Filled cache (any `TdmsSegment`): the cached value, `self` unchanged. -/
theorem _get_chunk_size_cached_tied (self : TdmsSegment) (c : Int) (hc : self.chunk_size_cached = some c) :
    TdmsSegment._get_chunk_size self = .ok (c, self) :=
  get_chunk_size_cached self c hc

/-! ## C. `_compute_final_chunk_lengths` (non-DAQmx branch)

Hypotheses, each needed:
* `hdc`: the DAQmx cache is empty (fresh segment) or already holds `false` (as when called from
  `_calculate_chunks`); the returned `self` has it filled either way.
* `hd`: no DAQmx data objects (the DAQmx branch is C11's).
* `hord : s.objects.Pairwise TypedFirst`: no data object WITHOUT a type (`data_type is None`) comes after a
  data object of a type without a size.  Python's `any(...)` runs in list order and stops at the first
  object whose type is unsized, so on `[String-typed data object, untyped data object]` it returns `{}`,
  while the model first checks "some data object has no type" and fails with `.noneType`
  (`AttributeError`).  Without `hord` the theorem is false (see the report); it follows from
  "every data object has a type" (`pairwise_typedFirst_of_typed`), which holds for objects whose
  index was read by `read_raw_data_index`.
* `hnd`: the paths of the data objects are distinct (a Python dict overwrites a repeated key in place,
  the model's association list appends a second entry).
* `hc`: Python's `// chunk_size` raises `ZeroDivisionError` for `0`, the model's `/` gives `0`
  (`_calculate_chunks` never passes `0`).
No hypothesis about sizes `0` is needed: no TDMS type has `size = 0` (`typeSize_ne_zero`, by
evaluation of the generated type table), so `chunk_remainder // obj.data_type.size` never raises. -/
theorem _compute_final_chunk_lengths_tied (s : Segment) (c r : Nat) (cc : Option Int) (dc : Option Bool)
    (hdc : dc = none ∨ dc = some false)
    (hd : haveDaqmxObjects s.objects = .ok false)
    (hord : s.objects.Pairwise TypedFirst)
    (hnd : ((s.objects.filter (·.hasData)).map (·.path)).Nodup)
    (hc : c ≠ 0) :
    Agrees (fun ov => (pyDict ov, pySegC s cc (some false))) (computeFinalChunkLengths s c r)
      (TdmsSegment._compute_final_chunk_lengths (pySegC s cc dc) (c : Int) (r : Int)) :=
  compute_final_std s c r cc dc hdc hd hord hnd hc

/-! ## D. `_calculate_chunks` (segments without DAQmx data)

`c` is the chunk size (`hcs`; with `hd` it is the sum of the data objects' `dataSize`).  The returned
`self` is the representation of the model's result with both caches filled.  `hord`, `hnd` as in C
(only used when the segment is truncated, i.e. when `_compute_final_chunk_lengths` is reached). -/
theorem _calculate_chunks_tied (s : Segment) (c : Nat)
    (hd : haveDaqmxObjects s.objects = .ok false)
    (hcs : chunkSize s.objects = .ok c)
    (hord : s.objects.Pairwise TypedFirst)
    (hnd : ((s.objects.filter (·.hasData)).map (·.path)).Nodup) :
    Agrees (fun s' => pySegC s' (some (c : Int)) (some false)) (calculateChunks s)
      (TdmsSegment._calculate_chunks (pySeg s)) :=
  calculate_chunks_std s c hd hcs hord hnd

/-! ## E. every segment (no DAQmx data / only DAQmx data / mixed)

The DAQmx cache of the returned `self` is `(haveDaqmxObjects s.objects).toOption`, i.e. `some b` when the
model answers `b` (in the mixed case both sides fail: `.mixedDaqmx` / `Exception`); the chunk size cache
is `some c` for the model's chunk size `c`.

Additional hypothesis `hcons : DaqConsistent s.objects` (`TiedRepr.lean`): `number_values` of a DAQmx
object is the chunk size of its metadata (Python uses the former, the model the latter; see C11Tied).
That all data objects of a DAQmx segment carry DAQmx metadata (`AllDaq`, needed by C11) is PROVED from
`haveDaqmxObjects s.objects = .ok true`. -/

theorem _get_chunk_size_all_tied (s : Segment) (hcons : DaqConsistent s.objects) :
    Agrees (fun (c : Nat) => ((c : Int), pySegC s (some (c : Int)) (haveDaqmxObjects s.objects).toOption))
      (chunkSize s.objects) (TdmsSegment._get_chunk_size (pySeg s)) := by
  apply get_chunk_size_all s
  intro hd
  rw [chunkSize_daqmx s.objects hd]
  exact C11Tied.get_daqmx_chunk_size_tied s.objects (allDaq_of_have s.objects hd) hcons

/-- `hdc`: the DAQmx cache is empty or holds the model's answer.  `hc` is only needed without DAQmx data,
    `hw` (C11's `NoZeroDiv`: not (`r = 0` and the first buffer has width `0`); implied by `0 < r`) only
    with DAQmx data.  `hord`, `hnd` as in C (`hnd` is used in both branches, `hord` only without DAQmx
    data). -/
theorem _compute_final_chunk_lengths_all_tied (s : Segment) (c r : Nat) (cc : Option Int) (dc : Option Bool)
    (hdc : ∀ b, dc = some b → haveDaqmxObjects s.objects = .ok b)
    (hcons : DaqConsistent s.objects)
    (hord : s.objects.Pairwise TypedFirst)
    (hnd : ((s.objects.filter (·.hasData)).map (·.path)).Nodup)
    (hc : haveDaqmxObjects s.objects = .ok false → c ≠ 0)
    (hw : haveDaqmxObjects s.objects = .ok true → NoZeroDiv s.objects r) :
    Agrees (fun ov => (pyDict ov, pySegC s cc (haveDaqmxObjects s.objects).toOption))
      (computeFinalChunkLengths s c r)
      (TdmsSegment._compute_final_chunk_lengths (pySegC s cc dc) (c : Int) (r : Int)) := by
  apply compute_final_all s c r cc dc hdc hord hnd hc
  intro hd
  exact C11Tied.get_daqmx_final_chunk_lengths_tied s.objects r (allDaq_of_have s.objects hd) hcons hnd (hw hd)

/-- `_calculate_chunks` on every fresh segment.  No hypothesis about zero divisors: the chunk size and
    the remainder passed to `_compute_final_chunk_lengths` are non-zero by the control flow. -/
theorem _calculate_chunks_all_tied (s : Segment)
    (hcons : DaqConsistent s.objects)
    (hord : s.objects.Pairwise TypedFirst)
    (hnd : ((s.objects.filter (·.hasData)).map (·.path)).Nodup) :
    Agrees (fun s' => pySegC s' ((chunkSize s.objects).toOption.map fun (c : Nat) => (c : Int))
        (haveDaqmxObjects s.objects).toOption)
      (calculateChunks s) (TdmsSegment._calculate_chunks (pySeg s)) := by
  apply calculate_chunks_all s hord hnd
  · intro hd
    rw [chunkSize_daqmx s.objects hd]
    exact C11Tied.get_daqmx_chunk_size_tied s.objects (allDaq_of_have s.objects hd) hcons
  · intro hd r hr
    exact C11Tied.get_daqmx_final_chunk_lengths_tied s.objects r (allDaq_of_have s.objects hd) hcons hnd
      (noZeroDiv_of_pos s.objects r hr)

end Tdms.Proofs.C06Tied

