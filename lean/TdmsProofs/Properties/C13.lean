/-
  C13 — "Scaled data is the dataflow evaluation of the NI_Scale definitions".

  Headline theorems and non-vacuity examples only; helper lemmas are in `Lemmas/C13Lemmas`, the
  specification (`Spec.evalGraph`, `Spec.polySum`, `Spec.firstSome`, `wf`) in `Spec/ScaleGraph`.

  Values live in an arbitrary commutative ring `R` (the model only uses `+ - * 0`, which are taken
  from the ring), so nothing depends on floating point.  `interp` (np.interp) and `env` (sensor
  scalings) are opaque parameters.

  The model is a pure function (`scaleElem`, `scaleArray`, `getScaling` take values and return values;
  there is no state to mutate), so the "does not modify its input" part of C13 needs no theorem.
-/
import Mathlib.Algebra.Ring.Int.Defs
import TdmsProofs.Lemmas.C13Lemmas

namespace Tdms.Proofs.C13

open Tdms.Model.Scaling

/-! ### Evaluation -/

section Eval
variable {R : Type} [CommRing R]
variable (interp : List R → List R → R → R) (env : Nat → R → R)

/-- `numpy.polynomial.polynomial.polyval` (Horner) is `Σ cᵢ xⁱ`. -/
theorem horner_eq_poly (cs : List R) (x : R) :
    horner cs x = (cs.zipIdx.map fun p => p.1 * x ^ p.2).sum :=
  horner_eq_polySum cs x

/-- For a well-formed graph the recursion of `_compute_scaled_data` does not depend on the fuel once
`fuel ≥ idx + 2`; in particular the `g.length + 1` used by `scaleElem` always suffices and the model
never returns `noFuel` on a well-formed graph. -/
theorem fuel_independent {g : List (Scaling R)} (hwf : wf g) (raw : RawElem R) {idx f₁ f₂ : Nat}
    (hidx : idx < g.length) (h₁ : idx + 2 ≤ f₁) (h₂ : idx + 2 ≤ f₂) :
    computeScaled interp env g raw f₁ idx = computeScaled interp env g raw f₂ idx := by
  rw [computeScaled_eq_nodeValue interp env raw hwf _ hidx _ h₁,
    computeScaled_eq_nodeValue interp env raw hwf _ hidx _ h₂]

/-- The model's value of node `idx` is entry `idx` of the left-to-right list of node values. -/
theorem node_is_dataflow {g : List (Scaling R)} (hwf : wf g) (raw : RawElem R) {idx fuel : Nat}
    (hidx : idx < g.length) (hfuel : idx + 2 ≤ fuel) :
    computeScaled interp env g raw fuel idx =
      (Spec.nodeValues interp env g raw)[idx]?.getD (.error .indexError) :=
  computeScaled_eq_nodeValue interp env raw hwf idx hidx fuel hfuel

/-- **C13.**  Scaling one element is the dataflow evaluation of the graph — as values of
`Except ScaleErr R`, i.e. including the two failures (`invalidDaqmxInput` when the raw input is
requested but the data is DAQmx-only, `keyError` for an unknown scaler id). -/
theorem scaling_is_dataflow {g : List (Scaling R)} (hwf : wf g) (raw : RawElem R) :
    scaleElem interp env g raw = Spec.evalGraph interp env g raw := by
  have hpos : 0 < g.length := List.length_pos_iff.2 hwf.1
  rw [evalGraph_eq, scaleElem,
    computeScaled_eq_nodeValue interp env raw hwf _ (by omega) _ (by omega)]

/-- … and therefore scaling an array is the dataflow evaluation of every element. -/
theorem scaled_array_is_dataflow {g : List (Scaling R)} (hwf : wf g) (raws : List (RawElem R)) :
    scaleArray interp env g raws = raws.map (Spec.evalGraph interp env g) := by
  simp [scaleArray, scaling_is_dataflow interp env hwf]

/-- Scaling a window of the raw data is the window of the scaled data (no well-formedness needed). -/
theorem elementwise (g : List (Scaling R)) (raws : List (RawElem R)) (a n : Nat) :
    scaleArray interp env g ((raws.drop a).take n) = ((scaleArray interp env g raws).drop a).take n := by
  simp [scaleArray, List.map_take, List.map_drop]

/-- Scaling chunk by chunk and concatenating is scaling the concatenation. -/
theorem elementwise_append (g : List (Scaling R)) (r₁ r₂ : List (RawElem R)) :
    scaleArray interp env g (r₁ ++ r₂) = scaleArray interp env g r₁ ++ scaleArray interp env g r₂ := by
  simp [scaleArray]

/-- Element `i` of the scaled data depends on element `i` of the raw data only. -/
theorem elementwise_getElem? (g : List (Scaling R)) (raws : List (RawElem R)) (i : Nat) :
    (scaleArray interp env g raws)[i]? = raws[i]?.map (scaleElem interp env g) := by
  simp [scaleArray]

end Eval

/-! ### Which scaling applies: channel, else group, else file -/

section Build
variable {R : Type} [NatCast R] [LT R] [DecidableRel (α := R) (· < ·)]

/-- `get_scaling` returns the first of the channel's, the group's and the file's scaling that is
defined; an error while building an earlier one is raised before the later ones are looked at. -/
theorem lookup_order (chan group file : Props R) :
    getScaling chan group file =
      Spec.firstSome [channelScaling chan, channelScaling group, channelScaling file] := by
  unfold getScaling
  rcases channelScaling chan with e | (_ | s) <;> try rfl
  rcases channelScaling group with e | (_ | s) <;> try rfl
  rcases channelScaling file with e | (_ | s) <;> rfl

/-- Properties with `NI_Scaling_Status = "scaled"` define no scaling (whatever the number of scales,
in particular when it is `some (n+1)`): the data was written with the scaling already applied. -/
theorem status_scaled_is_unscaled (ps : Props R)
    (h : ps.get "NI_Scaling_Status" = some (.str "scaled")) : channelScaling ps = .ok none := by
  unfold channelScaling
  split <;> try rfl
  simp [h]

/-- A channel marked 'scaled' whose group and file define no scaling is returned unscaled. -/
theorem scaled_channel_is_unscaled (chan group file : Props R)
    (h : chan.get "NI_Scaling_Status" = some (.str "scaled"))
    (hg : channelScaling group = .ok none) (hf : channelScaling file = .ok none) :
    getScaling chan group file = .ok none := by
  rw [lookup_order, status_scaled_is_unscaled chan h, hg, hf]; rfl

/-- No scale count (no `NI_Number_Of_Scales`, no `NI_Scale[i]_Scale_Type` key) or a count of zero:
no scaling. -/
theorem no_scales_is_unscaled (ps : Props R)
    (h : numberOfScalings ps = none ∨ numberOfScalings ps = some 0) : channelScaling ps = .ok none := by
  rcases h with h | h <;> simp [channelScaling, h]

end Build

/-! ### The number of scales -/

/-- With an explicit `NI_Number_Of_Scales = n` the count is `n`. -/
theorem number_of_scales_explicit {R : Type} (ps : Props R) (n : Nat)
    (h : ps.get "NI_Number_Of_Scales" = some (.nat n)) : numberOfScalings ps = some n := by
  simp [numberOfScalings, h]

/-- Without it the count is `1 + max` of the indices found in the keys (`none` when there is none). -/
theorem number_of_scales_implicit {R : Type} (ps : Props R) (h : ps.get "NI_Number_Of_Scales" = none) :
    let idxs := ps.filterMap fun p => scaleTypeIndex p.1
    (idxs = [] → numberOfScalings ps = none) ∧
    (idxs ≠ [] → ∃ m, numberOfScalings ps = some (m + 1) ∧ m ∈ idxs ∧ ∀ i ∈ idxs, i ≤ m) := by
  intro idxs
  have hn : numberOfScalings ps =
      match idxs with | [] => none | i :: is => some (is.foldl max i + 1) := by
    simp only [numberOfScalings, h]; rfl
  refine ⟨fun he => by rw [hn, he], fun hne => ?_⟩
  rw [hn]
  match hi : idxs, hne with
  | i :: is, _ => exact ⟨_, rfl, (foldl_max_spec is i).1, (foldl_max_spec is i).2⟩

/-- The index read from a key `"NI_Scale[%d]_Scale_Type" % i` followed by anything (the regular
expression is anchored at the start only) is `i` — for every `i`: `toString i` consists of digits and
round-trips through `String.toNat?`. -/
theorem scale_type_index (i : Nat) (sfx : String) :
    scaleTypeIndex (pfx i ++ "_Scale_Type" ++ sfx) = some i :=
  scaleTypeIndex_key i sfx

/-- … in particular on the key `buildOne` looks up. -/
theorem scale_type_index_exact (i : Nat) : scaleTypeIndex (pfx i ++ "_Scale_Type") = some i :=
  scaleTypeIndex_key' i

/-- Keys that do not start with `NI_Scale[` are not scale-type keys. -/
theorem scale_type_index_other (key : String) (h : ¬ "NI_Scale[".toList <+: key.toList) :
    scaleTypeIndex key = none :=
  scaleTypeIndex_of_not_prefix key h

/-- Properties whose keys are exactly the scale-type keys of the indices `is` (and no explicit count):
the count is `1 + max is`. -/
theorem number_of_scales_of_type_keys {R : Type} (ps : Props R) (i : Nat) (is : List Nat)
    (h : ps.get "NI_Number_Of_Scales" = none)
    (hkeys : ps.map (·.1) = (i :: is).map fun j => pfx j ++ "_Scale_Type") :
    ∃ m, numberOfScalings ps = some (m + 1) ∧ m ∈ i :: is ∧ ∀ j ∈ i :: is, j ≤ m := by
  have hidx : (ps.filterMap fun p => scaleTypeIndex p.1) = i :: is := by
    have : (fun p : String × PV R => scaleTypeIndex p.1) = scaleTypeIndex ∘ (·.1) := rfl
    rw [this, ← List.filterMap_map, hkeys, List.filterMap_map]
    have : (scaleTypeIndex ∘ fun j => pfx j ++ "_Scale_Type") = some := by
      funext j; exact scaleTypeIndex_key' j
    rw [this, List.filterMap_some]
  have hn : numberOfScalings ps = some (is.foldl max i + 1) := by
    simp only [numberOfScalings, h]; rw [hidx]
  exact ⟨_, hn, (foldl_max_spec is i).1, (foldl_max_spec is i).2⟩

/-! ### Non-vacuity -/

/-- node 0 = `2·raw + 1`, node 1 = `1 + 3·(node 0)²`, node 2 = node 1 − node 0 (right minus left) -/
def exampleGraph : List (Scaling ℤ) :=
  [.linear 1 2 rawSource, .polynomial [1, 0, 3] 0, .subtract 0 1]

example : wf exampleGraph := by decide

example : Spec.polySum ([1, 0, 3] : List ℤ) 11 = 364 := by decide

/-- raw 5 ↦ 11 ↦ 364 ↦ 364 − 11 = 353 -/
example (interp : List ℤ → List ℤ → ℤ → ℤ) (env : Nat → ℤ → ℤ) :
    Spec.evalGraph interp env exampleGraph ⟨some 5, []⟩ = .ok 353 := rfl

example (interp : List ℤ → List ℤ → ℤ → ℤ) (env : Nat → ℤ → ℤ) :
    scaleElem interp env exampleGraph ⟨some 5, []⟩ = .ok 353 := by
  rw [scaling_is_dataflow interp env (by decide)]; rfl

example (interp : List ℤ → List ℤ → ℤ → ℤ) (env : Nat → ℤ → ℤ) :
    Spec.nodeValues interp env exampleGraph ⟨some 5, []⟩ = [.ok 11, .ok 364, .ok 353] := rfl

/-- the error cases are part of the statement: raw input requested for DAQmx-only data -/
example (interp : List ℤ → List ℤ → ℤ → ℤ) (env : Nat → ℤ → ℤ) :
    scaleElem interp env exampleGraph ⟨none, [(0, 7)]⟩ = .error .invalidDaqmxInput := by
  rw [scaling_is_dataflow interp env (by decide)]; rfl

/-- … and an unknown DAQmx scaler id -/
example (interp : List ℤ → List ℤ → ℤ → ℤ) (env : Nat → ℤ → ℤ) :
    scaleElem interp env [.daqmx 3, .linear 0 2 0] ⟨none, [(0, 7)]⟩ = .error .keyError := by
  rw [scaling_is_dataflow interp env (by decide)]; rfl

example (interp : List ℤ → List ℤ → ℤ → ℤ) (env : Nat → ℤ → ℤ) :
    scaleElem interp env [.daqmx 0, .linear 0 2 0] ⟨none, [(0, 7)]⟩ = .ok 14 := by
  rw [scaling_is_dataflow interp env (by decide)]; rfl

/-- a forward reference is not well formed -/
example : ¬ wf ([.noop 1, .noop 0] : List (Scaling ℤ)) := by decide

/-- … and `wf` is needed: on this cyclic graph the model runs out of fuel (Python: `RecursionError`)
while the left-to-right evaluation reports the dangling reference -/
example (interp : List ℤ → List ℤ → ℤ → ℤ) (env : Nat → ℤ → ℤ) :
    scaleElem interp env [.noop 1, .noop 0] ⟨some 5, []⟩ = .error .noFuel ∧
    Spec.evalGraph interp env [.noop 1, .noop 0] ⟨some 5, []⟩ = .error .indexError := ⟨rfl, rfl⟩

/-- an acyclic graph that is not in topological order (node 0 reads node 2): the model evaluates it,
the left-to-right specification does not — such graphs are outside `wf` -/
example (interp : List ℤ → List ℤ → ℤ → ℤ) (env : Nat → ℤ → ℤ) :
    scaleElem interp env [.noop 2, .daqmx 9, .linear 1 2 rawSource, .noop 0] ⟨some 5, []⟩ = .ok 11 ∧
    Spec.evalGraph interp env [.noop 2, .daqmx 9, .linear 1 2 rawSource, .noop 0] ⟨some 5, []⟩
      = .error .indexError := ⟨rfl, rfl⟩

/-- the number of scales read from the keys `NI_Scale[0]…`, `NI_Scale[12]…` is 13 -/
example : numberOfScalings (R := ℤ)
    [(pfx 0 ++ "_Scale_Type", .str "Linear"), ("other", .nat 3),
     (pfx 12 ++ "_Scale_Type" ++ "_x", .str "Linear")] = some 13 := by
  have h : Props.get (R := ℤ) [(pfx 0 ++ "_Scale_Type", .str "Linear"), ("other", .nat 3),
      (pfx 12 ++ "_Scale_Type" ++ "_x", .str "Linear")] "NI_Number_Of_Scales" = none := by
    simp [Props.get, pfx, ← String.toList_inj]
  simp only [numberOfScalings, h, List.filterMap_cons, List.filterMap_nil, scale_type_index,
    scale_type_index_exact]
  rw [scale_type_index_other "other" (by decide)]
  rfl

end Tdms.Proofs.C13
