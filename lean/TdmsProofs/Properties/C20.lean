import Tdms.Model.Resource

/-!
# C20 — npTDMS closes the files it opened, only those, and fails loudly afterwards

Theorems about `Tdms/Model/Resource.lean`, for *every* finite sequence of operations on a reader obtained
from *every* kind of source.  The reachable state space is finite; it is computed explicitly (`states`), shown
closed under every operation by kernel evaluation, and the properties are then checked on all of it and lifted to
arbitrary operation sequences by induction.
-/

namespace Tdms.Proofs.C20

open Tdms.Model.Resource

inductive ROp | readMetadata | close | read
deriving Repr, DecidableEq

def step (r : Reader) : ROp → Reader
  | .readMetadata => readMetadata r
  | .close => close r
  | .read => r                       -- reads never change ownership state

def run (r : Reader) (ops : List ROp) : Reader := ops.foldl step r

def allSources : List Source :=
  [.dataStream, .indexStream, .badStream, .dataPath false, .dataPath true, .indexPath]

def inits : List Reader := allSources.filterMap init

def expand (l : List Reader) : List Reader :=
  (l ++ l.flatMap fun r => [readMetadata r, close r]).eraseDups

/-- every state reachable from any source by any operation sequence -/
def states : List Reader := expand (expand (expand (expand inits)))

theorem every_source_listed : ∀ s : Source, s ∈ allSources := by
  intro s; cases s <;> (try rename_i b; cases b) <;> decide

theorem inits_in_states : ∀ r ∈ inits, r ∈ states := by decide

theorem states_closed : ∀ r ∈ states, ∀ op : ROp, step r op ∈ states := by
  intro r hr op
  have h : ∀ r ∈ states, (step r .readMetadata ∈ states ∧ step r .close ∈ states ∧ step r .read ∈ states) := by decide
  cases op
  · exact (h r hr).1
  · exact (h r hr).2.1
  · exact (h r hr).2.2

theorem run_in_states (r : Reader) (hr : r ∈ states) (ops : List ROp) : run r ops ∈ states := by
  induction ops generalizing r with
  | nil => simpa [run] using hr
  | cons op ops ih => exact ih (step r op) (states_closed r hr op)

theorem init_in_states {src : Source} {r : Reader} (h : init src = some r) : r ∈ states := by
  apply inits_in_states
  unfold inits
  exact List.mem_filterMap.mpr ⟨src, every_source_listed src, h⟩

/-- properties checked on the whole reachable state space -/
theorem states_facts : ∀ r ∈ states,
    (∀ h ∈ r.closedByLib, h.owner = .lib) ∧                      -- only library-opened handles are ever closed
    (∀ h ∈ r.openHandles, h.owner = .caller → h ∉ r.closedByLib) ∧
    libOpen (close r) = [] ∧                                      -- close releases everything the library opened
    close (close r) = close r ∧                                   -- close is idempotent
    readNeedsFile (close r) = .closedError ∧                      -- reads that need the file fail after close
    isClosed (close r) = true ∧
    (isClosed r = true → libOpen r = []) := by
  decide

/-- **no leak after `TdmsFile.read` / `read_metadata`**, whether `_read_file` returns or raises -/
theorem no_leak_after_read (src : Source) (r : Reader) (h : tdmsFileRead src = some r) : libOpen r = [] := by
  cases src <;> (try rename_i b; cases b) <;> simp [tdmsFileRead, init] at h <;> subst h <;> decide

/-- **no leak after `close()` / leaving the with-block of `TdmsFile.open`**, after any operations -/
theorem no_leak_after_close (src : Source) (r0 : Reader) (h : init src = some r0) (ops : List ROp) :
    libOpen (close (run r0 ops)) = [] :=
  (states_facts _ (run_in_states r0 (init_in_states h) ops)).2.2.1

/-- **streams supplied by the caller are never closed**, in every reachable state -/
theorem caller_streams_untouched (src : Source) (r0 : Reader) (h : init src = some r0) (ops : List ROp) :
    ∀ hd ∈ (run r0 ops).closedByLib, hd.owner = .lib :=
  (states_facts _ (run_in_states r0 (init_in_states h) ops)).1

/-- **any read that needs the file after close raises** (and keeps raising whatever happens next) -/
theorem closed_reads_fail (src : Source) (r0 : Reader) (h : init src = some r0) (ops ops' : List ROp)
    (hops' : ∀ op ∈ ops', op ≠ .readMetadata) :
    readNeedsFile (run (close (run r0 ops)) ops') = .closedError := by
  have hclosed : ∀ (r : Reader), r ∈ states → isClosed r = true → ∀ ops' : List ROp, (∀ op ∈ ops', op ≠ .readMetadata) →
      readNeedsFile (run r ops') = .closedError := by
    intro r hr hc ops'
    induction ops' generalizing r with
    | nil => intro _; simp [run, readNeedsFile, hc]
    | cons op ops ih =>
      intro hne
      have hop : op ≠ .readMetadata := hne op (by simp)
      have hstep : step r op = r := by
        cases op
        · exact absurd rfl hop
        · simp only [step, close]
          have : r.file.isNone ∧ r.index.isNone := by
            simpa [isClosed, Bool.and_eq_true] using hc
          simp [this]
        · rfl
      show readNeedsFile (run (step r op) ops) = .closedError
      rw [hstep]
      exact ih r hr hc (fun o ho => hne o (by simp [ho]))
  have hs := run_in_states r0 (init_in_states h) ops
  have hcl : isClosed (close (run r0 ops)) = true := (states_facts _ hs).2.2.2.2.2.1
  exact hclosed _ (states_closed _ hs .close) hcl ops' hops'

/-- **`close()` may be called repeatedly** -/
theorem close_idempotent (src : Source) (r0 : Reader) (h : init src = some r0) (ops : List ROp) :
    close (close (run r0 ops)) = close (run r0 ops) :=
  (states_facts _ (run_in_states r0 (init_in_states h) ops)).2.2.2.1

/-- **writer**: after the with-block nothing the library opened stays open, and caller streams are untouched -/
theorem writer_no_leak (t : WTarget) :
    wLibOpen (wClose (wOpen t)) = [] ∧ (∀ h ∈ (wClose (wOpen t)).closedByLib, h.owner = .lib) ∧
    (∀ h ∈ (wOpen t).openHandles, h.owner = .caller → h ∈ (wClose (wOpen t)).openHandles) := by
  cases t <;> rename_i b <;> cases b <;> decide

/-- a bad tag is rejected before anything is opened or stored -/
theorem bad_stream_opens_nothing : init .badStream = none := rfl

/-! non-vacuity -/
def sampleReader : Reader :=
  { file := some ⟨.data, .lib⟩, index := some ⟨.index, .lib⟩, filePathGiven := true, indexPathGiven := true,
    openHandles := [⟨.data, .lib⟩, ⟨.index, .lib⟩] }
example : init (.dataPath true) = some sampleReader := rfl
example : libOpen (run sampleReader [.readMetadata]) = [⟨.data, .lib⟩] := by decide
example : libOpen (run sampleReader [.readMetadata, .read, .close, .close]) = [] := by decide
example : states.length > 6 := by decide

end Tdms.Proofs.C20
