import TdmsProofs.Lemmas.C08Session

/-!
# C08 — "TdmsWriter emits structurally valid segments and a faithful index file"

Headline theorems about the writer model `Tdms/Model/Writer.lean` (tied byte for byte to
`nptdms/writer.py` by differential tests) against the strict structural parser
`Tdms/Spec/Parse.lean` (written from the format description).

* `segment_self_consistent` — parser ∘ printer round trip for one segment;
* `index_is_twin_segment`, `index_is_twin` — the index file is the data file minus raw data;
* `parents_first`, `parents_first_parsed` — root first, groups before their channels
  (no well-formedness hypothesis: holds for every program `writeProgram` accepts);
* `checkWritten_ok` — all of it, for every program (any number of sessions).

`WritableObjs` (in `Lemmas/C08Parse.lean`) is the decidable well-formedness of an object list:
every count/length fits its field (`< 2^32`, `< 2^64`), channel data are void-and-empty, strings
whose total length fits the 32-bit offset table, or fixed-width values of exactly `size` bytes;
property values are of the supported `PyVal` forms.
-/

namespace Tdms.Proofs.C08
open Tdms Tdms.Strict Tdms.Model.Writer Tdms.Generated Tdms.Proofs.BytesW

/-! ## 0. tie to the generated constants -/

/-- the literals of `raw_data_index`, the ToC flags and the type codes the proofs rely on; a change
    in `nptdms/writer.py` / `types.py` breaks this (and the proofs, which compute through them) -/
theorem constants_tied :
    rawDataIndexLiterals = [1, 20, 28] ∧
    writerTocFlags = ["kTocMetaData", "kTocRawData", "kTocNewObjList"] ∧
    tocWritten = kTocMetaData + kTocRawData + kTocNewObjList ∧ tocWritten = 14 ∧
    (tocWritten / kTocBigEndian) % 2 = 0 ∧
    rawDataIndexNoData = 0xFFFFFFFF ∧ typeSize tyString = none ∧ typeSize tyVoid = none ∧
    typeSize tyTimeStamp = some 16 := by decide

/-! ## 1. one segment -/

/-- **C08.1** The strict parser accepts the segment written for `objs` (whatever follows it) and
    returns exactly the intended structure: the lead-in's offsets are the byte lengths written, the
    metadata parses to exactly `raw data offset` bytes with every index length field (20 / 28)
    matching what follows, dimension 1, known types; the raw data length is what types and counts
    imply; the string offset tables are non-decreasing with last = total − 4n. -/
theorem segment_self_consistent (v : Nat) (hv : v < 2 ^ 31) (objs : List WObj) (rest : Bytes)
    (h : WritableObjs objs) :
    ∃ seg : PSeg,
      pSegment true (writeSegment false v objs ++ rest) = .ok (seg, rest) ∧
      seg = expectedSeg v objs ∧
      seg.isIndex = false ∧ seg.version = v ∧ seg.toc = tocWritten ∧
      seg.rawOff = (metadata objs).length ∧
      seg.nextOff = (metadata objs).length + dataSize objs ∧
      seg.objs.map (·.path) = objs.map (·.path) ∧
      seg.leadAndMeta = leadin false v (metadata objs).length (dataSize objs) ++ metadata objs ∧
      (objs.flatMap objData).length = dataSize objs ∧
      (writeSegment false v objs).length = 28 + seg.nextOff := by
  refine ⟨expectedSeg v objs, pSegment_writeSegment v objs rest (by omega) h, rfl, rfl, rfl, rfl, rfl, rfl,
    ?_, rfl, flatMap_objData_length h.2.1, ?_⟩
  · simp [expectedSeg, toPObj]
  · rw [writeSegment_data]
    simp [leadin_length, flatMap_objData_length h.2.1, expectedSeg]

/-- the same with the parse result named (`expectedSeg`, `toPObj`: type, count, total size and the
    typed property values of every object) -/
theorem segment_parse (v : Nat) (hv : v < 2 ^ 32) (objs : List WObj) (rest : Bytes) (h : WritableObjs objs) :
    pSegment true (writeSegment false v objs ++ rest) = .ok (expectedSeg v objs, rest) :=
  pSegment_writeSegment v objs rest hv h

/-! ## 2. the index file -/

/-- **C08.2 (segment)** needs no hypothesis at all -/
theorem index_is_twin_segment (v : Nat) (objs : List WObj) :
    writeSegment true v objs =
      tagIndex ++ (leadin false v (metadata objs).length (dataSize objs) ++ metadata objs).drop 4 :=
  writeSegment_index_twin v objs

/-- every emitted object list of a program is writable -/
def WritableProgram (prog : List (List (List WObj))) : Prop :=
  match programSegs prog with
  | some Ls => ∀ objs ∈ Ls.flatten, WritableObjs objs
  | none => False

instance (prog : List (List (List WObj))) : Decidable (WritableProgram prog) := by
  unfold WritableProgram; cases programSegs prog <;> infer_instance

theorem writeProgram_some {v : Nat} {prog : List (List (List WObj))} {d i : Bytes}
    (hw : writeProgram v prog = some (d, i)) :
    ∃ Ls, programSegs prog = some Ls ∧ d = Ls.flatten.flatMap (writeSegment false v) ∧
      i = Ls.flatten.flatMap (writeSegment true v) := by
  rw [writeProgram_eq] at hw
  cases hp : programSegs prog with
  | none => simp [hp] at hw
  | some Ls =>
    rw [hp] at hw
    simp only [Option.map_some, Option.some.injEq, Prod.mk.injEq] at hw
    exact ⟨Ls, rfl, hw.1.symm, hw.2.symm⟩

/-- **C08.2 (files)** for every program (any sessions / segments / objects) the writer accepts -/
theorem index_is_twin (v : Nat) (hv : v < 2 ^ 31) (prog : List (List (List WObj))) (d i : Bytes)
    (hw : writeProgram v prog = some (d, i)) (hW : WritableProgram prog) :
    indexIsTwin d i = .ok () := by
  obtain ⟨Ls, hp, rfl, rfl⟩ := writeProgram_some hw
  unfold WritableProgram at hW
  rw [hp] at hW
  exact indexIsTwin_written v (by omega) _ hW

/-- **C08.2 (index parses)** the index file is itself a structurally valid TDMS index file: the strict
    parser (without raw data) accepts it and finds the same ToC, version, offsets and objects as in
    the data file, with tag `TDSh` -/
theorem index_file_parses (v : Nat) (hv : v < 2 ^ 31) (prog : List (List (List WObj))) (d i : Bytes)
    (hw : writeProgram v prog = some (d, i)) (hW : WritableProgram prog) :
    ∃ Ls, programSegs prog = some Ls ∧
      pFile false (i.length + 1) i = .ok (Ls.flatten.map (expectedIndexSeg v)) ∧
      ∀ objs, (expectedIndexSeg v objs).isIndex = true ∧
        (expectedIndexSeg v objs).leadAndMeta.take 4 = tagIndex ∧
        (expectedIndexSeg v objs).objs = (expectedSeg v objs).objs ∧
        (expectedIndexSeg v objs).nextOff = (expectedSeg v objs).nextOff ∧
        (expectedIndexSeg v objs).rawOff = (expectedSeg v objs).rawOff ∧
        (expectedIndexSeg v objs).toc = (expectedSeg v objs).toc ∧
        (expectedIndexSeg v objs).version = (expectedSeg v objs).version := by
  obtain ⟨Ls, hp, rfl, rfl⟩ := writeProgram_some hw
  unfold WritableProgram at hW
  rw [hp] at hW
  refine ⟨Ls, hp, pFile_index_written v (by omega) _ hW _ ?_, fun objs => ⟨rfl, ?_, rfl, rfl, rfl, rfl, rfl⟩⟩
  · have : ∀ segs : List (List WObj), segs.length ≤ (segs.flatMap (writeSegment true v)).length := by
      intro segs
      induction segs with
      | nil => simp
      | cons s ss ih =>
        have : 0 < (writeSegment true v s).length := List.length_pos_iff.mpr (writeSegment_ne_nil _ _ _)
        simp only [List.flatMap_cons, List.length_append, List.length_cons]
        omega
    have := this Ls.flatten
    omega
  · show (writeSegment true v objs).take 4 = tagIndex
    rw [writeSegment_index_twin]
    rfl

/-! ## 3. root first, groups before channels -/

/-- **C08.3 (object lists)** For every program `writeProgram` accepts — no well-formedness needed —
    and every session `L` (the object lists its `write_segment` calls emit):
    the first segment contains the root object, and wherever a channel of group `g` stands in the
    session, a group object `g` stands earlier (same or earlier segment, before the channel). -/
theorem parents_first (v : Nat) (prog : List (List (List WObj))) (d i : Bytes)
    (hw : writeProgram v prog = some (d, i)) :
    ∃ Ls, programSegs prog = some Ls ∧ ∀ L ∈ Ls,
      (∀ first, L.head? = some first → ∃ o ∈ first, o.key = 0) ∧
      GroupsBefore [] L.flatten ∧
      (∀ a b g c dat p, L.flatten = a ++ WObj.channel g c dat p :: b → ∃ props, WObj.group g props ∈ a) := by
  obtain ⟨Ls, hp, _, _⟩ := writeProgram_some hw
  refine ⟨Ls, hp, fun L hL => ?_⟩
  obtain ⟨s, hs⟩ := programSegs_sessions hp L hL
  have hgb := sessionSegs_groupsBefore (seen := []) hs (by intro g hg; cases hg)
  refine ⟨sessionSegs_rootFirst hs rfl, hgb, ?_⟩
  intro a b g c dat p hflat
  rcases hgb.spec hflat with h | h
  · cases h
  · exact h

/-- the same for one session in any writer state: the invariant of the `write_segment` call list -/
theorem parents_first_session (st : WriterState) (segs L : List (List WObj))
    (h : sessionSegs st segs = some L) :
    GroupsBefore st.groupsWritten L.flatten ∧
    (st.rootWritten = false → ∀ first, L.head? = some first → ∃ o ∈ first, o.key = 0) :=
  ⟨sessionSegs_groupsBefore h (fun _ hg => hg), fun hst => sessionSegs_rootFirst h hst⟩

/-- **C08.3 (parsed)** the strict parser's `parentsFirst` accepts the parsed data file of every
    accepted program, with any number of sessions: groups written by earlier sessions stay declared -/
theorem parents_first_parsed (v : Nat) (prog : List (List (List WObj))) (d i : Bytes)
    (hw : writeProgram v prog = some (d, i)) :
    ∃ Ls, programSegs prog = some Ls ∧ parentsFirst (Ls.flatten.map (expectedSeg v)) = .ok () := by
  obtain ⟨Ls, hp, _, _⟩ := writeProgram_some hw
  have hs := programSegs_sessions hp
  exact ⟨Ls, hp, parentsFirst_ok v _ (program_groupsBefore hs []) (program_rootFirst hs)⟩

/-! ## 4. everything together -/

/-- **C08.4** `checkWritten` (parse every segment strictly, parents first, index twin) succeeds on
    the two files of every accepted, writable program and returns the intended structure -/
theorem checkWritten_ok (v : Nat) (hv : v < 2 ^ 31) (prog : List (List (List WObj))) (d i : Bytes)
    (hw : writeProgram v prog = some (d, i)) (hW : WritableProgram prog) :
    ∃ Ls, programSegs prog = some Ls ∧
      checkWritten d (some i) = .ok (Ls.flatten.map (expectedSeg v)) ∧
      checkWritten d none = .ok (Ls.flatten.map (expectedSeg v)) := by
  obtain ⟨Ls, hp, hpf⟩ := parents_first_parsed v prog d i hw
  have htwin := index_is_twin v hv prog d i hw hW
  obtain ⟨Ls', hp', rfl, rfl⟩ := writeProgram_some hw
  rw [hp] at hp'
  cases hp'
  unfold WritableProgram at hW
  rw [hp] at hW
  have hfile := pFile_written' v (by omega) _ hW
  refine ⟨Ls, hp, ?_, ?_⟩
  · unfold checkWritten
    rw [hfile]
    simp only [except_ok_bind, hpf, htwin]
    rfl
  · unfold checkWritten
    rw [hfile]
    simp only [except_ok_bind, hpf]
    rfl

/-! ## non-vacuity -/

/-- a program with two sessions; the first writes a numeric channel with properties and a string
    channel without declaring root or group, then a second segment; the second session appends -/
def demoProgram : List (List (List WObj)) :=
  [ [ [ .channel [0x67] [0x61] ⟨3, [[1, 0, 0, 0], [2, 0, 0, 0]]⟩
          [⟨[0x70], .int (2 ^ 40)⟩, ⟨[0x71], .str [0x68, 0x69]⟩, ⟨[0x72], .datetime 0⟩, ⟨[0x73], .bool true⟩],
        .channel [0x67] [0x62] ⟨0x20, [[0x78], [], [0x79, 0x7a]]⟩ [] ],
      [ .channel [0x68] [0x61] ⟨10, [[0, 0, 0, 0, 0, 0, 0xf0, 0x3f]]⟩ [⟨[0x75], .float [0, 0, 0, 0, 0, 0, 0, 0x40]⟩] ] ],
    [ [ .group [0x67] [⟨[0x70], .typed 9 [0, 0, 0x80, 0x3f]⟩], .channel [0x67] [0x61] ⟨0, []⟩ [] ] ] ]

example : WritableProgram demoProgram := by decide +kernel

example : (writeProgram 4713 demoProgram).isSome = true := by decide

/-- the emitted lists: root and group `g` were inserted in front, in the order root, groups, channels -/
example : (programSegs demoProgram).map (fun Ls => Ls.map (fun L => L.map (fun objs => objs.map (·.key)))) =
    some [[[0, 1, 2, 2], [1, 2]], [[0, 1, 2]]] := by decide

/-- the theorem applies to the demo program (hypotheses are satisfiable) -/
example : ∃ d i Ls, writeProgram 4713 demoProgram = some (d, i) ∧ programSegs demoProgram = some Ls ∧
    checkWritten d (some i) = .ok (Ls.flatten.map (expectedSeg 4713)) := by
  cases hw : writeProgram 4713 demoProgram with
  | none => exact absurd hw (by decide)
  | some r =>
    obtain ⟨d, i⟩ := r
    obtain ⟨Ls, hp, h, _⟩ := checkWritten_ok 4713 (by decide) demoProgram d i hw (by decide +kernel)
    exact ⟨d, i, Ls, rfl, hp, h⟩

/-! ## Objects in force (segments that do not start a new object list inherit the previous one) -/

/-- every segment the writer model emits starts a new object list -/
theorem expectedSeg_startsNewList (v : Nat) (objs : List WObj) : startsNewList (expectedSeg v objs) = true := by
  have h : (tocWritten / kTocNewObjList) % 2 == 1 := by decide
  simpa [startsNewList, expectedSeg] using h

/-- ... and its raw data length is the one its own objects imply, so the objects-in-force condition holds for everything the
    writer model emits, whatever came before -/
theorem inForceOk_written (v : Nat) (L : List (List WObj)) (prev : List PObj) :
    inForceOk prev (L.map (expectedSeg v)) = true := by
  induction L generalizing prev with
  | nil => rfl
  | cons objs rest ih =>
    simp only [List.map_cons, inForceOk, expectedSeg_startsNewList, if_true, Bool.and_eq_true, beq_iff_eq]
    refine ⟨?_, ih _⟩
    simp only [expectedSeg]
    rw [expectedDataLength_eq]
    omega

/-- `checkWritten_ok` with the objects-in-force condition added: what the C08 check runs on the real writer's bytes -/
theorem checkWrittenInForce_ok (v : Nat) (hv : v < 2 ^ 31) (prog : List (List (List WObj))) (d i : Bytes)
    (hw : writeProgram v prog = some (d, i)) (hW : WritableProgram prog) :
    ∃ Ls, programSegs prog = some Ls ∧
      checkWrittenInForce d (some i) = .ok (Ls.flatten.map (expectedSeg v)) ∧
      checkWrittenInForce d none = .ok (Ls.flatten.map (expectedSeg v)) := by
  obtain ⟨Ls, hp, h1, h2⟩ := checkWritten_ok v hv prog d i hw hW
  refine ⟨Ls, hp, ?_, ?_⟩ <;>
  · simp only [checkWrittenInForce, h1, h2, bind, Except.bind, inForceOk_written, if_true]
    rfl

/-- a segment that inherits a channel it does not restate must carry that channel's data too: two values of `a` and one of `b`,
    then a segment WITHOUT `kTocNewObjList` listing only `a` with two values — 8 bytes of raw data are 4 too few -/
example :
    let a : PObj := ⟨[0x2f, 0x27, 0x61, 0x27], some (3, 2, none), []⟩
    let b : PObj := ⟨[0x2f, 0x27, 0x62, 0x27], some (3, 1, none), []⟩
    let s1 : PSeg := ⟨false, 14, 4713, 112, 100, [a, b], []⟩
    let s2 : PSeg := ⟨false, 10, 4713, 58, 50, [a], []⟩
    inForceOk [] [s1, s2] = false ∧ inForceOk [] [s1, { s2 with toc := 14 }] = true := by
  decide

/-- the strict parser does reject malformed input: a wrong index length field, a truncated file -/
example : (pSegment true (writeSegment false 4713 [.channel [0x67] [0x61] ⟨3, [[1, 0, 0, 0]]⟩ []]).dropLast).isOk = false := by
  decide
/-- duplicates are rejected by the writer (`ValueError`), so the theorems say nothing about them -/
example : writeProgram 4713 [[[.group [0x67] [], .group [0x67] []]]] = none := by decide
/-- not writable: a value of the wrong width for its type -/
example : ¬ WritableObjs [.channel [0x67] [0x61] ⟨3, [[1, 0, 0]]⟩ []] := by decide

end Tdms.Proofs.C08
