import TdmsProofs.Lemmas.TiedC19

/-!
# C04 (tied, slices): `TdmsChannel._read_slice` of the generated Python code equals `channelReadSlice`

The generated definition `Tdms.Generated.Code.TdmsChannel._read_slice` (from the current `nptdms/tdms.py`) has the
untranslated calls as parameters: `empty` (`np.empty(0)`), `read_data` (`self.read_data(offset, length)`) and
`step_slice` (`data[::step]`); the result type `R` is opaque.  Helper lemmas: `TdmsProofs/Lemmas/TiedC19.lean`.
-/

namespace Tdms.Proofs.C04SliceTied
open Tdms Tdms.Model Tdms.Generated Tdms.Generated.Code Tdms.Proofs.Tied Tdms.Proofs.TiedC19 Tdms.Proofs.C04

/-! ## `TdmsChannel._read_slice` (`nptdms/tdms.py`) = `channelReadSlice`

Representation: `Value := Bytes`; the result type `R` of `read_data` is a SUSPENDED read
`F (List Bytes)` (state = file position and I/O trace); `np.empty((0,))` is `pure []`;
`self.read_data(offset, length, scaled=False)` is the model's `channelReadData` projected to its values;
`data[::step]` is `stepList` under the read; `len(self)` is `object_metadata[path].num_values`.
The Python exception `ValueError` (zero step) is the model's `.stepZero`. -/

theorem _read_slice_tied (f : OpenFile) (p : Bytes) (start stop step : Option Int) :
    (match TdmsChannel._read_slice (Value := Bytes) (R := F (List Bytes))
        (pure [])
        (fun a b => do
          match ← channelReadData f p a (some b) with
          | some r => pure (r.data.getD [])
          | none => pure [])
        (fun r st => do let xs ← r; pure (stepList xs st))
        { _length := (((f.objects.get p).map (·.numValues)).getD 0 : Nat),
          _cached_chunk := none, _cached_chunk_bounds := (0, 0) }
        start stop step with
     | .ok r => r
     | .error _ => throw .stepZero) = channelReadSlice f p start stop step := by
  show joinSlice (TdmsChannel._read_slice (pure []) (sliceReadData f p) sliceStep
    (pyChannel (chanLen f p)) start stop step) = _
  rw [read_slice_request, channelReadSlice_eq_cont]
  exact pySliceCont_join f p _ (fun e h => (sliceRequest_error _ _ _ _ e h).1)

/-- The generated `_read_slice` raises exactly for a zero step, and then `ValueError`
    (for arbitrary `empty`, `read_data`, `step_slice`, `self`). -/
theorem _read_slice_error_iff {Value R : Type} (empty : R) (read_data : Int → Int → R)
    (step_slice : R → Int → R) (self : TdmsChannel Value) (start stop step : Option Int) (e : Py.Exc) :
    TdmsChannel._read_slice empty read_data step_slice self start stop step = .error e ↔
      (step = some 0 ∧ e = "ValueError") :=
  read_slice_error_iff' empty read_data step_slice self start stop step e

/-- The generated `_read_slice`, for ARBITRARY `empty`, `read_data`, `step_slice`, is the model's pure
    request `sliceRequest` (`TdmsProofs/Lemmas/C04SliceLemmas.lean`, proved to be Python's
    `slice.indices` in `C04Slice.read_slice_eq_pySlice`) followed by one `read_data` call. -/
theorem _read_slice_request {Value R : Type} (empty : R) (read_data : Int → Int → R)
    (step_slice : R → Int → R) (self : TdmsChannel Value) (start stop step : Option Int) :
    TdmsChannel._read_slice empty read_data step_slice self start stop step =
      match sliceRequest self._length start stop step with
      | .error _ => .error "ValueError"
      | .ok none => .ok empty
      | .ok (some (off, l, st)) =>
        .ok (if st > 0 then (if st > 1 then step_slice (read_data off l) st else read_data off l)
             else step_slice (read_data off l) st) := by
  rw [read_slice_request]
  cases sliceRequest self._length start stop step with
  | error e => rfl
  | ok q =>
    match q with
    | none => rfl
    | some (off, l, st) => rfl

end Tdms.Proofs.C04SliceTied

