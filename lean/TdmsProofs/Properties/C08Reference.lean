/-
  C08 — the format constants this property's spec and model depend on are the reference constants (see C01Reference.lean);
  registered here so that a changed constant breaks an obligation of this property as well.
-/
import TdmsProofs.Properties.C01Reference

namespace Tdms.Proofs.C08Reference

theorem type_table_is_reference : type_of% @Tdms.Proofs.C01Reference.type_table_is_reference :=
  @Tdms.Proofs.C01Reference.type_table_is_reference

theorem format_constants_are_reference : type_of% @Tdms.Proofs.C01Reference.format_constants_are_reference :=
  @Tdms.Proofs.C01Reference.format_constants_are_reference

theorem daqmx_tables_are_reference : type_of% @Tdms.Proofs.C01Reference.daqmx_tables_are_reference :=
  @Tdms.Proofs.C01Reference.daqmx_tables_are_reference

end Tdms.Proofs.C08Reference
