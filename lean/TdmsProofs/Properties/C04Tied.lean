import TdmsProofs.Lemmas.TiedC04WindowB

/-!
# C04 tied: the GENERATED `_trim_channel_chunk` and `TdmsReader.read_raw_data_for_channel`
(`Tdms/Generated/Code.lean`, translated from `nptdms/reader.py`) equal the model's `trimChannelChunk` and
window arithmetic (`windowPureG`: `buildIndex`, `searchRight`/`searchLeft`, `segPlan`, `trimStream`)

Every theorem mentions the generated definition; a semantic change of the Python source regenerates a
different definition and the proofs (`TdmsProofs/Lemmas/TiedC04Window.lean`, `TiedC04WindowB.lean`) stop
compiling.

Instantiation of the generated `read_raw_data_for_channel` (`genWindow`, `TiedC04WindowB.lean`):
`ensure_open`, `verify_segment_start` succeed (I/O checks); `channel_index` returns the model's
`buildIndex segs p` (cast to `int`s); `get_segment_object` is `pyGetSegObj` (last object with the path; `=
getSegmentObject` through `pyObj`, lemma `pyGetSegObj_pySeg`); `seg_read` is an ARBITRARY function of the
segment object and the two `int` arguments; `len(chunk)` is `ChanChunk.len`; `_trim_channel_chunk` is
`trimChannelChunk` (tied separately, `trim_channel_chunk_tied`); `self._segments = segs.map pySeg`,
`self.object_metadata = {p: num_values = numValues}`.

Hypotheses, and why each is needed
* `0 ≤ offset` (for a `seg_read` that looks at its `int` `chunk_offset`): for `offset < 0` Python passes the
  NEGATIVE `chunk_offset = (offset - segment_start) // chunk_size` to the segment read, the model passes
  `chunkOffset.toNat = 0` (`negative_offset_counterexample`).  `TdmsChannel.read_data` rejects `offset < 0`
  before calling.  For a `seg_read` that only looks at `max(chunk_offset, 0)` no hypothesis on `offset` is
  needed (`…_clamped`).
* `numValues ≤` the last offset of the index (`hnv`; in the reader `num_values` EQUALS it): otherwise
  `end_index` can exceed every offset, `end_segment = first_segment + len(segment_offsets)`, and if that
  segment exists and the channel has a chunk size in it Python raises `IndexError` at
  `segment_offsets[segment_index - first_segment]` where the model reads `getD … 0`
  (`windowRaises`, `read_raw_data_for_channel_spec`: exact characterisation).
* no `ZeroDivisionError` is possible (`chunk_size == 0` segments are skipped) and
  `segment_offsets[segment_index - first_segment - 1]` is always in range: no hypothesis needed.
-/

namespace Tdms.Proofs.C04Tied
open Tdms Tdms.Model Tdms.Generated Tdms.Generated.Code Tdms.Proofs.C04 Tdms.Proofs.Tied

/-- `_trim_channel_chunk(chunk, skip, trim)` is `trimChannelChunk`, for every `skip ≥ 0` and EVERY `trim`
    (negative, or larger than the chunk: Python's slice `d[skip : len(d) - trim]` and the model's `pySliceTo`
    clip identically) -/
theorem trim_channel_chunk_tied (c : ChanChunk) (skip : Nat) (trim : Int) :
    _trim_channel_chunk (pyChunk c) (skip : Int) trim = pyChunk (trimChannelChunk c skip trim) :=
  trim_channel_chunk_eq c skip trim

/-- the supplier the model sees when the Python segment read is `sup` -/
abbrev supOfPy (segs : List Segment) (sup : TdmsSegment → Int → Int → List ChanChunk) : Supplier :=
  fun i co nc => sup (pySeg (segs.getD i default)) (co : Int) nc

/-- exact behaviour for `offset ≥ 0`: `IndexError` when `windowRaises`, else the model's window -/
theorem read_raw_data_for_channel_spec (segs : List Segment) (p : Bytes) (numValues : Nat)
    (sup : TdmsSegment → Int → Int → List ChanChunk) (offset : Int) (length : Option Int) (hoff : 0 ≤ offset) :
    (windowRaises segs p numValues offset length →
      TdmsReader.read_raw_data_for_channel (.ok ()) (fun _ => .ok ())
        (fun _ => (((buildIndex segs p).firstSegment : Int),
          (buildIndex segs p).offsets.map fun (n : Nat) => (n : Int)))
        pyGetSegObj (fun ps _ co nc => sup ps co nc) (fun c => (c.len : Int))
        (fun c skip trim => trimChannelChunk c skip.toNat trim)
        { _segments := some (segs.map pySeg), object_metadata := [(p, ⟨(numValues : Int)⟩)] } p offset length
      = .error "IndexError") ∧
    (¬ windowRaises segs p numValues offset length →
      TdmsReader.read_raw_data_for_channel (.ok ()) (fun _ => .ok ())
        (fun _ => (((buildIndex segs p).firstSegment : Int),
          (buildIndex segs p).offsets.map fun (n : Nat) => (n : Int)))
        pyGetSegObj (fun ps _ co nc => sup ps co nc) (fun c => (c.len : Int))
        (fun c skip trim => trimChannelChunk c skip.toNat trim)
        { _segments := some (segs.map pySeg), object_metadata := [(p, ⟨(numValues : Int)⟩)] } p offset length
      = .ok (windowPureG segs p numValues (supOfPy segs sup) offset length)) := by
  apply read_raw_spec_gen segs p numValues sup (supOfPy segs sup) offset length
  intro i s co skip nc hi hp
  have hco := segPlan_co_nonneg segs p numValues offset length hoff i s co skip nc hp
  show sup (pySeg s) co nc = sup (pySeg (segs.getD i default)) ((co.toNat : Nat) : Int) nc
  rw [getD_of_getElem? segs i s hi, Int.toNat_of_nonneg hco]

/-- HEADLINE: for a non-negative offset and `num_values` within the index, the generated
    `read_raw_data_for_channel` returns exactly the model's window -/
theorem read_raw_data_for_channel_tied (segs : List Segment) (p : Bytes) (numValues : Nat)
    (sup : TdmsSegment → Int → Int → List ChanChunk) (offset : Int) (length : Option Int)
    (hoff : 0 ≤ offset)
    (hnv : ∀ t, (buildIndex segs p).offsets.getLast? = some t → numValues ≤ t) :
    TdmsReader.read_raw_data_for_channel (.ok ()) (fun _ => .ok ())
      (fun _ => (((buildIndex segs p).firstSegment : Int),
        (buildIndex segs p).offsets.map fun (n : Nat) => (n : Int)))
      pyGetSegObj (fun ps _ co nc => sup ps co nc) (fun c => (c.len : Int))
      (fun c skip trim => trimChannelChunk c skip.toNat trim)
      { _segments := some (segs.map pySeg), object_metadata := [(p, ⟨(numValues : Int)⟩)] } p offset length
    = .ok (windowPureG segs p numValues (supOfPy segs sup) offset length) :=
  (read_raw_data_for_channel_spec segs p numValues sup offset length hoff).2
    (not_windowRaises_of_numValues_le segs p numValues offset length hnv)

/-- the same under the weaker (and, given `offset ≥ 0`, exact up to the existence of the end segment)
    condition that the window ends within the indexed values -/
theorem read_raw_data_for_channel_tied_endIndex (segs : List Segment) (p : Bytes) (numValues : Nat)
    (sup : TdmsSegment → Int → Int → List ChanChunk) (offset : Int) (length : Option Int)
    (hoff : 0 ≤ offset)
    (hend : ∀ t, (buildIndex segs p).offsets.getLast? = some t →
      (windowParams segs p numValues offset length).endIndex ≤ (t : Int)) :
    genWindow segs p numValues (fun ps _ co nc => sup ps co nc) offset length
    = .ok (windowPureG segs p numValues (supOfPy segs sup) offset length) :=
  (read_raw_data_for_channel_spec segs p numValues sup offset length hoff).2
    (not_windowRaises_of_endIndex_le segs p numValues offset length hend)

/-- partial correctness for `offset ≥ 0`, no assumption on `num_values`: a returned value is the model's
    window, and the only possible exception is `IndexError` -/
theorem read_raw_data_for_channel_partial (segs : List Segment) (p : Bytes) (numValues : Nat)
    (sup : TdmsSegment → Int → Int → List ChanChunk) (offset : Int) (length : Option Int) (hoff : 0 ≤ offset) :
    (∀ r, genWindow segs p numValues (fun ps _ co nc => sup ps co nc) offset length = .ok r →
      r = windowPureG segs p numValues (supOfPy segs sup) offset length) ∧
    (∀ e, genWindow segs p numValues (fun ps _ co nc => sup ps co nc) offset length = .error e →
      e = "IndexError" ∧ windowRaises segs p numValues offset length) := by
  obtain ⟨h1, h2⟩ := read_raw_data_for_channel_spec segs p numValues sup offset length hoff
  by_cases hr : windowRaises segs p numValues offset length
  · refine ⟨fun r h => ?_, fun e h => ?_⟩
    · rw [genWindow, h1 hr] at h; cases h
    · rw [genWindow, h1 hr] at h; cases h; exact ⟨rfl, hr⟩
  · refine ⟨fun r h => ?_, fun e h => ?_⟩
    · rw [genWindow, h2 hr] at h; cases h; rfl
    · rw [genWindow, h2 hr] at h; cases h

/-- without ANY hypothesis (also `offset < 0`, arbitrary `num_values`), for a segment read that clamps a
    negative `chunk_offset` to `0`: exact behaviour and partial correctness -/
theorem read_raw_data_for_channel_clamped (segs : List Segment) (p : Bytes) (numValues : Nat)
    (sup : TdmsSegment → Nat → Int → List ChanChunk) (offset : Int) (length : Option Int) :
    (windowRaises segs p numValues offset length →
      genWindow segs p numValues (fun ps _ co nc => sup ps co.toNat nc) offset length = .error "IndexError") ∧
    (¬ windowRaises segs p numValues offset length →
      genWindow segs p numValues (fun ps _ co nc => sup ps co.toNat nc) offset length
        = .ok (windowPureG segs p numValues (fun i co nc => sup (pySeg (segs.getD i default)) co nc)
            offset length)) ∧
    (∀ r, genWindow segs p numValues (fun ps _ co nc => sup ps co.toNat nc) offset length = .ok r →
      r = windowPureG segs p numValues (fun i co nc => sup (pySeg (segs.getD i default)) co nc) offset length) ∧
    (∀ e, genWindow segs p numValues (fun ps _ co nc => sup ps co.toNat nc) offset length = .error e →
      e = "IndexError") := by
  obtain ⟨h1, h2⟩ := read_raw_spec_gen segs p numValues (fun ps co nc => sup ps co.toNat nc)
    (fun i co nc => sup (pySeg (segs.getD i default)) co nc) offset length (by
      intro i s co skip nc hi _
      show sup (pySeg s) co.toNat nc = sup (pySeg (segs.getD i default)) co.toNat nc
      rw [getD_of_getElem? segs i s hi])
  refine ⟨h1, h2, ?_, ?_⟩
  · intro r h
    by_cases hr : windowRaises segs p numValues offset length
    · rw [h1 hr] at h; cases h
    · rw [h2 hr] at h; cases h; rfl
  · intro e h
    by_cases hr : windowRaises segs p numValues offset length
    · rw [h1 hr] at h; cases h; rfl
    · rw [h2 hr] at h; cases h

/-! ## the two hypotheses are needed: concrete instances (by computation) -/

/-- a segment with `k` chunks of 2 values of channel `/` -/
def exSeg (k : Nat) : Segment :=
  { position := 0, toc := 0, nextSegmentPos := 0, dataPosition := 0, incomplete := false,
    objects := [{ path := [47], numberValues := 2, hasData := true }], numChunks := k }

/-- a segment read that tells a negative `chunk_offset` from `0` -/
def exSup : TdmsSegment → Int → Int → List ChanChunk :=
  fun _ co _ => if co < 0 then [] else [{ data := some [[1], [2]] }]

/-- `offset = -1`: Python asks the segment for `chunk_offset = -1 // 2 = -1`, the model for chunk
    `(-1).toNat = 0`; with a segment read that distinguishes the two the results differ -/
theorem negative_offset_counterexample :
    genWindow [exSeg 2] [47] 4 (fun ps _ co nc => exSup ps co nc) (-1) none = .ok [] ∧
    windowPureG [exSeg 2] [47] 4 (supOfPy [exSeg 2] exSup) (-1) none = [{ data := some [[2]] }] :=
  ⟨rfl, rfl⟩

/-- `num_values = 3` but the index ends at `2` and a later segment has a chunk size (with `0` chunks):
    Python raises `IndexError`, the model (`getD … 0`) returns chunks -/
theorem index_error_example :
    genWindow [exSeg 1, exSeg 0] [47] 3 (fun ps _ co nc => exSup ps co nc) 0 none = .error "IndexError" ∧
    windowPureG [exSeg 1, exSeg 0] [47] 3 (supOfPy [exSeg 1, exSeg 0] exSup) 0 none
      = [{ data := some [[1], [2]] }, { data := some [[1]] }] :=
  ⟨rfl, rfl⟩

end Tdms.Proofs.C04Tied

