/-
  C01 ("reading returns exactly the content the file encodes"): the LENGTH-UNKNOWN MARKER on uncut files of any
  number of segments.

  `C01Multi.read_encode_multi` requires `lengthUnknown = false` for every segment.  Here the last segment may
  carry `0xFFFF_FFFF_FFFF_FFFF` as next-segment offset in its lead-in (what a writer leaves that has not yet
  patched the lead-in): the reader resolves it with the file size, flags the segment incomplete, and the content
  still equals `denote e`.

  The class `MultiStdU e` (`Lemmas/C01MarkerClass.lean`) is the class `MultiStd e` of `C01Multi.lean` WITHOUT
  `lengthUnknown = false`:
    * every segment: `interleaved = false`, no DAQmx index listed (`stdListed`);
    * `wellFormed e = true` — which contains `s.lengthUnknown → s is the last segment` (`Spec/Meaning.lean`, `wfSeg`).
  So the marker is allowed exactly where the spec allows it.  Found by evaluation first (see `NOTES_C06Lazy.md`):
  the statement holds for EVERY data type of the class — fixed-width and strings, any number of chunks — because
  `wellFormed` makes all chunks of a segment equally long (a string channel's chunk has the byte length its index
  declares), so the chunk count the reader computes from the file size is exact and no chunk is truncated.
  The marker on a segment that is NOT the last is outside `wellFormed`; there the reader takes the following
  segments for raw data (`exMarkMid`).

  Lemmas: `Lemmas/C01Marker{Meta,Data,File,Class}.lean` (generalisations of `C01Multi{Meta,Loop,Data,File}`: the
  metadata loop over a PREFIX of the segments `loop_prefix`, one iteration on a segment with the marker
  `loopStep_segment_marker`, `readRawDataAll_prefix`, `segment_data_marker`, `readFile_marker`).  Core Lean only.
-/
import TdmsProofs.Lemmas.C01MarkerClass

namespace Tdms.Proofs.C01Marker

open Tdms Tdms.Generated Tdms.Model Tdms.Proofs.C02 Tdms.Proofs.C01Multi
open Tdms.Proofs.Bytes (canonProp)
open Tdms.Proofs.C01Compose (pairsChunk bump content contentOfDenote ObjView)

/-! ## 0. the class -/

/-- the class of `C01Multi.lean` is the sub-class "no marker" -/
theorem multiStdU_of_multiStd (e : FileEnc) (h : MultiStd e) : MultiStdU e := MultiStdU.of_multiStd h

/-- in a file of the class only the last segment can carry the marker (this is part of `wellFormed`) -/
theorem marker_only_last (e : FileEnc) (h : MultiStdU e) : ∀ s ∈ e.dropLast, s.lengthUnknown = false := by
  have := h.wf
  unfold wellFormed at this
  cases ha : activeLists none [] e with
  | error r => rw [ha] at this; cases this
  | ok acts => rw [ha] at this; exact wfSegs_known e acts this

/-- a file of the class without marker is in the class of `C01Multi.lean` -/
theorem multiStd_of_known (e : FileEnc) (h : MultiStdU e) (hk : ∀ s ∈ e, s.lengthUnknown = false) : MultiStd e :=
  ⟨fun s hs => ⟨h.contiguous s hs, hk s hs, h.std s hs⟩, h.wf⟩

/-! ## 1. the composed theorem -/

/-- **reading returns exactly the content the file encodes, with or without the length-unknown marker on the
    last segment**: `readFile` succeeds on the encoding, `denote` is defined, both list the same objects in the
    same order with the same data types, properties and values; and the reader reports a segment incomplete
    exactly when its lead-in carries the marker. -/
theorem read_encode_multi_marker (e : FileEnc) (h : MultiStdU e) (fit : FileFits e) (hch : onlyChannelsHaveDataM e)
    (bytes : Bytes) (hb : encodeFile e = .ok bytes) (hlen : bytes.length < 2 ^ 63) :
    ∃ r c, readFile bytes = .ok r ∧ denote e = .ok c ∧ content r = contentOfDenote c ∧
      r.state.segments.map (·.incomplete) = e.map (·.lengthUnknown) := by
  have hknown := marker_only_last e h
  by_cases hall : ∀ s ∈ e, s.lengthUnknown = false
  · -- no marker: `C01Multi`
    have hm := multiStd_of_known e h hall
    obtain ⟨r, c, hr, hc, hcont⟩ := read_encode_multi e hm fit hch bytes hb hlen
    obtain ⟨st, acts, _, hmeta, hacts, _, hsegs, _, _⟩ := read_metadata_multi e hm fit bytes hb hlen
    have hmeta' := readMetadata_of_readFile bytes r hr
    rw [hmeta] at hmeta'
    injection hmeta' with hst
    refine ⟨r, c, hr, hc, hcont, ?_⟩
    rw [← hst, hsegs]
    have hl : e.length = acts.length := by
      obtain ⟨as, atl, _, _, hsplit, hfrom, htl⟩ := activeLists_append e [] none [] acts (by simpa using hacts)
      have := activeLists_nil htl
      subst this
      simp only [List.append_nil] at hsplit
      subst hsplit
      exact hfrom.length
    rw [segRecsC_incomplete e acts 0 hl]
    exact List.map_congr_left fun s hs => (hall s hs).symm
  · -- the last segment carries the marker
    obtain ⟨init, l, rfl⟩ : ∃ init l, e = init ++ [l] := by
      cases he : e.reverse with
      | nil =>
        have : e = [] := by simpa using he
        subst this
        exact absurd (fun s hs => by cases hs) hall
      | cons x xs =>
        refine ⟨xs.reverse, x, ?_⟩
        have := congrArg List.reverse he
        simpa using this
    have hki : ∀ s ∈ init, s.lengthUnknown = false := fun s hs => hknown s (by simp [hs])
    have hu : l.lengthUnknown = true := by
      cases hl : l.lengthUnknown with
      | true => rfl
      | false =>
        exfalso
        apply hall
        intro s hs
        rcases List.mem_append.mp hs with h1 | h1
        · exact hki s h1
        · simp only [List.mem_singleton] at h1; subst h1; exact hl
    obtain ⟨r, c, hr, hc, hcont, hinc⟩ := read_encode_marker_last init l hu h fit hch bytes hb hlen
    refine ⟨r, c, hr, hc, hcont, ?_⟩
    rw [hinc, List.map_append, List.map_cons, List.map_nil, hu]
    congr 1
    exact List.map_congr_left fun s hs => (hki s hs).symm

/-! ## 2. executable forms of the hypotheses -/

def segStdUB (s : SegEnc) : Bool := !s.interleaved && s.objs.all fun o => !isDaqIdx o.idx

def multiStdUB (e : FileEnc) : Bool := e.all segStdUB && wellFormed e

theorem multiStdUB_sound {e : FileEnc} (h : multiStdUB e = true) : MultiStdU e := by
  simp only [multiStdUB, Bool.and_eq_true, List.all_eq_true] at h
  refine ⟨?_, ?_, h.2⟩
  · intro s hs
    have := h.1 s hs
    simp only [segStdUB, Bool.and_eq_true, Bool.not_eq_true'] at this
    exact this.1
  · intro s hs o ho dg ty n sc w hi
    have := h.1 s hs
    simp only [segStdUB, Bool.and_eq_true, Bool.not_eq_true', List.all_eq_true] at this
    have := this.2 o ho
    rw [hi] at this
    cases this

/-- the composed theorem with every hypothesis as a Boolean check -/
theorem read_encode_multi_marker_checked (e : FileEnc) (h : multiStdUB e = true) (fit : fileFitsB e = true)
    (hch : onlyChannelsHaveDataB e = true) (bytes : Bytes) (hb : encodeFile e = .ok bytes)
    (hlen : bytes.length < 2 ^ 63) :
    ∃ r c, readFile bytes = .ok r ∧ denote e = .ok c ∧ content r = contentOfDenote c ∧
      r.state.segments.map (·.incomplete) = e.map (·.lengthUnknown) :=
  read_encode_multi_marker e (multiStdUB_sound h) (fileFitsB_sound fit) (onlyChannelsHaveDataB_sound hch) bytes hb hlen

/-! ## 3. non-vacuity -/

section Example

/-- the first five segments of `C01Multi.exFile` (Int32 / string / UInt16 channels; a segment without metadata, an
    incremental big-endian list, "same as previous" indexes; the last segment holds one chunk of `b`, the string
    channel `s` and `a`), the last one carrying the marker; 595 bytes -/
def exMarked : FileEnc :=
  (exFile.take 4) ++ [{ (exFile.getD 4 exSeg0) with lengthUnknown := true }]

/-- one segment, two chunks of an Int32 and a STRING channel, with the marker -/
def exMarkedStr : FileEnc := [{ (exFile.getD 0 exSeg0) with lengthUnknown := true }]

theorem exMarked_std : MultiStdU exMarked := multiStdUB_sound (by decide +kernel)
theorem exMarked_fits : FileFits exMarked := fileFitsB_sound (by decide +kernel)
theorem exMarked_channels : onlyChannelsHaveDataM exMarked := onlyChannelsHaveDataB_sound (by decide +kernel)

theorem exMarked_features : exMarked.map (·.lengthUnknown) = [false, false, false, false, true] ∧
    multiStdB exMarked = false ∧ (encodeFile exMarked).toOption.map (·.length) = some 595 ∧
    multiStdUB exMarkedStr = true ∧ fileFitsB exMarkedStr = true ∧ onlyChannelsHaveDataB exMarkedStr = true ∧
    (exMarkedStr.map fun s => s.chunks.length) = [2] := by decide +kernel

/-- the theorem applied to the example -/
example : ∃ bytes r c, encodeFile exMarked = .ok bytes ∧ readFile bytes = .ok r ∧ denote exMarked = .ok c ∧
    content r = contentOfDenote c ∧ r.state.segments.map (·.incomplete) = [false, false, false, false, true] := by
  cases hb : encodeFile exMarked with
  | error err => have := exMarked_features.2.2.1; rw [hb] at this; cases this
  | ok bytes =>
    have hl := exMarked_features.2.2.1
    rw [hb] at hl
    simp only [Except.toOption, Option.map_some, Option.some.injEq] at hl
    obtain ⟨r, c, h1, h2, h3, h4⟩ := read_encode_multi_marker exMarked exMarked_std exMarked_fits exMarked_channels _ hb
      (by rw [hl]; decide)
    exact ⟨_, r, c, rfl, h1, h2, h3, by rw [h4]; exact exMarked_features.1⟩

/-- kernel evaluation of model and spec on both examples: same content; the last segment is reported incomplete -/
theorem exMarked_eval :
    ((encodeFile exMarked).toOption.bind fun b => (readFile b).toOption.map fun r =>
      (content r, r.state.segments.map (·.incomplete))) =
    (denote exMarked).toOption.map fun c => (contentOfDenote c, [false, false, false, false, true]) := by
  decide +kernel

theorem exMarkedStr_eval :
    ((encodeFile exMarkedStr).toOption.bind fun b => (readFile b).toOption.map fun r =>
      (content r, r.state.segments.map (·.incomplete))) =
    some ([⟨exRoot, none, [⟨[110], 0x20, [102, 105]⟩], []⟩, ⟨exGroup, none, [⟨[102], 0x21, [1]⟩], []⟩,
      ⟨exA, some 3, [⟨[117], 0x20, [86]⟩], [[1, 0, 0, 0], [2, 0, 0, 0], [3, 0, 0, 0], [4, 0, 0, 0]]⟩,
      ⟨exS, some 0x20, [], [[97, 98], [99], [], [120, 121, 122]]⟩], [true]) := by
  decide +kernel

/-- **outside the class**: the marker on a segment that is not the last (`wellFormed` rejects it).  The reader
    takes everything up to the end of the file for raw data of that segment: here the four segments after segment 3
    are read as UInt16 values of channel `b`, and the content differs from `denote` (which ignores the marker) -/
def exMarkMid : FileEnc := exFile.mapIdx fun j s => if j = 3 then { s with lengthUnknown := true } else s

theorem exMarkMid_outside : wellFormed exMarkMid = false ∧ multiStdUB exMarkMid = false ∧
    ((encodeFile exMarkMid).toOption.bind fun b => (readFile b).toOption.map fun r =>
      (r.state.segments.length, (content r).map fun v => v.values.length)) = some (4, [0, 0, 7, 8, 91]) ∧
    (denote exMarkMid).toOption.map (fun c => (contentOfDenote c).map fun v => v.values.length) =
      some [0, 0, 8, 10, 4] := by decide +kernel

end Example

end Tdms.Proofs.C01Marker
