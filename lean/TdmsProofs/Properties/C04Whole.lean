import TdmsProofs.Lemmas.C04WholeSlice
import TdmsProofs.Lemmas.C04WholeIndex
import TdmsProofs.Properties.C01Multi
import TdmsProofs.Properties.C04Window
import TdmsProofs.Properties.C05

/-!
# C04 on whole files: `read_data(offset, length)` on a lazily opened encoded file is a slice of `denote`

Composition of
* C04 (`window_eq_slice_on_segments`: the arithmetic of `read_raw_data_for_channel` selects
  `full[offset : offset+length]`, `windowLoop_eq_windowPure`: the link lemma),
* C01Multi (`readMetadata_multi`: what `readMetadata` returns on the encoding; `valsOf_denoteSegs`: the
  values `denote` assigns),
* the per-segment read lemma `segReadChannel_enc` (`Lemmas/C04WholeChunk.lean`: each planned chunk read
  returns that chunk's values of the channel; from C01's `readValues` layer theorems), and
* the plan bounds `window_plan_bounds` (`Lemmas/C04WholePlan.lean`: the planned chunk run lies inside the
  segment — the fact C19 left open).

Nothing about the open file is assumed: the hypotheses of C04 (`WellFormed`, `ValsOk`,
`numValues = total`, `ReadsAs`) are all derived for `openFile (encodeFile e)`.

The class is C01Multi's: `MultiStd e` (every segment contiguous, length known, no DAQmx index listed,
`wellFormed e`), `FileFits e` (size side conditions), file shorter than 2^63 bytes.  Channels of
fixed-width type AND string channels are covered (the chunk reader seeks over string channels by their
declared `total` size).  Core Lean only (no Mathlib).
-/

namespace Tdms.Proofs.C04Whole

open Tdms Tdms.Generated Tdms.Model Tdms.Proofs.C01Multi Tdms.Proofs.C04
open Tdms.Proofs.C01Compose (content contentOfDenote ObjView)

/-! ## 1. the composed window theorem -/

/-- **`read_data(offset, length)` on the lazily opened encoded file = `(values of denote e)[offset : offset+length]`.**
    For every file of the class, `TdmsFile.open` (`openFile`) succeeds on the encoding, `denote` is defined,
    and for every object `oc` of `denote e` that has a data type, every `offset ≥ 0`, every `length`
    (`none` or `≥ 0`, also reaching beyond the end) and every file state `st` (position and trace left by
    earlier operations), `channelReadData` succeeds and returns exactly the window of `oc.values`. -/
theorem lazy_window_eq_denote_slice (e : FileEnc) (h : MultiStd e) (fit : FileFits e) (bytes : Bytes)
    (hb : encodeFile e = .ok bytes) (hlen : bytes.length < 2 ^ 63) :
    ∃ f c, openFile bytes = .ok f ∧ denote e = .ok c ∧
      ∀ oc ∈ c, oc.ty.isSome = true → ∀ (offset : Int) (length : Option Int), 0 ≤ offset →
        (∀ l, length = some l → 0 ≤ l) → ∀ st : FState,
          ∃ st' r, (channelReadData f oc.path offset length).run st = .ok (some r, st') ∧
            r.data.getD [] = takeOpt length (oc.values.drop offset.toNat) := by
  obtain ⟨f, c, h1, h2, _, _, h5⟩ := lazy_window_encoded e h fit bytes hb hlen
  exact ⟨f, c, h1, h2, h5⟩

/-- the remaining cases of `read_data`: an object without data type (root, groups, channels that never
    declared an index) yields the empty result without touching the file; a path that `denote` does not
    list raises -/
theorem lazy_read_other_objects (e : FileEnc) (h : MultiStd e) (fit : FileFits e) (bytes : Bytes)
    (hb : encodeFile e = .ok bytes) (hlen : bytes.length < 2 ^ 63) :
    ∃ f c, openFile bytes = .ok f ∧ denote e = .ok c ∧
      (∀ oc ∈ c, oc.ty = none → ∀ offset length (st : FState),
        (channelReadData f oc.path offset length).run st = .ok (none, st)) ∧
      (∀ p, p ∉ c.map (·.path) → ∀ offset length (st : FState),
        (channelReadData f p offset length).run st = .error .other) := by
  obtain ⟨f, c, h1, h2, hnd, hobjs, _⟩ := lazy_window_encoded e h fit bytes hb hlen
  refine ⟨f, c, h1, h2, ?_, ?_⟩
  · intro oc hoc hty offset length st
    have hm : f.objects.get oc.path = some (mOC (fun _ => 0) oc) := by rw [hobjs]; exact get_mOC hnd hoc
    unfold channelReadData
    rw [hm]
    simp only [mOC, hty, Option.isNone_none, if_true]
    rfl
  · intro p hp offset length st
    have hm : f.objects.get p = none := by rw [hobjs]; exact get_mOC_none hp
    unfold channelReadData
    rw [hm]
    rfl

/-- **`channel[a:b:c]` on the lazily opened encoded file = CPython's `(values of denote e)[a:b:c]`**
    (`ValueError` ↦ `stepZero`), for all `a b c : Option Int`, from any file state. -/
theorem lazy_slice_eq_denote_pySlice (e : FileEnc) (h : MultiStd e) (fit : FileFits e) (bytes : Bytes)
    (hb : encodeFile e = .ok bytes) (hlen : bytes.length < 2 ^ 63) :
    ∃ f c, openFile bytes = .ok f ∧ denote e = .ok c ∧
      ∀ oc ∈ c, oc.ty.isSome = true → ∀ (a b s : Option Int) (st : FState),
        match Tdms.Spec.PySlice.pySlice oc.values a b s with
        | .error _ => (channelReadSlice f oc.path a b s).run st = .error .stepZero
        | .ok xs => ∃ st', (channelReadSlice f oc.path a b s).run st = .ok (xs, st') := by
  obtain ⟨f, c, h1, h2, hnd, hobjs, h5⟩ := lazy_window_encoded e h fit bytes hb hlen
  refine ⟨f, c, h1, h2, ?_⟩
  intro oc hoc hty a b s st
  have hm : f.objects.get oc.path = some (mOC (fun _ => 0) oc) := by rw [hobjs]; exact get_mOC hnd hoc
  apply channelReadSlice_of_window f oc.path _ oc.values hm (by simp [mOC])
  intro off l hoff hl st
  exact h5 oc hoc hty off (some l) hoff (by intro l' hl'; cases hl'; exact hl) st

/-- **lazy = eager**: every window read on the lazily opened file is the corresponding slice of what the
    eager `TdmsFile.read` (`readFile`, C01Multi's `read_encode_multi`) returns for that channel. -/
theorem lazy_window_eq_eager_slice (e : FileEnc) (h : MultiStd e) (fit : FileFits e)
    (hch : onlyChannelsHaveDataM e) (bytes : Bytes) (hb : encodeFile e = .ok bytes)
    (hlen : bytes.length < 2 ^ 63) :
    ∃ f r, openFile bytes = .ok f ∧ readFile bytes = .ok r ∧
      ∀ v ∈ content r, v.dataType.isSome = true → ∀ (offset : Int) (length : Option Int), 0 ≤ offset →
        (∀ l, length = some l → 0 ≤ l) → ∀ st : FState,
          ∃ st' out, (channelReadData f v.path offset length).run st = .ok (some out, st') ∧
            out.data.getD [] = takeOpt length (v.values.drop offset.toNat) := by
  obtain ⟨f, c, h1, h2, h3⟩ := lazy_window_eq_denote_slice e h fit bytes hb hlen
  obtain ⟨r, c', hr, hc', hcont⟩ := read_encode_multi e h fit hch bytes hb hlen
  rw [h2] at hc'
  cases hc'
  refine ⟨f, r, h1, hr, ?_⟩
  intro v hv hty
  rw [hcont] at hv
  obtain ⟨oc, hoc, rfl⟩ := List.mem_map.1 hv
  exact h3 oc hoc hty

/-- **`channel[i]` on the lazily opened encoded file, after ANY history of operations, = CPython's
    `(values of denote e)[i]`** (`IndexError` ↦ `indexError`): composition of C05's
    `index_history_independent` (its hypothesis `IndexWF` discharged, `Lemmas/C05WFMain.lean`), the index
    arithmetic (`searchRight` on the channel index lands on the segment and chunk that hold value `j`,
    `missPath_encoded`) and the per-chunk read lemma. -/
theorem lazy_index_eq_denote (e : FileEnc) (h : MultiStd e) (fit : FileFits e) (bytes : Bytes)
    (hb : encodeFile e = .ok bytes) (hlen : bytes.length < 2 ^ 63) :
    ∃ f c, openFile bytes = .ok f ∧ denote e = .ok c ∧
      ∀ oc ∈ c, ∀ (ops : List Op) (i : Int),
        (step f (Tdms.Proofs.C05.run f {} ops) (.index oc.path i)).2 =
          match Tdms.Spec.PySlice.pyIndex oc.values.length i with
          | some j => .value (oc.values.getD j [])
          | none => .error .indexError := by
  obtain ⟨f, acts, ss, as, hopen, ha, hc, hfile, hsegs, hobjs⟩ := openFile_encoded e h fit bytes hb hlen
  obtain ⟨f', hopen', hu, hk, hov⟩ := Tdms.Proofs.C05WF.file_props_encoded e h fit bytes hb hlen
  rw [hopen] at hopen'
  cases hopen'
  obtain ⟨_, prev, hi⟩ := Tdms.Proofs.C05WF.openFile_inv bytes f hopen
  have hwf : Tdms.Proofs.C05.IndexWF f := Tdms.Proofs.C05WF.indexWF_of_inv hi hu
    (by intro s hs hd; rw [hk s hs] at hd; cases hd) (by intro s hs _; exact hov s hs)
  have hnodup : ((denoteSegs [] e acts).map (·.path)).Nodup := by
    rw [← hc.meaning]; exact denoteSegs_nodup ss as [] hc.ok (by simp)
  refine ⟨f, denoteSegs [] e acts, hopen, by simp [denote, ha], ?_⟩
  intro oc hoc ops i
  have hvals := values_eq_chanValsAll ss as hc.ok hc.nodup oc (by rw [hc.meaning]; exact hoc)
  have hlen' : Tdms.Proofs.C05.chanLen f oc.path = (chanValsAll ss as oc.path).length := by
    unfold Tdms.Proofs.C05.chanLen
    rw [hobjs, get_mOC hnodup hoc, ← hvals]
    simp [mOC]
  rw [Tdms.Proofs.C05.index_history_independent f hwf ops oc.path i,
    index_fresh_encoded ss as hc.ok hc.nodup hc.raw f hfile hsegs oc.path hlen' i, ← hvals]
  cases Tdms.Spec.PySlice.pyIndex oc.values.length i <;> rfl

/-! ## 2. the hypotheses of C04, discharged -/

/-- **the planned chunk run lies inside the segment** (for any segment table whose layout of `p` is
    well formed): `0 ≤ chunkOffset`, `0 ≤ skip`, `chunkOffset + numChunks ≤ segment.numChunks`, and values
    are only skipped in a segment that has a chunk.  (C19 stated its I/O bounds relative to the plan and
    left this open.) -/
theorem window_plan_in_segment (segs : List Segment) (p : Bytes) (numValues : Nat)
    (hwf : WellFormed (segs.map (layoutOf p))) (hnum : numValues = total (segs.map (layoutOf p)))
    (offset : Int) (length : Option Int) (h0 : 0 ≤ offset) (hl : ∀ l, length = some l → 0 ≤ l)
    (i : Nat) (s : Segment) (hs : segs[i]? = some s)
    (hsi : (windowParams segs p numValues offset length).startSeg ≤ i)
    (hie : i ≤ (windowParams segs p numValues offset length).endSeg) (co skip nc : Int)
    (hplan : segPlan p (windowParams segs p numValues offset length).ix offset
      (windowParams segs p numValues offset length).endIndex
      (windowParams segs p numValues offset length).startSeg
      (windowParams segs p numValues offset length).endSeg i s = some (co, skip, nc)) :
    0 ≤ co ∧ 0 ≤ skip ∧ co.toNat + nc.toNat ≤ s.numChunks ∧ (skip ≠ 0 → 0 < s.numChunks) := by
  have := window_plan_bounds segs p numValues hwf hnum offset length h0 hl i s hs hsi hie co skip nc hplan
  exact ⟨this.co0, this.skip0, this.inRange, this.skipPos⟩

/-- **C04's assumptions hold for `openFile (encodeFile e)`**: for every path `p`, the layout of `p` in the
    segment table is well formed, the chunk contents `vals` (those the encoding lists under `p`) have the
    lengths the layout says, `object_metadata[p].num_values` is the layout's total, C04's full array is
    `denote`'s value list, and every segment read planned by `read_raw_data_for_channel` succeeds from any
    file state and returns the planned chunks (`ReadsAs`; the supplier prepends the empty chunk npTDMS
    yields for a segment without the raw-data flag, which `window_fileSup` shows to be harmless). -/
theorem c04_hypotheses_of_encoded (e : FileEnc) (h : MultiStd e) (fit : FileFits e) (bytes : Bytes)
    (hb : encodeFile e = .ok bytes) (hlen : bytes.length < 2 ^ 63) :
    ∃ f c ss as, openFile bytes = .ok f ∧ denote e = .ok c ∧ ∀ p : Bytes,
      WellFormed (f.segments.map (layoutOf p)) ∧
      ValsOk (f.segments.map (layoutOf p)) (fileVals ss as p) ∧
      ((f.objects.get p).map (·.numValues)).getD 0 = total (f.segments.map (layoutOf p)) ∧
      (∀ oc ∈ c, oc.path = p → full (f.segments.map (layoutOf p)) (fileVals ss as p) = oc.values) ∧
      ∀ (offset : Int) (length : Option Int), 0 ≤ offset → (∀ l, length = some l → 0 ≤ l) →
        ReadsAs f p (((f.objects.get p).map (·.numValues)).getD 0) offset length (fileSup ss as p) ∧
        dataOf (windowPureG f.segments p (((f.objects.get p).map (·.numValues)).getD 0) (fileSup ss as p) offset length)
          = dataOf (windowPureG f.segments p (((f.objects.get p).map (·.numValues)).getD 0)
              (supOf (fileVals ss as p)) offset length) := by
  obtain ⟨f, acts, ss, as, hopen, ha, hc, hfile, hsegs, hobjs⟩ := openFile_encoded e h fit bytes hb hlen
  have hnodup : ((denoteSegs [] e acts).map (·.path)).Nodup := by
    rw [← hc.meaning]; exact denoteSegs_nodup ss as [] hc.ok (by simp)
  refine ⟨f, denoteSegs [] e acts, ss, as, hopen, by simp [denote, ha], ?_⟩
  intro p
  have hlay : f.segments.map (layoutOf p) = layouts ss as p := by
    rw [hsegs]; exact layouts_segRecs p ss as 0 hc.nodup
  have hwf : WellFormed (f.segments.map (layoutOf p)) := by rw [hlay]; exact layouts_wellFormed ss as p
  have hvals : ValsOk (f.segments.map (layoutOf p)) (fileVals ss as p) := by
    rw [hlay]; exact fileVals_ok ss as hc.ok p
  have hfull : full (f.segments.map (layoutOf p)) (fileVals ss as p) = chanValsAll ss as p := by
    rw [hlay]; exact full_layouts ss as hc.ok p
  have hfl := full_length _ _ hwf hvals
  have hnum : ((f.objects.get p).map (·.numValues)).getD 0 = total (f.segments.map (layoutOf p)) := by
    rw [← hfl, hfull]
    by_cases hp : p ∈ (denoteSegs [] e acts).map (·.path)
    · obtain ⟨oc, hoc, rfl⟩ := List.mem_map.1 hp
      rw [hobjs, get_mOC hnodup hoc]
      rw [← values_eq_chanValsAll ss as hc.ok hc.nodup oc (by rw [hc.meaning]; exact hoc)]
      simp [mOC]
    · rw [hobjs, get_mOC_none hp]
      -- a path `denote` does not list has no values in the encoding
      have : chanValsAll ss as p = [] := by
        rw [← allPairs_filter p ss as hc.nodup]
        have hty := allPairs_hasTy ss as [] hc.ok p
        by_cases hmem : p ∈ (allPairs ss as).map (·.1)
        · exfalso
          have := (hty hmem).1
          rw [hc.meaning] at this
          obtain ⟨oc, hoc, hpath, _⟩ := this
          exact hp (List.mem_map.2 ⟨oc, hoc, hpath⟩)
        · have : (allPairs ss as).filter (fun pv => decide (pv.1 = p)) = [] := by
            rw [List.filter_eq_nil_iff]
            intro pv hpv hd
            exact hmem (List.mem_map.2 ⟨pv, hpv, of_decide_eq_true hd⟩)
          rw [this]; rfl
      rw [this]; rfl
  refine ⟨hwf, hvals, hnum, ?_, ?_⟩
  · intro oc hoc hp
    rw [hfull, ← hp]
    exact (values_eq_chanValsAll ss as hc.ok hc.nodup oc (by rw [hc.meaning]; exact hoc)).symm
  · intro offset length h0 hl
    exact ⟨readsAs_encoded ss as hc.ok hc.nodup f hfile hsegs p _ hnum offset length h0 hl,
      window_fileSup ss as hc.nodup hc.raw f.segments hsegs p _ hnum offset length h0 hl⟩

/-! ## 3. non-vacuity: C01Multi's seven-segment example file

`exFile` (682 bytes): incremental object lists, "same as previous" indexes, a segment without metadata,
a big-endian segment, a segment without the raw-data flag (for which the lazy reader yields an empty
chunk), a string channel `s` switched off and on again, a channel `a` whose chunk length changes. -/

/-- the hypotheses of the headline theorems hold for `exFile` -/
example : MultiStd exFile ∧ FileFits exFile ∧ onlyChannelsHaveDataM exFile := ⟨exFile_std, exFile_fits, exFile_channels⟩

/-- the theorem applied to the string channel `s` of `exFile`: the window `(3, 4)` — it spans three
    segments, in two of which other channels precede `s` in the chunk — from ANY file state -/
example : ∃ bytes f, encodeFile exFile = .ok bytes ∧ openFile bytes = .ok f ∧ ∀ st : FState, ∃ st' r,
    (channelReadData f exS 3 (some 4)).run st = .ok (some r, st') ∧
      r.data.getD [] = [[120, 121, 122], [1], [2, 3], [9, 9, 9]] := by
  obtain ⟨acts, _, hb⟩ := encodeFile_multi_bytes exFile exFile_std
  have hl := exFile_length
  rw [hb] at hl
  simp only [Except.toOption, Option.map_some, Option.some.injEq] at hl
  obtain ⟨f, c, h1, h2, h3⟩ := lazy_window_eq_denote_slice exFile exFile_std exFile_fits _ hb (by rw [hl]; decide)
  refine ⟨_, f, hb, h1, ?_⟩
  have hd := exFile_denote
  simp only [h2, Except.toOption, Option.map_some, Option.some.injEq] at hd
  -- the entry of `denote exFile` for `s`
  have hmem : (⟨exS, some 0x20, [], [[97, 98], [99], [], [120, 121, 122], [1], [2, 3], [9, 9, 9], [], [9], [8, 8]]⟩ :
      ObjView) ∈ contentOfDenote c := by rw [hd]; decide
  obtain ⟨oc, hoc, hv⟩ := List.mem_map.1 hmem
  simp only [ObjView.mk.injEq] at hv
  obtain ⟨hp, hty, _, hvals⟩ := hv
  intro st
  obtain ⟨st', r, hrun, hr⟩ := h3 oc hoc (by rw [hty]; rfl) 3 (some 4) (by decide)
    (by intro l hl'; cases hl'; decide) st
  rw [hp] at hrun
  refine ⟨st', r, hrun, ?_⟩
  rw [hr, hvals]
  decide

/-- `channel[i]` after a history, on the example: index `-2` of the string channel after a window read,
    an index read that fills the cache elsewhere, and a slice (kernel evaluation) -/
example : (match encodeFile exFile with
    | .ok b => match openFile b with
      | .ok f => some (step f (Tdms.Proofs.C05.run f {} [.read exA 1 (some 3), .index exS 0, .slice exB none none none])
                        (.index exS (-2))).2
      | .error _ => none
    | .error _ => none) = some (.value [9]) := by decide +kernel

/-- cross-check by evaluation of the model (fresh file state): all windows of all three channels of
    `exFile` with `offset ≤ 12`, `length ∈ {none, 0, …, 12}` agree with `denote` (546 windows) -/
example : (match encodeFile exFile, denote exFile with
    | .ok b, .ok c =>
      match openFile b with
      | .ok f => [exA, exS, exB].all fun p =>
          (List.range 13).all fun (off : Nat) =>
            ((none : Option Int) :: (List.range 13).map fun (n : Nat) => some (n : Int)).all fun len =>
              match (channelReadData f p off len).run {}, c.find? (·.path = p) with
              | .ok (some r, _), some oc => r.data.getD [] == takeOpt len (oc.values.drop off)
              | _, _ => false
      | .error _ => false
    | _, _ => false) = true := by decide +kernel

end Tdms.Proofs.C04Whole
