import TdmsProofs.Lemmas.C04SliceLemmas

/-!
# C04 (slice-normalisation half): `channel[a:b:c]` and `channel[i]` index arithmetic

Headline theorems only.  Reference semantics: `Tdms.Spec.PySlice` (CPython `slice.indices` + `range`,
cross-checked against CPython on 28000 cases, see `TdmsProofs/Tests/C04SliceCrossCheck.lean`).

* `read_slice_unfold`: `channelReadSlice` = (continuation applied to) the pure `sliceRequest`;
* `read_slice_request_in_range`: every request made lies inside the channel;
* `read_slice_eq_pySlice`: if the window read returns `full[off : off+l]` (the other half of C04),
  the slice result is exactly Python's `full[a:b:c]`, `ValueError` for a zero step included;
* `read_at_index_unfold`, `read_at_index_eq`, `read_at_index_in_range`, `read_at_index_out_of_range`:
  the same for `channel[i]`.
-/

namespace Tdms.Proofs.C04
open Tdms Tdms.Model Tdms.Spec.PySlice

/-- `channelReadSlice` makes exactly the request `sliceRequest` and strides the window with `stepList`. -/
theorem read_slice_unfold (f : OpenFile) (p : Bytes) (a b c : Option Int) :
    channelReadSlice f p a b c =
      (match sliceRequest (((f.objects.get p).map (·.numValues)).getD 0 : Nat) a b c with
      | .error e => throw e
      | .ok none => pure []
      | .ok (some (off, l, st)) => do
          match ← channelReadData f p off (some l) with
          | some r => pure (stepList (r.data.getD []) st)
          | none => pure []) :=
  channelReadSlice_eq f p a b c

/-- A request, when made, is a window inside the channel with a non-zero stride: `channelReadData`
    is never called with a negative offset or length. -/
theorem read_slice_request_in_range (n : Nat) (a b c : Option Int) (off l st : Int)
    (h : sliceRequest n a b c = .ok (some (off, l, st))) :
    0 ≤ off ∧ 0 ≤ l ∧ off + l ≤ n ∧ st ≠ 0 :=
  sliceRequest_in_range n a b c off l st h

/-- Slice normalisation is Python's: for every `a b c : Option Int` and every length. -/
theorem read_slice_eq_pySlice (full : List Bytes) (a b c : Option Int) :
    sliceResult full a b c = (pySlice full a b c).mapError (fun _ => Err.stepZero) :=
  sliceResult_eq_pySlice full a b c

/-- `channelReadAtIndex` normalises the index with `indexRequest`, throws `IndexError` when that
    fails, and otherwise runs the rest of its body on the normalised index. -/
theorem read_at_index_unfold (f : OpenFile) (p : Bytes) (cache : Option ChunkCache) (index : Int) :
    channelReadAtIndex f p cache index =
      (match indexRequest (((f.objects.get p).map (·.numValues)).getD 0 : Nat) index with
      | .error e => throw e
      | .ok i => readAtIndexRest f p cache i) :=
  channelReadAtIndex_eq f p cache index

/-- Index normalisation is Python's. -/
theorem read_at_index_eq (n : Nat) (i : Int) :
    indexRequest n i = match pyIndex n i with
      | some k => .ok k
      | none => .error .indexError :=
  indexRequest_eq_pyIndex n i

theorem read_at_index_in_range (n : Nat) (i : Int) (h : -(n : Int) ≤ i ∧ i < n) :
    indexRequest n i = .ok (i % (n : Int)).toNat :=
  indexRequest_in_range n i h

theorem read_at_index_out_of_range (n : Nat) (i : Int) (h : ¬ (-(n : Int) ≤ i ∧ i < n)) :
    indexRequest n i = .error .indexError :=
  indexRequest_out_of_range n i h

/-! ## non-vacuity: concrete slices of `[[1],[2],[3],[4],[5]]` -/

def five : List Bytes := [[1], [2], [3], [4], [5]]

-- `x[1:4]`
example : sliceResult five (some 1) (some 4) none = .ok [[2], [3], [4]] := by rfl
example : pySlice five (some 1) (some 4) none = .ok [[2], [3], [4]] := by rfl
-- `x[::-2]`
example : sliceResult five none none (some (-2)) = .ok [[5], [3], [1]] := by rfl
example : pySlice five none none (some (-2)) = .ok [[5], [3], [1]] := by rfl
-- `x[-2:]`
example : sliceResult five (some (-2)) none none = .ok [[4], [5]] := by rfl
-- `x[10:]`
example : sliceResult five (some 10) none none = .ok [] := by rfl
-- `x[::0]`
example : sliceResult five none none (some 0) = .error .stepZero := by rfl
example : pySlice five none none (some 0) = .error () := by rfl
-- `x[-100:100:3]`, `x[3:0:-1]`
example : sliceResult five (some (-100)) (some 100) (some 3) = .ok [[1], [4]] := by rfl
example : sliceResult five (some 3) (some 0) (some (-1)) = .ok [[4], [3], [2]] := by rfl
-- the requests behind them
example : sliceRequest 5 (some 1) (some 4) none = .ok (some (1, 3, 1)) := by rfl
example : sliceRequest 5 none none (some (-2)) = .ok (some (0, 5, -2)) := by rfl
example : sliceRequest 5 (some 10) none none = .ok none := by rfl
/-- a zero-length request that Python's range would not make: `x[10:-1:-1]` -/
example : sliceRequest 5 (some 10) (some (-1)) (some (-1)) = .ok (some (5, 0, -1)) := by rfl
example : pySlice five (some 10) (some (-1)) (some (-1)) = .ok [] := by rfl
-- indices
example : indexRequest 5 (-1) = .ok 4 := by rfl
example : indexRequest 5 (-5) = .ok 0 := by rfl
example : indexRequest 5 5 = .error .indexError := by rfl
example : indexRequest 5 (-6) = .error .indexError := by rfl
example : indexRequest 0 0 = .error .indexError := by rfl
example : pyIndex 5 (-1) = some 4 := by decide

end Tdms.Proofs.C04
