import TdmsProofs.Properties.C12
import TdmsProofs.Properties.C12Tied

/-!
# C12 (tied, composed): the write/read round-trip stated on the GENERATED functions themselves

`C12.lean` proves `encodeFloor_decode` for the model; `C12Tied.lean` proves that the definitions regenerated
from `nptdms/types.py` / `nptdms/timestamp.py` (`TimeStamp.init_encode`, `TdmsTimestamp.as_datetime64`,
`TimestampArray.as_datetime64_steps`) ARE the model functions.  The theorems below compose the two: the
round-trip is a statement about the source-derived definitions alone.

Every `theorem` of this file is a registered proof obligation.
-/

namespace Tdms.Proofs.C12TiedRoundtrip
open Tdms Tdms.Model.Timestamp Tdms.Generated Tdms.Generated.Code Tdms.Proofs.C12 Tdms.Proofs.C12Tied

/-- For EVERY integer microsecond count `delta` since the TDMS epoch: what the generated writer
    (`TimeStamp.__init__`) stores, the generated scalar reader (`TdmsTimestamp.as_datetime64('us')`) turns
    back into exactly `delta` microseconds, and the stored fraction fits its unsigned 64-bit field. -/
theorem generated_us_roundtrip (delta : Int) :
    ∃ b : Int,
      TdmsTimestamp.as_datetime64 ⟨(TimeStamp.init_encode delta).1, (TimeStamp.init_encode delta).2⟩ ['u', 's']
        = .ok ((TimeStamp.init_encode delta).1, b) ∧
      (TimeStamp.init_encode delta).1 * 10 ^ 6 + b = delta ∧
      0 ≤ (TimeStamp.init_encode delta).2 ∧ (TimeStamp.init_encode delta).2 < 2 ^ 64 := by
  rw [init_encode_tied]
  obtain ⟨hdec, hlt⟩ := encodeFloor_decode delta
  refine ⟨_, (as_datetime64_units _ _).2.2.1, ?_, by show (0 : Int) ≤ ((encodeFloor delta).2 : Int); omega, ?_⟩
  · simpa [decode] using hdec
  · show (((encodeFloor delta).2 : Nat) : Int) < 2 ^ 64
    exact_mod_cast hlt

/-- The same through the generated ARRAY reader (`TimestampArray.as_datetime64`, per element): the uint64
    number of microsecond steps it computes from the stored fraction completes the stored seconds to
    `delta`. -/
theorem generated_us_roundtrip_array (delta : Int) (x : UInt64)
    (hx : (x.toNat : Int) = (TimeStamp.init_encode delta).2) :
    (TimeStamp.init_encode delta).1 * 10 ^ 6
      + ((TimestampArray.as_datetime64_steps x ((10 ^ 6 : Nat) : Int)).toNat : Int) = delta := by
  obtain ⟨b, hb, hsum, _, _⟩ := generated_us_roundtrip delta
  rw [← hx] at hb
  rw [as_datetime64_steps_eq_scalar _ x ['u', 's'] (10 ^ 6) (by norm_num) rfl] at hb
  have := (Prod.mk.inj (Except.ok.inj hb)).2
  rw [this]; exact hsum

/-! ### Non-vacuity: the generated writer and reader computed on concrete instants -/

example : TimeStamp.init_encode 1 = (0, 18446744073709) := by decide +kernel
example : TdmsTimestamp.as_datetime64 ⟨0, 18446744073709⟩ ['u', 's'] = .ok (0, 1) := by decide +kernel
example : TimeStamp.init_encode (-1) = (-1, 18446725626965477906) := by decide +kernel
example : TdmsTimestamp.as_datetime64 ⟨-1, 18446725626965477906⟩ ['u', 's'] = .ok (-1, 999999) := by
  decide +kernel

end Tdms.Proofs.C12TiedRoundtrip
