import TdmsProofs.Lemmas.TiedScalingEval

/-!
# C13 (tied): evaluating the scale graph — `MultiScaling._compute_scaled_data`, `MultiScaling.scale` and the
elementwise `scale` methods of `nptdms/scaling.py`

A numpy array is represented by ONE of its elements (numpy arithmetic is elementwise), in an arbitrary commutative
ring `R` with decidable equality (the model evaluates over `ℚ`); nothing is said about binary64 rounding.
The generated recursion carries Python's recursion limit as `fuel` (`RecursionError` = the model's `noFuel`).
Untranslated calls, instantiated here: `np.polynomial.polynomial.polyval` (`pyPolyval`: Horner on the converted
coefficients), `np.interp` (`pyInterp interp`), the `scale` methods of the four sensor classes (arbitrary total
functions `Frtd`, `Fstrain`, `Fthm`, `Ftc`; `StrainScaling.scale` and parts of the RTD / thermistor ones are tied
separately in `C17Tied`).
-/

namespace Tdms.Proofs.C13Tied

open Tdms.Model.Scaling Tdms.Generated Tdms.Generated.Code2 Tdms.Proofs.Tied2

set_option linter.unusedSectionVars false

variable {R : Type} [CommRing R] [DecidableEq R]

/-! ## the elementwise formulas -/

/-- `LinearScaling.scale`: `data * slope + intercept` -/
theorem LinearScaling.scale_tied (b m : R) (src : Py.Val R) (x : R) :
    Code2.LinearScaling.scale ⟨.num b, .num m, src⟩ x = .ok (x * m + b) := rfl

/-- integer-valued properties are used as numbers -/
theorem LinearScaling.scale_int_tied (b m : Nat) (src : Py.Val R) (x : R) :
    Code2.LinearScaling.scale ⟨.int b, .int m, src⟩ x = .ok (x * (m : R) + (b : R)) := rfl

/-- a string-valued slope raises (numpy: UFuncTypeError) -/
theorem LinearScaling.scale_str (b : Py.Val R) (s : List Char) (src : Py.Val R) (x : R) :
    Code2.LinearScaling.scale ⟨b, .str s, src⟩ x = .error "TypeError" := rfl

/-- `AddScaling.scale` -/
theorem AddScaling.scale_tied (o : Code2.AddScaling R) (l r : R) : Code2.AddScaling.scale o l r = l + r := rfl

/-- `SubtractScaling.scale`: RIGHT minus LEFT -/
theorem SubtractScaling.scale_tied (o : Code2.SubtractScaling R) (l r : R) :
    Code2.SubtractScaling.scale o l r = r - l := rfl

/-- `NoOpScaling.scale` -/
theorem NoOpScaling.scale_tied (o : Code2.NoOpScaling R) (x : R) : Code2.NoOpScaling.scale o x = x := rfl

/-- `PolynomialScaling.scale` with `polyval` = Horner: the model's `horner`, also for an empty coefficient list -/
theorem PolynomialScaling.scale_tied (o : Code2.PolynomialScaling R) (cs : List R) (h : absNums o.coefficients = some cs)
    (x : R) : Code2.PolynomialScaling.scale pyPolyval o x = .ok (horner cs x) := by
  unfold Code2.PolynomialScaling.scale pyPolyval
  cases hc : o.coefficients with
  | nil => rw [hc] at h; simp only [absNums, Option.some.injEq] at h; subst h; simp [horner, Py.len]
  | cons c cs' => rw [hc] at h; simp [Py.len, h]; intro h'; omega

/-- `TableScaling.scale`: `np.interp(data, input_values, output_values)` -/
theorem TableScaling.scale_tied (interp : R → List (Py.Val R) → List (Py.Val R) → Except Py.Exc R)
    (o : Code2.TableScaling R) (x : R) :
    Code2.TableScaling.scale interp o x = interp x o.input_values o.output_values := by
  unfold Code2.TableScaling.scale
  cases interp x o.input_values o.output_values <;> rfl

/-- `DaqMxScalerScaling.scale_daqmx`: the scaler data with this scale's id (KeyError) -/
theorem DaqMxScalerScaling.scale_daqmx_tied (id : Int) (d : Py.Dict Int R) :
    Code2.DaqMxScalerScaling.scale_daqmx ⟨id⟩ d = Py.Dict.getE d id := by
  unfold Code2.DaqMxScalerScaling.scale_daqmx
  cases Py.Dict.getE d id <;> rfl

/-! ## the recursion over input sources -/

section Graph
variable (Frtd : RtdScaling R → R → R) (Fstrain : StrainScaling R → R → R) (Fthm : ThermistorScaling R → R → R)
  (Ftc : ThermocoupleScaling R → R → R) (interp : List R → List R → R → R)

/-- **`MultiScaling._compute_scaled_data`** = the model's `computeScaled`, for every fuel and index, values and
    errors (`liftErr`: `noFuel ↦ RecursionError`, `invalidDaqmxInput ↦ Exception`, `indexError ↦ IndexError`,
    `keyError ↦ KeyError`).  `AbsList`: every entry of `ms.scalings` is a scaling object whose input sources are
    non-negative ints and whose coefficients are numbers. -/
theorem _compute_scaled_data_tied (ms : MultiScaling R) (g : List (Tdms.Model.Scaling.Scaling R))
    (habs : AbsList ms.scalings g) (raw : RawElem R) (fuel idx : Nat) :
    MultiScaling._compute_scaled_data fuel (fun o x => .ok (Frtd o x)) (fun o x => .ok (Fstrain o x))
        (fun o x => .ok (Fthm o x)) (fun o x => .ok (Ftc o x)) pyPolyval (pyInterp interp) ms (.int (idx : Int)) (pyRaw raw) =
      liftErr (computeScaled interp (envOf Frtd Fstrain Fthm Ftc ms.scalings) g raw fuel idx) :=
  compute_scaled_data_tied Frtd Fstrain Fthm Ftc interp ms g habs raw fuel idx

/-- **`MultiScaling.scale`**: the last scale is the output (= the model's `scaleElem`; with `C13.scaling_is_dataflow`
    the dataflow evaluation of the graph) -/
theorem scale_tied' (ms : MultiScaling R) (g : List (Tdms.Model.Scaling.Scaling R))
    (habs : AbsList ms.scalings g) (raw : RawElem R) :
    MultiScaling.scale (g.length + 1) (fun o x => .ok (Frtd o x)) (fun o x => .ok (Fstrain o x))
        (fun o x => .ok (Fthm o x)) (fun o x => .ok (Ftc o x)) pyPolyval (pyInterp interp) ms (pyRaw raw) =
      liftErr (scaleElem interp (envOf Frtd Fstrain Fthm Ftc ms.scalings) g raw) :=
  scale_tied Frtd Fstrain Fthm Ftc interp ms g habs raw

end Graph

/-- dispatch of `scaling.scale(x)` / `scaling.scale(l, r)`: a two-operand scaling called with one argument raises
    TypeError, a DAQmx scaler (no `scale` method) AttributeError -/
theorem Scaling_scale_wrong_arity (pv : R → List (Py.Val R) → Except Py.Exc R)
    (f1 : RtdScaling R → R → Except Py.Exc R) (f2 : StrainScaling R → R → Except Py.Exc R)
    (it : R → List (Py.Val R) → List (Py.Val R) → Except Py.Exc R) (f3 : ThermistorScaling R → R → Except Py.Exc R)
    (f4 : ThermocoupleScaling R → R → Except Py.Exc R) (a : Code2.AddScaling R) (d : Code2.DaqMxScalerScaling)
    (l : Code2.LinearScaling R) (x y : R) :
    Scaling_scale_1 pv f1 f2 it f3 f4 (.AddScaling a) x = .error "TypeError" ∧
    Scaling_scale_1 pv f1 f2 it f3 f4 (.DaqMxScalerScaling d) x = .error "AttributeError" ∧
    Scaling_scale_2 (.LinearScaling l) x y = .error "TypeError" := ⟨rfl, rfl, rfl⟩

/-! non-vacuity: `[linear 1 2 raw, subtract 0 raw]` on raw data 5 over ℤ: `5 - (5*2+1) = -6` -/
theorem example_graph :
    MultiScaling.scale (R := Int) 3 (fun _ x => .ok x) (fun _ x => .ok x) (fun _ x => .ok x) (fun _ x => .ok x)
      pyPolyval (pyInterp fun _ _ x => x)
      ⟨[some (.LinearScaling ⟨.int 1, .int 2, .int 4294967295⟩), some (.SubtractScaling ⟨.int 0, .int 4294967295⟩)]⟩
      ⟨some 5, none⟩ = .ok (-6) := by
  decide

end Tdms.Proofs.C13Tied
