/-
  C10 ("`TdmsWriter.defragment` produces a file with the same content"): the WHOLE composition
  read → lay out → write (one session) → read.

  `defragment src v` (`Tdms/Model/Defrag.lean`) is `writeSession v {} (defragSegs r groups)` for the eager read `r` of
  the source and its layout `groups` (`Properties/C10.lean`).  The one-session program `[defragSegs r groups]` writes
  every path once, so it is `typesConsistent`; C07Whole's `write_then_read` applies and its promised content is, in
  closed form, `defragView r`:

  1. `defragment_preserves_content` — the eager read of the copy succeeds and its content is `defragView r`
     (root, then per group the group and its channels in `fileLayout` order; properties re-typed as `rereadProp`, data
     types through `rewrittenType`, values identical);
  2. `defragment_same_content` — `sameContentUpTo (content r) (content r')`: the copy holds exactly the re-typed copies
     (`copyOf`) of the source's objects plus the implied empty root / group objects, each path once;
  3. `read_invariants` — facts about EVERY successful eager read used on the way (distinct object paths, distinct
     property names, values only on typed channel objects).

  Sources covered (decidable, on the eager read `r` of the source):
    * `CopyWritable r`     — the layout exists (no object path with three or more components) and what is to be written
                             fits the format's fields (`WritableProgram`, `stringTotalsFit` of C08 / C07Whole);
    * `SourceCanonical r`  — (for 2. only) object paths are spelled canonically; `exNonCanonical` shows that
                             `defragment` MERGES two spellings of one group and loses a property otherwise;
    * version 4712 / 4713, copy shorter than 2^63 bytes.
  Lemmas: `TdmsProofs/Lemmas/C10Whole{Defs,View,Inv,Same,Main}.lean`.  Core Lean only.
-/
import TdmsProofs.Lemmas.C10WholeMain

namespace Tdms.Proofs.C10Whole

open Tdms Tdms.Generated Tdms.Model Tdms.Model.Writer Tdms.Proofs.C08 Tdms.Proofs.C10
open Tdms.Proofs.C01Compose (content contentOfDenote ObjView valuesIn)

/-! ## 0. every successful eager read -/

/-- **invariants of `readFile`**: object paths are distinct, the property names of every object are distinct, and an
    object without data type, or whose path does not have two components, holds no values -/
theorem read_invariants (file : Bytes) (r : EagerResult) (hr : readFile file = .ok r) :
    (r.state.objects.map (·.path)).Nodup ∧ PropNamesDistinct r ∧
    ∀ m ∈ r.state.objects, (m.dataType = none ∨ countComponents m.path ≠ 2) → valuesIn r.channels m.path = [] :=
  readFile_inv hr

/-! ## 1. the content of the copy -/

/-- the `write_segment` calls of `defragment` write every path once: root, groups, channels are pairwise different
    objects, so no channel changes its type and the checked writer (C07Checked) accepts as well -/
theorem defragSegs_consistent (r : EagerResult) (groups : List GroupLayout)
    (hl : fileLayout r.state.objects = some groups) :
    ((defragSegs r groups).flatten.map (·.path)).Nodup ∧ C07Whole.typesConsistent [defragSegs r groups] ∧
    ∀ v, writeProgramChecked v [defragSegs r groups] = writeProgram v [defragSegs r groups] := by
  have hc := typesConsistent_defragSegs hl
  refine ⟨by rw [paths_defragSegs]; exact copyPaths_nodup hl, hc, fun v => ?_⟩
  exact C07Checked.writeProgramChecked_of_guard v _
    (C07Checked.sessionTypesOk_of_typesConsistent _ (by
      unfold C07Checked.Accepted; rw [programSegs_defragSegs]; rfl) hc)

/-- **C10, whole composition: the defragmented copy reads back as `defragView r`.**
    For every source whose eager read `r` succeeds and whose content fits the format's fields when re-written
    (`CopyWritable r`, decidable): the eager read of the data file `defragment` produces succeeds, and its content is
    — object by object, in this order — the root, then per group (in `TdmsFile.groups()` order) the group and its
    channels; property values re-typed by `rereadProp`, channel types through `rewrittenType`, values identical. -/
theorem defragment_preserves_content (src : Bytes) (v : Nat) (hv : v = 4712 ∨ v = 4713) (r : EagerResult) (d i : Bytes)
    (hr : readFile src = .ok r) (hd : defragment src v = some (d, i)) (hW : CopyWritable r)
    (hlen : d.length < 2 ^ 63) :
    ∃ r', readFile d = .ok r' ∧ content r' = defragView r := by
  obtain ⟨r0, groups, hr0, hl, _, _, hw, _⟩ := defragment_some hd
  rw [hr] at hr0
  cases hr0
  unfold CopyWritable at hW
  rw [hl] at hW
  obtain ⟨r', hr', hc⟩ := C07Whole.write_then_read v hv [defragSegs r groups] d i hw hW.1
    (typesConsistent_defragSegs hl) hW.2 hlen
  exact ⟨r', hr', by rw [hc, promisedView_defragSegs (readFile_inv hr).2.1 hl, defragView_of_layout hl]⟩

/-- `defragView r` object by object -/
theorem defragView_eq (r : EagerResult) (groups : List GroupLayout) (hl : fileLayout r.state.objects = some groups) :
    defragView r =
      ⟨Path.componentsToPathBytes [], none, (rootProps r).map rereadProp, []⟩ ::
      groups.flatMap fun g =>
        ⟨Path.componentsToPathBytes [g.name], none, g.props.map rereadProp, []⟩ ::
        g.channels.map fun cm =>
          ⟨Path.componentsToPathBytes [g.name, cm.1], copiedType r cm.2, cm.2.props.map rereadProp,
            (chanData r cm.2).vals⟩ := by
  rw [defragView_of_layout hl]; rfl

/-- the data type of a channel of the copy: `rewrittenType` of the source type, none for a channel without type and
    for an empty string / timestamp channel -/
theorem copiedType_eq (r : EagerResult) (m : ObjMeta) :
    copiedType r m =
      match m.dataType with
      | none => none
      | some ty =>
        if (ty = tyString ∨ ty = tyTimeStamp) ∧ (valuesIn r.channels m.path).isEmpty then none
        else if rewrittenType ty = tyVoid then none else some (rewrittenType ty) := by
  rw [← retype_viewOf]; rfl

/-- the values of a channel of the copy are the values of the source channel -/
theorem copiedVals_eq (file : Bytes) (r : EagerResult) (hr : readFile file = .ok r) (m : ObjMeta)
    (hm : m ∈ r.state.objects) : (chanData r m).vals = valuesIn r.channels m.path :=
  chanData_vals_eq fun hd => (readFile_inv hr).2.2 m hm (.inl hd)

/-! ## 2. same content up to re-ordering and re-typing -/

/-- **C10: `defragment` preserves the content.**  With canonically spelled object paths in the source
    (`SourceCanonical r`), the copy holds exactly: for every source object its re-typed copy `copyOf` (same path,
    same values, property values through `rereadProp`, channel type through `retype`), plus the implied empty objects
    (the root if the source has none, groups known only through their channels) — each path once. -/
theorem defragment_same_content (src : Bytes) (v : Nat) (hv : v = 4712 ∨ v = 4713) (r : EagerResult) (d i : Bytes)
    (hr : readFile src = .ok r) (hd : defragment src v = some (d, i)) (hW : CopyWritable r)
    (hcan : SourceCanonical r) (hlen : d.length < 2 ^ 63) :
    ∃ r', readFile d = .ok r' ∧ sameContentUpTo (content r) (content r') := by
  obtain ⟨r', hr', hc⟩ := defragment_preserves_content src v hv r d i hr hd hW hlen
  obtain ⟨_, groups, hr0, hl, _⟩ := defragment_some hd
  rw [hr] at hr0
  cases hr0
  exact ⟨r', hr', by rw [hc, defragView_of_layout hl]; exact sameContent_view (src_of_read hr hl hcan)⟩

/-- `defragment` itself succeeds on a covered source; everything in one statement -/
theorem defragment_whole (src : Bytes) (v : Nat) (hv : v = 4712 ∨ v = 4713) (r : EagerResult)
    (hr : readFile src = .ok r) (hW : CopyWritable r)
    (hlen : ∀ d i, defragment src v = some (d, i) → d.length < 2 ^ 63) :
    ∃ d i r', defragment src v = some (d, i) ∧ readFile d = .ok r' ∧ content r' = defragView r ∧
      (SourceCanonical r → sameContentUpTo (content r) (content r')) := by
  have hsome : ∃ d i, defragment src v = some (d, i) := by
    rw [defragment_eq_written, hr]
    unfold CopyWritable at hW
    simp only
    cases hl : fileLayout r.state.objects with
    | none => rw [hl] at hW; exact hW.elim
    | some groups => exact ⟨_, _, rfl⟩
  obtain ⟨d, i, hd⟩ := hsome
  obtain ⟨r', hr', hc⟩ := defragment_preserves_content src v hv r d i hr hd hW (hlen d i hd)
  refine ⟨d, i, r', hd, hr', hc, fun hcan => ?_⟩
  obtain ⟨r'', hr'', hs⟩ := defragment_same_content src v hv r d i hr hd hW hcan (hlen d i hd)
  rw [hr'] at hr''
  cases hr''
  exact hs

/-- what `sameContentUpTo` gives object by object: every source object is in the copy with the same path, the same
    values, its properties through `rereadProp` and its type through `retype`; every object of the copy is such a
    copy or an implied empty object -/
theorem same_content_objects (src dst : List ObjView) (h : sameContentUpTo src dst) :
    (∀ o ∈ src, ∃ o' ∈ dst, o'.path = o.path ∧ o'.values = o.values ∧ o'.props = o.props.map rereadProp ∧
      o'.dataType = if isChannelPath o.path then retype o else none) ∧
    (∀ o' ∈ dst, (∃ o ∈ src, o' = copyOf o) ∨
      (o'.dataType = none ∧ o'.props = [] ∧ o'.values = [] ∧ o'.path ∈ impliedPaths src)) :=
  sameContentUpTo_object h

/-- the re-typing keeps width and NumPy kind (C10's `rewrittenType_preserves`), and a re-typed property is the same
    Python value (C10's `prop_value_preserved`) -/
theorem retyping_harmless :
    (∀ ty, typeSize (rewrittenType ty) = typeSize ty) ∧
    (∀ p, ReadableProp p → propToPyVal (rereadProp p) = propToPyVal p) :=
  ⟨fun ty => (rewrittenType_preserves.1 ty).1, prop_value_preserved⟩

/-! ## 3. non-vacuity: the demo source of C10 and a three-segment fragmented source -/

section Example

def pH : Bytes := Path.componentsToPathBytes [[0x68]]
def pHU : Bytes := Path.componentsToPathBytes [[0x68], [0x75]]
def pGE : Bytes := Path.componentsToPathBytes [[0x67], [0x65]]
def pGN : Bytes := Path.componentsToPathBytes [[0x67], [0x6e]]

/-- three segments; the Int32 channel `/'g'/'a'` is fragmented over all three (2 + 1 + 2 values) and has a Boolean
    property overwritten and a string property added in the second segment; the string channel `/'g'/'s'` over the
    first and the third; `/'g'/'n'` has no data at all; `/'g'/'e'` is an EMPTY string channel; `/'h'/'u'` is a
    `DoubleFloatWithUnit` channel (re-typed to `DoubleFloat`) with a timestamp property in a group `h` that is never
    declared; the group `g` is declared only in the LAST segment (after its channels); the root has a float32
    property -/
def fragSource : FileEnc :=
  [ { hasMeta := true, newList := true, interleaved := false, big := false, rawFlag := true,
      daqmxFlag := false, version := 4713,
      objs := [ ⟨pRoot, .noData, [⟨[0x6b], 9, [0, 0, 0xc0, 0x3f]⟩]⟩,
                ⟨pA, .full 3 2 0, [⟨[0x70], 0x21, [1]⟩]⟩,
                ⟨pS, .full 0x20 2 11, []⟩,
                ⟨pGN, .noData, []⟩ ],
      padding := 0,
      chunks := [[ [[1, 0, 0, 0], [0xff, 0xff, 0xff, 0xff]], [[0x68, 0x69], [0x78]] ]],
      lengthUnknown := false },
    { hasMeta := true, newList := true, interleaved := false, big := false, rawFlag := true,
      daqmxFlag := false, version := 4713,
      objs := [ ⟨pHU, .full 26 1 0, [⟨[0x74], 0x44, [0, 0, 0, 0, 0, 0, 0, 0x80, 1, 0, 0, 0, 0, 0, 0, 0]⟩]⟩,
                ⟨pA, .full 3 1 0, [⟨[0x70], 0x21, [0]⟩, ⟨[0x71], 0x20, [0x41]⟩]⟩,
                ⟨pGE, .full 0x20 0 0, []⟩ ],
      padding := 0,
      chunks := [[ [[0, 0, 0, 0, 0, 0, 0xf0, 0x3f]], [[3, 0, 0, 0]], [] ]],
      lengthUnknown := false },
    { hasMeta := true, newList := true, interleaved := false, big := false, rawFlag := true,
      daqmxFlag := false, version := 4713,
      objs := [ ⟨pG, .noData, [⟨[0x6e], 1, [0xfe]⟩]⟩, ⟨pS, .full 0x20 1 5, []⟩, ⟨pA, .full 3 2 0, []⟩ ],
      padding := 0,
      chunks := [[ [[0x7a]], [[4, 0, 0, 0], [5, 0, 0, 0]] ]],
      lengthUnknown := false } ]

def fragBytes : Bytes := match encodeFile fragSource with | .ok b => b | .error _ => []

/-- the content of the copy of `fragSource`, literally -/
def fragCopyView : List ObjView :=
  [ ⟨pRoot, none, [⟨[0x6b], 10, [0, 0, 0, 0, 0, 0, 0xf8, 0x3f]⟩], []⟩,
    ⟨pG, none, [⟨[0x6e], 3, [0xfe, 0xff, 0xff, 0xff]⟩], []⟩,
    ⟨pA, some 3, [⟨[0x70], 0x21, [0]⟩, ⟨[0x71], 0x20, [0x41]⟩],
      [[1, 0, 0, 0], [0xff, 0xff, 0xff, 0xff], [3, 0, 0, 0], [4, 0, 0, 0], [5, 0, 0, 0]]⟩,
    ⟨pS, some 0x20, [], [[0x68, 0x69], [0x78], [0x7a]]⟩,
    ⟨pGN, none, [], []⟩,
    ⟨pGE, none, [], []⟩,
    ⟨pH, none, [], []⟩,
    ⟨pHU, some 10, [⟨[0x74], 0x44, [0, 0, 0, 0, 0, 0, 0, 0x80, 1, 0, 0, 0, 0, 0, 0, 0]⟩],
      [[0, 0, 0, 0, 0, 0, 0xf0, 0x3f]]⟩ ]

set_option maxRecDepth 100000 in
/-- the three-segment source is well-formed, 547 bytes, and meets the hypotheses; its `defragView` is the literal -/
theorem frag_hyps :
    wellFormed fragSource = true ∧ fragBytes.length = 547 ∧
    (readFile fragBytes).toOption.map (fun r => (r.state.segments.length, decide (CopyWritable r),
      decide (SourceCanonical r), defragView r)) = some (3, true, true, fragCopyView) := by
  decide +kernel

set_option maxRecDepth 100000 in
/-- independent check by kernel evaluation of the models: defragmenting and reading gives `fragCopyView`, in
    8 segments, 580 bytes -/
theorem frag_defragment :
    ((defragment fragBytes 4713).bind fun di => (readFile di.1).toOption).map
      (fun r' => (content r', r'.state.segments.length)) = some (fragCopyView, 8) ∧
    (defragment fragBytes 4713).map (·.1.length) = some 580 := by
  decide +kernel

set_option maxRecDepth 100000 in
/-- the demo source of `Properties/C10.lean` (two segments) meets the hypotheses too -/
theorem demo_hyps :
    (readFile demoBytes).toOption.map (fun r => (decide (CopyWritable r), decide (SourceCanonical r))) =
      some (true, true) ∧
    (defragment demoBytes 4713).map (fun di => decide (di.1.length < 2 ^ 63)) = some true := by
  decide +kernel

/-- the headline theorems applied to the three-segment source -/
example : ∃ r d i r', readFile fragBytes = .ok r ∧ defragment fragBytes 4713 = some (d, i) ∧ readFile d = .ok r' ∧
    content r' = fragCopyView ∧ sameContentUpTo (content r) (content r') := by
  have h := frag_hyps.2.2
  cases hr : readFile fragBytes with
  | error e => rw [hr] at h; cases h
  | ok r =>
    rw [hr] at h
    simp only [Except.toOption, Option.map_some, Option.some.injEq, Prod.mk.injEq, decide_eq_true_eq] at h
    obtain ⟨_, hW, hcan, hview⟩ := h
    obtain ⟨d, i, r', hd, hr', hc, hs⟩ := defragment_whole fragBytes 4713 (.inr rfl) r hr hW (by
      intro d i hd
      have hl := frag_defragment.2
      rw [hd] at hl
      simp only [Option.map_some, Option.some.injEq] at hl
      rw [hl]; decide)
    exact ⟨r, d, i, r', rfl, hd, hr', by rw [hc, hview], hs hcan⟩

/-- the headline theorems applied to the demo source -/
example : ∃ r d i r', readFile demoBytes = .ok r ∧ defragment demoBytes 4713 = some (d, i) ∧ readFile d = .ok r' ∧
    content r' = defragView r ∧ sameContentUpTo (content r) (content r') := by
  have h := demo_hyps
  cases hr : readFile demoBytes with
  | error e => rw [hr] at h; cases h.1
  | ok r =>
    rw [hr] at h
    simp only [Except.toOption, Option.map_some, Option.some.injEq, Prod.mk.injEq, decide_eq_true_eq] at h
    obtain ⟨⟨hW, hcan⟩, hl⟩ := h
    obtain ⟨d, i, r', hd, hr', hc, hs⟩ := defragment_whole demoBytes 4713 (.inr rfl) r hr hW (by
      intro d i hd
      rw [hd] at hl
      simpa using hl)
    exact ⟨r, d, i, r', rfl, hd, hr', hc, hs hcan⟩

/-- **`SourceCanonical` cannot be dropped from `defragment_same_content`**: a (spec-well-formed) file with the objects
    `/'g'` (property `n`) and `/'g'/` (property `m`) — `ObjectPath.from_string` parses both as group `g`.  The copy
    has ONE group `/'g'` carrying only `m`: the property `n` is lost.  (`defragment_preserves_content` still holds:
    the copy is `defragView r`.) -/
def exNonCanonical : FileEnc :=
  [ { hasMeta := true, newList := true, interleaved := false, big := false, rawFlag := true,
      daqmxFlag := false, version := 4713,
      objs := [ ⟨pG, .noData, [⟨[0x6e], 1, [0xfe]⟩]⟩, ⟨pG ++ [0x2f], .noData, [⟨[0x6d], 1, [0x01]⟩]⟩ ],
      padding := 0, chunks := [], lengthUnknown := false } ]

set_option maxRecDepth 100000 in
theorem exNonCanonical_merged :
    wellFormed exNonCanonical = true ∧
    ((encodeFile exNonCanonical).toOption.bind fun b => (readFile b).toOption.bind fun r =>
      ((defragment b 4713).bind fun di => (readFile di.1).toOption).map fun r' =>
        (decide (CopyWritable r), decide (SourceCanonical r), decide (content r' = defragView r),
         decide (sameContentUpTo (content r) (content r')), content r')) =
      some (true, false, true, false,
        [ ⟨pRoot, none, [], []⟩, ⟨pG, none, [⟨[0x6d], 3, [1, 0, 0, 0]⟩], []⟩ ]) := by
  decide +kernel

end Example

end Tdms.Proofs.C10Whole
