import TdmsProofs.Lemmas.TiedSensors

/-!
# C17 (tied): the sensor scalings of `nptdms/scaling.py` — constructors, lead-resistance decision table,
excitation and strain-configuration dispatch

Generated definitions (`Tdms.Generated.Code2`) against `TdmsProofs/Model/Sensors.lean`.  Values in an arbitrary field
`K` with decidable equality (the model's formulas follow the code's order of operations; nothing about binary64).
A property is a `Py.Val K` (`.int` / `.num` / `.str`); the theorems about formulas take numeric (`.num`) parameters
and integer (`.int`) codes — a string-valued parameter raises TypeError in the generated code (`Py.Val.toNum`).
Not translated: `RtdScaling.scale` after the resistance step (square root, `polyroots`), `ThermistorScaling.scale`
after the resistance step (logarithm, `polyval`), the thermocouple polynomials (see C18).
-/

namespace Tdms.Proofs.C17Tied

open Tdms.Model.Scaling Tdms.Model.Sensors Tdms.Generated Tdms.Generated.Code2 Tdms.Proofs.Tied2

/-! ## constructors: property names and order (a missing property raises KeyError; no defaults) -/

theorem RtdScaling.from_properties_tied {R : Type} (ps : Props R) (i : Nat) :
    Code2.RtdScaling.from_properties (pyProps ps) (i : Int) = (do
      let ce ← getM ps (pfx i ++ "_RTD_Current_Excitation")
      let r0 ← getM ps (pfx i ++ "_RTD_R0_Nominal_Resistance")
      let a ← getM ps (pfx i ++ "_RTD_A")
      let b ← getM ps (pfx i ++ "_RTD_B")
      let c ← getM ps (pfx i ++ "_RTD_C")
      let lead ← getM ps (pfx i ++ "_RTD_Lead_Wire_Resistance")
      let cfg ← getM ps (pfx i ++ "_RTD_Resistance_Configuration")
      let src ← getM ps (pfx i ++ "_RTD_Input_Source")
      pure ⟨ce, r0, a, b, c, lead, cfg, src⟩) :=
  rtd_from_properties ps i

theorem StrainScaling.from_properties_tied {R : Type} (ps : Props R) (i : Nat) :
    Code2.StrainScaling.from_properties (pyProps ps) (i : Int) = (do
      let cfg ← getM ps (pfx i ++ "_Strain_Configuration")
      let nu ← getM ps (pfx i ++ "_Strain_Poisson_Ratio")
      let rg ← getM ps (pfx i ++ "_Strain_Gage_Resistance")
      let lead ← getM ps (pfx i ++ "_Strain_Lead_Wire_Resistance")
      let v0 ← getM ps (pfx i ++ "_Strain_Initial_Bridge_Voltage")
      let gf ← getM ps (pfx i ++ "_Strain_Gage_Factor")
      let gain ← getM ps (pfx i ++ "_Strain_Bridge_Shunt_Calibration_Gain_Adjustment")
      let vex ← getM ps (pfx i ++ "_Strain_Voltage_Excitation")
      let src ← getM ps (pfx i ++ "_Strain_Input_Source")
      pure ⟨cfg, nu, rg, lead, v0, gf, gain, vex, src⟩) :=
  strain_from_properties ps i

theorem ThermistorScaling.from_properties_tied {R : Type} (ps : Props R) (i : Nat) :
    Code2.ThermistorScaling.from_properties (pyProps ps) (i : Int) = (do
      let et ← getM ps (pfx i ++ "_Thermistor_Excitation_Type")
      let ev ← getM ps (pfx i ++ "_Thermistor_Excitation_Value")
      let cfg ← getM ps (pfx i ++ "_Thermistor_Resistance_Configuration")
      let r1 ← getM ps (pfx i ++ "_Thermistor_R1_Reference_Resistance")
      let lead ← getM ps (pfx i ++ "_Thermistor_Lead_Wire_Resistance")
      let a ← getM ps (pfx i ++ "_Thermistor_A")
      let b ← getM ps (pfx i ++ "_Thermistor_B")
      let c ← getM ps (pfx i ++ "_Thermistor_C")
      let off ← getM ps (pfx i ++ "_Thermistor_Temperature_Offset")
      let src ← getM ps (pfx i ++ "_Thermistor_Input_Source")
      pure ⟨et, ev, cfg, r1, lead, a, b, c, off, src⟩) :=
  thermistor_from_properties ps i

/-! ## decisions and formulas -/

variable {K : Type} [Field K] [DecidableEq K]

/-- **`_adjust_for_lead_resistance`** = `adjustLead`: 3-wire subtracts the lead resistance once; 2-wire subtracts it
    twice, but only with CURRENT excitation (10134); everything else is unchanged -/
theorem _adjust_for_lead_resistance_tied (r lead : K) (et cfg : Nat) :
    _adjust_for_lead_resistance r (.int (et : Int)) (.int (cfg : Int)) (.num lead) =
      .ok (adjustLead (decide (et = 10134)) cfg r lead) :=
  adjust_for_lead_resistance_eq r lead et cfg

/-- the decision table, spelled out -/
theorem _adjust_for_lead_resistance_table (r lead : K) :
    _adjust_for_lead_resistance r (.int 10134) (.int 3) (.num lead) = .ok (r - lead) ∧
    _adjust_for_lead_resistance r (.int 10322) (.int 3) (.num lead) = .ok (r - lead) ∧
    _adjust_for_lead_resistance r (.int 10134) (.int 2) (.num lead) = .ok (r - 2 * lead) ∧
    _adjust_for_lead_resistance r (.int 10322) (.int 2) (.num lead) = .ok r ∧
    _adjust_for_lead_resistance r (.int 10134) (.int 4) (.num lead) = .ok r ∧
    _adjust_for_lead_resistance r (.int 10322) (.int 4) (.num lead) = .ok r := by
  have h := fun et cfg => adjust_for_lead_resistance_eq r lead et cfg
  refine ⟨?_, ?_, ?_, ?_, ?_, ?_⟩
  · simpa [adjustLead] using h 10134 3
  · simpa [adjustLead] using h 10322 3
  · simpa [adjustLead] using h 10134 2
  · simpa [adjustLead] using h 10322 2
  · simpa [adjustLead] using h 10134 4
  · simpa [adjustLead] using h 10322 4

/-- **`RtdScaling.scale`**, statements `r_t = data / I` and `r_t = _adjust_for_lead_resistance(r_t, CURRENT_EXCITATION, …)` -/
theorem RtdScaling.scale_resistance_tied (o : RtdScaling K) (I lead : K) (cfg : Nat) (hI : o.current_excitation = .num I)
    (hl : o.lead_wire_resistance = .num lead) (hc : o.resistance_configuration = .int (cfg : Int)) (v : K) :
    Code2.RtdScaling.scale_resistance o v = .ok (rtdResistance I lead cfg v) :=
  rtd_scale_resistance_eq o I lead cfg hI hl hc v

/-- **`ThermistorScaling.scale`**, from the excitation dispatch to the lead correction: current excitation (10134)
    `V / I`, voltage excitation (10322) the divider formula, any other type ValueError -/
theorem ThermistorScaling.scale_resistance_tied (o : ThermistorScaling K) (et cfg : Nat) (ev r1 lead : K)
    (het : o.excitation_type = .int (et : Int)) (hev : o.excitation_value = .num ev)
    (hr1 : o.r1_reference_resistance = .num r1) (hl : o.lead_wire_resistance = .num lead)
    (hc : o.resistance_configuration = .int (cfg : Int)) (v : K) :
    Code2.ThermistorScaling.scale_resistance o v =
      if et = 10134 then .ok (thermistorResistance true ev r1 lead cfg v)
      else if et = 10322 then .ok (thermistorResistance false ev r1 lead cfg v)
      else .error "ValueError" :=
  thermistor_scale_resistance_eq o et cfg ev r1 lead het hev hr1 hl hc v

/-- **`StrainScaling.scale`** = `strainScale`: the configuration dispatch (10183 … 10272; anything else raises) and
    the seven bridge formulas, including the initial-bridge-voltage subtraction -/
theorem StrainScaling.scale_tied (cfg : Nat) (p : StrainParams K) (src : Py.Val K) (v : K) :
    Code2.StrainScaling.scale (pyStrain cfg p src) v =
      match strainScale cfg p v with
      | some y => .ok y
      | none => .error "Exception" :=
  strain_scale_eq cfg p src v

/-- the configuration constants of the class are those of the existing table generator -/
theorem strain_constants_tied :
    StrainScaling.FULL_BRIDGE_1 = (strain_FULL_BRIDGE_1 : Int) ∧ StrainScaling.FULL_BRIDGE_2 = (strain_FULL_BRIDGE_2 : Int) ∧
    StrainScaling.FULL_BRIDGE_3 = (strain_FULL_BRIDGE_3 : Int) ∧ StrainScaling.HALF_BRIDGE_1 = (strain_HALF_BRIDGE_1 : Int) ∧
    StrainScaling.HALF_BRIDGE_2 = (strain_HALF_BRIDGE_2 : Int) ∧
    StrainScaling.QUARTER_BRIDGE_1 = (strain_QUARTER_BRIDGE_1 : Int) ∧
    StrainScaling.QUARTER_BRIDGE_2 = (strain_QUARTER_BRIDGE_2 : Int) ∧
    CURRENT_EXCITATION = (currentExcitation : Int) ∧ VOLTAGE_EXCITATION = (voltageExcitation : Int) ∧
    RAW_DATA_INPUT_SOURCE = (rawDataInputSource : Int) := by
  decide

/-- a string-valued parameter raises (the model has no such case: hypothesis "numeric parameters") -/
theorem _adjust_for_lead_resistance_str (r : K) (s : List Char) :
    _adjust_for_lead_resistance r (.int 10134) (.int 3) (.str s) = .error "TypeError" := by
  simp [_adjust_for_lead_resistance, Py.Val.eq, Py.Val.toNum]

end Tdms.Proofs.C17Tied
