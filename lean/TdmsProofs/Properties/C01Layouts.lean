/-
  C01 ("reading returns exactly the content the file encodes") for the other raw-data layouts of the format.

  Part A — INTERLEAVED data.  The whole-file theorem of `C01Multi.lean` extended to files whose segments
  are contiguous OR interleaved (class `MultiStdI`): the model reader applied to the spec encoding returns
  exactly the spec's meaning.  The multi-segment induction (metadata state machine, positions, accumulation)
  is that of `C01Multi`; only the per-segment data step is new: an interleaved segment is read in ONE go
  (`InterleavedDataReader.read_data_chunks`), the `k` encoded chunks of `n` rows being one interleaved chunk
  of `n·k` rows.  Lemmas: `TdmsProofs/Lemmas/C01Layouts{Spec,Meta,Inter,Data,File}.lean`.  Core Lean only.

  The class `MultiStdI e` (`C01LayoutsSpec.lean`):
    * every segment: `lengthUnknown = false`, no DAQmx index listed; `interleaved` is free;
    * `wellFormed e = true` — for an interleaved segment this demands (spec, `wfSeg`) that every object active
      with data has a fixed-width type and that all of them have the same number of values per chunk.
  Everything else is as free as in `MultiStd`.
-/
import TdmsProofs.Lemmas.C01LayoutsDaqCanon
import TdmsProofs.Lemmas.C09ContentParse
import TdmsProofs.Properties.C01Multi

namespace Tdms.Proofs.C01Layouts

open Tdms Tdms.Generated Tdms.Model Tdms.Proofs.C02 Tdms.Proofs.C01Multi
open Tdms.Proofs.Bytes (canonProp)
open Tdms.Proofs.C01Compose (pairsChunk bump content contentOfDenote ObjView)

/-! # Part A: contiguous and interleaved segments -/

/-! ## A.0 the bytes -/

theorem encodeFile_multiI_bytes (e : FileEnc) (h : MultiStdI e) :
    ∃ acts, activeLists none [] e = .ok acts ∧ encodeFile e = .ok (zipEncode encodeSeg e acts) := by
  obtain ⟨acts, ha, _⟩ := h.acts
  exact ⟨acts, ha, by simp [encodeFile, ha]⟩

/-- the class contains the class of `C01Multi` -/
theorem multiStdI_of_multiStd {e : FileEnc} (h : MultiStd e) : MultiStdI e :=
  ⟨fun s hs => ⟨(h.segs s hs).lengthKnown, (h.segs s hs).std⟩, h.wf⟩

/-! ## A.1 metadata -/

/-- **metadata of a file with contiguous and interleaved segments**: exactly the statement of
    `read_metadata_multi` — the layout shows only in the ToC mask of the `Segment` records -/
theorem read_metadata_multi_interleaved (e : FileEnc) (h : MultiStdI e) (fit : FileFits e) (bytes : Bytes)
    (hb : encodeFile e = .ok bytes) (hlen : bytes.length < 2 ^ 63) :
    ∃ st acts c, readMetadata bytes = .ok st ∧ activeLists none [] e = .ok acts ∧ denote e = .ok c ∧
      st.segments = segRecsC 0 e acts ∧ st.objects = c.map objMetaOfContent ∧
      st.version = e.head?.map fun s => (s.version : Int) := by
  obtain ⟨acts, ha, hbytes⟩ := encodeFile_multiI_bytes e h
  rw [hbytes] at hb
  injection hb with hb
  subst hb
  have hok := segsOKI_canon e acts (segsOKI0_of_multi h fit ha)
  have hac := activeLists_canon e none [] acts ha
  rw [← zipEncode_canon] at hlen ⊢
  obtain ⟨st, h1, h2, h3, h4⟩ := readMetadata_multiI _ _ hac hok hlen
  refine ⟨st, acts, denoteSegs [] e acts, h1, ha, by simp [denote, ha], ?_, ?_, ?_⟩
  · rw [h2, segRecs_canon]
  · rw [h3, denoteSegs_canon]; rfl
  · rw [h4]; cases e <;> rfl

/-! ## A.2 raw data -/

theorem rawChunksAllI_canon : ∀ (ss : List SegEnc) (as : List (List ActiveObj)),
    rawChunksAllI (ss.map canonSeg) (as.map (·.map canonAct)) = rawChunksAllI ss as := by
  intro ss
  induction ss with
  | nil => intro as; cases as <;> rfl
  | cons s ss ih =>
    intro as
    cases as with
    | nil => rfl
    | cons a as =>
      simp only [List.map_cons, rawChunksAllI, ih, rawChunksOfSegI_canon]

-- `rawChunksAllI e acts` (`C01LayoutsData.lean`) is the concatenation over the segments of
--   (if !s.rawFlag then [[]] else []) ++
--     (if s.interleaved then
--        (if (dataObjs a).isEmpty then [] else [pairsChunk (pairsOf (dataObjs a) (mergeCols (dataObjs a) s.chunks))])
--      else s.chunks.map fun ch => pairsChunk (pairsOf (dataObjs a) ch))
-- with `mergeCols d [] = d.map fun _ => []`, `mergeCols d (ch :: chs) = zipWith (· ++ ·) ch (mergeCols d chs)`:
-- a contiguous segment yields one chunk per encoded chunk, an interleaved segment ONE chunk holding for each
-- data object the concatenation of its values over all encoded chunks (also when there is no chunk at all),
-- and nothing when it has no data object.

/-- **raw data of a file with contiguous and interleaved segments**: started from any file state -/
theorem read_data_multi_interleaved (e : FileEnc) (h : MultiStdI e) (fit : FileFits e) (bytes : Bytes)
    (hb : encodeFile e = .ok bytes) (hlen : bytes.length < 2 ^ 63) (fs : FState) :
    ∃ st acts fs', readMetadata bytes = .ok st ∧ activeLists none [] e = .ok acts ∧
      (readRawDataAll bytes st.segments).run fs = .ok (rawChunksAllI e acts, fs') := by
  obtain ⟨acts, ha, hbytes⟩ := encodeFile_multiI_bytes e h
  rw [hbytes] at hb
  injection hb with hb
  subst hb
  have hok := segsOKI_canon e acts (segsOKI0_of_multi h fit ha)
  have hac := activeLists_canon e none [] acts ha
  have hnd := actsNodup_canon (activeLists_nodup e none [] acts ha SpecInv.init (wellFormed_noDup h.wf))
  rw [← zipEncode_canon] at hlen ⊢
  obtain ⟨st, h1, h2, _, _⟩ := readMetadata_multiI _ _ hac hok hlen
  obtain ⟨fs', h3⟩ := readRawDataAll_multiI _ _ _ 0 fs hok hnd rfl
  exact ⟨st, acts, fs', h1, ha, by rw [h2, ← rawChunksAllI_canon]; exact h3⟩

/-! ## A.3 the composed theorem -/

/-- **reading returns exactly the content the file encodes** (any number of segments, each contiguous or
    interleaved): `readFile` succeeds on the encoding, `denote` is defined, and both list the same objects in
    the same order with the same data types, the same properties and the same values. -/
theorem read_encode_multi_interleaved (e : FileEnc) (h : MultiStdI e) (fit : FileFits e)
    (hch : onlyChannelsHaveDataI e) (bytes : Bytes) (hb : encodeFile e = .ok bytes)
    (hlen : bytes.length < 2 ^ 63) :
    ∃ r c, readFile bytes = .ok r ∧ denote e = .ok c ∧ content r = contentOfDenote c := by
  obtain ⟨acts, ha, hbytes⟩ := encodeFile_multiI_bytes e h
  rw [hbytes] at hb
  injection hb with hb
  subst hb
  have hok := segsOKI_canon e acts (segsOKI0_of_multi h fit ha)
  have hac := activeLists_canon e none [] acts ha
  have hnd := actsNodup_canon (activeLists_nodup e none [] acts ha SpecInv.init (wellFormed_noDup h.wf))
  have hch' : ∀ sa ∈ (e.map canonSeg).zip (acts.map (·.map canonAct)), ChannelsOnlyI sa := by
    intro sa hsa hne x hx hd
    rw [List.zip_map, List.mem_map] at hsa
    obtain ⟨sa0, hsa0, rfl⟩ := hsa
    simp only [Prod.map_snd, List.mem_map] at hx
    obtain ⟨x0, hx0, rfl⟩ := hx
    exact hch acts ha sa0 hsa0 hne x0 hx0 hd
  rw [← zipEncode_canon] at hlen ⊢
  obtain ⟨st, _, hobjs, hread⟩ := readFile_multiI _ _ hac hok hnd hch' hlen
  rw [denoteSegs_canon] at hobjs hread
  refine ⟨_, denoteSegs [] e acts, hread, by simp [denote, ha], ?_⟩
  have := content_multiI _ _ hok hch' st (by rw [denoteSegs_canon]; exact hobjs)
  rwa [denoteSegs_canon] at this

/-! ## A.4 the values `denote` assigns, in closed form (layout-independent) -/

theorem denote_multi_interleaved_values (e : FileEnc) (h : MultiStdI e) (fit : FileFits e) :
    ∃ acts c, activeLists none [] e = .ok acts ∧ denote e = .ok c ∧ (c.map (·.path)).Nodup ∧
      ∀ oc ∈ c, oc.values = ((allPairs e acts).filter fun pv => decide (pv.1 = oc.path)).flatMap (·.2) := by
  obtain ⟨acts, ha, _⟩ := encodeFile_multiI_bytes e h
  have hok := segsOK_deint _ _ (segsOKI_canon e acts (segsOKI0_of_multi h fit ha))
  have hnodup := denoteSegs_nodup _ _ [] hok (by simp)
  have hvals := valsOf_denoteSegs _ _ [] hok
  rw [denoteSegs_deint, denoteSegs_canon, allPairs_deint, allPairs_canon] at hvals
  rw [denoteSegs_deint, denoteSegs_canon] at hnodup
  refine ⟨acts, denoteSegs [] e acts, ha, by simp [denote, ha], hnodup, ?_⟩
  intro oc hoc
  have hvoc : valsOf (denoteSegs [] e acts) oc.path = oc.values := by
    unfold valsOf
    rw [find_of_nodup hnodup hoc]
    rfl
  rw [← hvoc, hvals, bump_foldl_closed]
  rfl

/-! ## A.5 executable forms of the hypotheses -/

def segStdIB (s : SegEnc) : Bool := !s.lengthUnknown && s.objs.all fun o => !isDaqIdx o.idx

def multiStdIB (e : FileEnc) : Bool := e.all segStdIB && wellFormed e

theorem multiStdIB_sound {e : FileEnc} (h : multiStdIB e = true) : MultiStdI e := by
  simp only [multiStdIB, Bool.and_eq_true, List.all_eq_true] at h
  refine ⟨?_, h.2⟩
  intro s hs
  have := h.1 s hs
  simp only [segStdIB, Bool.and_eq_true, Bool.not_eq_true', List.all_eq_true] at this
  refine ⟨this.1, ?_⟩
  intro o ho dg ty n sc w hi
  have := this.2 o ho
  rw [hi] at this
  cases this

/-- the composed theorem with every hypothesis as a Boolean check -/
theorem read_encode_multi_interleaved_checked (e : FileEnc) (h : multiStdIB e = true)
    (fit : fileFitsB e = true) (hch : onlyChannelsHaveDataIB e = true) (bytes : Bytes)
    (hb : encodeFile e = .ok bytes) (hlen : bytes.length < 2 ^ 63) :
    ∃ r c, readFile bytes = .ok r ∧ denote e = .ok c ∧ content r = contentOfDenote c :=
  read_encode_multi_interleaved e (multiStdIB_sound h) (fileFitsB_sound fit)
    (onlyChannelsHaveDataIB_sound hch) bytes hb hlen

/-! ## A.6 non-vacuity: three segments mixing both layouts and both byte orders -/

section ExampleA

def iSeg0 : SegEnc :=
  { hasMeta := true, newList := true, interleaved := false, big := false, rawFlag := true, daqmxFlag := false,
    version := 4713, objs := [], padding := 0, chunks := [], lengthUnknown := false }

/-- three segments:
    0. contiguous, little-endian: root, Int32 channel `a` (2 values per chunk, `total` left 0) with a
       property, UInt16 channel `b` (1 value per chunk), string channel `s`; 1 chunk;
    1. INTERLEAVED, BIG-endian, incremental list: `b` now has 2 values per chunk and `s` is switched off, so
       the data objects are `a` (Int32, inherited index) and `b` (UInt16): rows of 6 bytes; 2 chunks;
    2. INTERLEAVED, little-endian, no metadata (the list of segment 1 is reused); 1 chunk. -/
def iFile : FileEnc := [
  { iSeg0 with
      objs := [⟨exRoot, .noData, [⟨[110], 0x20, [102]⟩]⟩, ⟨exA, .full 3 2 0, [⟨[117], 0x20, [86]⟩]⟩,
               ⟨exB, .full 6 1 2, []⟩, ⟨exS, .full 0x20 1 6, []⟩],
      padding := 1,
      chunks := [[[[1, 0, 0, 0], [2, 0, 0, 0]], [[7, 8]], [[97, 98]]]] },
  { iSeg0 with
      interleaved := true, big := true, newList := false,
      objs := [⟨exB, .full 6 2 4, []⟩, ⟨exS, .noData, []⟩],
      chunks := [[[[3, 0, 0, 0], [4, 0, 0, 0]], [[1, 2], [3, 4]]],
                 [[[5, 0, 0, 0], [6, 0, 0, 0]], [[5, 6], [7, 8]]]] },
  { iSeg0 with
      interleaved := true, hasMeta := false, newList := false,
      chunks := [[[[9, 0, 0, 0], [10, 0, 0, 0]], [[9, 9], [8, 8]]]] } ]

/-- the content both sides must produce -/
def iContent : List ObjView :=
  [ ⟨exRoot, none, [⟨[110], 0x20, [102]⟩], []⟩,
    ⟨exA, some 3, [⟨[117], 0x20, [86]⟩],
      [[1, 0, 0, 0], [2, 0, 0, 0], [3, 0, 0, 0], [4, 0, 0, 0], [5, 0, 0, 0], [6, 0, 0, 0], [9, 0, 0, 0],
       [10, 0, 0, 0]]⟩,
    ⟨exB, some 6, [], [[7, 8], [1, 2], [3, 4], [5, 6], [7, 8], [9, 9], [8, 8]]⟩,
    ⟨exS, some 0x20, [], [[97, 98]]⟩ ]

theorem iFile_read : ((encodeFile iFile).toOption.bind fun b => (readFile b).toOption.map content) =
    some iContent := by decide +kernel

theorem iFile_denote : (denote iFile).toOption.map contentOfDenote = some iContent := by decide +kernel

theorem iFile_length : (encodeFile iFile).toOption.map (·.length) = some 358 := by decide +kernel

theorem iFile_std : MultiStdI iFile := multiStdIB_sound (by decide +kernel)

theorem iFile_fits : FileFits iFile := fileFitsB_sound (by decide +kernel)

theorem iFile_channels : onlyChannelsHaveDataI iFile := onlyChannelsHaveDataIB_sound (by decide +kernel)

/-- the example mixes both layouts and both byte orders, has a segment without metadata, and is outside the
    class of `C01Multi` -/
theorem iFile_features :
    (iFile.map (·.interleaved)) = [false, true, true] ∧ (iFile.map (·.big)) = [false, true, false] ∧
    (iFile.map (·.hasMeta)) = [true, true, false] ∧ (iFile.map (·.chunks.length)) = [1, 2, 1] ∧
    multiStdB iFile = false := by decide +kernel

/-- the raw chunks the reader yields: one per contiguous chunk, ONE per interleaved segment -/
theorem iFile_chunks : ((activeLists none [] iFile).toOption.map fun acts => (rawChunksAllI iFile acts).length) =
    some 3 := by decide +kernel

/-- the composed theorem applied to the example: its hypotheses are satisfiable -/
example : ∃ bytes r c, encodeFile iFile = .ok bytes ∧ readFile bytes = .ok r ∧ denote iFile = .ok c ∧
    content r = contentOfDenote c := by
  obtain ⟨acts, _, hb⟩ := encodeFile_multiI_bytes iFile iFile_std
  have hl := iFile_length
  rw [hb] at hl
  simp only [Except.toOption, Option.map_some, Option.some.injEq] at hl
  obtain ⟨r, c, h1, h2, h3⟩ := read_encode_multi_interleaved iFile iFile_std iFile_fits iFile_channels _ hb
    (by rw [hl]; decide)
  exact ⟨_, r, c, hb, h1, h2, h3⟩

/-- **`onlyChannelsHaveDataI` asks more of an interleaved segment, and must**: a group object active with
    data in an interleaved segment WITHOUT any chunk is well-formed and has a meaning, but the reader raises
    (the interleaved reader always hands one — empty — chunk per data object to the receivers, and a group
    has no receiver); the same segment with contiguous layout is read without error. -/
def iGroupIdle (il : Bool) : FileEnc := [{ iSeg0 with interleaved := il, objs := [⟨exGroup, .full 3 2 0, []⟩] }]

example : multiStdIB (iGroupIdle true) = true ∧ fileFitsB (iGroupIdle true) = true ∧
    onlyChannelsHaveDataB (iGroupIdle true) = true ∧ onlyChannelsHaveDataIB (iGroupIdle true) = false ∧
    ((denote (iGroupIdle true)).toOption.map contentOfDenote = some [⟨exGroup, some 3, [], []⟩]) ∧
    ((encodeFile (iGroupIdle true)).toOption.map fun b => (readFile b).toOption.isNone) = some true ∧
    onlyChannelsHaveDataIB (iGroupIdle false) = true ∧
    ((encodeFile (iGroupIdle false)).toOption.bind fun b => (readFile b).toOption.map content) =
      some [⟨exGroup, some 3, [], []⟩] := by
  decide +kernel

end ExampleA


/-! # Part B: DAQmx segments

  Files whose segments are standard (contiguous or interleaved) or DAQmx.  A DAQmx index of the class has data
  type `DAQmxRawData` (0xFFFFFFFF), any number of raw buffers — every declared width positive — with
  format-changing or digital-line scalers in any of them, pairwise distinct scale ids, and the (scale id, scaler
  type) list of a path is the same wherever the path is listed with a DAQmx index.  The content of a DAQmx channel is one raw value list per
  scaler (`ObjContent.scalers`); the reader's side is `ChannelData.scalers` (`contentD`).
  Lemmas: `TdmsProofs/Lemmas/C01LayoutsDaq{Spec,Content,Meta,Chunk,Data,Scal,Dict,Sem,Inv,Whole,File,Count,Main,Canon}.lean`. -/

/-! ## B.0 the per-chunk step -/

/-- **one DAQmx chunk**: on a file holding, at the current position, the encoding of one chunk (`bufs`: per
    raw buffer its rows; `DaqChunkOK`: rows as wide as declared, as many as the objects reading the buffer have
    values), `DaqmxDataReader._read_data_chunk` returns the dictionary `bmChunk e d 0 bufs []` and advances to the
    end of the chunk.  `bmChunk` (`C01LayoutsDaqChunk.lean`) walks the buffers in order, inside a buffer the data
    objects in order and their scalers living in that buffer, and stores `rows.map (scalerValue e dg s)` — the
    very list the spec's `addDaqmxObj` appends for scaler `s` — under the path and the scale id. -/
theorem read_daqmx_chunk (F : ScF) (file : Bytes) (seg : Segment) (hov : seg.override = none)
    (d : List ActiveObj) (W : List Nat) (dims : List (Nat × Nat)) (hobj : ∀ x ∈ d, DaqObj F W x)
    (hdims : bufferDimensions (d.map concObj) = .ok dims)
    (bufs : List (List Bytes)) (hck : DaqChunkOK W d bufs) (hc : Tdms.Proofs.C11.RowsConform bufs dims)
    (i : Nat) (st : FState) (tail : Bytes) (hf : file.drop st.pos = encChunkDaqmx bufs ++ tail) :
    ∃ st', readDaqmxChunk file seg (d.map concObj) i st = .ok (bmChunk seg.endian d 0 bufs [], st') ∧
      st'.pos = st.pos + (encChunkDaqmx bufs).length :=
  readDaqmxChunk_encChunk F file seg hov d W dims hobj hdims bufs hck hc i st tail hf

/-- what the dictionary holds: one entry per data object, no other; under the path of `x` the items of its
    scalers buffer by buffer (`accItems`), which carry, per scale id, the values of the spec's object-major item
    list `scalItemsG e x bufs = sc.map fun s => (s.scaleId, (bufs.getD s.buffer []).map (scalerValue e dg s))` -/
theorem daqmx_chunk_dict (F : ScF) (e : Endian) (d : List ActiveObj) (W : List Nat)
    (hnd : (d.map (·.path)).Nodup) (hobj : ∀ x ∈ d, DaqObj F W x) (bufs : List (List Bytes))
    (hlen : bufs.length = W.length) :
    ((bmChunk e d 0 bufs []).map (·.1)).Nodup ∧
    (∀ k ∈ (bmChunk e d 0 bufs []).map (·.1), k ∈ d.map (·.path)) ∧
    (∀ x ∈ d, itemsOfD (bmChunk e d 0 bufs []) x.path = accItems e x 0 bufs ∧
      ∀ id, colN (accItems e x 0 bufs) id = colN (scalItemsG e x bufs) id) := by
  obtain ⟨hinv, hitems⟩ := bmChunk_spec e d hnd bufs 0 [] (dictInv_nil d)
  refine ⟨hinv.nodup, hinv.keys, ?_⟩
  intro x hx
  refine ⟨?_, fun id => colN_accItems (hobj x hx) e bufs hlen id⟩
  rw [hitems x hx]
  have hnil : itemsOfD ([] : RawChunk) x.path = [] := rfl
  rw [hnil]
  obtain ⟨dg, n, sc, hi, hd⟩ := hobj x hx
  have hds : daqScalers x = sc := by simp [daqScalers, hi]
  rw [roa_fold_fresh _ [] (accItems_ids_nodup e x (by rw [hds]; exact hd.ids) bufs 0) (by simp)]
  rfl

/-- the values the spec appends for one DAQmx object and one chunk are exactly those items -/
theorem daqmx_chunk_spec (e : Endian) (bufs : List (List Bytes)) (c : Content) (x : ActiveObj)
    (hraw : ∀ dg ty n sc w, x.idx = some (.daq dg ty n sc w) → ty = tyDaqmxRaw) (p : Bytes) :
    scalOf (addDaqmxObj e bufs c x) p =
      if p = x.path then (scalItemsG e x bufs).foldl stepS (scalOf c p) else scalOf c p :=
  scalOf_addDaqmxObj e bufs c x hraw p

/-! ## B.1 the class -/

/-- the scaler types of a path: those of the first DAQmx index the file lists for it -/
def fileScF (e : FileEnc) : ScF := fun p =>
  (e.flatMap (·.objs)).findSome? fun o =>
    if o.path = p then
      (match o.idx with
       | .daqmx dg _ _ sc _ => some (scTypesOf dg sc)
       | _ => none)
    else none

/-- **the class of files with standard and DAQmx segments** -/
def MultiStdD (e : FileEnc) : Prop := MultiStdDF (fileScF e) e

/-- in a segment that has a chunk or is interleaved every object active with data is a channel; every DAQmx
    object is a channel -/
def onlyChannelsHaveDataD (e : FileEnc) : Prop :=
  ∀ acts, activeLists none [] e = .ok acts → ∀ sa ∈ e.zip acts, ChannelsOnlyD sa

theorem encodeFile_multiD_bytes (e : FileEnc) (h : MultiStdD e) :
    ∃ acts, activeLists none [] e = .ok acts ∧ encodeFile e = .ok (zipEncode encodeSeg e acts) := by
  obtain ⟨acts, ha, _⟩ := MultiStdDF.acts h
  exact ⟨acts, ha, by simp [encodeFile, ha]⟩

/-- no description of an active list is a DAQmx description -/
def NoDaqDesc : IdxDesc → Prop
  | .daq .. => False
  | _ => True

theorem noDaq_of_multiStdI {e : FileEnc} (h : MultiStdI e) {acts : List (List ActiveObj)}
    (ha : activeLists none [] e = .ok acts) : ∀ a ∈ acts, ∀ x ∈ a, isDaqmxObj x = false := by
  have hW := activeLists_W NoDaqDesc e none [] acts ha (fun p d hd => by simp [LastIdx.get] at hd)
    (fun a ha => by cases ha)
    (fun s hs o ho d hd => by
      cases hi : o.idx with
      | noData => rw [hi] at hd; cases hd
      | matchesPrev => rw [hi] at hd; cases hd
      | full ty n total => rw [hi] at hd; cases hd; trivial
      | daqmx dg ty n sc w => exact absurd hi ((h.segs s hs).std o ho dg ty n sc w))
  intro a haa x hx
  unfold isDaqmxObj
  cases hi : x.idx with
  | none => rfl
  | some d =>
    cases d with
    | std ty n total => rfl
    | daq dg ty n sc w => exact absurd (hW a haa x hx _ hi) (by simp [NoDaqDesc])

/-- **the class of part B contains the class of part A** (and so that of `C01Multi`) -/
theorem multiStdD_of_multiStdI {e : FileEnc} (h : MultiStdI e) : MultiStdD e := by
  refine ⟨fun s hs => ⟨(h.segs s hs).lengthKnown, ?_⟩, h.wf, ?_⟩
  · intro o ho dg ty n sc w hi
    exact absurd hi ((h.segs s hs).std o ho dg ty n sc w)
  · intro acts ha a haa x hx y hy
    have hnd := noDaq_of_multiStdI h ha a haa
    have hw : ∀ z ∈ dataObjs a, daqWidths z = [] := by
      intro z hz
      have := hnd z (List.mem_filter.mp hz).1
      unfold isDaqmxObj at this
      unfold daqWidths
      cases hi : z.idx with
      | none => rfl
      | some d =>
        cases d with
        | std ty n total => rfl
        | daq dg ty n sc w => rw [hi] at this; cases this
    rw [hw x hx, hw y hy]

theorem fileFitsD_of_fileFits {e : FileEnc} (h : MultiStdI e) (fit : FileFits e) : FileFitsD e := by
  intro s hs
  refine ⟨(fit s hs).nObjs, ?_⟩
  intro o ho
  have hf := (fit s hs).objs o ho
  exact ⟨idxFits_of_fitsM ((h.segs s hs).std o ho) hf, hf.strTotal, hf.nProps, hf.props⟩

theorem onlyChannelsHaveDataD_of_I {e : FileEnc} (h : MultiStdI e) (hch : onlyChannelsHaveDataI e) :
    onlyChannelsHaveDataD e := by
  intro acts ha sa hsa
  refine ⟨hch acts ha sa hsa, ?_⟩
  intro x hx hq
  obtain ⟨s, a⟩ := sa
  have := noDaq_of_multiStdI h ha a (List.of_mem_zip hsa).2 x hx
  rw [hq] at this
  cases this

/-! ## B.2 metadata -/

/-- **metadata of a file with DAQmx segments**: one `Segment` record per segment as in `read_metadata_multi`
    (DAQmx objects carry `daq := ⟨n, [width], scalers⟩`, see `concObj`); `object_metadata` is entry by entry the
    view `mOCD` of `denote`'s content: data type, properties, `scalerTypes` = the file's scaler types for DAQmx
    raw-data channels, and `numValues` = Σ over the segments of (values per chunk) × (number of chunks) -/
theorem read_metadata_multi_daqmx (e : FileEnc) (h : MultiStdD e) (fit : FileFitsD e) (bytes : Bytes)
    (hb : encodeFile e = .ok bytes) (hlen : bytes.length < 2 ^ 63) :
    ∃ st acts c, readMetadata bytes = .ok st ∧ activeLists none [] e = .ok acts ∧ denote e = .ok c ∧
      st.segments = segRecsC 0 e acts ∧ st.objects = c.map (mOCD (fileScF e) (countsOf e acts)) ∧
      st.version = e.head?.map fun s => (s.version : Int) := by
  obtain ⟨acts, ha, hbytes⟩ := encodeFile_multiD_bytes e h
  rw [hbytes] at hb
  injection hb with hb
  subst hb
  have hok := segsOKD_canon e acts (segsOKD_of_multi h fit ha)
  have hac := activeLists_canon e none [] acts ha
  rw [← zipEncode_canon] at hlen ⊢
  obtain ⟨st, h1, h2, h3, h4⟩ := readMetadata_multiD (fileScF e) _ _ hac hok (canonListed_canon e) hlen
  refine ⟨st, acts, denoteSegs [] e acts, h1, ha, by simp [denote, ha], ?_, ?_, ?_⟩
  · rw [h2, segRecs_canon]
  · rw [h3, denoteSegs_canon, countsOf_canon]
  · rw [h4]; cases e <;> rfl

/-! ## B.3 raw data -/

-- `rawChunksAllD e acts` (`C01LayoutsDaqData.lean`): per segment, after the empty chunk of a segment without
-- raw-data flag, a DAQmx segment yields one chunk `bmChunk s.endian (dataObjs a) 0 bufs []` per encoded chunk
-- `bufs`; a standard segment yields what `rawChunksAllI` says.

theorem read_data_multi_daqmx (e : FileEnc) (h : MultiStdD e) (fit : FileFitsD e) (bytes : Bytes)
    (hb : encodeFile e = .ok bytes) (hlen : bytes.length < 2 ^ 63) (fs : FState) :
    ∃ st acts fs', readMetadata bytes = .ok st ∧ activeLists none [] e = .ok acts ∧
      (readRawDataAll bytes st.segments).run fs = .ok (rawChunksAllD e acts, fs') := by
  obtain ⟨acts, ha, hbytes⟩ := encodeFile_multiD_bytes e h
  rw [hbytes] at hb
  injection hb with hb
  subst hb
  have hok := segsOKD_canon e acts (segsOKD_of_multi h fit ha)
  have hac := activeLists_canon e none [] acts ha
  have hnd := actsNodup_canon (activeLists_nodup e none [] acts ha SpecInv.init (wellFormed_noDup h.wf))
  rw [← zipEncode_canon] at hlen ⊢
  obtain ⟨st, h1, h2, _, _⟩ := readMetadata_multiD (fileScF e) _ _ hac hok (canonListed_canon e) hlen
  obtain ⟨fs', h3⟩ := readRawDataAll_multiD (fileScF e) _ _ _ 0 fs hok hnd rfl
  exact ⟨st, acts, fs', h1, ha, by rw [h2, ← rawChunksAllD_canon]; exact h3⟩

/-! ## B.4 the composed theorem -/

/-- **reading returns exactly the content the file encodes** (standard and DAQmx segments): `readFile`
    succeeds on the encoding, `denote` is defined, and both list the same objects in the same order with the same
    data types, the same properties, the same values AND, for DAQmx raw-data channels, the same raw value list
    per scale id (in the order of the scalers) -/
theorem read_encode_multi_daqmx (e : FileEnc) (h : MultiStdD e) (fit : FileFitsD e)
    (hch : onlyChannelsHaveDataD e) (bytes : Bytes) (hb : encodeFile e = .ok bytes)
    (hlen : bytes.length < 2 ^ 63) :
    ∃ r c, readFile bytes = .ok r ∧ denote e = .ok c ∧ contentD r = contentOfDenoteD c := by
  obtain ⟨acts, ha, hbytes⟩ := encodeFile_multiD_bytes e h
  rw [hbytes] at hb
  injection hb with hb
  subst hb
  have hok := segsOKD_canon e acts (segsOKD_of_multi h fit ha)
  have hac := activeLists_canon e none [] acts ha
  have hnd := actsNodup_canon (activeLists_nodup e none [] acts ha SpecInv.init (wellFormed_noDup h.wf))
  have hch' := channelsOnlyD_canon (hch acts ha)
  rw [← zipEncode_canon] at hlen ⊢
  obtain ⟨st, _, hobjs, hread⟩ := readFile_multiD (fileScF e) (fun _ => True) _ _ hac hok (canonListed_canon e) hnd
    hch' (fun _ _ _ _ _ => trivial) hlen
  refine ⟨_, denoteSegs [] e acts, hread, by simp [denote, ha], ?_⟩
  have := content_multiD (fileScF e) _ _ hac hok hnd hch' _ st hobjs
  rw [denoteSegs_canon] at this
  rw [denoteSegs_canon]
  exact this

/-- **the values `denote` assigns, in closed form**: every path once; the plain values of an object are the
    file-order concatenation of the value lists written under its path in standard segments
    (`allStdPairs`: per segment, per chunk, `(dataObjs a).map (·.path) |>.zip chunk`); the values of scaler `id`
    of a DAQmx channel are the file-order concatenation of `rows.map (scalerValue e dg s)` over the chunks
    `[rows]` of the DAQmx segments in which the path is active with data (`allDaqEnts`); DAQmx channels hold no
    plain values, other objects no scalers -/
theorem denote_multi_daqmx_values (e : FileEnc) (h : MultiStdD e) (fit : FileFitsD e) :
    ∃ acts c, activeLists none [] e = .ok acts ∧ denote e = .ok c ∧ (c.map (·.path)).Nodup ∧
      ∀ oc ∈ c, oc.values = colOf (allStdPairs e acts) oc.path ∧
        (∀ id, lookupV oc.scalers id = colN (itemsAt (allDaqEnts e acts) oc.path) id) ∧
        (oc.ty = some tyDaqmxRaw → oc.values = [] ∧ oc.scalers.map (·.1) = idsF (fileScF e) oc.path) ∧
        (oc.ty ≠ some tyDaqmxRaw → oc.scalers = []) := by
  obtain ⟨acts, ha, _⟩ := encodeFile_multiD_bytes e h
  have hok := segsOKD_canon e acts (segsOKD_of_multi h fit ha)
  have hac := activeLists_canon e none [] acts ha
  have hsem := denoteSegs_sem (fileScF e) (fun _ => True) _ _ none [] [] hac hok (fun _ _ _ _ _ => trivial)
    SpecInv.init (fun _ h => by cases h) (by simp) (fun _ h => by cases h)
  have hnodup := hsem.nodup
  have hvals := hsem.vals
  have hscal := hsem.scal
  have hcinv := hsem.cinv
  rw [denoteSegs_canon] at hnodup hvals hscal hcinv
  rw [allStdPairs_canon] at hvals
  refine ⟨acts, denoteSegs [] e acts, ha, by simp [denote, ha], hnodup, ?_⟩
  intro oc hoc
  have hfind : (denoteSegs [] e acts).find? (·.path = oc.path) = some oc := find_of_nodup hnodup hoc
  have hvoc : valsOf (denoteSegs [] e acts) oc.path = oc.values := by unfold valsOf; rw [hfind]; rfl
  have hsoc : scalOf (denoteSegs [] e acts) oc.path = oc.scalers := by unfold scalOf; rw [hfind]; rfl
  have hci := hcinv oc hoc
  refine ⟨?_, ?_, ?_, ?_⟩
  · rw [← hvoc, hvals, bump_foldl_closed]; rfl
  · intro id
    rw [← hsoc, hscal, allDaqEnts_canon]
    simp [scalOf, lookupV]
  · intro hr
    exact ⟨(hci.raw hr).1, (hci.raw hr).2.1⟩
  · intro hr
    cases hty : oc.ty with
    | none => exact (hci.untyped hty).2
    | some t => exact hci.std t hty (fun e => hr (by rw [hty, e]))

/-- the content view with scalers restricts to the content view of Part A -/
theorem contentD_content (r : EagerResult) :
    (contentD r).map (fun v => (⟨v.path, v.dataType, v.props, v.values⟩ : ObjView)) = content r := by
  simp [contentD, content, List.map_map, Function.comp_def]

/-! ## B.5 executable forms of the hypotheses -/

def daqListedOKB (F : ScF) (o : ObjEnc) : Bool :=
  match o.idx with
  | .daqmx dg ty _ sc w =>
    decide (ty = tyDaqmxRaw) && decide ((sc.map (·.scaleId)).Nodup) && w.all (fun x => decide (0 < x)) &&
      decide (F o.path = some (scTypesOf dg sc))
  | _ => true

theorem daqListedOKB_sound {F : ScF} {o : ObjEnc} (h : daqListedOKB F o = true) : DaqListedOK F o := by
  intro dg ty n sc w hi
  simp only [daqListedOKB, hi, Bool.and_eq_true, decide_eq_true_eq, List.all_eq_true] at h
  obtain ⟨⟨⟨h1, h2⟩, h3⟩, h4⟩ := h
  exact ⟨h1, h2, h3, h4⟩

def widthsAgreeB (e : FileEnc) : Bool :=
  match activeLists none [] e with
  | .ok acts => acts.all fun a => (dataObjs a).all fun x => (dataObjs a).all fun y => decide (daqWidths x = daqWidths y)
  | .error _ => true

def multiStdDB (e : FileEnc) : Bool :=
  (e.all fun s => !s.lengthUnknown && s.objs.all (daqListedOKB (fileScF e))) && wellFormed e && widthsAgreeB e

theorem multiStdDB_sound {e : FileEnc} (h : multiStdDB e = true) : MultiStdD e := by
  simp only [multiStdDB, Bool.and_eq_true, List.all_eq_true, Bool.not_eq_true'] at h
  obtain ⟨⟨h1, h2⟩, h3⟩ := h
  refine ⟨fun s hs => ⟨(h1 s hs).1, fun o ho => daqListedOKB_sound ((h1 s hs).2 o ho)⟩, h2, ?_⟩
  intro acts ha a haa x hx y hy
  unfold widthsAgreeB at h3
  rw [ha] at h3
  simp only [List.all_eq_true, decide_eq_true_eq] at h3
  exact h3 a haa x hx y hy

def objFitsDB (o : ObjEnc) : Bool :=
  C09Content.idxFitsB o.idx &&
  (match o.idx with
   | .full ty _ total => !decide (ty = tyString) || decide (total < 2 ^ 32)
   | _ => true) && decide (o.props.length < 2 ^ 32) && o.props.all C09Content.propFitsB

def fileFitsDB (e : FileEnc) : Bool := e.all fun s => decide (s.objs.length < 2 ^ 32) && s.objs.all objFitsDB

theorem fileFitsDB_sound {e : FileEnc} (h : fileFitsDB e = true) : FileFitsD e := by
  intro s hs
  simp only [fileFitsDB, List.all_eq_true, Bool.and_eq_true, decide_eq_true_eq] at h
  obtain ⟨h1, h2⟩ := h s hs
  refine ⟨h1, ?_⟩
  intro o ho
  have := h2 o ho
  simp only [objFitsDB, Bool.and_eq_true, decide_eq_true_eq, List.all_eq_true] at this
  obtain ⟨⟨⟨h3, h4⟩, h5⟩, h6⟩ := this
  refine ⟨C09Content.idxFitsB_sound h3, ?_, h5, fun p hp => C09Content.propFitsB_sound (h6 p hp)⟩
  intro n total hi
  rw [hi] at h4
  simpa using h4

def onlyChannelsHaveDataDB (e : FileEnc) : Bool :=
  match activeLists none [] e with
  | .ok acts => (e.zip acts).all fun sa =>
      ((sa.1.chunks.isEmpty && !sa.1.interleaved) ||
        sa.2.all fun x => !x.hasData || decide (countComponents x.path = 2)) &&
      sa.2.all fun x => !isDaqmxObj x || decide (countComponents x.path = 2)
  | .error _ => true

theorem onlyChannelsHaveDataDB_sound {e : FileEnc} (h : onlyChannelsHaveDataDB e = true) :
    onlyChannelsHaveDataD e := by
  intro acts ha sa hsa
  unfold onlyChannelsHaveDataDB at h
  rw [ha] at h
  simp only [List.all_eq_true, Bool.or_eq_true, Bool.and_eq_true, Bool.not_eq_true', decide_eq_true_eq] at h
  obtain ⟨h1, h2⟩ := h sa hsa
  refine ⟨?_, ?_⟩
  · intro hne x hx hd
    rcases h1 with h1 | h1
    · rcases hne with hne | hne
      · exact absurd (List.isEmpty_iff.mp h1.1) hne
      · rw [hne] at h1; cases h1.2
    · rcases h1 x hx with h1 | h1
      · rw [hd] at h1; cases h1
      · exact h1
  · intro x hx hq
    rcases h2 x hx with h2 | h2
    · rw [hq] at h2; cases h2
    · exact h2

/-- the composed theorem with every hypothesis as a Boolean check -/
theorem read_encode_multi_daqmx_checked (e : FileEnc) (h : multiStdDB e = true) (fit : fileFitsDB e = true)
    (hch : onlyChannelsHaveDataDB e = true) (bytes : Bytes) (hb : encodeFile e = .ok bytes)
    (hlen : bytes.length < 2 ^ 63) :
    ∃ r c, readFile bytes = .ok r ∧ denote e = .ok c ∧ contentD r = contentOfDenoteD c :=
  read_encode_multi_daqmx e (multiStdDB_sound h) (fileFitsDB_sound fit) (onlyChannelsHaveDataDB_sound hch) bytes hb hlen

/-! ## B.6 non-vacuity: DAQmx, contiguous and interleaved segments in one file -/

section ExampleB

/-- channel `a`: two format-changing scalers in TWO raw buffers, listed out of buffer order (Int16 at byte 0 of
    buffer 1, scale id 0; Int16 at byte 2 of buffer 0, scale id 1); buffer widths 8 and 2 -/
def dIdxA (n : Nat) : IdxEnc := .daqmx false 0xFFFFFFFF n [⟨3, 1, 0, 0, 0⟩, ⟨3, 0, 2, 0, 1⟩] [8, 2]
/-- channel `b`: two DIGITAL-LINE scalers in buffer 0 (bit 3 of byte 4, scale id 0; bit 1 of byte 5, id 5) -/
def dIdxB (n : Nat) : IdxEnc := .daqmx true 0xFFFFFFFF n [⟨0, 0, 35, 0, 0⟩, ⟨0, 0, 41, 0, 5⟩] [8, 2]

def exU : Bytes := [47, 39, 103, 39, 47, 39, 117, 39]            -- "/'g'/'u'"

/-- seven segments:
    0. DAQmx, little-endian: root, channels `a` and `b`, 2 values per chunk; 2 chunks of two buffers
       (2 rows of 8 bytes, 2 rows of 2 bytes);
    1. DAQmx, BIG-endian, incremental: `a` switched off, so buffer 1 is unused and empty; 1 chunk of `b`;
    2. standard contiguous, incremental: `b` switched off, new Int32 channel `s`; 1 chunk;
    3. no metadata (list of segment 2 reused); 1 chunk;
    4. DAQmx, new list: `b` "same as previous", `a` re-listed with the same scalers; 1 chunk;
    5. DAQmx, incremental: both re-listed with 1 value per chunk; 3 chunks;
    6. standard INTERLEAVED, new list: `s` and a new UInt16 channel `u`, 2 values each per chunk; 2 chunks. -/
def dFile : FileEnc := [
  { iSeg0 with
      daqmxFlag := true,
      objs := [⟨exRoot, .noData, []⟩, ⟨exA, dIdxA 2, [⟨[117], 0x20, [86]⟩]⟩, ⟨exB, dIdxB 2, []⟩],
      chunks := [[[[1, 2, 3, 4, 8, 2, 7, 8], [11, 12, 13, 14, 0, 0, 17, 18]], [[51, 52], [53, 54]]],
                 [[[21, 22, 23, 24, 255, 255, 27, 28], [31, 32, 33, 34, 8, 0, 37, 38]], [[55, 56], [57, 58]]]] },
  { iSeg0 with
      daqmxFlag := true, big := true, newList := false,
      objs := [⟨exA, .noData, []⟩],
      chunks := [[[[1, 2, 3, 4, 5, 6, 7, 8], [11, 12, 13, 14, 15, 16, 17, 18]], []]] },
  { iSeg0 with
      newList := false,
      objs := [⟨exB, .noData, []⟩, ⟨exS, .full 3 1 4, []⟩],
      chunks := [[[[1, 2, 3, 4]]]] },
  { iSeg0 with
      hasMeta := false, newList := false,
      chunks := [[[[1, 2, 3, 5]]]] },
  { iSeg0 with
      daqmxFlag := true,
      objs := [⟨exB, .matchesPrev, []⟩, ⟨exA, dIdxA 2, []⟩],
      chunks := [[[[1, 2, 3, 4, 5, 6, 7, 8], [1, 2, 3, 4, 5, 6, 7, 9]], [[61, 62], [63, 64]]]] },
  { iSeg0 with
      daqmxFlag := true, newList := false,
      objs := [⟨exA, dIdxA 1, []⟩, ⟨exB, dIdxB 1, []⟩],
      chunks := [[[[1, 2, 3, 4, 5, 6, 7, 8]], [[71, 72]]], [[[1, 2, 3, 4, 8, 2, 7, 8]], [[73, 74]]],
                 [[[9, 9, 9, 9, 9, 9, 9, 9]], [[75, 76]]]] },
  { iSeg0 with
      interleaved := true,
      objs := [⟨exS, .full 3 2 0, []⟩, ⟨exU, .full 6 2 4, []⟩],
      chunks := [[[[1, 0, 0, 0], [2, 0, 0, 0]], [[1, 1], [2, 2]]], [[[3, 0, 0, 0], [4, 0, 0, 0]], [[3, 3], [4, 4]]]] } ]

/-- the content both sides must produce -/
def dContent : List ObjViewD :=
  [ ⟨exRoot, none, [], [], []⟩,
    ⟨exA, some 0xFFFFFFFF, [⟨[117], 0x20, [86]⟩], [],
      [(0, [[51, 52], [53, 54], [55, 56], [57, 58], [61, 62], [63, 64], [71, 72], [73, 74], [75, 76]]),
       (1, [[3, 4], [13, 14], [23, 24], [33, 34], [3, 4], [3, 4], [3, 4], [3, 4], [9, 9]])]⟩,
    ⟨exB, some 0xFFFFFFFF, [], [],
      [(0, [[1], [0], [1], [1], [0], [1], [0], [0], [0], [1], [1]]),
       (5, [[1], [0], [1], [0], [1], [0], [1], [1], [1], [1], [0]])]⟩,
    ⟨exS, some 3, [], [[1, 2, 3, 4], [1, 2, 3, 5], [1, 0, 0, 0], [2, 0, 0, 0], [3, 0, 0, 0], [4, 0, 0, 0]], []⟩,
    ⟨exU, some 6, [], [[1, 1], [2, 2], [3, 3], [4, 4]], []⟩ ]

theorem dFile_read : ((encodeFile dFile).toOption.bind fun b => (readFile b).toOption.map contentD) =
    some dContent := by decide +kernel

theorem dFile_denote : (denote dFile).toOption.map contentOfDenoteD = some dContent := by decide +kernel

theorem dFile_length : (encodeFile dFile).toOption.map (·.length) = some 1001 := by decide +kernel

theorem dFile_std : MultiStdD dFile := multiStdDB_sound (by decide +kernel)

theorem dFile_fits : FileFitsD dFile := fileFitsDB_sound (by decide +kernel)

theorem dFile_channels : onlyChannelsHaveDataD dFile := onlyChannelsHaveDataDB_sound (by decide +kernel)

/-- what the example exercises -/
theorem dFile_features :
    (dFile.map (·.daqmxFlag)) = [true, true, false, false, true, true, false] ∧
    (dFile.map (·.interleaved)) = [false, false, false, false, false, false, true] ∧
    (dFile.map (·.big)) = [false, true, false, false, false, false, false] ∧
    (dFile.map (·.chunks.length)) = [2, 1, 1, 1, 1, 3, 2] ∧
    multiStdIB dFile = false := by decide +kernel

/-- the metadata the reader ends with for the two DAQmx channels: scaler types and value counts -/
theorem dFile_meta : ((encodeFile dFile).toOption.bind fun b => (readMetadata b).toOption.map fun st =>
      st.objects.map fun m => (m.scalerTypes, m.numValues)) =
    some [(none, 0), (some [(0, 2), (1, 2)], 9), (some [(0, 5), (5, 5)], 11), (none, 6), (none, 4)] := by
  decide +kernel

/-- the composed theorem applied to the example: its hypotheses are satisfiable -/
example : ∃ bytes r c, encodeFile dFile = .ok bytes ∧ readFile bytes = .ok r ∧ denote dFile = .ok c ∧
    contentD r = contentOfDenoteD c := by
  obtain ⟨acts, _, hb⟩ := encodeFile_multiD_bytes dFile dFile_std
  have hl := dFile_length
  rw [hb] at hl
  simp only [Except.toOption, Option.map_some, Option.some.injEq] at hl
  obtain ⟨r, c, h1, h2, h3⟩ := read_encode_multi_daqmx dFile dFile_std dFile_fits dFile_channels _ hb
    (by rw [hl]; decide)
  exact ⟨_, r, c, hb, h1, h2, h3⟩

/-! ### the hypotheses of the class are needed: model and spec differ outside it -/

def dSeg (objs : List ObjEnc) (chunks : List (List (List Bytes))) : SegEnc :=
  { iSeg0 with daqmxFlag := true, objs := objs, chunks := chunks }

def dOne (ty : Nat) (w : Nat) : IdxEnc := .daqmx false 0xFFFFFFFF 2 [⟨ty, 0, 0, 0, 0⟩] [w]

/-- agreement of reading and meaning, as a Boolean -/
def agreesD (e : FileEnc) : Bool :=
  ((encodeFile e).toOption.bind fun b => (readFile b).toOption.map contentD) ==
    (denote e).toOption.map contentOfDenoteD

/-- **`WidthsAgree`**: a DAQmx segment WITHOUT chunks whose channels declare different buffer widths is
    well-formed for the spec and has a meaning, but `read_metadata` raises (`get_buffer_dimensions`) -/
example : wellFormed [dSeg [⟨exA, dOne 3 8, []⟩, ⟨exB, dOne 3 4, []⟩] []] = true ∧
    widthsAgreeB [dSeg [⟨exA, dOne 3 8, []⟩, ⟨exB, dOne 3 4, []⟩] []] = false ∧
    ((encodeFile [dSeg [⟨exA, dOne 3 8, []⟩, ⟨exB, dOne 3 4, []⟩] []]).toOption.map fun b =>
      (readMetadata b).toOption.isNone) = some true ∧
    (denote [dSeg [⟨exA, dOne 3 8, []⟩, ⟨exB, dOne 3 4, []⟩] []]).toOption.isSome = true := by decide +kernel

/-- **stable scaler types**: a channel whose scaler type changes between segments is well-formed for the
    spec, the reader raises `scalerTypesChanged` -/
example : wellFormed [dSeg [⟨exA, dOne 3 8, []⟩] [], dSeg [⟨exA, dOne 5 8, []⟩] []] = true ∧
    multiStdDB [dSeg [⟨exA, dOne 3 8, []⟩] [], dSeg [⟨exA, dOne 5 8, []⟩] []] = false ∧
    ((encodeFile [dSeg [⟨exA, dOne 3 8, []⟩] [], dSeg [⟨exA, dOne 5 8, []⟩] []]).toOption.map fun b =>
      (readMetadata b).toOption.isNone) = some true := by decide +kernel

/-- **distinct scale ids**: with a repeated scale id the spec appends both value lists under the id, the
    reader keeps the last one -/
example : wellFormed [dSeg [⟨exA, .daqmx false 0xFFFFFFFF 1 [⟨3, 0, 0, 0, 0⟩, ⟨3, 0, 2, 0, 0⟩] [8], []⟩]
      [[[[1, 2, 3, 4, 5, 6, 7, 8]]]]] = true ∧
    agreesD [dSeg [⟨exA, .daqmx false 0xFFFFFFFF 1 [⟨3, 0, 0, 0, 0⟩, ⟨3, 0, 2, 0, 0⟩] [8], []⟩]
      [[[[1, 2, 3, 4, 5, 6, 7, 8]]]]] = false := by decide +kernel

/-- **DAQmx objects must be channels**: a DAQmx index on a group object (no chunk at all) is declared by the
    spec with one empty value list per scaler; the reader has no receiver for it -/
example : wellFormed [dSeg [⟨exGroup, dOne 3 8, []⟩] []] = true ∧
    onlyChannelsHaveDataB [dSeg [⟨exGroup, dOne 3 8, []⟩] []] = true ∧
    onlyChannelsHaveDataDB [dSeg [⟨exGroup, dOne 3 8, []⟩] []] = false ∧
    agreesD [dSeg [⟨exGroup, dOne 3 8, []⟩] []] = false := by decide +kernel

/-- **positive widths**: a declared buffer of width 0 that no scaler uses is fine for the spec (the buffer is
    empty), the reader raises (`read_interleaved_segment_bytes` with a zero width) -/
example : wellFormed [dSeg [⟨exA, .daqmx false 0xFFFFFFFF 1 [⟨3, 0, 0, 0, 0⟩] [4, 0], []⟩] [[[[1, 2, 3, 4]], []]]] = true ∧
    multiStdDB [dSeg [⟨exA, .daqmx false 0xFFFFFFFF 1 [⟨3, 0, 0, 0, 0⟩] [4, 0], []⟩] [[[[1, 2, 3, 4]], []]]] = false ∧
    ((encodeFile [dSeg [⟨exA, .daqmx false 0xFFFFFFFF 1 [⟨3, 0, 0, 0, 0⟩] [4, 0], []⟩] [[[[1, 2, 3, 4]], []]]]).toOption.map
      fun b => (readFile b).toOption.isNone) = some true ∧
    agreesD [dSeg [⟨exA, .daqmx false 0xFFFFFFFF 1 [⟨3, 0, 0, 0, 0⟩] [4, 2], []⟩] [[[[1, 2, 3, 4]], []]]] = true := by
  decide +kernel

/-- outside the class but fine on this instance (`#eval`-tested, not proved): a typed DAQmx channel (one scaler,
    data type of the scaler — its values go to the plain value list) -/
example : agreesD [dSeg [⟨exA, .daqmx false 2 1 [⟨3, 0, 0, 0, 0⟩] [8], []⟩] [[[[1, 2, 3, 4, 5, 6, 7, 8]]]]] = true := by
  decide +kernel

end ExampleB

end Tdms.Proofs.C01Layouts
