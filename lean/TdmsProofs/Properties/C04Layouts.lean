import TdmsProofs.Lemmas.C04LayoutsMain
import TdmsProofs.Lemmas.C04WholeSlice
import TdmsProofs.Properties.C01Layouts
import TdmsProofs.Properties.C03Mixed
import TdmsProofs.Properties.C04Whole
import TdmsProofs.Properties.C05

/-!
# C04 / C03 on whole ENCODED files mixing contiguous and INTERLEAVED segments

`Properties/C04Whole.lean` proves `read_data(offset, length)` on `openFile (encodeFile e)` =
`(values of denote e)[offset : offset+length]` for contiguous encodings (class `MultiStd`).  Here the same —
and slices, integer indices (one-chunk cache, any history), `channel.data_chunks()`, `len(channel)` — for the
class `MultiStdI` of `Properties/C01Layouts.lean`: every segment contiguous OR interleaved, both byte orders,
incremental object lists, segments without metadata, string channels in contiguous segments.

Composition of
* `C03Mixed` (every lazy path on a file whose segment table satisfies `SegsMixedWinWf` returns the
  corresponding part of the eager values `eagerW`),
* `invariants_hold_encoded_interleaved` (NEW: the invariant `SegsMixedWinWf` and `ChanOk` are DERIVED for the
  segment table `readMetadata` builds on the encoding — every contiguous chunk is exact
  (`Lemmas/C04LayoutsSeg.lean`, fixed-width and string channels), every interleaved segment has fixed-width
  objects with `data_size = number_values · size`, its one read succeeds, no override),
* `eagerW = values of denote` (`Lemmas/C04LayoutsVals.lean`: the eager chunk stream of the encoding is
  `rawChunksAllI`, whose per-path concatenation is the per-path concatenation of `denote`'s pairs).

`readFile` is never run: no hypothesis "only channels carry data" is needed for the lazy paths (it is needed
only for `lazy_window_eq_eager_slice_interleaved`, which mentions `readFile`).  Core Lean only (no Mathlib).
-/

namespace Tdms.Proofs.C04Layouts

open Tdms Tdms.Generated Tdms.Model Tdms.Proofs.C01Multi Tdms.Proofs.C01Layouts Tdms.Proofs.C03 Tdms.Proofs.C04
open Tdms.Proofs.C01Compose (content contentOfDenote ObjView valuesIn)

/-! ## 1. the invariants of `C03Mixed`, derived -/

/-- **`SegsMixedWinWf` and `ChanOk` hold for `readMetadata (encodeFile e)`**, `e` any file of the class
    `MultiStdI` (contiguous and interleaved segments): the reader state has the segment table
    `segRecsC 0 e acts` (C01Layouts), and for every path of `denote e` the eager values of `C03Mixed`
    (`eagerW`: per segment what the eager reader holds) are the values `denote` assigns. -/
theorem invariants_hold_encoded_interleaved (e : FileEnc) (h : MultiStdI e) (fit : FileFits e) (bytes : Bytes)
    (hb : encodeFile e = .ok bytes) (hlen : bytes.length < 2 ^ 63) :
    ∃ st acts c, readMetadata bytes = .ok st ∧ activeLists none [] e = .ok acts ∧ denote e = .ok c ∧
      st.segments = segRecsC 0 e acts ∧
      SegsMixedWinWf bytes st.segments ∧
      (∀ p m, st.objects.get p = some m → ChanOk st.objects st.segments p m) ∧
      (∀ oc ∈ c, eagerW bytes st.segments oc.path = oc.values) ∧
      (∀ s ∈ st.segments, s.override = none ∧ dataReaderKind s ≠ .ok .daqmx) := by
  obtain ⟨f, acts, c, H⟩ := openFile_encodedI e h fit bytes hb hlen
  have hopen := H.opens
  unfold openFile at hopen
  cases hr : readMetadata bytes with
  | error err => rw [hr] at hopen; cases hopen
  | ok st =>
    rw [hr] at hopen
    simp only [bind, Except.bind, pure, Except.pure, Except.ok.injEq] at hopen
    subst hopen
    exact ⟨st, acts, c, rfl, H.hacts, H.meaning, H.segs, H.wok, H.chan, H.vals,
      fun s hs => ⟨H.noOverride s hs, H.noDaqmx s hs⟩⟩

/-! ## 2. windows, slices, indices, iteration, `len(channel)` -/

/-- **`read_data(offset, length)` on the lazily opened encoded file = `(values of denote e)[offset : offset+length]`**,
    for every object of `denote e` that has a data type, every `offset ≥ 0`, every `length` (`none` or `≥ 0`,
    also beyond the end), from any file state — on files mixing contiguous and interleaved segments. -/
theorem lazy_window_eq_denote_slice_interleaved (e : FileEnc) (h : MultiStdI e) (fit : FileFits e) (bytes : Bytes)
    (hb : encodeFile e = .ok bytes) (hlen : bytes.length < 2 ^ 63) :
    ∃ f c, openFile bytes = .ok f ∧ denote e = .ok c ∧
      ∀ oc ∈ c, oc.ty.isSome = true → ∀ (offset : Int) (length : Option Int), 0 ≤ offset →
        (∀ l, length = some l → 0 ≤ l) → ∀ st : FState,
          ∃ st' r, (channelReadData f oc.path offset length).run st = .ok (some r, st') ∧
            r.data.getD [] = takeOpt length (oc.values.drop offset.toNat) := by
  obtain ⟨f, acts, c, H⟩ := openFile_encodedI e h fit bytes hb hlen
  exact ⟨f, c, H.opens, H.meaning, fun oc hoc hty => H.window hoc hty⟩

/-- the generator `read_raw_data_for_channel(path, offset, length)`: the chunks it yields (one per contiguous
    chunk, ONE per interleaved segment), concatenated, are the window — for every object of `denote e` -/
theorem lazy_channel_chunks_eq_denote_slice_interleaved (e : FileEnc) (h : MultiStdI e) (fit : FileFits e)
    (bytes : Bytes) (hb : encodeFile e = .ok bytes) (hlen : bytes.length < 2 ^ 63) :
    ∃ f c, openFile bytes = .ok f ∧ denote e = .ok c ∧
      ∀ oc ∈ c, ∀ (offset : Int) (length : Option Int), 0 ≤ offset → (∀ l, length = some l → 0 ≤ l) →
        ∀ st : FState, ∃ cs st', (readRawDataForChannel f oc.path offset length).run st = .ok (cs, st') ∧
          dataOf cs = takeOpt length (oc.values.drop offset.toNat) := by
  obtain ⟨f, acts, c, H⟩ := openFile_encodedI e h fit bytes hb hlen
  exact ⟨f, c, H.opens, H.meaning, fun oc hoc => H.chunks hoc⟩

/-- the remaining cases of `read_data`: an object without data type yields the empty result without touching
    the file; a path `denote` does not list raises -/
theorem lazy_read_other_objects_interleaved (e : FileEnc) (h : MultiStdI e) (fit : FileFits e) (bytes : Bytes)
    (hb : encodeFile e = .ok bytes) (hlen : bytes.length < 2 ^ 63) :
    ∃ f c, openFile bytes = .ok f ∧ denote e = .ok c ∧
      (∀ oc ∈ c, oc.ty = none → ∀ offset length (st : FState),
        (channelReadData f oc.path offset length).run st = .ok (none, st)) ∧
      (∀ p, p ∉ c.map (·.path) → ∀ offset length (st : FState),
        (channelReadData f p offset length).run st = .error .other) := by
  obtain ⟨f, acts, c, H⟩ := openFile_encodedI e h fit bytes hb hlen
  refine ⟨f, c, H.opens, H.meaning, ?_, ?_⟩
  · intro oc hoc hty offset length st
    unfold channelReadData
    rw [H.get hoc]
    simp only [mOC, hty, Option.isNone_none, if_true]
    rfl
  · intro p hp offset length st
    unfold channelReadData
    rw [H.get_none hp]
    rfl

/-- **`channel[a:b:c]` on the lazily opened encoded file = CPython's `(values of denote e)[a:b:c]`**
    (`ValueError` ↦ `stepZero`), for all `a b c : Option Int`, from any file state. -/
theorem lazy_slice_eq_denote_pySlice_interleaved (e : FileEnc) (h : MultiStdI e) (fit : FileFits e) (bytes : Bytes)
    (hb : encodeFile e = .ok bytes) (hlen : bytes.length < 2 ^ 63) :
    ∃ f c, openFile bytes = .ok f ∧ denote e = .ok c ∧
      ∀ oc ∈ c, oc.ty.isSome = true → ∀ (a b s : Option Int) (st : FState),
        match Tdms.Spec.PySlice.pySlice oc.values a b s with
        | .error _ => (channelReadSlice f oc.path a b s).run st = .error .stepZero
        | .ok xs => ∃ st', (channelReadSlice f oc.path a b s).run st = .ok (xs, st') := by
  obtain ⟨f, acts, c, H⟩ := openFile_encodedI e h fit bytes hb hlen
  exact ⟨f, c, H.opens, H.meaning, fun oc hoc hty => H.slice hoc hty⟩

/-- **`channel[i]` on the lazily opened encoded file, after ANY history of operations, = CPython's
    `(values of denote e)[i]`** (`IndexError` ↦ `indexError`), for every object of `denote e`: C05's
    `index_history_independent` (its hypothesis `IndexWF` derived here: distinct paths, no DAQmx reader, no
    override) composed with `C03Mixed`'s index theorem on the fresh file. -/
theorem lazy_index_eq_denote_interleaved (e : FileEnc) (h : MultiStdI e) (fit : FileFits e) (bytes : Bytes)
    (hb : encodeFile e = .ok bytes) (hlen : bytes.length < 2 ^ 63) :
    ∃ f c, openFile bytes = .ok f ∧ denote e = .ok c ∧
      ∀ oc ∈ c, ∀ (ops : List Op) (i : Int),
        (step f (Tdms.Proofs.C05.run f {} ops) (.index oc.path i)).2 =
          match Tdms.Spec.PySlice.pyIndex oc.values.length i with
          | some j => .value (oc.values.getD j [])
          | none => .error .indexError := by
  obtain ⟨f, acts, c, H⟩ := openFile_encodedI e h fit bytes hb hlen
  refine ⟨f, c, H.opens, H.meaning, ?_⟩
  intro oc hoc ops i
  rw [Tdms.Proofs.C05.index_history_independent f H.indexWF ops oc.path i]
  exact H.index_fresh hoc i

/-- the same operation with the one-chunk cache made explicit: from ANY cache consistent with the values and
    any file state, `channel[i]` for `-n ≤ i < n` returns `values[i mod n]` and leaves a consistent cache; and
    reading the indices `i0, …, i0+k-1` in turn returns `values[i0 : i0+k]` -/
theorem lazy_index_cache_eq_denote_interleaved (e : FileEnc) (h : MultiStdI e) (fit : FileFits e) (bytes : Bytes)
    (hb : encodeFile e = .ok bytes) (hlen : bytes.length < 2 ^ 63) :
    ∃ f c, openFile bytes = .ok f ∧ denote e = .ok c ∧
      ∀ oc ∈ c, ∀ (cache : Option ChunkCache), CacheOk? oc.values cache → ∀ st : FState,
        (∀ (i : Int), -(oc.values.length : Int) ≤ i ∧ i < oc.values.length →
          ∃ v cache' st', (channelReadAtIndex f oc.path cache i).run st = .ok ((v, cache'), st') ∧
            oc.values[(i % (oc.values.length : Int)).toNat]? = some v ∧ CacheOk? oc.values cache') ∧
        (∀ (k i0 : Nat), i0 + k ≤ oc.values.length →
          ∃ cache' st', (indexScan f oc.path k i0 cache).run st = .ok (((oc.values.drop i0).take k, cache'), st') ∧
            CacheOk? oc.values cache') := by
  obtain ⟨f, acts, c, H⟩ := openFile_encodedI e h fit bytes hb hlen
  refine ⟨f, c, H.opens, H.meaning, ?_⟩
  intro oc hoc cache hcache st
  exact ⟨fun i hi => H.index hoc cache hcache i hi st, fun k i0 hle => H.scan hoc k i0 cache hcache hle st⟩

/-- **`channel.data_chunks()` / iteration over a channel**: consumed to the end (enough fuel), the chunks
    concatenate to the values of `denote e`, and the offset reported with each chunk is the number of values
    delivered before it -/
theorem lazy_data_chunks_eq_denote_interleaved (e : FileEnc) (h : MultiStdI e) (fit : FileFits e) (bytes : Bytes)
    (hb : encodeFile e = .ok bytes) (hlen : bytes.length < 2 ^ 63) :
    ∃ f c, openFile bytes = .ok f ∧ denote e = .ok c ∧
      ∀ oc ∈ c, ∃ N, ∀ n st, N ≤ n →
        ∃ out st', (chanIterAll f n (newChanIter f oc.path)).run st = .ok (out, st') ∧
          dataOf (out.map (·.1)) = oc.values ∧
          ∀ j x, out[j]? = some x → x.2 = (dataOf ((out.take j).map (·.1))).length := by
  obtain ⟨f, acts, c, H⟩ := openFile_encodedI e h fit bytes hb hlen
  exact ⟨f, c, H.opens, H.meaning, fun oc hoc => H.iter hoc⟩

/-- **`len(channel)`** (`object_metadata[path].num_values`, what `__len__` returns and every index / slice is
    normalised with) is the number of values `denote e` assigns — for every object of `denote e`; a path
    `denote e` does not list has no metadata entry. -/
theorem lazy_len_eq_denote_interleaved (e : FileEnc) (h : MultiStdI e) (fit : FileFits e) (bytes : Bytes)
    (hb : encodeFile e = .ok bytes) (hlen : bytes.length < 2 ^ 63) :
    ∃ f c, openFile bytes = .ok f ∧ denote e = .ok c ∧
      (∀ oc ∈ c, (f.objects.get oc.path).map (·.numValues) = some oc.values.length ∧
        Tdms.Proofs.C05.chanLen f oc.path = oc.values.length) ∧
      (∀ p, p ∉ c.map (·.path) → f.objects.get p = none) := by
  obtain ⟨f, acts, c, H⟩ := openFile_encodedI e h fit bytes hb hlen
  refine ⟨f, c, H.opens, H.meaning, ?_, fun p hp => H.get_none hp⟩
  intro oc hoc
  exact ⟨by rw [H.get hoc]; rfl, H.chanLen hoc⟩

/-- **lazy = eager** on the encoded file: every window read is the corresponding slice of what
    `TdmsFile.read` (`readFile`, `read_encode_multi_interleaved`) holds for the channel -/
theorem lazy_window_eq_eager_slice_interleaved (e : FileEnc) (h : MultiStdI e) (fit : FileFits e)
    (hch : onlyChannelsHaveDataI e) (bytes : Bytes) (hb : encodeFile e = .ok bytes)
    (hlen : bytes.length < 2 ^ 63) :
    ∃ f r, openFile bytes = .ok f ∧ readFile bytes = .ok r ∧
      ∀ v ∈ content r, v.dataType.isSome = true → ∀ (offset : Int) (length : Option Int), 0 ≤ offset →
        (∀ l, length = some l → 0 ≤ l) → ∀ st : FState,
          ∃ st' out, (channelReadData f v.path offset length).run st = .ok (some out, st') ∧
            out.data.getD [] = takeOpt length (v.values.drop offset.toNat) := by
  obtain ⟨f, c, h1, h2, h3⟩ := lazy_window_eq_denote_slice_interleaved e h fit bytes hb hlen
  obtain ⟨r, c', hr, hc', hcont⟩ := read_encode_multi_interleaved e h fit hch bytes hb hlen
  rw [h2] at hc'
  cases hc'
  refine ⟨f, r, h1, hr, ?_⟩
  intro v hv hty
  rw [hcont] at hv
  obtain ⟨oc, hoc, rfl⟩ := List.mem_map.1 hv
  exact h3 oc hoc hty

/-! ## 3. non-vacuity: C01Layouts' `iFile`

Three segments, 358 bytes: contiguous little-endian (Int32 `a`, UInt16 `b`, string `s`, padding 1) →
INTERLEAVED BIG-endian, incremental list (`b` re-indexed to 2 values per chunk, `s` off; 2 chunks) →
INTERLEAVED little-endian without metadata (1 chunk). -/

/-- the hypotheses of the headline theorems hold for `iFile` (and it is outside the class of `C04Whole`) -/
example : MultiStdI iFile ∧ FileFits iFile ∧ onlyChannelsHaveDataI iFile ∧ multiStdB iFile = false :=
  ⟨iFile_std, iFile_fits, iFile_channels, iFile_features.2.2.2.2⟩

/-- the entry of `denote iFile` for channel `b` -/
theorem iFile_denote_b (c : Content) (h2 : denote iFile = .ok c) :
    ∃ oc ∈ c, oc.path = C01Multi.exB ∧ oc.ty = some 6 ∧
      oc.values = [[7, 8], [1, 2], [3, 4], [5, 6], [7, 8], [9, 9], [8, 8]] := by
  have hd := iFile_denote
  simp only [h2, Except.toOption, Option.map_some, Option.some.injEq] at hd
  have hmem : (⟨C01Multi.exB, some 6, [], [[7, 8], [1, 2], [3, 4], [5, 6], [7, 8], [9, 9], [8, 8]]⟩ : ObjView) ∈
      contentOfDenote c := by rw [hd]; decide
  obtain ⟨oc, hoc, hv⟩ := List.mem_map.1 hmem
  simp only [ObjView.mk.injEq] at hv
  exact ⟨oc, hoc, hv.1, hv.2.1, hv.2.2.2⟩

theorem iFile_bytes : ∃ bytes, encodeFile iFile = .ok bytes ∧ bytes.length < 2 ^ 63 := by
  obtain ⟨acts, _, hb⟩ := encodeFile_multiI_bytes iFile iFile_std
  have hl := iFile_length
  rw [hb] at hl
  simp only [Except.toOption, Option.map_some, Option.some.injEq] at hl
  exact ⟨_, hb, by rw [hl]; decide⟩

/-- the window theorem applied to channel `b` of `iFile`: the window `(0, 6)` starts in the contiguous
    segment, crosses both chunks of the big-endian interleaved segment and ends inside the last
    (little-endian, metadata-less) interleaved segment — from ANY file state -/
example : ∃ bytes f, encodeFile iFile = .ok bytes ∧ openFile bytes = .ok f ∧ ∀ st : FState, ∃ st' r,
    (channelReadData f C01Multi.exB 0 (some 6)).run st = .ok (some r, st') ∧
      r.data.getD [] = [[7, 8], [1, 2], [3, 4], [5, 6], [7, 8], [9, 9]] := by
  obtain ⟨bytes, hb, hl⟩ := iFile_bytes
  obtain ⟨f, c, h1, h2, h3⟩ := lazy_window_eq_denote_slice_interleaved iFile iFile_std iFile_fits _ hb hl
  obtain ⟨oc, hoc, hp, hty, hvals⟩ := iFile_denote_b c h2
  refine ⟨_, f, hb, h1, ?_⟩
  intro st
  obtain ⟨st', r, hrun, hr⟩ := h3 oc hoc (by rw [hty]; rfl) 0 (some 6) (by decide)
    (by intro l hl'; cases hl'; decide) st
  rw [hp] at hrun
  refine ⟨st', r, hrun, ?_⟩
  rw [hr, hvals]
  decide

/-- the slice theorem applied: `b[::-3]` -/
example : ∃ bytes f, encodeFile iFile = .ok bytes ∧ openFile bytes = .ok f ∧ ∀ st : FState, ∃ st',
    (channelReadSlice f C01Multi.exB none none (some (-3))).run st = .ok ([[8, 8], [5, 6], [7, 8]], st') := by
  obtain ⟨bytes, hb, hl⟩ := iFile_bytes
  obtain ⟨f, c, h1, h2, h3⟩ := lazy_slice_eq_denote_pySlice_interleaved iFile iFile_std iFile_fits _ hb hl
  obtain ⟨oc, hoc, hp, hty, hvals⟩ := iFile_denote_b c h2
  refine ⟨_, f, hb, h1, ?_⟩
  intro st
  have := h3 oc hoc (by rw [hty]; rfl) none none (some (-3)) st
  rw [hvals, hp] at this
  exact this

/-- the index theorem applied: `b[-2]` after a history of a window read, an index read that fills the cache
    elsewhere and a slice of another channel -/
example : ∃ bytes f, encodeFile iFile = .ok bytes ∧ openFile bytes = .ok f ∧
    (step f (Tdms.Proofs.C05.run f {} [.read C01Multi.exA 1 (some 3), .index C01Multi.exB 0, .slice C01Multi.exS none none none])
      (.index C01Multi.exB (-2))).2 = .value [9, 9] := by
  obtain ⟨bytes, hb, hl⟩ := iFile_bytes
  obtain ⟨f, c, h1, h2, h3⟩ := lazy_index_eq_denote_interleaved iFile iFile_std iFile_fits _ hb hl
  obtain ⟨oc, hoc, hp, hty, hvals⟩ := iFile_denote_b c h2
  refine ⟨_, f, hb, h1, ?_⟩
  have := h3 oc hoc [.read C01Multi.exA 1 (some 3), .index C01Multi.exB 0, .slice C01Multi.exS none none none] (-2)
  rw [hvals, hp] at this
  rw [this]
  decide

/-- `len(b) = 7` on the lazily opened `iFile` -/
example : ∃ bytes f, encodeFile iFile = .ok bytes ∧ openFile bytes = .ok f ∧ Tdms.Proofs.C05.chanLen f C01Multi.exB = 7 := by
  obtain ⟨bytes, hb, hl⟩ := iFile_bytes
  obtain ⟨f, c, h1, h2, h3, _⟩ := lazy_len_eq_denote_interleaved iFile iFile_std iFile_fits _ hb hl
  obtain ⟨oc, hoc, hp, hty, hvals⟩ := iFile_denote_b c h2
  refine ⟨_, f, hb, h1, ?_⟩
  have := (h3 oc hoc).2
  rw [hvals, hp] at this
  exact this

/-- cross-check by evaluation of the model (fresh file state): all windows of all objects of `denote iFile`
    with `offset ≤ 9`, `length ∈ {none, 0, …, 9}` agree with `denote` (440 windows; the root has no data type
    and yields `none`) -/
example : (match encodeFile iFile, denote iFile with
    | .ok b, .ok c =>
      match openFile b with
      | .ok f => c.all fun oc =>
          (List.range 10).all fun (off : Nat) =>
            ((none : Option Int) :: (List.range 10).map fun (n : Nat) => some (n : Int)).all fun len =>
              match (channelReadData f oc.path off len).run {} with
              | .ok (some r, _) => r.data.getD [] == takeOpt len (oc.values.drop off)
              | .ok (none, _) => oc.ty.isNone
              | .error _ => false
      | .error _ => false
    | _, _ => false) = true := by decide +kernel

/-- the invariant theorem applied to `iFile`, and its conclusion re-checked by the executable checker of
    `C03Mixed` on the bytes -/
example : ∃ bytes st, encodeFile iFile = .ok bytes ∧ readMetadata bytes = .ok st ∧
    SegsMixedWinWf bytes st.segments ∧ st.segments.length = 3 := by
  obtain ⟨bytes, hb, hl⟩ := iFile_bytes
  obtain ⟨st, acts, c, h1, h2, _, h4, h5, _⟩ := invariants_hold_encoded_interleaved iFile iFile_std iFile_fits _ hb hl
  refine ⟨bytes, st, hb, h1, h5, ?_⟩
  have : ((activeLists none [] iFile).toOption.map fun acts => (segRecsC 0 iFile acts).length) = some 3 := by
    decide +kernel
  rw [h2] at this
  rw [h4]
  simpa [Except.toOption] using this

example : ((encodeFile iFile).toOption.bind fun b => (openFile b).toOption.map fun f =>
    (segsWOkB f.file f.segments, f.segments.map fun s => (s.numChunks, hasFlag s.toc kTocInterleavedData))) =
    some (true, [(1, false), (2, true), (1, true)]) := by decide +kernel

end Tdms.Proofs.C04Layouts
