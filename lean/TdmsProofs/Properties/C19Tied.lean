import TdmsProofs.Lemmas.TiedC19

/-!
# C19 (tied): the GENERATED `TdmsChannel._read_at_index` and `TdmsReader.read_channel_chunk_for_index`
equal the model  (`TdmsChannel._read_slice`: see `C04SliceTied.lean`)

`Tdms.Generated.Code.*` is regenerated from the Python source of npTDMS; the theorems below say that
these definitions are the model functions of `Tdms/Model/Lazy.lean` (`channelReadAtIndex`,
`readChannelChunkForIndex`) through the representation mapping of
`TdmsProofs/Lemmas/TiedRepr.lean` and `TdmsProofs/Lemmas/TiedC19.lean`.  A semantic change of the Python
source (a flipped comparison, a dropped `- 1`, `//` → `/`, `side='right'` → `'left'`, swapped operands)
regenerates a different definition and these proofs stop compiling.

Every `theorem` of this file is a registered proof obligation; helper lemmas are in
`TdmsProofs/Lemmas/TiedC19.lean`.
-/

namespace Tdms.Proofs.C19Tied
open Tdms Tdms.Model Tdms.Generated Tdms.Generated.Code Tdms.Proofs.Tied Tdms.Proofs.TiedC19 Tdms.Proofs.C04

/-! ## `TdmsChannel._read_at_index` (`nptdms/tdms.py`) = `channelReadAtIndex`

Representation: `Value := Bytes`, `Chunk := ChanChunk`;
* the channel object is `pyChanC len b0 cache`: `_length = len`, and the one-chunk cache
  `some ⟨lo, hi, vals⟩` is `_cached_chunk = vals`, `_cached_chunk_bounds = (lo, hi)`; `none` is
  `_cached_chunk = None` (`_cached_chunk_bounds = b0` is then arbitrary, it is never read);
* `self._reader.read_channel_chunk_for_index(self.path, i)` is the model's `readChannelChunkForIndex f p i`
  RUN at the file state `σ`; a model error `e` is the Python exception `nm e`, for ANY naming `nm` of the
  model errors with `nm .indexError = "IndexError"`;
* `self._scale_data(chunk)` is the raw values of the chunk (`chunk.data`, `[]` when absent);
* the generated definition returns `(value, self')` (the method assigns `self._cached_chunk…`): `self'` is
  the channel object holding the model's new cache.  The model's new file state is not observable on the
  Python side of this function; it is characterised by `_read_at_index_model_run`.

Hypothesis `hwf`: a cache `⟨lo, hi, vals⟩` has `hi ≤ lo + len(vals)` (the model reads a cache hit with
`getD … []`, Python with `vals[i - lo]`; they differ on a cache whose bounds exceed its values).  It holds
for the empty cache and is preserved (`_read_at_index_cache_wf`): every cache built here has
`hi = lo + len(vals)`. -/

theorem _read_at_index_tied (f : OpenFile) (p : Bytes) (cache : Option ChunkCache) (index : Int)
    (σ : FState) (nm : Err → Py.Exc) (hnm : nm .indexError = "IndexError") (b0 : Int × Int)
    (hwf : ∀ c, cache = some c → c.hi ≤ c.lo + c.vals.length) :
    TdmsChannel._read_at_index (Value := Bytes) (Chunk := ChanChunk)
        (fun i => match (readChannelChunkForIndex f p i.toNat).run σ with
          | .ok ((c, off), _) => .ok (c, (off : Int))
          | .error e => .error (nm e))
        (fun c => .ok (c.data.getD []))
        (pyChanC (((f.objects.get p).map (·.numValues)).getD 0 : Nat) b0 cache) index
      = match (channelReadAtIndex f p cache index).run σ with
        | .ok ((v, cache'), _) =>
          .ok (v, pyChanC (((f.objects.get p).map (·.numValues)).getD 0 : Nat) b0 cache')
        | .error e => .error (nm e) := by
  have h := read_at_index_tied' f p cache index σ nm hnm (pyChanC (chanLen f p) b0 cache)
    (by cases cache <;> rfl) (by cases cache <;> simp [CacheRepr, pyChanC]) hwf
  rw [channelReadAtIndex_run]
  refine Eq.trans h ?_
  cases hr : atIndexRun f p cache index σ with
  | error e => rfl
  | ok r =>
    obtain ⟨⟨v, cache'⟩, σ'⟩ := r
    have hc : cache' = cache ∨ ∃ c, cache' = some c := by
      rcases atIndexRun_cache f p cache index σ σ' v cache' hr with ⟨h1, _⟩ | ⟨_, _, _, _, h2⟩
      · exact Or.inl h1
      · exact Or.inr ⟨_, h2⟩
    show Except.ok (v, setCache _ cache') = Except.ok (v, pyChanC (chanLen f p) b0 cache')
    rw [setCache_pyChanC _ _ _ _ hc]

/-- The same for an ARBITRARY channel object `self` that holds the cache (`CacheRepr`): the object returned
    is `self` with the new cache assigned (`setCache`). -/
theorem _read_at_index_tied_self (f : OpenFile) (p : Bytes) (cache : Option ChunkCache) (index : Int)
    (σ : FState) (nm : Err → Py.Exc) (hnm : nm .indexError = "IndexError") (self : TdmsChannel Bytes)
    (hlen : self._length = (((f.objects.get p).map (·.numValues)).getD 0 : Nat))
    (hrepr : CacheRepr self cache)
    (hwf : ∀ c, cache = some c → c.hi ≤ c.lo + c.vals.length) :
    TdmsChannel._read_at_index (pyReadChunk f p σ nm) pyScale self index
      = match (channelReadAtIndex f p cache index).run σ with
        | .ok ((v, cache'), _) => .ok (v, setCache self cache')
        | .error e => .error (nm e) := by
  rw [read_at_index_tied' f p cache index σ nm hnm self hlen hrepr hwf, channelReadAtIndex_run]
  cases atIndexRun f p cache index σ with
  | error e => rfl
  | ok r => obtain ⟨⟨v, cache'⟩, σ'⟩ := r; rfl

/-- The model side in closed form: `channelReadAtIndex` run at `σ` either fails the bounds check
    (`.indexError`), or hits the cache (value `vals[i - lo]`, cache and file state unchanged), or runs
    `readChannelChunkForIndex f p i` at `σ` — whose file state is the new file state — and returns element
    `i - off` of the chunk with the new cache `⟨off, off + len(chunk), chunk⟩`. -/
theorem _read_at_index_model_run (f : OpenFile) (p : Bytes) (cache : Option ChunkCache) (index : Int)
    (σ : FState) :
    (channelReadAtIndex f p cache index).run σ =
      match indexRequest (((f.objects.get p).map (·.numValues)).getD 0 : Nat) index with
      | .error e => .error e
      | .ok i =>
        let miss : Except Err ((Bytes × Option ChunkCache) × FState) :=
          match (readChannelChunkForIndex f p i).run σ with
          | .error e => .error e
          | .ok ((chunk, off), σ') =>
            match (chunk.data.getD [])[i - off]? with
            | some v => .ok ((v, some ⟨off, off + (chunk.data.getD []).length, chunk.data.getD []⟩), σ')
            | none => .error .indexError
        match cache with
        | some c => if c.lo ≤ i ∧ i < c.hi then .ok ((c.vals.getD (i - c.lo) [], cache), σ) else miss
        | none => miss := by
  rw [channelReadAtIndex_run]
  unfold atIndexRun chanLen
  cases indexRequest _ index with
  | error e => rfl
  | ok i =>
    cases cache with
    | none => rfl
    | some c => rfl

/-- the cache hypothesis of `_read_at_index_tied` is an invariant of `channelReadAtIndex` -/
theorem _read_at_index_cache_wf (f : OpenFile) (p : Bytes) (cache : Option ChunkCache) (index : Int)
    (σ σ' : FState) (v : Bytes) (cache' : Option ChunkCache)
    (h : (channelReadAtIndex f p cache index).run σ = .ok ((v, cache'), σ'))
    (hwf : ∀ c, cache = some c → c.hi ≤ c.lo + c.vals.length) :
    ∀ c, cache' = some c → c.hi ≤ c.lo + c.vals.length := by
  rw [channelReadAtIndex_run] at h
  exact atIndexRun_cache_wf f p cache index σ σ' v cache' h hwf

/-- the generated `_read_at_index` raises `IndexError` exactly when the model's bounds check fails
    (for arbitrary `read_chunk_for_index`, `scale_data`, `self` the bounds check comes first) -/
theorem _read_at_index_out_of_range {Value Chunk : Type}
    (read_chunk_for_index : Int → Except Py.Exc (Chunk × Int)) (scale_data : Chunk → Except Py.Exc (List Value))
    (self : TdmsChannel Value) (index : Int) (h : indexRequest self._length index = .error .indexError) :
    TdmsChannel._read_at_index read_chunk_for_index scale_data self index = .error "IndexError" := by
  unfold TdmsChannel._read_at_index
  unfold indexRequest at h
  simp only [] at h ⊢
  generalize (if index < 0 then self._length + index else index) = i at h ⊢
  by_cases hc : i < 0 ∨ i ≥ self._length
  · rw [if_pos hc]; rfl
  · rw [if_neg hc] at h; cases h

/-! ## `TdmsReader.read_channel_chunk_for_index` (`nptdms/reader.py`) = `readChannelChunkForIndex`

Both sides are factored through the pure plan `chunkPlan segs p index` (`TiedC19.lean`):
`.ok (segment, chunk_index, chunk_offset)`, or the Python exception raised before anything is read:

* `"IndexError"` — `self._segments[segment_index]` with
  `segment_index = first_segment + searchsorted(offsets, index, side='right') ≥ len(self._segments)`
  (`_read_chunk_plan_IndexError_iff`; `segment_index ≥ 0`, so Python's negative-index wrap never applies);
* `"ZeroDivisionError"` — `index_in_segment // chunk_size` where the channel has no object, or an object
  with `number_values = 0`, in the selected segment.

The model maps both to `.other`.  Representation: `self._segments = segs.map pySeg`; `_channel_index(path)` is
`buildIndex segs path` with `Int` casts (`pyChannelIndex`); `segment.get_segment_object` is `pyGetSegObj`
(the LAST object of `ordered_objects` with that path; `_read_chunk_get_segment_object`);
`segment.read_raw_data_for_channel(path, chunk_index, 1)` is an ARBITRARY `seg_read`;
`_ensure_open` and `_verify_segment_start` are arbitrary too, which fixes the evaluation order: the plan's
exception comes before `_verify_segment_start`.  Condition on `index`: it is a natural number (`index ≥ 0`
at the only call site, `_read_at_index`, after the bounds check); for a negative `index` Python would compute
a negative `chunk_index` and the model (`Nat`) has no counterpart. -/

theorem read_channel_chunk_for_index_tied {Chunk : Type} (ensure_open : Except Py.Exc Unit)
    (verify_segment_start : TdmsSegment → Except Py.Exc Unit)
    (seg_read : TdmsSegment → Py.Path → Int → Int → List Chunk)
    (segs : List Segment) (md : Py.Dict Py.Path ObjectMetadata) (p : Bytes) (index : Nat) :
    TdmsReader.read_channel_chunk_for_index ensure_open verify_segment_start
        (fun q => (((buildIndex segs q).firstSegment : Int),
                   (buildIndex segs q).offsets.map fun (n : Nat) => (n : Int)))
        pyGetSegObj seg_read { _segments := some (segs.map pySeg), object_metadata := md } p (index : Int)
      = (do
          let _ ← ensure_open
          match chunkPlan segs p index with
          | .error e => .error e
          | .ok (s, ci, off) => do
            let _ ← verify_segment_start (pySeg s)
            let c ← Py.next (seg_read (pySeg s) p (ci : Int) 1)
            pure (c, (off : Int))) :=
  read_chunk_tied' ensure_open verify_segment_start seg_read segs md p index

/-- the instance asked for: file open, segment start verified -/
theorem read_channel_chunk_for_index_tied_ok {Chunk : Type}
    (seg_read : TdmsSegment → Py.Path → Int → Int → List Chunk)
    (segs : List Segment) (p : Bytes) (index : Nat) :
    TdmsReader.read_channel_chunk_for_index (.ok ()) (fun _ => .ok ())
        (fun q => (((buildIndex segs q).firstSegment : Int),
                   (buildIndex segs q).offsets.map fun (n : Nat) => (n : Int)))
        pyGetSegObj seg_read { _segments := some (segs.map pySeg), object_metadata := [] } p (index : Int)
      = match chunkPlan segs p index with
        | .ok (s, ci, off) => (Py.next (seg_read (pySeg s) p (ci : Int) 1)).map (·, (off : Int))
        | .error e => .error e := by
  rw [show (fun q => (((buildIndex segs q).firstSegment : Int),
      (buildIndex segs q).offsets.map fun (n : Nat) => (n : Int))) = pyChannelIndex segs from rfl,
    read_chunk_tied']
  cases chunkPlan segs p index with
  | error e => rfl
  | ok t =>
    obtain ⟨s, ci, off⟩ := t
    show (Py.next (seg_read (pySeg s) p (ci : Int) 1) >>= _) =
      Except.map _ (Py.next (seg_read (pySeg s) p (ci : Int) 1))
    cases Py.next (seg_read (pySeg s) p (ci : Int) 1) <;> rfl

/-- the model side: `readChannelChunkForIndex` is its plan followed by the segment read -/
theorem read_channel_chunk_for_index_model (f : OpenFile) (p : Bytes) (index : Nat) :
    readChannelChunkForIndex f p index =
      (match chunkPlan f.segments p index with
      | .error _ => throw .other
      | .ok (s, ci, off) => do
        verifySegmentStart f.file s
        let chunks ← segReadChannel f.file s p ci (some 1)
        match chunks.head? with
        | some c => pure (c, off)
        | none => throw .other) := by
  rw [readChannelChunkForIndex_eq]
  cases chunkPlan f.segments p index with
  | error e => rfl
  | ok t => obtain ⟨s, ci, off⟩ := t; rfl

/-- the plan, spelled out: segment selection by `searchsorted(side='right')`, `chunk_size`,
    `segment_start_index`, `chunk_index = (index - start) // chunk_size`,
    `chunk_offset = start + chunk_index * chunk_size` -/
theorem _read_chunk_plan_eq (segs : List Segment) (p : Bytes) (index : Nat) :
    chunkPlan segs p index =
      let ix := buildIndex segs p
      let segIndex := ix.firstSegment + searchRight ix.offsets index
      match segs[segIndex]? with
      | none => .error "IndexError"
      | some s =>
        let cs := match getSegmentObject s p with
          | some o => o.numberValues
          | none => 0
        if cs = 0 then .error "ZeroDivisionError"
        else
          let segStart :=
            if segIndex = ix.firstSegment then 0 else ix.offsets.getD (segIndex - ix.firstSegment - 1) 0
          let chunkIndex := (index - segStart) / cs
          .ok (s, chunkIndex, segStart + chunkIndex * cs) := rfl

theorem _read_chunk_plan_IndexError_iff (segs : List Segment) (p : Bytes) (index : Nat) :
    chunkPlan segs p index = .error "IndexError" ↔
      segs.length ≤ (buildIndex segs p).firstSegment + searchRight (buildIndex segs p).offsets index := by
  unfold chunkPlan
  simp only []
  cases h : segs[(buildIndex segs p).firstSegment + searchRight (buildIndex segs p).offsets index]? with
  | none => simpa using h
  | some s =>
    obtain ⟨hlt, _⟩ := List.getElem?_eq_some_iff.1 h
    have hn : ¬ segs.length ≤
        (buildIndex segs p).firstSegment + searchRight (buildIndex segs p).offsets index := by omega
    simp only [hn, iff_false]
    cases getSegmentObject s p with
    | none => intro hc; injection hc with hc; exact absurd hc (by decide)
    | some o =>
      simp only []
      split
      · intro hc; injection hc with hc; exact absurd hc (by decide)
      · intro hc; cases hc

/-- the chunk selected starts at or before the index: `chunk_offset ≤ index`, so `index - chunk_offset` in
    `_read_at_index` is never a negative (wrapping) Python index -/
theorem _read_chunk_plan_bounds (segs : List Segment) (p : Bytes) (index : Nat) (s : Segment) (ci off : Nat)
    (h : chunkPlan segs p index = .ok (s, ci, off)) : off ≤ index :=
  chunkPlan_off_le segs p index s ci off h

/-- `segment.get_segment_object(path)` on the Python object of a model segment -/
theorem _read_chunk_get_segment_object (s : Segment) (q : Bytes) :
    pyGetSegObj (pySeg s) q = (getSegmentObject s q).map pyObj :=
  pyGetSegObj_pySeg s q

end Tdms.Proofs.C19Tied

