import TdmsProofs.Lemmas.C11LazyCheck
import TdmsProofs.Properties.C01Layouts
import TdmsProofs.Properties.C03
import TdmsProofs.Lemmas.C05WFDaqMain

/-!
# C03 / C11 — lazy reads of DAQmx segments: headline theorems

The lazy per-channel read of a DAQmx chunk (`readChannelChunkAt … .daqmx`, `Tdms/Model/Lazy.lean`) runs
the eager chunk reader `readDaqmxChunk` and looks the channel up; so the question is only WHERE the chunk
is read (the lazy reader seeks to `dataPosition + j · chunkSize`) and how the window arithmetic of
`read_raw_data_for_channel` treats chunks that carry scaler dictionaries instead of plain data
(`ChanChunk.len` is the length of the FIRST scaler; `_trim_channel_chunk` slices every scaler).

* `scalersIn r.channels p id` — what the eager read holds for scaler `id` of channel `p`;
  `scGet out.scalers id` — what `read_data` returns for it (`Lemmas/C11LazyStream.lean`).
* `DaqOk file s` — DAQmx segment whose chunks, read at their nominal positions, succeed, every chunk but
  the last being complete (so the eager reader, which reads sequentially, is at the same positions).
* `SegsDOk file segs p id` — per segment: the `TDSm` tag; no chunks without the raw-data flag; and either
  channel `p` has no values in the segment and the segment's eager chunks hold nothing for the scaler, or
  `DaqOk`, distinct keys in every chunk, and the chunk's entry for `p` is a scaler chunk (`ScChunk`: no plain
  data, distinct scaler ids, `id` among them, EVERY scaler exactly `chunkLen j` values — the uniformity
  the window arithmetic needs).  Decidable: `segsDOkB`.

Core Lean only (no Mathlib).
-/

namespace Tdms.Proofs.C11Lazy

open Tdms Tdms.Generated Tdms.Model Tdms.Proofs.Bytes Tdms.Proofs.C03 Tdms.Proofs.C04

/-! ## 1. One chunk, one segment — arbitrary bytes -/

/-- **`daqmx_chunk_component_agrees`** (no hypothesis at all): from the same file state, the lazy read of
    channel `p`'s part of DAQmx chunk `ci` succeeds iff the eager chunk read succeeds, ends in the same
    file state, and returns the eager chunk's entry for `p` (`RawChunk.get c p`: the channel's plain data or
    its whole scaler dictionary) — hence, for every scaler, the same raw values. -/
theorem daqmx_chunk_component_agrees (file : Bytes) (s : Segment) (d : List SegObj) (p : Bytes) (ci : Nat) (st : FState) :
    (∀ c st', readDaqmxChunk file s d ci st = .ok (c, st') →
      readChannelChunkAt file s .daqmx d p ci st = .ok (RawChunk.get c p, st')) ∧
    (∀ e, readDaqmxChunk file s d ci st = .error e → readChannelChunkAt file s .daqmx d p ci st = .error e) := by
  constructor
  · intro c st' h
    rw [readChannelChunkAt_daqmx, h]
  · intro e h
    rw [readChannelChunkAt_daqmx, h]

/-- **DAQmx segment.**  Under `DaqOk` the eager read of the segment yields (after the optional empty chunk)
    the chunks `daqChunk file s j`, `j < numChunks`, and the lazy read of ANY chunk range inside the segment
    returns the channel's entry of every eager chunk of the range — from any file states. -/
theorem daqmx_segment_agrees (file : Bytes) (s : Segment) (h : DaqOk file s) (p : Bytes)
    (co : Nat) (nc : Int) (hk : co + nc.toNat ≤ s.numChunks) (st st' : FState) :
    (∃ st1, segmentReadRawData file s st = .ok ((if !hasFlag s.toc kTocRawData then [([] : RawChunk)] else []) ++
      (List.range s.numChunks).map (daqChunk file s), st1)) ∧
    ∃ st2, segReadChannel file s p co (some nc) st' =
      .ok ((if !hasFlag s.toc kTocRawData then [({} : ChanChunk)] else []) ++
        (List.range' co nc.toNat).map (fun j => RawChunk.get (daqChunk file s j) p), st2) := by
  refine ⟨?_, segReadChannel_daq file s h p co nc hk st'⟩
  obtain ⟨st1, h1⟩ := readChunksSeq_daq file s h s.numChunks 0 st.trace (by omega)
  simp only [Nat.zero_mul, Nat.add_zero] at h1
  refine ⟨st1, ?_⟩
  unfold segmentReadRawData
  rw [F_bind_ok (fSeek_run _ _), h.kind, F_bind_ok (liftE_ok _ _)]
  show ((readChunksSeq file s .daqmx (C03.dataObjs s) 0 s.numChunks) >>= _) _ = _
  rw [F_bind_ok h1]
  simp only [List.range_eq_range']
  rfl

/-! ## 2. The eager scaler data -/

/-- **unconditional**: what `readFile` holds for scaler `id` of ANY path is the concatenation, in order,
    of the scaler's values in the path's entries of the chunks the segments yield (`segEager`). -/
theorem eager_scalers_eq_chunk_concat (file : Bytes) (r : EagerResult) (h : readFile file = .ok r) (p : Bytes) (id : Nat) :
    scalersIn r.channels p id = streamSc (r.state.segments.flatMap (segEager file)) p id :=
  readFile_scalers file r h p id

/-! ## 3. Windows of scaler data -/

/-- **`window_eq_eager_daqmx` — every window of every scaler.**  On a file whose segments satisfy
    `SegsDOk … p id`, `read_data(offset, length)` of channel `p` on the open file returns, for scaler `id`,
    `eagerScaler[offset : offset + length]` — every `offset ≥ 0`, every `length` (`none` or `≥ 0`), from any
    file state. -/
theorem window_eq_eager_daqmx (file : Bytes) (r : EagerResult) (h : readFile file = .ok r) (p : Bytes) (id : Nat)
    (hwf : SegsDOk file r.state.segments p id) (m : ObjMeta)
    (hc : ChanOk r.state.objects r.state.segments p m) (hty : m.dataType.isSome = true)
    (offset : Int) (length : Option Int) (h0 : 0 ≤ offset) (hl : ∀ l, length = some l → 0 ≤ l) (st : FState) :
    ∃ st' out, (channelReadData (openOf file r) p offset length).run st = .ok (some out, st') ∧
      scGet out.scalers id = takeOpt length ((scalersIn r.channels p id).drop offset.toNat) := by
  obtain ⟨st', out, hrun, hd⟩ := channelReadData_scaler (openOf file r) p id m hwf hc hty offset length h0 hl st
  exact ⟨st', out, hrun, by rw [hd, readFile_scalers file r h p id]; rfl⟩

/-- `read_data()` returns the eager scaler data -/
theorem window_full_eq_eager_daqmx (file : Bytes) (r : EagerResult) (h : readFile file = .ok r) (p : Bytes) (id : Nat)
    (hwf : SegsDOk file r.state.segments p id) (m : ObjMeta)
    (hc : ChanOk r.state.objects r.state.segments p m) (hty : m.dataType.isSome = true) (st : FState) :
    ∃ st' out, (channelReadData (openOf file r) p 0 none).run st = .ok (some out, st') ∧
      scGet out.scalers id = scalersIn r.channels p id := by
  obtain ⟨st', out, hrun, hd⟩ := window_eq_eager_daqmx file r h p id hwf m hc hty 0 none (Int.le_refl 0)
    (by intro l hl; cases hl) st
  exact ⟨st', out, hrun, by simpa [takeOpt] using hd⟩

/-- the executable checker is sound -/
theorem invariants_of_check_daqmx (file : Bytes) (p : Bytes) (ids : List Nat) (h : checkD file p ids = true) :
    ∃ r m, readFile file = .ok r ∧ (∀ id ∈ ids, SegsDOk file r.state.segments p id) ∧
      ChanOk r.state.objects r.state.segments p m ∧ m.dataType.isSome = true :=
  checkD_sound h

/-! ## 4. Examples (closed terms, by kernel evaluation) -/

section Examples

/-- C01Layouts' seven-segment file (1001 bytes): DAQmx segments (two raw buffers of 8 and 2 bytes per row,
    little- and big-endian, a channel switched off, re-listed with another chunk size), contiguous
    segments, an interleaved segment -/
def dBytes : Bytes := (encodeFile Tdms.Proofs.C01Layouts.dFile).toOption.getD []

def pA : Bytes := [47, 39, 103, 39, 47, 39, 97, 39]
def pB : Bytes := [47, 39, 103, 39, 47, 39, 98, 39]

/-- channel `a` (Int16 scalers `0` in buffer 1 and `1` in buffer 0): all hypotheses hold for both scalers -/
theorem dFile_check_a : checkD dBytes pA [0, 1] = true := by decide +kernel

/-- channel `b` (digital-line scalers `0` and `5`): all hypotheses hold for both scalers -/
theorem dFile_check_b : checkD dBytes pB [0, 5] = true := by decide +kernel

/-- … and the eager read holds these scaler data for `a` -/
theorem dFile_scalers_a : ((readFile dBytes).toOption.map fun r => (scalersIn r.channels pA 0, scalersIn r.channels pA 1))
    = some ([[51, 52], [53, 54], [55, 56], [57, 58], [61, 62], [63, 64], [71, 72], [73, 74], [75, 76]],
            [[3, 4], [13, 14], [23, 24], [33, 34], [3, 4], [3, 4], [3, 4], [3, 4], [9, 9]]) := by
  decide +kernel

/-- the theorem instantiated (NOT by evaluation): `a.read_data(3, 4)`, scaler `1` — a window that starts
    in the second chunk of the first DAQmx segment and ends in the segment with 1 value per chunk -/
example : ∀ st, ∃ r st' out, readFile dBytes = .ok r ∧
    (channelReadData (openOf dBytes r) pA 3 (some 4)).run st = .ok (some out, st') ∧
    scGet out.scalers 1 = [[33, 34], [3, 4], [3, 4], [3, 4]] := by
  intro st
  obtain ⟨r, m, hr, hwf, hc, hty⟩ := invariants_of_check_daqmx dBytes pA [0, 1] dFile_check_a
  obtain ⟨st', out, h1, h2⟩ := window_eq_eager_daqmx dBytes r hr pA 1 (hwf 1 (by simp)) m hc hty 3 (some 4) (by decide)
    (by intro l h; cases h; decide) st
  refine ⟨r, st', out, hr, h1, ?_⟩
  have hv := dFile_scalers_a
  rw [hr] at hv
  simp only [Except.toOption, Option.map_some, Option.some.injEq, Prod.mk.injEq] at hv
  rw [h2, hv.2]
  decide

/-- a scaler id the channel does not have fails the check (the hypothesis `id ∈ scaler ids` of `ScChunk`) -/
example : checkD dBytes pA [2] = false := by decide +kernel

/-- two DAQmx raw channels SHARING one raw buffer but declaring different chunk sizes (2 and 1 values per
    chunk; rejected by the spec's `wfDaqChunk`; C05WF's `dmxBad` with raw-typed channels) -/
def dmxBadRaw : FileEnc := [
  { Tdms.Proofs.C01Multi.exSeg0 with
      daqmxFlag := true,
      objs := [⟨pA, .daqmx false 0xFFFFFFFF 2 [⟨5, 0, 0, 0, 0⟩] [8], []⟩,
               ⟨pB, .daqmx false 0xFFFFFFFF 1 [⟨5, 0, 4, 0, 0⟩] [8], []⟩],
      chunks := [[[[1, 0, 0, 0, 11, 0, 0, 0], [2, 0, 0, 0, 12, 0, 0, 0]]],
                 [[[3, 0, 0, 0, 13, 0, 0, 0], [4, 0, 0, 0, 14, 0, 0, 0]]]] } ]

def badBytes : Bytes := (encodeFile dmxBadRaw).toOption.getD []

/-- **the uniformity in `ScChunk` is needed.**  On `dmxBadRaw` every chunk holds 2 values of `b` although `b`
    declares 1 per chunk (`len(b) = 2`): `SegsDOk` fails for `b` (it holds for `a`), C05WF's `daqUniformFileB`
    fails, the eager read raises (`overflow`: 4 values for a channel of length 2), and the lazy reads
    contradict each other: `b.read_data()` returns `[11, 12]` but `b.read_data(1, 1)` returns `[13]`. -/
example : (match readFile badBytes with | .error .overflow => true | _ => false) = true ∧
    ((openFile badBytes).toOption.map fun f =>
      (segsDOkB f.file f.segments pB 0, segsDOkB f.file f.segments pA 0, Tdms.Proofs.C05WF.daqUniformFileB f,
       (f.objects.get pB).map (·.numValues)))
      = some (false, true, false, some 2) ∧
    ((openFile badBytes).toOption.map fun f =>
      (match (channelReadData f pB 0 none).run {} with
        | .ok (some o, _) => o.scalers
        | _ => [],
       match (channelReadData f pB 1 (some 1)).run {} with
        | .ok (some o, _) => o.scalers
        | _ => []))
      = some ([(0, [[11, 0, 0, 0], [12, 0, 0, 0]])], [(0, [[13, 0, 0, 0]])]) := by
  refine ⟨?_, ?_, ?_⟩ <;> decide +kernel

end Examples

end Tdms.Proofs.C11Lazy
