import TdmsProofs.Lemmas.TiedC02

/-!
# C02 (tied): the raw-data-index decisions of the generated Python code equal the model's

`Tdms.Generated.Code.TdmsSegment._reuse_previous_object`, `TdmsSegment._update_existing_object` and
`_number_of_segment_values` are generated from the current npTDMS source by `harness/pyast2lean.py`.
The theorems state that they compute what `reusePreviousObject`, `updateExistingObject` and
`numberOfSegmentValues` of `Tdms/Model/Reader.lean` compute, through the representation mapping of
`TdmsProofs/Lemmas/TiedRepr.lean` (`pyObj`, `pySegC`).  The untranslated calls `_new_segment_object` and
`read_raw_data_index` are the parameters `newOf` and `rdOf e bs` (the model's index reader run on the
remaining input `bs`; a model error `er` inside it is the exception named `reprErr er`).
-/

namespace Tdms.Proofs.C02Tied

open Tdms Tdms.Model Tdms.Generated Tdms.Generated.Code Tdms.Proofs.Tied

/-- `_number_of_segment_values`.  `hk`: a segment with a truncated final chunk has at least one chunk (the model
    subtracts in `Nat`, Python in `int`; `calculateChunks` only sets an override together with `numChunks ≥ 1`). -/
theorem _number_of_segment_values_tied (o : SegObj) (s : Segment) (cc : Option Int) (dc : Option Bool)
    (hk : s.override.isSome = true → 0 < s.numChunks) :
    _number_of_segment_values (pyObj o) (pySegC s cc dc) = ((numberOfSegmentValues o s : Nat) : Int) :=
  number_of_segment_values_tied o s cc dc hk

/-- `_reuse_previous_object`: NO_DATA / MATCHES_PREVIOUS / new index, and the `has_data` flag of the appended object -/
theorem _reuse_previous_object_tied {File Endian' : Type} (e : Endian) (self : TdmsSegment) (ordered : List SegObj)
    (prev : SegObj) (header : Nat) (bs : Bytes) (file : File) (en : Endian')
    (hself : self.ordered_objects = ordered.map pyObj) :
    TdmsSegment._reuse_previous_object newOf (rdOf e bs) self (pyObj prev) (header : Int) file en =
      match (reusePreviousObject e ordered prev header).run bs with
      | .ok (l, _) => .ok { self with ordered_objects := l.map pyObj }
      | .error er => .error (reprErr er) :=
  reuse_previous_object_tied e self ordered prev header bs file en hself

/-- `_update_existing_object`; `hi`: the index of the existing object is inside the list (Python raises IndexError
    otherwise, `List.set` of the model does nothing; the index comes from `existing_objects`, built from that list) -/
theorem _update_existing_object_tied {File Endian' : Type} (e : Endian) (self : TdmsSegment) (ordered : List SegObj)
    (i : Nat) (ex : SegObj) (header : Nat) (bs : Bytes) (file : File) (en : Endian')
    (hself : self.ordered_objects = ordered.map pyObj) (hi : i < ordered.length) :
    TdmsSegment._update_existing_object newOf (rdOf e bs) self (i : Int) (pyObj ex) (header : Int) file en =
      match (updateExistingObject e ordered i ex header).run bs with
      | .ok (l, _) => .ok { self with ordered_objects := l.map pyObj }
      | .error er => .error (reprErr er) :=
  update_existing_object_tied e self ordered i ex header bs file en hself hi

end Tdms.Proofs.C02Tied

