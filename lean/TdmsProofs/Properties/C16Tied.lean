import TdmsProofs.Lemmas.TiedC16

/-!
# C16 (tied): the GENERATED `_components_to_path` and `_path_components` equal the model

`Tdms.Generated.Code.*` is regenerated from the Python source of npTDMS (`nptdms/common.py`); the
theorems below say that these definitions ARE the model functions of `Tdms/Model/Path.lean`
(`pathOf`, `pathComponents`) at the alphabet of characters with quote `'` and slash `/`.  A semantic
change of the Python source (`!=` → `==`, swapped tests of the inner loop, a dropped `next(chars)`, a
dropped `break`, `"''"` → `"'"`) regenerates a different definition and these proofs stop compiling.

Every `theorem` of this file is a registered proof obligation; helper lemmas are in
`TdmsProofs/Lemmas/TiedC16.lean`.
-/

namespace Tdms.Proofs.C16Tied
open Tdms Tdms.Model.Path Tdms.Generated Tdms.Generated.Code Tdms.Proofs.Tied

/-- `_components_to_path(group, channel)` is the model's `pathOf`. -/
theorem _components_to_path_tied (group channel : Option (List Char)) :
    _components_to_path group channel = pathOf qChar sChar group channel := by
  unfold _components_to_path
  cases group <;> cases channel <;>
    simp [pathOf, componentsToPath, quoted, qChar, sChar, join_singleton, replaceChar_double]

/-- `list(_path_components(path))` is the model's `pathComponents`, the two `ValueError`s being the
    model's `expectedSlash` / `expectedQuote`.  In particular the declared bound `len(path) + 1` on the
    iterations of both `while True:` loops is never reached (no "NonTermination"). -/
theorem _path_components_tied (path : List Char) :
    _path_components path = (pathComponents qChar sChar path).mapError errName := by
  unfold _path_components
  simp only []
  rw [outer_loop_eq '\'' '/' ((Py.len path) + 1).toNat _ ?hO _ path [] (by simp only [Py.len_eq]; omega)
    (by simp only [Py.len_eq]; omega)]
  case hO =>
    intro rest out hlt
    match rest with
    | [] => rfl
    | [c] =>
      by_cases hc : c = '/' <;>
        simp [Py.pairsWithNext, outerStep, hc, pure, Except.pure, throw, throwThe, MonadExceptOf.throw]
    | c :: n :: rest' =>
      by_cases hc : c = '/'
      · by_cases hn : n = '\''
        · simp only [pairsWithNext_cons, List.head?_cons, outerStep, hc, hn, if_true, ne_eq,
            not_true_eq_false, if_false]
          rw [inner_loop_eq '\'' _ ?hI _ rest' [] out (by simp only [List.length_cons] at hlt; omega)]
          case hI =>
            intro rest comp out
            match rest with
            | [] => rfl
            | [c] =>
              by_cases hc : c = '\'' <;>
                simp [Py.pairsWithNext, innerStep, hc, pure, Except.pure]
            | c :: n :: rest' =>
              by_cases hc : c = '\'' <;> by_cases hn : n = '\'' <;>
                simp [pairsWithNext_cons, innerStep, hc, hn, pure, Except.pure]
          cases innerRun '\'' rest' [] out <;> simp [innerOut, bind, Except.bind, pure, Except.pure]
        · simp [pairsWithNext_cons, outerStep, hc, hn, throw, throwThe, MonadExceptOf.throw]
      · simp [pairsWithNext_cons, outerStep, hc, throw, throwThe, MonadExceptOf.throw]
  show (scanOut (pathComponents qChar sChar path) >>= _) = _
  cases h : pathComponents qChar sChar path with
  | ok v => rfl
  | error e => simp [scanOut, Except.mapError, errName_eq, bind, Except.bind]

/-- The same statement by cases: the generated function returns the model's components, or raises
    `ValueError` exactly when the model reports an error. -/
theorem _path_components_cases (path : List Char) :
    match pathComponents qChar sChar path with
    | .ok cs => _path_components path = .ok cs
    | .error _ => _path_components path = .error "ValueError" := by
  rw [_path_components_tied]
  cases pathComponents qChar sChar path with
  | ok v => rfl
  | error e => simp [Except.mapError, errName_eq]

end Tdms.Proofs.C16Tied

