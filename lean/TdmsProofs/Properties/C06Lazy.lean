/-
  C06 ("a file cut short by a crash reads as a prefix of the complete file"), the remaining half of the property:
  on the cut file LAZY AND EAGER READS AGREE, and `len(channel)` is the number of values returned.

  `C06Whole.lean` proves, for every cut offset `K` of a standard contiguous file, that the EAGER read of
  `bytes.take K` succeeds and returns prefixes.  `C03.lean` proves the agreement of every lazy access path with the
  eager read for every reader state satisfying `SegsWf`, and derives `SegsWf` for any accepted byte string whose
  segment records are contiguous with fixed-width data (`invariants_hold_sized`).  This file composes the two — the
  segment records `readFile (bytes.take K)` builds (`cutSeg`, `cutSegAt`, `runSegs` of `C06Whole`) satisfy
  `SegShape` and `SizedOk` when no channel holds strings — and, with `C01Marker.read_encode_multi_marker`, links the
  values of the cut multi-segment file to the MEANING `denote` of the complete file (the link `C06Whole.lean`
  had for one segment only).

  Classes.  Sections 1–2: those of `C06Whole.lean` — one segment `CutStd s`, `SegFits s`, `onlyChannelsHaveData s`;
  several segments `MultiStd s₀ rest` (self-describing segments with one object signature; the last may carry the
  length-unknown marker); `hasStr … = false` (every channel has a fixed-width type), `bytes.length < 2^63`.
  Section 3: the GENERAL class `MultiStdU e` of `C01Marker.lean` (object lists may change from segment to segment:
  segments without metadata, incremental lists, "same as previous" indexes, objects appearing and disappearing,
  changed values per chunk, strings; marker allowed on the last segment) — `read_cut_general` is the cut theorem
  `C06Whole.read_cut_multi` generalised to it (every cut offset, prefix of `denote e`, `len(channel)`), and
  `cut_lazy_eq_eager_general` adds lazy = eager when no listed index is a string index (`noStrings e`).

  Vocabulary: `openOf file r = ⟨file, r.state.segments, r.state.objects⟩` is what `TdmsFile.open(file)` yields
  (`LazyEqEager.opens`); `valuesIn r.channels p` the eager values; `LazyEqEager file r` (`Lemmas/C06LazyMain.lean`)
  bundles the statements of `C03.lean` for ALL objects: `len`, `chunks` (`read_raw_data_for_channel`), `iter`
  (`data_chunks()` / iteration), `window` (`read_data(offset, length)`, every window), `full` (`read_data()`),
  `slice` (`channel[a:b:c]`, CPython semantics), `index` / `scan` (`channel[i]` with the one-chunk cache);
  `CutLazyEager s₀ bytes K c r r'` (`Lemmas/C06LazyCut.lean`) bundles: the complete file reads as `r` with
  `content r = contentOfDenote c`; the cut file reads as `r'`; `LazyEqEager (bytes.take K) r'`; prefix of `denote`;
  `len(channel)`; data types.  Lemmas: `Lemmas/C06Lazy{Seg,File,Main,Denote,Cut}.lean` (sections 0–2),
  `Lemmas/C06Gen{Defs,Meta,Step,Data,File,Drop,Vals,Main,Class,Lazy}.lean` (section 3).  Core Lean only.
-/
import TdmsProofs.Lemmas.C06LazyCut
import TdmsProofs.Lemmas.C06GenLazy

namespace Tdms.Proofs.C06Lazy

open Tdms Tdms.Generated Tdms.Model Tdms.Proofs.Bytes Tdms.Proofs.C01Compose Tdms.Proofs.C06Whole
open Tdms.Proofs.C04 (takeOpt dataOf)
open Tdms.Proofs.C03 (openOf SegShape SizedOk CacheOk? indexScan)

/-! ## 0. any byte string -/

/-- **lazy = eager for the eager result of ANY byte string** whose segment records are contiguous, have distinct
    object paths, no chunk without the raw-data flag (`SegShape`) and only fixed-width data objects (`SizedOk`):
    all lazy access paths on the open file return the corresponding part of the eager values, and `len(channel)`
    is their number.  (Composition of `C03.invariants_hold_sized` with the agreement theorems of `C03.lean`; both
    hypotheses are decidable properties of the records: `segShapeB`, `sizedOkB`.) -/
theorem lazy_eq_eager_of_sized (file : Bytes) (r : EagerResult) (h : readFile file = .ok r)
    (hshape : ∀ s ∈ r.state.segments, SegShape s) (hsized : ∀ s ∈ r.state.segments, SizedOk s) :
    LazyEqEager file r :=
  lazyEqEager_of_sized file r h hshape hsized

/-- the segment record of a cut (or complete) segment of the class has the shape `C03` asks for, whatever the
    types; with fixed-width channels only it is `SizedOk` -/
theorem cut_segment_record_ok (s : SegEnc) (h : CutStd s) (P k : Nat) (hk : k ≤ encLen s) :
    SegShape (cutSegAt s P k) ∧ (hasStr s = false → SizedOk (cutSegAt s P k)) :=
  ⟨segShape_cutSegAt s h P k hk, fun hns => sizedOk_cutSegAt s h hns P k⟩

/-! ## 1. the cut file: lazy = eager = prefix of the meaning -/

/-- **several segments, every cut offset**: for `K ≤ bytes.length` the complete file reads as its meaning
    `denote (s₀ :: rest)`, the cut file reads without error, every lazy access path on the open cut file
    (`read_data()`, every window, every slice, every index, the chunk generators) returns the corresponding part of
    the eager values of the cut file, these are prefixes of the values `denote` assigns, and `len(channel)` is
    their number. -/
theorem cut_lazy_eq_eager_multi (s₀ : SegEnc) (rest : List SegEnc) (H : MultiStd s₀ rest) (hfix : hasStr s₀ = false)
    (bytes : Bytes) (hb : encodeFile (s₀ :: rest) = .ok bytes) (hlen : bytes.length < 2 ^ 63) (K : Nat)
    (hK : K ≤ bytes.length) :
    ∃ c r r', denote (s₀ :: rest) = .ok c ∧ CutLazyEager s₀ bytes K c r r' :=
  cutLazyEager_multi s₀ rest H hfix bytes hb hlen K hK

/-- **one segment, every cut offset** -/
theorem cut_lazy_eq_eager_single (s : SegEnc) (h : CutStd s) (fit : SegFits s) (hch : onlyChannelsHaveData s)
    (hfix : hasStr s = false) (bytes : Bytes) (hb : encodeFile [s] = .ok bytes) (hlen : bytes.length < 2 ^ 63)
    (K : Nat) (hK : K ≤ bytes.length) :
    ∃ c r r', denote [s] = .ok c ∧ CutLazyEager s bytes K c r r' :=
  cutLazyEager_multi s [] (multiStd_single s h fit hch) hfix bytes hb hlen K hK

/-- **the same, spelled out against the meaning**: for every object `oc` of `denote (s₀ :: rest)` that the cut
    file knows (metadata entry `m`), there is a PREFIX `vs` of `oc.values` with `len(channel) = vs.length` such
    that on the lazily opened cut file, from any file state: `read_data()` returns `vs`; `read_data(offset, length)`
    returns `vs[offset : offset + length]`; `channel[a:b:c]` is CPython's slice of `vs`; `channel[i]` is
    `vs[i mod n]`.  (`vs` is what the eager read of the cut file holds.) -/
theorem cut_lazy_paths_prefix_of_denote (s₀ : SegEnc) (rest : List SegEnc) (H : MultiStd s₀ rest)
    (hfix : hasStr s₀ = false) (bytes : Bytes) (hb : encodeFile (s₀ :: rest) = .ok bytes)
    (hlen : bytes.length < 2 ^ 63) (K : Nat) (hK : K ≤ bytes.length) :
    ∃ c r', denote (s₀ :: rest) = .ok c ∧ readFile (bytes.take K) = .ok r' ∧
      openFile (bytes.take K) = .ok (openOf (bytes.take K) r') ∧
      ∀ oc ∈ c, ∀ m, r'.state.objects.get oc.path = some m → m.dataType.isSome = true →
        ∃ vs, vs <+: oc.values ∧ m.numValues = vs.length ∧ vs = valuesIn r'.channels oc.path ∧
          (∀ st : FState, ∃ st' out,
            (channelReadData (openOf (bytes.take K) r') oc.path 0 none).run st = .ok (some out, st') ∧
            out.data.getD [] = vs) ∧
          (∀ (offset : Int) (length : Option Int), 0 ≤ offset → (∀ l, length = some l → 0 ≤ l) → ∀ st : FState,
            ∃ st' out, (channelReadData (openOf (bytes.take K) r') oc.path offset length).run st = .ok (some out, st') ∧
              out.data.getD [] = takeOpt length (vs.drop offset.toNat)) ∧
          (∀ (a b c' : Option Int) (st : FState),
            match Tdms.Spec.PySlice.pySlice vs a b c' with
            | .error _ => (channelReadSlice (openOf (bytes.take K) r') oc.path a b c').run st = .error .stepZero
            | .ok xs => ∃ st', (channelReadSlice (openOf (bytes.take K) r') oc.path a b c').run st = .ok (xs, st')) ∧
          (∀ (i : Int), -(m.numValues : Int) ≤ i ∧ i < m.numValues → ∀ st : FState,
            ∃ v cache' st', (channelReadAtIndex (openOf (bytes.take K) r') oc.path none i).run st =
                .ok ((v, cache'), st') ∧ vs[(i % (m.numValues : Int)).toNat]? = some v) := by
  obtain ⟨c, r, r', hc, hcut⟩ := cutLazyEager_multi s₀ rest H hfix bytes hb hlen K hK
  refine ⟨c, r', hc, hcut.cut, hcut.lazy.opens, ?_⟩
  intro oc hoc m hm hty
  refine ⟨valuesIn r'.channels oc.path, hcut.pre oc hoc, hcut.lazy.len _ m hm, rfl, hcut.lazy.full _ m hm hty,
    hcut.lazy.window _ m hm hty, hcut.lazy.slice _ m hm hty, ?_⟩
  intro i hi st
  obtain ⟨v, cache', st', h1, h2, _⟩ := hcut.lazy.index _ m hm none trivial i hi st
  exact ⟨v, cache', st', h1, h2⟩

/-! ## 2. strings -/

/-- **Partial — a cut that splits a chunk of a segment holding a string channel.**  The record of the cut segment has
    `cutQ + 1` chunks and the override `[]` (`_compute_final_chunk_lengths` gives up), i.e. every data object reads
    0 values from the truncated chunk; then (`C03.truncated_unsized_chunk_partial`) on ANY bytes, from any states,
    the eager chunk read returns `[]` for every object and the lazy chunk read of any channel returns a chunk
    carrying no values.  This is agreement on the VALUES of that chunk only: `SegsWf` fails for such a record
    (`skipSize = none`: the lazy reader cannot seek over a partial unsized object), so the window / slice / index
    theorems of `C03.lean` — hence `LazyEqEager` — are not available for a string file cut inside a chunk.
    What remains is exactly a variant of the `C03` chain (`ContigOk.exact`, `readChannelChunksFrom_exact`,
    `lazyChunk_vals`) in which the LAST chunk of a segment may be "all-zero" instead of exact. -/
theorem cut_string_chunk_partial (s : SegEnc) (h : CutStd s) (hstr : hasStr s = true) (P k : Nat)
    (hr : cutR s k ≠ 0) (file : Bytes) (p : Bytes) (acc : RawChunk) (cur : Nat) (st st' : FState) :
    (cutSegAt s P k).numChunks = cutQ s k + 1 ∧ (cutSegAt s P k).override = some [] ∧
    (∃ tr', readContiguousChunk file (cutSegAt s P k) (cutQ s k) (Tdms.Proofs.C03.dataObjs (cutSegAt s P k)) acc st =
      .ok (setCols acc (Tdms.Proofs.C03.dataObjs (cutSegAt s P k))
        ((Tdms.Proofs.C03.dataObjs (cutSegAt s P k)).map fun _ => []), ⟨st.pos, tr'⟩)) ∧
    (∃ ch st2, readChannelChunkContiguous file (cutSegAt s P k) (cutQ s k) p
        (Tdms.Proofs.C03.dataObjs (cutSegAt s P k)) cur st' = .ok (ch, st2) ∧ ch.data.getD [] = []) := by
  obtain ⟨h1, h2, h3⟩ := cut_string_chunk_zero s h hstr P k hr
  obtain ⟨h4, h5⟩ := Tdms.Proofs.C03.truncated_unsized_chunk_partial file (cutSegAt s P k) (cutQ s k) p
    (Tdms.Proofs.C03.dataObjs (cutSegAt s P k)) acc cur st st' h3
  exact ⟨h1, h2, h4, h5⟩

/-! ## 3. the cut theorem for files whose object lists CHANGE between segments -/

-- The class `MultiStdU e` of `C01Marker.lean` (= `MultiStd e` of `C01Multi.lean` with the length-unknown marker
-- allowed on the last segment): contiguous segments listing `noData` / `matchesPrev` / standard indexes,
-- `wellFormed e`.  Segments without metadata, incremental lists, "same as previous" indexes, objects appearing,
-- disappearing and re-appearing, changed values-per-chunk, either byte order per segment, strings: all inside.
-- (`C06Whole.read_cut_multi` required every segment to be self-describing with the signature of the first.)
-- Lemmas: `Lemmas/C06Gen{Defs,Meta,Step,Data,File,Drop,Vals,Main,Class}.lean`.

open Tdms.Proofs.C01Multi (FileFits onlyChannelsHaveDataM fileFitsB onlyChannelsHaveDataB fileFitsB_sound
  onlyChannelsHaveDataB_sound) in
open Tdms.Proofs.C01Marker (MultiStdU multiStdUB multiStdUB_sound) in
/-- **a file of the general class cut after `K` bytes, any `K`**: the complete file reads as its meaning
    `denote e`; the cut file reads without error; every object's values in the cut file are a prefix of the values
    `denote e` assigns to it; `len(channel)` is the number of values returned.
    What the reader does (`Lemmas/C06GenMain.lean`, `read_cut_at`): the segments wholly before the cut are read in
    full; the segment containing the cut is dropped when its raw data are not reached, otherwise it contributes its
    complete chunks and, from the chunk containing the cut, the contiguous fit of the remaining bytes (nothing of
    that chunk when one of the segment's active channels holds strings). -/
theorem read_cut_general (e : FileEnc) (h : MultiStdU e) (fit : FileFits e) (hch : onlyChannelsHaveDataM e)
    (bytes : Bytes) (hb : encodeFile e = .ok bytes) (hlen : bytes.length < 2 ^ 63) (K : Nat)
    (hK : K ≤ bytes.length) :
    ∃ c r r', denote e = .ok c ∧ readFile bytes = .ok r ∧ content r = contentOfDenote c ∧
      readFile (bytes.take K) = .ok r' ∧
      (∀ oc ∈ c, valuesIn r'.channels oc.path <+: oc.values) ∧
      (∀ m ∈ r'.state.objects, m.numValues = (valuesIn r'.channels m.path).length) := by
  obtain ⟨r, c, hr, hc, hcont, _⟩ := Tdms.Proofs.C01Marker.read_encode_multi_marker e h fit hch bytes hb hlen
  obtain ⟨c', r', _, hc', _, hr', hpre, hnum, _⟩ :=
    Tdms.Proofs.C06Gen.read_cut_general_core e h fit hch bytes hb hlen K hK
  rw [hc] at hc'
  injection hc' with hc'
  subst hc'
  exact ⟨c, r, r', hc, hr, hcont, hr', hpre, hnum⟩

open Tdms.Proofs.C01Multi (fileFitsB onlyChannelsHaveDataB fileFitsB_sound onlyChannelsHaveDataB_sound) in
open Tdms.Proofs.C01Marker (multiStdUB multiStdUB_sound) in
/-- the same with every hypothesis as a Boolean check -/
theorem read_cut_general_checked (e : FileEnc) (h : multiStdUB e = true) (fit : fileFitsB e = true)
    (hch : onlyChannelsHaveDataB e = true) (bytes : Bytes) (hb : encodeFile e = .ok bytes)
    (hlen : bytes.length < 2 ^ 63) (K : Nat) (hK : K ≤ bytes.length) :
    ∃ c r r', denote e = .ok c ∧ readFile bytes = .ok r ∧ content r = contentOfDenote c ∧
      readFile (bytes.take K) = .ok r' ∧
      (∀ oc ∈ c, valuesIn r'.channels oc.path <+: oc.values) ∧
      (∀ m ∈ r'.state.objects, m.numValues = (valuesIn r'.channels m.path).length) :=
  read_cut_general e (multiStdUB_sound h) (fileFitsB_sound fit) (onlyChannelsHaveDataB_sound hch) bytes hb hlen K hK

open Tdms.Proofs.C01Multi (FileFits onlyChannelsHaveDataM) in
open Tdms.Proofs.C01Marker (MultiStdU) in
open Tdms.Proofs.C06Gen (noStrings) in
/-- **lazy = eager on every cut of a file of the general class with fixed-width channels** (`noStrings e`: no listed
    index is a string index): the cut file reads without error, every lazy access path on the open cut file returns
    the corresponding part of the eager values, these are prefixes of the values `denote e` assigns, and
    `len(channel)` is their number.  (The segment records of the cut file — `cutRec` of `Lemmas/C06GenDefs.lean`,
    complete or cut — satisfy `SegShape` and `SizedOk`.) -/
theorem cut_lazy_eq_eager_general (e : FileEnc) (h : MultiStdU e) (fit : FileFits e) (hch : onlyChannelsHaveDataM e)
    (hns : noStrings e) (bytes : Bytes) (hb : encodeFile e = .ok bytes) (hlen : bytes.length < 2 ^ 63) (K : Nat)
    (hK : K ≤ bytes.length) :
    ∃ c r', denote e = .ok c ∧ readFile (bytes.take K) = .ok r' ∧ LazyEqEager (bytes.take K) r' ∧
      (∀ oc ∈ c, valuesIn r'.channels oc.path <+: oc.values) ∧
      (∀ m ∈ r'.state.objects, m.numValues = (valuesIn r'.channels m.path).length) :=
  Tdms.Proofs.C06Gen.cut_lazy_general_core e h fit hch hns bytes hb hlen K hK

open Tdms.Proofs.C01Multi (fileFitsB onlyChannelsHaveDataB fileFitsB_sound onlyChannelsHaveDataB_sound) in
open Tdms.Proofs.C01Marker (multiStdUB multiStdUB_sound) in
open Tdms.Proofs.C06Gen (noStringsB noStringsB_sound) in
/-- the same with every hypothesis as a Boolean check -/
theorem cut_lazy_eq_eager_general_checked (e : FileEnc) (h : multiStdUB e = true) (fit : fileFitsB e = true)
    (hch : onlyChannelsHaveDataB e = true) (hns : noStringsB e = true) (bytes : Bytes)
    (hb : encodeFile e = .ok bytes) (hlen : bytes.length < 2 ^ 63) (K : Nat) (hK : K ≤ bytes.length) :
    ∃ c r', denote e = .ok c ∧ readFile (bytes.take K) = .ok r' ∧ LazyEqEager (bytes.take K) r' ∧
      (∀ oc ∈ c, valuesIn r'.channels oc.path <+: oc.values) ∧
      (∀ m ∈ r'.state.objects, m.numValues = (valuesIn r'.channels m.path).length) :=
  cut_lazy_eq_eager_general e (multiStdUB_sound h) (fileFitsB_sound fit) (onlyChannelsHaveDataB_sound hch)
    (noStringsB_sound hns) bytes hb hlen K hK

/-! ## 4. non-vacuity: concrete files, every cut offset -/

section Example

theorem exFixed_noStr : hasStr exFixed = false := by decide

/-- the three-segment file `exFixed, exFixed2, exFixed` of `C06Whole.lean` (748 bytes, Int32 / Int16 / Double
    channels) meets all hypotheses, at every cut offset -/
example (K : Nat) (hK : K ≤ (encAll [exFixed, exFixed2, exFixed]).length) :
    ∃ c r r', denote [exFixed, exFixed2, exFixed] = .ok c ∧
      CutLazyEager exFixed (encAll [exFixed, exFixed2, exFixed]) K c r r' := by
  have hL : (encAll [exFixed, exFixed2, exFixed]).length = 748 := by decide +kernel
  exact cut_lazy_eq_eager_multi exFixed [exFixed2, exFixed] exMulti_std exFixed_noStr _
    (encodeFile_multiStd _ _ exMulti_std) (by rw [hL]; decide) K hK

/-- the one-segment file `exFixed` (249 bytes), at every cut offset -/
example (K : Nat) (hK : K ≤ (encodeSeg exFixed (exFixed.objs.map actOf)).length) :
    ∃ c r r', denote [exFixed] = .ok c ∧
      CutLazyEager exFixed (encodeSeg exFixed (exFixed.objs.map actOf)) K c r r' := by
  have hL : (encodeSeg exFixed (exFixed.objs.map actOf)).length = 249 := by
    have h := exFixed_dataPos.2.2.2
    rw [(encodeFile_single_bytes exFixed exFixed_std).1] at h
    simpa [Except.toOption] using h
  exact cut_lazy_eq_eager_single exFixed (CutStd.of_singleStd exFixed_std) exFixed_fits exFixed_channels exFixed_noStr _
    (encodeFile_single_bytes exFixed exFixed_std).1 (by rw [hL]; decide) K hK

/-- executable comparison on the open cut file: for every object, `len(channel)`, `read_data()`, the window
    `(1, 3)`, the slice `[::-2]` and the index `-1` against the eager values -/
def lazyAgrees (e : FileEnc) (K : Nat) : Bool :=
  match encodeFile e with
  | .error _ => false
  | .ok file =>
    match readFile (file.take K), openFile (file.take K) with
    | .ok r, .ok f =>
      r.state.objects.all fun m =>
        let vs := valuesIn r.channels m.path
        decide (m.numValues = vs.length) &&
        (m.dataType.isNone ||
          (((channelReadData f m.path 0 none).run {}).toOption.map (fun x => x.1.map (·.data.getD [])) == some (some vs) &&
           ((channelReadData f m.path 1 (some 3)).run {}).toOption.map (fun x => x.1.map (·.data.getD [])) ==
              some (some ((vs.drop 1).take 3)) &&
           ((channelReadSlice f m.path none none (some (-2))).run {}).toOption.map (·.1) ==
              (Tdms.Spec.PySlice.pySlice vs none none (some (-2))).toOption &&
           (vs.isEmpty ||
             ((channelReadAtIndex f m.path none (-1)).run {}).toOption.map (·.1.1) == vs.getLast?)))
    | _, _ => false

/-- kernel evaluation of the model around the places of interest of the three-segment file (inside the first
    segment, at and around the two boundaries 249 and 499, inside a truncated chunk, at the end) -/
theorem exMulti_lazy1 : [0, 204, 205, 227, 240, 248].all
    (lazyAgrees [exFixed, exFixed2, exFixed]) = true := by decide +kernel
theorem exMulti_lazy2 : [249, 250, 451, 452, 466, 474].all
    (lazyAgrees [exFixed, exFixed2, exFixed]) = true := by decide +kernel
theorem exMulti_lazy3 : [480, 498, 499, 527, 704].all
    (lazyAgrees [exFixed, exFixed2, exFixed]) = true := by decide +kernel
theorem exMulti_lazy4 : [725, 740, 747, 748].all
    (lazyAgrees [exFixed, exFixed2, exFixed]) = true := by decide +kernel

/-- the string rule: `exSeg` of `C01Compose.lean` (Int32 and string channel) cut inside its second chunk (263 of 264
    bytes) is outside the fixed-width class (`hasStr`), `cut_string_chunk_partial` applies to its record, and on
    this file all lazy paths still agree with the eager read by evaluation -/
theorem exSeg_string_cut : hasStr exSeg = true ∧ cutR exSeg 263 ≠ 0 ∧ lazyAgrees [exSeg] 263 = true ∧
    lazyAgrees [exSeg] 245 = true ∧ lazyAgrees [exSeg] 244 = true := by decide +kernel

/-! ### files whose object lists change -/

/-- the seven-segment file `exFile` of `C01Multi.lean` (682 bytes: a segment without metadata, incremental lists,
    "same as previous" indexes, a big-endian segment, Int32 / UInt16 / string channels appearing and disappearing)
    meets all hypotheses of `read_cut_general`, at every cut offset -/
example (K : Nat) (bytes : Bytes) (hb : encodeFile Tdms.Proofs.C01Multi.exFile = .ok bytes) (hK : K ≤ bytes.length) :
    ∃ c r', denote Tdms.Proofs.C01Multi.exFile = .ok c ∧ readFile (bytes.take K) = .ok r' ∧
      (∀ oc ∈ c, valuesIn r'.channels oc.path <+: oc.values) ∧
      (∀ m ∈ r'.state.objects, m.numValues = (valuesIn r'.channels m.path).length) := by
  have hl := Tdms.Proofs.C01Multi.exFile_length
  rw [hb] at hl
  simp only [Except.toOption, Option.map_some, Option.some.injEq] at hl
  obtain ⟨c, _, r', h1, _, _, h2, h3, h4⟩ := read_cut_general _
    (Tdms.Proofs.C01Marker.MultiStdU.of_multiStd Tdms.Proofs.C01Multi.exFile_std) Tdms.Proofs.C01Multi.exFile_fits
    Tdms.Proofs.C01Multi.exFile_channels bytes hb (by rw [hl]; decide) K hK
  exact ⟨c, r', h1, h2, h3, h4⟩

/-- … and so does `exMarked` of `C01Marker.lean` (five segments, the last one carrying the marker) -/
example (K : Nat) (bytes : Bytes) (hb : encodeFile Tdms.Proofs.C01Marker.exMarked = .ok bytes) (hK : K ≤ bytes.length) :
    ∃ c r', denote Tdms.Proofs.C01Marker.exMarked = .ok c ∧ readFile (bytes.take K) = .ok r' ∧
      (∀ oc ∈ c, valuesIn r'.channels oc.path <+: oc.values) := by
  have hl := Tdms.Proofs.C01Marker.exMarked_features.2.2.1
  rw [hb] at hl
  simp only [Except.toOption, Option.map_some, Option.some.injEq] at hl
  obtain ⟨c, _, r', h1, _, _, h2, h3, _⟩ := read_cut_general _ Tdms.Proofs.C01Marker.exMarked_std
    Tdms.Proofs.C01Marker.exMarked_fits Tdms.Proofs.C01Marker.exMarked_channels bytes hb (by rw [hl]; decide) K hK
  exact ⟨c, r', h1, h2, h3⟩

/-- executable form of the conclusion of `read_cut_general` -/
def cutOK (e : FileEnc) (K : Nat) : Bool :=
  match encodeFile e, denote e with
  | .ok b, .ok c =>
    (match readFile (b.take K) with
     | .ok r => (c.all fun oc => (valuesIn r.channels oc.path).isPrefixOf oc.values) &&
                (r.state.objects.all fun m => m.numValues == (valuesIn r.channels m.path).length)
     | .error _ => false)
  | _, _ => false

/-- kernel evaluation of the model on `exFile` around every segment boundary and inside truncated chunks of
    segments with and without strings (all 683 offsets were `#eval`-checked before proving) -/
theorem exFile_cuts1 : [0, 27, 28, 150, 207, 208, 220, 226, 227, 245, 246, 247].all
    (cutOK Tdms.Proofs.C01Multi.exFile) = true := by decide +kernel
theorem exFile_cuts2 : [290, 300, 330, 331, 400, 437, 438, 440, 441, 442].all
    (cutOK Tdms.Proofs.C01Multi.exFile) = true := by decide +kernel
theorem exFile_cuts3 : [500, 560, 561, 600, 625, 653, 654, 681, 682].all
    (cutOK Tdms.Proofs.C01Multi.exFile) = true := by decide +kernel

/-- four segments with fixed-width channels only and CHANGING object lists (442 bytes): (0) Int32 `a` (2 values per
    chunk) and UInt16 `b` (1 value), padding 2, 2 chunks; (1) no metadata, 1 chunk; (2) incremental, big-endian: `b`
    now has 3 values per chunk and a property, a new Double channel `c`, 2 chunks; (3) new list: `a` with "same as
    previous", `b` switched off, 2 chunks, and the LENGTH-UNKNOWN MARKER in the lead-in -/
def exChange : FileEnc := [
  { Tdms.Proofs.C01Multi.exSeg0 with
      objs := [⟨Tdms.Proofs.C01Multi.exRoot, .noData, [⟨[110], 0x20, [102, 105]⟩]⟩,
               ⟨Tdms.Proofs.C01Multi.exA, .full 3 2 0, []⟩, ⟨Tdms.Proofs.C01Multi.exB, .full 6 1 0, []⟩],
      padding := 2,
      chunks := [[[[1, 0, 0, 0], [2, 0, 0, 0]], [[1, 1]]], [[[3, 0, 0, 0], [4, 0, 0, 0]], [[2, 2]]]] },
  { Tdms.Proofs.C01Multi.exSeg0 with
      hasMeta := false, newList := false, chunks := [[[[5, 0, 0, 0], [6, 0, 0, 0]], [[3, 3]]]] },
  { Tdms.Proofs.C01Multi.exSeg0 with
      newList := false, big := true,
      objs := [⟨Tdms.Proofs.C01Multi.exB, .full 6 3 0, [⟨[117], 0x20, [87]⟩]⟩,
               ⟨[47, 39, 103, 39, 47, 39, 99, 39], .full 10 1 0, []⟩],
      chunks := [[[[7, 0, 0, 0], [8, 0, 0, 0]], [[4, 4], [5, 5], [6, 6]], [[1, 2, 3, 4, 5, 6, 7, 8]]],
                 [[[9, 0, 0, 0], [10, 0, 0, 0]], [[7, 7], [8, 8], [9, 9]], [[11, 12, 13, 14, 15, 16, 17, 18]]]] },
  { Tdms.Proofs.C01Multi.exSeg0 with
      lengthUnknown := true,
      objs := [⟨Tdms.Proofs.C01Multi.exA, .matchesPrev, []⟩, ⟨Tdms.Proofs.C01Multi.exB, .noData, []⟩],
      chunks := [[[[11, 0, 0, 0], [12, 0, 0, 0]]], [[[13, 0, 0, 0], [14, 0, 0, 0]]]] } ]

theorem exChange_hyps : Tdms.Proofs.C01Marker.multiStdUB exChange = true ∧
    Tdms.Proofs.C01Multi.fileFitsB exChange = true ∧ Tdms.Proofs.C01Multi.onlyChannelsHaveDataB exChange = true ∧
    Tdms.Proofs.C06Gen.noStringsB exChange = true ∧
    (encodeFile exChange).toOption.map (·.length) = some 442 := by decide +kernel

/-- `cut_lazy_eq_eager_general` applies to it, at every cut offset -/
example (K : Nat) (bytes : Bytes) (hb : encodeFile exChange = .ok bytes) (hK : K ≤ bytes.length) :
    ∃ c r', denote exChange = .ok c ∧ readFile (bytes.take K) = .ok r' ∧ LazyEqEager (bytes.take K) r' ∧
      (∀ oc ∈ c, valuesIn r'.channels oc.path <+: oc.values) ∧
      (∀ m ∈ r'.state.objects, m.numValues = (valuesIn r'.channels m.path).length) := by
  have hl := exChange_hyps.2.2.2.2
  rw [hb] at hl
  simp only [Except.toOption, Option.map_some, Option.some.injEq] at hl
  exact cut_lazy_eq_eager_general_checked exChange exChange_hyps.1 exChange_hyps.2.1 exChange_hyps.2.2.1
    exChange_hyps.2.2.2.1 bytes hb (by rw [hl]; decide) K hK

/-- kernel evaluation of the model on `exChange`: eager prefix property and `len(channel)` (`cutOK`), lazy paths
    against the eager read (`lazyAgrees`), around the boundaries and inside truncated chunks -/
theorem exChange_cuts1 : [0, 28, 120, 144, 150, 155, 156, 190, 200, 201, 250].all (cutOK exChange) = true := by
  decide +kernel
theorem exChange_cuts2 : [300, 329, 340, 350, 358, 359, 400, 426, 430, 434, 441, 442].all (cutOK exChange) = true := by
  decide +kernel
theorem exChange_lazy1 : [144, 150, 155, 156, 200, 201, 329].all (lazyAgrees exChange) = true := by decide +kernel
theorem exChange_lazy2 : [340, 350, 358, 359, 430, 441, 442].all (lazyAgrees exChange) = true := by decide +kernel

end Example

end Tdms.Proofs.C06Lazy
