/-
  C01 ("reading returns exactly the content the file encodes"): the byte-level layer theorems.

  Every theorem has the shape "the model's decoder (Tdms/Model) applied to the spec's encoding
  (Tdms/Spec/Format.lean) returns the encoded thing and consumes exactly the encoded bytes", for an
  arbitrary byte order `e` and with no bound on sizes other than "the number fits its field".
  Helper lemmas live in `TdmsProofs/Lemmas/`.  Core Lean only.
-/
import TdmsProofs.Lemmas.BytesLemmas
import TdmsProofs.Lemmas.ValueLemmas
import TdmsProofs.Lemmas.LeadInLemmas
import TdmsProofs.Lemmas.DataLemmas
import TdmsProofs.Lemmas.MetaLemmas
import TdmsProofs.Lemmas.IndexLemmas
import TdmsProofs.Lemmas.InterleavedLemmas
import TdmsProofs.Lemmas.ContiguousLemmas
import TdmsProofs.Lemmas.ObjectLemmas

namespace Tdms.Proofs.C01

open Tdms Tdms.Generated Tdms.Model Tdms.Proofs.Bytes

/-! ## 1. integers and strings -/

theorem encLE_length (w n : Nat) : (encLE w n).length = w := Bytes.encLE_length w n
theorem encBE_length (w n : Nat) : (encBE w n).length = w := Bytes.encBE_length w n
theorem enc_length (e : Endian) (w n : Nat) : (enc e w n).length = w := Bytes.enc_length e w n

theorem decLE_encLE (w n : Nat) : decLE (encLE w n) = n % 2 ^ (8 * w) := Bytes.decLE_encLE w n
theorem decBE_encBE (w n : Nat) : decBE (encBE w n) = n % 2 ^ (8 * w) := Bytes.decBE_encBE w n
theorem dec_enc (e : Endian) (w n : Nat) : dec e (enc e w n) = n % 2 ^ (8 * w) := Bytes.dec_enc e w n

theorem dec_enc_of_lt (e : Endian) (w n : Nat) (h : n < 2 ^ (8 * w)) : dec e (enc e w n) = n :=
  Bytes.dec_enc_of_lt e h

theorem enc_big_eq_reverse_little (w n : Nat) : enc .big w n = (enc .little w n).reverse :=
  Bytes.enc_big_eq_reverse w n

theorem uN_enc (e : Endian) (w n : Nat) (rest : Bytes) :
    uN e w (enc e w n ++ rest) = .ok (n % 2 ^ (8 * w), rest) := Bytes.uN_enc e w n rest

theorem readString_encString (e : Endian) (s rest : Bytes) (h : s.length < 2 ^ 32) :
    readString e (encString e s ++ rest) = .ok (s, rest) := Bytes.readString_encString e s rest h

/-! ## 2. fixed-width values -/

/-- `swapAtoms` is an involution on values its atoms tile exactly -/
theorem swapAtoms_involutive (ws : List Nat) (v : Bytes) (h : ws.sum = v.length) :
    swapAtoms ws (swapAtoms ws v) = v := Bytes.swapAtoms_involutive ws v h

/-- kernel-checked fact over the generated table: the atoms of every fixed-width type tile it -/
theorem typeAtoms_tile_table :
    ∀ ti ∈ typeTable, ∀ s, ti.size = some s → (typeAtoms ti.code).sum = s := table_atoms_sum

/-- the fixed-width types are exactly these sixteen -/
theorem fixed_width_codes :
    (typeTable.filter (·.size.isSome)).map (·.code) =
      [1, 2, 3, 4, 5, 6, 7, 8, 9, 10, 25, 26, 33, 68, 524300, 1048589] := table_fixed_codes

/-- for every type code with a fixed size and every value of that size, decoding the stored bytes
    gives the value back — in either byte order -/
theorem canonValue_storeValue (e : Endian) (ty s : Nat) (h : typeSize ty = some s) (v : Bytes)
    (hv : v.length = s) : canonValue e ty (storeValue e ty v) = v :=
  Bytes.canonValue_storeValue e h v hv

theorem storeValue_length (e : Endian) (ty s : Nat) (h : typeSize ty = some s) (v : Bytes)
    (hv : v.length = s) : (storeValue e ty v).length = s := Bytes.storeValue_length e h v hv

/-! ## 3. properties -/

/-- the reader returns name, type and value; a Boolean value is normalised to `[0]`/`[1]`,
    every other value is returned byte for byte in canonical (little-endian) form -/
theorem readProperty_encProp (e : Endian) (p : PropEnc) (rest : Bytes) (hwf : wfProp p = true)
    (hname : p.name.length < 2 ^ 32) (hval : p.ty = tyString → p.val.length < 2 ^ 32) :
    readProperty e (encProp e p ++ rest) =
      .ok (⟨p.name, p.ty,
            if p.ty = tyBoolean then [if decLE p.val = 0 then 0 else 1] else p.val⟩, rest) :=
  Bytes.readProperty_encProp e p rest hwf ⟨hname, hval⟩

theorem readProperties_encProps (e : Endian) (props : List PropEnc) (rest : Bytes)
    (hwf : ∀ p ∈ props, wfProp p = true) (hfit : ∀ p ∈ props, propFits p) :
    readProperties e props.length (props.flatMap (encProp e) ++ rest) =
      .ok (props.map canonProp, rest) := Bytes.readProperties_encProps e props rest hwf hfit

/-! ## 4. raw-data index -/

/-- the first four bytes of an index: `rawDataIndexNoData`, `rawDataIndexMatchesPrevious`, the
    length (20 / 28) of a standard index, or the DAQmx scaler kind -/
theorem uN_encIdx_header (e : Endian) (i : IdxEnc) (rest : Bytes) :
    uN e 4 (encIdx e i ++ rest) = .ok (idxHeader i, (encIdx e i).drop 4 ++ rest) := by
  rw [← idxBody_eq_drop]; exact Bytes.uN_encIdx_header e i rest

theorem idxHeader_noData : idxHeader .noData = rawDataIndexNoData := rfl
theorem idxHeader_matchesPrev : idxHeader .matchesPrev = rawDataIndexMatchesPrevious := rfl
theorem encIdx_noData (e : Endian) : encIdx e .noData = enc e 4 rawDataIndexNoData := rfl
theorem encIdx_matchesPrev (e : Endian) :
    encIdx e .matchesPrev = enc e 4 rawDataIndexMatchesPrevious := rfl

/-- standard index: `numberValues = n`, `dataType = some ty`, `dataSize = total` for strings and
    `n * size` for fixed-width types; exactly the index is consumed -/
theorem readStdIndex_encIdx (e : Endian) (o : SegObj) (ty n total : Nat) (rest : Bytes)
    (hwf : wfIdx (.full ty n total) = true) (htot : ty = tyString → total < 2 ^ 64) :
    readStdIndex e o ((encIdx e (.full ty n total)).drop 4 ++ rest) =
      .ok ({ o with numberValues := n, dataType := some ty,
                    dataSize := if ty = tyString then total else n * (typeSize ty).getD 0 }, rest) := by
  rw [← idxBody_eq_drop]; exact readStdIndex_full e o ty n total rest hwf htot

theorem readScalers_encScalers (e : Endian) (dg : Bool) (scalers : List ScalerEnc) (rest : Bytes)
    (hfit : ∀ s ∈ scalers, scalerFits dg s)
    (hty : ∀ s ∈ scalers, (daqmxTypeCode s.daqType).isSome = true) :
    readScalers e dg scalers.length (scalers.flatMap (encScaler e dg) ++ rest) =
      .ok (scalers.map (daqScalerOf dg), rest) := readScalers_enc e dg scalers rest hfit hty

theorem readWidths_encWidths (e : Endian) (widths : List Nat) (rest : Bytes)
    (h : ∀ w ∈ widths, w < 2 ^ 32) :
    readWidths e widths.length (widths.flatMap (enc e 4) ++ rest) = .ok (widths, rest) :=
  readWidths_enc e widths rest h

/-- DAQmx index (both record layouts: 20-byte format-changing and 17-byte digital-line scalers) -/
theorem readDaqmxIndex_encIdx (e : Endian) (o : SegObj) (dg : Bool) (ty n : Nat)
    (scalers : List ScalerEnc) (widths : List Nat) (rest : Bytes)
    (hwf : wfIdx (.daqmx dg ty n scalers widths) = true)
    (hfit : idxFits (.daqmx dg ty n scalers widths)) :
    readDaqmxIndex e (if dg then digitalLineScaler else formatChangingScaler) o
        ((encIdx e (.daqmx dg ty n scalers widths)).drop 4 ++ rest) =
      .ok ({ o with numberValues := n, dataType := some ty,
                    daq := some ⟨n, widths, scalers.map (daqScalerOf dg)⟩ }, rest) := by
  rw [← idxBody_eq_drop]; exact readDaqmxIndex_enc e o dg ty n scalers widths rest hwf hfit

/-! ## 5. lead-in -/

theorem hasFlag_tocMask :
    ∀ s : SegEnc,
      hasFlag (tocMask s) kTocMetaData = s.hasMeta ∧ hasFlag (tocMask s) kTocNewObjList = s.newList ∧
      hasFlag (tocMask s) kTocRawData = s.rawFlag ∧
      hasFlag (tocMask s) kTocInterleavedData = s.interleaved ∧
      hasFlag (tocMask s) kTocBigEndian = s.big ∧ hasFlag (tocMask s) kTocDAQmxRawData = s.daqmxFlag :=
  fun s => ⟨hasFlag_tocMask_meta s, hasFlag_tocMask_newList s, hasFlag_tocMask_raw s,
    hasFlag_tocMask_interleaved s, hasFlag_tocMask_big s, hasFlag_tocMask_daqmx s⟩

/-- kernel-checked fact over the generated constants -/
theorem toc_flags_are_distinct_powers_of_two :
    kTocMetaData = 2 ^ 1 ∧ kTocNewObjList = 2 ^ 2 ∧ kTocRawData = 2 ^ 3 ∧
    kTocInterleavedData = 2 ^ 5 ∧ kTocBigEndian = 2 ^ 6 ∧ kTocDAQmxRawData = 2 ^ 7 := toc_flags_powers

/-- general lemma behind `hasFlag_tocMask` -/
theorem hasFlag_reads_bit (k lo hi : Nat) (b : Bool) (hlo : lo < 2 ^ k) :
    hasFlag (lo + 2 ^ k * (b.toNat + 2 * hi)) (2 ^ k) = b := hasFlag_bit k lo hi b hlo

theorem segment_endian_decoded (s : SegEnc) :
    (if hasFlag (tocMask s) kTocBigEndian then Endian.big else Endian.little) = s.endian :=
  segEndian_of_tocMask s

theorem readLeadIn_encLeadIn (s : SegEnc) (metaLen rawLen pos size : Nat) (rest : Bytes)
    (hu : s.lengthUnknown = false) (hver : s.version < 2 ^ 31) (hm : metaLen < 2 ^ 63)
    (hr : rawLen < 2 ^ 63) (hsize : pos + 28 + metaLen + rawLen ≤ size) :
    readLeadIn (encLeadIn tagData s metaLen rawLen ++ rest) pos false (some size) =
      .ok (some { toc := tocMask s, version := s.version, dataPosition := pos + 28 + metaLen,
                  nextSegmentPos := pos + 28 + metaLen + rawLen, incomplete := false }) := by
  unfold encLeadIn
  simp only [hu, Bool.false_eq_true, if_false]
  rw [readLeadIn_fields s (metaLen + rawLen) metaLen pos (some size) rest hver (by omega) (by omega)]
  have h1 : ¬ metaLen + rawLen = 2 ^ 64 - 1 := by omega
  have h2 : ¬ pos + 28 + metaLen + rawLen > size := by omega
  have h3 : pos + (metaLen + rawLen) + 28 = pos + 28 + metaLen + rawLen := by omega
  simp only [if_neg h1, h3, if_neg h2]

theorem readLeadIn_encLeadIn_lengthUnknown (s : SegEnc) (metaLen rawLen pos size : Nat) (rest : Bytes)
    (hu : s.lengthUnknown = true) (hver : s.version < 2 ^ 31) (hm : metaLen < 2 ^ 63)
    (hsize : pos + 28 + metaLen ≤ size) :
    readLeadIn (encLeadIn tagData s metaLen rawLen ++ rest) pos false (some size) =
      .ok (some { toc := tocMask s, version := s.version, dataPosition := pos + 28 + metaLen,
                  nextSegmentPos := size, incomplete := true }) := by
  unfold encLeadIn
  simp only [hu, if_true]
  rw [readLeadIn_fields s (2 ^ 64 - 1) metaLen pos (some size) rest hver (by omega) (by omega)]
  have h2 : ¬ size < pos + 28 + metaLen := by omega
  simp only [if_true, if_neg h2]

/-! ## 6. contiguous data -/

theorem splitEvery_flatten (sz n : Nat) (hsz : 0 < sz) (vals : List Bytes)
    (h : ∀ v ∈ vals, v.length = sz) (hn : vals.length = n) :
    splitEvery sz n vals.flatten = vals := Bytes.splitEvery_flatten hsz vals h hn

/-- fixed-width values: the reader returns the values, advances by `n * sz`, and records one read -/
theorem readValues_encObjValues_fixed (file : Bytes) (e : Endian) (o : SegObj) (ty sz : Nat)
    (vals : List Bytes) (pos : Nat) (tr : List (Nat × Nat))
    (hty : o.dataType = some ty) (hsz : typeSize ty = some sz) (hv : ∀ v ∈ vals, v.length = sz)
    (hfile : (file.drop pos).take (vals.length * sz) = encObjValues e ty vals) :
    (readValues file e o vals.length).run ⟨pos, tr⟩ =
      .ok (vals, ⟨pos + vals.length * sz, tr ++ [(pos, vals.length * sz)]⟩) :=
  readValues_fixed file e o vals pos tr hty hsz hv hfile

/-- strings: offset table = cumulative lengths, then the concatenated bytes -/
theorem readStringValues_encObjValues (file : Bytes) (e : Endian) (vals : List Bytes) (pos : Nat)
    (tr : List (Nat × Nat)) (rest : Bytes) (hlen : vals.flatten.length < 2 ^ 32)
    (hfile : file.drop pos = encObjValues e tyString vals ++ rest) :
    ∃ tr', (readStringValues file e vals.length).run ⟨pos, tr⟩ =
      .ok (vals, ⟨pos + (encObjValues e tyString vals).length, tr'⟩) :=
  readStringValues_ok file e vals pos tr rest hlen hfile

theorem readValues_encObjValues_string (file : Bytes) (e : Endian) (o : SegObj) (vals : List Bytes)
    (pos : Nat) (tr : List (Nat × Nat)) (rest : Bytes) (hty : o.dataType = some tyString)
    (hlen : vals.flatten.length < 2 ^ 32)
    (hfile : file.drop pos = encObjValues e tyString vals ++ rest) :
    ∃ tr', (readValues file e o vals.length).run ⟨pos, tr⟩ =
      .ok (vals, ⟨pos + (encObjValues e tyString vals).length, tr'⟩) :=
  readValues_string file e o vals pos tr rest hty hlen hfile

/-- a whole contiguous chunk (fixed-width and string objects mixed, `override = none`): every
    object gets its values, and exactly the chunk is consumed -/
theorem readContiguousChunk_encChunkContiguous (file : Bytes) (s : Segment) (ci : Nat)
    (hov : s.override = none) (objs : List SegObj) (aobjs : List ActiveObj)
    (vals : List (List Bytes)) (acc : RawChunk) (pos : Nat) (tr : List (Nat × Nat)) (rest : Bytes)
    (h : contOK objs aobjs vals)
    (hfile : file.drop pos = encChunkContiguous s.endian aobjs vals ++ rest) :
    ∃ tr', (readContiguousChunk file s ci objs acc).run ⟨pos, tr⟩ =
      .ok (setCols acc objs vals, ⟨pos + (encChunkContiguous s.endian aobjs vals).length, tr'⟩) :=
  readContiguousChunk_enc file s ci hov objs aobjs vals acc pos tr rest h hfile

theorem encObjValues_string_size (e : Endian) (vals : List Bytes) :
    (encObjValues e tyString vals).length = 4 * vals.length + vals.flatten.length :=
  encObjValues_string_length e vals

/-! ## 7. interleaved data -/

/-- every object gets back its column: `setCols [] objs vals` stores `vals[i]` under `objs[i].path`,
    in order -/
theorem interleavedColumns_encChunkInterleaved (e : Endian) (n : Nat) (objs : List SegObj)
    (aobjs : List ActiveObj) (vals : List (List Bytes)) (h : colsOK n objs aobjs vals) :
    interleavedColumns e (splitEvery (rowWidth aobjs) n (encChunkInterleaved e aobjs vals)) 0 objs [] =
      .ok (setCols [] objs vals) := interleavedColumns_encChunk e n objs aobjs vals h

/-- with pairwise distinct paths the result is the list of `(path, column)` pairs, in order -/
theorem setCols_of_distinct_paths (objs : List SegObj) (vals : List (List Bytes))
    (hnd : (objs.map (·.path)).Nodup) :
    setCols [] objs vals =
      (objs.zip vals).map fun ov => (ov.1.path, ({ data := some ov.2 } : ChanChunk)) := by
  have := setCols_distinct objs [] vals hnd (fun _ _ x hx => by simp at hx)
  simpa using this

/-- value `j` of object `i` sits at byte `j·W + Σ_{i' < i} size_{i'}` of the chunk -/
theorem interleaved_value_position (e : Endian) (n : Nat) (objs : List SegObj)
    (aobjs : List ActiveObj) (vals : List (List Bytes)) (h : colsOK n objs aobjs vals) (i j : Nat)
    (hi : i < aobjs.length) (hj : j < n) :
    ((encChunkInterleaved e aobjs vals).drop (j * rowWidth aobjs + rowWidth (aobjs.take i))).take
        ((typeSize (aTy aobjs[i])).getD 0) =
      storeValue e (aTy aobjs[i]) ((vals.getD i []).getD j []) :=
  interleaved_value_at e h i j hi hj

/-- the interleaved reader on one encoded chunk: one read of `W·n` bytes -/
theorem readInterleavedChunks_encChunkInterleaved (file : Bytes) (s : Segment) (o : SegObj)
    (os : List SegObj) (aobjs : List ActiveObj) (vals : List (List Bytes)) (n pos : Nat)
    (tr : List (Nat × Nat)) (hcols : colsOK n (o :: os) aobjs vals)
    (hnv : ∀ x ∈ o :: os, x.numberValues = n)
    (hfile : (file.drop pos).take (rowWidth aobjs * n) = encChunkInterleaved s.endian aobjs vals) :
    (readInterleavedChunks file s (o :: os) 1).run ⟨pos, tr⟩ =
      .ok ([setCols [] (o :: os) vals],
        ⟨pos + rowWidth aobjs * n, tr ++ [(pos, rowWidth aobjs * n)]⟩) :=
  readInterleavedChunks_one file s o os aobjs vals n pos tr hcols hnv hfile

/-! ## 9. (optional layer) the metadata object loop, for objects new to the reader -/

theorem readOneObject_encObj (e : Endian) (o : ObjEnc) (ordered : List SegObj) (rest : Bytes)
    (hwf : wfObj o = true) (hfit : objFits o) :
    readOneObject e none [] ordered (encObj e o ++ rest) =
      .ok ((ordered ++ [segObjOf o], o.path, o.props.map canonProp), rest) :=
  Bytes.readOneObject_encObj e o ordered rest hwf hfit

/-- one `SegObj` per object, in order, and the properties dictionary -/
theorem readObjects_encObjs (e : Endian) (objs : List ObjEnc) (rest : Bytes)
    (hwf : ∀ o ∈ objs, wfObj o = true) (hfit : ∀ o ∈ objs, objFits o) :
    readObjects e none [] objs.length [] [] (objs.flatMap (encObj e) ++ rest) =
      .ok ((objs.map segObjOf, addProps [] objs), rest) := by
  have := Bytes.readObjects_encObjs e objs [] [] rest hwf hfit
  simpa using this

/-- with `noDupPaths` (part of `wfSeg`) the dictionary lists, in order, the objects that carry
    properties -/
theorem readObjects_encObjs_noDup (e : Endian) (objs : List ObjEnc) (rest : Bytes)
    (hwf : ∀ o ∈ objs, wfObj o = true) (hfit : ∀ o ∈ objs, objFits o)
    (hnd : noDupPaths objs = true) :
    readObjects e none [] objs.length [] [] (objs.flatMap (encObj e) ++ rest) =
      .ok ((objs.map segObjOf,
            (objs.filter fun o => !o.props.isEmpty).map fun o => (o.path, o.props.map canonProp)),
           rest) := by
  rw [readObjects_encObjs e objs rest hwf hfit,
    addProps_noDup objs [] hnd (fun _ _ x hx => by simp at hx)]
  simp

/-- the metadata block of a segment (`uN e 4` then the object loop, as in `readSegmentObjects`) -/
theorem readMeta_encMeta (e : Endian) (objs : List ObjEnc) (rest : Bytes)
    (hlen : objs.length < 2 ^ 32) (hwf : ∀ o ∈ objs, wfObj o = true) (hfit : ∀ o ∈ objs, objFits o) :
    (do let n ← uN e 4; readObjects e none [] n [] []) (encMeta e objs ++ rest) =
      .ok ((objs.map segObjOf, addProps [] objs), rest) :=
  Bytes.readMeta_encMeta e objs rest hlen hwf hfit

end Tdms.Proofs.C01
