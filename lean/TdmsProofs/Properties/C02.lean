import TdmsProofs.Lemmas.C02File
import TdmsProofs.Lemmas.C02Explicit
import TdmsProofs.Lemmas.C02Wf
import TdmsProofs.Lemmas.C02NoDaq
import TdmsProofs.Model.MetaLoop
import TdmsProofs.Lemmas.C02Parse

/-!
# C02 — Segment metadata inheritance never changes what is read

Headline theorems and non-vacuity examples only.  Definitions and the equivalence of the pure state
machine with the model are in `TdmsProofs/Model/MetaMachine.lean`; lemmas in
`TdmsProofs/Lemmas/C02Basic.lean`, `C02Lemmas.lean`, `C02File.lean`, `C02Explicit.lean`.

Vocabulary
* `applyHeader`, `runHeaders`, `segObjects`, `fileMachine` — the object-list state machine of
  `readOneObject` / `readObjects` / `readSegmentObjects` / `readMetadataLoop`, without byte parsing;
  proved equal to the model in `readOneObject_factor`, `readObjects_factor`, `readObjects_of_parse`,
  `readSegmentObjects_eq` (MetaMachine.lean).
* `concObj : ActiveObj → SegObj` — the segment object the reader holds for an active object of the
  spec; `absObj : SegObj → ActiveObj` is its left inverse (`absObj_concObj`).
* `FileInv seen prev last st` — the representation invariant between segments.
* `NoBareReuse` — the hypothesis that excludes the one divergence.
-/

namespace Tdms.Proofs.C02

open Tdms Tdms.Model Tdms.Generated

/-! ## 1. The parser factors out of the state machine -/

/-- `readOneObject` = read path; read header; classify/parse the header (`readHdr`); pure step
    `applyHeader`; read the properties. (`Keyed` holds in every reachable state: `FileInv.keyed`.) -/
theorem c02_readOneObject_factor (e : Endian) (existing : Option (List SegObj)) (prevObjs : PrevObjs)
    (hk : Keyed prevObjs) (ordered : List SegObj) :
    readOneObject e existing prevObjs ordered = (do
      let path ← readString e
      let header ← uN e 4
      let h ← readHdr e path header
      let ordered' ← liftE (applyHeader existing prevObjs ordered path h)
      let nProps ← uN e 4
      let props ← readProperties e nProps
      pure (ordered', path, props)) :=
  readOneObject_factor e existing prevObjs hk ordered

/-- When the metadata block parses, the model's object loop IS the pure machine on the parsed headers. -/
theorem c02_readObjects_of_parse (e : Endian) (existing : Option (List SegObj)) (prevObjs : PrevObjs)
    (hk : Keyed prevObjs) (k : Nat) (bs rest : Bytes) (items : List Item) (ordered : List SegObj)
    (props : List (Bytes × List PropVal)) (h : parseObjs e k bs = .ok (items, rest)) :
    readObjects e existing prevObjs k ordered props bs =
      match runHeaders existing prevObjs ordered (items.map fun it => (it.path, it.hdr)) with
      | .ok o' => .ok ((o', foldProps props items), rest)
      | .error err => .error err :=
  readObjects_of_parse e existing prevObjs hk k bs rest items ordered props h

/-- `hdrOf` is the header the model's parser produces on the bytes the spec's encoder writes for a
    listed index (all four kinds; `idxFits` = the fields fit their slots). -/
theorem c02_hdrOf_is_parsed (e : Endian) (path rest : Bytes) (idx : IdxEnc)
    (hwf : wfIdx idx = true) (hfit : idxFits idx) :
    (do let header ← uN e 4; readHdr e path header : P Hdr) (encIdx e idx ++ rest) =
      .ok (hdrOf path idx, rest) :=
  readHdr_encIdx e path rest idx hwf hfit

/-! ## 3. Refinement, one segment -/

/-- **`meta_refines_spec`.**  In any state related to the spec's by the invariant, for a segment with
    metadata whose listing has no duplicate paths and does not hit the divergence: running
    `applyHeader` over the listed objects from the model's start state yields the concretisation of
    the spec's active list; it yields `reuseUnseen` when the spec rejects with
    `reuseOfUndefinedIndex`; and the spec rejects in no other way than these two. -/
theorem meta_refines_spec {seen : List Bytes} {prev : Option (List ActiveObj)} {last : LastIdx}
    {st : MState} (hinv : FileInv seen prev last st) (s : SegEnc) (hm : s.hasMeta = true)
    (hnd : noDupPaths s.objs = true) (hdiv : NoBareReuseSeg seen last s) :
    match resolveObjs last (if s.newList then [] else prev.getD []) s.objs with
    | .ok (act, _) =>
      runHeaders (modelStart st.prevSeg s.newList).2 st.prevObjs (modelStart st.prevSeg s.newList).1
        (hdrsRaw s.objs) = .ok (act.map concObj)
    | .error r =>
      (r = .reuseOfUndefinedIndex ∨ r = .typeChanged) ∧
      (r = .reuseOfUndefinedIndex →
        runHeaders (modelStart st.prevSeg s.newList).2 st.prevObjs (modelStart st.prevSeg s.newList).1
          (hdrsRaw s.objs) = .error .reuseUnseen) := by
  have hseg := segObjects_refines hinv s hnd hdiv
  rw [segObjects_meta _ _ _ (by exact hm)] at hseg
  have hL : activeOfSegL prev last s = resolveObjsL last (if s.newList then [] else prev.getD []) s.objs := by
    unfold activeOfSegL; simp [hm]
  rw [hL] at hseg
  cases hres : resolveObjs last (if s.newList then [] else prev.getD []) s.objs with
  | ok al =>
    obtain ⟨act, last'⟩ := al
    rw [resolveObjs_ok_L _ _ _ _ hres] at hseg
    exact hseg.1
  | error r =>
    simp only []
    rcases resolveObjs_err _ _ _ _ hres hnd with ⟨h1, h2⟩ | ⟨h1, _⟩
    · refine ⟨Or.inl h1, fun _ => ?_⟩
      rw [h2] at hseg
      rcases hseg with ⟨h, _⟩ | ⟨_, _, h⟩
      · cases h
      · exact h
    · refine ⟨Or.inr h1, fun h => ?_⟩
      rw [h1] at h; cases h

/-- **`meta_refines_spec` with `hdrOf`** — the headers as `newIndexedObject` produces them
    (`c02_hdrOf_is_parsed`): the never-written `total` of non-string indexes is normalised
    (`canonObj`) on the spec side. -/
theorem meta_refines_spec_hdrOf {seen : List Bytes} {prev : Option (List ActiveObj)} {last : LastIdx}
    {st : MState} (hinv : FileInv seen prev last st) (s : SegEnc) (hm : s.hasMeta = true)
    (hnd : noDupPaths s.objs = true) (hdiv : NoBareReuseSeg seen last (canonSeg s)) :
    match resolveObjs last (if s.newList then [] else prev.getD []) (s.objs.map canonObj) with
    | .ok (act, _) =>
      runHeaders (modelStart st.prevSeg s.newList).2 st.prevObjs (modelStart st.prevSeg s.newList).1
        (hdrsOf s.objs) = .ok (act.map concObj)
    | .error r =>
      (r = .reuseOfUndefinedIndex ∨ r = .typeChanged) ∧
      (r = .reuseOfUndefinedIndex →
        runHeaders (modelStart st.prevSeg s.newList).2 st.prevObjs (modelStart st.prevSeg s.newList).1
          (hdrsOf s.objs) = .error .reuseUnseen) := by
  have hnd' : noDupPaths (canonSeg s).objs = true := by
    rw [noDupPaths_iff] at hnd ⊢
    simpa [canonSeg, canonObj, Function.comp_def] using hnd
  have := meta_refines_spec hinv (canonSeg s) hm hnd' hdiv
  rw [hdrsOf_eq]
  exact this

/-- **The same, read through `absObj`** (`ordered'.map absObj = active list`), for active lists whose
    DAQmx descriptions `absObj` can recover (`wfDesc`, implied by the spec's `wfIdx`). -/
theorem meta_refines_spec_abs {seen : List Bytes} {prev : Option (List ActiveObj)} {last : LastIdx}
    {st : MState} (hinv : FileInv seen prev last st) (s : SegEnc) (hm : s.hasMeta = true)
    (hnd : noDupPaths s.objs = true) (hdiv : NoBareReuseSeg seen last s)
    {act : List ActiveObj} {last' : LastIdx}
    (hres : resolveObjs last (if s.newList then [] else prev.getD []) s.objs = .ok (act, last'))
    (hwf : ∀ a ∈ act, ∀ d, a.idx = some d → wfDesc d) :
    ∃ ordered', runHeaders (modelStart st.prevSeg s.newList).2 st.prevObjs
        (modelStart st.prevSeg s.newList).1 (hdrsRaw s.objs) = .ok ordered' ∧
      ordered'.map absObj = act := by
  have := meta_refines_spec hinv s hm hnd hdiv
  rw [hres] at this
  exact ⟨_, this, map_absObj_concObj act hwf⟩

/-- **`reuseUnseen` exactly when …**  Under the same hypotheses the model's object loop fails with
    `reuseUnseen` iff the spec (type check aside) fails with `reuseOfUndefinedIndex`; and that
    happens at a listed object `o` with header "matches previous" whose path has no index and has
    never been seen before. -/
theorem meta_reuseUnseen_iff {seen : List Bytes} {prev : Option (List ActiveObj)} {last : LastIdx}
    {st : MState} (hinv : FileInv seen prev last st) (s : SegEnc) (hm : s.hasMeta = true)
    (hnd : noDupPaths s.objs = true) (hdiv : NoBareReuseSeg seen last s) :
    (runHeaders (modelStart st.prevSeg s.newList).2 st.prevObjs (modelStart st.prevSeg s.newList).1
        (hdrsRaw s.objs) = .error .reuseUnseen ↔
      resolveObjsL last (if s.newList then [] else prev.getD []) s.objs = .error .reuseOfUndefinedIndex) ∧
    (resolveObjsL last (if s.newList then [] else prev.getD []) s.objs = .error .reuseOfUndefinedIndex →
      ∃ pre o post, s.objs = pre ++ o :: post ∧ o.idx = .matchesPrev ∧ last.get o.path = none ∧
        o.path ∉ seen) := by
  have hseg := segObjects_refines hinv s hnd hdiv
  rw [segObjects_meta _ _ _ (by exact hm)] at hseg
  have hL : activeOfSegL prev last s = resolveObjsL last (if s.newList then [] else prev.getD []) s.objs := by
    unfold activeOfSegL; simp [hm]
  rw [hL] at hseg
  simp only [descOfSegRaw] at hseg
  constructor
  · constructor
    · intro hrun
      cases hres : resolveObjsL last (if s.newList then [] else prev.getD []) s.objs with
      | ok al =>
        obtain ⟨a, l'⟩ := al
        rw [hres] at hseg
        rw [hseg.1] at hrun
        cases hrun
      | error r => rw [resolveObjsL_err _ _ _ _ hres]
    · intro hres
      rw [hres] at hseg
      rcases hseg with ⟨h, _⟩ | ⟨_, _, h⟩
      · cases h
      · exact h
  · intro hres
    obtain ⟨pre, o, post, act1, last1, h1, h2, h3, h4⟩ := resolveObjsL_err_split _ _ _ _ hres
    have hnd' := (noDupPaths_iff s.objs).1 hnd
    rw [h1, List.map_append, List.map_cons, List.nodup_append] at hnd'
    have hlast : last.get o.path = none := by
      rw [← resolveObjsL_unlisted pre _ _ _ _ o.path h2 ?_]
      · exact h4
      · intro o' ho' hp
        exact hnd'.2.2 o'.path (List.mem_map.2 ⟨o', ho', rfl⟩) o.path (List.mem_cons_self ..) hp
    refine ⟨pre, o, post, h1, h3, hlast, ?_⟩
    exact hdiv hm o (by rw [h1]; simp) h3 hlast

/-- **The one divergence** (general form).  A path the reader has seen (`prevObjs` knows it) but that
    has never had an index (`LastIdx` does not), listed as "matches previous": the spec rejects with
    `reuseOfUndefinedIndex`; the model accepts and places an object with `hasData = true`,
    `numberValues = 0`, `dataType = none`. -/
theorem meta_divergence {act0 : List ActiveObj} {last0 : LastIdx} {prevObjs : PrevObjs}
    {existing : Option (List SegObj)} (hpre : SegPre act0 last0 prevObjs existing)
    {o : ObjEnc} {os : List ObjEnc} {act : List ActiveObj} {last : LastIdx}
    (hinv : LoopInv act0 last0 (o :: os) act last)
    (hidx : o.idx = .matchesPrev) (hlast : last0.get o.path = none)
    (hseen : prevObjs.get o.path ≠ none) :
    resolveObj last o = .error .reuseOfUndefinedIndex ∧
    applyHeader existing prevObjs (act.map concObj) o.path .matchesPrev =
      .ok ((placeObj act ⟨o.path, true, none⟩).map concObj) ∧
    concObj ⟨o.path, true, none⟩ =
      { path := o.path, hasData := true, numberValues := 0, dataSize := 0, dataType := none, daq := none } :=
  divergence_step hpre hinv hidx hlast hseen

/-! ## 3. Refinement, whole file -/

/-- **Whole file, headers as written.**  From the empty reader state, for every encoding whose
    listings have no duplicate paths and which never hits the divergence:
    * the spec accepts ⇒ the model's object lists are the concretisations of the spec's active lists
      (or the model stops at its DAQmx scaler-type check, which the spec does not have);
    * the spec rejects with `r` ⇒ the model fails as `ErrRel r` says:
      `firstSegmentWithoutMetadata ↦ noPrevSegment`, `reuseOfUndefinedIndex ↦ reuseUnseen`,
      `typeChanged ↦ typeChanged` (from `updateObjectMetadata`) or `reuseUnseen` (a later object of the
      same segment — the model checks types only after the object loop). -/
theorem file_refines_spec_raw (e : FileEnc) (inputs : List SegInput)
    (hin : InputsFor descOfSegRaw e inputs) (hnd : ∀ s ∈ e, noDupPaths s.objs = true)
    (hdiv : NoBareReuse [] none [] e) :
    match activeLists none [] e with
    | .ok acts =>
      fileMachine {} inputs = .ok (acts.map (·.map concObj)) ∨
        fileMachine {} inputs = .error .scalerTypesChanged
    | .error r => ErrRel r (fileMachine {} inputs) :=
  file_refines e inputs [] none [] {} hin FileInv.init hnd hdiv

/-- **Whole file, headers as `newIndexedObject` produces them** (`hdrOf`: `dataSize = total` for
    strings, `n * size` otherwise).  The `total` field of a non-string index is never written
    (`encIdx`), so it is normalised first (`canonSeg`). -/
theorem file_refines_spec (e : FileEnc) (inputs : List SegInput)
    (hin : InputsFor descOfSeg e inputs) (hnd : ∀ s ∈ e, noDupPaths s.objs = true)
    (hdiv : NoBareReuse [] none [] (e.map canonSeg)) :
    match activeLists none [] (e.map canonSeg) with
    | .ok acts =>
      fileMachine {} inputs = .ok (acts.map (·.map concObj)) ∨
        fileMachine {} inputs = .error .scalerTypesChanged
    | .error r => ErrRel r (fileMachine {} inputs) := by
  apply file_refines_spec_raw (e.map canonSeg) inputs (inputsFor_canon e inputs hin) _ hdiv
  intro s hs
  rw [List.mem_map] at hs
  obtain ⟨s0, hs0, rfl⟩ := hs
  have := hnd s0 hs0
  rw [noDupPaths_iff] at this ⊢
  simpa [canonSeg, canonObj, Function.comp_def] using this

/-- **Whole file, through `absObj`.**  For encodings whose listed indexes satisfy the spec's `wfIdx`:
    when the spec accepts, the model's object lists abstract to exactly the spec's active lists
    (unless the model stops at its DAQmx scaler-type check). -/
theorem file_refines_spec_abs (e : FileEnc) (inputs : List SegInput)
    (hin : InputsFor descOfSegRaw e inputs) (hnd : ∀ s ∈ e, noDupPaths s.objs = true)
    (hdiv : NoBareReuse [] none [] e) (hwf : ∀ s ∈ e, ∀ o ∈ s.objs, wfIdx o.idx = true)
    (acts : List (List ActiveObj)) (hacts : activeLists none [] e = .ok acts) :
    (∃ l, fileMachine {} inputs = .ok l ∧ l.map (·.map absObj) = acts) ∨
      fileMachine {} inputs = .error .scalerTypesChanged := by
  have h := file_refines_spec_raw e inputs hin hnd hdiv
  rw [hacts] at h
  rcases h with h | h
  · exact Or.inl ⟨_, h, map_map_absObj_concObj acts (activeLists_wfDesc e acts hacts hwf)⟩
  · exact Or.inr h

/-- **Whole file, no DAQmx: exact.**  Without DAQmx indexes the model never raises
    `scalerTypesChanged`, and the correspondence is an equation in every case. -/
theorem file_refines_spec_exact (e : FileEnc) (inputs : List SegInput)
    (hin : InputsFor descOfSegRaw e inputs) (hnd : ∀ s ∈ e, noDupPaths s.objs = true)
    (hdiv : NoBareReuse [] none [] e) (hnq : NoDaqmx e) :
    match activeLists none [] e with
    | .ok acts => fileMachine {} inputs = .ok (acts.map (·.map concObj))
    | .error .firstSegmentWithoutMetadata => fileMachine {} inputs = .error .noPrevSegment
    | .error .reuseOfUndefinedIndex => fileMachine {} inputs = .error .reuseUnseen
    | .error .typeChanged =>
      fileMachine {} inputs = .error .typeChanged ∨ fileMachine {} inputs = .error .reuseUnseen
    | .error _ => False := by
  have h := file_refines_spec_raw e inputs hin hnd hdiv
  have hno := fileMachine_noDaq inputs {} NoDaq.init (inputs_noDaq e inputs hin hnq)
  cases ha : activeLists none [] e with
  | ok acts =>
    rw [ha] at h
    rcases h with h | h
    · exact h
    · exact absurd h hno
  | error r =>
    rw [ha] at h
    rcases h with h | ⟨h1, h⟩ | ⟨h1, h⟩ | ⟨h1, h⟩
    · exact absurd h hno
    · subst h1; exact h
    · subst h1; exact h
    · subst h1; exact h

/-- a first segment without metadata: the spec says `firstSegmentWithoutMetadata`, the model
    `noPrevSegment` — exactly, whatever follows -/
theorem first_segment_without_metadata (s : SegEnc) (ss : List SegEnc) (i : SegInput) (is : List SegInput)
    (hi : i.desc.hasMeta = false) (hs : s.hasMeta = false) :
    activeLists none [] (s :: ss) = .error .firstSegmentWithoutMetadata ∧
    fileMachine {} (i :: is) = .error .noPrevSegment := by
  constructor
  · simp [activeLists, activeOfSeg, hs]
  · apply fileMachine_cons_err
    apply fileStep_err_seg
    simp [segObjects, hi]

/-! ## 4. Encoding invariance -/

/-- **`explicit_same_active`.**  The fully explicit normal form has the same active lists. -/
theorem explicit_same_active (e e' : FileEnc) (hnd : ∀ s ∈ e, noDupPaths s.objs = true)
    (h : explicit e = .ok e') : activeLists none [] e' = activeLists none [] e := by
  unfold explicit at h
  cases ha : activeLists none [] e with
  | error r => rw [ha] at h; cases h
  | ok acts =>
    rw [ha] at h
    cases h
    exact explicit_active e none [] acts none [] ha SpecInv.init (fun _ => rfl) hnd

/-- the same in any context: any previous list, any `LastIdx`, and any `LastIdx` answering alike for
    the explicit form -/
theorem explicit_same_active_ctx (ss : List SegEnc) (prev prevE : Option (List ActiveObj))
    (last lastE : LastIdx) (acts : List (List ActiveObj))
    (h : activeLists prev last ss = .ok acts) (hinv : SpecInv prev last) (hE : LastEquiv lastE last)
    (hnd : ∀ s ∈ ss, noDupPaths s.objs = true) :
    activeLists prevE lastE (explicitSegs ss acts) = .ok acts :=
  explicit_active ss prev last acts prevE lastE h hinv hE hnd

/-- **`denote_explicit`.**  The explicit normal form denotes the same content: objects, order,
    types, values and properties. -/
theorem denote_explicit (e e' : FileEnc) (hwf : wellFormed e = true) (h : explicit e = .ok e') :
    denote e' = denote e := by
  have hnd := wellFormed_noDup hwf
  have hact := explicit_same_active e e' hnd h
  unfold explicit at h
  unfold denote
  rw [hact]
  cases ha : activeLists none [] e with
  | error r => rfl
  | ok acts =>
    rw [ha] at h
    cases h
    simp only []
    rw [denoteSegs_explicit e none [] acts [] ha SpecInv.init hnd]

/-- `denote_explicit` needs only the absence of duplicate paths -/
theorem denote_explicit_noDup (e e' : FileEnc) (hnd : ∀ s ∈ e, noDupPaths s.objs = true)
    (h : explicit e = .ok e') : denote e' = denote e := by
  have hact := explicit_same_active e e' hnd h
  unfold explicit at h
  unfold denote
  rw [hact]
  cases ha : activeLists none [] e with
  | error r => rfl
  | ok acts =>
    rw [ha] at h
    cases h
    simp only []
    rw [denoteSegs_explicit e none [] acts [] ha SpecInv.init hnd]

/-- the explicit form never uses "matches previous": it cannot hit the divergence -/
theorem explicit_noBareReuse : ∀ (ss : List SegEnc) (acts : List (List ActiveObj)) (seen : List Bytes)
    (prev : Option (List ActiveObj)) (last : LastIdx), NoBareReuse seen prev last (explicitSegs ss acts) := by
  intro ss
  induction ss with
  | nil => intro acts seen prev last; simp [explicitSegs, NoBareReuse]
  | cons s ss ih =>
    intro acts seen prev last
    cases acts with
    | nil => simp [explicitSegs, NoBareReuse]
    | cons a as =>
      simp only [explicitSegs, NoBareReuse]
      constructor
      · intro _ o ho hidx
        rw [explicitSeg_objs, List.mem_map] at ho
        obtain ⟨x, _, rfl⟩ := ho
        exfalso
        unfold toEnc at hidx
        simp only at hidx
        split at hidx
        · rename_i d _ _
          cases d <;> simp [idxOfDesc] at hidx
        · cases hidx
      · split
        · trivial
        · exact ih _ _ _ _

theorem explicit_noDup : ∀ (ss : List SegEnc) (prev : Option (List ActiveObj)) (last : LastIdx)
    (acts : List (List ActiveObj)), activeLists prev last ss = .ok acts → SpecInv prev last →
    (∀ s ∈ ss, noDupPaths s.objs = true) → ∀ s ∈ explicitSegs ss acts, noDupPaths s.objs = true := by
  intro ss
  induction ss with
  | nil => intro prev last acts h _ _ s hs; simp only [activeLists] at h; cases h; cases hs
  | cons s0 ss ih =>
    intro prev last acts h hinv hnd s hs
    unfold activeLists at h
    cases hseg : activeOfSeg prev last s0 with
    | error r => rw [hseg] at h; cases h
    | ok al =>
      obtain ⟨a, last'⟩ := al
      rw [hseg] at h
      simp only [] at h
      cases hrest : activeLists (some a) last' ss with
      | error r => rw [hrest] at h; cases h
      | ok as =>
        rw [hrest] at h
        cases h
        have hpost := activeOfSeg_post hinv (hnd s0 (List.mem_cons_self ..)) hseg
        simp only [explicitSegs, List.mem_cons] at hs
        rcases hs with rfl | hs
        · rw [noDupPaths_iff, explicitSeg_objs]
          simpa [Function.comp_def] using hpost.nodup
        · exact ih (some a) last' as hrest hpost.specInv
            (fun s' hs' => hnd s' (List.mem_cons_of_mem _ hs')) s hs

/-- **The model reads an encoding and its explicit normal form alike.**  Whatever chunk information
    and properties accompany the two, whenever both runs of the model succeed they produce the same
    object lists, namely the concretisation of the spec's active lists (so the same abstraction). -/
theorem model_explicit_same (e e' : FileEnc) (inputs inputs' : List SegInput)
    (hin : InputsFor descOfSegRaw e inputs) (hin' : InputsFor descOfSegRaw e' inputs')
    (hnd : ∀ s ∈ e, noDupPaths s.objs = true) (hdiv : NoBareReuse [] none [] e)
    (h : explicit e = .ok e') (l l' : List (List SegObj))
    (hl : fileMachine {} inputs = .ok l) (hl' : fileMachine {} inputs' = .ok l') :
    l = l' ∧ ∃ acts, activeLists none [] e = .ok acts ∧ l = acts.map (·.map concObj) := by
  have hact := explicit_same_active e e' hnd h
  have h1 := file_refines_spec_raw e inputs hin hnd hdiv
  unfold explicit at h
  cases ha : activeLists none [] e with
  | error r => rw [ha] at h; cases h
  | ok acts =>
    rw [ha] at h h1 hact
    cases h
    have h2 := file_refines_spec_raw (explicitSegs e acts) inputs' hin'
      (explicit_noDup e none [] acts ha SpecInv.init hnd) (explicit_noBareReuse _ _ _ _ _)
    rw [hact] at h2
    simp only [] at h1 h2
    rw [hl] at h1
    rw [hl'] at h2
    rcases h1 with h1 | h1
    · rcases h2 with h2 | h2
      · cases h1; cases h2
        exact ⟨rfl, acts, rfl, rfl⟩
      · cases h2
    · cases h1

/-! ## 5. `SegmentIndexCache`: `existingIndex` finds the LAST position of a path -/

theorem c02_existingIndex_spec (l : List SegObj) (p : Bytes) (i : Nat) :
    existingIndex l p = some i ↔
      (l[i]?.map (·.path) = some p ∧ ∀ j, i < j → l[j]?.map (·.path) ≠ some p) :=
  existingIndex_spec l p i

theorem c02_existingIndex_unique {l : List SegObj} (hnd : (l.map (·.path)).Nodup) {p : Bytes} {i : Nat} :
    existingIndex l p = some i ↔ l[i]?.map (·.path) = some p :=
  existingIndex_unique hnd

/-! ## 6. Non-vacuity -/

deriving instance DecidableEq for Except

def pA : Bytes := [0x2f, 0x27, 0x61, 0x27]   -- /'a'
def pB : Bytes := [0x2f, 0x27, 0x62, 0x27]   -- /'b'
def pC : Bytes := [0x2f, 0x27, 0x63, 0x27]   -- /'c'

def mkSeg (hasMeta newList : Bool) (objs : List ObjEnc) : SegEnc :=
  { hasMeta := hasMeta, newList := newList, interleaved := false, big := false, rawFlag := false,
    daqmxFlag := false, version := 4713, objs := objs, padding := 0, chunks := [], lengthUnknown := false }

/-- three segments, all four header kinds: full index, "no data", DAQmx; then "matches previous", a
    full string index for an object so far without data, "no data" for the DAQmx object; then a
    segment without metadata -/
def ex1 : FileEnc :=
  [ mkSeg true true [⟨pA, .full 3 2 8, []⟩, ⟨pB, .noData, []⟩,
                     ⟨pC, .daqmx false 3 5 [⟨5, 0, 0, 0, 0⟩] [4], []⟩],
    mkSeg true false [⟨pA, .matchesPrev, []⟩, ⟨pB, .full 0x20 2 11, []⟩, ⟨pC, .noData, []⟩],
    mkSeg false false [] ]

def dC : IdxDesc := .daq false 3 5 [⟨5, 0, 0, 0, 0⟩] [4]

def ex1Active : List (List ActiveObj) :=
  [ [⟨pA, true, some (.std 3 2 8)⟩, ⟨pB, false, none⟩, ⟨pC, true, some dC⟩],
    [⟨pA, true, some (.std 3 2 8)⟩, ⟨pB, true, some (.std 0x20 2 11)⟩, ⟨pC, false, some dC⟩],
    [⟨pA, true, some (.std 3 2 8)⟩, ⟨pB, true, some (.std 0x20 2 11)⟩, ⟨pC, false, some dC⟩] ]

/-- the model's inputs for an encoding: headers as `newIndexedObject` produces them, no chunk
    information, no properties -/
def inputsOf (e : FileEnc) : List SegInput := e.map fun s => ⟨descOfSeg s, default, []⟩

example : activeLists none [] ex1 = .ok ex1Active := by decide
example : fileMachine {} (inputsOf ex1) = .ok (ex1Active.map (·.map concObj)) := by decide
example : (ex1Active.map (·.map concObj)).map (·.map absObj) = ex1Active := by decide
/-- the hypotheses of `file_refines_spec` hold for the example -/
example : ex1.map canonSeg = ex1 := by decide
example : ∀ s ∈ ex1, noDupPaths s.objs = true := by decide
example : NoBareReuse [] none [] ex1 := noBareReuseB_sound _ _ _ _ (by decide)
example : ∀ s ∈ ex1, ∀ o ∈ s.objs, wfIdx o.idx = true := by decide
/-- its explicit normal form has the same active lists, and the model reads it alike -/
example : (explicit ex1).bind (activeLists none []) = .ok ex1Active := by decide
example : (explicit ex1).toOption.map (fun e' => fileMachine {} (inputsOf e')) =
    some (.ok (ex1Active.map (·.map concObj))) := by
  decide

/-- **The divergence, concretely.**  `/'a'` is listed with "no data", then with "matches previous":
    the spec rejects, the model accepts and reports an object with data but without a data type. -/
def exDiv : FileEnc :=
  [ mkSeg true true [⟨pA, .noData, []⟩], mkSeg true false [⟨pA, .matchesPrev, []⟩] ]

example : activeLists none [] exDiv = .error .reuseOfUndefinedIndex := by decide
/-- … and it is exactly the case `NoBareReuse` excludes -/
example : ¬ NoBareReuse [] none [] exDiv := fun h => by
  have := noBareReuseB_complete _ _ _ _ h
  revert this
  decide
example : fileMachine {} (inputsOf exDiv) =
    .ok [[{ path := pA }], [{ path := pA, hasData := true, numberValues := 0, dataType := none }]] := by decide
/-- the same with a new object list in the second segment (the object comes from `prevObjs`) -/
example : fileMachine {} (inputsOf [mkSeg true true [⟨pA, .noData, []⟩], mkSeg true true [⟨pA, .matchesPrev, []⟩]]) =
    .ok [[{ path := pA }], [{ path := pA, hasData := true }]] := by decide

/-- a path never seen before, "matches previous": both reject -/
example : activeLists none [] [mkSeg true true [⟨pA, .matchesPrev, []⟩]] = .error .reuseOfUndefinedIndex := by decide
example : fileMachine {} (inputsOf [mkSeg true true [⟨pA, .matchesPrev, []⟩]]) = .error .reuseUnseen := by decide

/-- a data-type change: both reject with `typeChanged` -/
def exTy : FileEnc := [ mkSeg true true [⟨pA, .full 3 2 8, []⟩], mkSeg true false [⟨pA, .full 5 2 2, []⟩] ]
example : activeLists none [] exTy = .error .typeChanged := by decide
example : fileMachine {} (inputsOf exTy) = .error .typeChanged := by decide

/-- a data-type change followed, in the same segment, by an undefined reuse: the spec says
    `typeChanged`, the model `reuseUnseen` (allowed by `ErrRel`) -/
def exTy2 : FileEnc :=
  [ mkSeg true true [⟨pA, .full 3 2 8, []⟩],
    mkSeg true false [⟨pA, .full 5 2 2, []⟩, ⟨pB, .matchesPrev, []⟩] ]
example : activeLists none [] exTy2 = .error .typeChanged := by decide
example : fileMachine {} (inputsOf exTy2) = .error .reuseUnseen := by decide

/-- the second divergence (model stricter): a DAQmx object whose scaler type changes; the spec
    accepts, `updateObjectMetadata` raises `scalerTypesChanged` -/
def exScaler : FileEnc :=
  [ mkSeg true true [⟨pC, .daqmx false 0xFFFFFFFF 5 [⟨5, 0, 0, 0, 0⟩] [4], []⟩],
    mkSeg true false [⟨pC, .daqmx false 0xFFFFFFFF 5 [⟨3, 0, 0, 0, 0⟩] [4], []⟩] ]
example : (activeLists none [] exScaler).toOption.isSome = true := by decide
example : fileMachine {} (inputsOf exScaler) = .error .scalerTypesChanged := by decide

/-- a first segment without metadata -/
example : activeLists none [] [mkSeg false false []] = .error .firstSegmentWithoutMetadata := by decide
example : fileMachine {} (inputsOf [mkSeg false false []]) = .error .noPrevSegment := by decide

/-- `noDupPaths` is needed for `explicit_same_active`: a path listed twice in one segment (full index,
    then "no data") stays active without data but with the NEW index, which the explicit form — listing
    it as "no data" — cannot express -/
def exDup : FileEnc := [mkSeg true true [⟨pA, .full 3 2 8, []⟩, ⟨pA, .noData, []⟩]]
example : activeLists none [] exDup = .ok [[⟨pA, false, some (.std 3 2 8)⟩]] := by decide
example : (explicit exDup).bind (activeLists none []) = .ok [[⟨pA, false, none⟩]] := by decide

/-- `existingIndex` on a list with a repeated path finds the last position -/
example : existingIndex [{ path := pA }, { path := pB }, { path := pA, hasData := true }] pA = some 2 := by decide

end Tdms.Proofs.C02
