import Tdms.Model.Resource
import Tdms.Generated.Code2

/-!
# C20 (tied): which file handles `TdmsReader.close`, `TdmsWriter.open`, `TdmsWriter.close` open and close

Generated definitions (`Tdms.Generated.Code2`) against `Tdms/Model/Resource.lean`.  A Python reader / writer object is
restricted to the attributes that decide ownership: `_file`, `_index_file` (file objects, here the model's
`Handle`s) and `_file_path`, `_index_file_path` (`None` unless the library opened the file itself).  Every
`h.close()` of the Python text is recorded: the generated `close` returns the LIST OF CLOSED HANDLES together with
the updated object.  `open(path, mode)` is a parameter (`openF`).  Core Lean only.

`TdmsReader.__init__` is translated with its argument abstracted (`hasattr(f, "read")`, `f.read(4)`, `str(f)`,
`os.path.isfile`, `open` are parameters; the `seek(0)` on a caller's stream and the attributes that have nothing to do
with handles are dropped).
Not translated: `TdmsWriter.__init__` (the state it produces is the hand-written `pyWriterInit` below), the `finally`
of `TdmsReader.read_metadata`, `TdmsFile.__init__` / `close` / `__exit__`.
-/

namespace Tdms.Proofs.C20Tied

open Tdms.Generated Tdms.Generated.Code2 Tdms.Model.Resource

/-- the Python `TdmsReader` of a model reader state (the path strings themselves do not matter) -/
def pyReader (r : Reader) : TdmsReader Handle :=
  ⟨r.file, r.index, if r.filePathGiven then some "data.tdms".toList else none,
   if r.indexPathGiven then some "data.tdms_index".toList else none⟩

/-- the handles `TdmsReader.close` closes, in order -/
def closedBy (r : Reader) : List Handle :=
  if r.file.isNone ∧ r.index.isNone then []
  else (if r.filePathGiven then r.file.toList else []) ++ (if r.indexPathGiven then r.index.toList else [])

/-- the library only remembers a path for a file it holds (true in every state `TdmsReader.__init__` produces and
    preserved by the operations; without it Python raises AttributeError on `None.close()`) -/
def Consistent (r : Reader) : Prop :=
  (r.filePathGiven = true → r.index.isSome = true → r.file.isSome = true) ∧
  (r.indexPathGiven = true → r.file.isSome = true → r.index.isSome = true)

/-- **`TdmsReader.close`**: nothing happens on a closed reader; otherwise exactly the files opened from a path are
    closed (data file first), caller supplied streams are not, and both references are dropped -/
theorem TdmsReader.close_tied (r : Reader) (h : Consistent r) :
    Code2.TdmsReader.close (pyReader r) = .ok (closedBy r, pyReader { close r with }) ∧
    (close r).file = (if r.file.isNone ∧ r.index.isNone then r.file else none) ∧
    (close r).closedByLib = (closedBy r).foldl (fun acc hd => if hd ∈ acc then acc else hd :: acc) r.closedByLib ∧
    (close r).openHandles = (closedBy r).foldl (fun acc hd => acc.filter (· ≠ hd)) r.openHandles := by
  obtain ⟨f, i, fp, ip, oh, cl⟩ := r
  unfold Consistent at h
  cases f <;> cases i <;> cases fp <;> cases ip <;>
    simp_all [Code2.TdmsReader.close, pyReader, closedBy, close, closeHandle, Py.attr, bind, Except.bind, pure,
      Except.pure]

/-- without `Consistent`: a remembered path without a file object makes `close` raise -/
theorem TdmsReader.close_inconsistent (hI : Handle) :
    Code2.TdmsReader.close (⟨none, some hI, some "p".toList, none⟩ : TdmsReader Handle) = .error "AttributeError" := rfl

/-- the model states of a reader right after `TdmsReader.__init__` are consistent -/
theorem init_consistent (src : Source) (r : Reader) (h : init src = some r) : Consistent r := by
  cases src <;> (try rename_i b; cases b) <;> simp [init] at h <;> subst h <;> simp [Consistent]

/-! ## `TdmsReader.__init__`: which files are opened for which argument -/

/-- the argument of `TdmsReader(...)` and the file objects it leads to: a caller's stream (with the four bytes at its
    start), a path, or a file the library opened itself -/
inductive Arg
  | stream (h : Handle) (tag : List Int)
  | path (p : List Char)
  | opened (h : Handle)

def Arg.handle? : Arg → Option Handle
  | .stream h _ => some h
  | .opened h => some h
  | .path _ => none

/-- what is handed to `TdmsReader(...)` for a model source -/
def argOf : Source → Arg
  | .dataStream => .stream ⟨.data, .caller⟩ [84, 68, 83, 109]       -- b"TDSm"
  | .indexStream => .stream ⟨.index, .caller⟩ [84, 68, 83, 104]     -- b"TDSh"
  | .badStream => .stream ⟨.data, .caller⟩ [0, 0, 0, 0]
  | .dataPath _ => .path "data.tdms".toList
  | .indexPath => .path "data.tdms_index".toList

/-- `hasattr(f, "read")` -/
def isStream : Arg → Bool
  | .stream _ _ => true
  | _ => false

/-- `f.read(4)` -/
def readTag : Arg → List Int
  | .stream _ t => t
  | _ => []

/-- `str(f)` -/
def pathStr : Arg → List Char
  | .path p => p
  | _ => []

/-- `os.path.isfile(path + "_index")`: is there an index file beside the data file -/
def isfileOf : Source → List Char → Bool
  | .dataPath b => fun _ => b
  | _ => fun _ => false

/-- `open(path, "rb")`: a handle owned by the library; its role from the file name -/
def openA (p : List Char) (_mode : List Char) : Arg :=
  .opened ⟨if Py.endsWith p "_index".toList then .index else .data, .lib⟩

/-- the model reader state of a Python `TdmsReader` -/
def absReader (py : TdmsReader Arg) : Reader :=
  let f := py._file.bind Arg.handle?
  let i := py._index_file.bind Arg.handle?
  { file := f, index := i, filePathGiven := py._file_path.isSome, indexPathGiven := py._index_file_path.isSome,
    openHandles := f.toList ++ i.toList, closedByLib := [] }

/-- **`TdmsReader.__init__`** = the model's `init`, for every kind of source: a stream is stored (never opened) by
    its tag, any other tag is a ValueError before anything is stored; a `.tdms_index` path opens only the index file;
    a data path opens the data file and, when it exists, the index file beside it; `_file_path` / `_index_file_path`
    are set exactly for the files the library opened -/
theorem TdmsReader.__init___tied (src : Source) :
    match Code2.TdmsReader.__init__ isStream readTag pathStr (isfileOf src) openA (argOf src) with
    | .ok py => init src = some (absReader py)
    | .error e => e = "ValueError" ∧ init src = none := by
  cases src <;> (try rename_i b; cases b) <;> first | exact rfl | exact ⟨rfl, rfl⟩

/-- after `__init__` the reader is consistent (the hypothesis of `TdmsReader.close_tied`), from the generated code -/
theorem TdmsReader.__init___consistent (src : Source) (py : TdmsReader Arg)
    (h : Code2.TdmsReader.__init__ isStream readTag pathStr (isfileOf src) openA (argOf src) = .ok py) :
    Consistent (absReader py) := by
  have := TdmsReader.__init___tied src
  rw [h] at this
  exact init_consistent src _ this

/-! ## writer -/

def dataPath : List Char := "out.tdms".toList
def indexPath : List Char := "out.tdms_index".toList

/-- `open(path, mode)`: the handle of that file, owned by the library -/
def openF (p : List Char) (_mode : List Char) : Handle := if p = dataPath then ⟨.data, .lib⟩ else ⟨.index, .lib⟩

/-- the `TdmsWriter` object `__init__` produces for a target (hand-written: `__init__` is not translated) -/
def pyWriterInit : WTarget → TdmsWriter Handle
  | .stream false => ⟨some ⟨.data, .caller⟩, none, none, none, "w".toList, 4712, false, [], []⟩
  | .stream true => ⟨some ⟨.data, .caller⟩, some ⟨.index, .caller⟩, none, none, "w".toList, 4712, false, [], []⟩
  | .path false => ⟨none, none, some dataPath, none, "w".toList, 4712, false, [], []⟩
  | .path true => ⟨none, none, some dataPath, some indexPath, "w".toList, 4712, false, [], []⟩

/-- the Python `TdmsWriter` of a model writer state -/
def pyWriter (w : Writer) : TdmsWriter Handle :=
  ⟨w.file, w.index, if w.filePathGiven then some dataPath else none, if w.indexPathGiven then some indexPath else none,
   "w".toList, 4712, false, [], []⟩

/-- **`TdmsWriter.open`**: files are opened only for paths (the index file only when the data file is a path too) -/
theorem TdmsWriter.open_tied (t : WTarget) :
    Code2.TdmsWriter.open openF (pyWriterInit t) = pyWriter (wOpen t) := by
  cases t <;> rename_i b <;> cases b <;> rfl

/-- the handles `TdmsWriter.close` closes -/
def wClosedBy (w : Writer) : List Handle :=
  (if w.filePathGiven then w.file.toList else []) ++ (if w.indexPathGiven then w.index.toList else [])

/-- **`TdmsWriter.close`**: exactly the files opened from a path are closed, both references are dropped -/
theorem TdmsWriter.close_tied (w : Writer) (h1 : w.filePathGiven = true → w.file.isSome = true)
    (h2 : w.indexPathGiven = true → w.index.isSome = true) :
    Code2.TdmsWriter.close (pyWriter w) = .ok (wClosedBy w, pyWriter (wClose w)) ∧
    (wClose w).closedByLib = (wClosedBy w).foldl (fun acc hd => if hd ∈ acc then acc else hd :: acc) w.closedByLib ∧
    (wClose w).openHandles = (wClosedBy w).foldl (fun acc hd => acc.filter (· ≠ hd)) w.openHandles := by
  obtain ⟨f, i, fp, ip, oh, cl⟩ := w
  cases f <;> cases i <;> cases fp <;> cases ip <;>
    simp_all [Code2.TdmsWriter.close, pyWriter, wClosedBy, wClose, Py.attr, bind, Except.bind, pure, Except.pure]

/-- the whole `with TdmsWriter(...)` block: what `close` closes after `open` is what the library opened -/
theorem writer_session_tied (t : WTarget) :
    (Code2.TdmsWriter.close (Code2.TdmsWriter.open openF (pyWriterInit t))).map (·.1) =
      .ok ((wOpen t).openHandles.filter (·.owner = .lib)) := by
  cases t <;> rename_i b <;> cases b <;> rfl

end Tdms.Proofs.C20Tied
