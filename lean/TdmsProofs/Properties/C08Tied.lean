import TdmsProofs.Lemmas.TiedWriter

/-!
# C08 (tied): the structure of a written segment — `_path_ordering_key`, `object_data_size`,
`TdmsSegment.raw_data_index`, `TdmsSegment._data_size`, `TdmsSegment.leadin` of `nptdms/writer.py`

Generated definitions (`Tdms.Generated.Code2`) against `Tdms/Model/Writer.lean`.  Representation
(`TdmsProofs/Lemmas/TiedWriter.lean`): `pyWObj nameOf o` is the Python object of the model object `o`
(`ChannelObject.data` = the encoded values, `ChannelObject.data_type` = the type code: a TdmsType CLASS is identified
with its `enum_value`); a typed value (`Uint32(20)`, `Bytes(b'…')`) stands for its bytes (`mkU32`, `mkU64`, `mkI32`,
`mkBytes`; the list the Python method returns is compared after `List.flatten`); `data_type.size` is `typeSizeOf`
(the generated type table), `s.encode("utf-8")` the identity on already encoded values.
Not translated: `TdmsWriter.write_segment` (object completion, sorting, the channel-type guard — the model's
`segmentObjects` / `typesStep` remain tied by the differential check only), `metadata`, `write`, `_to_tdms_value`.
-/

namespace Tdms.Proofs.C08Tied

open Tdms Tdms.Generated Tdms.Generated.Code2 Tdms.Model.Writer Tdms.Proofs.Tied2W

variable (nameOf : Bytes → List Char)

/-- **`_path_ordering_key`** (with `ObjectPath.is_root / is_group / is_channel`): root 0, group 1, channel 2 -/
theorem _path_ordering_key_tied (o : WObj) :
    _path_ordering_key (pyPath nameOf o) = some ((o.key : Nat) : Int) :=
  path_ordering_key_eq nameOf o

/-- a path with a channel but no group (not constructible through `ObjectPath(...)`) counts as the root: key 0 -/
theorem _path_ordering_key_channel_only (c : List Char) : _path_ordering_key ⟨none, some c⟩ = some 0 := rfl

/-- **`object_data_size`**: `4 + len` per string, `0` for no values, else `size * count` -/
theorem object_data_size_tied (d : WData) :
    object_data_size typeSizeOf encodeId itemLen (d.ty : Int) d.vals = .ok ((objectDataSize d : Nat) : Int) :=
  object_data_size_eq d

/-- **`TdmsSegment.raw_data_index`**: `FF FF FF FF` without data / for `Void` data, else length 20 (28 with the total
    size for strings), type, dimension 1, number of values -/
theorem raw_data_index_tied (seg : TdmsSegment (List WProp) Bytes) (o : WObj) :
    (TdmsSegment.raw_data_index mkU32 mkU64 mkI32 mkBytes typeSizeOf encodeId itemLen seg (pyWObj nameOf o)).map List.flatten =
      .ok (rawDataIndex o) :=
  raw_data_index_eq nameOf seg o

/-- **`TdmsSegment._data_size`** -/
theorem _data_size_tied (objs : List WObj) (version : Nat) (isIndex : Bool) :
    TdmsSegment._data_size typeSizeOf encodeId itemLen (pySegment nameOf objs version isIndex) =
      .ok ((dataSize objs : Nat) : Int) :=
  data_size_eq nameOf objs version isIndex

/-- **`TdmsSegment.leadin`** with the ToC flags `write` passes (the generated `writerTocFlags`): tag (`TDSh` for the
    index file), ToC mask, version, next-segment offset = metadata + data size, raw-data offset = metadata size -/
theorem leadin_tied (objs : List WObj) (version : Nat) (isIndex : Bool) (metaLen : Nat) :
    (TdmsSegment.leadin mkU64 mkI32 mkBytes typeSizeOf encodeId itemLen (pySegment nameOf objs version isIndex)
        (writerTocFlags.map String.toList) (metaLen : Int)).map List.flatten =
      .ok (leadin isIndex version metaLen (dataSize objs)) :=
  leadin_of_body nameOf _ objs version isIndex rfl metaLen

/-- the ToC mask is the bitwise OR of the flags (`2 | 8 | 4 = 14`), an unknown flag name raises KeyError -/
theorem leadin_unknown_flag (objs : List WObj) :
    TdmsSegment.leadin mkU64 mkI32 mkBytes typeSizeOf encodeId itemLen (pySegment nameOf objs 4712 false)
      ["kTocNoSuchFlag".toList] 0 = .error "KeyError" := by
  unfold TdmsSegment.leadin
  simp [Py.forE, Py.Dict.getE, toc_properties]
  rfl

end Tdms.Proofs.C08Tied
