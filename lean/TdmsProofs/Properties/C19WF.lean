import TdmsProofs.Lemmas.C19WFMain
import TdmsProofs.Properties.C19
import TdmsProofs.Properties.C01Multi

/-!
# C19 without well-formedness hypotheses: `SegWF` for what `TdmsFile.open` produces

C19's `window_io_bound` assumes `SegWF s` for every segment and `SizedIn s p`.  Here:

* `segWF_of_openFile` — `SegWF s` for every non-DAQmx segment with distinct paths of `openFile bytes`, for
  ARBITRARY bytes (`dataSize_eq` from the invariant `ObjOK` of the metadata parser, `override_le` from
  `_compute_final_chunk_lengths`, C06); `window_io_bound_of_openFile` is C19's theorem with these
  discharged.
* `window_reads_inside_segments` — the fact C19 left open: the planned chunk run lies inside the segment,
  so every read of a window lies in the 4 tag bytes or in the data region
  `[dataPosition, dataPosition + chunkSize · numChunks)` of a segment of the window.
* `window_io_bound_encoded` — for `openFile (encodeFile e)` and a fixed-width channel of `denote e` no
  hypothesis on the open file remains (`SizedIn` follows from "one data type per path",
  `openFile_one_type_per_path`, an invariant of the reader on arbitrary bytes).

String channels stay excluded, as in C19 (`readStringValues` may `read(-1)` on arbitrary contents).
Core Lean only.
-/

namespace Tdms.Proofs.C19WF

open Tdms Tdms.Model Tdms.Generated Tdms.Proofs.C04 Tdms.Proofs.C05 Tdms.Proofs.C19 Tdms.Proofs.C01Multi
open Tdms.Proofs.C05WF

/-! ## 1. arbitrary bytes -/

/-- **`SegWF` for the segments `openFile` returns**, arbitrary bytes: a segment that is not read by the
    DAQmx reader and whose objects have distinct paths declares consistent sizes -/
theorem segWF_of_openFile (bytes : Bytes) (f : OpenFile) (h : openFile bytes = .ok f) (s : Segment)
    (hs : s ∈ f.segments) (hk : dataReaderKind s ≠ .ok .daqmx) (hnd : (s.objects.map (·.path)).Nodup) :
    SegWF s := by
  obtain ⟨_, prev, hi⟩ := openFile_inv bytes f h
  exact segWF_of_inv hi s hs hk hnd

/-- **one data type per path**, arbitrary bytes: every object of every segment that carries a data type
    carries the one `object_metadata` records for its path (`read_metadata` raises otherwise) -/
theorem openFile_one_type_per_path (bytes : Bytes) (f : OpenFile) (h : openFile bytes = .ok f) :
    ∀ s ∈ f.segments, ∀ o ∈ s.objects, ∀ ty, o.dataType = some ty →
      (f.objects.get o.path).bind (·.dataType) = some ty :=
  openFile_types bytes f h

/-- C19's `window_io_bound` with `SegWF` discharged for an opened file (arbitrary bytes; distinct paths
    and no DAQmx segment are properties of the file) -/
theorem window_io_bound_of_openFile (bytes : Bytes) (f : OpenFile) (h : openFile bytes = .ok f)
    (hu : UniquePaths f) (hnd : NoDaqmx f) (p : Bytes) (off : Int) (len : Option Int)
    (hsized : ∀ s ∈ f.segments, SizedIn s p)
    (st st' : FState) (a : List ChanChunk) (hrun : readRawDataForChannel f p off len st = .ok (a, st')) :
    ∃ l, st'.trace = st.trace ++ l ∧
      (∀ x ∈ l, ∃ k s, (windowOf f p off len).startSeg ≤ k ∧ k ≤ (windowOf f p off len).endSeg ∧
        f.segments[k]? = some s ∧
        SegAllowedCoarse s (segPlan p (windowOf f p off len).ix off (windowOf f p off len).endIndex
          (windowOf f p off len).startSeg (windowOf f p off len).endSeg k s) x) ∧
      traceBytes l ≤ windowPlanned p (windowOf f p off len).ix off (windowOf f p off len).endIndex
        (windowOf f p off len).startSeg (windowOf f p off len).endSeg
        (windowSegs f (windowOf f p off len)) (windowOf f p off len).startSeg :=
  window_io_bound f p off len (fun s hs => segWF_of_openFile bytes f h s hs (hnd s hs) (hu s hs)) hsized st st' a hrun

/-- **every read of a window lies inside a segment of the window** (arbitrary bytes, the two file
    properties, fixed-width channel): in its 4 tag bytes, or in its data region
    `[dataPosition, dataPosition + chunkSize · numChunks)`.  In particular no read of the window touches
    the metadata of any segment or any segment outside `[startSeg, endSeg]`. -/
theorem window_reads_inside_segments (bytes : Bytes) (f : OpenFile) (h : openFile bytes = .ok f)
    (hu : UniquePaths f) (hnd : NoDaqmx f) (p : Bytes) (off : Int) (len : Option Int)
    (h0 : 0 ≤ off) (hl : ∀ l, len = some l → 0 ≤ l) (hsized : ∀ s ∈ f.segments, SizedIn s p)
    (st st' : FState) (a : List ChanChunk) (hrun : readRawDataForChannel f p off len st = .ok (a, st')) :
    ∃ l, st'.trace = st.trace ++ l ∧
      ∀ x ∈ l, ∃ k s, (windowOf f p off len).startSeg ≤ k ∧ k ≤ (windowOf f p off len).endSeg ∧
        f.segments[k]? = some s ∧ (InTag s x ∨ InData s x) := by
  obtain ⟨l, hl1, hl2, _⟩ := window_io_bound_of_openFile bytes f h hu hnd p off len hsized st st' a hrun
  obtain ⟨_, prev, hi⟩ := openFile_inv bytes f h
  obtain ⟨hwf, hnum⟩ := layout_of_inv hi hu hnd p
  refine ⟨l, hl1, fun x hx => ?_⟩
  obtain ⟨k, s, h1, h2, h3, h4⟩ := hl2 x hx
  exact ⟨k, s, h1, h2, h3, coarse_in_segment f p off len hwf hnum h0 hl k s h3 h1 h2 x h4⟩

/-! ## 2. encoded files: no hypothesis on the open file -/

/-- **`window_io_bound` on the lazily opened encoding**: for every fixed-width channel `oc` of `denote e`
    and every successful window read (they all succeed: `lazy_window_eq_denote_slice`), every read lies in
    the tag bytes or the planned chunks of a segment of the window and inside that segment's data region,
    and the total is at most `Σ (4 + chunkSize · plannedChunks)` -/
theorem window_io_bound_encoded (e : FileEnc) (h : MultiStd e) (fit : FileFits e) (bytes : Bytes)
    (hb : encodeFile e = .ok bytes) (hlen : bytes.length < 2 ^ 63) :
    ∃ f c, openFile bytes = .ok f ∧ denote e = .ok c ∧
      ∀ oc ∈ c, ∀ ty sz, oc.ty = some ty → typeSize ty = some sz →
        ∀ (off : Int) (len : Option Int), 0 ≤ off → (∀ l, len = some l → 0 ≤ l) →
        ∀ (st st' : FState) (a : List ChanChunk), readRawDataForChannel f oc.path off len st = .ok (a, st') →
          ∃ l, st'.trace = st.trace ++ l ∧
            (∀ x ∈ l, ∃ k s, (windowOf f oc.path off len).startSeg ≤ k ∧ k ≤ (windowOf f oc.path off len).endSeg ∧
              f.segments[k]? = some s ∧
              SegAllowedCoarse s (segPlan oc.path (windowOf f oc.path off len).ix off
                (windowOf f oc.path off len).endIndex (windowOf f oc.path off len).startSeg
                (windowOf f oc.path off len).endSeg k s) x ∧ (InTag s x ∨ InData s x)) ∧
            traceBytes l ≤ windowPlanned oc.path (windowOf f oc.path off len).ix off
              (windowOf f oc.path off len).endIndex (windowOf f oc.path off len).startSeg
              (windowOf f oc.path off len).endSeg (windowSegs f (windowOf f oc.path off len))
              (windowOf f oc.path off len).startSeg := by
  obtain ⟨f, c, hopen, hden, hsized⟩ := sizedIn_encoded e h fit bytes hb hlen
  obtain ⟨f', hopen', hu, hk, _⟩ := file_props_encoded e h fit bytes hb hlen
  rw [hopen] at hopen'
  cases hopen'
  have hnd : NoDaqmx f := by intro s hs hd; rw [hk s hs] at hd; cases hd
  refine ⟨f, c, hopen, hden, ?_⟩
  intro oc hoc ty sz hty hsz off len h0 hl st st' a hrun
  have hs := hsized oc hoc ty sz hty hsz
  obtain ⟨l, hl1, hl2, hl3⟩ := window_io_bound_of_openFile bytes f hopen hu hnd oc.path off len hs st st' a hrun
  obtain ⟨_, prev, hi⟩ := openFile_inv bytes f hopen
  obtain ⟨hwf, hnum⟩ := layout_of_inv hi hu hnd oc.path
  refine ⟨l, hl1, fun x hx => ?_, hl3⟩
  obtain ⟨k, s, h1, h2, h3, h4⟩ := hl2 x hx
  exact ⟨k, s, h1, h2, h3, h4, coarse_in_segment f oc.path off len hwf hnum h0 hl k s h3 h1 h2 x h4⟩

/-! ## 3. non-vacuity on C01Multi's seven-segment file -/

/-- the trace of `read_data(3, 4)` of the Int32 channel `a` of `exFile` (fresh file state): tag of
    segment 0, its second chunk of `a` (8 bytes at 202), tag and chunk of segment 1, tag and chunk (4 bytes) of
    segment 2 — nothing of the string channel `s` that lies between them is fetched -/
example : (match encodeFile exFile with
    | .ok b => match openFile b with
      | .ok f => match (readRawDataForChannel f C01Multi.exA 3 (some 4)).run {} with
        | .ok (_, st) => some st.trace
        | .error _ => none
      | .error _ => none
    | .error _ => none) = some [(0, 4), (202, 8), (221, 4), (249, 8), (268, 4), (413, 4)] := by decide +kernel

/-- the theorem applied to that channel -/
example : ∃ bytes f, encodeFile exFile = .ok bytes ∧ openFile bytes = .ok f ∧
    ∀ (st st' : FState) (a : List ChanChunk), readRawDataForChannel f C01Multi.exA 3 (some 4) st = .ok (a, st') →
      ∃ l, st'.trace = st.trace ++ l ∧
        ∀ x ∈ l, ∃ (k : Nat) (s : Segment), f.segments[k]? = some s ∧ (InTag s x ∨ InData s x) := by
  obtain ⟨acts, _, hb⟩ := encodeFile_multi_bytes exFile exFile_std
  have hl := exFile_length
  rw [hb] at hl
  simp only [Except.toOption, Option.map_some, Option.some.injEq] at hl
  obtain ⟨f, c, h1, h2, h3⟩ := window_io_bound_encoded exFile exFile_std exFile_fits _ hb (by rw [hl]; decide)
  refine ⟨_, f, hb, h1, ?_⟩
  have hd := exFile_denote
  simp only [h2, Except.toOption, Option.map_some, Option.some.injEq] at hd
  have hmem : (⟨C01Multi.exA, some 3, [⟨[117], 0x20, [87, 88]⟩],
      [[1, 0, 0, 0], [2, 0, 0, 0], [3, 0, 0, 0], [4, 0, 0, 0], [5, 0, 0, 0], [6, 0, 0, 0], [7, 0, 0, 0],
       [8, 0, 0, 0]]⟩ : Tdms.Proofs.C01Compose.ObjView) ∈ Tdms.Proofs.C01Compose.contentOfDenote c := by
    rw [hd]; decide
  obtain ⟨oc, hoc, hv⟩ := List.mem_map.1 hmem
  simp only [Tdms.Proofs.C01Compose.ObjView.mk.injEq] at hv
  obtain ⟨hp, hty, _, _⟩ := hv
  intro st st' a hrun
  rw [← hp] at hrun
  obtain ⟨l, hl1, hl2, _⟩ := h3 oc hoc 3 4 hty (by decide) 3 (some 4) (by decide)
    (by intro l hl'; cases hl'; decide) st st' a hrun
  refine ⟨l, hl1, fun x hx => ?_⟩
  obtain ⟨k, s, _, _, hs, _, hin⟩ := hl2 x hx
  exact ⟨k, s, hs, hin⟩

end Tdms.Proofs.C19WF
