import TdmsProofs.Lemmas.C07Lemmas
import TdmsProofs.Properties.C12

/-!
# C07 (value level) — "what TdmsWriter writes is what TdmsFile reads"

Headline theorems about `_to_tdms_value`, `to_int_property_value` and `_infer_dtype`
(model: `Tdms/Model/Writer.lean`; thresholds: `Tdms/Generated/Writer.lean`).

**Finding.**  The statement `infer_dtype_sound` asked for in the design ("the dtype `_infer_dtype`
picks holds every element, or no NumPy integer dtype can") is FALSE for the chain in
`nptdms/writer.py`: the three signed rules test `max ≥ 2^32 / 2^16 / 2^8` where the signed range ends
at `2^31 / 2^15 / 2^7`.  A list with a negative element and a maximum in `[2^31, 2^32)`,
`[2^15, 2^16)` or `[2^7, 2^8)` gets `int32 / int16 / int8`, which cannot hold the maximum, although
`int64 / int32 / int16` could.  See `infer_dtype_sound_false`, `infer_dtype_exact`.
-/

namespace Tdms.Proofs.C07
open Tdms Tdms.Model Tdms.Model.Writer Tdms.Generated Tdms.Proofs.BytesW

/-! ## 5. `to_int_property_value` -/

/-- `Int32` exactly on the int32 range -/
theorem int_property_type_int32 (v : Int) : intPropertyType v = tyInt32 ↔ -2 ^ 31 ≤ v ∧ v < 2 ^ 31 := by
  rw [intPropertyType_eq]
  simp only [tyUint64, tyInt64, tyInt32]
  split
  · constructor
    · intro h; cases h
    · omega
  · split
    · constructor
      · intro h; cases h
      · omega
    · constructor
      · intro _; omega
      · intro _; rfl

/-- `Int64` exactly when the value is outside the int32 range and below `2^63`
    (so, within the int64 range: exactly `int64 \ int32`; below `-2^63` the type is still Int64 and
    `struct.pack('<q')` raises) -/
theorem int_property_type_int64 (v : Int) :
    intPropertyType v = tyInt64 ↔ (v < -2 ^ 31 ∨ 2 ^ 31 ≤ v) ∧ v < 2 ^ 63 := by
  rw [intPropertyType_eq]
  simp only [tyUint64, tyInt64, tyInt32]
  split
  · constructor
    · intro h; cases h
    · omega
  · split
    · constructor
      · intro _; omega
      · intro _; rfl
    · constructor
      · intro h; cases h
      · omega

/-- `Uint64` exactly from `2^63` upwards -/
theorem int_property_type_uint64 (v : Int) : intPropertyType v = tyUint64 ↔ 2 ^ 63 ≤ v := by
  rw [intPropertyType_eq]
  simp only [tyUint64, tyInt64, tyInt32]
  split
  · constructor
    · intro _; assumption
    · intro _; rfl
  · split
    · constructor
      · intro h; cases h
      · omega
    · constructor
      · intro h; cases h
      · omega

/-- the three cases together, in the form of the design document -/
theorem int_property_type (v : Int) :
    (intPropertyType v = tyInt32 ↔ -2 ^ 31 ≤ v ∧ v < 2 ^ 31) ∧
    (intPropertyType v = tyInt64 ↔ (v < -2 ^ 31 ∨ 2 ^ 31 ≤ v) ∧ v < 2 ^ 63) ∧
    (intPropertyType v = tyUint64 ↔ 2 ^ 63 ≤ v) ∧
    (-2 ^ 63 ≤ v → v < 2 ^ 64 →
      (intPropertyType v = tyInt64 ↔ (-2 ^ 63 ≤ v ∧ v < 2 ^ 63) ∧ ¬ (-2 ^ 31 ≤ v ∧ v < 2 ^ 31))) :=
  ⟨int_property_type_int32 v, int_property_type_int64 v, int_property_type_uint64 v, by
    intro h1 h2; rw [int_property_type_int64]; omega⟩

-- the boundaries
example : intPropertyType (-2 ^ 31) = tyInt32 ∧ intPropertyType (-2 ^ 31 - 1) = tyInt64 := by decide
example : intPropertyType (2 ^ 31 - 1) = tyInt32 ∧ intPropertyType (2 ^ 31) = tyInt64 := by decide
example : intPropertyType (2 ^ 63 - 1) = tyInt64 ∧ intPropertyType (2 ^ 63) = tyUint64 := by decide
example : intPropertyType 0 = tyInt32 ∧ intPropertyType (-2 ^ 63) = tyInt64 ∧
    intPropertyType (2 ^ 64 - 1) = tyUint64 := by decide

/-- how the reader interprets the value bytes of an integer property of type `ty` -/
def decodeIntProp (ty : Nat) (bytes : Bytes) : Int :=
  if ty = tyUint64 then (decLE bytes : Int) else toSigned ((typeSize ty).getD 4) (decLE bytes)

/-- the type code is one of the three integer types and the value has that type's width -/
theorem int_property_width (v : Int) :
    (toTdmsValue (.int v)).1 = intPropertyType v ∧
    (toTdmsValue (.int v)).2.length = ((typeSize (intPropertyType v)).getD 4) ∧
    ((intPropertyType v = tyInt32 ∧ typeSize (intPropertyType v) = some 4) ∨
     (intPropertyType v = tyInt64 ∧ typeSize (intPropertyType v) = some 8) ∨
     (intPropertyType v = tyUint64 ∧ typeSize (intPropertyType v) = some 8)) := by
  refine ⟨rfl, by simp [toTdmsValue], ?_⟩
  rw [intPropertyType_eq]
  split
  · exact Or.inr (Or.inr ⟨rfl, typeSize_uint64⟩)
  · split
    · exact Or.inr (Or.inl ⟨rfl, typeSize_int64⟩)
    · exact Or.inl ⟨rfl, typeSize_int32⟩

/-- `_to_tdms_value` on a Python int, case by case -/
theorem toTdmsValue_int (v : Int) : toTdmsValue (.int v) =
    if 2 ^ 63 ≤ v then (tyUint64, encLE 8 (ofSigned 8 v))
    else if 2 ^ 31 ≤ v ∨ v < -2 ^ 31 then (tyInt64, encLE 8 (ofSigned 8 v))
    else (tyInt32, encLE 4 (ofSigned 4 v)) := by
  simp only [toTdmsValue]
  rw [intPropertyType_eq]
  split
  · rw [typeSize_uint64]; rfl
  · split
    · rw [typeSize_int64]; rfl
    · rw [typeSize_int32]; rfl

/-- every Python int that `struct.pack` accepts (`-2^63 ≤ v < 2^64`) is written with a type and bytes
    that decode — with the signedness of the chosen type — to the same value -/
theorem int_property_roundtrip_cases (v : Int) (hlo : -2 ^ 63 ≤ v) (hhi : v < 2 ^ 64) :
    let ty := (toTdmsValue (.int v)).1
    let bytes := (toTdmsValue (.int v)).2
    (ty = tyInt32 ∧ bytes.length = 4 ∧ toSigned 4 (decLE bytes) = v) ∨
    (ty = tyInt64 ∧ bytes.length = 8 ∧ toSigned 8 (decLE bytes) = v) ∨
    (ty = tyUint64 ∧ bytes.length = 8 ∧ (decLE bytes : Int) = v) := by
  intro ty bytes
  simp only [ty, bytes]
  rw [toTdmsValue_int]
  by_cases h1 : (2 : Int) ^ 63 ≤ v
  · rw [if_pos h1]
    exact Or.inr (Or.inr ⟨rfl, encLE_length _ _,
      decLE_encLE_ofSigned_of_nonneg (by omega) (by simpa using hhi)⟩)
  · rw [if_neg h1]
    by_cases h2 : (2 : Int) ^ 31 ≤ v ∨ v < -2 ^ 31
    · rw [if_pos h2]
      exact Or.inr (Or.inl ⟨rfl, encLE_length _ _,
        toSigned_decLE_encLE_ofSigned (by decide) (by simp; omega) (by simp; omega)⟩)
    · rw [if_neg h2]
      exact Or.inl ⟨rfl, encLE_length _ _,
        toSigned_decLE_encLE_ofSigned (by decide) (by simp; omega) (by simp; omega)⟩

/-- the same through `decodeIntProp` (the signedness is chosen by the type code) -/
theorem int_property_roundtrip (v : Int) (hlo : -2 ^ 63 ≤ v) (hhi : v < 2 ^ 64) :
    decodeIntProp (toTdmsValue (.int v)).1 (toTdmsValue (.int v)).2 = v := by
  have h := int_property_roundtrip_cases v hlo hhi
  simp only at h
  unfold decodeIntProp
  rcases h with ⟨ht, _, hv⟩ | ⟨ht, _, hv⟩ | ⟨ht, _, hv⟩
  · rw [ht, if_neg (by decide), typeSize_int32]; exact hv
  · rw [ht, if_neg (by decide), typeSize_int64]; exact hv
  · rw [ht, if_pos rfl]; exact hv

example : toTdmsValue (.int (-1)) = (tyInt32, [255, 255, 255, 255]) := by decide
example : toTdmsValue (.int (2 ^ 31)) = (tyInt64, [0, 0, 0, 128, 0, 0, 0, 0]) := by decide
example : toTdmsValue (.int (2 ^ 63)) = (tyUint64, [0, 0, 0, 0, 0, 0, 0, 128]) := by decide
example : decodeIntProp tyInt64 [0, 0, 0, 128, 0, 0, 0, 0] = 2 ^ 31 := by decide
/-- outside `[-2^63, 2^64)` the round trip fails in the model (the real `struct.pack` raises) -/
example : decodeIntProp (toTdmsValue (.int (2 ^ 64))).1 (toTdmsValue (.int (2 ^ 64))).2 = 0 := by decide

/-! ## 6. `_infer_dtype` -/

/-- every element of `data` lies in the value range of dtype `dt` -/
def Fits (dt : String) (data : List Int) : Prop :=
  ∀ x ∈ data, (dtypeRange dt).1 ≤ x ∧ x ≤ (dtypeRange dt).2

/-- no NumPy integer dtype of at most 64 bits holds all of `data` -/
def NoIntDtype (data : List Int) : Prop :=
  listMin data < -2 ^ 63 ∨ listMax data ≥ 2 ^ 64 ∨ (listMin data < 0 ∧ listMax data ≥ 2 ^ 63)

/-- the lists on which `_infer_dtype` picks a signed type one size too small: a negative minimum
    within the signed `k`-bit range and a maximum in `[2^(k-1), 2^k)`, for `k = 8, 16, 32` -/
def SignedGap (data : List Int) : Prop :=
  listMin data < 0 ∧
    ((-2 ^ 7 ≤ listMin data ∧ 2 ^ 7 ≤ listMax data ∧ listMax data < 2 ^ 8) ∨
     (-2 ^ 15 ≤ listMin data ∧ 2 ^ 15 ≤ listMax data ∧ listMax data < 2 ^ 16) ∨
     (-2 ^ 31 ≤ listMin data ∧ 2 ^ 31 ≤ listMax data ∧ listMax data < 2 ^ 32))

/-- EXACT characterisation: the dtype picked by `_infer_dtype` holds every element iff some 64-bit
    integer dtype could and the list is not in the signed gap -/
theorem infer_dtype_exact (data : List Int) (hne : data ≠ []) :
    Fits (inferDtype data) data ↔ ¬ NoIntDtype data ∧ ¬ SignedGap data := by
  unfold Fits NoIntDtype SignedGap
  rw [forall_range_iff hne, inferDtype_eq]
  have hmm : listMin data ≤ listMax data := le_listMax (listMin_mem hne)
  generalize listMax data = mx at *
  generalize listMin data = mn at *
  split
  · rw [dtypeRange_uint64]; simp only; omega
  · split
    · rw [dtypeRange_int64]; simp only; omega
    · split
      · rw [dtypeRange_uint32]; simp only; omega
      · split
        · rw [dtypeRange_int32]; simp only; omega
        · split
          · rw [dtypeRange_uint16]; simp only; omega
          · split
            · rw [dtypeRange_int16]; simp only; omega
            · split
              · rw [dtypeRange_uint8]; simp only; omega
              · rw [dtypeRange_int8]; simp only; omega

/-- soundness outside the signed gap: the picked dtype holds every element, or NumPy must reject -/
theorem infer_dtype_sound_of_no_gap (data : List Int) (hne : data ≠ []) (hgap : ¬ SignedGap data) :
    Fits (inferDtype data) data ∨ NoIntDtype data := by
  by_cases h : NoIntDtype data
  · exact Or.inr h
  · exact Or.inl ((infer_dtype_exact data hne).mpr ⟨h, hgap⟩)

/-- in particular for lists without negative elements -/
theorem infer_dtype_sound_nonneg (data : List Int) (hne : data ≠ []) (h0 : ∀ x ∈ data, 0 ≤ x) :
    Fits (inferDtype data) data ∨ listMax data ≥ 2 ^ 64 := by
  have hmin : 0 ≤ listMin data := h0 _ (listMin_mem hne)
  have hgap : ¬ SignedGap data := by unfold SignedGap; omega
  rcases infer_dtype_sound_of_no_gap data hne hgap with h | h
  · exact Or.inl h
  · unfold NoIntDtype at h; right; omega

/-- on the signed gap the picked dtype does NOT hold the maximum although a wider dtype would -/
theorem infer_dtype_gap_unsound (data : List Int) (hne : data ≠ []) (hgap : SignedGap data) :
    ¬ Fits (inferDtype data) data ∧ ¬ NoIntDtype data ∧ Fits "int64" data := by
  refine ⟨fun h => ((infer_dtype_exact data hne).mp h).2 hgap, ?_, ?_⟩
  · unfold SignedGap at hgap; unfold NoIntDtype; omega
  · unfold Fits; rw [forall_range_iff hne, dtypeRange_int64]
    unfold SignedGap at hgap; simp only; omega

/-- the statement of the design document is FALSE: witness `[-1, 2^31]` gets `int32` -/
theorem infer_dtype_sound_false :
    ¬ ∀ data : List Int, data ≠ [] → Fits (inferDtype data) data ∨ NoIntDtype data := by
  intro h
  have hne : ([-1, 2 ^ 31] : List Int) ≠ [] := by simp
  have hgap : SignedGap [-1, 2 ^ 31] := by unfold SignedGap; decide
  have := infer_dtype_gap_unsound _ hne hgap
  rcases h _ hne with h | h
  · exact this.1 h
  · exact this.2.1 h

-- concrete counterexamples, one per width (NumPy ≥ 2 raises OverflowError in `np.array(data, dtype)`,
-- older NumPy wraps silently)
example : inferDtype [-1, 2 ^ 31] = "int32" ∧ (dtypeRange "int32").2 < 2 ^ 31 ∧
    (dtypeRange "int64").1 ≤ -1 ∧ (2 ^ 31 : Int) ≤ (dtypeRange "int64").2 := by decide
example : inferDtype [-1, 2 ^ 32 - 1] = "int32" := by decide
example : inferDtype [-1, 2 ^ 15] = "int16" ∧ (dtypeRange "int16").2 < 2 ^ 15 := by decide
example : inferDtype [-1, 2 ^ 7] = "int8" ∧ (dtypeRange "int8").2 < 2 ^ 7 := by decide
example : inferDtype [-1, 255] = "int8" := by decide
-- neighbours that are handled correctly
example : inferDtype [0, 2 ^ 31] = "uint32" ∧ inferDtype [-1, 2 ^ 32] = "int64" ∧
    inferDtype [-2 ^ 31 - 1, 2 ^ 31] = "int64" ∧ inferDtype [-1, 2 ^ 31 - 1] = "int32" := by decide
example : inferDtype [2 ^ 63] = "uint64" ∧ inferDtype [-1, 2 ^ 63] = "int64" ∧
    inferDtype [2 ^ 64] = "uint64" := by decide

/-- proposed repair: the signed rules compare with the end of the signed range -/
def inferDtypeChainFixed : List (String × Int × Int × String) :=
  inferDtypeChain.map fun (k, M, m, dt) => if k = "or" then (k, M / 2, m, dt) else (k, M, m, dt)

def inferDtypeFixed (data : List Int) : String :=
  let mx := listMax data
  let mn := listMin data
  let rec go : List (String × Int × Int × String) → String
    | [] => "int8"
    | (k, M, m, dt) :: rest =>
      if k = "and" then (if mx ≥ M ∧ mn ≥ m then dt else go rest)
      else if k = "or" then (if mx ≥ M ∨ mn < m then dt else go rest)
      else dt
  go inferDtypeChainFixed

/-- with the repaired thresholds the statement of the design document holds -/
theorem infer_dtype_fixed_sound (data : List Int) (hne : data ≠ []) :
    Fits (inferDtypeFixed data) data ∨ NoIntDtype data := by
  unfold Fits NoIntDtype
  rw [forall_range_iff hne]
  have hmm : listMin data ≤ listMax data := le_listMax (listMin_mem hne)
  have heq : inferDtypeFixed data =
      (if 2 ^ 63 ≤ listMax data ∧ 0 ≤ listMin data then "uint64"
       else if 2 ^ 31 ≤ listMax data ∨ listMin data < -2 ^ 31 then "int64"
       else if 2 ^ 31 ≤ listMax data ∧ 0 ≤ listMin data then "uint32"
       else if 2 ^ 15 ≤ listMax data ∨ listMin data < -2 ^ 15 then "int32"
       else if 2 ^ 15 ≤ listMax data ∧ 0 ≤ listMin data then "uint16"
       else if 2 ^ 7 ≤ listMax data ∨ listMin data < -2 ^ 7 then "int16"
       else if 2 ^ 7 ≤ listMax data ∧ 0 ≤ listMin data then "uint8" else "int8") := by
    simp [inferDtypeFixed, inferDtypeFixed.go, inferDtypeChainFixed, inferDtypeChain]
  rw [heq]
  generalize listMax data = mx at *
  generalize listMin data = mn at *
  split
  · rw [dtypeRange_uint64]; simp only; omega
  · split
    · rw [dtypeRange_int64]; simp only; omega
    · split
      · rw [dtypeRange_uint32]; simp only; omega
      · split
        · rw [dtypeRange_int32]; simp only; omega
        · split
          · rw [dtypeRange_uint16]; simp only; omega
          · split
            · rw [dtypeRange_int16]; simp only; omega
            · split
              · rw [dtypeRange_uint8]; simp only; omega
              · rw [dtypeRange_int8]; simp only; omega

/-! ## 7. bool / float / string / timestamp property encodings -/

theorem bool_property (b : Bool) :
    toTdmsValue (.bool b) = (tyBoolean, [if b then 1 else 0]) ∧ tyBoolean = 0x21 ∧
    typeSize tyBoolean = some 1 ∧ ((toTdmsValue (.bool b)).2 = [1] ↔ b = true) := by
  refine ⟨rfl, rfl, by decide, ?_⟩
  cases b <;> simp [toTdmsValue]

theorem float_property (bits : Bytes) :
    toTdmsValue (.float bits) = (tyDouble, bits) ∧ tyDouble = 10 ∧ typeSize tyDouble = some 8 :=
  ⟨rfl, rfl, by decide⟩

theorem string_property (s : Bytes) :
    toTdmsValue (.str s) = (tyString, s) ∧ tyString = 0x20 ∧ typeSize tyString = none :=
  ⟨rfl, rfl, by decide⟩

/-- bit pattern of a signalling float32 NaN: exponent all ones, mantissa non-zero, quiet bit clear -/
def IsSNaN32 (b : Nat) : Prop := (b / 2 ^ 23) % 256 = 255 ∧ b % 2 ^ 23 ≠ 0 ∧ (b / 2 ^ 22) % 2 = 0

/-- explicitly typed values (`nptdms.types` wrappers, NumPy scalars) keep their type code and width;
    the bytes are unchanged except that a signalling float32 NaN comes out with the quiet bit set
    (`struct.pack('<f', v)` goes through a C double) -/
theorem typed_property (code : Nat) (le : Bytes) :
    (toTdmsValue (.typed code le)).1 = code ∧ (toTdmsValue (.typed code le)).2.length = le.length ∧
    (¬ ((code = 9 ∨ code = 25) ∧ le.length = 4 ∧ IsSNaN32 (decLE le)) → (toTdmsValue (.typed code le)).2 = le) ∧
    ((code = 9 ∨ code = 25) ∧ le.length = 4 ∧ IsSNaN32 (decLE le) →
      (toTdmsValue (.typed code le)).2 = encLE 4 (decLE le + 2 ^ 22)) := by
  unfold IsSNaN32
  simp only [toTdmsValue]
  split
  · rename_i h1
    split
    · rename_i h2
      exact ⟨rfl, by simp [h1.2], fun hn => absurd ⟨h1.1, h1.2, h2⟩ hn, fun _ => rfl⟩
    · rename_i h2
      exact ⟨rfl, rfl, fun _ => rfl, fun h => absurd h.2.2 h2⟩
  · rename_i h1
    exact ⟨rfl, rfl, fun _ => rfl, fun h => absurd ⟨h.1, h.2.1⟩ h1⟩

-- float32 sNaN 0x7fa00000 is written as qNaN 0x7fe00000; a qNaN and an ordinary value are untouched
example : toTdmsValue (.typed 9 [0, 0, 0xa0, 0x7f]) = (9, [0, 0, 0xe0, 0x7f]) := by decide
example : toTdmsValue (.typed 9 [0, 0, 0xe0, 0x7f]) = (9, [0, 0, 0xe0, 0x7f]) := by decide
example : toTdmsValue (.typed 9 [0, 0, 0x80, 0x3f]) = (9, [0, 0, 0x80, 0x3f]) := by decide

theorem raw_timestamp_property (s : Int) (f : Nat) (hf : f < 2 ^ 64) (h1 : -2 ^ 63 ≤ s) (h2 : s < 2 ^ 63) :
    (toTdmsValue (.rawTimestamp s f)).1 = tyTimeStamp ∧ (toTdmsValue (.rawTimestamp s f)).2.length = 16 ∧
    Timestamp.ofBytesLE (toTdmsValue (.rawTimestamp s f)).2 = (s, f) :=
  ⟨rfl, (Tdms.Proofs.C12.raw_bytes_length s f).1, Tdms.Proofs.C12.raw_bytes_roundtrip_LE s f hf h1 h2⟩

theorem encodeFloor_fst (delta : Int) : (Timestamp.encodeFloor delta).1 = delta / 1000000 := by
  simp only [Timestamp.encodeFloor, Timestamp.encode]
  rw [if_neg (by omega)]

/-- a `datetime` property value (microseconds since the Unix epoch) is written as a TimeStamp whose
    16 bytes read back (`struct.unpack('<Qq')`, then `as_datetime64('us')`) as the same instant,
    counted from the TDMS epoch — for every instant whose seconds fit the `int64` seconds field -/
theorem datetime_property (us : Int)
    (hlo : -2 ^ 63 * 10 ^ 6 ≤ us - epochMicros) (hhi : us - epochMicros < 2 ^ 63 * 10 ^ 6) :
    (toTdmsValue (.datetime us)).1 = tyTimeStamp ∧ tyTimeStamp = 0x44 ∧
    (toTdmsValue (.datetime us)).2.length = 16 ∧
    (let sf := Timestamp.ofBytesLE (toTdmsValue (.datetime us)).2
     Timestamp.decode (10 ^ 6) sf.1 sf.2 = us - epochMicros) := by
  obtain ⟨hdec, hlt⟩ := Tdms.Proofs.C12.encodeFloor_decode (us - epochMicros)
  have hs := encodeFloor_fst (us - epochMicros)
  have hbytes : (toTdmsValue (.datetime us)).2 =
      Timestamp.toBytesLE (Timestamp.encodeFloor (us - epochMicros)).1 (Timestamp.encodeFloor (us - epochMicros)).2 := rfl
  refine ⟨rfl, rfl, ?_, ?_⟩
  · rw [hbytes]; exact (Tdms.Proofs.C12.raw_bytes_length _ _).1
  · simp only
    rw [hbytes, Tdms.Proofs.C12.raw_bytes_roundtrip_LE _ _ hlt (by rw [hs]; omega) (by rw [hs]; omega)]
    exact hdec

/-- the epoch is the generated constant: 1904-01-01 in Unix microseconds -/
theorem epoch_tied : epochMicros = writerEpochUnixMicroseconds ∧ epochMicros = -2082844800 * 10 ^ 6 := by
  decide

example : (toTdmsValue (.datetime 0)).2 = [0, 0, 0, 0, 0, 0, 0, 0, 0x80, 0xb0, 0x25, 0x7c, 0, 0, 0, 0] := by decide
example : Timestamp.decode (10 ^ 6) 2082844800 0 = 0 - epochMicros := by decide
-- one microsecond before the TDMS epoch: seconds −1, fractions just below 2^64
example : Timestamp.encodeFloor (-1) = (-1, 18446725626965477906) := by decide

end Tdms.Proofs.C07
