import TdmsProofs.Lemmas.C11WholeMain
import TdmsProofs.Properties.C01Layouts
import TdmsProofs.Properties.C11Lazy

/-!
# C11 / C04 on whole ENCODED files with DAQmx segments: lazy windows of scaler data = slices of `denote`

`Properties/C11Lazy.lean` proves `read_data(offset, length)` of a DAQmx channel = the slice of the EAGER scaler
data under the invariant `SegsDOk` (with `DaqOk`: chunks at their nominal positions, `ScChunk`: per-chunk scaler
lengths), which was only checked by evaluation there.  Here the invariant is DERIVED for `openFile (encodeFile e)`,
`e` any file of the class `MultiStdD` of `Properties/C01Layouts.lean` part B (DAQmx segments with any number of
raw buffers, format-changing and digital-line scalers, mixed freely with contiguous and interleaved standard
segments), and the eager scaler stream is identified with the scaler values `denote e` assigns:

* `DaqOk` from C01Layouts' per-chunk step `read_daqmx_chunk` (`readDaqmxChunk_encChunk`): chunk `j` of a DAQmx
  segment read at `dataPosition + j · chunkSize` IS the dictionary `bmChunk` of the `j`-th encoded chunk and ends
  at the next nominal position (`seg_arith`: every encoded chunk has `chunkSize` bytes);
* `ScChunk` from `bmChunk_spec` / `mem_accItems`: the entry of a channel in that dictionary holds exactly its
  scalers (distinct ids), each with `number_values` values (`DaqChunkOK.count`);
* segments in which the channel is not active (or that are standard segments): no values, and the eager chunks
  hold nothing under the channel's path — `denoteSegs_sem.tyData` shows a path of type `DAQmxRawData` is active
  with data only as a DAQmx object;
* `ChanOk` from `readMetadata_numValues` (no override anywhere);
* eager scaler stream = `denote`: `readRawDataAll_multiD`, `readRawDataAll_flatMap`, `all_ents`, `denoteSegs_sem.scal`.

`readFile` is never run, so "only channels carry data" is not needed.  Core Lean only (no Mathlib).
-/

namespace Tdms.Proofs.C11Whole

open Tdms Tdms.Generated Tdms.Model Tdms.Proofs.C01Multi Tdms.Proofs.C01Layouts Tdms.Proofs.C03 Tdms.Proofs.C04
open Tdms.Proofs.C11Lazy

/-! ## 1. the invariants of `C11Lazy`, derived -/

/-- **`SegsDOk` and `ChanOk` hold for `readMetadata (encodeFile e)`**, `e` any file of the class `MultiStdD`: for
    every object `oc` of `denote e` of type `DAQmxRawData` and every scale id of it, the segment table
    (`segRecsC 0 e acts`) satisfies `SegsDOk` — in particular `DaqOk` (chunks at their nominal positions) and
    `ScChunk` (every scaler of the channel exactly `number_values` values per chunk) for every DAQmx segment in
    which the channel has values; `ChanOk` holds for every known path; and the eager scaler stream
    (`streamSc` of the per-segment eager chunks) is what `denote e` assigns to the scaler. -/
theorem invariants_hold_encoded_daqmx (e : FileEnc) (h : MultiStdD e) (fit : FileFitsD e) (bytes : Bytes)
    (hb : encodeFile e = .ok bytes) (hlen : bytes.length < 2 ^ 63) :
    ∃ st acts c, readMetadata bytes = .ok st ∧ activeLists none [] e = .ok acts ∧ denote e = .ok c ∧
      st.segments = segRecsC 0 e acts ∧
      (∀ p m, st.objects.get p = some m → ChanOk st.objects st.segments p m) ∧
      (∀ oc ∈ c, oc.ty = some tyDaqmxRaw → ∀ id ∈ oc.scalers.map (·.1), SegsDOk bytes st.segments oc.path id) ∧
      (∀ oc ∈ c, ∀ id, streamSc (st.segments.flatMap (segEager bytes)) oc.path id = scGet oc.scalers id) ∧
      (∀ s ∈ st.segments, s.override = none) := by
  obtain ⟨f, acts, c, H⟩ := openFile_encodedD e h fit bytes hb hlen
  have hopen := H.opens
  unfold openFile at hopen
  cases hr : readMetadata bytes with
  | error err => rw [hr] at hopen; cases hopen
  | ok st =>
    rw [hr] at hopen
    simp only [bind, Except.bind, pure, Except.pure, Except.ok.injEq] at hopen
    subst hopen
    exact ⟨st, acts, c, rfl, H.hacts, H.meaning, H.segs, H.chan, H.sdok, H.svals, H.noOverride⟩

/-! ## 2. windows of scaler data, `len(channel)` -/

/-- **`read_data(offset, length)` of a DAQmx channel on the lazily opened encoded file**: for every object `oc`
    of `denote e` of type `DAQmxRawData`, every scale id `id` of it, every `offset ≥ 0`, every `length` (`none` or
    `≥ 0`, also beyond the end) and every file state, the read succeeds and the values returned for scaler `id`
    are `(values denote e assigns to scaler id of oc)[offset : offset + length]`.
    (`scGet l id` = the value list stored under `id` in the dictionary `l` — C01Layouts' `lookupV`.) -/
theorem lazy_window_eq_denote_slice_daqmx (e : FileEnc) (h : MultiStdD e) (fit : FileFitsD e) (bytes : Bytes)
    (hb : encodeFile e = .ok bytes) (hlen : bytes.length < 2 ^ 63) :
    ∃ f c, openFile bytes = .ok f ∧ denote e = .ok c ∧
      ∀ oc ∈ c, oc.ty = some tyDaqmxRaw → ∀ id ∈ oc.scalers.map (·.1),
        ∀ (offset : Int) (length : Option Int), 0 ≤ offset → (∀ l, length = some l → 0 ≤ l) → ∀ st : FState,
          ∃ st' out, (channelReadData f oc.path offset length).run st = .ok (some out, st') ∧
            scGet out.scalers id = takeOpt length ((scGet oc.scalers id).drop offset.toNat) := by
  obtain ⟨f, acts, c, H⟩ := openFile_encodedD e h fit bytes hb hlen
  exact ⟨f, c, H.opens, H.meaning, fun oc hoc hty id hid => H.window hoc hty id hid⟩

/-- the scale ids of a DAQmx raw-data channel of `denote e` are those the file declares for the path
    (`fileScF`), pairwise distinct; such a channel has no plain values; `scGet` is `lookupV` -/
theorem daqmx_channel_scalers (e : FileEnc) (h : MultiStdD e) (fit : FileFitsD e) (bytes : Bytes)
    (hb : encodeFile e = .ok bytes) (hlen : bytes.length < 2 ^ 63) :
    ∃ c, denote e = .ok c ∧ ∀ oc ∈ c, oc.ty = some tyDaqmxRaw →
      oc.values = [] ∧ oc.scalers.map (·.1) = idsF (fileScF e) oc.path ∧ (oc.scalers.map (·.1)).Nodup ∧
      ∀ id, scGet oc.scalers id = lookupV oc.scalers id := by
  obtain ⟨f, acts, c, H⟩ := openFile_encodedD e h fit bytes hb hlen
  refine ⟨c, H.meaning, fun oc hoc hty => ?_⟩
  obtain ⟨h1, h2, h3⟩ := H.raw oc hoc hty
  exact ⟨h1, h2, h3, fun _ => rfl⟩

/-- **`len(channel)`** (`object_metadata[path].num_values`): for every object of `denote e` it is
    `countsOf e acts path` = Σ over the segments (values per chunk) × (number of chunks) (C01Layouts'
    `read_metadata_multi_daqmx`); for a DAQmx raw-data channel this is the number of values `denote e` assigns
    to EACH of its scalers.  A path `denote e` does not list has no metadata entry. -/
theorem lazy_len_eq_denote_daqmx (e : FileEnc) (h : MultiStdD e) (fit : FileFitsD e) (bytes : Bytes)
    (hb : encodeFile e = .ok bytes) (hlen : bytes.length < 2 ^ 63) :
    ∃ f acts c, openFile bytes = .ok f ∧ activeLists none [] e = .ok acts ∧ denote e = .ok c ∧
      (∀ oc ∈ c, (f.objects.get oc.path).map (·.numValues) = some (countsOf e acts oc.path) ∧
        (oc.ty = some tyDaqmxRaw → ∀ id ∈ oc.scalers.map (·.1),
          countsOf e acts oc.path = (scGet oc.scalers id).length)) ∧
      (∀ p, p ∉ c.map (·.path) → f.objects.get p = none) := by
  obtain ⟨f, acts, c, H⟩ := openFile_encodedD e h fit bytes hb hlen
  refine ⟨f, acts, c, H.opens, H.hacts, H.meaning, ?_, fun p hp => H.get_none hp⟩
  intro oc hoc
  refine ⟨by rw [H.get hoc]; rfl, ?_⟩
  intro hty id hid
  exact H.len hoc hty id hid

/-- **lazy = eager** for DAQmx scaler data on the encoded file: every window is the slice of what
    `TdmsFile.read` (`readFile`) holds for the scaler (`scalersIn`) -/
theorem lazy_window_eq_eager_slice_daqmx (e : FileEnc) (h : MultiStdD e) (fit : FileFitsD e)
    (hch : onlyChannelsHaveDataD e) (bytes : Bytes) (hb : encodeFile e = .ok bytes) (hlen : bytes.length < 2 ^ 63) :
    ∃ f r c, openFile bytes = .ok f ∧ readFile bytes = .ok r ∧ denote e = .ok c ∧
      ∀ oc ∈ c, oc.ty = some tyDaqmxRaw → ∀ id ∈ oc.scalers.map (·.1),
        ∀ (offset : Int) (length : Option Int), 0 ≤ offset → (∀ l, length = some l → 0 ≤ l) → ∀ st : FState,
          ∃ st' out, (channelReadData f oc.path offset length).run st = .ok (some out, st') ∧
            scGet out.scalers id = takeOpt length ((scalersIn r.channels oc.path id).drop offset.toNat) := by
  obtain ⟨f, acts, c, H⟩ := openFile_encodedD e h fit bytes hb hlen
  obtain ⟨r, c', hr, hc', _⟩ := read_encode_multi_daqmx e h fit hch bytes hb hlen
  rw [H.meaning] at hc'
  cases hc'
  refine ⟨f, r, c, H.opens, hr, H.meaning, ?_⟩
  intro oc hoc hty id hid offset length h0 hl st
  obtain ⟨st', out, hrun, hd⟩ := H.window hoc hty id hid offset length h0 hl st
  refine ⟨st', out, hrun, ?_⟩
  have hsegs : r.state.segments = f.segments ∧ f.file = bytes := by
    obtain ⟨_, _, hm, _, _⟩ := readFile_values bytes r hr
    have := H.opens
    unfold openFile at this
    rw [hm] at this
    simp only [bind, Except.bind, pure, Except.pure, Except.ok.injEq] at this
    subst this
    exact ⟨rfl, rfl⟩
  rw [hd, readFile_scalers bytes r hr oc.path id, hsegs.1, ← hsegs.2, H.svals oc hoc id]

/-! ## 3. non-vacuity: C01Layouts' `dFile`

Seven segments, 1001 bytes: DAQmx little-endian (channel `a`: two Int16 scalers in TWO raw buffers listed out of
buffer order; channel `b`: two digital-line scalers; 2 chunks) → DAQmx BIG-endian, `a` switched off →
contiguous standard segment (`b` off, new Int32 `s`) → no metadata → DAQmx, new list (`b` "same as previous", `a`
re-listed) → DAQmx, both re-listed with 1 value per chunk, 3 chunks → INTERLEAVED standard segment. -/

/-- the hypotheses of the headline theorems hold for `dFile` -/
example : MultiStdD dFile ∧ FileFitsD dFile ∧ onlyChannelsHaveDataD dFile := ⟨dFile_std, dFile_fits, dFile_channels⟩

theorem dFile_bytes : ∃ bytes, encodeFile dFile = .ok bytes ∧ bytes.length < 2 ^ 63 := by
  obtain ⟨acts, _, hb⟩ := encodeFile_multiD_bytes dFile dFile_std
  have hl := dFile_length
  rw [hb] at hl
  simp only [Except.toOption, Option.map_some, Option.some.injEq] at hl
  exact ⟨_, hb, by rw [hl]; decide⟩

/-- the entry of `denote dFile` for channel `a` -/
theorem dFile_denote_a (c : Content) (h2 : denote dFile = .ok c) :
    ∃ oc ∈ c, oc.path = C01Multi.exA ∧ oc.ty = some tyDaqmxRaw ∧
      oc.scalers =
        [(0, [[51, 52], [53, 54], [55, 56], [57, 58], [61, 62], [63, 64], [71, 72], [73, 74], [75, 76]]),
         (1, [[3, 4], [13, 14], [23, 24], [33, 34], [3, 4], [3, 4], [3, 4], [3, 4], [9, 9]])] := by
  have hd := dFile_denote
  simp only [h2, Except.toOption, Option.map_some, Option.some.injEq] at hd
  have hmem : (⟨C01Multi.exA, some 0xFFFFFFFF, [⟨[117], 0x20, [86]⟩], [],
      [(0, [[51, 52], [53, 54], [55, 56], [57, 58], [61, 62], [63, 64], [71, 72], [73, 74], [75, 76]]),
       (1, [[3, 4], [13, 14], [23, 24], [33, 34], [3, 4], [3, 4], [3, 4], [3, 4], [9, 9]])]⟩ : ObjViewD) ∈
      contentOfDenoteD c := by rw [hd]; decide
  obtain ⟨oc, hoc, hv⟩ := List.mem_map.1 hmem
  simp only [ObjViewD.mk.injEq] at hv
  exact ⟨oc, hoc, hv.1, hv.2.1, hv.2.2.2.2⟩

/-- the window theorem applied to scaler `1` of channel `a` of `dFile`: the window `(3, 4)` starts in the second
    chunk of the first DAQmx segment, skips the segments in which `a` is off or that are standard segments,
    crosses the re-listed DAQmx segment and ends in the segment with 1 value per chunk — from ANY file state -/
example : ∃ bytes f, encodeFile dFile = .ok bytes ∧ openFile bytes = .ok f ∧ ∀ st : FState, ∃ st' out,
    (channelReadData f C01Multi.exA 3 (some 4)).run st = .ok (some out, st') ∧
      scGet out.scalers 1 = [[33, 34], [3, 4], [3, 4], [3, 4]] := by
  obtain ⟨bytes, hb, hl⟩ := dFile_bytes
  obtain ⟨f, c, h1, h2, h3⟩ := lazy_window_eq_denote_slice_daqmx dFile dFile_std dFile_fits _ hb hl
  obtain ⟨oc, hoc, hp, hty, hsc⟩ := dFile_denote_a c h2
  refine ⟨_, f, hb, h1, ?_⟩
  intro st
  obtain ⟨st', out, hrun, hr⟩ := h3 oc hoc hty 1 (by rw [hsc]; decide) 3 (some 4) (by decide)
    (by intro l hl'; cases hl'; decide) st
  rw [hp] at hrun
  refine ⟨st', out, hrun, ?_⟩
  rw [hr, hsc]
  decide

/-- `len(a) = 9` = the number of values of each scaler of `a` -/
example : ∃ bytes f, encodeFile dFile = .ok bytes ∧ openFile bytes = .ok f ∧
    (f.objects.get C01Multi.exA).map (·.numValues) = some 9 := by
  obtain ⟨bytes, hb, hl⟩ := dFile_bytes
  obtain ⟨f, acts, c, h1, _, h2, h3, _⟩ := lazy_len_eq_denote_daqmx dFile dFile_std dFile_fits _ hb hl
  obtain ⟨oc, hoc, hp, hty, hsc⟩ := dFile_denote_a c h2
  refine ⟨_, f, hb, h1, ?_⟩
  obtain ⟨h4, h5⟩ := h3 oc hoc
  have := h5 hty 0 (by rw [hsc]; decide)
  rw [hsc, hp] at this
  rw [hp] at h4
  rw [h4, this]
  rfl

/-- cross-check by evaluation of the model (fresh file state): for every object of `denote dFile` of type
    `DAQmxRawData` (`a`, `b`), every scaler, all windows with `offset ≤ 11`, `length ∈ {none, 0, …, 11}` agree with
    `denote` (4 scalers × 156 windows) -/
example : (match encodeFile dFile, denote dFile with
    | .ok b, .ok c =>
      match openFile b with
      | .ok f => c.all fun oc => !(oc.ty == some tyDaqmxRaw) ||
          (oc.scalers.map (·.1)).all fun id =>
            (List.range 12).all fun (off : Nat) =>
              ((none : Option Int) :: (List.range 12).map fun (n : Nat) => some (n : Int)).all fun len =>
                match (channelReadData f oc.path off len).run {} with
                | .ok (some r, _) => scGet r.scalers id == takeOpt len ((scGet oc.scalers id).drop off)
                | _ => false
      | .error _ => false
    | _, _ => false) = true := by decide +kernel

/-- the invariant theorem applied to `dFile`; its conclusion for `a`, scaler 0 and 1, agrees with the
    executable checker of `C11Lazy` -/
example : ∃ bytes st, encodeFile dFile = .ok bytes ∧ readMetadata bytes = .ok st ∧
    SegsDOk bytes st.segments C01Multi.exA 0 ∧ SegsDOk bytes st.segments C01Multi.exA 1 := by
  obtain ⟨bytes, hb, hl⟩ := dFile_bytes
  obtain ⟨st, acts, c, h1, _, h3, _, _, h6, _⟩ := invariants_hold_encoded_daqmx dFile dFile_std dFile_fits _ hb hl
  obtain ⟨oc, hoc, hp, hty, hsc⟩ := dFile_denote_a c h3
  refine ⟨bytes, st, hb, h1, ?_, ?_⟩
  · rw [← hp]; exact h6 oc hoc hty 0 (by rw [hsc]; decide)
  · rw [← hp]; exact h6 oc hoc hty 1 (by rw [hsc]; decide)

end Tdms.Proofs.C11Whole
