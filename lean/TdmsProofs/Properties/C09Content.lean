/-
  C09 — "A matching index file is transparent": the CONTENT theorems.

  `Properties/C09.lean` proves that the index walk visits the right positions.  Here: reading the metadata
  through a matching `.tdms_index` file (`readMetadataIndex idx (some dat.length)`, the model of
  `TdmsReader.read_metadata` with `_index_file_path` set and `_data_file_size = os.path.getsize(...)`) gives the
  SAME `Except Err ReaderState` as reading the data file itself (`readMetadata dat`): the same exception, or the
  same segments (position, ToC, data position, next segment position, incomplete flag, objects, chunk count, final
  chunk lengths), the same `object_metadata` (properties, data types, scaler types, value counts), the same
  `prevObjs`, version and version list.  Every data read path of the model is a function of that state and of the
  data file, so it returns the same data.

  Two levels:
   * §0 ARBITRARY BYTES: files cut into segments `⟨hdr, md, raw⟩` (`TSeg`), data file `Σ TDSm·hdr·md·raw`, index
     file `Σ TDSh·hdr·md`, under `TwinOk`: 24-byte headers whose raw-data offset is `|md|` and whose next-segment
     offset is `|md|+|raw|` (or, in the last segment, the `2^64-1` marker), and metadata blocks that are read
     independently of what follows them (`MetaIndep`; it cannot be dropped: `exOverrun`).
   * §1–3 SPEC ENCODINGS: `encodeFile e` / `encodeIndex e` for every `e` of the decidable class `indexClass`
     (`Lemmas/C09ContentSpec.lean`): any number of segments; any `hasMeta/newList/interleaved/big/rawFlag/
     daqmxFlag/version/padding`; any raw data; listed objects `wfObj` with numbers fitting their fields — all four
     kinds of raw-data index, DAQmx included; `lengthUnknown` only in the last segment; segments shorter than
     `2^64-1` bytes.  `wellFormed e ∧ sizesFit e → indexClass e`.

  Lemmas: `Lemmas/C09Content{Hdr,Step,Walk,Read,Parse,Spec,Class}.lean`.  Core Lean only.
-/
import TdmsProofs.Lemmas.C09ContentClass
import TdmsProofs.Properties.C20

namespace Tdms.Proofs.C09Content

open Tdms Tdms.Model Tdms.Generated

/-! ## 0. arbitrary bytes -/

/-- **twin files, complete data file**: the reading through the index is the reading of the data file -/
theorem twin_files_same_metadata (ts : List TSeg) (hok : TwinOk ts) :
    readMetadataIndex (indexOf ts) (some (dataOf ts).length) = readMetadata (dataOf ts) :=
  twin_read_complete ts hok

/-- **twin files, data file cut after `k` bytes** (the index is complete): either the two readings are equal, or
    — only if the cut lies before the end of the last segment's lead-in — both succeed and the reading through
    the index differs by one more recorded version number (`withVersion`: `versions ++ [v]`, and
    `version = some v` if none had been seen) -/
theorem twin_files_truncated (ts : List TSeg) (hok : TwinOk ts) (k : Nat) (hk : k ≤ (dataOf ts).length) :
    readMetadataIndex (indexOf ts) (some k) = readMetadata ((dataOf ts).take k) ∨
    (k < cutBound 0 ts ∧ ∃ s v, readMetadata ((dataOf ts).take k) = .ok s ∧
      readMetadataIndex (indexOf ts) (some k) = .ok (withVersion s v)) :=
  twin_read ts hok k hk

/-- one iteration of the loop on a segment and on its index twin (any state, any `dataFileSize`) -/
theorem twin_iteration (fD fI : Bytes) (dfs : Option Nat) (P Q : Nat) (st : ReaderState) (hdr m xD xI : Bytes)
    (hD : fD.drop P = tagData ++ hdr ++ (m ++ xD)) (hI : fI.drop Q = tagIndex ++ hdr ++ (m ++ xI))
    (hh : hdr.length = 24) (hraw : hRawOff hdr = m.length) (hm : MetaIndep (hToc hdr) m)
    (hk : C02.Keyed st.prevObjs) :
    LeadIn.loopStep fI true dfs Q P st =
      match LeadIn.loopStep fD false dfs P P st with
      | .error e => .error e
      | .ok (.done s) => .ok (.done s)
      | .ok (.next _ sp s) => .ok (.next (Q + 28 + m.length) sp s) :=
  twin_step fD fI dfs P Q st hdr m xD xI hD hI hh hraw hm hk

/-- a spec-encoded metadata block (with its padding) is read independently of what follows it -/
theorem encoded_metadata_independent (s : SegEnc) (h : metaFitsB s = true) :
    MetaIndep (tocMask s) (segMeta s) :=
  metaIndep_segMeta s h

/-! ## 1. spec encodings: metadata, then data -/

/-- **`readMetadata_with_index_eq`**: for every encoding of the class, walking the index file with the data
    file's size produces exactly the reader state (or exception) that walking the data file produces -/
theorem readMetadata_with_index_eq (e : FileEnc) (dat idx : Bytes) (hc : indexClass e = true)
    (hd : encodeFile e = .ok dat) (hi : encodeIndex e = .ok idx) :
    readMetadataIndex idx (some dat.length) = readMetadata dat := by
  obtain ⟨acts, _, _, hd', hi', hok, _⟩ := indexClass_twin hc
  rw [hd'] at hd; rw [hi'] at hi
  injection hd with hd; injection hi with hi
  subst hd hi
  exact twin_read_complete _ hok

/-- every well-formed encoding whose numbers fit their fields is in the class -/
theorem wellFormed_in_class (e : FileEnc) (hwf : wellFormed e = true) (hsz : sizesFit e = true) :
    indexClass e = true :=
  indexClass_of_wellFormed e hwf hsz

/-- **`TdmsFile.read` with a matching index beside the data file** returns what it returns without it: the
    same channels with the same values, properties, types, lengths — or the same exception -/
theorem readFile_with_index_eq (e : FileEnc) (dat idx : Bytes) (hc : indexClass e = true)
    (hd : encodeFile e = .ok dat) (hi : encodeIndex e = .ok idx) :
    readFileWithIndex dat idx = readFile dat := by
  rw [readFile_eq_via, readFileWithIndex, readMetadata_with_index_eq e dat idx hc hd hi]

/-- **`TdmsFile.open` with a matching index beside the data file** yields the same open file, hence the same
    result from every lazy read (`channelReadData`, `channelReadSlice`, integer index, chunk iterators) -/
theorem openFile_with_index_eq (e : FileEnc) (dat idx : Bytes) (hc : indexClass e = true)
    (hd : encodeFile e = .ok dat) (hi : encodeIndex e = .ok idx) :
    openFileWithIndex dat idx = openFile dat := by
  rw [openFile_eq_via, openFileWithIndex, readMetadata_with_index_eq e dat idx hc hd hi]

/-! ## 2. the index file alone -/

/-- **index only, every segment declares its length**: opening the `.tdms_index` file alone
    (`dataFileSize = none`: segment ends are taken on trust, nothing is clamped) gives the same reader state —
    objects, properties, data types, lengths, segments — as reading the data file -/
theorem index_only_same_metadata (e : FileEnc) (dat idx : Bytes) (hc : indexClass e = true)
    (hk : lengthsKnown e = true) (hd : encodeFile e = .ok dat) (hi : encodeIndex e = .ok idx) :
    readMetadataIndex idx none = readMetadata dat := by
  obtain ⟨acts, _, _, hd', hi', hok, hnm⟩ := indexClass_twin hc
  rw [hd'] at hd; rw [hi'] at hi
  injection hd with hd; injection hi with hi
  subst hd hi
  exact twin_read_index_only _ hok (hnm.mp hk)

/-- **index only, last segment of unknown length** (`0xFFFF_FFFF_FFFF_FFFF` as next segment offset): the index
    alone cannot be opened — `_read_lead_in` compares with `None` (`Err.other`) — unless an earlier segment
    already raises, and then reading the data file raises the same exception -/
theorem index_only_unknown_length_raises (e : FileEnc) (dat idx : Bytes) (hc : indexClass e = true)
    (hk : lengthsKnown e = false) (hd : encodeFile e = .ok dat) (hi : encodeIndex e = .ok idx) :
    readMetadataIndex idx none = .error .other ∨
    ∃ err, readMetadataIndex idx none = .error err ∧ readMetadata dat = .error err := by
  obtain ⟨acts, _, _, hd', hi', hok, hnm⟩ := indexClass_twin hc
  rw [hd'] at hd; rw [hi'] at hi
  injection hd with hd; injection hi with hi
  subst hd hi
  exact twin_read_index_only_marker _ hok (fun h => by rw [hnm.mpr h] at hk; cases hk)

open Tdms.Model.Resource Tdms.Proofs.C20 in
/-- **`index_only_refuses_data`**: a reader created from a `.tdms_index` file (a path or a stream) has no data
    file handle; after any sequence of `read_metadata` / read / `close` operations a read that needs the file
    (`_read_channel_data`, `read_raw_data…`, every lazy path) never returns data, and it raises the index-only
    error (`RuntimeError "Data cannot be read from index file only"`) as long as the reader has not been closed
    (then it raises the closed-file error).  This is where the model places the refusal
    (`Tdms/Model/Resource.lean`); the data functions of `Data.lean`/`Lazy.lean` take the data file's bytes as an
    argument and so cannot even be applied without one. -/
theorem index_only_refuses_data (src : Source) (hsrc : src = .indexStream ∨ src = .indexPath) (r : Reader)
    (h : init src = some r) (ops : List ROp) :
    readNeedsFile (run r ops) ≠ .data ∧
    (ROp.close ∉ ops → readNeedsFile (run r ops) = .indexOnlyError) := by
  have hinv : ∀ (ops : List ROp) (r : Reader), r.file = none →
      (run r ops).file = none ∧ (ROp.close ∉ ops → r.index.isSome = true → (run r ops).index.isSome = true) := by
    intro ops
    induction ops with
    | nil => intro r hf; exact ⟨hf, fun _ hi => hi⟩
    | cons op ops ih =>
      intro r hf
      have hstep : (C20.step r op).file = none ∧ (op ≠ .close → (C20.step r op).index = r.index) := by
        cases op with
        | readMetadata =>
          refine ⟨?_, fun _ => ?_⟩ <;>
          · simp only [C20.step, Resource.readMetadata]
            split
            · split <;> simp [closeHandle, hf]
            · simp [hf]
        | close =>
          refine ⟨?_, fun hne => absurd rfl hne⟩
          simp only [C20.step, close]
          split <;> simp [hf]
        | read => exact ⟨hf, fun _ => rfl⟩
      obtain ⟨h1, h2⟩ := ih (C20.step r op) hstep.1
      refine ⟨h1, fun hnc hi => h2 (fun hm => hnc (List.mem_cons_of_mem _ hm)) ?_⟩
      rw [hstep.2 (fun hop => hnc (by rw [hop]; exact List.mem_cons_self))]
      exact hi
  have hr : r.file = none ∧ r.index.isSome = true := by
    rcases hsrc with rfl | rfl <;> (simp only [init, Option.some.injEq] at h; subst h; exact ⟨rfl, rfl⟩)
  obtain ⟨hf, hi⟩ := hinv ops r hr.1
  constructor
  · unfold readNeedsFile
    split
    · simp
    · simp [hf]
  · intro hnc
    have hidx := hi hnc hr.2
    have hne : (run r ops).index ≠ none := by
      intro hn; rw [hn] at hidx; cases hidx
    unfold readNeedsFile isClosed
    simp [hf, hne]

/-! ## 3. a data file cut short beside its complete index -/

/-- **cut anywhere** (`k ≤` length of the data file): through the index, with the size `k` of the cut data
    file, the reader raises the same exception or ends with the same segments — the last one clamped to `k` and
    flagged incomplete alike —, the same `object_metadata` and the same `prevObjs` (`SameResult`).  What may
    differ is the version bookkeeping only: see `twin_files_truncated` and `exCutVersions`. -/
theorem readMetadata_with_index_truncated (e : FileEnc) (dat idx : Bytes) (hc : indexClass e = true)
    (hd : encodeFile e = .ok dat) (hi : encodeIndex e = .ok idx) (k : Nat) (hk : k ≤ dat.length) :
    SameResult (readMetadataIndex idx (some k)) (readMetadata (dat.take k)) := by
  obtain ⟨acts, _, _, hd', hi', hok, _⟩ := indexClass_twin hc
  rw [hd'] at hd; rw [hi'] at hi
  injection hd with hd; injection hi with hi
  subst hd hi
  exact twin_read_cut_any _ hok k hk

/-- **cut inside the last segment, behind its lead-in** (the usual crash: the index was flushed, the data were
    not): exactly the same reader state, version bookkeeping included.  `zipEncode encodeSeg e.dropLast acts`
    are the bytes of all segments but the last. -/
theorem readMetadata_with_index_truncated_last (e : FileEnc) (dat idx : Bytes) (acts : List (List ActiveObj))
    (hc : indexClass e = true) (ha : activeLists none [] e = .ok acts)
    (hd : encodeFile e = .ok dat) (hi : encodeIndex e = .ok idx) (k : Nat) (hk : k ≤ dat.length)
    (hcut : (zipEncode encodeSeg e.dropLast acts).length + 28 ≤ k) :
    readMetadataIndex idx (some k) = readMetadata (dat.take k) := by
  obtain ⟨acts', ha', _, hd', hi', hok, _⟩ := indexClass_twin hc
  rw [ha] at ha'; injection ha' with ha'; subst ha'
  rw [hd'] at hd; rw [hi'] at hi
  injection hd with hd; injection hi with hi
  subst hd hi
  have hb := cutBound_tsegs e acts (activeLists_length e _ _ acts ha).symm
  exact twin_read_cut_last _ hok k hk (by omega)

/-! ## non-vacuity: concrete encodings -/

section Examples

private def pR : Bytes := [47]
private def pG : Bytes := [47, 39, 103, 39]
private def pA : Bytes := [47, 39, 103, 39, 47, 39, 97, 39]
private def pS : Bytes := [47, 39, 103, 39, 47, 39, 115, 39]
private def pB : Bytes := [47, 39, 103, 39, 47, 39, 98, 39]
private def pD : Bytes := [47, 39, 103, 39, 47, 39, 100, 39]

/-- little endian, new object list: root and group with properties, an Int32 channel (2 values per chunk), a
    string channel (2 strings per chunk); 3 bytes of padding; 2 chunks -/
def exS1 : SegEnc :=
  { hasMeta := true, newList := true, interleaved := false, big := false, rawFlag := true, daqmxFlag := false,
    version := 4713,
    objs := [ ⟨pR, .noData, [⟨[110], 0x20, [102, 105]⟩]⟩, ⟨pG, .noData, [⟨[102], 0x21, [7]⟩]⟩,
      ⟨pA, .full 3 2 0, [⟨[117], 0x20, [86]⟩]⟩, ⟨pS, .full 0x20 2 11, []⟩ ],
    padding := 3,
    chunks := [ [[[1, 0, 0, 0], [2, 0, 0, 0]], [[97, 98], [99]]],
                [[[3, 0, 0, 0], [4, 0, 0, 0]], [[], [120, 121, 122]]] ],
    lengthUnknown := false }

/-- BIG endian, object list inherited: the string channel stops ("no data"), the Int32 channel goes on
    ("matches previous", with a new property), a Float64 channel is new; 1 chunk -/
def exS2 : SegEnc :=
  { hasMeta := true, newList := false, interleaved := false, big := true, rawFlag := true, daqmxFlag := false,
    version := 4713,
    objs := [ ⟨pS, .noData, []⟩, ⟨pA, .matchesPrev, [⟨[118], 3, [1, 0, 0, 0]⟩]⟩, ⟨pB, .full 10 1 0, []⟩ ],
    padding := 0,
    chunks := [ [[[1, 0, 0, 0], [2, 0, 0, 0]], [[1, 2, 3, 4, 5, 6, 7, 8]]] ],
    lengthUnknown := false }

/-- no metadata at all (everything inherited), 2 bytes of padding, 2 chunks -/
def exS3 : SegEnc :=
  { hasMeta := false, newList := false, interleaved := false, big := true, rawFlag := true, daqmxFlag := false,
    version := 4713, objs := [], padding := 2,
    chunks := [ [[[1, 0, 0, 0], [2, 0, 0, 0]], [[1, 2, 3, 4, 5, 6, 7, 8]]],
                [[[5, 0, 0, 0], [6, 0, 0, 0]], [[1, 2, 3, 4, 5, 6, 7, 9]]] ],
    lengthUnknown := false }

def ex3 : FileEnc := [exS1, exS2, exS3]
/-- the same with the last segment's length left open -/
def ex3U : FileEnc := [exS1, exS2, { exS3 with lengthUnknown := true }]
/-- a DAQmx index (format-changing scaler) and a digital-line index; the raw data are arbitrary bytes as far as
    the class is concerned -/
def exDaq : FileEnc :=
  [ { exS1 with
      objs := [ ⟨pD, .daqmx false 3 2 [⟨5, 0, 0, 0, 7⟩] [4], []⟩,
                ⟨pB, .daqmx true 0xFFFFFFFF 2 [⟨0, 0, 3, 0, 1⟩, ⟨0, 0, 4, 0, 2⟩] [4], []⟩ ],
      daqmxFlag := true,
      chunks := [ [[[1, 0, 0, 0], [2, 0, 0, 0]]] ] },
    { exS3 with big := false } ]

def datOf (e : FileEnc) : Bytes := (encodeFile e).toOption.getD []
def idxOf (e : FileEnc) : Bytes := (encodeIndex e).toOption.getD []

/-- the hypotheses hold: the three-segment example is well-formed, its numbers fit, it is in the class -/
example : wellFormed ex3 = true ∧ sizesFit ex3 = true ∧ indexClass ex3 = true ∧ lengthsKnown ex3 = true := by
  decide +kernel
example : wellFormed ex3U = true ∧ indexClass ex3U = true ∧ lengthsKnown ex3U = false := by decide +kernel
example : indexClass exDaq = true ∧ lengthsKnown exDaq = true := by decide +kernel
example : ((datOf ex3).length, (idxOf ex3).length) = (420, 334) := by decide +kernel

/-- … and the reading it speaks about succeeds: three segments with 2, 1, 2 chunks at 0, 221, 358; the Int32
    channel ends with 10 values, the string channel with 4, the Float64 channel with 3 -/
example : (readMetadata (datOf ex3)).toOption.map (fun st =>
      (st.segments.map fun s => (s.position, s.dataPosition, s.nextSegmentPos, s.numChunks),
       st.objects.map fun m => (m.dataType, m.numValues))) =
    some ([(0, 183, 221, 2), (221, 342, 358, 1), (358, 388, 420, 2)],
          [(none, 0), (none, 0), (some 3, 10), (some 0x20, 4), (some 10, 3)]) := by decide +kernel
example : ((readMetadata (datOf exDaq)).toOption.map fun st => st.segments.map (·.numChunks)) = some [1, 4] := by
  decide +kernel

/-- the theorems applied to the examples -/
example (dat idx : Bytes) (hd : encodeFile ex3 = .ok dat) (hi : encodeIndex ex3 = .ok idx) :
    readMetadataIndex idx (some dat.length) = readMetadata dat ∧
    readMetadataIndex idx none = readMetadata dat ∧
    readFileWithIndex dat idx = readFile dat ∧ openFileWithIndex dat idx = openFile dat :=
  ⟨readMetadata_with_index_eq ex3 dat idx (by decide +kernel) hd hi,
   index_only_same_metadata ex3 dat idx (by decide +kernel) (by decide) hd hi,
   readFile_with_index_eq ex3 dat idx (by decide +kernel) hd hi,
   openFile_with_index_eq ex3 dat idx (by decide +kernel) hd hi⟩

example (dat idx : Bytes) (hd : encodeFile exDaq = .ok dat) (hi : encodeIndex exDaq = .ok idx) :
    readMetadataIndex idx (some dat.length) = readMetadata dat :=
  readMetadata_with_index_eq exDaq dat idx (by decide +kernel) hd hi

/-- unknown length in the last segment: transparent with the data file, refused without -/
example (dat idx : Bytes) (hd : encodeFile ex3U = .ok dat) (hi : encodeIndex ex3U = .ok idx) :
    readMetadataIndex idx (some dat.length) = readMetadata dat :=
  readMetadata_with_index_eq ex3U dat idx (by decide +kernel) hd hi
example : (readMetadataIndex (idxOf ex3U) none).toOption.isNone = true ∧
    (readMetadata (datOf ex3U)).toOption.isSome = true := by decide +kernel

/-- the cut theorems apply to every `k`; 388 is where the last segment's raw data start (358 + 28 + 2) -/
example : (zipEncode encodeSeg ex3.dropLast ((activeLists none [] ex3).toOption.getD [])).length + 28 = 386 := by
  decide +kernel

/-- **the version bookkeeping really differs when the cut is before the last segment**: the data file cut
    at byte 200 (inside the raw data of the first segment).  Both readings give one incomplete segment ending at
    200; the index walk has in addition unpacked the lead-in of the second index segment before noticing that it
    lies beyond the data (`versions` has one more entry). -/
theorem exCutVersions :
    ((readMetadataIndex (idxOf ex3) (some 200)).toOption.map fun st =>
        (st.versions, st.segments.map fun s => (s.nextSegmentPos, s.incomplete))) =
      some ([4713, 4713], [(200, true)]) ∧
    ((readMetadata ((datOf ex3).take 200)).toOption.map fun st =>
        (st.versions, st.segments.map fun s => (s.nextSegmentPos, s.incomplete))) =
      some ([4713], [(200, true)]) := by decide +kernel

/-- … and a data file shorter than one lead-in: without the index `tdms_version` stays unset, with it the
    version of the first index segment is recorded -/
theorem exCutVersion0 :
    ((readMetadataIndex (idxOf ex3) (some 10)).toOption.map fun st => (st.version, st.segments.length)) =
      some (some 4713, 0) ∧
    ((readMetadata ((datOf ex3).take 10)).toOption.map fun st => (st.version, st.segments.length)) =
      some (none, 0) := by decide +kernel

/-- **`MetaIndep` cannot be dropped** (arbitrary bytes): a metadata block whose object path claims 5 bytes while
    the block ends after 1.  In the data file the parser runs on into the raw data (which happen to continue
    the metadata: reading succeeds, 7 chunks); in the index file the block is followed by nothing and the
    parser runs out of bytes.  The headers satisfy every other clause of `TwinOk`. -/
def exOverrun : TSeg :=
  { hdr := encLE 4 (kTocMetaData + kTocNewObjList + kTocRawData) ++ encLE 4 4713 ++ encLE 8 (9 + 28) ++ encLE 8 9,
    md := encLE 4 1 ++ encLE 4 5 ++ [47],
    raw := [39, 97, 39, 39] ++ encLE 4 20 ++ encLE 4 3 ++ encLE 4 1 ++ encLE 8 1 ++ encLE 4 0 }

theorem exOverrun_differs :
    exOverrun.hdr.length = 24 ∧ hRawOff exOverrun.hdr = exOverrun.md.length ∧
    hNextOff exOverrun.hdr = exOverrun.md.length + exOverrun.raw.length ∧
    ((readMetadata (dataOf [exOverrun])).toOption.map fun st => st.segments.map (·.numChunks)) = some [7] ∧
    (readMetadataIndex (indexOf [exOverrun]) (some (dataOf [exOverrun]).length)).toOption.isNone = true := by
  decide +kernel

end Examples

end Tdms.Proofs.C09Content
