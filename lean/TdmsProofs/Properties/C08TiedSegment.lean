import TdmsProofs.Lemmas.TiedWriteSegment

/-!
# C08 (tied): `TdmsWriter.write_segment` — object completion, ordering, the duplicate check of `TdmsSegment.__init__`,
the channel-type guard and the writer state, against `segmentObjects` / `typesStep` of `Tdms/Model/Writer.lean`

`write_segment` writes to files in the middle; it is translated in THREE REGIONS of its body (generated definitions
`TdmsWriter.write_segment_objects` = statements `path_object_pairs = …` … `objects = […]`, `write_segment_types` =
`channel_types = dict(…)` and the guard loop, `write_segment_state` = the four state updates at the end); the two
`TdmsSegment(…)` / `segment.write(…)` statements between them are not translated (the constructor
`TdmsSegment.__init__` is).  That the values flow from one region to the next as the Python text says is NOT part of
these theorems.

Representation: `pyWObj nameOf o` (`TdmsProofs/Lemmas/TiedWriter.lean`; absent / empty properties are `None`), a
group name `g` is the Python value `pyName nameOf g = some (nameOf g)` (`nameOf` injective); a set of group names is
represented up to membership (`SetRepr`), the dict `_channel_types` up to lookup (`DictRepr`, keys `pstr path`,
`pstr` injective).  Parameters of the generated code, instantiated: `ObjectPath.from_string(o.path)` = `pyPathOf` (the
round trip through the path string is C16), `sorted(set of names)` = any function that returns the model's `sortedSet`
of a list with the same elements (`hsorted`: Python's `str` order = UTF-8 byte order), `GroupObject.path` /
`ChannelObject.path` = `groupPath` / `channelPath` (the model's path bytes through `pstr`).
-/

namespace Tdms.Proofs.C08Tied

open Tdms Tdms.Generated Tdms.Generated.Code2 Tdms.Model.Writer Tdms.Proofs.Tied2W

variable (nameOf : Bytes → List Char) (enc : List Char → Bytes) (pstr : Bytes → List Char)

/-- **object completion and ordering**: a root object is added to the first segment that has none, missing group
    objects are added (sorted), root before groups before channels, stable -/
theorem write_segment_objects_tied (hinj : ∀ a b, nameOf a = nameOf b → a = b)
    (sorted_names : List (Option (List Char)) → List (Option (List Char)))
    (hsorted : ∀ (s : List (Option (List Char))) (l : List Bytes), (∀ x, x ∈ s ↔ x ∈ l.map (pyName nameOf)) →
      sorted_names s = (sortedSet l).map (pyName nameOf))
    {Handle : Type} (w : TdmsWriter Handle) (st : WriterState) (objs : List WObj)
    (hroot : w._root_written = st.rootWritten) (hset : SetRepr nameOf w._groups_written st.groupsWritten) :
    ∃ inc, TdmsWriter.write_segment_objects pyPathOf sorted_names w (objs.map (pyWObj nameOf)) =
        .ok ((stableSortByKey (segAll st objs)).map (pyWObj nameOf), inc, (segToAdd st objs).map (pyName nameOf)) ∧
      SetRepr nameOf inc (segIncluded objs) :=
  write_segment_objects_eq nameOf hinj sorted_names hsorted w st objs hroot hset

/-- `segAll`, `segToAdd`, `segIncluded` are the parts of the model's `segmentObjects` -/
theorem segmentObjects_parts (st : WriterState) (objs : List WObj) :
    segmentObjects st objs =
      (let sorted := stableSortByKey (segAll st objs)
       let paths := sorted.map (·.path)
       if paths.eraseDups.length ≠ paths.length then none
       else some (sorted, { rootWritten := true, groupsWritten := st.groupsWritten ++ segIncluded objs ++ segToAdd st objs })) :=
  segmentObjects_eq st objs

/-- **`TdmsSegment.__init__`**: "Duplicate object paths found" exactly when two objects have the same path -/
theorem TdmsSegment.__init___tied (henc : ∀ b, enc (nameOf b) = b)
    (hroot : pstr (Model.Path.componentsToPathBytes []) = ['/']) (hinj : ∀ a b, pstr a = pstr b → a = b)
    (objs : List WObj) (version : Nat) (isIndex : Bool) :
    Code2.TdmsSegment.__init__ (groupPath enc pstr) (channelPath enc pstr) (objs.map (pyWObj nameOf)) isIndex (version : Int) =
      if ((objs.map (·.path)).eraseDups.length ≠ (objs.map (·.path)).length) then .error "ValueError"
      else .ok (pySegment nameOf objs version isIndex) :=
  segment_init_eq nameOf enc pstr henc hroot hinj objs version isIndex

/-- **the completed object list is the model's**: what region 1 hands to `TdmsSegment(…)` is accepted / rejected as
    `segmentObjects` says -/
theorem write_segment_objects_model (hinj : ∀ a b, nameOf a = nameOf b → a = b) (henc : ∀ b, enc (nameOf b) = b)
    (hrootp : pstr (Model.Path.componentsToPathBytes []) = ['/']) (hinjp : ∀ a b, pstr a = pstr b → a = b)
    (sorted_names : List (Option (List Char)) → List (Option (List Char)))
    (hsorted : ∀ (s : List (Option (List Char))) (l : List Bytes), (∀ x, x ∈ s ↔ x ∈ l.map (pyName nameOf)) →
      sorted_names s = (sortedSet l).map (pyName nameOf))
    {Handle : Type} (w : TdmsWriter Handle) (st : WriterState) (objs : List WObj)
    (hroot : w._root_written = st.rootWritten) (hset : SetRepr nameOf w._groups_written st.groupsWritten)
    (version : Nat) (isIndex : Bool) :
    ∃ objs' inc add, TdmsWriter.write_segment_objects pyPathOf sorted_names w (objs.map (pyWObj nameOf)) = .ok (objs', inc, add) ∧
      match segmentObjects st objs with
      | some (sorted, st') =>
        Code2.TdmsSegment.__init__ (groupPath enc pstr) (channelPath enc pstr) objs' isIndex (version : Int) =
          .ok (pySegment nameOf sorted version isIndex) ∧
        st'.rootWritten = true ∧
        (∀ x, x ∈ Py.setUnion (Py.setUnion w._groups_written inc) add ↔ x ∈ st'.groupsWritten.map (pyName nameOf))
      | none =>
        Code2.TdmsSegment.__init__ (groupPath enc pstr) (channelPath enc pstr) objs' isIndex (version : Int) =
          .error "ValueError" := by
  obtain ⟨inc, hA, hinc⟩ := write_segment_objects_eq nameOf hinj sorted_names hsorted w st objs hroot hset
  refine ⟨_, inc, _, hA, ?_⟩
  rw [segmentObjects_eq]
  have hI := segment_init_eq nameOf enc pstr henc hrootp hinjp (stableSortByKey (segAll st objs)) version isIndex
  simp only
  by_cases hd : ((stableSortByKey (segAll st objs)).map (·.path)).eraseDups.length ≠
      ((stableSortByKey (segAll st objs)).map (·.path)).length
  · rw [if_pos hd] at hI ⊢
    exact hI
  · rw [if_neg hd] at hI ⊢
    refine ⟨hI, rfl, ?_⟩
    intro x
    simp only [mem_setUnion, List.map_append, List.mem_append]
    rw [hset x, hinc x]

/-- **the channel-type guard**: ValueError exactly when `typesStep` refuses; `hnd`: the typed channels of the segment
    have distinct paths (with two channels of the same path the Python dict keeps the LAST type and checks only that
    one; such a segment is rejected afterwards by `TdmsSegment.__init__`) -/
theorem write_segment_types_tied (henc : ∀ b, enc (nameOf b) = b)
    (hroot : pstr (Model.Path.componentsToPathBytes []) = ['/']) (hinj : ∀ a b, pstr a = pstr b → a = b)
    {Handle : Type} (w : TdmsWriter Handle) (seen : List (Bytes × Nat)) (hd : DictRepr pstr w._channel_types seen)
    (objs : List WObj) (hnd : ((typedChannels objs).map (·.1)).Nodup) :
    TdmsWriter.write_segment_types (groupPath enc pstr) (channelPath enc pstr) w (objs.map (pyWObj nameOf)) =
      match typesStep seen objs with
      | some _ => .ok (pyTypes pstr (typedChannels objs))
      | none => .error "ValueError" :=
  write_segment_types_eq nameOf enc pstr henc hroot hinj w seen hd objs hnd

/-- **the state after the segment**: root written, the included and the added groups remembered, the channel types
    recorded (the model's `typesStep` result `cts ++ seen`); file handles and version untouched -/
theorem write_segment_state_tied (hinj : ∀ a b, pstr a = pstr b → a = b) {Handle : Type} (w : TdmsWriter Handle)
    (st : WriterState) (seen : List (Bytes × Nat)) (inc : List (Option (List Char))) (incL addL : List Bytes)
    (cts : List (Bytes × Nat)) (hset : SetRepr nameOf w._groups_written st.groupsWritten)
    (hinc : SetRepr nameOf inc incL) (hd : DictRepr pstr w._channel_types seen) (hnd : (cts.map (·.1)).Nodup) :
    let w' := TdmsWriter.write_segment_state w inc (addL.map (pyName nameOf)) (pyTypes pstr cts)
    w'._root_written = true ∧
    SetRepr nameOf w'._groups_written (st.groupsWritten ++ incL ++ addL) ∧
    DictRepr pstr w'._channel_types (cts ++ seen) ∧
    w'._file = w._file ∧ w'._index_file = w._index_file ∧ w'._tdms_version = w._tdms_version :=
  write_segment_state_eq nameOf pstr hinj w st seen inc incL addL cts hset hinc hd hnd

/-- the constructors used by the completion: default properties `None` -/
theorem added_objects_tied (g : Bytes) :
    (WObject.RootObject (RootObject.__init__ none) : WObject (List WProp) Bytes) = pyWObj nameOf (.root []) ∧
    (WObject.GroupObject (GroupObject.__init__ (pyName nameOf g) none) : WObject (List WProp) Bytes) =
      pyWObj nameOf (.group g []) := ⟨rfl, rfl⟩

end Tdms.Proofs.C08Tied
