import TdmsProofs.Lemmas.TiedScalingChannel

/-!
# C13 (tied): which properties define a scaling — `from_properties`, `_get_number_of_scalings`,
`_get_channel_scaling`, `get_scaling` of `nptdms/scaling.py`

The definitions of `Tdms.Generated.Code2` are generated from the current npTDMS source by `harness/pyast2lean.py`.
Representation (`TdmsProofs/Lemmas/TiedScalingRepr.lean`): a model property list `ps` stands for the Python dict
`pyProps ps`; `getM ps k` is `properties[k]` (KeyError when absent), `getMD ps k d` is `properties[k]` with default `d`;
a Python scaling object `s` at index `i` stands for the model scaling `absScaling i s`; `AbsList` relates the list
`MultiScaling.scalings` to a model scale list; a model error `e` is the exception class `errName e`.

Not translated (parameters of the generated definitions, instantiated here): the regular expression
`NI_Scale\[(\d+)\]_Scale_Type` (`regexIndex` = the model's `scaleTypeIndex`), `np.all(np.diff(x) > 0)` (`incOf` = the
model's `strictlyIncreasing` on the converted values), `np.flip` (`List.reverse`).
-/

namespace Tdms.Proofs.C13Tied

open Tdms.Model.Scaling Tdms.Generated Tdms.Generated.Code2 Tdms.Proofs.Tied2

variable {R : Type}

/-! ## the constructors: property names, order, defaults (no hypotheses) -/

/-- `NoOpScaling.from_properties` (scale type 'AdvancedAPI'): the input source defaults to the raw data -/
theorem NoOpScaling.from_properties_tied (ps : Props R) (i : Nat) (name : String) :
    Code2.NoOpScaling.from_properties (pyProps ps) (i : Int) name.toList =
      .ok ⟨getMD ps (pfx i ++ "_" ++ name ++ "_Input_Source") rawV⟩ :=
  noop_from_properties ps i name

/-- `LinearScaling.from_properties`: intercept, slope (both required), input source (default: raw data).
    An input source `0` is kept (`getMD` only uses the default for an ABSENT property). -/
theorem LinearScaling.from_properties_tied (ps : Props R) (i : Nat) :
    Code2.LinearScaling.from_properties (pyProps ps) (i : Int) = (do
      let b ← getM ps (pfx i ++ "_Linear_Y_Intercept")
      let m ← getM ps (pfx i ++ "_Linear_Slope")
      pure ⟨b, m, getMD ps (pfx i ++ "_Linear_Input_Source") rawV⟩) :=
  linear_from_properties ps i

/-- `PolynomialScaling.from_properties`: 4 coefficients unless `…_Coefficients_Size` says otherwise -/
theorem PolynomialScaling.from_properties_tied (ps : Props R) (i : Nat) :
    Code2.PolynomialScaling.from_properties (pyProps ps) (i : Int) = (do
      let n ← Py.Val.toIndex (getMD ps (pfx i ++ "_Polynomial_Coefficients_Size") (.int 4))
      let cs ← Py.mapE (Py.range n) fun j => getM ps ((pfx i ++ "_Polynomial_Coefficients") ++ "[" ++ toString j ++ "]")
      pure ⟨cs, getMD ps (pfx i ++ "_Polynomial_Input_Source") rawV⟩) :=
  polynomial_from_properties ps i

/-- `TableScaling.from_properties`: both sizes must be equal (ValueError) -/
theorem TableScaling.from_properties_tied [DecidableEq R] [NatCast R] [Neg R] (inc : List (Py.Val R) → Bool)
    (flip : List (Py.Val R) → List (Py.Val R)) (ps : Props R) (i : Nat) :
    Code2.TableScaling.from_properties inc flip (pyProps ps) (i : Int) = (do
      let np ← getM ps (pfx i ++ "_Table_Pre_Scaled_Values_Size")
      let ns ← getM ps (pfx i ++ "_Table_Scaled_Values_Size")
      if Py.Val.eq np ns = false then .error "ValueError"
      else do
        let np ← Py.Val.toIndex np
        let pre ← Py.mapE (Py.range np) fun j => getM ps ((pfx i ++ "_Table_Pre_Scaled_Values") ++ "[" ++ toString j ++ "]")
        let ns ← Py.Val.toIndex ns
        let sc ← Py.mapE (Py.range ns) fun j => getM ps ((pfx i ++ "_Table_Scaled_Values") ++ "[" ++ toString j ++ "]")
        Code2.TableScaling.__init__ inc flip pre sc (getMD ps (pfx i ++ "_Table_Input_Source") rawV)) :=
  table_from_properties inc flip ps i

/-- `TableScaling.__init__`: the SCALED values are the interpolation inputs; both lists are flipped when the scaled
    values are not increasing; ValueError when they are not monotonic -/
theorem TableScaling.__init___tied [DecidableEq R] (inc : List (Py.Val R) → Bool) (flip : List (Py.Val R) → List (Py.Val R))
    (pre sc : List (Py.Val R)) (src : Py.Val R) :
    Code2.TableScaling.__init__ inc flip pre sc src =
      if inc sc = true then .ok ⟨sc, pre, src⟩
      else if inc (flip sc) = true then .ok ⟨flip sc, flip pre, src⟩
      else .error "ValueError" :=
  table_init inc flip pre sc src

theorem AddScaling.from_properties_tied (ps : Props R) (i : Nat) :
    Code2.AddScaling.from_properties (pyProps ps) (i : Int) = (do
      let l ← getM ps (pfx i ++ "_Add_Left_Operand_Input_Source")
      let r ← getM ps (pfx i ++ "_Add_Right_Operand_Input_Source")
      pure ⟨l, r⟩) :=
  add_from_properties ps i

theorem SubtractScaling.from_properties_tied (ps : Props R) (i : Nat) :
    Code2.SubtractScaling.from_properties (pyProps ps) (i : Int) = (do
      let l ← getM ps (pfx i ++ "_Subtract_Left_Operand_Input_Source")
      let r ← getM ps (pfx i ++ "_Subtract_Right_Operand_Input_Source")
      pure ⟨l, r⟩) :=
  subtract_from_properties ps i

/-- `ThermocoupleScaling.from_properties`: defaults type J (10072), direction 0, raw data -/
theorem ThermocoupleScaling.from_properties_tied [DecidableEq R] [NatCast R] [Neg R] (ps : Props R) (i : Nat) :
    Code2.ThermocoupleScaling.from_properties (pyProps ps) (i : Int) =
      Code2.ThermocoupleScaling.__init__ (getMD ps (pfx i ++ "_Thermocouple_Thermocouple_Type") (.int 10072))
        (getMD ps (pfx i ++ "_Thermocouple_Scaling_Direction") (.int 0))
        (getMD ps (pfx i ++ "_Thermocouple_Input_Source") rawV) :=
  thermocouple_from_properties ps i

/-- `ThermocoupleScaling.__init__`: the type-code table of the code is the generated `tcTypeCodes` -/
theorem ThermocoupleScaling.__init___tied [DecidableEq R] [NatCast R] [Neg R] (n : Nat) (dir src : Py.Val R) :
    Code2.ThermocoupleScaling.__init__ (Py.Val.int (n : Int)) dir src =
      match tcTypeCodes.find? (fun c => c.1 == n) with
      | some c => .ok ⟨c.2.toList, dir, src⟩
      | none => .error "KeyError" :=
  thermocouple_init_eq n dir src

/-! ## each constructor against the branch of the model's `buildOne` -/

section Model
variable [NatCast R] [Neg R] [LT R] [DecidableRel (α := R) (· < ·)] [DecidableEq R]

/-- `_get_number_of_scalings`; `h`: the property `NI_Number_Of_Scales`, when present, is an integer (`int(x)` of a
    float / str is not modelled: the generated code raises the pseudo exception "NotModelled", the model answers
    `none`) -/
theorem _get_number_of_scalings_tied (ps : Props R) (h : IsNat ps "NI_Number_Of_Scales") :
    _get_number_of_scalings regexIndex (pyProps ps) = .ok ((numberOfScalings ps).map fun (n : Nat) => (n : Int)) :=
  number_of_scalings_tied ps h

/-- one iteration of the loop of `_get_channel_scaling` builds what `buildOne` builds -/
theorem _get_channel_scaling_loop_tied (ps : Props R) (n : Nat)
    (body : Int → PyScalings R → Except Py.Exc (Py.Ctl (PyScalings R) (Option (MultiScaling R))))
    (hbody : ∀ j, j < n → ∀ sc, sc.length = n → BodyAgrees ps j sc (body (j : Int) sc)) :
    match buildAll ps 0 n with
    | .error e => Py.forC (Py.range (n : Int)) (Py.replicate (n : Int) none) body = .error (errName e)
    | .ok none => Py.forC (Py.range (n : Int)) (Py.replicate (n : Int) none) body = .ok (.returned none)
    | .ok (some g) => ∃ sc', Py.forC (Py.range (n : Int)) (Py.replicate (n : Int) none) body = .ok (.fell sc') ∧
        AbsList sc' g := by
  have := loop_tied ps n body hbody n 0 (List.replicate n none) [] (by omega) (by simp) rfl (by intro j hj; simp at hj)
  simp only [List.nil_append] at this
  rw [range_natCast, replicate_natCast]
  cases hB : buildAll ps 0 n with
  | error e => simp only [hB] at this ⊢; exact this
  | ok o =>
    cases o with
    | none => simp only [hB] at this ⊢; exact this
    | some g => simp only [hB] at this ⊢; exact this

/-- **`_get_channel_scaling`** (lookup of the scale types, the 'scaled' status rule, the constructors) computes what
    the model's `channelScaling` computes.  `ScaleTyped ps i` / `IsNat`: the properties have the types the model's
    getters assume, and the sensor scalings have all their properties (see the counterexamples below). -/
theorem _get_channel_scaling_tied (ps : Props R) (hn : IsNat ps "NI_Number_Of_Scales") (hT : ∀ i, ScaleTyped ps i) :
    ChannelAgrees (channelScaling ps) (_get_channel_scaling regexIndex incOf List.reverse (pyProps ps)) :=
  get_channel_scaling_agrees ps hn hT

/-- **`get_scaling`**: channel, then group, then file properties; lazily (a later property set is only looked at —
    and can only raise — when the earlier ones define no scaling) -/
theorem get_scaling_tied (chan group file : Props R) (hc : PropsTyped chan) (hg : PropsTyped group)
    (hf : PropsTyped file) :
    ChannelAgrees (getScaling chan group file)
      (get_scaling regexIndex incOf List.reverse (pyProps chan) (pyProps group) (pyProps file)) :=
  get_scaling_agrees chan group file hc hg hf

end Model

/-! ## why the hypotheses are there: inputs on which the model and the Python text differ -/

/-- a Linear scale whose input source is the FLOAT `0.0` -/
def exFloatSource : Props Int :=
  [(pfx 0 ++ "_Scale_Type", .str "Linear"), (pfx 0 ++ "_Linear_Y_Intercept", .num 1),
   (pfx 0 ++ "_Linear_Slope", .num 2), (pfx 0 ++ "_Linear_Input_Source", .num 0)]

/-- `IsNat` is needed: the model rejects a non-integer input source when the scaling is BUILT (`valueError`), the
    Python constructor stores it (it only fails later, when the value is used as a list index) -/
theorem float_input_source_differs :
    buildOne exFloatSource 0 = .error .valueError ∧
    Code2.LinearScaling.from_properties (pyProps exFloatSource) ((0 : Nat) : Int) = .ok ⟨.num 1, .num 2, .num 0⟩ := by
  constructor
  · simp [buildOne, exFloatSource, Props.get, pfx, getNatD, ← String.toList_inj, String.toList_append]
  · rw [linear_from_properties]
    simp [exFloatSource, getM, getMD, Props.get, pfx, pyPV, ← String.toList_inj, String.toList_append]

/-- an RTD scale that only has its input source -/
def exRtdIncomplete : Props Int :=
  [(pfx 0 ++ "_Scale_Type", .str "RTD"), (pfx 0 ++ "_RTD_Input_Source", .nat 7)]

/-- `ScaleTyped.rtd_all` is needed: the model only reads the input source of a sensor scaling, the Python constructor
    reads (and requires) all eight RTD properties -/
theorem rtd_incomplete_differs :
    buildOne exRtdIncomplete 0 = .ok (some (.sensor 0 7)) ∧
    Code2.RtdScaling.from_properties (pyProps exRtdIncomplete) ((0 : Nat) : Int) = .error "KeyError" := by
  constructor
  · simp [buildOne, exRtdIncomplete, Props.get, pfx, getNat, ← String.toList_inj, String.toList_append]
  · rw [rtd_from_properties]
    simp [exRtdIncomplete, getM, Props.get, pfx, ← String.toList_inj, String.toList_append]

/-- an input source `0` (the output of scale 0) is kept, it is not replaced by the raw-data default — the
    `properties.get(...) or RAW_DATA_INPUT_SOURCE` bug would break this -/
theorem input_source_zero_is_kept :
    Code2.LinearScaling.from_properties
      (pyProps ([(pfx 1 ++ "_Linear_Y_Intercept", .num 1), (pfx 1 ++ "_Linear_Slope", .num 2),
        (pfx 1 ++ "_Linear_Input_Source", .nat 0)] : Props Int)) ((1 : Nat) : Int) = .ok ⟨.num 1, .num 2, .int 0⟩ := by
  rw [linear_from_properties]
  simp [getM, getMD, Props.get, pfx, pyPV, ← String.toList_inj, String.toList_append]

/-- and an absent input source is the raw data -/
theorem input_source_default_is_raw :
    Code2.LinearScaling.from_properties
      (pyProps ([(pfx 1 ++ "_Linear_Y_Intercept", .num 1), (pfx 1 ++ "_Linear_Slope", .num 2)] : Props Int))
      ((1 : Nat) : Int) = .ok ⟨.num 1, .num 2, .int 4294967295⟩ := by
  rw [linear_from_properties]
  simp [getM, getMD, Props.get, pfx, pyPV, rawV, ← String.toList_inj, String.toList_append]

end Tdms.Proofs.C13Tied
