/-
  C07 ("writing then reading returns what was written"): the WHOLE composition  write → bytes → read.

  Writer model `Tdms/Model/Writer.lean` (`writeProgram`: any number of sessions, each any number of
  `write_segment` calls, any objects / properties / data), reader model `readFile`
  (`Tdms/Model/Data.lean`), spec `Tdms/Spec/{Format,Meaning}.lean`.

  1. BRIDGE   `encodeFile (encOfProgram v prog) = .ok d`     — the writer's bytes ARE a spec encoding
              (`encOfProgram`: one `SegEnc` per written segment: metadata + new object list + raw-data flag,
              little endian, no padding, every channel with a typed array listed with a FULL index — the
              writer never emits "matches previous" —, everything else with "no data", one chunk, or none when
              the segment has no data bytes), which is `MultiStd`, `FileFits`, `onlyChannelsHaveDataM`;
  2. MEANING  `denote (encOfProgram v prog) = .ok (promised prog)` — `promised` is defined from the program
              in closed form (first-appearance order, last-written property values via `_to_tdms_value`,
              concatenated data);
  3. HEADLINE `write_then_read` by 1, 2 and C01's `read_encode_multi`.

  Lemmas: `TdmsProofs/Lemmas/C07Whole{Defs,Bytes,Acts,Wf,Upd,Meaning,Promised,Bridge}.lean`.  Core Lean only.
-/
import TdmsProofs.Lemmas.C07WholeBridge

namespace Tdms.Proofs.C07Whole

open Tdms Tdms.Generated Tdms.Model Tdms.Model.Writer Tdms.Proofs.C08 Tdms.Proofs.C01Multi
open Tdms.Proofs.C01Compose (content contentOfDenote ObjView)

/-! ## 1. BRIDGE: the written file is a spec encoding -/

/-- the active object lists of the encoding, explicitly: `activeLists` succeeds exactly because no channel
    changes its data type -/
theorem activeLists_encOfProgram (v : Nat) (prog : Program) (hc : typesConsistent prog) :
    activeLists none [] (encOfProgram v prog) = .ok (actsOfW [] (emitted prog)) :=
  activeLists_written v (emitted prog) [] [] none lastOK_nil (by rw [List.nil_append]; exact hc) (emitted_nodup prog)

/-- **BRIDGE (bytes)**: the data file the writer model produces is, byte for byte, the spec's encoding of
    `encOfProgram v prog` -/
theorem encodeFile_encOfProgram (v : Nat) (prog : Program) (d i : Bytes)
    (hw : writeProgram v prog = some (d, i)) (hW : WritableProgram prog) (hc : typesConsistent prog) :
    encodeFile (encOfProgram v prog) = .ok d := by
  obtain ⟨Ls, hp, rfl, _⟩ := writeProgram_some hw
  unfold encodeFile
  rw [activeLists_encOfProgram v prog hc]
  simp only
  unfold encOfProgram
  rw [zipEncode_written v _ _ (emitted_writable hW), emitted_of_programSegs hp]

/-- **BRIDGE (class)**: the encoding is in the class of C01's multi-segment theorem -/
theorem multiStd_encOfProgram (v : Nat) (hv : v = 4712 ∨ v = 4713) (prog : Program)
    (hW : WritableProgram prog) (hc : typesConsistent prog) : MultiStd (encOfProgram v prog) := by
  refine ⟨?_, ?_⟩
  · intro s hs
    obtain ⟨objs, _, rfl⟩ := List.mem_map.1 hs
    refine ⟨rfl, rfl, ?_⟩
    intro o ho dg ty n sc w hi
    obtain ⟨q, _, rfl⟩ := List.mem_map.1 ho
    simp only [toObjEnc, idxOfW] at hi
    cases hd : dataOf q <;> rw [hd] at hi <;> cases hi
  · unfold wellFormed
    rw [activeLists_encOfProgram v prog hc]
    exact wfSegs_written v hv _ _ (emitted_writable hW) (emitted_nodup prog)

/-- **BRIDGE (sizes)**: `FileFits`, from the writer's own size conditions plus `stringTotalsFit` -/
theorem fileFits_encOfProgram (v : Nat) (prog : Program) (hW : WritableProgram prog)
    (hs : stringTotalsFit prog) : FileFits (encOfProgram v prog) := by
  intro s hsm
  obtain ⟨objs, hobjs, rfl⟩ := List.mem_map.1 hsm
  have hwo := emitted_writable hW objs hobjs
  refine ⟨by simpa [segOfW] using hwo.1, ?_⟩
  intro o ho
  obtain ⟨q, hq, rfl⟩ := List.mem_map.1 ho
  exact objFitsM_toObjEnc (hwo.2.1 q hq) (hs q (mem_written hobjs hq))

/-- **BRIDGE (channels)**: only channel objects (two path components) carry raw data -/
theorem onlyChannels_encOfProgram (v : Nat) (prog : Program) (hc : typesConsistent prog) :
    onlyChannelsHaveDataM (encOfProgram v prog) := by
  intro acts ha sa hsa _ x hx hd
  rw [activeLists_encOfProgram v prog hc] at ha
  cases ha
  obtain ⟨objs, last', _, rfl⟩ := mem_zip_acts v _ _ sa hsa
  obtain ⟨o, _, rfl⟩ := List.mem_map.1 hx
  exact hasData_actOfW hd

/-! ## 2. MEANING: the encoding denotes the promised content -/

/-- **MEANING**: the spec's meaning of the written file is the content promised by the program -/
theorem denote_encOfProgram (v : Nat) (prog : Program) (hW : WritableProgram prog) (hc : typesConsistent prog) :
    denote (encOfProgram v prog) = .ok (promised prog) := by
  unfold denote
  rw [activeLists_encOfProgram v prog hc]
  simp only
  have := denoteSegs_written v (emitted prog) [] [] lastOK_nil lastStd_nil (emitted_nodup prog)
    (emitted_writable hW)
  rw [List.nil_append] at this
  exact congrArg Except.ok this

/-! ### what `promised` says, spelled out -/

/-- objects appear in the order of their first write (root, groups, channels inside a segment — the order
    `write_segment` sorts them into), each path once -/
theorem promised_paths (prog : Program) :
    (promised prog).map (·.path) = ((written prog).map (·.path)).eraseDups ∧
    ((promised prog).map (·.path)).Nodup := by
  refine ⟨promisedOf_paths _, ?_⟩
  rw [promised, promisedOf_paths]
  exact nodup_eraseDups _ _ (Nat.le_refl _)

/-- every written path has an entry, and that entry is `promisedObj`: data type of the typed writes, property
    dictionary, and the concatenation of all data written under the path, in file order -/
theorem promised_entry (prog : Program) (p : Bytes) (hp : p ∈ (written prog).map (·.path)) :
    (promised prog).get p = some
      { path := p,
        ty := (((written prog).filter (·.path = p)).filterMap tyOfW).getLast?,
        props := (((written prog).filter (·.path = p)).flatMap fun o => o.props.map toPropEnc).foldl setProp [],
        values := ((written prog).filter (·.path = p)).flatMap chanVals,
        scalers := [] } := by
  unfold Content.get promised
  rw [find_promisedOf, if_pos hp]
  rfl

/-- the promised value of property `n` of the object at path `p` is the value given in the last write of `n`
    under `p`, converted by `_to_tdms_value` -/
theorem promised_prop_last (prog : Program) (p n : Bytes) :
    (promisedObj (written prog) p).props.find? (·.name = n) =
      ((((written prog).filter (·.path = p)).flatMap fun o => o.props).reverse.find? (·.name = n)).map toPropEnc := by
  unfold promisedObj
  simp only
  rw [find_foldl_setProp]
  have hmap : (((written prog).filter (·.path = p)).flatMap fun o => o.props.map toPropEnc) =
      (((written prog).filter (·.path = p)).flatMap fun o => o.props).map toPropEnc := by
    rw [List.map_flatMap]
  have key : ∀ ws : List WProp, (ws.map toPropEnc).find? (·.name = n) = (ws.find? (·.name = n)).map toPropEnc := by
    intro ws; rw [List.find?_map]; rfl
  rw [hmap, ← List.map_reverse, key]
  generalize List.find? (fun x : WProp => decide (x.name = n)) _ = r
  cases r <;> rfl

/-! ## 3. HEADLINE -/

/-- the promised content as the reader presents it (`ObjView`: path, data type, properties as
    name / TDMS type / value bytes, values); a Boolean property value is normalised to 0 / 1 as `bool(...)` does
    on reading (only matters for an explicitly typed `Boolean` wrapper around a byte other than 0 / 1) -/
def promisedView (prog : Program) : List ObjView := contentOfDenote (promised prog)

/-- the view of one promised property: name, the TDMS type picked by `_to_tdms_value`, its bytes -/
theorem promisedView_prop (p : WProp) :
    Tdms.Proofs.Bytes.canonProp (toPropEnc p) =
      ⟨p.name, (toTdmsValue p.val).1,
        if (toTdmsValue p.val).1 = tyBoolean then [if decLE (toTdmsValue p.val).2 = 0 then 0 else 1]
        else (toTdmsValue p.val).2⟩ := rfl

/-- a Python `bool` comes back as written: type `Boolean`, byte 1 / 0 -/
theorem promisedView_prop_bool (n : Bytes) (b : Bool) :
    Tdms.Proofs.Bytes.canonProp (toPropEnc ⟨n, .bool b⟩) = ⟨n, tyBoolean, [if b then 1 else 0]⟩ := by
  cases b <;> rfl

/-- **C07, whole composition: writing then reading returns what was written.**
    For every program (any sessions, `write_segment` calls, objects, properties, data) that the writer can
    serialise (`WritableProgram`), that never changes the data type of a channel (`typesConsistent`), with
    per-segment string data below 2^32 bytes (`stringTotalsFit`) and a data file shorter than 2^63 bytes:
    the eager read of the written data file succeeds and returns, object by object in order of first
    appearance, exactly the promised content — data type, last-written property values with the TDMS type
    `_to_tdms_value` picks for the Python value, and the concatenation of the data written. -/
theorem write_then_read (v : Nat) (hv : v = 4712 ∨ v = 4713) (prog : Program) (d i : Bytes)
    (hw : writeProgram v prog = some (d, i)) (hW : WritableProgram prog) (hc : typesConsistent prog)
    (hs : stringTotalsFit prog) (hlen : d.length < 2 ^ 63) :
    ∃ r, readFile d = .ok r ∧ content r = promisedView prog := by
  obtain ⟨r, c, hr, hden, hcont⟩ := read_encode_multi (encOfProgram v prog)
    (multiStd_encOfProgram v hv prog hW hc) (fileFits_encOfProgram v prog hW hs)
    (onlyChannels_encOfProgram v prog hc) d (encodeFile_encOfProgram v prog d i hw hW hc) hlen
  rw [denote_encOfProgram v prog hW hc] at hden
  cases hden
  exact ⟨r, hr, hcont⟩

/-- the same with the written file quantified: the writer accepts the program and the read returns the
    promised content -/
theorem write_then_read' (v : Nat) (hv : v = 4712 ∨ v = 4713) (prog : Program) (hW : WritableProgram prog)
    (hc : typesConsistent prog) (hs : stringTotalsFit prog)
    (hlen : ∀ d i, writeProgram v prog = some (d, i) → d.length < 2 ^ 63) :
    ∃ d i r, writeProgram v prog = some (d, i) ∧ readFile d = .ok r ∧ content r = promisedView prog := by
  obtain ⟨d, i, hw⟩ := writeProgram_of_writable v prog hW
  obtain ⟨r, hr, hcont⟩ := write_then_read v hv prog d i hw hW hc hs (hlen d i hw)
  exact ⟨d, i, r, hw, hr, hcont⟩

/-! ## 4. non-vacuity, and the hypothesis that cannot be dropped -/

section Example

/-- four sessions (one of them without any call, one with an empty `write_segment`); root and groups partly
    given, partly inserted by the writer; an Int32 channel written typed, then as an empty untyped array (the
    writer emits "no data"), then typed-and-empty, then typed again, and once more untyped in the next
    session; a string channel in two sessions; property names written twice in one call and overwritten in
    later calls with another type; a `Boolean`-typed byte 7; a datetime; a group name containing a quote and a
    channel name containing a slash; a channel that only ever has an empty string array -/
def exProg : Program :=
  [ [ [ .channel [0x67] [0x61] ⟨3, [[1, 0, 0, 0]]⟩ [⟨[1], .int 5⟩, ⟨[2], .bool true⟩, ⟨[1], .int 7⟩] ],
      [ .channel [0x67] [0x61] ⟨0, []⟩ [⟨[3], .int (2 ^ 40)⟩, ⟨[2], .str [4]⟩] ],
      [ .channel [0x67] [0x61] ⟨3, []⟩ [], .channel [0x68] [0x61] ⟨0x20, [[1], [2, 3]]⟩ [],
        .root [⟨[3], .typed 0x21 [7]⟩] ],
      [ .group [0x68] [⟨[3], .datetime 0⟩],
        .channel [0x67] [0x61] ⟨3, [[2, 0, 0, 0], [3, 0, 0, 0]]⟩ [] ] ],
    [ [ .channel [0x67] [0x61] ⟨0, []⟩ [], .channel [0x68] [0x61] ⟨0x20, [[], [2, 3, 5]]⟩ [] ] ],
    [],
    [ [] ],
    [ [ .root [] ], [ .channel [0x67, 0x27] [0x61, 0x2f] ⟨0x20, []⟩ [⟨[9], .float [0, 0, 0, 0, 0, 0, 0xf0, 0x3f]⟩] ] ] ]

/-- the hypotheses of `write_then_read` hold for the example -/
theorem exProg_hyps : WritableProgram exProg ∧ typesConsistent exProg ∧ stringTotalsFit exProg := by
  decide +kernel

/-- eight segments are written (key order root 0 / group 1 / channel 2 per segment, per session); the
    encoding gives a chunk to exactly the segments that have data bytes -/
theorem exProg_shape :
    (programSegs exProg).map (fun Ls => Ls.map fun L => L.map fun objs => objs.map (·.key)) =
      some [[[0, 1, 2], [2], [0, 1, 2, 2], [1, 2]], [[0, 1, 1, 2, 2]], [], [[0]], [[0], [1, 2]]] ∧
    (encOfProgram 4713 exProg).map (fun s => s.chunks.length) = [1, 0, 1, 1, 1, 0, 0, 0] := by
  decide +kernel

theorem exProg_length : (writeProgram 4713 exProg).map (·.1.length) = some 855 := by decide +kernel

/-- the promised content of the example, literally -/
def exView : List ObjView :=
  [ ⟨[47], none, [⟨[3], 33, [1]⟩], []⟩,
    ⟨[47, 39, 103, 39], none, [], []⟩,
    ⟨[47, 39, 103, 39, 47, 39, 97, 39], some 3,
      [⟨[1], 3, [7, 0, 0, 0]⟩, ⟨[2], 32, [4]⟩, ⟨[3], 4, [0, 0, 0, 0, 0, 1, 0, 0]⟩],
      [[1, 0, 0, 0], [2, 0, 0, 0], [3, 0, 0, 0]]⟩,
    ⟨[47, 39, 104, 39], none, [⟨[3], 68, [0, 0, 0, 0, 0, 0, 0, 0, 128, 176, 37, 124, 0, 0, 0, 0]⟩], []⟩,
    ⟨[47, 39, 104, 39, 47, 39, 97, 39], some 32, [], [[1], [2, 3], [], [2, 3, 5]]⟩,
    ⟨[47, 39, 103, 39, 39, 39], none, [], []⟩,
    ⟨[47, 39, 103, 39, 39, 39, 47, 39, 97, 47, 39], some 32, [⟨[9], 10, [0, 0, 0, 0, 0, 0, 240, 63]⟩], []⟩ ]

theorem exProg_view : promisedView exProg = exView := by decide +kernel

/-- independent check by kernel evaluation of the two models: writing then reading gives `exView` -/
theorem exProg_read : ((writeProgram 4713 exProg).bind fun di => (readFile di.1).toOption.map content) = some exView := by
  decide +kernel

/-- the headline theorem applied to the example: its hypotheses are satisfiable -/
example : ∃ d i r, writeProgram 4713 exProg = some (d, i) ∧ readFile d = .ok r ∧ content r = exView := by
  obtain ⟨hW, hc, hs⟩ := exProg_hyps
  obtain ⟨d, i, r, hw, hr, hcont⟩ := write_then_read' 4713 (.inr rfl) exProg hW hc hs (by
    intro d i hw
    have hl := exProg_length
    rw [hw] at hl
    simp only [Option.map_some, Option.some.injEq] at hl
    rw [hl]; decide)
  exact ⟨d, i, r, hw, hr, by rw [hcont, exProg_view]⟩

/-- `demoProgram` of C08 (two sessions) is in the class as well -/
example : WritableProgram demoProgram ∧ typesConsistent demoProgram ∧ stringTotalsFit demoProgram := by
  decide +kernel

/-- **`typesConsistent` cannot be dropped**: the writer accepts a program that writes a channel first as Int32
    and then as Uint8 (each segment is fine on its own, `WritableProgram` holds), but the file is not a valid
    TDMS file for the spec (`typeChanged`) and the reader raises on it -/
def exTypeChange : Program :=
  [ [ [ .channel [0x67] [0x61] ⟨3, [[1, 0, 0, 0]]⟩ [] ], [ .channel [0x67] [0x61] ⟨5, [[1]]⟩ [] ] ] ]

theorem exTypeChange_rejected :
    WritableProgram exTypeChange ∧ ¬ typesConsistent exTypeChange ∧
    (writeProgram 4713 exTypeChange).isSome = true ∧
    encodeFile (encOfProgram 4713 exTypeChange) = .error .typeChanged ∧
    ((writeProgram 4713 exTypeChange).map fun di =>
      match readFile di.1 with
      | .error .typeChanged => true
      | _ => false) = some true := by
  decide +kernel

end Example

end Tdms.Proofs.C07Whole
