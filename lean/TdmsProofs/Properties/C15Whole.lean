/-
  C15 for whole files ("the byte order of a segment does not change its meaning").

  `withEndian f e` (`Lemmas/C15WholeDefs.lean`) is the file description `e` with the big-endian flag of segment
  `i` replaced by `f i`.
    * A standard segment (contiguous or interleaved) stores its values canonically in `SegEnc.chunks`; the encoder
      byte-swaps them (`storeValue`).  Nothing but the flag changes.
    * A DAQmx segment stores the raw rows of its buffers AS WRITTEN, and their meaning depends on the byte order
      (`scalerValue`).  When the flag of a DAQmx segment changes, every row is re-encoded (`swapRow`): the bytes
      of every scaler field of the buffer are mirrored in place, all other bytes stay.  This is well defined when
      the scaler fields of a buffer are pairwise identical or disjoint (`FieldsCompat`); for partially overlapping
      fields NO re-encoding exists (`no_reencoding_of_overlapping_fields`).

  Composition: `denote (withEndian f e) = denote e` (spec side, from `wellFormed` alone), `withEndian` stays in
  the class of `read_encode_multi_daqmx` (`Properties/C01Layouts.lean`) and keeps the byte size of the file, hence
  the reader returns the same content (objects, data types, properties, values, DAQmx scaler values) for every
  choice of byte orders.  Lazy side: the windows / slices of the lazily opened file (`Properties/C04Whole.lean`,
  standard contiguous class) do not depend on the choice either.
  Lemmas: `TdmsProofs/Lemmas/C15Whole{Defs,Row,Spec,Denote,Wf,Size,Class,Inv}.lean`.  Core Lean only.

  NOT covered: see the end of the file.
-/
import TdmsProofs.Lemmas.C15WholeInv
import TdmsProofs.Properties.C04Whole

namespace Tdms.Proofs.C15Whole

open Tdms Tdms.Generated Tdms.Model Tdms.Proofs.C01Layouts Tdms.Proofs.C01Multi Tdms.Proofs.C04

/-! ## 0. the re-encoding map -/

/-- the flags of `withEndian f e` are those asked for -/
theorem withEndian_flags (f : Nat → Bool) (e : FileEnc) (h : (activeLists none [] e).toOption.isSome = true) :
    (withEndian f e).map (·.big) = (List.range e.length).map f :=
  withEndian_big f e h

/-- asking for the flags the file already has changes nothing: every file is one of its own variants -/
theorem withEndian_same_flags (e : FileEnc) : withEndian (fun i => (e[i]?.map (·.big)).getD false) e = e :=
  withEndian_self e

/-- nothing but the flag and the chunks of a segment changes, and the chunks change only where the flag of a
    DAQmx segment changes -/
theorem withEndian_segment (f : Nat → Bool) (e : FileEnc) (s' : SegEnc) (h : s' ∈ withEndian f e) :
    ∃ s ∈ e, ∃ a, s'.hasMeta = s.hasMeta ∧ s'.newList = s.newList ∧ s'.interleaved = s.interleaved ∧
      s'.rawFlag = s.rawFlag ∧ s'.daqmxFlag = s.daqmxFlag ∧ s'.version = s.version ∧ s'.objs = s.objs ∧
      s'.padding = s.padding ∧ s'.lengthUnknown = s.lengthUnknown ∧
      s'.chunks = if s'.big ≠ s.big ∧ (dataObjs a).any isDaqmxObj = true
        then s.chunks.map (reencChunk (dataObjs a)) else s.chunks := by
  obtain ⟨s, hs, a, b, rfl⟩ := mem_withEndian h
  exact ⟨s, hs, a, by simp, by simp, by simp, by simp, by simp, by simp, by simp, by simp, by simp,
    by rw [weSeg_chunks, weSeg_big]⟩

/-- in a file without DAQmx index (contiguous and interleaved segments) `withEndian` changes the flags and nothing
    else: the values are stored canonically -/
theorem withEndian_standard (e : FileEnc) (h : MultiStdI e) (f : Nat → Bool) :
    withEndian f e = e.mapIdx fun i s => { s with big := f i } :=
  withEndian_std h f

/-- the active object lists do not depend on the byte order -/
theorem activeLists_endian_irrelevant (f : Nat → Bool) (e : FileEnc) :
    activeLists none [] (withEndian f e) = activeLists none [] e :=
  activeLists_withEndian f e

/-- **a re-encoded DAQmx row read in the other byte order gives the same canonical scaler value**: for a scaler
    of known type whose field `(offset, size)` lies inside the row, is among `fields`, and every field of
    `fields` is identical to it or disjoint from it -/
theorem scaler_value_of_swapped_row (fields : List (Nat × Nat)) (e : Endian) (dg : Bool) (s : ScalerEnc) (t sz : Nat)
    (ht : daqmxTypeCode s.daqType = some t) (hsz : typeSize t = some sz) (hg : scField dg s ∈ fields)
    (hc : ∀ h ∈ fields, compat h (scField dg s)) (row : Bytes) (hlen : scalerByteOffset dg s + sz ≤ row.length) :
    scalerValue (flipE e) dg s (swapRow fields row) = scalerValue e dg s row :=
  scalerValue_swapRow e dg s ht hsz hg hc row hlen

/-! ## 1. the meaning -/

/-- **the meaning of a file does not depend on the byte order of its segments** (any well-formed file: standard,
    interleaved, DAQmx raw AND typed DAQmx channels, unknown length …) -/
theorem denote_endian_irrelevant (e : FileEnc) (hwf : wellFormed e = true) (hc : FieldsCompat e) (f : Nat → Bool) :
    denote (withEndian f e) = denote e :=
  denote_withEndian hwf hc f

theorem denote_endian_irrelevant_pair (e : FileEnc) (hwf : wellFormed e = true) (hc : FieldsCompat e)
    (f g : Nat → Bool) : denote (withEndian f e) = denote (withEndian g e) := by
  rw [denote_endian_irrelevant e hwf hc f, denote_endian_irrelevant e hwf hc g]

/-! ## 2. the classes are closed under `withEndian`, the byte size is kept -/

theorem wellFormed_withEndian (e : FileEnc) (hwf : wellFormed e = true) (f : Nat → Bool) :
    wellFormed (withEndian f e) = true := wellFormed_withEndian' hwf f

theorem fieldsCompat_withEndian (e : FileEnc) (h : FieldsCompat e) (f : Nat → Bool) : FieldsCompat (withEndian f e) :=
  fieldsCompat_withEndian' h f

theorem multiStdD_withEndian (e : FileEnc) (h : MultiStdD e) (f : Nat → Bool) : MultiStdD (withEndian f e) :=
  multiStdD_withEndian' h f

theorem fileFitsD_withEndian (e : FileEnc) (h : FileFitsD e) (f : Nat → Bool) : FileFitsD (withEndian f e) :=
  fileFitsD_withEndian' h f

theorem onlyChannelsHaveDataD_withEndian (e : FileEnc) (h : onlyChannelsHaveDataD e) (f : Nat → Bool) :
    onlyChannelsHaveDataD (withEndian f e) := onlyChannelsHaveDataD_withEndian' h f

theorem multiStd_withEndian (e : FileEnc) (h : MultiStd e) (f : Nat → Bool) : MultiStd (withEndian f e) :=
  multiStd_withEndian' h f

theorem fileFits_withEndian (e : FileEnc) (h : FileFits e) (f : Nat → Bool) : FileFits (withEndian f e) :=
  fileFits_withEndian' h f

/-- both encodings exist and have the same number of bytes (segment by segment: lead-in, metadata, raw data) -/
theorem encodeFile_withEndian_length (e : FileEnc) (hwf : wellFormed e = true) (f : Nat → Bool) :
    ∃ b₁ b₂, encodeFile (withEndian f e) = .ok b₁ ∧ encodeFile e = .ok b₂ ∧ b₁.length = b₂.length :=
  encodeFile_withEndian' hwf f

/-- **re-encoding is reversible**: re-encoding a re-encoded file is re-encoding the file (the DAQmx row map
    `swapRow` is an involution on the rows of a well-formed file) … -/
theorem withEndian_withEndian (e : FileEnc) (hwf : wellFormed e = true) (hc : FieldsCompat e) (f g : Nat → Bool) :
    withEndian g (withEndian f e) = withEndian g e :=
  withEndian_withEndian' hwf hc f g

/-- … so asking a variant for the flags of `e` gives `e` back: every variant determines the file -/
theorem withEndian_back (e : FileEnc) (hwf : wellFormed e = true) (hc : FieldsCompat e) (f : Nat → Bool) :
    withEndian (fun i => (e[i]?.map (·.big)).getD false) (withEndian f e) = e := by
  rw [withEndian_withEndian e hwf hc, withEndian_same_flags]

/-- files without DAQmx index satisfy `FieldsCompat` (no row is ever re-encoded) -/
theorem fieldsCompat_of_standard (e : FileEnc) (h : MultiStdI e) : FieldsCompat e := fieldsCompat_of_multiStdI h

/-! ## 3. the eager reader -/

/-- **`TdmsFile.read` of any byte-order variant returns the content of `denote e`** -/
theorem read_withEndian (e : FileEnc) (h : MultiStdD e) (fit : FileFitsD e) (hch : onlyChannelsHaveDataD e)
    (hc : FieldsCompat e) (bytes : Bytes) (hb : encodeFile e = .ok bytes) (hlen : bytes.length < 2 ^ 63)
    (f : Nat → Bool) :
    ∃ b r c, encodeFile (withEndian f e) = .ok b ∧ b.length = bytes.length ∧ readFile b = .ok r ∧
      denote e = .ok c ∧ contentD r = contentOfDenoteD c := by
  obtain ⟨b₁, b₂, h1, h2, h3⟩ := encodeFile_withEndian_length e h.wf f
  rw [hb] at h2
  cases h2
  obtain ⟨r, c, hr, hd, hcont⟩ := read_encode_multi_daqmx (withEndian f e) (multiStdD_withEndian e h f)
    (fileFitsD_withEndian e fit f) (onlyChannelsHaveDataD_withEndian e hch f) b₁ h1 (by rw [h3]; exact hlen)
  rw [denote_endian_irrelevant e h.wf hc f] at hd
  exact ⟨b₁, r, c, h1, h3, hr, hd, hcont⟩

/-- **a file whose segments are written big-endian, little-endian or in any mixture reads identically**: for any
    two assignments `f g` of byte orders to the segments, both encodings exist, have the same size, are read without
    error, and the two results list the same objects in the same order with the same data types, properties,
    values and DAQmx scaler values -/
theorem read_endian_irrelevant (e : FileEnc) (h : MultiStdD e) (fit : FileFitsD e) (hch : onlyChannelsHaveDataD e)
    (hc : FieldsCompat e) (bytes : Bytes) (hb : encodeFile e = .ok bytes) (hlen : bytes.length < 2 ^ 63)
    (f g : Nat → Bool) :
    ∃ b₁ b₂ r₁ r₂, encodeFile (withEndian f e) = .ok b₁ ∧ encodeFile (withEndian g e) = .ok b₂ ∧
      b₁.length = b₂.length ∧ readFile b₁ = .ok r₁ ∧ readFile b₂ = .ok r₂ ∧ contentD r₁ = contentD r₂ := by
  obtain ⟨b₁, r₁, c₁, h1, hl1, hr1, hd1, hc1⟩ := read_withEndian e h fit hch hc bytes hb hlen f
  obtain ⟨b₂, r₂, c₂, h2, hl2, hr2, hd2, hc2⟩ := read_withEndian e h fit hch hc bytes hb hlen g
  rw [hd1] at hd2
  cases hd2
  exact ⟨b₁, b₂, r₁, r₂, h1, h2, by rw [hl1, hl2], hr1, hr2, by rw [hc1, hc2]⟩

/-- every variant reads like the file itself -/
theorem read_endian_irrelevant_original (e : FileEnc) (h : MultiStdD e) (fit : FileFitsD e)
    (hch : onlyChannelsHaveDataD e) (hc : FieldsCompat e) (bytes : Bytes) (hb : encodeFile e = .ok bytes)
    (hlen : bytes.length < 2 ^ 63) (f : Nat → Bool) :
    ∃ b r₁ r, encodeFile (withEndian f e) = .ok b ∧ readFile b = .ok r₁ ∧ readFile bytes = .ok r ∧
      contentD r₁ = contentD r := by
  obtain ⟨b₁, r₁, c₁, h1, _, hr1, hd1, hc1⟩ := read_withEndian e h fit hch hc bytes hb hlen f
  obtain ⟨r, c, hr, hd, hcont⟩ := read_encode_multi_daqmx e h fit hch bytes hb hlen
  rw [hd1] at hd
  cases hd
  exact ⟨b₁, r₁, r, h1, hr1, hr, by rw [hc1, hcont]⟩

/-- the three special cases: all little-endian, all big-endian, alternating -/
def allLittle : Nat → Bool := fun _ => false
def allBig : Nat → Bool := fun _ => true
def alternating : Nat → Bool := fun i => i % 2 == 1

theorem read_all_little_all_big_alternating (e : FileEnc) (h : MultiStdD e) (fit : FileFitsD e)
    (hch : onlyChannelsHaveDataD e) (hc : FieldsCompat e) (bytes : Bytes) (hb : encodeFile e = .ok bytes)
    (hlen : bytes.length < 2 ^ 63) :
    ∃ bl bb ba rl rb ra, encodeFile (withEndian allLittle e) = .ok bl ∧ encodeFile (withEndian allBig e) = .ok bb ∧
      encodeFile (withEndian alternating e) = .ok ba ∧ readFile bl = .ok rl ∧ readFile bb = .ok rb ∧
      readFile ba = .ok ra ∧ contentD rl = contentD rb ∧ contentD rb = contentD ra := by
  obtain ⟨bl, rl, c₁, h1, _, hr1, hd1, hc1⟩ := read_withEndian e h fit hch hc bytes hb hlen allLittle
  obtain ⟨bb, rb, c₂, h2, _, hr2, hd2, hc2⟩ := read_withEndian e h fit hch hc bytes hb hlen allBig
  obtain ⟨ba, ra, c₃, h3, _, hr3, hd3, hc3⟩ := read_withEndian e h fit hch hc bytes hb hlen alternating
  rw [hd1] at hd2 hd3
  cases hd2
  cases hd3
  exact ⟨bl, bb, ba, rl, rb, ra, h1, h2, h3, hr1, hr2, hr3, by rw [hc1, hc2], by rw [hc2, hc3]⟩

/-- the corollary for files with contiguous and interleaved segments only (class of `read_encode_multi_interleaved`):
    no condition on fields, only flags change (`withEndian_standard`) -/
theorem read_endian_irrelevant_standard (e : FileEnc) (h : MultiStdI e) (fit : FileFits e)
    (hch : onlyChannelsHaveDataI e) (bytes : Bytes) (hb : encodeFile e = .ok bytes) (hlen : bytes.length < 2 ^ 63)
    (f g : Nat → Bool) :
    ∃ b₁ b₂ r₁ r₂, encodeFile (e.mapIdx fun i s => { s with big := f i }) = .ok b₁ ∧
      encodeFile (e.mapIdx fun i s => { s with big := g i }) = .ok b₂ ∧
      b₁.length = b₂.length ∧ readFile b₁ = .ok r₁ ∧ readFile b₂ = .ok r₂ ∧
      C01Compose.content r₁ = C01Compose.content r₂ := by
  obtain ⟨b₁, b₂, r₁, r₂, h1, h2, h3, h4, h5, h6⟩ := read_endian_irrelevant e (multiStdD_of_multiStdI h)
    (fileFitsD_of_fileFits h fit) (onlyChannelsHaveDataD_of_I h hch) (fieldsCompat_of_standard e h) bytes hb hlen f g
  rw [withEndian_standard e h] at h1 h2
  exact ⟨b₁, b₂, r₁, r₂, h1, h2, h3, h4, h5, by rw [← contentD_content, ← contentD_content, h6]⟩

/-! ### Boolean form -/

theorem fieldsCompatB_sound {e : FileEnc} (h : fieldsCompatB e = true) : FieldsCompat e := by
  intro acts ha a haa x hx s hs y hy t ht hst
  unfold fieldsCompatB at h
  rw [ha] at h
  simp only [List.all_eq_true, fieldsCompatDB, Bool.or_eq_true, Bool.not_eq_true', decide_eq_false_iff_not,
    decide_eq_true_eq] at h
  rcases h a haa x hx s hs y hy t ht with h | h
  · exact absurd hst h
  · exact h

theorem read_endian_irrelevant_checked (e : FileEnc) (h : multiStdDB e = true) (fit : fileFitsDB e = true)
    (hch : onlyChannelsHaveDataDB e = true) (hc : fieldsCompatB e = true) (bytes : Bytes)
    (hb : encodeFile e = .ok bytes) (hlen : bytes.length < 2 ^ 63) (f g : Nat → Bool) :
    ∃ b₁ b₂ r₁ r₂, encodeFile (withEndian f e) = .ok b₁ ∧ encodeFile (withEndian g e) = .ok b₂ ∧
      b₁.length = b₂.length ∧ readFile b₁ = .ok r₁ ∧ readFile b₂ = .ok r₂ ∧ contentD r₁ = contentD r₂ :=
  read_endian_irrelevant e (multiStdDB_sound h) (fileFitsDB_sound fit) (onlyChannelsHaveDataDB_sound hch)
    (fieldsCompatB_sound hc) bytes hb hlen f g

/-! ## 4. the lazy side (standard contiguous class of `C04Whole`) -/

/-- **`read_data(offset, length)` on the lazily opened file does not depend on the byte order of the segments**:
    for any assignment `f`, `TdmsFile.open` succeeds on the encoding of `withEndian f e`, and every window read,
    from any file state, returns the window of the values `denote e` assigns -/
theorem lazy_window_withEndian (e : FileEnc) (h : MultiStd e) (fit : FileFits e) (bytes : Bytes)
    (hb : encodeFile e = .ok bytes) (hlen : bytes.length < 2 ^ 63) (f : Nat → Bool) :
    ∃ b F c, encodeFile (withEndian f e) = .ok b ∧ openFile b = .ok F ∧ denote e = .ok c ∧
      ∀ oc ∈ c, oc.ty.isSome = true → ∀ (offset : Int) (length : Option Int), 0 ≤ offset →
        (∀ l, length = some l → 0 ≤ l) → ∀ st : FState,
          ∃ st' r, (channelReadData F oc.path offset length).run st = .ok (some r, st') ∧
            r.data.getD [] = takeOpt length (oc.values.drop offset.toNat) := by
  obtain ⟨b₁, b₂, h1, h2, h3⟩ := encodeFile_withEndian_length e h.wf f
  rw [hb] at h2
  cases h2
  obtain ⟨F, c, hF, hd, hw⟩ := Tdms.Proofs.C04Whole.lazy_window_eq_denote_slice (withEndian f e)
    (multiStd_withEndian e h f) (fileFits_withEndian e fit f) b₁ h1 (by rw [h3]; exact hlen)
  rw [denote_endian_irrelevant e h.wf (fieldsCompat_of_standard e (multiStdI_of_multiStd h)) f] at hd
  exact ⟨b₁, F, c, h1, hF, hd, hw⟩

/-- two byte-order variants, opened lazily: every window read returns the same values, whatever the two file
    states are -/
theorem lazy_window_endian_irrelevant (e : FileEnc) (h : MultiStd e) (fit : FileFits e) (bytes : Bytes)
    (hb : encodeFile e = .ok bytes) (hlen : bytes.length < 2 ^ 63) (f g : Nat → Bool) :
    ∃ b₁ b₂ F₁ F₂ c, encodeFile (withEndian f e) = .ok b₁ ∧ encodeFile (withEndian g e) = .ok b₂ ∧
      openFile b₁ = .ok F₁ ∧ openFile b₂ = .ok F₂ ∧ denote e = .ok c ∧
      ∀ oc ∈ c, oc.ty.isSome = true → ∀ (offset : Int) (length : Option Int), 0 ≤ offset →
        (∀ l, length = some l → 0 ≤ l) → ∀ st₁ st₂ : FState,
          ∃ st₁' st₂' r₁ r₂, (channelReadData F₁ oc.path offset length).run st₁ = .ok (some r₁, st₁') ∧
            (channelReadData F₂ oc.path offset length).run st₂ = .ok (some r₂, st₂') ∧
            r₁.data.getD [] = r₂.data.getD [] := by
  obtain ⟨b₁, F₁, c₁, h1, hF1, hd1, hw1⟩ := lazy_window_withEndian e h fit bytes hb hlen f
  obtain ⟨b₂, F₂, c₂, h2, hF2, hd2, hw2⟩ := lazy_window_withEndian e h fit bytes hb hlen g
  rw [hd1] at hd2
  cases hd2
  refine ⟨b₁, b₂, F₁, F₂, c₁, h1, h2, hF1, hF2, hd1, ?_⟩
  intro oc hoc hty offset length hoff hl st₁ st₂
  obtain ⟨st₁', r₁, hr1, hv1⟩ := hw1 oc hoc hty offset length hoff hl st₁
  obtain ⟨st₂', r₂, hr2, hv2⟩ := hw2 oc hoc hty offset length hoff hl st₂
  exact ⟨st₁', st₂', r₁, r₂, hr1, hr2, by rw [hv1, hv2]⟩

/-- **`channel[a:b:c]` on the lazily opened file does not depend on the byte order of the segments** -/
theorem lazy_slice_withEndian (e : FileEnc) (h : MultiStd e) (fit : FileFits e) (bytes : Bytes)
    (hb : encodeFile e = .ok bytes) (hlen : bytes.length < 2 ^ 63) (f : Nat → Bool) :
    ∃ b F c, encodeFile (withEndian f e) = .ok b ∧ openFile b = .ok F ∧ denote e = .ok c ∧
      ∀ oc ∈ c, oc.ty.isSome = true → ∀ (a b s : Option Int) (st : FState),
        match Tdms.Spec.PySlice.pySlice oc.values a b s with
        | .error _ => (channelReadSlice F oc.path a b s).run st = .error .stepZero
        | .ok xs => ∃ st', (channelReadSlice F oc.path a b s).run st = .ok (xs, st') := by
  obtain ⟨b₁, b₂, h1, h2, h3⟩ := encodeFile_withEndian_length e h.wf f
  rw [hb] at h2
  cases h2
  obtain ⟨F, c, hF, hd, hw⟩ := Tdms.Proofs.C04Whole.lazy_slice_eq_denote_pySlice (withEndian f e)
    (multiStd_withEndian e h f) (fileFits_withEndian e fit f) b₁ h1 (by rw [h3]; exact hlen)
  rw [denote_endian_irrelevant e h.wf (fieldsCompat_of_standard e (multiStdI_of_multiStd h)) f] at hd
  exact ⟨b₁, F, c, h1, hF, hd, hw⟩

/-- **`channel[i]` on the lazily opened file, after any history of operations, does not depend on the byte order
    of the segments** -/
theorem lazy_index_withEndian (e : FileEnc) (h : MultiStd e) (fit : FileFits e) (bytes : Bytes)
    (hb : encodeFile e = .ok bytes) (hlen : bytes.length < 2 ^ 63) (f : Nat → Bool) :
    ∃ b F c, encodeFile (withEndian f e) = .ok b ∧ openFile b = .ok F ∧ denote e = .ok c ∧
      ∀ oc ∈ c, ∀ (ops : List Op) (i : Int),
        (step F (Tdms.Proofs.C05.run F {} ops) (.index oc.path i)).2 =
          match Tdms.Spec.PySlice.pyIndex oc.values.length i with
          | some j => .value (oc.values.getD j [])
          | none => .error .indexError := by
  obtain ⟨b₁, b₂, h1, h2, h3⟩ := encodeFile_withEndian_length e h.wf f
  rw [hb] at h2
  cases h2
  obtain ⟨F, c, hF, hd, hw⟩ := Tdms.Proofs.C04Whole.lazy_index_eq_denote (withEndian f e)
    (multiStd_withEndian e h f) (fileFits_withEndian e fit f) b₁ h1 (by rw [h3]; exact hlen)
  rw [denote_endian_irrelevant e h.wf (fieldsCompat_of_standard e (multiStdI_of_multiStd h)) f] at hd
  exact ⟨b₁, F, c, h1, hF, hd, hw⟩

/-! ## 5. non-vacuity: `dFile` of `C01Layouts` (7 segments: DAQmx, contiguous, interleaved) in three byte-order
      assignments, kernel-evaluated -/

section Examples

theorem dFile_compat : FieldsCompat dFile := fieldsCompatB_sound (by decide +kernel)

/-- the flags of the three variants (the original has `[false, true, false, false, false, false, false]`) -/
theorem dFile_variant_flags :
    (withEndian allLittle dFile).map (·.big) = [false, false, false, false, false, false, false] ∧
    (withEndian allBig dFile).map (·.big) = [true, true, true, true, true, true, true] ∧
    (withEndian alternating dFile).map (·.big) = [false, true, false, true, false, true, false] := by
  decide +kernel

/-- what the re-encoding does to the DAQmx rows of segment 0 (fields: bytes 2–3 of buffer 0 (`a`, Int16), byte 4 and
    byte 5 of buffer 0 (`b`, digital lines in U8), bytes 0–1 of buffer 1 (`a`, Int16)); standard segments keep
    their canonical values -/
theorem dFile_allBig_chunks :
    (withEndian allBig dFile)[0]?.map (·.chunks) =
      some [[[[1, 2, 4, 3, 8, 2, 7, 8], [11, 12, 14, 13, 0, 0, 17, 18]], [[52, 51], [54, 53]]],
            [[[21, 22, 24, 23, 255, 255, 27, 28], [31, 32, 34, 33, 8, 0, 37, 38]], [[56, 55], [58, 57]]]] ∧
    (withEndian allBig dFile)[1]?.map (·.chunks) = dFile[1]?.map (·.chunks) ∧
    (withEndian allBig dFile)[6]?.map (·.chunks) = dFile[6]?.map (·.chunks) ∧
    (withEndian allBig dFile)[4]?.map (·.chunks) =
      some [[[[1, 2, 4, 3, 5, 6, 7, 8], [1, 2, 4, 3, 5, 6, 7, 9]], [[62, 61], [64, 63]]]] ∧
    -- segment 1 (big-endian in `dFile`): only `b` is active, its fields are single bytes — the rows do not change
    (withEndian allLittle dFile)[1]?.map (·.chunks) = dFile[1]?.map (·.chunks) := by
  refine ⟨by decide +kernel, by decide +kernel, by decide +kernel, by decide +kernel, by decide +kernel⟩

/-- **the model reader, evaluated by the kernel, returns the literal `dContent` for all three variants** -/
theorem dFile_variants_read :
    ((encodeFile (withEndian allLittle dFile)).toOption.bind fun b => (readFile b).toOption.map contentD) = some dContent ∧
    ((encodeFile (withEndian allBig dFile)).toOption.bind fun b => (readFile b).toOption.map contentD) = some dContent ∧
    ((encodeFile (withEndian alternating dFile)).toOption.bind fun b => (readFile b).toOption.map contentD) =
      some dContent := by
  refine ⟨by decide +kernel, by decide +kernel, by decide +kernel⟩

/-- … and so does the spec -/
theorem dFile_variants_denote :
    (denote (withEndian allLittle dFile)).toOption.map contentOfDenoteD = some dContent ∧
    (denote (withEndian allBig dFile)).toOption.map contentOfDenoteD = some dContent ∧
    (denote (withEndian alternating dFile)).toOption.map contentOfDenoteD = some dContent := by
  refine ⟨by decide +kernel, by decide +kernel, by decide +kernel⟩

/-- the three encodings are three different byte strings of the same length -/
theorem dFile_variants_bytes :
    (encodeFile (withEndian allLittle dFile)).toOption.map (·.length) = some 1001 ∧
    (encodeFile (withEndian allBig dFile)).toOption.map (·.length) = some 1001 ∧
    (encodeFile (withEndian alternating dFile)).toOption.map (·.length) = some 1001 ∧
    (encodeFile (withEndian allLittle dFile)).toOption ≠ (encodeFile (withEndian allBig dFile)).toOption ∧
    (encodeFile (withEndian allBig dFile)).toOption ≠ (encodeFile (withEndian alternating dFile)).toOption ∧
    (encodeFile (withEndian alternating dFile)).toOption ≠ (encodeFile (withEndian allLittle dFile)).toOption ∧
    (encodeFile (withEndian alternating dFile)).toOption ≠ (encodeFile dFile).toOption := by
  decide +kernel

/-- back and forth (kernel evaluation): the all-big variant of the all-little variant of `dFile`, re-flagged as
    `dFile`, is `dFile` -/
example : withEndian (fun i => i == 1) (withEndian allBig (withEndian allLittle dFile)) = dFile := by decide +kernel

/-- the variants are in the class again (Boolean checks, kernel-evaluated) -/
example : multiStdDB (withEndian alternating dFile) = true ∧ fileFitsDB (withEndian alternating dFile) = true ∧
    onlyChannelsHaveDataDB (withEndian alternating dFile) = true ∧ fieldsCompatB (withEndian alternating dFile) = true := by
  decide +kernel

/-- the headline theorem applied to `dFile`: its hypotheses are satisfiable -/
example : ∃ bl bb ba rl rb ra, encodeFile (withEndian allLittle dFile) = .ok bl ∧
    encodeFile (withEndian allBig dFile) = .ok bb ∧ encodeFile (withEndian alternating dFile) = .ok ba ∧
    readFile bl = .ok rl ∧ readFile bb = .ok rb ∧ readFile ba = .ok ra ∧ contentD rl = contentD rb ∧
    contentD rb = contentD ra := by
  obtain ⟨acts, _, hb⟩ := encodeFile_multiD_bytes dFile dFile_std
  have hl := dFile_length
  rw [hb] at hl
  simp only [Except.toOption, Option.map_some, Option.some.injEq] at hl
  exact read_all_little_all_big_alternating dFile dFile_std dFile_fits dFile_channels dFile_compat _ hb
    (by rw [hl]; decide)

/-- a multi-byte digital-line scaler (bit 3 of a U32 at bytes 4–7: little-endian the bit sits in byte 4, big-endian in
    byte 7), a U16 and an Int16 scaler: both orders read the same values -/
def mbFile : FileEnc := [dSeg [⟨exA, .daqmx true 0xFFFFFFFF 2 [⟨4, 0, 35, 0, 0⟩, ⟨4, 0, 34, 0, 1⟩] [8], []⟩,
    ⟨exB, .daqmx false 0xFFFFFFFF 2 [⟨2, 0, 0, 0, 0⟩, ⟨3, 0, 2, 0, 7⟩] [8], []⟩]
  [[[[1, 2, 3, 4, 8, 2, 7, 8], [1, 2, 3, 4, 4, 6, 7, 9]]]]]

example : multiStdDB mbFile = true ∧ fieldsCompatB mbFile = true ∧
    (withEndian allBig mbFile).map (·.chunks) = [[[[[2, 1, 4, 3, 8, 7, 2, 8], [2, 1, 4, 3, 9, 7, 6, 4]]]]] ∧
    ((encodeFile (withEndian allBig mbFile)).toOption.bind fun b => (readFile b).toOption.map contentD) =
      ((encodeFile mbFile).toOption.bind fun b => (readFile b).toOption.map contentD) ∧
    ((encodeFile mbFile).toOption.bind fun b => (readFile b).toOption.map fun r => (contentD r).map (·.scalers)) =
      some [[(0, [[1, 0, 0, 0], [0, 0, 0, 0]]), (1, [[0, 0, 0, 0], [1, 0, 0, 0]])],
            [(0, [[1, 2], [1, 2]]), (7, [[3, 4], [3, 4]])]] := by
  decide +kernel

/-! ### `FieldsCompat` is needed -/

/-- **no re-encoding exists for partially overlapping fields**: scaler A = Int16 at byte 0, scaler B = Int16 at
    byte 1; no row read big-endian gives back both values the row `[1, 2, 3]` has little-endian -/
theorem no_reencoding_of_overlapping_fields :
    ¬ ∃ row' : Bytes,
      scalerValue .big false ⟨3, 0, 0, 0, 0⟩ row' = scalerValue .little false ⟨3, 0, 0, 0, 0⟩ [1, 2, 3] ∧
      scalerValue .big false ⟨3, 0, 1, 0, 1⟩ row' = scalerValue .little false ⟨3, 0, 1, 0, 1⟩ [1, 2, 3] := by
  have ht : daqmxTypeCode 3 = some 2 := by decide
  have hs : typeSize 2 = some 2 := by decide
  have ha : typeAtoms 2 = [2] := by decide
  rintro ⟨row', h1, h2⟩
  simp only [scalerValue, ht, hs, ha, scalerByteOffset, Option.getD_some, Bool.false_eq_true, if_false, swapAtoms,
    List.append_nil, List.drop_zero] at h1 h2
  match row' with
  | [] => simp at h1
  | [a] => simp at h1
  | [a, b] => simp at h2
  | a :: b :: c :: rest =>
    simp at h1 h2
    obtain ⟨hb1, _⟩ := h1
    obtain ⟨_, hb2⟩ := h2
    rw [hb1] at hb2
    exact absurd hb2 (by decide)

/-- the same on a file: well-formed and in the class of `read_encode_multi_daqmx`, but the fields overlap, and
    the meaning of the (mechanically) re-encoded file differs -/
def ovFile : FileEnc :=
  [dSeg [⟨exA, .daqmx false 0xFFFFFFFF 1 [⟨3, 0, 0, 0, 0⟩, ⟨3, 0, 1, 0, 1⟩] [8], []⟩] [[[[1, 2, 3, 4, 5, 6, 7, 8]]]]]

example : multiStdDB ovFile = true ∧ fieldsCompatB ovFile = false ∧
    (denote (withEndian allBig ovFile)).toOption ≠ (denote ovFile).toOption := by decide +kernel

/-- typed DAQmx channels (outside the class of the reader theorem, inside that of `denote_endian_irrelevant`):
    agreement on an instance -/
example : wellFormed [dSeg [⟨exA, .daqmx false 2 1 [⟨3, 0, 0, 0, 0⟩] [8], []⟩] [[[[1, 2, 3, 4, 5, 6, 7, 8]]]]] = true ∧
    ((encodeFile (withEndian allBig [dSeg [⟨exA, .daqmx false 2 1 [⟨3, 0, 0, 0, 0⟩] [8], []⟩] [[[[1, 2, 3, 4, 5, 6, 7, 8]]]]])).toOption.bind
        fun b => (readFile b).toOption.map contentD) =
      ((encodeFile [dSeg [⟨exA, .daqmx false 2 1 [⟨3, 0, 0, 0, 0⟩] [8], []⟩] [[[[1, 2, 3, 4, 5, 6, 7, 8]]]]]).toOption.bind
        fun b => (readFile b).toOption.map contentD) := by decide +kernel

/-! ### the lazy side on `exFile` of `C01Multi` (7 segments, one of them big-endian) -/

/-- the theorem applied: hypotheses satisfiable -/
example : ∃ b₁ b₂ F₁ F₂, encodeFile (withEndian allBig exFile) = .ok b₁ ∧
    encodeFile (withEndian alternating exFile) = .ok b₂ ∧ openFile b₁ = .ok F₁ ∧ openFile b₂ = .ok F₂ := by
  obtain ⟨acts, _, hb⟩ := encodeFile_multi_bytes exFile exFile_std
  have hl := exFile_length
  rw [hb] at hl
  simp only [Except.toOption, Option.map_some, Option.some.injEq] at hl
  obtain ⟨b₁, b₂, F₁, F₂, c, h1, h2, h3, h4, _⟩ := lazy_window_endian_irrelevant exFile exFile_std exFile_fits _ hb
    (by rw [hl]; decide) allBig alternating
  exact ⟨b₁, b₂, F₁, F₂, h1, h2, h3, h4⟩

/-- cross-check by kernel evaluation of the model: in the all-big and in the alternating variant of `exFile`, all
    windows of all three channels with `offset ≤ 10`, `length ∈ {none, 0, …, 10}` agree with `denote exFile` -/
example : [allBig, alternating].all (fun f =>
    match encodeFile (withEndian f exFile), denote exFile with
    | .ok b, .ok c =>
      match openFile b with
      | .ok F => [exA, exS, exB].all fun p =>
          (List.range 11).all fun (off : Nat) =>
            ((none : Option Int) :: (List.range 11).map fun (n : Nat) => some (n : Int)).all fun len =>
              match (channelReadData F p off len).run {}, c.find? (·.path = p) with
              | .ok (some r, _), some oc => r.data.getD [] == takeOpt len (oc.values.drop off)
              | _, _ => false
      | .error _ => false
    | _, _ => false) = true := by decide +kernel

end Examples

/-! ## 6. NOT covered

  * The ToC mask of the lead-in is always little-endian, whatever the segment's byte order
    (`C15.toc_little_endian`); it is not subject to `withEndian` (the encoder `encLeadIn` writes it with `encLE`).
  * Values are compared as canonical byte strings.  A TimeStamp value is 16 canonical bytes which a big-endian
    segment stores reversed AS A WHOLE (`typeAtoms 0x44 = [16]`: seconds first, then the fraction, both big-endian);
    the interpretation of the 16 bytes as a time is C12's subject.  Complex values are swapped component-wise.
  * Reader side (`read_endian_irrelevant`): the class `MultiStdD` of `read_encode_multi_daqmx` — typed DAQmx channels
    (`ty ≠ DAQmxRawData`), segments of unknown length, truncated files and index files are outside it.
    `denote_endian_irrelevant` needs `wellFormed` and `FieldsCompat` only and does cover typed DAQmx channels.
  * DAQmx segments whose scaler fields overlap partially (`FieldsCompat` fails): no re-encoding of the rows exists.
  * Bytes of a DAQmx row that no scaler reads are kept in place by the re-encoding (a real big-endian DAQmx writer
    may lay them out differently; they have no meaning).
  * Lazy side: the standard contiguous class `MultiStd` of `C04Whole` (windows, slices, integer index after any
    history); interleaved / DAQmx segments on the lazy paths and the chunk iterators are not composed here.
-/

end Tdms.Proofs.C15Whole
