/-
  C15 ("the byte order of a segment does not change its meaning").

  Each `byte_order_irrelevant_*` theorem says: for any two byte orders, decoding (in that order) the
  encoding (in that order) of the same thing gives the same canonical result.  They are corollaries
  of the C01 layer theorems, which hold for an arbitrary `e : Endian`.  `toc_little_endian` records
  the one field that is *not* subject to the segment's byte order.  Core Lean only.
-/
import TdmsProofs.Properties.C01Layers

namespace Tdms.Proofs.C15

open Tdms Tdms.Generated Tdms.Model Tdms.Proofs.Bytes

/-! ## 1. integers and strings -/

theorem byte_order_irrelevant_uint (e₁ e₂ : Endian) (w n : Nat) :
    dec e₁ (enc e₁ w n) = dec e₂ (enc e₂ w n) := by
  rw [dec_enc, dec_enc]

theorem byte_order_irrelevant_uN (e₁ e₂ : Endian) (w n : Nat) (rest : Bytes) :
    uN e₁ w (enc e₁ w n ++ rest) = uN e₂ w (enc e₂ w n ++ rest) := by
  rw [uN_enc, uN_enc]

theorem byte_order_irrelevant_string (e₁ e₂ : Endian) (s rest : Bytes) (h : s.length < 2 ^ 32) :
    readString e₁ (encString e₁ s ++ rest) = readString e₂ (encString e₂ s ++ rest) := by
  rw [readString_encString e₁ s rest h, readString_encString e₂ s rest h]

/-! ## 2. fixed-width values -/

theorem byte_order_irrelevant_value (e₁ e₂ : Endian) (ty s : Nat) (h : typeSize ty = some s)
    (v : Bytes) (hv : v.length = s) :
    canonValue e₁ ty (storeValue e₁ ty v) = canonValue e₂ ty (storeValue e₂ ty v) := by
  rw [canonValue_storeValue e₁ h v hv, canonValue_storeValue e₂ h v hv]

/-- in particular a big-endian segment decodes to what the little-endian one literally contains -/
theorem byte_order_irrelevant_value_little (e : Endian) (ty s : Nat) (h : typeSize ty = some s)
    (v : Bytes) (hv : v.length = s) :
    canonValue e ty (storeValue e ty v) = storeValue .little ty v :=
  canonValue_storeValue e h v hv

/-! ## 3. properties -/

theorem byte_order_irrelevant_property (e₁ e₂ : Endian) (p : PropEnc) (rest : Bytes)
    (hwf : wfProp p = true) (hfit : propFits p) :
    readProperty e₁ (encProp e₁ p ++ rest) = readProperty e₂ (encProp e₂ p ++ rest) := by
  rw [readProperty_encProp e₁ p rest hwf hfit, readProperty_encProp e₂ p rest hwf hfit]

theorem byte_order_irrelevant_properties (e₁ e₂ : Endian) (props : List PropEnc) (rest : Bytes)
    (hwf : ∀ p ∈ props, wfProp p = true) (hfit : ∀ p ∈ props, propFits p) :
    readProperties e₁ props.length (props.flatMap (encProp e₁) ++ rest) =
      readProperties e₂ props.length (props.flatMap (encProp e₂) ++ rest) := by
  rw [readProperties_encProps e₁ props rest hwf hfit, readProperties_encProps e₂ props rest hwf hfit]

/-! ## 4. raw-data index -/

theorem byte_order_irrelevant_index_header (e₁ e₂ : Endian) (i : IdxEnc) (rest : Bytes) :
    (uN e₁ 4 (encIdx e₁ i ++ rest)).map Prod.fst = (uN e₂ 4 (encIdx e₂ i ++ rest)).map Prod.fst := by
  rw [uN_encIdx_header, uN_encIdx_header]; rfl

theorem byte_order_irrelevant_std_index (e₁ e₂ : Endian) (o : SegObj) (ty n total : Nat)
    (rest : Bytes) (hwf : wfIdx (.full ty n total) = true) (htot : ty = tyString → total < 2 ^ 64) :
    readStdIndex e₁ o ((encIdx e₁ (.full ty n total)).drop 4 ++ rest) =
      readStdIndex e₂ o ((encIdx e₂ (.full ty n total)).drop 4 ++ rest) := by
  rw [C01.readStdIndex_encIdx e₁ o ty n total rest hwf htot,
    C01.readStdIndex_encIdx e₂ o ty n total rest hwf htot]

theorem byte_order_irrelevant_daqmx_index (e₁ e₂ : Endian) (o : SegObj) (dg : Bool) (ty n : Nat)
    (scalers : List ScalerEnc) (widths : List Nat) (rest : Bytes)
    (hwf : wfIdx (.daqmx dg ty n scalers widths) = true)
    (hfit : idxFits (.daqmx dg ty n scalers widths)) :
    readDaqmxIndex e₁ (if dg then digitalLineScaler else formatChangingScaler) o
        ((encIdx e₁ (.daqmx dg ty n scalers widths)).drop 4 ++ rest) =
      readDaqmxIndex e₂ (if dg then digitalLineScaler else formatChangingScaler) o
        ((encIdx e₂ (.daqmx dg ty n scalers widths)).drop 4 ++ rest) := by
  rw [C01.readDaqmxIndex_encIdx e₁ o dg ty n scalers widths rest hwf hfit,
    C01.readDaqmxIndex_encIdx e₂ o dg ty n scalers widths rest hwf hfit]

/-! ## 5. lead-in -/

/-- two segments that differ only in the big-endian flag decode to the same lead-in fields, and
    their masks agree on every other flag -/
theorem byte_order_irrelevant_lead_in (s : SegEnc) (b₁ b₂ : Bool) (metaLen rawLen pos size : Nat)
    (rest : Bytes) (hu : s.lengthUnknown = false) (hver : s.version < 2 ^ 31) (hm : metaLen < 2 ^ 63)
    (hr : rawLen < 2 ^ 63) (hsize : pos + 28 + metaLen + rawLen ≤ size) :
    ∃ li₁ li₂,
      readLeadIn (encLeadIn tagData { s with big := b₁ } metaLen rawLen ++ rest) pos false (some size) =
        .ok (some li₁) ∧
      readLeadIn (encLeadIn tagData { s with big := b₂ } metaLen rawLen ++ rest) pos false (some size) =
        .ok (some li₂) ∧
      leadInFields li₁ = leadInFields li₂ ∧
      hasFlag li₁.toc kTocBigEndian = b₁ ∧ hasFlag li₂.toc kTocBigEndian = b₂ ∧
      ∀ f ∈ [kTocMetaData, kTocNewObjList, kTocRawData, kTocInterleavedData, kTocDAQmxRawData],
        hasFlag li₁.toc f = hasFlag li₂.toc f := by
  refine ⟨_, _, C01.readLeadIn_encLeadIn { s with big := b₁ } metaLen rawLen pos size rest hu hver hm hr hsize,
    C01.readLeadIn_encLeadIn { s with big := b₂ } metaLen rawLen pos size rest hu hver hm hr hsize,
    rfl, hasFlag_tocMask_big _, hasFlag_tocMask_big _, ?_⟩
  intro f hf
  simp only [List.mem_cons, List.not_mem_nil, or_false] at hf
  rcases hf with rfl | rfl | rfl | rfl | rfl
  · rw [hasFlag_tocMask_meta, hasFlag_tocMask_meta]
  · rw [hasFlag_tocMask_newList, hasFlag_tocMask_newList]
  · rw [hasFlag_tocMask_raw, hasFlag_tocMask_raw]
  · rw [hasFlag_tocMask_interleaved, hasFlag_tocMask_interleaved]
  · rw [hasFlag_tocMask_daqmx, hasFlag_tocMask_daqmx]

theorem byte_order_irrelevant_lead_in_lengthUnknown (s : SegEnc) (b₁ b₂ : Bool)
    (metaLen rawLen pos size : Nat) (rest : Bytes) (hu : s.lengthUnknown = true)
    (hver : s.version < 2 ^ 31) (hm : metaLen < 2 ^ 63) (hsize : pos + 28 + metaLen ≤ size) :
    ∃ li₁ li₂,
      readLeadIn (encLeadIn tagData { s with big := b₁ } metaLen rawLen ++ rest) pos false (some size) =
        .ok (some li₁) ∧
      readLeadIn (encLeadIn tagData { s with big := b₂ } metaLen rawLen ++ rest) pos false (some size) =
        .ok (some li₂) ∧
      leadInFields li₁ = leadInFields li₂ :=
  ⟨_, _, C01.readLeadIn_encLeadIn_lengthUnknown { s with big := b₁ } metaLen rawLen pos size rest hu hver hm hsize,
    C01.readLeadIn_encLeadIn_lengthUnknown { s with big := b₂ } metaLen rawLen pos size rest hu hver hm hsize,
    rfl⟩

/-- the ToC mask itself is always decoded little-endian, whatever it then says about the segment;
    the remaining fields use the byte order the mask announces -/
theorem toc_little_endian (bytes : Bytes) (pos : Nat) (isIndex : Bool) (size : Option Nat)
    (li : LeadIn) (h : readLeadIn bytes pos isIndex size = .ok (some li)) :
    li.toc = decLE ((bytes.drop 4).take 4) ∧
    li.version = toSigned 4
      (dec (if hasFlag li.toc kTocBigEndian then .big else .little) ((bytes.drop 8).take 4)) ∧
    li.dataPosition = pos + 28 +
      dec (if hasFlag li.toc kTocBigEndian then .big else .little) ((bytes.drop 20).take 8) := by
  simp only [readLeadIn] at h
  repeat' split at h
  all_goals first
    | (cases h; done)
    | (simp only [Except.ok.injEq, Option.some.injEq] at h; subst h
       exact ⟨rfl, by simp [*], by simp [*]⟩)
    | skip

/-! ## 6. contiguous data -/

theorem byte_order_irrelevant_fixed_values (file₁ file₂ : Bytes) (e₁ e₂ : Endian) (o : SegObj)
    (ty sz : Nat) (vals : List Bytes) (pos : Nat) (tr : List (Nat × Nat))
    (hty : o.dataType = some ty) (hsz : typeSize ty = some sz) (hv : ∀ v ∈ vals, v.length = sz)
    (h₁ : (file₁.drop pos).take (vals.length * sz) = encObjValues e₁ ty vals)
    (h₂ : (file₂.drop pos).take (vals.length * sz) = encObjValues e₂ ty vals) :
    (readValues file₁ e₁ o vals.length).run ⟨pos, tr⟩ =
      (readValues file₂ e₂ o vals.length).run ⟨pos, tr⟩ := by
  rw [readValues_fixed file₁ e₁ o vals pos tr hty hsz hv h₁,
    readValues_fixed file₂ e₂ o vals pos tr hty hsz hv h₂]

theorem byte_order_irrelevant_string_values (file₁ file₂ : Bytes) (e₁ e₂ : Endian) (o : SegObj)
    (vals : List Bytes) (pos : Nat) (tr : List (Nat × Nat)) (rest₁ rest₂ : Bytes)
    (hty : o.dataType = some tyString) (hlen : vals.flatten.length < 2 ^ 32)
    (h₁ : file₁.drop pos = encObjValues e₁ tyString vals ++ rest₁)
    (h₂ : file₂.drop pos = encObjValues e₂ tyString vals ++ rest₂) :
    ∃ p tr₁ tr₂,
      (readValues file₁ e₁ o vals.length).run ⟨pos, tr⟩ = .ok (vals, ⟨p, tr₁⟩) ∧
      (readValues file₂ e₂ o vals.length).run ⟨pos, tr⟩ = .ok (vals, ⟨p, tr₂⟩) := by
  obtain ⟨tr₁, r₁⟩ := readValues_string file₁ e₁ o vals pos tr rest₁ hty hlen h₁
  obtain ⟨tr₂, r₂⟩ := readValues_string file₂ e₂ o vals pos tr rest₂ hty hlen h₂
  rw [encObjValues_string_length] at r₁ r₂
  exact ⟨_, tr₁, tr₂, r₁, r₂⟩

/-! ## 7. interleaved data -/

theorem byte_order_irrelevant_interleaved (e₁ e₂ : Endian) (n : Nat) (objs : List SegObj)
    (aobjs : List ActiveObj) (vals : List (List Bytes)) (h : colsOK n objs aobjs vals) :
    interleavedColumns e₁ (splitEvery (rowWidth aobjs) n (encChunkInterleaved e₁ aobjs vals)) 0 objs [] =
      interleavedColumns e₂ (splitEvery (rowWidth aobjs) n (encChunkInterleaved e₂ aobjs vals)) 0 objs [] := by
  rw [interleavedColumns_encChunk e₁ n objs aobjs vals h, interleavedColumns_encChunk e₂ n objs aobjs vals h]

theorem byte_order_irrelevant_interleaved_reader (file₁ file₂ : Bytes) (s₁ s₂ : Segment)
    (o : SegObj) (os : List SegObj) (aobjs : List ActiveObj) (vals : List (List Bytes))
    (n pos : Nat) (tr : List (Nat × Nat)) (hcols : colsOK n (o :: os) aobjs vals)
    (hnv : ∀ x ∈ o :: os, x.numberValues = n)
    (h₁ : (file₁.drop pos).take (rowWidth aobjs * n) = encChunkInterleaved s₁.endian aobjs vals)
    (h₂ : (file₂.drop pos).take (rowWidth aobjs * n) = encChunkInterleaved s₂.endian aobjs vals) :
    (readInterleavedChunks file₁ s₁ (o :: os) 1).run ⟨pos, tr⟩ =
      (readInterleavedChunks file₂ s₂ (o :: os) 1).run ⟨pos, tr⟩ := by
  rw [readInterleavedChunks_one file₁ s₁ o os aobjs vals n pos tr hcols hnv h₁,
    readInterleavedChunks_one file₂ s₂ o os aobjs vals n pos tr hcols hnv h₂]

/-- a whole contiguous chunk: same values, same end position, in either byte order -/
theorem byte_order_irrelevant_contiguous_chunk (file₁ file₂ : Bytes) (s₁ s₂ : Segment) (ci : Nat)
    (hov₁ : s₁.override = none) (hov₂ : s₂.override = none) (objs : List SegObj)
    (aobjs : List ActiveObj) (vals : List (List Bytes)) (acc : RawChunk) (pos : Nat)
    (tr : List (Nat × Nat)) (rest₁ rest₂ : Bytes) (h : contOK objs aobjs vals)
    (h₁ : file₁.drop pos = encChunkContiguous s₁.endian aobjs vals ++ rest₁)
    (h₂ : file₂.drop pos = encChunkContiguous s₂.endian aobjs vals ++ rest₂) :
    ∃ c p₁ p₂ tr₁ tr₂,
      (readContiguousChunk file₁ s₁ ci objs acc).run ⟨pos, tr⟩ = .ok (c, ⟨p₁, tr₁⟩) ∧
      (readContiguousChunk file₂ s₂ ci objs acc).run ⟨pos, tr⟩ = .ok (c, ⟨p₂, tr₂⟩) ∧
      p₁ = pos + (encChunkContiguous s₁.endian aobjs vals).length ∧
      p₂ = pos + (encChunkContiguous s₂.endian aobjs vals).length := by
  obtain ⟨tr₁, r₁⟩ := readContiguousChunk_enc file₁ s₁ ci hov₁ objs aobjs vals acc pos tr rest₁ h h₁
  obtain ⟨tr₂, r₂⟩ := readContiguousChunk_enc file₂ s₂ ci hov₂ objs aobjs vals acc pos tr rest₂ h h₂
  exact ⟨_, _, _, tr₁, tr₂, r₁, r₂, rfl, rfl⟩

/-! ## 9. metadata object loop (objects new to the reader) -/

theorem byte_order_irrelevant_objects (e₁ e₂ : Endian) (objs : List ObjEnc) (rest : Bytes)
    (hwf : ∀ o ∈ objs, wfObj o = true) (hfit : ∀ o ∈ objs, objFits o) :
    readObjects e₁ none [] objs.length [] [] (objs.flatMap (encObj e₁) ++ rest) =
      readObjects e₂ none [] objs.length [] [] (objs.flatMap (encObj e₂) ++ rest) := by
  rw [C01.readObjects_encObjs e₁ objs rest hwf hfit, C01.readObjects_encObjs e₂ objs rest hwf hfit]

theorem byte_order_irrelevant_metadata (e₁ e₂ : Endian) (objs : List ObjEnc) (rest : Bytes)
    (hlen : objs.length < 2 ^ 32) (hwf : ∀ o ∈ objs, wfObj o = true)
    (hfit : ∀ o ∈ objs, objFits o) :
    (do let n ← uN e₁ 4; readObjects e₁ none [] n [] []) (encMeta e₁ objs ++ rest) =
      (do let n ← uN e₂ 4; readObjects e₂ none [] n [] []) (encMeta e₂ objs ++ rest) := by
  rw [readMeta_encMeta e₁ objs rest hlen hwf hfit, readMeta_encMeta e₂ objs rest hlen hwf hfit]

end Tdms.Proofs.C15
