/-
  C16 at FILE level ("object names are arbitrary strings and never alias"), through the writer and the reader.

  C16 proves the path grammar round trip (`names → path → names` is the identity, for all strings); C07Whole proves
  that reading what the writer wrote returns the promised content, keyed by PATH.  Composed here:

  1. `names_survive_write_read` — for every accepted program the eager read of the written file returns exactly one
     object per NAME list written (`[]` root, `[g]` group, `[g, c]` channel; order of first appearance); parsing the
     paths read with `_path_components` gives back these names; the channel name pairs read are exactly the name
     pairs of the channel objects handed to `write_segment`; the group names read are exactly the handed group
     names and the groups of the handed channels; the root is there as soon as anything was written;
  2. `no_aliasing` — the object read under the names `cs` is a function of the objects handed over under exactly
     these names (`viewOfNames (handed prog) cs`: type, properties, data); two different name lists are two
     different objects with different paths; what is written under other names never shows (`view_only_own_writes`);
  3. names as CODE-POINT strings: the writer model takes names as UTF-8 byte strings.  `string_path_bytes`: the bytes
     the model writes as the path ARE the UTF-8 encoding of the Python path string `_components_to_path(names)`, for
     all strings; `utf8_injective`; `string_names_roundtrip`; hence `string_names_survive`, `string_names_never_alias`.
     Nothing about UTF-8 is assumed.

  Hypotheses: exactly those of `write_then_read` (C07Whole).  Lemmas: `TdmsProofs/Lemmas/C16File{Names,Sets,View,Utf8}.lean`.
  Core Lean only.
-/
import TdmsProofs.Lemmas.C16FileView
import TdmsProofs.Lemmas.C16FileUtf8

namespace Tdms.Proofs.C16File

open Tdms Tdms.Generated Tdms.Model Tdms.Model.Writer Tdms.Model.Path
open Tdms.Proofs.C08 Tdms.Proofs.C07Whole Tdms.Proofs.C07Checked
open Tdms.Proofs.C01Compose (content contentOfDenote ObjView)

/-! ## 1. names survive writing and reading -/

/-- **C16 at file level: the names written are the names read.**
    For every program the writer can serialise (`WritableProgram`), that never changes the data type of a channel
    (`typesConsistent`), with per-segment string data below 2^32 bytes and a file shorter than 2^63 bytes — the
    hypotheses of `write_then_read`; names are arbitrary byte strings —
    the eager read of the written data file succeeds and
    * returns one object per name list written, in order of first appearance, and this object is
      `viewOfNames (handed prog) cs`: computed from the objects handed to `write_segment` under exactly the names `cs`;
    * `_path_components` of every path read returns the names; no name list and no path occurs twice;
    * the set of (group, channel) name pairs of the channels read = the set of name pairs of the channels handed over;
    * the set of group names read = the handed group names ∪ the groups of the handed channels;
    * the root object is read iff there was at least one `write_segment` call; nothing else is read. -/
theorem names_survive_write_read (v : Nat) (hv : v = 4712 ∨ v = 4713) (prog : Program) (d i : Bytes)
    (hw : writeProgram v prog = some (d, i)) (hW : WritableProgram prog) (hc : typesConsistent prog)
    (hs : stringTotalsFit prog) (hlen : d.length < 2 ^ 63) :
    ∃ r, readFile d = .ok r ∧
      content r = (writtenNames prog).map (viewOfNames (handed prog)) ∧
      (content r).map (fun o => pathComponentsBytes o.path) = (writtenNames prog).map .ok ∧
      (writtenNames prog).Nodup ∧ ((content r).map (·.path)).Nodup ∧
      (∀ g c, (g, c) ∈ channelsRead (content r) ↔ (g, c) ∈ channelsHanded prog) ∧
      (∀ g, g ∈ groupsRead (content r) ↔ g ∈ groupsHanded prog) ∧
      ((∃ o ∈ content r, pathComponentsBytes o.path = .ok []) ↔ prog.flatten ≠ []) ∧
      ∀ o ∈ content r, ∃ cs, pathComponentsBytes o.path = .ok cs ∧ cs.length ≤ 2 := by
  obtain ⟨r, hr, hcont⟩ := write_then_read v hv prog d i hw hW hc hs hlen
  have ha : Accepted prog := accepted_of_writable hW
  have hnames : content r = (writtenNames prog).map (viewOfNames (handed prog)) := by
    rw [hcont, promisedView_by_names]
    apply List.map_congr_left
    intro cs _
    exact viewOfNames_handed ha cs
  refine ⟨r, hr, hnames, ?_, writtenNames_nodup prog, ?_, ?_, ?_, ?_, ?_⟩
  · rw [hnames, List.map_map]
    apply List.map_congr_left
    intro cs _
    exact parse_viewOfNames _ cs
  · have := (promised_paths prog).2
    rw [hcont]
    unfold promisedView contentOfDenote
    rw [List.map_map]
    exact this
  · intro g c
    rw [hnames, mem_channelsRead_names, mem_channelsHanded]
    exact channel_written_iff ha g c
  · intro g
    rw [hnames, mem_groupsRead_names, mem_groupsHanded]
    exact group_written_iff ha g
  · rw [← root_written_iff ha, hnames]
    constructor
    · rintro ⟨o, ho, hp⟩
      obtain ⟨cs, hcs, rfl⟩ := List.mem_map.1 ho
      rw [parse_viewOfNames] at hp
      cases hp
      exact hcs
    · intro h
      exact ⟨_, List.mem_map_of_mem h, parse_viewOfNames _ _⟩
  · intro o ho
    rw [hnames] at ho
    obtain ⟨cs, hcs, rfl⟩ := List.mem_map.1 ho
    exact ⟨cs, parse_viewOfNames _ cs, writtenNames_length cs hcs⟩

/-- the same for the CHECKED writer (`TdmsWriter` refuses a channel whose data type changes within one writer
    session): the global `typesConsistent` is replaced by "no type change across sessions"; for a single session no
    type hypothesis is left (`CrossConsistent [session]` holds trivially) -/
theorem names_survive_write_read_checked (v : Nat) (hv : v = 4712 ∨ v = 4713) (prog : Program) (d i : Bytes)
    (hw : writeProgramChecked v prog = some (d, i)) (hW : WritableProgram prog) (hx : CrossConsistent prog)
    (hs : stringTotalsFit prog) (hlen : d.length < 2 ^ 63) :
    ∃ r, readFile d = .ok r ∧
      content r = (writtenNames prog).map (viewOfNames (handed prog)) ∧
      (content r).map (fun o => pathComponentsBytes o.path) = (writtenNames prog).map .ok ∧
      (∀ g c, (g, c) ∈ channelsRead (content r) ↔ (g, c) ∈ channelsHanded prog) ∧
      (∀ g, g ∈ groupsRead (content r) ↔ g ∈ groupsHanded prog) := by
  obtain ⟨hw', hc⟩ := hyps_of_checked hw hW hx
  obtain ⟨r, hr, h1, h2, _, _, h5, h6, _⟩ := names_survive_write_read v hv prog d i hw' hW hc hs hlen
  exact ⟨r, hr, h1, h2, h5, h6⟩

/-! ## 2. no aliasing -/

/-- what is read under the names `cs`, spelled out: the path of the names; the type of the last typed write under
    these names; the `setProp` dictionary (position of the first write of a property name, value of the last, values
    as `_to_tdms_value` converts them) of the property lists handed over under these names, in program order; the
    concatenation of the data handed over under these names, in program order -/
theorem viewOfNames_eq (ws : List WObj) (cs : List Bytes) :
    viewOfNames ws cs =
      ⟨componentsToPathBytes cs,
       ((ws.filter fun o => decide (comps o = cs)).filterMap tyOfW).getLast?,
       (((ws.filter fun o => decide (comps o = cs)).flatMap fun o => o.props.map toPropEnc).foldl setProp []).map
         Tdms.Proofs.Bytes.canonProp,
       (ws.filter fun o => decide (comps o = cs)).flatMap chanVals⟩ := rfl

/-- the object read under `cs` depends on the writes under `cs` only: programs that hand over the same objects under
    these names (whatever they write under other names, in whatever order) read back the same object -/
theorem view_only_own_writes (ws ws' : List WObj) (cs : List Bytes)
    (h : (ws.filter fun o => decide (comps o = cs)) = ws'.filter fun o => decide (comps o = cs)) :
    viewOfNames ws cs = viewOfNames ws' cs := by
  rw [viewOfNames_eq, viewOfNames_eq, h]

/-- **no aliasing**: under the hypotheses of `write_then_read`, for all names `cs` written:
    the object read whose path is the path of `cs` — equivalently, whose path parses to `cs` — is unique and is
    `viewOfNames (handed prog) cs` (type, properties and data of the objects handed over under exactly these names);
    and any other names `cs'` have another path.  So the data and properties of one name never appear under another. -/
theorem no_aliasing (v : Nat) (hv : v = 4712 ∨ v = 4713) (prog : Program) (d i : Bytes)
    (hw : writeProgram v prog = some (d, i)) (hW : WritableProgram prog) (hc : typesConsistent prog)
    (hs : stringTotalsFit prog) (hlen : d.length < 2 ^ 63) :
    ∃ r, readFile d = .ok r ∧
      (∀ cs ∈ writtenNames prog, viewOfNames (handed prog) cs ∈ content r) ∧
      (∀ o ∈ content r, ∀ cs, (o.path = componentsToPathBytes cs ∨ pathComponentsBytes o.path = .ok cs) →
        o = viewOfNames (handed prog) cs ∧ cs ∈ writtenNames prog) ∧
      (∀ cs cs' : List Bytes, cs ≠ cs' → componentsToPathBytes cs ≠ componentsToPathBytes cs') := by
  obtain ⟨r, hr, hnames, _⟩ := names_survive_write_read v hv prog d i hw hW hc hs hlen
  refine ⟨r, hr, ?_, ?_, fun cs cs' hne e => hne (pathBytes_injective e)⟩
  · intro cs hcs
    rw [hnames]
    exact List.mem_map_of_mem hcs
  · intro o ho cs hp
    rw [hnames] at ho
    obtain ⟨cs', hcs', rfl⟩ := List.mem_map.1 ho
    have : cs' = cs := by
      rcases hp with hp | hp
      · exact pathBytes_injective hp
      · rw [parse_viewOfNames] at hp
        cases hp; rfl
    subst this
    exact ⟨rfl, hcs'⟩

/-- the channel case of `no_aliasing`, data only: the values read under channel `(g, c)` are the concatenation of
    the data handed over for channel objects named `(g, c)`, in program order — nothing written under any other
    `(g', c')` is among them -/
theorem channel_data_by_name (v : Nat) (hv : v = 4712 ∨ v = 4713) (prog : Program) (d i : Bytes)
    (hw : writeProgram v prog = some (d, i)) (hW : WritableProgram prog) (hc : typesConsistent prog)
    (hs : stringTotalsFit prog) (hlen : d.length < 2 ^ 63) (g c : Bytes) (dat : WData) (p : List WProp)
    (hh : WObj.channel g c dat p ∈ handed prog) :
    ∃ r o, readFile d = .ok r ∧ (content r).find? (·.path = componentsToPathBytes [g, c]) = some o ∧
      o.values = ((handed prog).filter fun w => decide (comps w = [g, c])).flatMap chanVals := by
  obtain ⟨r, hr, hin, huniq, _⟩ := no_aliasing v hv prog d i hw hW hc hs hlen
  have hcs : [g, c] ∈ writtenNames prog := (channel_written_iff (accepted_of_writable hW) g c).2 ⟨dat, p, hh⟩
  have hmem := hin [g, c] hcs
  cases hf : (content r).find? (·.path = componentsToPathBytes [g, c]) with
  | none =>
    rw [List.find?_eq_none] at hf
    exact absurd (by simp [path_viewOfNames]) (hf _ hmem)
  | some o =>
    have ho := List.mem_of_find?_eq_some hf
    have hp := List.find?_some hf
    simp only [decide_eq_true_eq] at hp
    have ho' := (huniq o ho [g, c] (.inl hp)).1
    exact ⟨r, o, hr, hf, by rw [ho']; rfl⟩

/-! ## 3. names are arbitrary code-point strings -/

/-- the bytes the writer model writes as the object path (built on the UTF-8 bytes of the names) are the UTF-8
    encoding of the Python path string `'/' + '/'.join("'" + n.replace("'", "''") + "'" for n in names)` -/
theorem string_path_bytes (names : List String) :
    componentsToPathBytes (names.map utf8) = utf8 (componentsToPathStr names) :=
  (path_str_utf8 names).symm

/-- `list(_path_components(path))` of the Python path string gives back the names, for all strings -/
theorem string_names_roundtrip (names : List String) :
    pathComponentsStr (componentsToPathStr names) = .ok names := by
  unfold pathComponentsStr componentsToPathStr
  rw [String.toList_ofList, C16.path_roundtrip (by decide)]
  show Except.ok (List.map String.ofList (List.map String.toList names)) = _
  congr 1
  rw [List.map_map]
  conv => rhs; rw [← List.map_id names]
  apply List.map_congr_left
  intro s _
  exact String.ofList_toList

/-- different lists of name STRINGS have different path bytes in the file -/
theorem string_names_never_alias (names names' : List String) (h : names ≠ names') :
    componentsToPathBytes (names.map utf8) ≠ componentsToPathBytes (names'.map utf8) := by
  intro e
  apply h
  have := pathBytes_injective e
  clear e h
  induction names generalizing names' with
  | nil => cases names' with
    | nil => rfl
    | cons b bs => cases this
  | cons a as ih =>
    cases names' with
    | nil => cases this
    | cons b bs =>
      simp only [List.map_cons, List.cons.injEq] at this
      rw [utf8_injective this.1, ih bs this.2]

/-- **names as strings**: a channel handed over with the names `(g, c)` — any two strings — is read back as the
    object whose path bytes are the UTF-8 encoding of the Python path string of `(g, c)`; decoding these bytes and
    parsing the string returns `(g, c)` (`string_names_roundtrip`, `utf8_injective`); its values are the data handed
    over under the names `(g, c)` and no other -/
theorem string_names_survive (v : Nat) (hv : v = 4712 ∨ v = 4713) (prog : Program) (d i : Bytes)
    (hw : writeProgram v prog = some (d, i)) (hW : WritableProgram prog) (hc : typesConsistent prog)
    (hs : stringTotalsFit prog) (hlen : d.length < 2 ^ 63) (g c : String) (dat : WData) (p : List WProp)
    (hh : WObj.channel (utf8 g) (utf8 c) dat p ∈ handed prog) :
    ∃ r o, readFile d = .ok r ∧ (content r).find? (·.path = utf8 (componentsToPathStr [g, c])) = some o ∧
      pathComponentsStr (componentsToPathStr [g, c]) = .ok [g, c] ∧
      o.values = ((handed prog).filter fun w => decide (comps w = [utf8 g, utf8 c])).flatMap chanVals ∧
      ∀ g' c' : String, (g', c') ≠ (g, c) →
        utf8 (componentsToPathStr [g', c']) ≠ utf8 (componentsToPathStr [g, c]) := by
  obtain ⟨r, o, hr, hf, hv⟩ := channel_data_by_name v hv prog d i hw hW hc hs hlen (utf8 g) (utf8 c) dat p hh
  refine ⟨r, o, hr, ?_, string_names_roundtrip _, hv, ?_⟩
  · rw [← string_path_bytes]; exact hf
  · intro g' c' hne
    rw [← string_path_bytes, ← string_path_bytes]
    apply string_names_never_alias
    intro e
    apply hne
    cases e
    rfl

/-! ## 4. non-vacuity: nasty names, computed by the kernel -/

section Example

-- the UTF-8 bytes of the names used below (a non-BMP code point takes four bytes)
example : utf8 "it's" = [105, 116, 39, 115] ∧ utf8 "" = [] ∧ utf8 "'" = [39] ∧ utf8 "/" = [47] ∧
    utf8 "😀" = [240, 159, 152, 128] ∧ utf8 "é" = [195, 169] ∧ utf8 "€" = [226, 130, 172] := by decide +kernel

/-- two sessions; ten channels under nasty names: a quote inside, a slash inside, empty group and channel names,
    names that are only a quote / only a slash (both ways round), names made of quotes and slashes that would collide
    under naive joining (`'/'` + `😀` versus `'/` + `'/😀`; `''` + `` versus `` + `''`), a non-BMP code point; an explicit group
    object with a property; the channels `("it's", "a/b")` and `("", "")` written twice -/
def exNames : Program :=
  [ [ [ .channel (utf8 "it's") (utf8 "a/b") ⟨3, [[1, 0, 0, 0]]⟩ [⟨utf8 "p", .int 1⟩],
        .channel (utf8 "") (utf8 "") ⟨3, [[2, 0, 0, 0]]⟩ [⟨utf8 "p", .int 2⟩],
        .channel (utf8 "'") (utf8 "/") ⟨3, [[3, 0, 0, 0]]⟩ [⟨utf8 "p", .int 3⟩],
        .channel (utf8 "/") (utf8 "'") ⟨3, [[4, 0, 0, 0]]⟩ [⟨utf8 "p", .int 4⟩] ],
      [ .group (utf8 "'/'") [⟨utf8 "'", .str (utf8 "/")⟩],
        .channel (utf8 "'/'") (utf8 "😀") ⟨0x20, [utf8 "😀", []]⟩ [],
        .channel (utf8 "'/") (utf8 "'/😀") ⟨3, [[5, 0, 0, 0]]⟩ [],
        .channel (utf8 "") (utf8 "") ⟨3, [[6, 0, 0, 0]]⟩ [⟨utf8 "q", .int 6⟩] ] ],
    [ [ .channel (utf8 "''") (utf8 "") ⟨3, [[7, 0, 0, 0]]⟩ [],
        .channel (utf8 "") (utf8 "''") ⟨3, [[8, 0, 0, 0]]⟩ [],
        .channel (utf8 "it's") (utf8 "a/b") ⟨3, [[9, 0, 0, 0]]⟩ [⟨utf8 "p", .int 9⟩] ] ] ]

/-- the hypotheses of the theorems hold for the example -/
theorem exNames_hyps : WritableProgram exNames ∧ typesConsistent exNames ∧ stringTotalsFit exNames := by
  decide +kernel

theorem exNames_length : (writeProgram 4713 exNames).map (·.1.length) = some 819 := by decide +kernel

/-- the names written, in order of first appearance: root, five groups the writer inserted, four channels, … -/
theorem exNames_names :
    writtenNames exNames =
      [ [], [utf8 ""], [utf8 "'"], [utf8 "/"], [utf8 "it's"],
        [utf8 "it's", utf8 "a/b"], [utf8 "", utf8 ""], [utf8 "'", utf8 "/"], [utf8 "/", utf8 "'"],
        [utf8 "'/'"], [utf8 "'/"], [utf8 "'/'", utf8 "😀"], [utf8 "'/", utf8 "'/😀"],
        [utf8 "''"], [utf8 "''", utf8 ""], [utf8 "", utf8 "''"] ] := by
  decide +kernel

/-- independent check by kernel evaluation of the two models: write, read, parse every path read, keep the data —
    every channel has its own data, the twice-written channels have both parts, in order -/
theorem exNames_read :
    ((writeProgram 4713 exNames).bind fun di => (readFile di.1).toOption.map fun r =>
        (content r).map fun o => (pathComponentsBytes o.path, o.values)) =
      some [ (.ok [], []), (.ok [utf8 ""], []), (.ok [utf8 "'"], []), (.ok [utf8 "/"], []), (.ok [utf8 "it's"], []),
        (.ok [utf8 "it's", utf8 "a/b"], [[1, 0, 0, 0], [9, 0, 0, 0]]),
        (.ok [utf8 "", utf8 ""], [[2, 0, 0, 0], [6, 0, 0, 0]]),
        (.ok [utf8 "'", utf8 "/"], [[3, 0, 0, 0]]), (.ok [utf8 "/", utf8 "'"], [[4, 0, 0, 0]]),
        (.ok [utf8 "'/'"], []), (.ok [utf8 "'/"], []),
        (.ok [utf8 "'/'", utf8 "😀"], [utf8 "😀", []]), (.ok [utf8 "'/", utf8 "'/😀"], [[5, 0, 0, 0]]),
        (.ok [utf8 "''"], []), (.ok [utf8 "''", utf8 ""], [[7, 0, 0, 0]]), (.ok [utf8 "", utf8 "''"], [[8, 0, 0, 0]]) ] := by
  decide +kernel

/-- the path bytes in the file are the UTF-8 of the Python path strings -/
example : componentsToPathStr ["'/'", "😀"] = "/'''/'''/'😀'" ∧ componentsToPathStr ["'/", "'/😀"] = "/'''/'/'''/😀'" ∧
    componentsToPathStr ["''", ""] = "/''''''/''" ∧ componentsToPathStr ["", "''"] = "/''/''''''" ∧
    componentsToPathBytes [utf8 "'/'", utf8 "😀"] = utf8 "/'''/'''/'😀'" := by decide +kernel

/-- the headline theorem applied to the example: its hypotheses are satisfiable -/
example : ∃ d i r, writeProgram 4713 exNames = some (d, i) ∧ readFile d = .ok r ∧
    (content r).map (fun o => pathComponentsBytes o.path) = (writtenNames exNames).map .ok ∧
    (∀ g c, (g, c) ∈ channelsRead (content r) ↔ (g, c) ∈ channelsHanded exNames) := by
  obtain ⟨hW, hc, hs⟩ := exNames_hyps
  obtain ⟨d, i, hw⟩ := writeProgram_of_writable 4713 exNames hW
  have hl := exNames_length
  rw [hw] at hl
  simp only [Option.map_some, Option.some.injEq] at hl
  obtain ⟨r, hr, _, hp, _, _, hch, _⟩ := names_survive_write_read 4713 (.inr rfl) exNames d i hw hW hc hs (by rw [hl]; decide)
  exact ⟨d, i, r, hw, hr, hp, hch⟩

/-- the handed channel name pairs of the example (with repetitions) -/
example : channelsHanded exNames =
    [ (utf8 "it's", utf8 "a/b"), (utf8 "", utf8 ""), (utf8 "'", utf8 "/"), (utf8 "/", utf8 "'"),
      (utf8 "'/'", utf8 "😀"), (utf8 "'/", utf8 "'/😀"), (utf8 "", utf8 ""),
      (utf8 "''", utf8 ""), (utf8 "", utf8 "''"), (utf8 "it's", utf8 "a/b") ] := by decide +kernel

/-- the string-level theorem applied to the example: the channel `("'/'", "😀")` -/
example : ∃ d i r o, writeProgram 4713 exNames = some (d, i) ∧ readFile d = .ok r ∧
    (content r).find? (·.path = utf8 "/'''/'''/'😀'") = some o ∧ o.values = [utf8 "😀", []] := by
  obtain ⟨hW, hc, hs⟩ := exNames_hyps
  obtain ⟨d, i, hw⟩ := writeProgram_of_writable 4713 exNames hW
  have hl := exNames_length
  rw [hw] at hl
  simp only [Option.map_some, Option.some.injEq] at hl
  obtain ⟨r, o, hr, hf, _, hv, _⟩ := string_names_survive 4713 (.inr rfl) exNames d i hw hW hc hs (by rw [hl]; decide)
    "'/'" "😀" ⟨0x20, [utf8 "😀", []]⟩ [] (by decide +kernel)
  have e1 : componentsToPathStr ["'/'", "😀"] = "/'''/'''/'😀'" := by decide +kernel
  have e2 : ((handed exNames).filter fun w => decide (comps w = [utf8 "'/'", utf8 "😀"])).flatMap chanVals =
      [utf8 "😀", []] := by decide +kernel
  rw [e1] at hf
  rw [e2] at hv
  exact ⟨d, i, r, o, hw, hr, hf, hv⟩

end Example

end Tdms.Proofs.C16File
