import TdmsProofs.Lemmas.C19Bytes
import TdmsProofs.Lemmas.C05Example

/-!
# C19 — partial reads touch only the part of the file they need

Statements about the I/O trace of the model (`FState.trace`: one `(position, bytes returned)` entry per
read).  Vocabulary (defined in `TdmsProofs/Lemmas/C19*.lean`):

* `traceBytes l`            — total number of bytes returned by the reads `l`;
* `InTag s x`               — `x` lies inside the 4 tag bytes at `s.position`;
* `chunkBytes s cs j`       — `[dataPosition + j·cs, dataPosition + (j+1)·cs)`;
* `channelBytes s cs j p`   — `(start, length)` of channel `p` inside chunk `j` (contiguous layout);
* `Inside x r`              — the read `x = (pos, n)` lies inside the range `r = (lo, hi)`;
* `InPlanned s cs co n x`   — `x` lies inside chunks `co … co+n-1`;
* `windowOf f p off len`    — the window arithmetic (`start_segment`, `end_segment`, `end_index`, index);
* `SegAllowedCoarse s plan` — tag bytes of `s`, or inside the planned chunks of `plan = segPlan …`;
* `SegAllowed s p plan`     — the same with the exact per-reader ranges (`SegDataAllowed`);
* `windowPlanned …`         — `Σ_segments (4 + chunkSize · plannedChunks)`;
* `SegWF s`                 — declared sizes are consistent (fixed-width objects declare
                              `number_values · size` bytes; truncated final chunks are not longer);
* `SizedIn s p`             — if `s` is read by the contiguous reader then channel `p` is fixed-width there.
-/

namespace Tdms.Proofs.C19

open Tdms Tdms.Model Tdms.Generated Tdms.Proofs.C05

/-! ## 1. windows -/

/-- **window_io_bound.**  For a file with consistent declared sizes, every read performed by
    `read_raw_data_for_channel(p, off, len)` lies inside the 4 tag bytes of a segment of the window or
    inside the chunks planned (`segPlan`) for such a segment, and the total number of bytes read is at
    most `Σ (4 + chunkSize · plannedChunks)` — a bound that does not mention the file contents or size. -/
theorem window_io_bound (f : OpenFile) (p : Bytes) (off : Int) (len : Option Int)
    (hwf : ∀ s ∈ f.segments, SegWF s) (hsized : ∀ s ∈ f.segments, SizedIn s p)
    (st st' : FState) (a : List ChanChunk) (hrun : readRawDataForChannel f p off len st = .ok (a, st')) :
    ∃ l, st'.trace = st.trace ++ l ∧
      (∀ x ∈ l, ∃ k s, (windowOf f p off len).startSeg ≤ k ∧ k ≤ (windowOf f p off len).endSeg ∧
        f.segments[k]? = some s ∧
        SegAllowedCoarse s (segPlan p (windowOf f p off len).ix off (windowOf f p off len).endIndex
          (windowOf f p off len).startSeg (windowOf f p off len).endSeg k s) x) ∧
      traceBytes l ≤ windowPlanned p (windowOf f p off len).ix off (windowOf f p off len).endIndex
        (windowOf f p off len).startSeg (windowOf f p off len).endSeg
        (windowSegs f (windowOf f p off len)) (windowOf f p off len).startSeg := by
  obtain ⟨_, l, hl, hall, hb⟩ := tr_readRawDataForChannel f p off len hsized st trivial a st' hrun
  refine ⟨l, hl, ?_, ?_⟩
  · intro x hx
    obtain ⟨k, s, h1, h2, h3, h4⟩ := hall x hx
    exact ⟨k, s, h1, h2, h3, segAllowed_coarse s (hwf s (List.mem_of_getElem? h3)) p _ x h4⟩
  · refine Nat.le_trans hb (windowBudget_le _ _ _ _ _ _ _ ?_ _)
    intro s hs
    apply hwf
    unfold windowSegs at hs
    exact List.mem_of_mem_drop (List.mem_of_mem_take hs)

/-- **window_io_bound_exact.**  The same without any well-formedness assumption and with the exact
    per-reader ranges (`SegAllowed`; see `data_reads_contiguous`, `data_reads_daqmx`,
    `data_reads_interleaved` for what they say for each reader). -/
theorem window_io_bound_exact (f : OpenFile) (p : Bytes) (off : Int) (len : Option Int)
    (hsized : ∀ s ∈ f.segments, SizedIn s p)
    (st st' : FState) (a : List ChanChunk) (hrun : readRawDataForChannel f p off len st = .ok (a, st')) :
    ∃ l, st'.trace = st.trace ++ l ∧
      (∀ x ∈ l, ∃ k s, (windowOf f p off len).startSeg ≤ k ∧ k ≤ (windowOf f p off len).endSeg ∧
        f.segments[k]? = some s ∧
        SegAllowed s p (segPlan p (windowOf f p off len).ix off (windowOf f p off len).endIndex
          (windowOf f p off len).startSeg (windowOf f p off len).endSeg k s) x) ∧
      traceBytes l ≤ windowBudget p (windowOf f p off len).ix off (windowOf f p off len).endIndex
        (windowOf f p off len).startSeg (windowOf f p off len).endSeg
        (windowSegs f (windowOf f p off len)) (windowOf f p off len).startSeg :=
  (tr_readRawDataForChannel f p off len hsized st trivial a st' hrun).2

/-- **window_io_bound_contiguous.**  For contiguous fixed-width data (no well-formedness assumption):
    every read of a window lies inside the 4 tag bytes of a segment of the window, or inside the bytes
    of channel `p` in ONE planned chunk `co ≤ j < co + numChunks` — the bytes of the other channels
    are never fetched. -/
theorem window_io_bound_contiguous (f : OpenFile) (p : Bytes) (off : Int) (len : Option Int)
    (hcont : ∀ s ∈ f.segments, dataReaderKind s = .ok .contiguous)
    (hsized : ∀ s ∈ f.segments, SizedIn s p)
    (st st' : FState) (a : List ChanChunk) (hrun : readRawDataForChannel f p off len st = .ok (a, st')) :
    ∃ l, st'.trace = st.trace ++ l ∧
      ∀ x ∈ l, ∃ k s, (windowOf f p off len).startSeg ≤ k ∧ k ≤ (windowOf f p off len).endSeg ∧
        f.segments[k]? = some s ∧
        (InTag s x ∨ ∃ co skip nc cs j start n,
          segPlan p (windowOf f p off len).ix off (windowOf f p off len).endIndex
            (windowOf f p off len).startSeg (windowOf f p off len).endSeg k s = some (co, skip, nc) ∧
          chunkSize s.objects = .ok cs ∧ co.toNat ≤ j ∧ j < co.toNat + nc.toNat ∧
          channelBytes s cs j p = some (start, n) ∧ Inside x (start, start + n)) := by
  obtain ⟨_, l, hl, hall, _⟩ := tr_readRawDataForChannel f p off len hsized st trivial a st' hrun
  refine ⟨l, hl, fun x hx => ?_⟩
  obtain ⟨k, s, h1, h2, h3, h4⟩ := hall x hx
  refine ⟨k, s, h1, h2, h3, ?_⟩
  rcases h4 with h4 | ⟨co, skip, nc, hplan, h4⟩
  · exact Or.inl h4
  · obtain ⟨cs, j, start, n, hcs, hj1, hj2, hb, hin⟩ :=
      segDataAllowed_contiguous s p co.toNat nc x (hcont s (List.mem_of_getElem? h3)) h4
    exact Or.inr ⟨co, skip, nc, cs, j, start, n, hplan, hcs, hj1, hj2, hb, hin⟩

/-- In a segment read by the contiguous reader every data read lies inside the bytes of channel `p`
    of ONE planned chunk `co ≤ j < co + numChunks`. -/
theorem data_reads_contiguous (s : Segment) (p : Bytes) (co : Nat) (nc : Int) (x : Nat × Nat)
    (hk : dataReaderKind s = .ok .contiguous) (h : SegDataAllowed s p co nc x) :
    ∃ cs j a len, chunkSize s.objects = .ok cs ∧ co ≤ j ∧ j < co + nc.toNat ∧
      channelBytes s cs j p = some (a, len) ∧ Inside x (a, a + len) :=
  segDataAllowed_contiguous s p co nc x hk h

/-- DAQmx: every data read lies inside ONE planned chunk. -/
theorem data_reads_daqmx (s : Segment) (p : Bytes) (co : Nat) (nc : Int) (x : Nat × Nat)
    (hk : dataReaderKind s = .ok .daqmx) (h : SegDataAllowed s p co nc x) :
    ∃ cs j, chunkSize s.objects = .ok cs ∧ co ≤ j ∧ j < co + nc.toNat ∧ Inside x (chunkBytes s cs j) :=
  segDataAllowed_daqmx s p co nc x hk h

/-- Interleaved (and, coarsely, every reader): the planned chunks are fetched by reads inside the
    union `[start of chunk co, + numChunks · chunkSize)` of the planned chunks. -/
theorem data_reads_interleaved (s : Segment) (hwf : SegWF s) (p : Bytes) (co : Nat) (nc : Int) (x : Nat × Nat)
    (h : SegDataAllowed s p co nc x) :
    ∃ cs, chunkSize s.objects = .ok cs ∧
      Inside x ((chunkBytes s cs co).1, (chunkBytes s cs co).1 + nc.toNat * cs) :=
  segDataAllowed_interleaved s hwf p co nc x h

/-- With consistent sizes the bytes of a channel lie inside the bytes of its chunk. -/
theorem channel_bytes_inside_chunk (s : Segment) (hwf : SegWF s) (cs : Nat) (hcs : chunkSize s.objects = .ok cs)
    (hk : dataReaderKind s = .ok .contiguous) (j : Nat) (p : Bytes) (a len : Nat)
    (h : channelBytes s cs j p = some (a, len)) : Inside (a, len) (chunkBytes s cs j) :=
  channelBytes_inside_chunkBytes s hwf cs hcs hk j p a len h

/-! ## 2. index reads -/

/-- **cache_hit_no_io.**  An index read served by the cache leaves the file state (position and
    trace) untouched. -/
theorem cache_hit_no_io (f : OpenFile) (p : Bytes) (c : ChunkCache) (i : Int) (j : Nat)
    (hn : normIndex f p i = some j) (hlo : c.lo ≤ j) (hhi : j < c.hi) (st : FState) :
    (channelReadAtIndex f p (some c) i).run st = .ok ((c.vals.getD (j - c.lo) [], some c), st) :=
  cache_hit_run f p c i j hn hlo hhi st

/-- **index_io_bound.**  An index read (hit or miss) performs I/O for at most one segment tag and the
    chunk `ci` of ONE segment `k` (`indexPlan`), at most `4 + budget of one chunk` bytes. -/
theorem index_io_bound (f : OpenFile) (p : Bytes) (cache : Option ChunkCache) (i : Int)
    (hsized : ∀ s ∈ f.segments, SizedIn s p)
    (st st' : FState) (r : Bytes × Option ChunkCache) (hrun : channelReadAtIndex f p cache i st = .ok (r, st')) :
    ∃ l, st'.trace = st.trace ++ l ∧
      (∀ x ∈ l, ∃ j k s ci, normIndex f p i = some j ∧ indexPlan f p j = some (k, s, ci) ∧
        f.segments[k]? = some s ∧ (InTag s x ∨ SegDataAllowed s p ci 1 x)) ∧
      traceBytes l ≤ (match normIndex f p i with | some j => indexBudget f p j | none => 0) :=
  (tr_channelReadAtIndex f p cache i hsized st trivial r st' hrun).2

/-- For consistent sizes the budget of an index read is at most 4 bytes and one chunk. -/
theorem index_budget_le (f : OpenFile) (p : Bytes) (j k ci : Nat) (s : Segment) (hwf : SegWF s)
    (h : indexPlan f p j = some (k, s, ci)) : indexBudget f p j ≤ 4 + plannedBytes s 1 := by
  unfold indexBudget
  rw [h]
  have := segBudget_le s hwf p ci 1
  simpa using this

/-! ## 3. non-vacuity on a concrete file -/

/-- the concrete file satisfies the hypotheses of the theorems -/
example : (∀ s ∈ exFile.segments, SegWF s) ∧ (∀ s ∈ exFile.segments, SizedIn s exA) := by
  refine ⟨?_, ?_⟩
  · intro s hs
    simp only [exFile, List.mem_singleton] at hs
    subst hs
    refine ⟨?_, ?_⟩
    · intro o ho sz hsz
      simp only [dataObjs, List.filter, List.mem_cons, List.not_mem_nil, or_false] at ho
      rcases ho with rfl | rfl
      · have : (some 1 : Option Nat) = some sz := hsz
        injection this with this; subst this; rfl
      · have : (some 1 : Option Nat) = some sz := hsz
        injection this with this; subst this; rfl
    · intro ov hov; cases hov
  · intro s hs _ o ho hp
    simp only [exFile, List.mem_singleton] at hs
    subst hs
    simp only [dataObjs, List.filter, List.mem_cons, List.not_mem_nil, or_false] at ho
    rcases ho with rfl | rfl
    · exact ⟨1, rfl⟩
    · exact ⟨1, rfl⟩

/-- reading values 1..2 of channel `a` (which straddle the two chunks) fetches the tag and exactly the
    two bytes of `a` in each chunk — not the bytes of channel `b` -/
example :
    (run exFile {} [.read exA 1 (some 2)]).io.trace = [(0, 4), (28, 2), (32, 2)] := by decide +kernel

/-- ... and these are the channel bytes of chunks 0 and 1 -/
example : channelBytes exFile.segments[0] 4 0 exA = some (28, 2) ∧
    channelBytes exFile.segments[0] 4 1 exA = some (32, 2) ∧
    channelBytes exFile.segments[0] 4 1 exB = some (34, 2) ∧
    chunkBytes exFile.segments[0] 4 1 = (32, 36) := by decide +kernel

/-- an index read fetches the tag and one channel-chunk; the next index inside that chunk fetches
    nothing -/
example :
    (run exFile {} [.index exB 3]).io.trace = [(0, 4), (34, 2)] ∧
    (run exFile {} [.index exB 3, .index exB 2]).io.trace = [(0, 4), (34, 2)] := by decide +kernel

end Tdms.Proofs.C19
