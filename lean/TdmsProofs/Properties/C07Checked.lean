/-
  C07 ("writing then reading returns what was written") for the CHECKED writer `writeProgramChecked`
  (`Tdms/Model/Writer.lean`): `writeProgram` guarded, session by session, by `sessionTypesOk []` — the real
  `TdmsWriter.write_segment` raises ValueError when a channel is written with a data type different from the one it
  was written with earlier in the SAME writer session (`Void` data declares no type; a new writer starts with an
  empty table).

  1. `writeProgramChecked_eq`, `writeProgramChecked_none_iff`, `writeProgramChecked_some_iff`;
  2. `sessionTypesOk_of_typesConsistent`: global consistency (C07Whole's `typesConsistent`, stated on the EMITTED
     objects) implies the per-session guard — for programs the writer accepts (`Accepted`: no "Duplicate object
     paths"; without it `typesConsistent` is vacuous, `exVacuous`);
  3. the exact characterisations `guard_iff_sessionConsistent`, `typesConsistent_iff`, and the recorded known finding
     of C07, `exAcross`: two sessions (Int32, then Uint8) pass the guard, are not `typesConsistent`, and the written
     file is rejected by the reader model with `typeChanged`;
  4. `write_then_read_checked`: the headline of C07Whole for the checked writer; the global `typesConsistent` is
     weakened to `CrossConsistent` (between different sessions only) — inside a session the guard enforces it.

  Lemmas: `TdmsProofs/Lemmas/C07Checked{Types,Program}.lean`.  Core Lean only.
-/
import TdmsProofs.Lemmas.C07CheckedProgram

namespace Tdms.Proofs.C07Checked

open Tdms Tdms.Generated Tdms.Model Tdms.Model.Writer Tdms.Proofs.C08 Tdms.Proofs.C07Whole
open Tdms.Proofs.C01Compose (content contentOfDenote ObjView)

/-! ## 1. the checked writer is the writer, restricted -/

theorem writeProgramChecked_eq (v : Nat) (prog : Program) (x : Bytes × Bytes)
    (h : writeProgramChecked v prog = some x) : writeProgram v prog = some x := by
  unfold writeProgramChecked at h
  split at h
  · exact h
  · cases h

/-- it raises iff some session fails the type guard or the unchecked writer raises -/
theorem writeProgramChecked_none_iff (v : Nat) (prog : Program) :
    writeProgramChecked v prog = none ↔
      (∃ session ∈ prog, sessionTypesOk [] session = false) ∨ writeProgram v prog = none := by
  unfold writeProgramChecked
  by_cases hall : prog.all (sessionTypesOk []) = true
  · rw [if_pos hall]
    constructor
    · exact .inr
    · rintro (⟨s, hs, hf⟩ | h)
      · rw [List.all_eq_true.1 hall s hs] at hf; cases hf
      · exact h
  · rw [if_neg hall]
    simp only [true_iff]
    left
    have hf : prog.all (sessionTypesOk []) = false := by simpa using hall
    obtain ⟨s, hs, hn⟩ := List.all_eq_false.1 hf
    exact ⟨s, hs, by simpa using hn⟩

/-- when the guard passes the checked writer IS the writer -/
theorem writeProgramChecked_of_guard (v : Nat) (prog : Program) (h : prog.all (sessionTypesOk []) = true) :
    writeProgramChecked v prog = writeProgram v prog := by
  unfold writeProgramChecked; rw [if_pos h]

/-! ## 2. global consistency implies the guard -/

/-- **global consistency implies the per-session guard** (for a program the writer accepts: `typesConsistent` speaks
    about the emitted objects, and nothing is emitted when the writer raises) -/
theorem sessionTypesOk_of_typesConsistent (prog : Program) (ha : Accepted prog) (hc : typesConsistent prog) :
    prog.all (sessionTypesOk []) = true :=
  (guard_iff_of_segments (segmentsConsistent_of_accepted ha)).2
    ((consistent_program_iff prog).1 ((typesConsistent_iff_handed ha).1 hc)).1

/-- the same from C07Whole's hypothesis `WritableProgram` -/
theorem sessionTypesOk_of_writable (prog : Program) (hW : WritableProgram prog) (hc : typesConsistent prog) :
    prog.all (sessionTypesOk []) = true :=
  sessionTypesOk_of_typesConsistent prog (accepted_of_writable hW) hc

/-- `Accepted` cannot be dropped from `sessionTypesOk_of_typesConsistent`: the second session has a duplicate root, so
    the writer raises, nothing is emitted and `typesConsistent` holds vacuously, while the first session changes a
    channel type and fails the guard -/
def exVacuous : Program :=
  [ [ [ .channel [0x67] [0x61] ⟨3, [[1, 0, 0, 0]]⟩ [] ], [ .channel [0x67] [0x61] ⟨5, [[1]]⟩ [] ] ],
    [ [ .root [], .root [] ] ] ]

theorem exVacuous_facts :
    typesConsistent exVacuous ∧ ¬ Accepted exVacuous ∧ exVacuous.all (sessionTypesOk []) = false ∧
    writeProgram 4713 exVacuous = none := by
  decide +kernel

/-! ## 3. exact characterisations -/

/-- **the guard, exactly**: all sessions pass iff every session is consistent (`SessionConsistent`: C07Whole's
    `Consistent` on the objects handed to the writer in that session).  `SegmentsConsistent`: every single
    `write_segment` call is consistent in itself — implied by `Accepted` (`segmentsConsistent_of_accepted`: the writer
    refuses duplicate paths in one call); the direction `←` needs no hypothesis (`guard_of_sessionConsistent`). -/
theorem guard_iff_sessionConsistent (prog : Program) (hseg : SegmentsConsistent prog) :
    prog.all (sessionTypesOk []) = true ↔ ∀ session ∈ prog, SessionConsistent session :=
  guard_iff_of_segments hseg

theorem guard_of_sessionConsistent (prog : Program) (h : ∀ session ∈ prog, SessionConsistent session) :
    prog.all (sessionTypesOk []) = true :=
  List.all_eq_true.2 fun s hs => sessionTypesOk_of_consistent s (h s hs)

theorem guard_iff_of_accepted (prog : Program) (ha : Accepted prog) :
    prog.all (sessionTypesOk []) = true ↔ ∀ session ∈ prog, SessionConsistent session :=
  guard_iff_of_segments (segmentsConsistent_of_accepted ha)

/-- `SessionConsistent` is a statement about the `(path, type)` table of the session's typed channel objects -/
theorem sessionConsistent_typed (session : List (List WObj)) :
    SessionConsistent session ↔
      ∀ a ∈ typedChannels session.flatten, ∀ b ∈ typedChannels session.flatten, a.1 = b.1 → a.2 = b.2 :=
  sessionConsistent_iff_typed session

/-- `SegmentsConsistent` cannot be dropped from `guard_iff_sessionConsistent`: the guard compares a call with the
    EARLIER calls only, so one call with the same channel twice under two types passes it (and is then refused by the
    duplicate-path check of `write_segment`) -/
def exDupInCall : Program :=
  [ [ [ .channel [0x67] [0x61] ⟨3, [[1, 0, 0, 0]]⟩ [], .channel [0x67] [0x61] ⟨5, [[1]]⟩ [] ] ] ]

theorem exDupInCall_facts :
    exDupInCall.all (sessionTypesOk []) = true ∧ ¬ (∀ session ∈ exDupInCall, SessionConsistent session) ∧
    ¬ SegmentsConsistent exDupInCall ∧ writeProgramChecked 4713 exDupInCall = none := by
  decide +kernel

/-- **the checked writer succeeds exactly when the writer succeeds and every session is consistent** -/
theorem writeProgramChecked_some_iff (v : Nat) (prog : Program) (x : Bytes × Bytes) :
    writeProgramChecked v prog = some x ↔
      writeProgram v prog = some x ∧ ∀ session ∈ prog, SessionConsistent session := by
  constructor
  · intro h
    have hw := writeProgramChecked_eq v prog x h
    have ha : Accepted prog := (accepted_iff_writeProgram v prog).2 (by rw [hw]; rfl)
    refine ⟨hw, (guard_iff_of_accepted prog ha).1 ?_⟩
    unfold writeProgramChecked at h
    split at h
    · assumption
    · cases h
  · rintro ⟨hw, hs⟩
    rw [writeProgramChecked_of_guard v prog (guard_of_sessionConsistent prog hs)]
    exact hw

/-- **global consistency, exactly**: every session consistent, and no channel typed differently in two different
    sessions -/
theorem typesConsistent_iff (prog : Program) (ha : Accepted prog) :
    typesConsistent prog ↔ (∀ session ∈ prog, SessionConsistent session) ∧ CrossConsistent prog := by
  rw [typesConsistent_iff_handed ha, consistent_program_iff]

/-- … hence: global consistency = the guard + cross-session consistency -/
theorem typesConsistent_iff_guard (prog : Program) (ha : Accepted prog) :
    typesConsistent prog ↔ prog.all (sessionTypesOk []) = true ∧ CrossConsistent prog := by
  rw [typesConsistent_iff prog ha, guard_iff_of_accepted prog ha]

/-- a program of ONE session: the guard is the whole of `typesConsistent` -/
theorem typesConsistent_single (session : List (List WObj)) (ha : Accepted [session]) :
    typesConsistent [session] ↔ sessionTypesOk [] session = true := by
  rw [typesConsistent_iff_guard _ ha]
  simp [CrossConsistent]

/-- **the recorded known finding of C07**: two writer sessions appending to the same file, the first writes channel
    `/'g'/'a'` as Int32, the second as Uint8 -/
def exAcross : Program :=
  [ [ [ .channel [0x67] [0x61] ⟨3, [[1, 0, 0, 0]]⟩ [] ] ],
    [ [ .channel [0x67] [0x61] ⟨5, [[1]]⟩ [] ] ] ]

/-- it passes the guard of every session (each session starts with an empty type table), every session is consistent,
    the checked writer writes it (`WritableProgram` holds too) — but it is not `typesConsistent` (not
    `CrossConsistent`), the written bytes are not a spec encoding, and the reader model rejects the written data file
    with `typeChanged` -/
theorem exAcross_finding :
    exAcross.all (sessionTypesOk []) = true ∧ (∀ session ∈ exAcross, SessionConsistent session) ∧
    WritableProgram exAcross ∧ (writeProgramChecked 4713 exAcross).isSome = true ∧
    ¬ typesConsistent exAcross ∧ ¬ CrossConsistent exAcross ∧
    encodeFile (encOfProgram 4713 exAcross) = .error .typeChanged ∧
    ((writeProgramChecked 4713 exAcross).map fun di =>
      match readFile di.1 with
      | .error .typeChanged => true
      | _ => false) = some true := by
  decide +kernel

/-- the same two writes inside ONE session are refused by the checked writer (and accepted by the unchecked one:
    `exTypeChange_rejected` of C07Whole) -/
theorem exTypeChange_refused :
    writeProgramChecked 4713 exTypeChange = none ∧ (writeProgram 4713 exTypeChange).isSome = true := by
  decide +kernel

/-! ## 4. HEADLINE for the checked writer -/

/-- **C07 for the checked writer: writing then reading returns what was written.**
    For every program the real writer (type guard included) serialises, with writable values (`WritableProgram`), no
    channel typed differently in two DIFFERENT sessions (`CrossConsistent`; inside a session the guard has checked
    it), per-segment string data below 2^32 bytes and a data file shorter than 2^63 bytes: the eager read of the
    written data file returns exactly the promised content. -/
theorem write_then_read_checked (v : Nat) (hv : v = 4712 ∨ v = 4713) (prog : Program) (d i : Bytes)
    (hw : writeProgramChecked v prog = some (d, i)) (hW : WritableProgram prog) (hx : CrossConsistent prog)
    (hs : stringTotalsFit prog) (hlen : d.length < 2 ^ 63) :
    ∃ r, readFile d = .ok r ∧ content r = promisedView prog := by
  obtain ⟨hw', hsess⟩ := (writeProgramChecked_some_iff v prog (d, i)).1 hw
  exact write_then_read v hv prog d i hw' hW
    ((typesConsistent_iff prog (accepted_of_writable hW)).2 ⟨hsess, hx⟩) hs hlen

/-- with C07Whole's global hypothesis: the checked writer accepts and the read returns the promised content -/
theorem write_then_read_checked' (v : Nat) (hv : v = 4712 ∨ v = 4713) (prog : Program) (hW : WritableProgram prog)
    (hc : typesConsistent prog) (hs : stringTotalsFit prog)
    (hlen : ∀ d i, writeProgram v prog = some (d, i) → d.length < 2 ^ 63) :
    ∃ d i r, writeProgramChecked v prog = some (d, i) ∧ readFile d = .ok r ∧ content r = promisedView prog := by
  obtain ⟨d, i, r, hw, hr, hcont⟩ := write_then_read' v hv prog hW hc hs hlen
  refine ⟨d, i, r, ?_, hr, hcont⟩
  rw [writeProgramChecked_of_guard v prog (sessionTypesOk_of_writable prog hW hc)]
  exact hw

/-- **one writer session** (the usual `with TdmsWriter(path) as w: …`): whatever the real writer serialises is read
    back as promised — no type hypothesis at all is left -/
theorem write_then_read_checked_single (v : Nat) (hv : v = 4712 ∨ v = 4713) (session : List (List WObj)) (d i : Bytes)
    (hw : writeProgramChecked v [session] = some (d, i)) (hW : WritableProgram [session])
    (hs : stringTotalsFit [session]) (hlen : d.length < 2 ^ 63) :
    ∃ r, readFile d = .ok r ∧ content r = promisedView [session] :=
  write_then_read_checked v hv [session] d i hw hW (by simp [CrossConsistent]) hs hlen

/-! ### non-vacuity -/

/-- `exProg` of C07Whole (four sessions, eight segments) is written by the checked writer, to the same bytes -/
theorem exProg_checked :
    writeProgramChecked 4713 exProg = writeProgram 4713 exProg ∧ CrossConsistent exProg ∧
    (writeProgramChecked 4713 exProg).map (·.1.length) = some 855 := by
  decide +kernel

/-- the headline applied to `exProg` -/
example : ∃ d i r, writeProgramChecked 4713 exProg = some (d, i) ∧ readFile d = .ok r ∧ content r = exView := by
  obtain ⟨hW, hc, hs⟩ := exProg_hyps
  obtain ⟨d, i, r, hw, hr, hcont⟩ := write_then_read_checked' 4713 (.inr rfl) exProg hW hc hs (by
    intro d i hw
    have hl := exProg_length
    rw [hw] at hl
    simp only [Option.map_some, Option.some.injEq] at hl
    rw [hl]; decide)
  exact ⟨d, i, r, hw, hr, by rw [hcont, exProg_view]⟩

/-- a one-session program for `write_then_read_checked_single`: the first session of `exProg` -/
example : ∃ d i r, writeProgramChecked 4713 [exProg.head!] = some (d, i) ∧ readFile d = .ok r ∧
    content r = promisedView [exProg.head!] := by
  have h : (writeProgramChecked 4713 [exProg.head!]).isSome = true ∧ WritableProgram [exProg.head!] ∧
      stringTotalsFit [exProg.head!] ∧
      (writeProgramChecked 4713 [exProg.head!]).map (fun x => decide (x.1.length < 2 ^ 63)) = some true := by
    decide +kernel
  obtain ⟨h1, hW, hs, hl⟩ := h
  cases hw : writeProgramChecked 4713 [exProg.head!] with
  | none => rw [hw] at h1; cases h1
  | some x =>
    obtain ⟨d, i⟩ := x
    rw [hw] at hl
    simp only [Option.map_some, Option.some.injEq, decide_eq_true_eq] at hl
    obtain ⟨r, hr, hc⟩ := write_then_read_checked_single 4713 (.inr rfl) _ d i hw hW hs hl
    exact ⟨d, i, r, rfl, hr, hc⟩

end Tdms.Proofs.C07Checked
