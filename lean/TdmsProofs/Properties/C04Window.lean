import TdmsProofs.Lemmas.C04WindowMain
import TdmsProofs.Lemmas.C04WindowLink
import TdmsProofs.Lemmas.C04SliceLemmas
import TdmsProofs.Lemmas.C04WindowExample

/-!
# C04 — windows mean what they mean on the full array: headline theorems

The model: `Tdms.Model.readRawDataForChannel` (`TdmsReader.read_raw_data_for_channel`), i.e.
`buildIndex`, `cumsumFrom`, `searchRight`, `searchLeft`, `segPlan`, `trimStream`, `windowLoop`.

* `SegL`, `WellFormed`, `ValsOk`, `full`, `windowPureG`, `windowPure`, `dataOf`, `takeOpt`:
  `Lemmas/C04WindowDefs.lean`;  `ReadsAs`: `Lemmas/C04WindowLink.lean`.
* `windowPure` / `windowPureG` run the model's own functions on `Segment` records; only the I/O call
  `verifySegmentStart; segReadChannel … s p chunkOffset (some numChunks)` is replaced by a supplier
  of chunks (`windowLoop_eq_windowPure` states exactly when that replacement is right).

All statements quantify over unbounded `Nat` / `Int` and arbitrary lists; nothing is proved by
enumeration except the labelled `example`s.  Core Lean only (no Mathlib).
-/

namespace Tdms.Proofs.C04

open Tdms Tdms.Model

/-! ## 1. The window theorem on abstract layouts -/

/-- **C04 window theorem.**  For every well-formed layout `L` (any number of segments, any chunk
    counts, truncated final chunks — also holding 0 values —, segments where the channel is absent
    before / between / after segments with data), every assignment `vals` of chunk contents with the
    lengths the layout prescribes, every `offset ≥ 0` (also beyond the end of the channel) and every
    `length` (`none` or `≥ 0`, also reaching beyond the end), the arithmetic of
    `readRawDataForChannel` selects exactly `full[offset : offset + length]`. -/
theorem window_eq_slice (L : List SegL) (vals : Vals) (offset : Int) (length : Option Int) :
    WellFormed L → ValsOk L vals → 0 ≤ offset → (∀ l, length = some l → 0 ≤ l) →
    dataOf (windowPure L vals offset length) = takeOpt length ((full L vals).drop offset.toNat) :=
  fun hwf hvals h0 hl => window_eq_slice_layout L vals hwf hvals offset length h0 hl

/-! ## 2. The same theorem on arbitrary `Segment` records of the model -/

/-- The window theorem for ANY list of model `Segment`s (whatever their other objects, positions,
    flags): only the layout of channel `p` (`layoutOf p`: values per chunk as `segPlan` reads them,
    `numChunks`, `final_chunk_lengths_override.get(p, 0)`) has to be well formed, and `numValues`
    (`object_metadata[p].num_values`) has to be the sum of the per-segment counts. -/
theorem window_eq_slice_on_segments (segs : List Segment) (p : Bytes) (vals : Vals) (numValues : Nat)
    (offset : Int) (length : Option Int) :
    WellFormed (segs.map (layoutOf p)) → ValsOk (segs.map (layoutOf p)) vals →
    numValues = total (segs.map (layoutOf p)) → 0 ≤ offset → (∀ l, length = some l → 0 ≤ l) →
    dataOf (windowPureG segs p numValues (supOf vals) offset length)
      = takeOpt length ((full (segs.map (layoutOf p)) vals).drop offset.toNat) :=
  fun hwf hvals hnum h0 hl => window_eq_slice_segments segs p vals numValues hwf hvals hnum offset length h0 hl

/-- `windowPure` is `windowPureG` on segments instantiated from the layout, and the instantiation is
    faithful: reading the layout back gives `L`. -/
theorem windowPure_is_model_arithmetic (L : List SegL) (vals : Vals) (offset : Int) (length : Option Int) :
    windowPure L vals offset length
      = windowPureG (L.map (SegL.toSegment chanPath)) chanPath (total L) (supOf vals) offset length
    ∧ (L.map (SegL.toSegment chanPath)).map (layoutOf chanPath) = L :=
  ⟨rfl, map_layoutOf_toSegment chanPath L⟩

/-! ## 3. From the model's I/O loop to the pure window -/

/-- **Link lemma.**  If every `verifySegmentStart` / `segReadChannel` call that
    `readRawDataForChannel f p offset length` makes succeeds and returns the chunks `sup` names
    (`ReadsAs`, a predicate on the file and its segments, quantified over all file states), then
    `readRawDataForChannel` returns `windowPureG` — from any file position / trace `st`. -/
theorem windowLoop_eq_windowPure (f : OpenFile) (p : Bytes) (offset : Int) (length : Option Int)
    (sup : Supplier) :
    ReadsAs f p (((f.objects.get p).map (·.numValues)).getD 0) offset length sup →
    ∀ st, ∃ st', (readRawDataForChannel f p offset length).run st
      = .ok (windowPureG f.segments p (((f.objects.get p).map (·.numValues)).getD 0) sup offset length, st') :=
  fun h st => readRawDataForChannel_eq_windowPureG f p offset length sup h st

/-- **`read_data(offset, length)` returns `full[offset : offset+length]`.**  Composition of the link
    lemma, `concatChunks`, and the window theorem: for a channel with a data type on an open file
    whose segment reads return the chunks `vals`, `channelReadData` succeeds from any file state and
    the values it returns are the window of the full array. -/
theorem read_data_eq_slice (f : OpenFile) (p : Bytes) (m : ObjMeta) (vals : Vals) (offset : Int)
    (length : Option Int) :
    f.objects.get p = some m → m.dataType.isSome = true →
    WellFormed (f.segments.map (layoutOf p)) → ValsOk (f.segments.map (layoutOf p)) vals →
    m.numValues = total (f.segments.map (layoutOf p)) →
    0 ≤ offset → (∀ l, length = some l → 0 ≤ l) →
    ReadsAs f p m.numValues offset length (supOf vals) →
    ∀ st, ∃ st' r, (channelReadData f p offset length).run st = .ok (some r, st') ∧
      r.data.getD [] = takeOpt length ((full (f.segments.map (layoutOf p)) vals).drop offset.toNat) := by
  intro hm hty hwf hvals hnum h0 hl hreads st
  obtain ⟨st', r, hrun, hr⟩ := channelReadData_eq_windowPure f p m offset length (supOf vals) hm hty h0 hl hreads st
  refine ⟨st', r, hrun, ?_⟩
  rw [hr]
  exact window_eq_slice_segments f.segments p vals m.numValues hwf hvals hnum offset length h0 hl

/-- **`channel[a:b:c]` end to end.**  Composition of both halves of C04 (`read_slice_eq_pySlice` of
    `C04Slice.lean` and `read_data_eq_slice` above): on an open file whose segment reads return the
    chunks `vals`, `channelReadSlice` returns exactly CPython's `full[a:b:c]` (`ValueError` ↦
    `stepZero` for a zero step), for all `a b c : Option Int`, from any file state. -/
theorem read_slice_end_to_end (f : OpenFile) (p : Bytes) (m : ObjMeta) (vals : Vals) (a b c : Option Int) :
    f.objects.get p = some m → m.dataType.isSome = true →
    WellFormed (f.segments.map (layoutOf p)) → ValsOk (f.segments.map (layoutOf p)) vals →
    m.numValues = total (f.segments.map (layoutOf p)) →
    (∀ off l st, sliceRequest m.numValues a b c = .ok (some (off, l, st)) →
      ReadsAs f p m.numValues off (some l) (supOf vals)) →
    ∀ st, match Tdms.Spec.PySlice.pySlice (full (f.segments.map (layoutOf p)) vals) a b c with
      | .error _ => (channelReadSlice f p a b c).run st = .error .stepZero
      | .ok xs => ∃ st', (channelReadSlice f p a b c).run st = .ok (xs, st') := by
  intro hm hty hwf hvals hnum hreads st
  have hspec := sliceResult_eq_pySlice (full (f.segments.map (layoutOf p)) vals) a b c
  have hlen := full_length _ vals hwf hvals
  rw [← hnum] at hlen
  unfold sliceResult at hspec
  rw [hlen] at hspec
  rw [channelReadSlice_eq, hm]
  simp only [Option.map_some, Option.getD_some]
  cases hreq : sliceRequest (m.numValues : Int) a b c with
  | error e =>
    rw [hreq] at hspec
    cases hpy : Tdms.Spec.PySlice.pySlice (full (f.segments.map (layoutOf p)) vals) a b c with
    | error u =>
      rw [hpy] at hspec
      simp only [Except.mapError, Except.error.injEq] at hspec
      subst hspec; rfl
    | ok xs => rw [hpy] at hspec; simp [Except.mapError] at hspec
  | ok r =>
    rw [hreq] at hspec
    cases r with
    | none =>
      cases hpy : Tdms.Spec.PySlice.pySlice (full (f.segments.map (layoutOf p)) vals) a b c with
      | error u => rw [hpy] at hspec; simp [Except.mapError] at hspec
      | ok xs =>
        rw [hpy] at hspec
        simp only [Except.mapError, Except.ok.injEq] at hspec
        subst hspec
        exact ⟨st, rfl⟩
    | some t =>
      obtain ⟨off, l, stp⟩ := t
      obtain ⟨h0, hl0, _, _⟩ := sliceRequest_in_range m.numValues a b c off l stp hreq
      obtain ⟨st', r, hrun, hr⟩ := read_data_eq_slice f p m vals off (some l) hm hty hwf hvals hnum h0
        (by intro l' h; cases h; exact hl0) (hreads off l stp hreq) st
      cases hpy : Tdms.Spec.PySlice.pySlice (full (f.segments.map (layoutOf p)) vals) a b c with
      | error u => rw [hpy] at hspec; simp [Except.mapError] at hspec
      | ok xs =>
        rw [hpy] at hspec
        simp only [Except.mapError, Except.ok.injEq] at hspec
        refine ⟨st', ?_⟩
        simp only [bind, StateT.bind, StateT.run, Except.bind] at hrun ⊢
        rw [hrun]
        simp only [takeOpt] at hr
        simp only []
        rw [hr, hspec]
        rfl

/-! ## 4. Regression facts and non-vacuity (closed examples, by kernel evaluation)

`exVals L s j` = the values `[s, j, 0], [s, j, 1], …` (as many as the layout says), `exAbsent`, `exTrunc0`,
`exMixed`: `Lemmas/C04WindowExample.lean`. -/

/-- regression (i): a segment where the channel is absent, between segments with data; window
    `(0, 6)` returns 6 values (the original Python loop did not advance its segment counter on
    absent segments and returned the wrong values) -/
example : (dataOf (windowPure exAbsent (exVals exAbsent) 0 (some 6))).length = 6 := by decide

example : dataOf (windowPure exAbsent (exVals exAbsent) 0 (some 6))
    = [[0,0,0], [0,0,1], [0,0,2], [0,0,3], [2,0,0], [2,0,1]] := by decide

/-- regression (ii): truncated final chunk holding 0 values of the channel; window `(0, 1)` returns
    1 value -/
example : (dataOf (windowPure exTrunc0 (exVals exTrunc0) 0 (some 1))).length = 1 := by decide

example : dataOf (windowPure exTrunc0 (exVals exTrunc0) 0 (some 1)) = [[0,0,0]] := by decide

/-- non-vacuity: the hypotheses of `window_eq_slice` hold for the examples -/
example : WellFormed exAbsent ∧ WellFormed exTrunc0 ∧ WellFormed exMixed := by decide

example : ValsOk exMixed (exVals exMixed) := exVals_ok exMixed

/-- non-vacuity: a window across a truncated chunk, an absent segment and a chunk boundary -/
example : full exMixed (exVals exMixed) = [[1,0,0], [1,0,1], [1,0,2], [1,1,0], [3,0,0], [3,0,1], [3,1,0], [3,1,1]]
    ∧ dataOf (windowPure exMixed (exVals exMixed) 2 (some 4)) = [[1,0,2], [1,1,0], [3,0,0], [3,0,1]]
    ∧ dataOf (windowPure exMixed (exVals exMixed) 5 none) = [[3,0,1], [3,1,0], [3,1,1]]
    ∧ dataOf (windowPure exMixed (exVals exMixed) 9 (some 3)) = []
    ∧ dataOf (windowPure exMixed (exVals exMixed) 3 (some 0)) = [] := by decide

/-- the headline theorem instantiated (not by evaluation) -/
example : dataOf (windowPure exMixed (exVals exMixed) 2 (some 4))
    = ((full exMixed (exVals exMixed)).drop 2).take 4 :=
  window_eq_slice exMixed (exVals exMixed) 2 (some 4) (by decide) (exVals_ok _) (by decide)
    (by intro l h; cases h; decide)

/-- the well-formedness hypothesis is needed: with a "truncated" final chunk longer than a full
    chunk the arithmetic is wrong -/
example : dataOf (windowPure [⟨1, 2, some 3⟩] (exVals [⟨1, 2, some 3⟩]) 0 (some 2))
    ≠ ((full [⟨1, 2, some 3⟩] (exVals [⟨1, 2, some 3⟩])).drop 0).take 2 := by decide

/-! ### non-vacuity of the link lemma: a real file

`exFile` (`Lemmas/C04WindowExample.lean`) is a 120-byte TDMS file that the real npTDMS reads as
`[10 20 30 40 50 60]`; `exOpen` is the model's `openFile exFile` (`exOpen_is_openFile`). -/

/-- the hypothesis `ReadsAs` of the link lemma holds on a real file -/
example : ReadsAs exOpen exPath 6 1 (some 4) (supOf exFileVals) := exOpen_reads

/-- all hypotheses of `read_data_eq_slice` hold together on a real file, and its conclusion is
    `channel.read_data(1, 4) = [20, 30, 40, 50]` from any file state -/
example : ∀ st, ∃ st' r, (channelReadData exOpen exPath 1 (some 4)).run st = .ok (some r, st') ∧
    r.data.getD [] = [[20,0,0,0], [30,0,0,0], [40,0,0,0], [50,0,0,0]] := by
  intro st
  obtain ⟨st', r, h1, h2⟩ := read_data_eq_slice exOpen exPath exMeta exFileVals 1 (some 4) rfl rfl
    (by decide) exFileVals_ok (by decide) (by decide) (by intro l h; cases h; decide) exOpen_reads st
  refine ⟨st', r, h1, ?_⟩
  rw [h2]
  decide

end Tdms.Proofs.C04
