/-
  C13 at FILE level — "scaled channel data is the dataflow evaluation of the NI_Scale definitions the file
  encodes; channel, else group, else file; elementwise; identical in lazy and eager mode; the raw data are not
  modified".

  Composition of
    * C01Multi `read_encode_multi` (the eager reader returns exactly the content `denote` assigns to the encoding:
      objects, properties — last write wins across segments —, values), `denote_multi_values`,
      `read_metadata_multi`;
    * C04Whole `lazy_window_eq_denote_slice` (a window read on the lazily opened file is the slice of the
      values `denote` assigns);
    * C13 `lookup_order`, `scaling_is_dataflow` / `scaled_array_is_dataflow`, `elementwise`.

  Definitions (`Lemmas/C13FileDefs.lean`): `scaledChannel D interp env r p` (`channel.data` after
  `TdmsFile.read`), `scaledReadData D interp env f p offset length` (`channel.read_data(offset, length)` on an
  open file), `specScaling D c p g` (the scaling the content `c = denote e` defines for channel `p` of group `g`),
  `propsOf` / `pvOf` (property bytes ↦ the values `scaling.py` sees).  Everything is parametric in
    `D : Dec R` — the decoder of numbers (type code, canonical little-endian bytes ↦ `R`),
    `interp` (np.interp) and `env` (sensor scalings), as in C13;
  `decQ` (`Lemmas/C13FileRat.lean`) is the exact decoder over ℚ (two's complement, IEEE-754) used in the example.

  Class of files: C01Multi's `MultiStd e`, `FileFits e`, `onlyChannelsHaveDataM e`, shorter than 2^63 bytes —
  contiguous, non-DAQmx segments; any number of segments.  A scaled element is `.ok x` or the error its
  evaluation raises (the model's `scaleArray` is elementwise); `scaledChannel … = none` for objects that are not
  numeric channels, and when `get_scaling` itself raises.
-/
import TdmsProofs.Lemmas.C13FileMain
import TdmsProofs.Lemmas.C13FileExample

namespace Tdms.Proofs.C13File

open Tdms Tdms.Generated Tdms.Model Tdms.Model.Scaling Tdms.Proofs.C13 Tdms.Proofs.C01Multi
open Tdms.Proofs.C01Compose (content contentOfDenote ObjView)

/-! ## 1. eager: the scaled data are the dataflow evaluation of the properties the file encodes -/

section
variable {R : Type} [CommRing R] [LT R] [DecidableRel (α := R) (· < ·)] (D : Dec R)
variable (interp : List R → List R → R → R) (env : Nat → R → R)

/-- **C13 on whole files.**  For every file of the class, `readFile` succeeds on the encoding, `denote` is
    defined, and for every object `oc` of `denote e` that is a channel (`channelParts`) of numeric type:
    with `specScaling D c oc.path g` = the first of {channel, group, root} whose properties — as `denote`
    assigns them, last write wins across segments — define a scaling,
    * it is an error ⇒ there are no scaled data (`get_scaling` raises);
    * it is `none` ⇒ the scaled data are the decoded raw values `denote` assigns;
    * it is a graph, well-formed ⇒ the scaled data are, element by element, the dataflow evaluation
      (`Spec.evalGraph`) of that graph on the decoded raw values `denote` assigns. -/
theorem scaled_read_is_dataflow_of_denote (e : FileEnc) (h : MultiStd e) (fit : FileFits e)
    (hch : onlyChannelsHaveDataM e) (bytes : Bytes) (hb : encodeFile e = .ok bytes) (hlen : bytes.length < 2 ^ 63) :
    ∃ r c, readFile bytes = .ok r ∧ denote e = .ok c ∧
      ∀ oc ∈ c, ∀ ty g ch, oc.ty = some ty → numericTy ty = true → channelParts oc.path = some (g, ch) →
        match specScaling D c oc.path g with
        | .error _ => scaledChannel D interp env r oc.path = none
        | .ok none => scaledChannel D interp env r oc.path = some (oc.values.map fun b => .ok (D.num ty b))
        | .ok (some graph) => wf graph →
            scaledChannel D interp env r oc.path =
              some ((oc.values.map (rawOf D ty)).map (Spec.evalGraph interp env graph)) := by
  obtain ⟨f, r, c, hf⟩ := fileFacts e h fit hch bytes hb hlen
  refine ⟨r, c, hf.read, hf.meaning, ?_⟩
  intro oc hoc ty g ch hty hnum hp
  rw [scaledChannel_of_facts D interp env hf oc hoc ty hty hnum g ch hp]
  cases specScaling D c oc.path g with
  | error e => rfl
  | ok sc =>
    cases sc with
    | none => rfl
    | some graph =>
      intro hwf
      simp only [scaleValues, scaled_array_is_dataflow interp env hwf]

/-- the objects outside the scope of `scaledChannel`: no data type, a non-numeric data type, or not a channel path -/
theorem scaled_read_none_otherwise (e : FileEnc) (h : MultiStd e) (fit : FileFits e)
    (hch : onlyChannelsHaveDataM e) (bytes : Bytes) (hb : encodeFile e = .ok bytes) (hlen : bytes.length < 2 ^ 63) :
    ∃ r c, readFile bytes = .ok r ∧ denote e = .ok c ∧
      (∀ oc ∈ c, (oc.ty = none ∨ (∃ ty, oc.ty = some ty ∧ numericTy ty = false) ∨ channelParts oc.path = none) →
        scaledChannel D interp env r oc.path = none) ∧
      ∀ p, p ∉ c.map (·.path) → scaledChannel D interp env r p = none := by
  obtain ⟨f, r, c, hf⟩ := fileFacts e h fit hch bytes hb hlen
  refine ⟨r, c, hf.read, hf.meaning, ?_, ?_⟩
  · intro oc hoc hcase
    unfold scaledChannel
    rw [hf.same]
    exact scaledIn_denote_none D interp env c hf.nodup oc hoc hcase _
  · intro p hp
    unfold scaledChannel scaledIn
    rw [hf.same, find_contentOfDenote]
    have : c.find? (·.path = p) = none := by
      rw [List.find?_eq_none]
      intro oc hoc hd
      exact hp (List.mem_map.2 ⟨oc, hoc, of_decide_eq_true hd⟩)
    rw [this]
    rfl

end

/-! ## 2. lazy mode: scaling commutes with windows; lazy = eager -/

section
variable {R : Type} [Add R] [Sub R] [Mul R] [OfNat R 0] (D : Dec R)
variable (interp : List R → List R → R → R) (env : Nat → R → R)
variable [NatCast R] [LT R] [DecidableRel (α := R) (· < ·)]

/-- **scaling a window = the window of the scaled data, on whole files.**  For every file of the class, every object
    `oc` of `denote e` with a data type, every `offset ≥ 0`, every `length` (`none` or `≥ 0`, also beyond the
    end) and every file state `st` (position and trace left by earlier operations):
    `channel.read_data(offset, length)` on the lazily opened file succeeds and returns
    `channel.data[offset : offset+length]` of the eagerly read file — both `none` in the cases where there are no
    scaled data. -/
theorem scaled_window_commutes_file (e : FileEnc) (h : MultiStd e) (fit : FileFits e)
    (hch : onlyChannelsHaveDataM e) (bytes : Bytes) (hb : encodeFile e = .ok bytes) (hlen : bytes.length < 2 ^ 63) :
    ∃ f r c, openFile bytes = .ok f ∧ readFile bytes = .ok r ∧ denote e = .ok c ∧
      ∀ oc ∈ c, oc.ty.isSome = true → ∀ (offset : Int) (length : Option Int), 0 ≤ offset →
        (∀ l, length = some l → 0 ≤ l) → ∀ st : FState, ∃ st',
          (scaledReadData D interp env f oc.path offset length).run st =
            .ok ((scaledChannel D interp env r oc.path).map fun xs => takeOptG length (xs.drop offset.toNat), st') := by
  obtain ⟨f, r, c, hf⟩ := fileFacts e h fit hch bytes hb hlen
  exact ⟨f, r, c, hf.opened, hf.read, hf.meaning, fun oc hoc hty offset length h0 hl st =>
    scaled_window_of_facts D interp env hf oc hoc hty offset length h0 hl st⟩

/-- **lazy = eager for scaled data**: the full scaled read of a channel of the lazily opened file, from any file
    state, is the scaled data of the eagerly read file -/
theorem scaled_lazy_eq_eager (e : FileEnc) (h : MultiStd e) (fit : FileFits e)
    (hch : onlyChannelsHaveDataM e) (bytes : Bytes) (hb : encodeFile e = .ok bytes) (hlen : bytes.length < 2 ^ 63) :
    ∃ f r c, openFile bytes = .ok f ∧ readFile bytes = .ok r ∧ denote e = .ok c ∧
      ∀ oc ∈ c, oc.ty.isSome = true → ∀ st : FState, ∃ st',
        (scaledReadData D interp env f oc.path 0 none).run st = .ok (scaledChannel D interp env r oc.path, st') := by
  obtain ⟨f, r, c, hf⟩ := fileFacts e h fit hch bytes hb hlen
  refine ⟨f, r, c, hf.opened, hf.read, hf.meaning, ?_⟩
  intro oc hoc hty st
  obtain ⟨st', hrun⟩ := scaled_window_of_facts D interp env hf oc hoc hty 0 none (by decide)
    (by intro l hl; cases hl) st
  refine ⟨st', ?_⟩
  rw [hrun]
  cases scaledChannel D interp env r oc.path <;> simp [takeOptG]

/-! ## 3. the raw data are not modified: scaling is a function of the raw values and three dictionaries

In the model `scaledChannel` is a pure function `EagerResult → … → Option (List …)`: computing it cannot change
the `EagerResult` (there is no state to change), so "the raw values after computing the scaled data are the raw
values before" holds by construction.  The statement with content is the one below: the result depends on the
`EagerResult` only through the channel's data type, its raw values, and the property dictionaries of the channel,
of its group and of the root. -/

/-- `scaledChannel` factors through `scaledPure`, a function of exactly: the data type, whether the path is a
    channel path, the three property dictionaries, the raw values -/
theorem raw_unchanged (r : EagerResult) (p : Bytes) :
    scaledChannel D interp env r p =
      scaledPure D interp env (dataTypeIn (content r) p) (channelParts p).isSome (propsIn D (content r) p)
        (propsIn D (content r) (groupOf p)) (propsIn D (content r) rootPath) (rawValues r p) :=
  scaledIn_eq_pure D interp env (content r) p (rawValues r p)

/-- … hence two read results that agree on those agree on the scaled data, whatever else differs (other
    channels, other objects' properties, the segment table, …) -/
theorem scaled_depends_only_on (r r' : EagerResult) (p : Bytes)
    (hty : dataTypeIn (content r) p = dataTypeIn (content r') p) (hv : rawValues r p = rawValues r' p)
    (hc : propsIn D (content r) p = propsIn D (content r') p)
    (hg : propsIn D (content r) (groupOf p) = propsIn D (content r') (groupOf p))
    (hr : propsIn D (content r) rootPath = propsIn D (content r') rootPath) :
    scaledChannel D interp env r p = scaledChannel D interp env r' p := by
  rw [raw_unchanged, raw_unchanged, hty, hv, hc, hg, hr]

end

/-! ## 4. non-vacuity: `scFile` (`Lemmas/C13FileExample.lean`), evaluated in the kernel on both sides

Two segments.  Channel `a` (Int32) carries a Linear → Polynomial chain whose slope is overwritten in the second
segment; channel `b` (Int16) has no scaling properties and takes the group's `3·x + 1`; channel `c`
(DoubleFloat) lives in a group `h` that has no object in the file and takes the root's `10·x`. -/

section Example

/-- `a`: raw `[1, 2, 3, −2]`, scale 0 = `4·x + 1/2` (slope 4 from the SECOND segment), scale 1 = `1 + 3·u²` -/
def expA : List (Except ScaleErr ℚ) := [.ok (247 / 4), .ok (871 / 4), .ok (1879 / 4), .ok (679 / 4)]
/-- `b`: raw `[5, −1, 7, 0]`, group scaling `3·x + 1` -/
def expB : List (Except ScaleErr ℚ) := [.ok 16, .ok (-2), .ok 22, .ok 1]
/-- `c`: raw doubles `[0.5, −1.5, 2.0, 0.1]`, root scaling `10·x` (exactly: the double `0.1` is
    `3602879701896397 / 2^55`) -/
def expC : List (Except ScaleErr ℚ) :=
  [.ok 5, .ok (-15), .ok 20, .ok (18014398509481985 / 18014398509481984)]

def graphA : List (Scaling ℚ) := [.linear (1 / 2) 4 rawSource, .polynomial [1, 0, 3] 0]
def graphB : List (Scaling ℚ) := [.linear 1 3 rawSource]
def graphC : List (Scaling ℚ) := [.linear 0 10 rawSource]

theorem scFile_std : MultiStd scFile := multiStdB_sound (by decide +kernel)
theorem scFile_fits : FileFits scFile := fileFitsB_sound (by decide +kernel)
theorem scFile_channels : onlyChannelsHaveDataM scFile := onlyChannelsHaveDataB_sound (by decide +kernel)
theorem scFile_length : (encodeFile scFile).toOption.map (·.length) = some 1196 := by decide +kernel

/-- the file has two segments, and the second overwrites a scaling property of `a` -/
theorem scFile_features : scFile.length = 2 ∧
    (scFile.map fun s => s.objs.map fun o => (o.path, o.props.map (·.name)))[1]? =
      some [(sA, [utf8 "NI_Scale[0]_Linear_Slope"])] := by decide +kernel

/-- MODEL side, by evaluation: encode, read eagerly, scale -/
theorem scFile_scaled_read : ((encodeFile scFile).toOption.bind fun b => (readFile b).toOption.map fun r =>
      [sA, sB, sC, sG].map (scaledChannel decQ interpRat envId r)) =
    some [some expA, some expB, some expC, none] := by decide +kernel

/-- SPEC side, by evaluation: the scalings `denote` defines (channel, else group, else root) … -/
theorem scFile_spec_scalings : ((denote scFile).toOption.map fun c =>
      [specScaling decQ c sA (utf8 "g"), specScaling decQ c sB (utf8 "g"), specScaling decQ c sC (utf8 "h")]) =
    some [.ok (some graphA), .ok (some graphB), .ok (some graphC)] := by decide +kernel

/-- … their dataflow evaluation on the values `denote` assigns … -/
theorem scFile_spec_values : ((denote scFile).toOption.map fun c =>
      [(sA, 3, graphA), (sB, 2, graphB), (sC, 10, graphC)].map fun (p, ty, graph) =>
        (c.find? (·.path = p)).map fun oc =>
          (oc.values.map (rawOf decQ ty)).map (Spec.evalGraph interpRat envId graph)) =
    some [some expA, some expB, some expC] := by decide +kernel

/-- … and the side conditions of the theorem for the three channels -/
theorem scFile_side : wf graphA ∧ wf graphB ∧ wf graphC ∧ channelParts sA = some (utf8 "g", utf8 "a") ∧
    channelParts sB = some (utf8 "g", utf8 "b") ∧ channelParts sC = some (utf8 "h", utf8 "c") ∧
    numericTy 3 = true ∧ numericTy 2 = true ∧ numericTy 10 = true := by decide +kernel

/-- lazy side, by evaluation: windows `(1, 2)` of the three channels on the lazily opened file -/
theorem scFile_scaled_windows : ((encodeFile scFile).toOption.bind fun b => (openFile b).toOption.map fun f =>
      [sA, sB, sC].map fun p => ((scaledReadData decQ interpRat envId f p 1 (some 2)).run {}).toOption.map (·.1)) =
    some [some (some [.ok (871 / 4), .ok (1879 / 4)]), some (some [.ok (-2), .ok 22]),
      some (some [.ok (-15), .ok 20])] := by decide +kernel

/-- the hypotheses of the headline theorems are satisfiable: the theorems applied to `scFile` -/
example : ∃ bytes f r c, encodeFile scFile = .ok bytes ∧ openFile bytes = .ok f ∧ readFile bytes = .ok r ∧
    denote scFile = .ok c ∧
    ∀ oc ∈ c, oc.ty.isSome = true → ∀ st : FState, ∃ st',
      (scaledReadData decQ interpRat envId f oc.path 0 none).run st =
        .ok (scaledChannel decQ interpRat envId r oc.path, st') := by
  obtain ⟨acts, _, hb⟩ := encodeFile_multi_bytes scFile scFile_std
  have hl := scFile_length
  rw [hb] at hl
  simp only [Except.toOption, Option.map_some, Option.some.injEq] at hl
  obtain ⟨f, r, c, h1, h2, h3, h4⟩ := scaled_lazy_eq_eager decQ interpRat envId scFile scFile_std scFile_fits
    scFile_channels _ hb (by rw [hl]; decide)
  exact ⟨_, f, r, c, hb, h1, h2, h3, h4⟩

/-- SPEC side for channel `a`, in one piece: its type, the graph `denote` defines, the evaluation of that graph -/
theorem scFile_spec_a : ((denote scFile).toOption.map fun c => (c.find? (·.path = sA)).map fun oc =>
      decide (oc.ty = some 3) && decide (specScaling decQ c sA (utf8 "g") = .ok (some graphA)) &&
        decide ((oc.values.map (rawOf decQ 3)).map (Spec.evalGraph interpRat envId graphA) = expA)) =
    some (some true) := by decide +kernel

/-- the composed theorem on channel `a` of `scFile`: what is read and scaled is the dataflow evaluation of the
    graph `denote` defines — through the THEOREM (all its hypotheses hold); the value `expA` obtained from the
    spec side is the one `scFile_scaled_read` obtains by running the model -/
example : ∃ bytes r c oc, encodeFile scFile = .ok bytes ∧ readFile bytes = .ok r ∧ denote scFile = .ok c ∧
    oc ∈ c ∧ oc.path = sA ∧ specScaling decQ c sA (utf8 "g") = .ok (some graphA) ∧
    scaledChannel decQ interpRat envId r sA =
      some ((oc.values.map (rawOf decQ 3)).map (Spec.evalGraph interpRat envId graphA)) ∧
    scaledChannel decQ interpRat envId r sA = some expA := by
  obtain ⟨acts, _, hb⟩ := encodeFile_multi_bytes scFile scFile_std
  have hl := scFile_length
  rw [hb] at hl
  simp only [Except.toOption, Option.map_some, Option.some.injEq] at hl
  obtain ⟨r, c, h1, h2, h3⟩ := scaled_read_is_dataflow_of_denote decQ interpRat envId scFile scFile_std
    scFile_fits scFile_channels _ hb (by rw [hl]; decide)
  have hs := scFile_spec_a
  simp only [h2, Except.toOption, Option.map_some, Option.some.injEq] at hs
  cases hfind : c.find? (·.path = sA) with
  | none => rw [hfind] at hs; cases hs
  | some oc =>
    rw [hfind] at hs
    simp only [Option.map_some, Option.some.injEq, Bool.and_eq_true, decide_eq_true_eq] at hs
    obtain ⟨⟨hty, hsc⟩, hval⟩ := hs
    have hoc := List.mem_of_find?_eq_some hfind
    have hpath : oc.path = sA := by simpa using List.find?_some hfind
    have := h3 oc hoc 3 (utf8 "g") (utf8 "a") hty scFile_side.2.2.2.2.2.2.1
      (by rw [hpath]; exact scFile_side.2.2.2.1)
    rw [hpath, hsc] at this
    have hA := this scFile_side.1
    exact ⟨_, r, c, oc, hb, h1, h2, hoc, hpath, hsc, hA, by rw [hA, hval]⟩

/-- **`wf graph` cannot be dropped** from `scaled_read_is_dataflow_of_denote`: a one-segment file whose channel
    defines scale 0 = AdvancedAPI on scale 1, scale 1 = Linear `2·x + 1` on the raw data, scale 2 = AdvancedAPI on
    scale 0.  The graph is acyclic but not in topological order (`wf` fails): the recursion of
    `_compute_scaled_data` (and the model) follows the forward reference and returns `[3, 5]`, the left-to-right
    dataflow specification reports `indexError`.  This is a limit of the specification (`Spec.evalGraph` evaluates
    graphs in list order), not a defect of npTDMS; see `C13.lean`. -/
def fwdFile : FileEnc := [
  { scSeg0 with
      objs := [⟨sA, .full 3 2 8, [pU32 "NI_Number_Of_Scales" 3,
                 pStr "NI_Scale[0]_Scale_Type" "AdvancedAPI", pU32 "NI_Scale[0]_AdvancedAPI_Input_Source" 1,
                 pStr "NI_Scale[1]_Scale_Type" "Linear", pF64 "NI_Scale[1]_Linear_Slope" d2,
                 pF64 "NI_Scale[1]_Linear_Y_Intercept" d1,
                 pStr "NI_Scale[2]_Scale_Type" "AdvancedAPI", pU32 "NI_Scale[2]_AdvancedAPI_Input_Source" 0]⟩],
      chunks := [[[[1, 0, 0, 0], [2, 0, 0, 0]]]] } ]

def graphFwd : List (Scaling ℚ) := [.noop 1, .linear 1 2 rawSource, .noop 0]

theorem wf_needed_file :
    multiStdB fwdFile = true ∧ fileFitsB fwdFile = true ∧ onlyChannelsHaveDataB fwdFile = true ∧
    ((encodeFile fwdFile).toOption.bind fun b => (readFile b).toOption.map fun r =>
      scaledChannel decQ interpRat envId r sA) = some (some [.ok 3, .ok 5]) ∧
    ((denote fwdFile).toOption.map fun c => specScaling decQ c sA (utf8 "g")) = some (.ok (some graphFwd)) ∧
    ¬ wf graphFwd ∧
    ([[1, 0, 0, 0], [2, 0, 0, 0]].map (rawOf decQ 3)).map (Spec.evalGraph interpRat envId graphFwd) =
      [.error .indexError, .error .indexError] := by decide +kernel

end Example

end Tdms.Proofs.C13File
