/-
  C05 — the state the history-independence theorems reason about (one-chunk cache test of `_read_at_index`, chunk selection of
  `read_channel_chunk_for_index`, the window planner) is what the current source defines: the ties proved for C19 / C04 are
  registered as obligations of C05 as well.
-/
import TdmsProofs.Properties.C19Tied
import TdmsProofs.Properties.C04Tied

namespace Tdms.Proofs.C05Tied

theorem _read_at_index_tied : type_of% @Tdms.Proofs.C19Tied._read_at_index_tied := @Tdms.Proofs.C19Tied._read_at_index_tied

theorem read_channel_chunk_for_index_tied : type_of% @Tdms.Proofs.C19Tied.read_channel_chunk_for_index_tied :=
  @Tdms.Proofs.C19Tied.read_channel_chunk_for_index_tied

theorem read_raw_data_for_channel_tied : type_of% @Tdms.Proofs.C04Tied.read_raw_data_for_channel_tied :=
  @Tdms.Proofs.C04Tied.read_raw_data_for_channel_tied

end Tdms.Proofs.C05Tied
