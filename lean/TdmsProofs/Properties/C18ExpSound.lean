import Mathlib.Analysis.Complex.Exponential
import Mathlib.Data.Rat.Floor
import Mathlib.Data.Rat.BigOperators
import TdmsProofs.C18Lemmas

/-! OPTIONAL (needs Mathlib; NOT part of the core `lake build`): soundness of the rational enclosure
`Tdms.Proofs.C18.expEnclosure` used by the type-K grid checks and by
`boundary_continuous_K_exp_partial`:

  `expEnclosure_sound : q ≤ 0 → 0 ≤ l ∧ l ≤ Real.exp q ∧ Real.exp q ≤ u`  where `(l, u) = expEnclosure q`.

Check with (see NOTES.md):
  `LEAN_PATH=<mathlib and its packages>:/tmp/agents/c18/.lake/build/lib/lean lean C18ExpSound.lean` -/

namespace Tdms.Proofs.C18
open Finset

theorem taylorExpAux_eq (y : ℚ) (n : ℕ) :
    taylorExpAux y n = (∑ i ∈ range n, y ^ i / (i.factorial : ℚ), y ^ n / (n.factorial : ℚ)) := by
  induction n with
  | zero => simp [taylorExpAux]
  | succ n ih =>
    simp only [taylorExpAux, ih, Finset.sum_range_succ, Nat.factorial_succ, Nat.cast_mul, Nat.cast_succ,
      pow_succ]
    congr 1
    have h1 : (n.factorial : ℚ) ≠ 0 := by positivity
    have h2 : ((n : ℚ) + 1) ≠ 0 := by positivity
    field_simp

theorem taylor_lower (z : ℚ) (hz : 0 ≤ z) (n : ℕ) : ((taylorExp z n : ℚ) : ℝ) ≤ Real.exp z := by
  have h := Real.sum_le_exp_of_nonneg (x := (z : ℝ)) (by exact_mod_cast hz) n
  simp only [taylorExp, taylorExpAux_eq]
  rw [Rat.cast_sum]
  simpa using h

theorem taylor_upper (z : ℚ) (hz : 0 ≤ z) (hz1 : z ≤ 1) {n : ℕ} (hn : 0 < n) :
    Real.exp z ≤ ((taylorExp z n + taylorExpRem z n : ℚ) : ℝ) := by
  have h := Real.exp_bound' (x := (z : ℝ)) (by exact_mod_cast hz) (by exact_mod_cast hz1) hn
  have hn' : ((n : ℝ)) ≠ 0 := by positivity
  have hf : ((n.factorial : ℝ)) ≠ 0 := by positivity
  have e : ((taylorExp z n + taylorExpRem z n : ℚ) : ℝ) =
      (∑ m ∈ range n, (z : ℝ) ^ m / (m.factorial : ℝ)) + (z : ℝ) ^ n * (n + 1) / (n.factorial * n) := by
    simp only [taylorExp, taylorExpRem, taylorExpAux_eq]
    rw [Rat.cast_add, Rat.cast_sum]
    congr 1
    · simp
    · push_cast
      field_simp
  rw [e]; exact h

theorem one_le_taylor (z : ℚ) (hz : 0 ≤ z) {n : ℕ} (hn : 0 < n) : 1 ≤ taylorExp z n := by
  simp only [taylorExp, taylorExpAux_eq]
  obtain ⟨m, rfl⟩ : ∃ m, n = m + 1 := ⟨n - 1, by omega⟩
  rw [Finset.sum_range_succ']
  have : 0 ≤ ∑ k ∈ range m, z ^ (k + 1) / ((k + 1).factorial : ℚ) :=
    Finset.sum_nonneg (fun i _ => by positivity)
  simp; linarith

theorem roundDown_le (d : ℕ) (hd : 0 < d) (q : ℚ) : roundDown d q ≤ q := by
  have hd' : (0 : ℚ) < d := by exact_mod_cast hd
  unfold roundDown
  rw [div_le_iff₀ hd']
  exact Int.floor_le (q * d)

theorem roundDown_nonneg (d : ℕ) (q : ℚ) (hq : 0 ≤ q) : 0 ≤ roundDown d q := by
  have h1 : (0 : ℤ) ≤ ⌊q * (d : ℚ)⌋ := Int.floor_nonneg.mpr (by positivity)
  have h2 : (0 : ℚ) ≤ ((⌊q * (d : ℚ)⌋ : ℤ) : ℚ) := by exact_mod_cast h1
  show (0 : ℚ) ≤ ((⌊q * (d : ℚ)⌋ : ℤ) : ℚ) / (d : ℚ)
  positivity

theorem le_roundUp (d : ℕ) (hd : 0 < d) (q : ℚ) : q ≤ roundUp d q := by
  have hd' : (0 : ℚ) < d := by exact_mod_cast hd
  unfold roundUp
  rw [le_div_iff₀ hd']
  exact Rat.le_ceil

theorem expDenom_pos : 0 < expDenom := by unfold expDenom; positivity

/-- squaring an enclosure `0 ≤ l ≤ e ≤ u` of a real `e ≥ 0` `k` times encloses `e ^ (2 ^ k)` -/
theorem squareEnclosure_sound (k : ℕ) : ∀ (l u : ℚ) (e : ℝ), 0 ≤ l → (l : ℝ) ≤ e → e ≤ (u : ℝ) →
    0 ≤ (squareEnclosure k (l, u)).1 ∧ ((squareEnclosure k (l, u)).1 : ℝ) ≤ e ^ (2 ^ k) ∧
      e ^ (2 ^ k) ≤ ((squareEnclosure k (l, u)).2 : ℝ) := by
  induction k with
  | zero => intro l u e h0 h1 h2; simpa [squareEnclosure] using ⟨h0, h1, h2⟩
  | succ k ih =>
    intro l u e h0 h1 h2
    have hl0 : (0 : ℝ) ≤ l := by exact_mod_cast h0
    have he0 : 0 ≤ e := le_trans hl0 h1
    have h1' : ((roundDown expDenom (l * l) : ℚ) : ℝ) ≤ e ^ 2 := by
      have a : ((roundDown expDenom (l * l) : ℚ) : ℝ) ≤ ((l * l : ℚ) : ℝ) := by
        exact_mod_cast roundDown_le expDenom expDenom_pos (l * l)
      have b : ((l * l : ℚ) : ℝ) ≤ e ^ 2 := by push_cast; nlinarith
      exact le_trans a b
    have h2' : e ^ 2 ≤ ((roundUp expDenom (u * u) : ℚ) : ℝ) := by
      have a : ((u * u : ℚ) : ℝ) ≤ ((roundUp expDenom (u * u) : ℚ) : ℝ) := by
        exact_mod_cast le_roundUp expDenom expDenom_pos (u * u)
      have b : e ^ 2 ≤ ((u * u : ℚ) : ℝ) := by push_cast; nlinarith
      exact le_trans b a
    have h0' : 0 ≤ roundDown expDenom (l * l) := roundDown_nonneg _ _ (mul_self_nonneg l)
    have := ih _ _ (e ^ 2) h0' h1' h2'
    simpa [squareEnclosure, pow_succ, pow_mul, mul_comm] using this

/-- **Soundness of the enclosure**: for every rational `q ≤ 0`, `0 ≤ l ≤ exp q ≤ u`. -/
theorem expEnclosure_sound (q : ℚ) (hq : q ≤ 0) :
    0 ≤ (expEnclosure q).1 ∧ ((expEnclosure q).1 : ℝ) ≤ Real.exp q ∧
      Real.exp q ≤ ((expEnclosure q).2 : ℝ) := by
  unfold expEnclosure
  simp only
  split
  · rename_i hz
    obtain ⟨hz0, hz1⟩ := hz
    generalize hk : halvings (-q) 64 0 = k at hz0 hz1 ⊢
    set z : ℚ := -q / 2 ^ k with hzdef
    have hn : 0 < expTerms := by unfold expTerms; omega
    have hlo1 : 1 ≤ taylorExp z expTerms := one_le_taylor z hz0 hn
    have hlo_pos : (0 : ℚ) < taylorExp z expTerms := by linarith
    have hL := taylor_lower z hz0 expTerms
    have hU := taylor_upper z hz0 hz1 hn
    have hexp_pos : 0 < Real.exp (z : ℝ) := Real.exp_pos _
    have hhi_pos : (0 : ℝ) < ((taylorExp z expTerms + taylorExpRem z expTerms : ℚ) : ℝ) :=
      lt_of_lt_of_le hexp_pos hU
    have hhi_posq : (0 : ℚ) < taylorExp z expTerms + taylorExpRem z expTerms := by exact_mod_cast hhi_pos
    -- enclosure of e = exp (-z)
    have he : Real.exp (-(z : ℝ)) = 1 / Real.exp z := by rw [Real.exp_neg]; simp
    have h1 : ((roundDown expDenom (1 / (taylorExp z expTerms + taylorExpRem z expTerms)) : ℚ) : ℝ)
        ≤ Real.exp (-(z : ℝ)) := by
      have a : ((roundDown expDenom (1 / (taylorExp z expTerms + taylorExpRem z expTerms)) : ℚ) : ℝ) ≤
          ((1 / (taylorExp z expTerms + taylorExpRem z expTerms) : ℚ) : ℝ) := by
        exact_mod_cast roundDown_le expDenom expDenom_pos _
      have b : ((1 / (taylorExp z expTerms + taylorExpRem z expTerms) : ℚ) : ℝ) ≤ 1 / Real.exp z := by
        push_cast
        exact one_div_le_one_div_of_le hexp_pos (by exact_mod_cast hU)
      rw [he]; exact le_trans a b
    have h2 : Real.exp (-(z : ℝ)) ≤ ((roundUp expDenom (1 / taylorExp z expTerms) : ℚ) : ℝ) := by
      have a : ((1 / taylorExp z expTerms : ℚ) : ℝ) ≤ ((roundUp expDenom (1 / taylorExp z expTerms) : ℚ) : ℝ) := by
        exact_mod_cast le_roundUp expDenom expDenom_pos _
      have b : 1 / Real.exp z ≤ ((1 / taylorExp z expTerms : ℚ) : ℝ) := by
        push_cast
        exact one_div_le_one_div_of_le (by exact_mod_cast hlo_pos) hL
      rw [he]; exact le_trans b a
    have h0 : 0 ≤ roundDown expDenom (1 / (taylorExp z expTerms + taylorExpRem z expTerms)) :=
      roundDown_nonneg _ _ (by positivity)
    have key := squareEnclosure_sound k _ _ (Real.exp (-(z : ℝ))) h0 h1 h2
    have hpow : Real.exp (-(z : ℝ)) ^ (2 ^ k) = Real.exp (q : ℝ) := by
      rw [← Real.exp_nat_mul]
      congr 1
      rw [hzdef]
      push_cast
      field_simp
    rw [hpow] at key
    exact key
  · refine ⟨le_refl _, ?_, ?_⟩
    · simpa using (Real.exp_pos (q : ℝ)).le
    · have : Real.exp (q : ℝ) ≤ 1 := Real.exp_le_one_iff.mpr (by exact_mod_cast hq)
      simpa using this

open Tdms.Generated Tdms.Model.Thermocouple in
/-- the enclosure of the complete forward value contains the real value `v + a0 · exp e` -/
theorem forwardEnclosure_sound (t : TcTable) (x v a0 e : ℚ) (hv : forwardPoly t x = some v)
    (he : forwardExp t x = some (a0, e)) (hneg : e ≤ 0) :
    ∃ l u : ℚ, forwardEnclosure t x = some (l, u) ∧
      (l : ℝ) ≤ (v : ℝ) + (a0 : ℝ) * Real.exp e ∧ (v : ℝ) + (a0 : ℝ) * Real.exp e ≤ (u : ℝ) := by
  obtain ⟨_, hl, hu⟩ := expEnclosure_sound e hneg
  unfold forwardEnclosure
  simp only [hv, he]
  by_cases ha : 0 ≤ a0
  · have ha' : (0 : ℝ) ≤ a0 := by exact_mod_cast ha
    refine ⟨v + a0 * (expEnclosure e).1, v + a0 * (expEnclosure e).2, by simp [ha], ?_, ?_⟩ <;>
      push_cast <;> nlinarith
  · have ha' : (a0 : ℝ) ≤ 0 := by exact_mod_cast (le_of_lt (not_le.mp ha))
    refine ⟨v + a0 * (expEnclosure e).2, v + a0 * (expEnclosure e).1, by simp [ha], ?_, ?_⟩ <;>
      push_cast <;> nlinarith

open Tdms.Generated Tdms.Model.Thermocouple in
/-- for type K the exponent `a1 (x − a2)²` is never positive, so the enclosure is always sound -/
theorem forwardExp_K_nonpos (x a0 e : ℚ) (he : forwardExp type_k x = some (a0, e)) : e ≤ 0 := by
  unfold forwardExp at he
  have hk : type_k.expTerm = some (148247 / 1250000, -147929 / 1250000000, 634843 / 5000) := by
    decide +kernel
  rw [hk] at he
  simp only at he
  split at he
  · simp only [Option.some.injEq, Prod.mk.injEq] at he
    rw [← he.2]
    have : 0 ≤ (x - 634843 / 5000) * (x - 634843 / 5000) := mul_self_nonneg _
    nlinarith
  · cases he

/-- Type K, boundary 0 °C, over the reals: the complete forward function jumps by at most 2e-9 mV
(lifting `C18.boundary_continuous_K_exp_partial`). -/
theorem boundary_K_real :
    |(17600413686 / 10 ^ 12 : ℝ) -
        (148247 / 1250000 : ℝ) * Real.exp (((-147929 / 1250000000 : ℚ) * ((0 - 634843 / 5000) * (0 - 634843 / 5000)) : ℚ))|
      ≤ 2 / 10 ^ 9 := by
  set q : ℚ := (-147929 / 1250000000 : ℚ) * ((0 - 634843 / 5000) * (0 - 634843 / 5000)) with hq
  have hq0 : q ≤ 0 := by rw [hq]; norm_num
  obtain ⟨_, hl, hu⟩ := expEnclosure_sound q hq0
  have e1 : -(2 / 10 ^ 9 : ℚ) ≤ 17600413686 / 10 ^ 12 - (148247 / 1250000 : ℚ) * (expEnclosure q).2 := by
    rw [hq]; decide +kernel
  have e2 : 17600413686 / 10 ^ 12 - (148247 / 1250000 : ℚ) * (expEnclosure q).1 ≤ (2 / 10 ^ 9 : ℚ) := by
    rw [hq]; decide +kernel
  have e1' := (Rat.cast_le (K := ℝ)).mpr e1
  have e2' := (Rat.cast_le (K := ℝ)).mpr e2
  push_cast at e1' e2'
  have m1 := mul_le_mul_of_nonneg_left hu (show (0 : ℝ) ≤ 148247 / 1250000 by norm_num)
  have m2 := mul_le_mul_of_nonneg_left hl (show (0 : ℝ) ≤ 148247 / 1250000 by norm_num)
  rw [abs_le]
  constructor <;> linarith

end Tdms.Proofs.C18

