/-
  C16 — the npTDMS object-path grammar: names → path → names is the identity,
  hence the path of an object determines the object.

  Headline theorems and non-vacuity examples only; helper lemmas are in `C16Lemmas`.
  `q` is the quote, `s` the slash; the only assumption ever made is `q ≠ s`.
-/
import Tdms.Model.Path
import TdmsProofs.Lemmas.C16Lemmas

namespace Tdms.Proofs.C16

open Tdms.Model.Path

variable {α : Type} [DecidableEq α]

/-! ### Component lists of any length -/

/-- `'/' + '/'.join([])` is `"/"`. -/
theorem root_path (q s : α) : componentsToPath q s ([] : List (List α)) = [s] :=
  rfl

/-- `list(_path_components('/' + '/'.join(quoted names))) == names`, for any number of
names of any length over any alphabet, including empty names and names consisting only
of quotes and slashes. -/
theorem path_roundtrip {q s : α} (h : q ≠ s) (comps : List (List α)) :
    pathComponents q s (componentsToPath q s comps) = .ok comps := by
  cases comps with
  | nil => simp [pathComponents, componentsToPath_nil, scan]
  | cons c cs =>
    rw [componentsToPath_cons, pathComponents, scan_segments h]
    rfl

/-- With at most one component `q ≠ s` is not needed. -/
theorem path_roundtrip_le_one (q s : α) (comps : List (List α)) (hlen : comps.length ≤ 1) :
    pathComponents q s (componentsToPath q s comps) = .ok comps := by
  match comps, hlen with
  | [], _ => simp [pathComponents, componentsToPath_nil, scan]
  | [c], _ => exact scan_single q s c

/-- Distinct component lists have distinct paths. -/
theorem path_injective {q s : α} (h : q ≠ s) {c₁ c₂ : List (List α)}
    (heq : componentsToPath q s c₁ = componentsToPath q s c₂) : c₁ = c₂ := by
  have h₁ := path_roundtrip h c₁
  rw [heq, path_roundtrip h c₂] at h₁
  exact (Except.ok.inj h₁).symm

/-! ### `ObjectPath`: root / group / channel -/

/-- `ObjectPath.from_string(ObjectPath(g, c).path)` is `(g, c)`. -/
theorem object_path_roundtrip {q s : α} (h : q ≠ s) (g c : List α) :
    fromString q s (pathOf q s (some g) (some c)) = .ok (some g, some c) := by
  simp [fromString, pathOf_channel, path_roundtrip h, objectPath]

/-- `ObjectPath.from_string(ObjectPath(g).path)` is `(g, None)`; no assumption on `q, s`. -/
theorem object_path_roundtrip_group (q s : α) (g : List α) :
    fromString q s (pathOf q s (some g) none) = .ok (some g, none) := by
  simp [fromString, pathOf_group, scan_single, objectPath]

/-- `ObjectPath.from_string(ObjectPath().path)` is `(None, None)`; no assumption on `q, s`. -/
theorem object_path_roundtrip_root (q s : α) :
    fromString q s (pathOf q s none none) = .ok ((none, none) : Option (List α) × _) := by
  simp [fromString, pathOf_root, path_roundtrip_le_one, objectPath]

/-- All three shapes at once: any `(group, channel)` that an `ObjectPath` can hold
(no channel without a group) round-trips. -/
theorem object_path_roundtrip_all {q s : α} (h : q ≠ s) (g c : Option (List α))
    (hwf : IsObjectPath g c) :
    fromString q s (pathOf q s g c) = .ok (g, c) := by
  match g, c, hwf with
  | some g, some c, _ => exact object_path_roundtrip h g c
  | some g, none, _ => exact object_path_roundtrip_group q s g
  | none, none, _ => exact object_path_roundtrip_root q s
  | none, some c, hwf => exact absurd (hwf rfl) (by simp)

/-- Root, group and channel paths never alias each other, nor two different groups,
nor two different channels: on well-formed `(group, channel)` pairs the path is injective. -/
theorem object_path_injective {q s : α} (h : q ≠ s) {g₁ c₁ g₂ c₂ : Option (List α)}
    (hwf₁ : IsObjectPath g₁ c₁) (hwf₂ : IsObjectPath g₂ c₂)
    (heq : pathOf q s g₁ c₁ = pathOf q s g₂ c₂) : (g₁, c₁) = (g₂, c₂) := by
  have h₁ := object_path_roundtrip_all h g₁ c₁ hwf₁
  rw [heq, object_path_roundtrip_all h g₂ c₂ hwf₂] at h₁
  exact (Except.ok.inj h₁).symm

/-- The same, spelled out shape by shape. -/
theorem object_path_injective_shapes {q s : α} (h : q ≠ s) (g g' c c' : List α) :
    (pathOf q s none none ≠ pathOf q s (some g) none) ∧
    (pathOf q s none none ≠ pathOf q s (some g) (some c)) ∧
    (pathOf q s (some g) none ≠ pathOf q s (some g') (some c')) ∧
    (pathOf q s (some g) none = pathOf q s (some g') none → g = g') ∧
    (pathOf q s (some g) (some c) = pathOf q s (some g') (some c') → g = g' ∧ c = c') := by
  have inj := fun {g₁ c₁ g₂ c₂} => @object_path_injective α _ q s h g₁ c₁ g₂ c₂
  refine ⟨fun e => ?_, fun e => ?_, fun e => ?_, fun e => ?_, fun e => ?_⟩
  · simpa using inj (by simp [IsObjectPath]) (by simp [IsObjectPath]) e
  · simpa using inj (by simp [IsObjectPath]) (by simp [IsObjectPath]) e
  · simpa using inj (by simp [IsObjectPath]) (by simp [IsObjectPath]) e
  · simpa using inj (by simp [IsObjectPath]) (by simp [IsObjectPath]) e
  · simpa using inj (by simp [IsObjectPath]) (by simp [IsObjectPath]) e

/-- The group of a path is recoverable without `q ≠ s`: group paths are injective and
differ from the root path for every alphabet. -/
theorem group_path_injective (q s : α) {g g' : List α}
    (heq : pathOf q s (some g) none = pathOf q s (some g') none) : g = g' := by
  have h₁ := object_path_roundtrip_group q s g
  rw [heq, object_path_roundtrip_group q s g'] at h₁
  simpa using (Except.ok.inj h₁).symm

theorem root_ne_group (q s : α) (g : List α) :
    pathOf q s none none ≠ pathOf q s (some g) none := by
  simp [pathOf, componentsToPath, join, quoted]

theorem root_ne_channel (q s : α) (g c : List α) :
    pathOf q s none none ≠ pathOf q s (some g) (some c) := by
  simp [pathOf, componentsToPath, join, quoted]

/-- Why `IsObjectPath` is needed: the bare Python function `_components_to_path` maps
`(None, c)` and `(c, None)` to the same string.  `ObjectPath` can never hold `(None, c)`. -/
theorem pathOf_none_some (q s : α) (c : List α) :
    pathOf q s none (some c) = pathOf q s (some c) none :=
  rfl

/-! ### Non-vacuity: concrete nasty names, computed -/

section Examples

-- The generator computes what Python computes.  (String-level examples use
-- `decide +kernel`: the proof term is still `of_decide_eq_true (Eq.refl true)` checked by
-- the kernel and adds nothing to the trusted base; it merely skips the elaborator's slow pre-evaluation of
-- `String.toList`/`String.ofList`.  List-level examples use plain `decide`.)
example : pathComponents '\'' '/' ['/', '\'', 'i', 't', '\'', '\'', 's', '\'', '/', '\'', 'a', '/', 'b', '\'']
    = .ok [['i', 't', '\'', 's'], ['a', '/', 'b']] := by decide
example : componentsToPath '\'' '/' [['\''], ['/'], [], ['\'', '\'']]
    = ['/', '\'', '\'', '\'', '\'', '/', '\'', '/', '\'', '/', '\'', '\'', '/', '\'', '\'', '\'', '\'', '\'', '\''] := by
  decide
example : componentsToPathStr ["it's", "a/b"] = "/'it''s'/'a/b'" := by decide +kernel
example : pathComponentsStr "/'it''s'/'a/b'" = .ok ["it's", "a/b"] := by decide +kernel
example : componentsToPathStr [] = "/" := by decide +kernel
example : componentsToPathStr [""] = "/''" := by decide +kernel
example : componentsToPathStr ["'"] = "/''''" := by decide +kernel
example : componentsToPathStr ["/"] = "/'/'" := by decide +kernel
example : componentsToPathStr ["''"] = "/''''''" := by decide +kernel
example : componentsToPathStr ["'/'"] = "/'''/'''" := by decide +kernel
example : componentsToPathStr ["'", "/", "", "'/'", "''"] = "/''''/'/'/''/'''/'''/''''''" := by
  decide +kernel
example : pathComponentsStr "/''''/'/'/''/'''/'''/''''''" = .ok ["'", "/", "", "'/'", "''"] := by
  decide +kernel
example : pathOfStr (some "'/'") (some "/'/") = "/'''/'''/'/''/'" := by decide +kernel
example : fromStringStr "/'''/'''/'/''/'" = .ok (some "'/'", some "/'/") := by decide +kernel
example : fromStringStr "/''" = .ok (some "", none) := by decide +kernel
example : fromStringStr "/" = .ok (none, none) := by decide +kernel
example : componentsToPathBytes [[0x27], [0x2f, 0x41]] =
    [0x2f, 0x27, 0x27, 0x27, 0x27, 0x2f, 0x27, 0x2f, 0x41, 0x27] := by decide
example : pathComponentsBytes [0x2f, 0x27, 0x27, 0x27, 0x27, 0x2f, 0x27, 0x2f, 0x41, 0x27] =
    .ok [[0x27], [0x2f, 0x41]] := by decide

-- the hypothesis `q ≠ s` holds for both concrete alphabets, so the theorems apply
example : qChar ≠ sChar := by decide
example : qByte ≠ sByte := by decide
example (comps : List (List Char)) :
    pathComponents qChar sChar (componentsToPath qChar sChar comps) = .ok comps :=
  path_roundtrip (by decide) comps

-- the three error cases (`ValueError`) are reachable
example : pathComponentsStr "a" = .error .expectedSlash := by decide +kernel
example : pathComponentsStr "/'a'x" = .error .expectedSlash := by decide +kernel
example : pathComponentsStr "/a" = .error .expectedQuote := by decide +kernel
example : pathComponentsStr "/'a'/b" = .error .expectedQuote := by decide +kernel
example : fromStringStr "/'a'/'b'/'c'" = .error .tooManyComponents := by decide +kernel
-- an error after a yielded component discards that component (`list(...)` raises)
example : pathComponentsStr "/'a'/'b'x" = .error .expectedSlash := by decide +kernel

-- silent exits (`StopIteration`): malformed paths the Python scanner accepts
example : pathComponentsStr "" = .ok [] := by decide +kernel                 -- empty string = root
example : pathComponentsStr "/'" = .ok [] := by decide +kernel               -- opening quote only
example : pathComponentsStr "/'abc" = .ok [] := by decide +kernel            -- unterminated name dropped
example : pathComponentsStr "/'a'/" = .ok ["a"] := by decide +kernel         -- trailing slash
example : pathComponentsStr "/'a'/'" = .ok ["a"] := by decide +kernel        -- trailing slash-quote
example : pathComponentsStr "/'a'/'b" = .ok ["a"] := by decide +kernel       -- unterminated channel dropped
example : pathComponentsStr "/'a''" = .ok [] := by decide +kernel            -- `''` read as escaped quote
example : fromStringStr "/'a'/'b" = .ok (some "a", none) := by decide +kernel -- a channel path read as a group

-- `q ≠ s` is necessary for `path_roundtrip` / `path_injective` / `object_path_injective`:
-- with quote = slash two different channels share a path, and the scanner misreads it
example : pathOf 'x' 'x' (some []) (some ['x']) = pathOf 'x' 'x' (some ['x']) (some []) := by
  decide
example : pathComponents 'x' 'x' (componentsToPath 'x' 'x' [[], []]) ≠ .ok [[], []] := by
  decide

end Examples

end Tdms.Proofs.C16
