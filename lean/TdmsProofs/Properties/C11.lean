import TdmsProofs.Lemmas.C11Lemmas
import TdmsProofs.Lemmas.C06Lemmas

/-!
# C11 — DAQmx raw data is decoded at the declared buffer, stride, offset and type

Theorems about `splitEvery`, `readRows`, `daqScalerValue`, `readDaqmxChunk`, `bufferDimensions`,
`daqmxBufferLengths`, `daqmxFinalChunkLengths` of `Tdms/Model/{Reader,Data}.lean`, against the spec's
`scalerValue`, `scalerByteOffset`, `encChunkDaqmx` (`Tdms/Spec/{Meaning,Format}.lean`).

A DAQmx chunk is the concatenation of raw buffers; buffer `b` is `n_b` rows of `w_b` bytes; a scaler names a
buffer, a byte (or bit) offset inside the row and a type.
-/

namespace Tdms.Proofs.C11

open Tdms Tdms.Model Tdms.Generated

/-! ## 1 — rows -/

/-- `splitEvery w n bytes` is the list of the first `min n (bytes.length / w)` consecutive `w`-byte rows:
    row `j` is `(bytes.drop (j * w)).take w`.  A truncated buffer yields only its complete rows. -/
theorem splitEvery_rows (w n : Nat) (bytes : Bytes) (hw : 0 < w) :
    splitEvery w n bytes = (List.range (min n (bytes.length / w))).map fun j => (bytes.drop (j * w)).take w :=
  Tdms.Proofs.C11.splitEvery_rows_aux w n bytes hw

/-- number of rows, and every row is complete -/
theorem splitEvery_rows_complete (w n : Nat) (bytes : Bytes) (hw : 0 < w) :
    (splitEvery w n bytes).length = min n (bytes.length / w) ∧ ∀ r ∈ splitEvery w n bytes, r.length = w := by
  rw [splitEvery_rows w n bytes hw]
  refine ⟨by simp, ?_⟩
  intro r hr
  obtain ⟨j, hj, rfl⟩ := List.mem_map.mp hr
  have hj' : j < bytes.length / w := by
    have := List.mem_range.mp hj; omega
  have : (j + 1) * w ≤ bytes.length := by
    calc (j + 1) * w ≤ (bytes.length / w) * w := Nat.mul_le_mul_right _ hj'
      _ ≤ bytes.length := Nat.div_mul_le_self _ _
  rw [List.length_take, List.length_drop, Nat.succ_mul] at *
  omega

/-! ## 2 — one scaler in one row -/

/-- the model decoder equals the spec: the bytes at the declared offset, in the declared type, in the segment's
    byte order; for digital lines the addressed bit.  `scalerOfSpec digital s ty` is the model scaler record with
    the fields of the spec scaler `s` (`ty` the TDMS type its DAQmx type code maps to); that `readScalers` produces
    this record from `encScaler` is parser round-trip, not shown here. -/
theorem daq_scaler_value_eq_spec (e : Endian) (digital : Bool) (s : ScalerEnc) (ty sz : Nat) (row : Bytes)
    (hty : daqmxTypeCode s.daqType = some ty) (hsz : typeSize ty = some sz)
    (hfit : scalerByteOffset digital s + sz ≤ row.length) :
    daqScalerValue e (scalerOfSpec digital s ty) row = .ok (Tdms.scalerValue e digital s row) :=
  daq_scaler_value_eq_spec_aux e digital s ty sz row hty hsz hfit

/-- a whole column: for rows as wide as the buffer declares (the spec's `wfIdx` demands
    `scalerByteOffset + size ≤ width`), the model's per-buffer decode of a scaler is exactly the value list the
    spec's `addDaqmxObj` appends, `rows.map (scalerValue e digital s)` -/
theorem daq_scaler_column_eq_spec (e : Endian) (digital : Bool) (s : ScalerEnc) (ty sz w : Nat) (rows : List Bytes)
    (hty : daqmxTypeCode s.daqType = some ty) (hsz : typeSize ty = some sz)
    (hrows : ∀ r ∈ rows, r.length = w) (hfit : scalerByteOffset digital s + sz ≤ w) :
    mapExcept (daqScalerValue e (scalerOfSpec digital s ty)) rows = .ok (rows.map (Tdms.scalerValue e digital s)) := by
  induction rows with
  | nil => rfl
  | cons r rs ih =>
    have h1 := daq_scaler_value_eq_spec e digital s ty sz r hty hsz (by rw [hrows r (by simp)]; exact hfit)
    have h2 := ih (fun x hx => hrows x (by simp [hx]))
    simp [mapExcept, h1, h2, bind, Except.bind, pure, Except.pure]

/-- outside the row (or for an unsized type) the model raises instead of inventing bytes -/
theorem daq_scaler_value_error (e : Endian) (sc : DaqScaler) (row : Bytes) :
    (typeSize sc.ty = none → daqScalerValue e sc row = .error .other) ∧
    (∀ sz, typeSize sc.ty = some sz →
      (if sc.digital then sc.offset / 8 else sc.offset) + sz > row.length →
      daqScalerValue e sc row = .error .other) := by
  refine ⟨fun h => by simp [daqScalerValue, h], ?_⟩
  intro sz h hgt
  simp only [daqScalerValue, h]
  rw [if_pos hgt]

/-! ## 3 — position of a value inside the chunk -/

/-- **value `j` of a scaler** living in the buffer `rows` (preceded by the buffers `pre`) is decoded from the `sz`
    bytes of the chunk at `start + j * w + byteOffset`, where `start = (encChunkDaqmx pre).length`
    (`= Σ_{b' < b} n_b' * w_b'`, see `buffer_start_eq`) -/
theorem daq_value_position (e : Endian) (sc : DaqScaler) (sz : Nat)
    (pre : List (List Bytes)) (rows : List Bytes) (post : List (List Bytes)) (w j : Nat)
    (hrows : ∀ r ∈ rows, r.length = w) (hj : j < rows.length)
    (hsz : typeSize sc.ty = some sz)
    (hfit : (if sc.digital then sc.offset / 8 else sc.offset) + sz ≤ w) :
    let chunk := encChunkDaqmx (pre ++ rows :: post)
    let pos := (encChunkDaqmx pre).length + j * w + (if sc.digital then sc.offset / 8 else sc.offset)
    let raw := (chunk.drop pos).take sz
    daqScalerValue e sc rows[j] =
      .ok (if sc.digital then encLE sz ((dec e raw / 2 ^ (sc.offset % 8)) % 2) else canonValue e sc.ty raw) := by
  intro chunk pos raw
  have hrow : rows[j] = (chunk.drop ((encChunkDaqmx pre).length + j * w)).take w :=
    (chunk_row_position pre rows post w j hrows hj).symm
  have hlen : rows[j].length = w := hrows _ (List.getElem_mem hj)
  have hraw : (rows[j].drop (if sc.digital then sc.offset / 8 else sc.offset)).take sz = raw := by
    rw [hrow, take_drop_take _ w _ sz hfit, List.drop_drop]
  have hnot : ¬ ((if sc.digital then sc.offset / 8 else sc.offset) + sz > rows[j].length) := by omega
  simp only [daqScalerValue, hsz]
  rw [if_neg hnot]
  simp only [hraw]
  cases sc.digital <;> simp

/-- the offset of buffer `b` is the sum of the sizes of the buffers before it -/
theorem buffer_start_eq (pre post : List (List Bytes)) (dims : List (Nat × Nat))
    (h : RowsConform (pre ++ post) dims) :
    (encChunkDaqmx pre).length = ((dims.take pre.length).map fun d => d.1 * d.2).sum :=
  buffer_start pre post dims h

/-- **the reader hands buffer `b` exactly the rows the format puts there**: on a file holding the encoded chunk at
    the current position, `readDaqmxChunk` equals feeding the spec's rows of buffer `b` to the scalers declared in
    buffer `b` (`feedRows`), for `b = 0, 1, …`, and leaves the file position at the end of the chunk -/
theorem readDaqmxChunk_reads_rows (file : Bytes) (s : Segment) (d : List SegObj) (chunkIndex : Nat)
    (dims : List (Nat × Nat)) (bufsRows : List (List Bytes)) (st : FState) (tail : Bytes)
    (hdims : bufferDimensions d = .ok dims)
    (hc : RowsConform bufsRows dims)
    (hf : file.drop st.pos = encChunkDaqmx bufsRows ++ tail) :
    let crop : Bytes → Option Nat := fun p => match s.override with
      | some ov => if chunkIndex + 1 = s.numChunks then some (overrideGet ov p) else none
      | none => none
    match feedRows s.endian crop d 0 bufsRows [] [] with
    | .error x => readDaqmxChunk file s d chunkIndex st = .error x
    | .ok (data, scal) => ∃ st', readDaqmxChunk file s d chunkIndex st = .ok (data ++ scal, st') ∧
        st'.pos = st.pos + (encChunkDaqmx bufsRows).length := by
  intro crop
  have h := bufs_reads_rows file s d crop bufsRows dims 0 [] [] st tail hc hf
  have hunf : readDaqmxChunk file s d chunkIndex st =
      match readDaqmxChunk.bufs file s d crop 0 dims [] [] st with
      | .ok ((data, scal), st') => .ok (data ++ scal, st')
      | .error x => .error x := by
    simp only [readDaqmxChunk, hdims, bind, StateT.bind, Except.bind, pure, StateT.pure, Except.pure]
    cases readDaqmxChunk.bufs file s d crop 0 dims [] [] st with
    | error x => rfl
    | ok v => obtain ⟨⟨data, scal⟩, st'⟩ := v; rfl
  cases hfeed : feedRows s.endian crop d 0 bufsRows [] [] with
  | error x =>
    simp only [hfeed] at h ⊢
    rw [hunf, h]
  | ok r =>
    obtain ⟨data, scal⟩ := r
    simp only [hfeed] at h ⊢
    obtain ⟨st', h1, h2⟩ := h
    exact ⟨st', by rw [hunf, h1], h2⟩

/-! ## 4 — buffer dimensions -/

/-- for data objects with identical width lists whose scalers name existing buffers, dimension `b` is
    (largest chunk size among the objects having a scaler in `b`, `width_b`) -/
theorem bufferDimensions_spec (objs : List SegObj) (first : DaqMeta) (rest : List DaqMeta)
    (hms : daqMetas objs = first :: rest)
    (hW : ∀ m ∈ daqMetas objs, m.widths = first.widths)
    (hb : ∀ m ∈ daqMetas objs, ∀ sc ∈ m.scalers, sc.buffer < first.widths.length) :
    ∃ dims, bufferDimensions objs = .ok dims ∧ dims.length = first.widths.length ∧
      (∀ b, dims[b]? = first.widths[b]?.map fun w => (dimN (daqMetas objs) b 0, w)) ∧
      (∀ b m, m ∈ daqMetas objs → hasScalerIn m.scalers b = true → m.chunkSize ≤ dimN (daqMetas objs) b 0) ∧
      (∀ b, dimN (daqMetas objs) b 0 = 0 ∨
        ∃ m ∈ daqMetas objs, hasScalerIn m.scalers b = true ∧ dimN (daqMetas objs) b 0 = m.chunkSize) := by
  obtain ⟨dims, h1, h2, h3⟩ := metaFold_spec first.widths (daqMetas objs) (first.widths.map fun w => (0, w)) hW
    (by simpa using hb)
  refine ⟨dims, ?_, by simpa using h2, ?_, ?_, ?_⟩
  · rw [bufferDimensions_unfold, hms]
    simp only
    rw [← hms]; exact h1
  · intro b
    rw [h3 b, List.getElem?_map]
    cases first.widths[b]? <;> simp
  · intro b m hm hs; exact dimN_ge _ b 0 m hm hs
  · intro b; exact dimN_attained _ b 0

/-- the DAQmx chunk size is `Σ_b n_b * w_b` -/
theorem daqmx_chunk_size (objs : List SegObj) (dims : List (Nat × Nat))
    (hq : haveDaqmxObjects objs = .ok true) (hdims : bufferDimensions objs = .ok dims) :
    chunkSize objs = .ok (dims.map fun d => d.1 * d.2).sum := by
  simp [chunkSize, hq, hdims, bind, Except.bind, pure, Except.pure]

/-! ## 5 — truncated final chunk -/

/-- **buffer lengths of a truncated chunk**: one entry per buffer; buffer `b` keeps
    `min n_b ((r - start_b) / w_b)` rows — all of them while bytes remain, then the complete rows of the buffer that
    contains byte `r`, then `0`.  Sound (`Σ len_b * w_b ≤ r`, `len_b ≤ n_b`) and complete (no buffer could hold one
    more row). -/
theorem daqmxBufferLengths_spec (pre : List (Nat × Nat)) (n w : Nat) (post : List (Nat × Nat)) (r : Nat)
    (hw : 0 < w) :
    let dims := pre ++ (n, w) :: post
    let lens := daqmxBufferLengths dims r
    let len := lens.getD pre.length 0
    lens.length = dims.length ∧
    len = min n ((r - dimsBytes pre) / w) ∧
    len ≤ n ∧ len * w ≤ r - dimsBytes pre ∧
    (len = n ∨ r - dimsBytes pre < (len + 1) * w) ∧
    (List.zipWith (fun d l => l * d.2) dims lens).sum ≤ r := by
  intro dims lens len
  have hlen : len = min n ((r - dimsBytes pre) / w) := daqmxBufferLengths_getD pre n w post r hw
  refine ⟨daqmxBufferLengths_length _ _, hlen, ?_, ?_, ?_, daqmxBufferLengths_used_le _ _⟩
  · rw [hlen]; exact Nat.min_le_left _ _
  · rw [hlen]
    calc min n ((r - dimsBytes pre) / w) * w ≤ ((r - dimsBytes pre) / w) * w :=
          Nat.mul_le_mul_right _ (Nat.min_le_right _ _)
      _ ≤ r - dimsBytes pre := Nat.div_mul_le_self _ _
  · rw [hlen]; exact Tdms.Proofs.C06.fit_maximal _ _ _ hw

/-- **final length of every object** = the minimum, over the buffers its scalers live in, of the buffer lengths -/
theorem daqmx_final_length_spec (objs : List SegObj) (r : Nat) (dims : List (Nat × Nat))
    (hdims : bufferDimensions objs = .ok dims)
    (hsc : ∀ o ∈ objs, o.hasData = true → ∀ m, o.daq = some m → m.scalers ≠ []) :
    daqmxFinalChunkLengths objs r = .ok ((objs.filter (·.hasData)).filterMap fun o =>
      o.daq.map fun m => (o.path, objFinalLen (daqmxBufferLengths dims r) m)) ∧
    (∀ m sc, sc ∈ m.scalers → objFinalLen (daqmxBufferLengths dims r) m ≤ (daqmxBufferLengths dims r).getD sc.buffer 0) ∧
    (∀ m, m.scalers ≠ [] →
      ∃ sc ∈ m.scalers, objFinalLen (daqmxBufferLengths dims r) m = (daqmxBufferLengths dims r).getD sc.buffer 0) :=
  ⟨daqmxFinalChunkLengths_spec objs r dims hdims hsc,
   fun m sc h => objFinalLen_le _ m sc h,
   fun m h => objFinalLen_attained _ m h⟩

/-! ## 6 — digital lines -/

/-- for 1-byte scaler types a digital line's value is bit `offset % 8` of byte `offset / 8` of the row -/
theorem digital_line_bit (e : Endian) (sc : DaqScaler) (row : Bytes)
    (hd : sc.digital = true) (hsz : typeSize sc.ty = some 1) (hfit : sc.offset / 8 < row.length) :
    daqScalerValue e sc row =
      .ok [if (row[sc.offset / 8]'hfit).toNat.testBit (sc.offset % 8) then 1 else 0] :=
  digital_line_bit_aux e sc row hd hsz hfit

/-! ## non-vacuity -/

section Examples

/-- 7 bytes in rows of 2: three complete rows, the odd byte is dropped -/
example : splitEvery 2 5 [1, 2, 3, 4, 5, 6, 7] = [[1, 2], [3, 4], [5, 6]] := by decide
/-- at most `n` rows -/
example : splitEvery 2 2 [1, 2, 3, 4, 5, 6, 7] = [[1, 2], [3, 4]] := by decide

/-- an Int16 scaler (DAQmx type 3 ↦ TDMS type 2) at byte offset 2 of a 4-byte row, little and big endian -/
private def scI16 : ScalerEnc := ⟨3, 0, 2, 0, 7⟩
example : daqmxTypeCode scI16.daqType = some 2 := by decide
example : typeSize 2 = some 2 := by decide
example : (daqScalerValue .little (scalerOfSpec false scI16 2) [0xAA, 0xBB, 0x34, 0x12]).toOption = some [0x34, 0x12] := by
  decide
example : (daqScalerValue .big (scalerOfSpec false scI16 2) [0xAA, 0xBB, 0x12, 0x34]).toOption = some [0x34, 0x12] := by
  decide
/-- digital line, bit 10 = bit 2 of byte 1 (0x04) -/
example : (daqScalerValue .little ⟨0, 5, 0, 10, 0, true⟩ [0x00, 0x04]).toOption = some [1] := by decide
example : (daqScalerValue .little ⟨0, 5, 0, 9, 0, true⟩ [0x00, 0x04]).toOption = some [0] := by decide

/-- two buffers of (3 rows × 4 bytes) and (2 rows × 2 bytes); 14 bytes remain: 3 rows, then 1 row -/
example : daqmxBufferLengths [(3, 4), (2, 2)] 14 = [3, 1] := by decide
example : daqmxBufferLengths [(3, 4), (2, 2)] 12 = [3, 0] := by decide
example : daqmxBufferLengths [(3, 4), (2, 2)] 7 = [1, 0] := by decide

private def mA : DaqMeta := ⟨3, [4, 2], [⟨0, 2, 0, 0, 0, false⟩, ⟨1, 2, 1, 0, 0, false⟩]⟩
private def mB : DaqMeta := ⟨2, [4, 2], [⟨0, 2, 1, 0, 0, false⟩]⟩
private def objA : SegObj := { path := [1], numberValues := 3, hasData := true, dataType := some 0xFFFFFFFF, daq := some mA }
private def objB : SegObj := { path := [2], numberValues := 2, hasData := true, dataType := some 2, daq := some mB }
example : (bufferDimensions [objA, objB]).toOption = some [(3, 4), (3, 2)] := by decide
example : (chunkSize [objA, objB]).toOption = some 18 := by decide
example : (daqmxFinalChunkLengths [objA, objB] 14).toOption = some [([1], 1), ([2], 1)] := by decide

end Examples

end Tdms.Proofs.C11
