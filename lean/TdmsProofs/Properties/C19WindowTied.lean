/-
  C19 — the window planner whose I/O the bound theorems (`window_io_bound`, `window_plan_in_segment`) speak about is the
  function the current source defines: the ties proved for C04 are registered here as obligations of C19 as well, so that a
  change to `TdmsReader.read_raw_data_for_channel` / `TdmsSegment.read_raw_data_for_channel` that leaves the returned
  values intact but reads more of the file still breaks an obligation of this property.
-/
import TdmsProofs.Properties.C04Tied
import TdmsProofs.Properties.C04SegTied

namespace Tdms.Proofs.C19WindowTied

theorem read_raw_data_for_channel_tied : type_of% @Tdms.Proofs.C04Tied.read_raw_data_for_channel_tied := @Tdms.Proofs.C04Tied.read_raw_data_for_channel_tied

theorem trim_channel_chunk_tied : type_of% @Tdms.Proofs.C04Tied.trim_channel_chunk_tied := @Tdms.Proofs.C04Tied.trim_channel_chunk_tied

theorem segment_read_raw_data_for_channel_tied : type_of% @Tdms.Proofs.C04SegTied.segment_read_raw_data_for_channel_tied := @Tdms.Proofs.C04SegTied.segment_read_raw_data_for_channel_tied

theorem segReadChannel_plan : type_of% @Tdms.Proofs.C04SegTied.segReadChannel_plan := @Tdms.Proofs.C04SegTied.segReadChannel_plan

end Tdms.Proofs.C19WindowTied
