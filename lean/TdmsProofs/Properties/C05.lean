import TdmsProofs.Lemmas.C05Example
import TdmsProofs.Lemmas.C05ChunkLocal

/-!
# C05 — reads from an open file are independent of earlier reads

Headline theorems about `Tdms.Model.step` (`Tdms/Model/Lazy.lean`).  Vocabulary (all defined in
`TdmsProofs/Lemmas/C05*.lean`):

* `resultOf m st`  — the value (or error) of running the I/O action `m` from file state `st`;
* `run f st ops`   — the open-file state after the history `ops`;
* `SameIO s₁ s₂`   — same caches, same iterators (file position and trace arbitrary);
* `CacheSound f c` — every cache entry agrees with an uncached read for every index in its bounds;
* `ChunkLocal f`   — every index inside the chunk returned for `j₀` is served by that same chunk;
* `nextOuts id ops outs` — the outputs of the `.next id` operations of a history.
-/

namespace Tdms.Proofs.C05

open Tdms Tdms.Model Tdms.Generated

/-! ## 1. every operation seeks before it reads -/

/-- The value (or error) of each of the five file-touching operations is the same from ANY two file
    states (position and trace): every path seeks absolutely before its first read or does no I/O. -/
theorem operations_position_independent (f : OpenFile) (st₁ st₂ : FState) :
    (∀ p off len, resultOf (channelReadData f p off len) st₁ = resultOf (channelReadData f p off len) st₂) ∧
    (∀ p a b c, resultOf (channelReadSlice f p a b c) st₁ = resultOf (channelReadSlice f p a b c) st₂) ∧
    (∀ p cache i, resultOf (channelReadAtIndex f p cache i) st₁ = resultOf (channelReadAtIndex f p cache i) st₂) ∧
    (∀ fuel it, resultOf (chanIterNext f fuel it) st₁ = resultOf (chanIterNext f fuel it) st₂) ∧
    (∀ fuel it, resultOf (fileIterNext f fuel it) st₁ = resultOf (fileIterNext f fuel it) st₂) :=
  ⟨fun p off len => posIndep_iff.1 (posIndep_channelReadData f p off len) _ _,
   fun p a b c => posIndep_iff.1 (posIndep_channelReadSlice f p a b c) _ _,
   fun p cache i => posIndep_iff.1 (posIndep_channelReadAtIndex f p cache i) _ _,
   fun fuel it => posIndep_iff.1 (posIndep_chanIterNext f fuel it) _ _,
   fun fuel it => posIndep_iff.1 (posIndep_fileIterNext f fuel it) _ _⟩

/-- The eager reader is position independent as well. -/
theorem eager_read_position_independent (file : Bytes) (segs : List Segment) (st₁ st₂ : FState) :
    resultOf (readRawDataAll file segs) st₁ = resultOf (readRawDataAll file segs) st₂ :=
  posIndep_iff.1 (posIndep_readRawDataAll file segs) _ _

/-! ## 2. one step -/

/-- The output of an operation, the new caches and the new iterator states do not depend on the
    file position or trace left behind by earlier operations. -/
theorem step_output_independent_of_io (f : OpenFile) (st : OpenState) (io' : FState) (op : Op) :
    (step f { st with io := io' } op).2 = (step f st op).2 ∧
    (step f { st with io := io' } op).1.caches = (step f st op).1.caches ∧
    (step f { st with io := io' } op).1.iters = (step f st op).1.iters := by
  have h := step_sameIO f (SameIO.withIO st io') op
  exact ⟨h.1, h.2.1, h.2.2⟩

/-- Whole histories: two states with the same caches and iterators produce the same outputs. -/
theorem runOps_independent_of_io (f : OpenFile) (st : OpenState) (io' : FState) (ops : List Op) :
    runOps f { st with io := io' } ops = runOps f st ops :=
  runOps_sameIO f ops (SameIO.withIO st io')

/-! ## 3. history independence -/

/-- After ANY history, an `index`/`slice`/`read` returns what it returns on a state with the same
    caches and a fresh file position. -/
theorem history_independent (f : OpenFile) (ops : List Op) (op : Op) :
    (step f (run f {} ops) op).2 = (step f { caches := (run f {} ops).caches, iters := (run f {} ops).iters } op).2 :=
  (step_sameIO f (s₁ := run f {} ops) (s₂ := { caches := (run f {} ops).caches, iters := (run f {} ops).iters })
    ⟨rfl, rfl⟩ op).1

/-- `slice` does not consult any state: after ANY history (from ANY state) it returns what it returns
    on a freshly opened file. -/
theorem slice_history_independent (f : OpenFile) (st : OpenState) (ops : List Op) (p : Bytes) (a b c : Option Int) :
    (step f (run f st ops) (.slice p a b c)).2 = (step f {} (.slice p a b c)).2 := by
  rw [step_slice, step_slice]
  have := runF_val (posIndep_channelReadSlice f p a b c) (run f st ops) {}
  revert this
  generalize runF (run f st ops) (channelReadSlice f p a b c) = r₁
  generalize runF ({} : OpenState) (channelReadSlice f p a b c) = r₂
  intro h
  match r₁, r₂, h with
  | .ok (v, _), .ok (v', _), h => have : v = v' := h; subst this; rfl
  | .error e, .error e', h => have : e = e' := h; subst this; rfl

/-- `read` does not consult any state either. -/
theorem read_history_independent (f : OpenFile) (st : OpenState) (ops : List Op) (p : Bytes) (off : Int)
    (len : Option Int) :
    (step f (run f st ops) (.read p off len)).2 = (step f {} (.read p off len)).2 := by
  rw [step_read, step_read]
  have := runF_val (posIndep_channelReadData f p off len) (run f st ops) {}
  revert this
  generalize runF (run f st ops) (channelReadData f p off len) = r₁
  generalize runF ({} : OpenState) (channelReadData f p off len) = r₂
  intro h
  match r₁, r₂, h with
  | .ok (v, _), .ok (v', _), h => have : v = v' := h; subst this; rfl
  | .error e, .error e', h => have : e = e' := h; subst this; rfl

/-- The cache-soundness invariant holds initially and is preserved by every operation, given chunk
    locality of the file. -/
theorem cache_sound_invariant (f : OpenFile) (hloc : ChunkLocal f) :
    CacheSound f ({} : OpenState).caches ∧
    (∀ st op, CacheSound f st.caches → CacheSound f (step f st op).1.caches) ∧
    (∀ ops, CacheSound f (run f {} ops).caches) :=
  ⟨cacheSound_nil f, fun st op hs => step_preserves_cacheSound f hloc st hs op,
   fun ops => run_preserves_cacheSound f hloc ops {} (cacheSound_nil f)⟩

/-- With a sound cache an index read returns what it returns on a freshly opened file. -/
theorem index_independent_of_sound_cache (f : OpenFile) (st : OpenState) (hs : CacheSound f st.caches)
    (p : Bytes) (i : Int) : (step f st (.index p i)).2 = (step f {} (.index p i)).2 :=
  step_index_out_of_sound f st hs p i

/-- `index` is history independent for every file that satisfies `ChunkLocal f`.  PARTIAL with respect
    to DAQmx data: `ChunkLocal f` is proved below for well-formed files without DAQmx segments
    (`chunk_local_of_wf`); the missing lemma is `ChunkLocal f` for files with DAQmx segments. -/
theorem index_history_independent_partial (f : OpenFile) (hloc : ChunkLocal f) (ops : List Op) (p : Bytes) (i : Int) :
    (step f (run f {} ops) (.index p i)).2 = (step f {} (.index p i)).2 :=
  step_index_out_of_sound f _ (run_preserves_cacheSound f hloc ops {} (cacheSound_nil f)) p i

/-- Chunk locality holds for well-formed files without DAQmx data (`IndexWF`: no DAQmx segment,
    interleaved segments have no truncated final chunk, paths are unique within a segment, truncated
    final chunks are not longer than full ones, `len(channel)` does not exceed the index). -/
theorem chunk_local_of_wf (f : OpenFile) (hwf : IndexWF f) : ChunkLocal f := chunkLocal_of_wf f hwf

/-- **`index` is history independent** for well-formed files without DAQmx data: after ANY history
    an index read returns what it returns on a freshly opened file, whatever the cache holds. -/
theorem index_history_independent (f : OpenFile) (hwf : IndexWF f) (ops : List Op) (p : Bytes) (i : Int) :
    (step f (run f {} ops) (.index p i)).2 = (step f {} (.index p i)).2 :=
  index_history_independent_partial f (chunkLocal_of_wf f hwf) ops p i

/-! ## 4. iterators -/

/-- **Iterator completeness.**  Along ANY history (other reads, `next` on other iterators, creation of
    new iterators interleaved arbitrarily) the outputs of `next id₁` are exactly the outputs of an
    uninterrupted sequence of `next` on an iterator in the same iterator state in any other state. -/
theorem iterator_complete (f : OpenFile) (ops : List Op) (s₁ s₂ : OpenState) (id₁ id₂ : Nat)
    (h : s₁.iters[id₁]? = s₂.iters[id₂]?) (h1 : id₁ < s₁.iters.length) :
    nextOuts id₁ ops (runOps f s₁ ops) = runOps f s₂ (List.replicate (nextCount id₁ ops) (.next id₂)) :=
  nextOuts_eq f ops s₁ s₂ id₁ id₂ h h1

/-- A channel iterator created after ANY history `pre` and then advanced along ANY history `ops`
    yields what a fresh, uninterrupted iterator on a freshly opened file yields. -/
theorem chan_iterator_complete_fresh (f : OpenFile) (pre ops : List Op) (p : Bytes) :
    nextOuts (run f {} pre).iters.length ops (runOps f (step f (run f {} pre) (.newChanIter p)).1 ops) =
      runOps f (step f {} (.newChanIter p)).1
        (List.replicate (nextCount (run f {} pre).iters.length ops) (.next 0)) := by
  apply nextOuts_eq
  · rw [step_newChanIter, step_newChanIter]
    simp
  · rw [step_newChanIter]
    simp

/-- The same for `TdmsFile.data_chunks()`. -/
theorem file_iterator_complete_fresh (f : OpenFile) (pre ops : List Op) :
    nextOuts (run f {} pre).iters.length ops (runOps f (step f (run f {} pre) .newFileIter).1 ops) =
      runOps f (step f {} .newFileIter).1
        (List.replicate (nextCount (run f {} pre).iters.length ops) (.next 0)) := by
  apply nextOuts_eq
  · rw [step_newFileIter, step_newFileIter]
    simp
  · rw [step_newFileIter]
    simp

/-! ## 5. non-vacuity on a concrete file -/

/-- the operations really return data (and the iterator really is interleaved with other reads) -/
example :
    runOps exFile {} [.newChanIter exB, .read exA 1 (some 2), .next 0, .index exB 3, .next 0, .index exB 2,
                      .slice exA none none (some (-1)), .next 0] =
      [.iterId 0, .readOut (some { data := some [[2], [3]] }), .chanChunk { data := some [[11], [12]] } 0,
       .value [14], .chanChunk { data := some [[13], [14]] } 2, .value [13],
       .values [[4], [3], [2], [1]], .stop] := by decide +kernel

/-- the projection of the interleaved history is the uninterrupted iterator -/
example :
    nextOuts 0 [.newChanIter exA, .read exA 1 (some 2), .next 0, .index exB 3, .next 0, .index exB 2, .next 0]
        (runOps exFile { iters := [.chan (newChanIter exFile exB)] }
          [.newChanIter exA, .read exA 1 (some 2), .next 0, .index exB 3, .next 0, .index exB 2, .next 0]) =
      [.chanChunk { data := some [[11], [12]] } 0, .chanChunk { data := some [[13], [14]] } 2, .stop] := by
  decide +kernel

/-- the file position really differs between the two sides of `history_independent` -/
example : (run exFile {} [.read exA 1 (some 2)]).io.pos = 36 ∧ ({} : OpenState).io.pos = 0 := by decide +kernel

/-- the cache really is populated and hit: the second index read performs no I/O -/
example :
    (run exFile {} [.index exB 3]).caches = [(exB, ⟨2, 4, [[13], [14]]⟩)] ∧
    (run exFile {} [.index exB 3, .index exB 2]).io = (run exFile {} [.index exB 3]).io := by decide +kernel

/-- the concrete file satisfies the well-formedness hypothesis of `index_history_independent` -/
example : IndexWF exFile := by
  have hseg : ∀ s ∈ exFile.segments, s = exFile.segments[0] := by
    intro s hs
    simp only [exFile, List.mem_singleton] at hs
    exact hs
  have hkind : dataReaderKind exFile.segments[0] = .ok .contiguous := by rfl
  refine ⟨?_, ?_, ?_, ?_, ?_, ?_⟩
  · intro s hs; rw [hseg s hs, hkind]; intro h; cases h
  · intro s hs; rw [hseg s hs, hkind]; intro h; cases h
  · intro s hs o ho o' ho' hp
    rw [hseg s hs] at ho ho'
    simp only [exFile, List.getElem_cons_zero, List.mem_cons, List.not_mem_nil, or_false] at ho ho'
    rcases ho with rfl | rfl <;> rcases ho' with rfl | rfl <;> first | rfl | exact absurd hp (by decide)
  · intro s hs ov hov; rw [hseg s hs] at hov; cases hov
  · intro s hs ov hov; rw [hseg s hs] at hov; cases hov
  · intro p
    by_cases ha : p = exA
    · subst ha; decide +kernel
    · by_cases hb : p = exB
      · subst hb; decide +kernel
      · have : chanLen exFile p = 0 := by
          have ha' : ¬ exA = p := fun h => ha h.symm
          have hb' : ¬ exB = p := fun h => hb h.symm
          simp [chanLen, exFile, ObjMetas.get, List.find?, ha', hb']
        rw [this]; exact Nat.zero_le _

end Tdms.Proofs.C05
