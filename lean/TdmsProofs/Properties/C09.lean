import TdmsProofs.Lemmas.LeadInLoopLemmas

/-!
# C09 — positions when an index file is read

`readMetadataLoop` walks two positions: `filePos` in the file being parsed (the `.tdms_index` file or the data
file) and `segPos`, the position of the segment *in the data file*.  When an index file is parsed the file position
advances by the lead-in and the metadata only (`28 + rawDataOffset`), while the segment position advances to
`nextSegmentPos` — exactly as when the data file itself is parsed.
-/

namespace Tdms.Proofs.C09

open Tdms Tdms.Model Tdms.Generated Tdms.Proofs.LeadIn

/-- **one iteration** (`loopStep` is the body of `readMetadataLoop`, see `readMetadataLoop_succ`): if it
    continues, a lead-in was parsed at `(file.drop filePos)` for segment position `segPos`, a segment with that
    position was appended, the next segment position is the lead-in's `nextSegmentPos`, and the next file position
    is `filePos + 28 + rawDataOffset` for an index file and `nextSegmentPos` for a data file -/
theorem index_step_positions (file : Bytes) (isIndex : Bool) (dfs : Option Nat) (fp sp fp' sp' : Nat)
    (st st' : ReaderState) (h : loopStep file isIndex dfs fp sp st = .ok (.next fp' sp' st')) :
    ∃ li seg, readLeadIn (file.drop fp) sp isIndex dfs = .ok (some li) ∧
      st'.segments = st.segments ++ [seg] ∧ seg.position = sp ∧
      seg.nextSegmentPos = li.nextSegmentPos ∧ seg.dataPosition = li.dataPosition ∧
      sp' = seg.nextSegmentPos ∧
      li.dataPosition = sp + 28 + liRawOff (file.drop fp) ∧
      fp' = (if isIndex then fp + 28 + liRawOff (file.drop fp) else seg.nextSegmentPos) ∧
      (isIndex = true → fp' = fp + (seg.dataPosition - seg.position)) := by
  obtain ⟨li, seg, h1, h2, h3, h4, h5, h6, h7, _, _⟩ := loopStep_next _ _ _ _ _ _ _ _ _ h
  have hdp : li.dataPosition = sp + 28 + liRawOff (file.drop fp) := (readLeadIn_some_inv _ _ _ _ _ h1).2.2.1
  refine ⟨li, seg, h1, h4, h5, h6, h7, by rw [h2, h6], hdp, ?_, ?_⟩
  · rw [h3, hdp, h6]; cases isIndex <;> simp <;> omega
  · intro hi; rw [h3, hi, h7, h5]; rfl

/-- `k` consecutive iterations that all continue, with the raw-data offsets and the segment ends they met -/
inductive Steps (file : Bytes) (isIndex : Bool) (dfs : Option Nat) :
    Nat → Nat → ReaderState → List (Nat × Nat) → Nat → Nat → ReaderState → Prop
  | nil (fp sp st) : Steps file isIndex dfs fp sp st [] fp sp st
  | cons {fp sp st fp₁ sp₁ st₁ offs fp₂ sp₂ st₂} :
      loopStep file isIndex dfs fp sp st = .ok (.next fp₁ sp₁ st₁) →
      Steps file isIndex dfs fp₁ sp₁ st₁ offs fp₂ sp₂ st₂ →
      Steps file isIndex dfs fp sp st ((liRawOff (file.drop fp), sp₁ - sp - 28) :: offs) fp₂ sp₂ st₂

/-- running the loop over `k` continuing iterations consumes `k` units of fuel and nothing else -/
theorem readMetadataLoop_steps {file : Bytes} {isIndex : Bool} {dfs : Option Nat}
    {fp sp : Nat} {st : ReaderState} {offs : List (Nat × Nat)} {fp' sp' : Nat} {st' : ReaderState}
    (h : Steps file isIndex dfs fp sp st offs fp' sp' st') (fuel : Nat) :
    readMetadataLoop file isIndex dfs (fuel + offs.length) fp sp st =
      readMetadataLoop file isIndex dfs fuel fp' sp' st' := by
  induction h with
  | nil => rfl
  | cons hstep _ ih =>
    rw [List.length_cons, ← Nat.add_assoc, readMetadataLoop_succ, hstep]
    exact ih

/-- **positions after `k` segments**: reading an index file, the file position is `Σ_j (28 + rawOff_j)` and the
    segment position is `Σ_j (28 + nextOff_j)` past the starting ones, where `nextOff_j` is the distance to the next
    segment the lead-in resolved to (the declared offset for a complete segment); the `k` appended segments sit at
    the partial sums of `28 + nextOff_j`.  Reading the data file itself (`isIndex = false`, `fp = sp`) the file
    position *is* the segment position — so the segments get the same positions either way. -/
theorem index_positions {file : Bytes} {isIndex : Bool} {dfs : Option Nat}
    {fp sp : Nat} {st : ReaderState} {offs : List (Nat × Nat)} {fp' sp' : Nat} {st' : ReaderState}
    (h : Steps file isIndex dfs fp sp st offs fp' sp' st') :
    sp' = sp + (offs.map fun o => 28 + o.2).sum ∧
    (isIndex = true → fp' = fp + (offs.map fun o => 28 + o.1).sum) ∧
    (isIndex = false → fp = sp → fp' = sp') ∧
    ∃ segs : List Segment, st'.segments = st.segments ++ segs ∧ segs.length = offs.length ∧
      ∀ j (hj : j < segs.length), segs[j].position = sp + ((offs.take j).map fun o => 28 + o.2).sum := by
  induction h with
  | nil fp sp st => exact ⟨by simp, by simp, fun _ h => h, [], by simp, rfl, by simp⟩
  | @cons fp sp st fp₁ sp₁ st₁ offs fp₂ sp₂ st₂ hstep _ ih =>
    obtain ⟨i1, i2, i3, segs, i4, i5, i6⟩ := ih
    obtain ⟨li, seg, g1, g2, g3, g4, g5, g6, g7, g8, g9⟩ := index_step_positions _ _ _ _ _ _ _ _ _ hstep
    have hprog := (loopStep_progress _ _ _ _ _ _ _ _ _ hstep).1
    refine ⟨?_, ?_, ?_, seg :: segs, ?_, by simp [i5], ?_⟩
    · rw [i1]; simp only [List.map_cons, List.sum_cons]; omega
    · intro hi
      rw [i2 hi, g8, hi]; simp only [List.map_cons, List.sum_cons, if_true]; omega
    · intro hi hfs
      apply i3 hi
      rw [g8, hi, g6]; simp
    · rw [i4, g2]; simp
    · intro j hj
      cases j with
      | zero => simp [g3]
      | succ j =>
        simp only [List.getElem_cons_succ, List.take_succ_cons, List.map_cons, List.sum_cons]
        rw [i6 j (by simpa using hj)]; omega

/-- a complete segment inside the data file: the resolved distance is the declared next-segment offset -/
theorem complete_segment_offset (bytes : Bytes) (p : Nat) (isIndex : Bool) (dfs : Option Nat) (li : LeadIn)
    (h : readLeadIn bytes p isIndex dfs = .ok (some li)) (hc : li.incomplete = false) :
    li.nextSegmentPos = p + liNextOff bytes + 28 ∧ li.dataPosition = p + 28 + liRawOff bytes := by
  obtain ⟨_, _, h1, _, _, h2⟩ := readLeadIn_some_inv _ _ _ _ _ h
  exact ⟨h2 hc, h1⟩

/-- for a complete segment the second component recorded by `Steps` is the declared next-segment offset -/
theorem complete_step_offset (file : Bytes) (isIndex : Bool) (dfs : Option Nat) (fp sp fp' sp' : Nat)
    (st st' : ReaderState) (h : loopStep file isIndex dfs fp sp st = .ok (.next fp' sp' st')) :
    ∃ seg, st'.segments = st.segments ++ [seg] ∧
      (seg.incomplete = false → sp' - sp - 28 = liNextOff (file.drop fp)) := by
  obtain ⟨li, seg, h1, h2, _, h4, _, _, _, h8, _⟩ := loopStep_next _ _ _ _ _ _ _ _ _ h
  refine ⟨seg, h4, ?_⟩
  intro hc
  have := (complete_segment_offset _ _ _ _ _ h1 (by rw [← h8]; exact hc)).1
  omega

/-- **index only, length unknown**: the `2^64 - 1` marker cannot be resolved without the size of the data file;
    the library raises (`TypeError` in Python: comparison with `None`) -/
theorem index_only_unknown_length (bytes : Bytes) (p : Nat) (isIndex : Bool)
    (hlen : 28 ≤ bytes.length) (htag : bytes.take 4 = (if isIndex then tagIndex else tagData))
    (hoff : liNextOff bytes = 2 ^ 64 - 1) :
    readLeadIn bytes p isIndex none = .error .other := by
  rw [readLeadIn_eq bytes p isIndex none hlen htag]
  simp only [hoff, if_true]

/-! ## non-vacuity -/

section Examples

/-- an index-file lead-in: tag `TDSh`, ToC = 0 (no metadata, little endian), version 4713, next segment
    offset 100, raw data offset 20 -/
private def leadIn (nextOff rawOff : Nat) : Bytes :=
  tagIndex ++ encLE 4 0 ++ encLE 4 4713 ++ encLE 8 nextOff ++ encLE 8 rawOff

example : liNextOff (leadIn 100 20) = 100 ∧ liRawOff (leadIn 100 20) = 20 := by decide
/-- index only: positions are taken on trust -/
example : (readLeadIn (leadIn 100 20) 7 true none).toOption =
    some (some ⟨0, 4713, 7 + 28 + 20, 7 + 100 + 28, false⟩) := by decide
/-- with the data file: a segment running past the end of the data is incomplete and ends at the file end -/
example : (readLeadIn (leadIn 100 20) 7 true (some 90)).toOption =
    some (some ⟨0, 4713, 55, 90, true⟩) := by decide
example : (readLeadIn (leadIn 100 20) 7 true (some 50)).toOption = some none := by decide
/-- the marker with and without the data file -/
example : (readLeadIn (leadIn (2 ^ 64 - 1) 20) 7 true (some 90)).toOption = some (some ⟨0, 4713, 55, 90, true⟩) := by
  decide
example : readLeadIn (leadIn (2 ^ 64 - 1) 20) 7 true none = .error .other :=
  index_only_unknown_length _ 7 true (by decide) (by decide) (by decide)

end Examples

end Tdms.Proofs.C09
