import TdmsProofs.Lemmas.C19StringsMain
import TdmsProofs.Lemmas.C19StringsInter
import TdmsProofs.Lemmas.C19StringsFwd
import TdmsProofs.Properties.C19WF

/-!
# C19 — I/O bounds for string channels, exact reads of interleaved segments, and a request bound

C19 / C19WF bound the bytes fetched by lazy reads but exclude string channels (`SizedIn`) and treat
interleaved segments only through the union of the planned chunks.  Here (lemmas: `Lemmas/C19Strings*.lean`):

1. **Strings.**  `channelBytesS s cs j p` is the `(start, length)` of channel `p` in chunk `j` of a contiguous
   segment: the start is reached by adding up the DECLARED sizes of the data objects in front of it
   (`channel_bytes_declared` — nothing of them is read), the length is `n · size` for a fixed-width channel and
   the declared `dataSize` (= `total` of the raw-data index: offset table + characters) for a string channel
   (`objBytes_string`).
   * `string_run_trace`: the exact reads of one encoded string run: `n` reads of 4 bytes (offset table), then
     one read per string — the model does NOT use two reads but `2n`; all lie inside the run.
   * `window_io_bound_strings`: on `openFile (encodeFile e)`, `MultiStd e`, for EVERY path (fixed-width or
     string): every read of a window lies in a segment tag or inside `channelBytesS` of ONE planned chunk, which
     lies inside that chunk of that segment; total ≤ `Σ (4 + chunkSize · plannedChunks)`.
   * arbitrary bytes: `window_io_bound_tables` gives the same under the executable check `windowTablesOK`
     (offset tables found in the file are non-decreasing and end inside the declared size).  WITHOUT it not
     even "inside the chunk" is true: `corrupt_table_escapes` (one byte of an offset table changed; the read
     runs to the end of the file, across the segment boundary).  What is unconditionally true is
     `string_reads_forward` (reads go forward from the channel's start and stop at the end of the file).
2. **Interleaved.**  `interleaved_read_exact`: one read, exactly `[dataPosition + co·cs, dataPosition +
   (co+nc)·cs)` cropped at the end of the file; `interleaved_read_minimal`: every value of EVERY column of the
   planned rows lies inside it (the other channels' columns ARE fetched), and any range containing the
   requested column's values misses at most `col` bytes in front and `width − col − size` behind; a
   row-aligned such range contains the whole read.
3. **Request bound.**  `bytes_fetched_le`: `read_data(offset, length)` on an encoded file fetches at most
   `4 · touchedSegments + Σ_touched chunkSize · (length / valuesPerChunk + 2)` bytes; `planned_chunks_le` is
   the per-segment chunk count.

Core Lean only.
-/

namespace Tdms.Proofs.C19Strings

open Tdms Tdms.Model Tdms.Generated Tdms.Proofs.C04 Tdms.Proofs.C05 Tdms.Proofs.C19 Tdms.Proofs.C19WF
open Tdms.Proofs.C19S Tdms.Proofs.C01Multi Tdms.Proofs.C05WF

/-! ## 1. strings -/

/-- **string_run_trace.**  Reading an encoded run of `vals` (a string channel's part of one chunk) that
    starts at `pos`: the values come back, the position advances by `4n + Σ len`, and the trace is extended
    by EXACTLY `n` four-byte reads of the offset table followed by one read per string. -/
theorem string_run_trace (file : Bytes) (e : Endian) (o : SegObj) (vals : List Bytes) (pos : Nat)
    (tr : List (Nat × Nat)) (rest : Bytes) (hty : o.dataType = some tyString)
    (hlen : vals.flatten.length < 2 ^ 32)
    (hfile : file.drop pos = encObjValues e tyString vals ++ rest) :
    readValues file e o vals.length ⟨pos, tr⟩ =
      .ok (vals, ⟨pos + (4 * vals.length + vals.flatten.length),
        tr ++ (offsetReads pos vals.length ++ stringReads (pos + 4 * vals.length) vals)⟩) :=
  readValues_string_trace file e o vals pos tr rest hty hlen hfile

/-- ... and these reads lie inside the run and fetch every byte of it once -/
theorem string_run_reads_inside (pos : Nat) (vals : List Bytes) :
    (∀ x ∈ offsetReads pos vals.length ++ stringReads (pos + 4 * vals.length) vals,
      Inside x (pos, pos + (4 * vals.length + vals.flatten.length))) ∧
    traceBytes (offsetReads pos vals.length ++ stringReads (pos + 4 * vals.length) vals) =
      4 * vals.length + vals.flatten.length :=
  ⟨stringRunReads_inside pos vals, stringRunReads_bytes pos vals⟩

/-- **the skip over the other channels uses only declared sizes**: without a truncated final chunk, the bytes
    of channel `p` in chunk `j` start at the chunk start plus the declared `dataSize` of every data object in
    front of the first one with path `p` (for a string object: its `total`) -/
theorem channel_bytes_declared (s : Segment) (hov : s.override = none) (cs j : Nat) (p : Bytes) :
    channelBytesS s cs j p =
      ((C19.dataObjs s).find? fun o => decide (o.path = p)).map fun o =>
        (s.dataPosition + j * cs + (((C19.dataObjs s).takeWhile fun o => !decide (o.path = p)).map (·.dataSize)).sum,
          objBytes s j o) := by
  unfold channelBytesS channelSpanS
  rw [channelLoc_no_override s hov, Option.map_map]
  rfl

theorem objBytes_string (s : Segment) (j : Nat) (o : SegObj) (h : o.dataType = some tyString) :
    objBytes s j o = o.dataSize := by
  unfold objBytes
  rw [h]
  rfl

theorem objBytes_sized (s : Segment) (j : Nat) (o : SegObj) (sz : Nat) (h : o.dataType.bind typeSize = some sz) :
    objBytes s j o = channelNumberValues s o j * sz := by
  unfold objBytes
  rw [h]

/-- **window_io_bound_readable** (any open file): with consistent sizes, a well-formed layout of `p` and
    `WindowReadable` (every planned chunk of a contiguous segment is read inside the channel's bytes), every
    read of the window lies in a tag or satisfies `InChannelChunks`; total ≤ `Σ (4 + chunkSize · planned)`. -/
theorem window_io_bound_readable (f : OpenFile) (p : Bytes) (off : Int) (len : Option Int)
    (hwfS : ∀ s ∈ f.segments, SegWF s)
    (hlay : WellFormed (f.segments.map (layoutOf p)) ∧ chanLen f p = total (f.segments.map (layoutOf p)))
    (h0 : 0 ≤ off) (hl : ∀ l, len = some l → 0 ≤ l) (hread : WindowReadable f p off len)
    (st st' : FState) (a : List ChanChunk) (hrun : readRawDataForChannel f p off len st = .ok (a, st')) :
    ∃ l, st'.trace = st.trace ++ l ∧
      (∀ x ∈ l, ∃ k s, (windowOf f p off len).startSeg ≤ k ∧ k ≤ (windowOf f p off len).endSeg ∧
        f.segments[k]? = some s ∧
        (InTag s x ∨ InChannelChunks s p (segPlan p (windowOf f p off len).ix off (windowOf f p off len).endIndex
          (windowOf f p off len).startSeg (windowOf f p off len).endSeg k s) x)) ∧
      traceBytes l ≤ windowPlanned p (windowOf f p off len).ix off (windowOf f p off len).endIndex
        (windowOf f p off len).startSeg (windowOf f p off len).endSeg
        (windowSegs f (windowOf f p off len)) (windowOf f p off len).startSeg :=
  window_io_core f p off len hwfS hlay h0 hl hread st st' a hrun

/-- **window_io_bound_strings.**  On the lazily opened encoding of a file of the class `MultiStd`, for EVERY
    path `p` — fixed-width or STRING channel — and every successful window read: every trace entry lies in
    the 4 tag bytes of a segment of the window, or inside the bytes `channelBytesS` of channel `p` in ONE
    planned chunk `j` of such a segment (`co ≤ j < co + nc`, `j < numChunks`), and those bytes lie inside chunk
    `j`.  All segments are contiguous and untruncated, so `channel_bytes_declared` describes `channelBytesS`:
    the other channels (string or not) are skipped by their declared sizes and never read. -/
theorem window_io_bound_strings (e : FileEnc) (h : MultiStd e) (fit : FileFits e) (bytes : Bytes)
    (hb : encodeFile e = .ok bytes) (hlen : bytes.length < 2 ^ 63) :
    ∃ f, openFile bytes = .ok f ∧
      (∀ s ∈ f.segments, dataReaderKind s = .ok .contiguous ∧ s.override = none) ∧
      ∀ (p : Bytes) (off : Int) (len : Option Int), 0 ≤ off → (∀ l, len = some l → 0 ≤ l) →
      ∀ (st st' : FState) (a : List ChanChunk), readRawDataForChannel f p off len st = .ok (a, st') →
        ∃ l, st'.trace = st.trace ++ l ∧
          (∀ x ∈ l, ∃ k s, (windowOf f p off len).startSeg ≤ k ∧ k ≤ (windowOf f p off len).endSeg ∧
            f.segments[k]? = some s ∧
            (InTag s x ∨ ∃ co skip nc cs j start n,
              segPlan p (windowOf f p off len).ix off (windowOf f p off len).endIndex
                (windowOf f p off len).startSeg (windowOf f p off len).endSeg k s = some (co, skip, nc) ∧
              chunkSize s.objects = .ok cs ∧ co.toNat ≤ j ∧ j < co.toNat + nc.toNat ∧ j < s.numChunks ∧
              channelBytesS s cs j p = some (start, n) ∧ Inside x (start, start + n) ∧
              Inside (start, n) (chunkBytes s cs j))) ∧
          traceBytes l ≤ windowPlanned p (windowOf f p off len).ix off (windowOf f p off len).endIndex
            (windowOf f p off len).startSeg (windowOf f p off len).endSeg
            (windowSegs f (windowOf f p off len)) (windowOf f p off len).startSeg := by
  obtain ⟨f, c, hopen, _, hwfS, hkind, hov, hlay, hread⟩ := windowReadable_encoded e h fit bytes hb hlen
  refine ⟨f, hopen, fun s hs => ⟨hkind s hs, hov s hs⟩, ?_⟩
  intro p off len h0 hl st st' a hrun
  obtain ⟨l, h1, h2, h3⟩ := window_io_core f p off len hwfS (hlay p) h0 hl (hread p off len h0 hl) st st' a hrun
  refine ⟨l, h1, fun x hx => ?_, h3⟩
  obtain ⟨k, s, hk1, hk2, hs, hx'⟩ := h2 x hx
  refine ⟨k, s, hk1, hk2, hs, ?_⟩
  rcases hx' with hx' | ⟨co, skip, nc, cs, hplan, hcs, hin, _, hc⟩
  · exact Or.inl hx'
  · obtain ⟨j, start, n, hj1, hj2, hbS, hI1, hI2⟩ := hc (hkind s (List.mem_of_getElem? hs))
    exact Or.inr ⟨co, skip, nc, cs, j, start, n, hplan, hcs, hj1, hj2, by omega, hbS, hI1, hI2⟩

/-- **window_io_bound_tables** (ARBITRARY bytes).  For any file `openFile` accepts whose segments have
    distinct paths and no DAQmx data, and a window whose string offset tables pass the executable check
    `windowTablesOK` (non-decreasing, `4n + last ≤ declared size`), the bound of `window_io_bound_strings`
    holds. -/
theorem window_io_bound_tables (bytes : Bytes) (f : OpenFile) (h : openFile bytes = .ok f)
    (hu : UniquePaths f) (hnd : NoDaqmx f) (p : Bytes) (off : Int) (len : Option Int)
    (h0 : 0 ≤ off) (hl : ∀ l, len = some l → 0 ≤ l) (htab : windowTablesOK f p off len = true)
    (st st' : FState) (a : List ChanChunk) (hrun : readRawDataForChannel f p off len st = .ok (a, st')) :
    ∃ l, st'.trace = st.trace ++ l ∧
      (∀ x ∈ l, ∃ k s, (windowOf f p off len).startSeg ≤ k ∧ k ≤ (windowOf f p off len).endSeg ∧
        f.segments[k]? = some s ∧
        (InTag s x ∨ InChannelChunks s p (segPlan p (windowOf f p off len).ix off (windowOf f p off len).endIndex
          (windowOf f p off len).startSeg (windowOf f p off len).endSeg k s) x)) ∧
      traceBytes l ≤ windowPlanned p (windowOf f p off len).ix off (windowOf f p off len).endIndex
        (windowOf f p off len).startSeg (windowOf f p off len).endSeg
        (windowSegs f (windowOf f p off len)) (windowOf f p off len).startSeg := by
  obtain ⟨_, prev, hi⟩ := openFile_inv bytes f h
  exact window_io_core f p off len (fun s hs => segWF_of_inv hi s hs (hnd s hs) (hu s hs))
    (layout_of_inv hi hu hnd p) h0 hl (windowReadable_of_tablesOK f p off len htab) st st' a hrun

/-- **string_reads_forward** (ARBITRARY bytes, every data type): a successful `read_values` only reads
    forward from where it starts: every read lies in `[start, final position]`, the final position is at most
    `max start (file length)`, and the bytes returned add up to `final − start`.  For a string channel with a
    corrupt offset table nothing better holds (`corrupt_table_escapes`). -/
theorem string_reads_forward (file : Bytes) (e : Endian) (o : SegObj) (n : Nat) (st st' : FState) (r : List Bytes)
    (hrun : readValues file e o n st = .ok (r, st')) :
    st.pos ≤ st'.pos ∧ st'.pos ≤ max st.pos file.length ∧
      ∃ l, st'.trace = st.trace ++ l ∧ (∀ x ∈ l, Inside x (st.pos, st'.pos)) ∧ traceBytes l = st'.pos - st.pos :=
  fwd_readValues file e o n st r st' hrun

/-! ## 2. interleaved segments -/

/-- **interleaved_read_exact.**  A successful `segReadChannel file s p co (some nc)` on an interleaved segment
    with consistent sizes performs EXACTLY one read (none when the segment has no data object): `nc` chunks from
    the start of chunk `co`, cropped at the end of the file; and all data objects declare the same length. -/
theorem interleaved_read_exact (file : Bytes) (s : Segment) (p : Bytes) (hwf : SegWF s)
    (hk : dataReaderKind s = .ok .interleaved) (cs : Nat) (hcs : chunkSize s.objects = .ok cs)
    (co : Nat) (nc : Int) (st st' : FState) (r : List ChanChunk)
    (hrun : segReadChannel file s p co (some nc) st = .ok (r, st')) :
    SameLengths (C19.dataObjs s) ∧
    st'.trace = st.trace ++
      (if C19.dataObjs s = [] then []
       else [(s.dataPosition + co * cs, min (nc.toNat * cs) (file.length - (s.dataPosition + co * cs)))]) := by
  obtain ⟨hsame, htr⟩ := trx_segReadChannel_interleaved file s p hk cs hcs co nc st trivial r st' hrun
  refine ⟨hsame, ?_⟩
  rw [htr]
  unfold interleavedRead
  have e := interleaved_bytes_eq s hwf hk cs hcs hsame
  have e1 : interleavedWidth (C19.dataObjs s) * (nv0 (C19.dataObjs s) * nc.toNat) = nc.toNat * cs := by
    rw [← Nat.mul_assoc, ← e, Nat.mul_comm]
  rw [e1, Nat.mul_comm cs co]

/-- ... when the planned chunks exist in the file, the read is exactly
    `[dataPosition + co·cs, dataPosition + (co + nc)·cs)` -/
theorem interleaved_read_range (file : Bytes) (s : Segment) (p : Bytes) (hwf : SegWF s)
    (hk : dataReaderKind s = .ok .interleaved) (cs : Nat) (hcs : chunkSize s.objects = .ok cs)
    (co : Nat) (nc : Int) (hne : C19.dataObjs s ≠ [])
    (hfile : s.dataPosition + (co + nc.toNat) * cs ≤ file.length) (st st' : FState) (r : List ChanChunk)
    (hrun : segReadChannel file s p co (some nc) st = .ok (r, st')) :
    st'.trace = st.trace ++ [((chunkBytes s cs co).1, nc.toNat * cs)] ∧
    (chunkBytes s cs co).1 + nc.toNat * cs = s.dataPosition + (co + nc.toNat) * cs := by
  obtain ⟨_, htr⟩ := interleaved_read_exact file s p hwf hk cs hcs co nc st st' r hrun
  rw [if_neg hne] at htr
  rw [Nat.add_mul] at hfile
  have : min (nc.toNat * cs) (file.length - (s.dataPosition + co * cs)) = nc.toNat * cs := by omega
  rw [this] at htr
  exact ⟨htr, by show s.dataPosition + co * cs + nc.toNat * cs = _; rw [Nat.add_mul]; omega⟩

/-- **interleaved_read_minimal.**  Rows of the planned chunks `co … co + n − 1` of an interleaved segment:
    `rows = valuesPerChunk · n` rows of `w = interleavedWidth` bytes from `start = dataPosition + co·cs`; value
    `r` of the column `(col, sz)` of path `p` occupies `[start + r·w + col, + sz)`.
    (1) `rows · w = n · cs`: the rows are exactly the read of `interleaved_read_exact`;
    (2) every value of the column lies inside the read — this holds for the column of EVERY data object, so
        the other channels' columns inside the planned rows ARE fetched;
    (3) a range `[lo, hi)` containing the column's values satisfies `lo ≤ start + col` and
        `end ≤ hi + (w − (col + sz))`: the read exceeds it by less than one row in total;
    (4) a ROW-ALIGNED range containing the column's values contains the whole read. -/
theorem interleaved_read_minimal (s : Segment) (hwf : SegWF s) (hk : dataReaderKind s = .ok .interleaved)
    (cs : Nat) (hcs : chunkSize s.objects = .ok cs) (hsame : SameLengths (C19.dataObjs s))
    (p : Bytes) (col sz : Nat) (hcol : columnOf p (C19.dataObjs s) 0 = some (col, sz)) (co n : Nat) :
    col + sz ≤ interleavedWidth (C19.dataObjs s) ∧
    nv0 (C19.dataObjs s) * n * interleavedWidth (C19.dataObjs s) = n * cs ∧
    (∀ r, r < nv0 (C19.dataObjs s) * n →
      Inside (s.dataPosition + co * cs + r * interleavedWidth (C19.dataObjs s) + col, sz)
        (s.dataPosition + co * cs, s.dataPosition + co * cs + n * cs)) ∧
    (∀ lo hi, 0 < nv0 (C19.dataObjs s) * n →
      (∀ r, r < nv0 (C19.dataObjs s) * n →
        Inside (s.dataPosition + co * cs + r * interleavedWidth (C19.dataObjs s) + col, sz) (lo, hi)) →
      lo ≤ s.dataPosition + co * cs + col ∧
        s.dataPosition + co * cs + n * cs ≤ hi + (interleavedWidth (C19.dataObjs s) - (col + sz))) ∧
    (∀ a b, 0 < nv0 (C19.dataObjs s) * n → 0 < sz →
      (∀ r, r < nv0 (C19.dataObjs s) * n →
        Inside (s.dataPosition + co * cs + r * interleavedWidth (C19.dataObjs s) + col, sz)
          (s.dataPosition + co * cs + a * interleavedWidth (C19.dataObjs s),
           s.dataPosition + co * cs + b * interleavedWidth (C19.dataObjs s))) →
      a = 0 ∧ nv0 (C19.dataObjs s) * n ≤ b) := by
  have hw := (columnOf_within p (C19.dataObjs s) 0 col sz hcol).2
  rw [Nat.zero_add] at hw
  have e := interleaved_bytes_eq s hwf hk cs hcs hsame
  have hrows : nv0 (C19.dataObjs s) * n * interleavedWidth (C19.dataObjs s) = n * cs := by
    rw [e, Nat.mul_comm (nv0 _) n, Nat.mul_assoc, Nat.mul_comm (nv0 _)]
  refine ⟨hw, hrows, ?_, ?_, ?_⟩
  · intro r hr
    have := column_value_inside (s.dataPosition + co * cs) _ _ col sz r hw hr
    rw [hrows] at this
    exact this
  · intro lo hi hpos hcover
    have := column_hull (s.dataPosition + co * cs) _ _ col sz lo hi hpos hcover
    rw [hrows] at this
    exact this
  · intro a b hpos hsz hcover
    exact column_hull_aligned (s.dataPosition + co * cs) _ _ col sz a b hpos hsz hw hcover

/-! ## 3. bounded by the request, not by the file -/

/-- **planned_chunks_le.**  For a well-formed layout, the chunk run planned for a segment of the window has at
    most `n / valuesPerChunk + 2` chunks, `n` the effective length `endIndex − offset` of the window (at most
    the requested length), and lies inside the segment. -/
theorem planned_chunks_le (f : OpenFile) (p : Bytes) (off : Int) (len : Option Int)
    (hlay : WellFormed (f.segments.map (layoutOf p)) ∧ chanLen f p = total (f.segments.map (layoutOf p)))
    (h0 : 0 ≤ off) (hl : ∀ l, len = some l → 0 ≤ l) (k : Nat) (s : Segment) (hs : f.segments[k]? = some s)
    (h1 : (windowOf f p off len).startSeg ≤ k) (h2 : k ≤ (windowOf f p off len).endSeg) (co skip nc : Int)
    (hplan : segPlan p (windowOf f p off len).ix off (windowOf f p off len).endIndex
      (windowOf f p off len).startSeg (windowOf f p off len).endSeg k s = some (co, skip, nc)) :
    valuesPerChunk p s ≠ 0 ∧
    nc.toNat ≤ ((windowOf f p off len).endIndex - off).toNat / valuesPerChunk p s + 2 ∧
    co.toNat + nc.toNat ≤ s.numChunks ∧
    (∀ l, len = some l → ((windowOf f p off len).endIndex - off).toNat ≤ l.toNat) := by
  obtain ⟨e1, e2, e3, e4⟩ := windowOf_eq_params f p off len
  have hplan' := hplan
  rw [e1, e2, e3, e4] at hplan'
  obtain ⟨hc1, hc2⟩ := window_plan_count f.segments p (chanLen f p) hlay.1 hlay.2 off len h0 hl k s hs
    (by rw [← e3]; exact h1) (by rw [← e4]; exact h2) co skip nc hplan'
  have hb := Tdms.Proofs.C04Whole.window_plan_bounds f.segments p (chanLen f p) hlay.1 hlay.2 off len h0 hl k s hs
    (by rw [← e3]; exact h1) (by rw [← e4]; exact h2) co skip nc hplan'
  rw [← e2] at hc2
  refine ⟨hc1, toNat_count _ (Nat.pos_of_ne_zero hc1) nc _ hc2, hb.inRange, ?_⟩
  intro l hl'
  subst hl'
  have := window_len_le f p off l
  omega

/-- **bytes_fetched_le_of_readable** (any open file): under the hypotheses of `window_io_bound_readable`,
    `read_data(off, len)` fetches at most `requestBound p n (touched segments)` =
    `4 · touched + Σ_touched chunkSize · (n / valuesPerChunk + 2)` bytes, `n` the effective length. -/
theorem bytes_fetched_le_of_readable (f : OpenFile) (p : Bytes) (off : Int) (len : Option Int)
    (hwfS : ∀ s ∈ f.segments, SegWF s)
    (hlay : WellFormed (f.segments.map (layoutOf p)) ∧ chanLen f p = total (f.segments.map (layoutOf p)))
    (h0 : 0 ≤ off) (hl : ∀ l, len = some l → 0 ≤ l) (hread : WindowReadable f p off len)
    (st st' : FState) (r : Option ReadOut) (hrun : channelReadData f p off len st = .ok (r, st')) :
    ∃ tr, st'.trace = st.trace ++ tr ∧
      traceBytes tr ≤ requestBound p ((windowOf f p off len).endIndex - off).toNat
        (windowSegs f (windowOf f p off len)) := by
  have hw : Tr (fun _ => True) (readRawDataForChannel f p off len) (fun _ => True)
      (requestBound p ((windowOf f p off len).endIndex - off).toNat (windowSegs f (windowOf f p off len)))
      (fun _ _ => True) := by
    intro s _ a s' hm
    obtain ⟨l, h1, _, h3⟩ := window_io_core f p off len hwfS hlay h0 hl hread s s' a hm
    exact ⟨trivial, l, h1, fun _ _ => trivial,
      Nat.le_trans h3 (window_bytes_le_request f p off len hlay h0 hl)⟩
  obtain ⟨_, tr, h1, _, h3⟩ := tr_channelReadData f p off len hw st trivial r st' hrun
  exact ⟨tr, h1, h3⟩

/-- **bytes_fetched_le.**  On the lazily opened encoding of a file of the class `MultiStd`, for every path
    (fixed-width or string channel), `read_data(off, l)` fetches at most
    `4 · (number of touched segments) + Σ_touched chunkSize · (l / valuesPerChunk + 2)` bytes — a bound in terms
    of the request and the chunk geometry of the touched segments, not of the file length.
    (`requestBound p n segs = 4 * segs.length + (segs.map (segRequestCost p n)).sum`,
    `segRequestCost p n s = if valuesPerChunk p s = 0 then 0 else plannedBytes s (n / valuesPerChunk p s + 2)`,
    `plannedBytes s m = chunkSize · m`.) -/
theorem bytes_fetched_le (e : FileEnc) (h : MultiStd e) (fit : FileFits e) (bytes : Bytes)
    (hb : encodeFile e = .ok bytes) (hlen : bytes.length < 2 ^ 63) :
    ∃ f, openFile bytes = .ok f ∧
      ∀ (p : Bytes) (off l : Int), 0 ≤ off → 0 ≤ l →
      ∀ (st st' : FState) (r : Option ReadOut), channelReadData f p off (some l) st = .ok (r, st') →
        ∃ tr, st'.trace = st.trace ++ tr ∧
          traceBytes tr ≤ requestBound p l.toNat (windowSegs f (windowOf f p off (some l))) ∧
          (windowSegs f (windowOf f p off (some l))).length ≤
            (windowOf f p off (some l)).endSeg + 1 - (windowOf f p off (some l)).startSeg := by
  obtain ⟨f, c, hopen, _, hwfS, _, _, hlay, hread⟩ := windowReadable_encoded e h fit bytes hb hlen
  refine ⟨f, hopen, ?_⟩
  intro p off l h0 hl0 st st' r hrun
  have hl : ∀ l', some l = some l' → 0 ≤ l' := by intro l' h'; cases h'; exact hl0
  obtain ⟨tr, h1, h2⟩ := bytes_fetched_le_of_readable f p off (some l) hwfS (hlay p) h0 hl
    (hread p off (some l) h0 hl) st st' r hrun
  refine ⟨tr, h1, Nat.le_trans h2 (requestBound_mono p ?_ _), ?_⟩
  · have := window_len_le f p off l
    omega
  · unfold windowSegs
    rw [List.length_take]
    exact Nat.min_le_left _ _

/-! ## 4. non-vacuity and counter-examples -/

section Examples

def exT : Bytes := [47, 39, 103, 39, 47, 39, 116, 39]             -- "/'g'/'t'"

/-- two segments; every chunk holds the string channel `s`, the Int32 channel `a` and the string channel `t`
    (declared totals 11, 8, 12: chunk size 31); segment 0 has two chunks, segment 1 (no metadata) one -/
def exStr : FileEnc := [
  { exSeg0 with
      objs := [⟨exS, .full 0x20 2 11, []⟩, ⟨C01Multi.exA, .full 3 2 8, []⟩, ⟨exT, .full 0x20 2 12, []⟩],
      chunks := [[[[97, 98], [99]], [[1, 0, 0, 0], [2, 0, 0, 0]], [[1], [2, 3, 4]]],
                 [[[], [120, 121, 122]], [[3, 0, 0, 0], [4, 0, 0, 0]], [[5, 6], [7, 8]]]] },
  { exSeg0 with
      hasMeta := false, newList := false,
      chunks := [[[[100], [101, 102]], [[5, 0, 0, 0], [6, 0, 0, 0]], [[9, 9, 9], [9]]]] } ]

theorem exStr_std : MultiStd exStr := multiStdB_sound (by decide +kernel)
theorem exStr_fits : FileFits exStr := fileFitsB_sound (by decide +kernel)
theorem exStr_length : (encodeFile exStr).toOption.map (·.length) = some 277 := by decide +kernel

/-- `exStr` opened lazily -/
def strOpen : Option OpenFile := (encodeFile exStr).toOption.bind fun b => (openFile b).toOption

/-- `read_data(1, 4)` of the string channel `t` (values 1 … 4 span the three chunks of the two segments):
    the values, and the trace — tag of segment 0 (data at 156, chunks of 31 bytes), `t`'s 12 bytes of chunk 0
    at 175 (two offsets, two strings), of chunk 1 at 206, tag of segment 1 at 218, `t`'s bytes at 265.  Nothing
    of the string channel `s` (bytes 156…166, 187…197, 246…256) or of `a` is fetched: they are skipped by
    their declared sizes 11 and 8. -/
example : (strOpen.bind fun f => match (readRawDataForChannel f exT 1 (some 4)).run {} with
      | .ok (a, st) => some (a.map (·.data), st.trace)
      | .error _ => none) =
    some ([some [[2, 3, 4]], some [[5, 6], [7, 8]], some [[9, 9, 9]]],
      [(0, 4), (175, 4), (179, 4), (183, 1), (184, 3), (206, 4), (210, 4), (214, 2), (216, 2), (218, 4),
       (265, 4), (269, 4), (273, 3), (276, 1)]) := by decide +kernel

/-- the channel bytes the theorem speaks about (`t`: 12 bytes after `s`'s 11 and `a`'s 8), those of `s`, and
    the chunks they lie in -/
example : (strOpen.map fun f => f.segments.map fun s => (List.range s.numChunks).map fun j =>
      channelBytesS s 31 j exT) = some [[some (175, 12), some (206, 12)], [some (265, 12)]] := by decide +kernel

example : (strOpen.map fun f => f.segments.map fun s => (List.range s.numChunks).map fun j =>
      channelBytesS s 31 j exS) = some [[some (156, 11), some (187, 11)], [some (246, 11)]] := by decide +kernel

example : (strOpen.map fun f => f.segments.map fun s => (List.range s.numChunks).map fun j =>
      chunkBytes s 31 j) = some [[(156, 187), (187, 218)], [(246, 277)]] := by decide +kernel

/-- the check of the offset tables passes, and the request bound is `4·2 + 31·(4/2 + 2)·2` (the reads above
    fetch 44 bytes) -/
example : (strOpen.map fun f =>
      (windowTablesOK f exT 1 (some 4), requestBound exT 4 (windowSegs f (windowOf f exT 1 (some 4))))) =
    some (true, 256) := by decide +kernel

/-- `window_io_bound_strings` and `bytes_fetched_le` applied to the string channel `t` of `exStr` -/
example : ∃ bytes f, encodeFile exStr = .ok bytes ∧ openFile bytes = .ok f ∧
    ∀ (st st' : FState) (a : List ChanChunk), readRawDataForChannel f exT 1 (some 4) st = .ok (a, st') →
      ∃ l, st'.trace = st.trace ++ l ∧
        ∀ x ∈ l, ∃ (k : Nat) (s : Segment), f.segments[k]? = some s ∧
          (InTag s x ∨ ∃ cs j start n, j < s.numChunks ∧ channelBytesS s cs j exT = some (start, n) ∧
            Inside x (start, start + n) ∧ Inside (start, n) (chunkBytes s cs j)) := by
  obtain ⟨acts, _, hb⟩ := encodeFile_multi_bytes exStr exStr_std
  have hl := exStr_length
  rw [hb] at hl
  simp only [Except.toOption, Option.map_some, Option.some.injEq] at hl
  obtain ⟨f, h1, _, h3⟩ := window_io_bound_strings exStr exStr_std exStr_fits _ hb (by rw [hl]; decide)
  refine ⟨_, f, hb, h1, ?_⟩
  intro st st' a hrun
  obtain ⟨l, hl1, hl2, _⟩ := h3 exT 1 (some 4) (by decide) (by intro l hl'; cases hl'; decide) st st' a hrun
  refine ⟨l, hl1, fun x hx => ?_⟩
  obtain ⟨k, s, _, _, hs, hx'⟩ := hl2 x hx
  refine ⟨k, s, hs, ?_⟩
  rcases hx' with hx' | ⟨co, skip, nc, cs, j, start, n, _, _, _, _, hj, hbS, hI1, hI2⟩
  · exact Or.inl hx'
  · exact Or.inr ⟨cs, j, start, n, hj, hbS, hI1, hI2⟩

/-- `exStr` with ONE byte changed: the second entry of `t`'s offset table in chunk 0 of segment 0 (byte 179)
    says 200 instead of 4 -/
def strCorrupt : Option OpenFile :=
  (encodeFile exStr).toOption.bind fun b => (openFile (b.set 179 200)).toOption

/-- **corrupt_table_escapes** (why arbitrary bytes need `windowTablesOK`, and why not even `chunkBytes` holds
    without it): on the corrupted file the metadata is unchanged and `read_data(0, 2)` of `t` succeeds; the
    check fails; the last read `(184, 93)` asks for 199 bytes and gets everything up to the end of the file
    (277) — it leaves `t`'s bytes `(175, 12)`, chunk 0 `[156, 187)`, and segment 0 (next segment at 218). -/
theorem corrupt_table_escapes : (strCorrupt.bind fun f =>
      match (readRawDataForChannel f exT 0 (some 2)).run {} with
      | .ok (_, st) => some (windowTablesOK f exT 0 (some 2), st.trace)
      | .error _ => none) =
    some (false, [(0, 4), (175, 4), (179, 4), (183, 1), (184, 93)]) := by decide +kernel

/-- the layout of the corrupted file is that of `exStr` (segment positions, `t`'s bytes and chunk 0 of either
    segment, file length) -/
theorem corrupt_table_layout :
    (strCorrupt.map fun f => f.segments.map fun s => (s.position, channelBytesS s 31 0 exT)) =
      some [(0, some (175, 12)), (218, some (265, 12))] ∧
    (strCorrupt.map fun f => (f.segments.map fun s => chunkBytes s 31 0, f.file.length)) =
      some ([(156, 187), (246, 277)], 277) := by
  constructor <;> decide +kernel

/-- `window_io_bound_tables` applied to the (uncorrupted) bytes of `exStr` as ARBITRARY bytes: its hypotheses
    are decidable and hold -/
example : ∀ f, strOpen = some f → UniquePaths f ∧ NoDaqmx f ∧ windowTablesOK f exT 1 (some 4) = true := by
  have h : (strOpen.map fun f =>
      decide (∀ s ∈ f.segments, (s.objects.map (·.path)).Nodup) &&
      decide (∀ s ∈ f.segments, dataReaderKind s ≠ .ok .daqmx) &&
      windowTablesOK f exT 1 (some 4)) = some true := by decide +kernel
  intro f hf
  rw [hf] at h
  simp only [Option.map_some, Option.some.injEq, Bool.and_eq_true, decide_eq_true_eq] at h
  exact ⟨h.1.1, h.1.2, h.2⟩

/-- an encoding with two INTERLEAVED segments (rows `a : Int32 | b : UInt16`, 6 bytes; 2 rows per chunk, chunk
    size 12): segment 1 (big-endian, 3 chunks), segment 2 (no metadata, 1 chunk) -/
def exInter : FileEnc := [
  { exSeg0 with
      objs := [⟨exRoot, .noData, [⟨[110], 0x20, [102]⟩]⟩, ⟨C01Multi.exA, .full 3 2 0, [⟨[117], 0x20, [86]⟩]⟩,
               ⟨C01Multi.exB, .full 6 1 2, []⟩, ⟨exS, .full 0x20 1 6, []⟩],
      padding := 1,
      chunks := [[[[1, 0, 0, 0], [2, 0, 0, 0]], [[7, 8]], [[97, 98]]]] },
  { exSeg0 with
      interleaved := true, big := true, newList := false,
      objs := [⟨C01Multi.exB, .full 6 2 4, []⟩, ⟨exS, .noData, []⟩],
      chunks := [[[[3, 0, 0, 0], [4, 0, 0, 0]], [[1, 2], [3, 4]]],
                 [[[5, 0, 0, 0], [6, 0, 0, 0]], [[5, 6], [7, 8]]],
                 [[[7, 0, 0, 0], [8, 0, 0, 0]], [[9, 6], [9, 8]]]] },
  { exSeg0 with
      interleaved := true, hasMeta := false, newList := false,
      chunks := [[[[9, 0, 0, 0], [10, 0, 0, 0]], [[9, 9], [8, 8]]]] } ]

def interOpen : Option OpenFile := (encodeFile exInter).toOption.bind fun b => (openFile b).toOption
def interSeg1 : Segment := (interOpen.bind fun f => f.segments[1]?).getD default
def interFile : Bytes := (interOpen.map (·.file)).getD []

/-- the spec accepts `exInter`; its segment 1 satisfies the hypotheses of the two interleaved theorems: read by
    the interleaved reader, consistent sizes, chunk size 12 at data position 294, 3 chunks, equal lengths, and
    the column of `b` is `(4, 2)` in rows of 6 bytes; the file has 370 bytes -/
theorem interSeg1_facts : wellFormed exInter = true ∧ dataReaderKind interSeg1 = .ok .interleaved ∧
    segWFB interSeg1 = true ∧ chunkSize interSeg1.objects = .ok 12 ∧ interSeg1.dataPosition = 294 ∧
    interSeg1.numChunks = 3 ∧ SameLengths (C19.dataObjs interSeg1) ∧
    columnOf C01Multi.exB (C19.dataObjs interSeg1) 0 = some (4, 2) ∧ columnOf C01Multi.exA (C19.dataObjs interSeg1) 0 = some (0, 4) ∧
    interleavedWidth (C19.dataObjs interSeg1) = 6 ∧ nv0 (C19.dataObjs interSeg1) = 2 ∧
    interFile.length = 370 := by decide +kernel

/-- reading chunks 1 and 2 of `b` from that segment: ONE read `(306, 24)` = `[294 + 1·12, 294 + 3·12)`; and the
    window `read_data(2, 3)` of `b` (planned chunks 0, 1 of segment 1): tag and ONE read `(294, 24)` -/
example : (match (segReadChannel interFile interSeg1 C01Multi.exB 1 (some 2)).run {} with
      | .ok (a, st) => some (a.map (·.data), st.trace)
      | .error _ => none) = some ([some [[5, 6], [7, 8], [9, 6], [9, 8]]], [(306, 24)]) ∧
    (interOpen.bind fun f => match (readRawDataForChannel f C01Multi.exB 2 (some 3)).run {} with
      | .ok (a, st) => some (a.map (·.data), st.trace)
      | .error _ => none) = some ([some [[3, 4], [5, 6], [7, 8]]], [(206, 4), (294, 24)]) := by
  constructor <;> decide +kernel

/-- `interleaved_read_range` and `interleaved_read_minimal` applied to that segment: every successful read of
    chunks 1, 2 of `b` is the single read `(306, 24)`, and a range that contains the four values of `b` in those
    chunks starts at or before 310 and ends at or after 330 (the read is `[306, 330)`: the 4 bytes in front are
    a value of channel `a`, which is fetched too) -/
example : ∀ (st st' : FState) (r : List ChanChunk),
    segReadChannel interFile interSeg1 C01Multi.exB 1 (some 2) st = .ok (r, st') →
      st'.trace = st.trace ++ [(306, 24)] ∧
      ∀ lo hi, (∀ r, r < 4 → Inside (306 + r * 6 + 4, 2) (lo, hi)) → lo ≤ 310 ∧ 330 ≤ hi := by
  obtain ⟨_, hk, hwf, hcs, hdp, _, hsame, hcol, _, hw, hnv, hlen⟩ := interSeg1_facts
  have hwf := segWFB_sound hwf
  intro st st' r hrun
  have hne : C19.dataObjs interSeg1 ≠ [] := by
    intro h; rw [h] at hw; cases hw
  obtain ⟨h1, _⟩ := interleaved_read_range interFile interSeg1 C01Multi.exB hwf hk 12 hcs 1 2 hne
    (by rw [hdp, hlen]; decide) st st' r hrun
  have e1 : (chunkBytes interSeg1 12 1).1 = 306 := by show interSeg1.dataPosition + 1 * 12 = 306; rw [hdp]
  rw [e1] at h1
  refine ⟨h1, ?_⟩
  obtain ⟨_, _, _, h4, _⟩ := interleaved_read_minimal interSeg1 hwf hk 12 hcs hsame C01Multi.exB 4 2 hcol 1 2
  rw [hw, hnv, hdp] at h4
  intro lo hi hcover
  have := h4 lo hi (by decide) hcover
  omega

end Examples

end Tdms.Proofs.C19Strings
