import TdmsProofs.Lemmas.C10PropLemmas
import TdmsProofs.Lemmas.C10Float

/-!
# C10 — "Defragmenting a file preserves its content"

`TdmsWriter.defragment(source, destination)` (model: `Tdms/Model/Defrag.lean`) is the composition
reader model ∘ `_read_file` layout ∘ writer model.  Headline theorems:

1. **structure of the copy** — `defragment_eq_written`, `defragment_some`, `defragSegs_structure`,
   `fileLayout_nodup`, `each_channel_once`, `source_channel_written`, `writer_never_rejects`;
2. **values** — `rewrittenType_preserves`, `channel_fixed_width`, `channel_fixed_width_reads_back`,
   `channel_string`, `channel_string_reads_back`, `channel_timestamp`, `channel_no_data`;
3. **properties as Python values** — `prop_value_preserved`, `int_value_preserved`, `bool_value_preserved`,
   `string_value_preserved`, `timestamp_value_preserved`, `float64_value_preserved`,
   `float32_value_preserved` (with `f32ToF64_value`, `f32ToF64_injective` from `Lemmas/C10Float.lean`),
   `written_props`;
4. **the copy is structurally valid** — `defrag_valid`;
5. non-vacuity: `demoSource`.
-/

namespace Tdms.Proofs.C10
open Tdms Tdms.Strict Tdms.Model Tdms.Model.Writer Tdms.Generated Tdms.Proofs.BytesW Tdms.Proofs.C08

/-! ## 1. structure of the copy -/

/-- **C10.1a** `defragment` fails only if reading the source or laying out its objects fails; the
    writer never rejects (`writer_never_rejects`) and adds no object of its own: the two files are the
    concatenated segments of exactly the lists `defragSegs` -/
theorem defragment_eq_written (file : Bytes) (v : Nat) :
    defragment file v =
      match readFile file with
      | .error _ => none
      | .ok r =>
        match fileLayout r.state.objects with
        | none => none
        | some groups =>
          some ((defragSegs r groups).flatMap (writeSegment false v),
                (defragSegs r groups).flatMap (writeSegment true v)) := by
  rw [defragment_eq]
  cases readFile file with
  | error e => rfl
  | ok r =>
    simp only
    cases fileLayout r.state.objects with
    | none => rfl
    | some groups => exact writeSession_defragSegs v r groups

theorem defragment_some {file : Bytes} {v : Nat} {d i : Bytes} (h : defragment file v = some (d, i)) :
    ∃ r groups, readFile file = .ok r ∧ fileLayout r.state.objects = some groups ∧
      d = (defragSegs r groups).flatMap (writeSegment false v) ∧
      i = (defragSegs r groups).flatMap (writeSegment true v) ∧
      writeProgram v [defragSegs r groups] = some (d, i) ∧
      programSegs [defragSegs r groups] = some [defragSegs r groups] := by
  rw [defragment_eq_written] at h
  cases hr : readFile file with
  | error e => simp [hr] at h
  | ok r =>
    rw [hr] at h
    simp only at h
    cases hl : fileLayout r.state.objects with
    | none => simp [hl] at h
    | some groups =>
      rw [hl] at h
      simp only [Option.some.injEq, Prod.mk.injEq] at h
      refine ⟨r, groups, rfl, hl, h.1.symm, h.2.symm, ?_, programSegs_defragSegs r groups⟩
      rw [writeProgram_single, writeSession_defragSegs, ← h.1, ← h.2]

/-- **C10.1b** `write_segment` is called with: `[root]`; then, for every group of the layout in
    order, `[group g]` followed by one `[channel g c …]` per channel of the group in order.  No call
    has two objects; the channel objects written are exactly the layout's channels; the group
    objects exactly its groups. -/
theorem defragSegs_structure (r : EagerResult) (groups : List GroupLayout) :
    defragSegs r groups =
      [rootObj r] :: groups.flatMap (fun g => [groupObj g] :: g.channels.map fun cm => [chanObj r g.name cm]) ∧
    (defragSegs r groups).head? = some [WObj.root (propsToW (rootProps r))] ∧
    (∀ s ∈ defragSegs r groups, s.length = 1) ∧
    (defragSegs r groups).flatten =
      rootObj r :: groups.flatMap (fun g => groupObj g :: g.channels.map (chanObj r g.name)) ∧
    chanNames (defragSegs r groups).flatten = layoutChannels groups ∧
    groupNames (defragSegs r groups).flatten = groups.map (·.name) ∧
    (defragSegs r groups).length = 1 + (groups.map fun g => 1 + g.channels.length).sum :=
  ⟨rfl, rfl, defragSegs_singletons r groups, defragSegs_flatten r groups, chanNames_defragSegs r groups,
    groupNames_defragSegs r groups, by
      simp only [defragSegs, List.length_cons]
      rw [Nat.add_comm]
      congr 1
      induction groups with
      | nil => rfl
      | cons g gs ih =>
        simp only [List.flatMap_cons, List.length_append, ih, List.map_cons, List.sum_cons]
        simp [groupSegs]
        omega⟩

/-- **C10.1c** the writer's duplicate check never fires and its root / group insertion never adds
    anything, for every layout (no hypothesis): each segment has one object, the root was written
    first, and each channel's group was written just before it -/
theorem writer_never_rejects (v : Nat) (r : EagerResult) (groups : List GroupLayout) :
    sessionSegs {} (defragSegs r groups) = some (defragSegs r groups) ∧
    (writeSession v {} (defragSegs r groups)).isSome = true := by
  refine ⟨sessionSegs_defragSegs r groups, ?_⟩
  rw [writeSession_defragSegs]
  rfl

/-- **C10.1d `fileLayout_nodup`** group names are distinct and channel names are distinct within a
    group; hence the (group, channel) pairs of the layout are distinct -/
theorem fileLayout_nodup {objects : ObjMetas} {groups : List GroupLayout} (h : fileLayout objects = some groups) :
    (groups.map (·.name)).Nodup ∧ (∀ g ∈ groups, (g.channels.map (·.1)).Nodup) ∧
    (layoutChannels groups).Nodup := by
  have h1 : (groups.map (·.name)).Nodup := by rw [fileLayout_names h]; exact layoutNames_nodup objects
  have h2 : ∀ g ∈ groups, (g.channels.map (·.1)).Nodup := by
    intro g hg
    rw [fileLayout_channels h g hg]
    exact layoutChannelsOf_nodup objects g.name
  exact ⟨h1, h2, layoutChannels_nodup groups h1 h2⟩

/-- **C10.1e** every channel of the source layout is written exactly once -/
theorem each_channel_once {file : Bytes} {r : EagerResult} {groups : List GroupLayout}
    (_hr : readFile file = .ok r) (hl : fileLayout r.state.objects = some groups) :
    (chanNames (defragSegs r groups).flatten).Nodup ∧
    ∀ gc ∈ layoutChannels groups, (chanNames (defragSegs r groups).flatten).count gc = 1 := by
  have hn := (fileLayout_nodup hl).2.2
  rw [chanNames_defragSegs]
  refine ⟨hn, fun gc hgc => ?_⟩
  rw [hn.count, if_pos hgc]

/-- **C10.1f** the layout's channels are exactly the channel objects of the source: an object whose
    path has two components `g`, `c` is written (once) as channel `c` of group `g`, and nothing else is;
    the metadata used for a written channel is a source object with that very path classification -/
theorem source_channel_written {objects : ObjMetas} {groups : List GroupLayout}
    (h : fileLayout objects = some groups) (g c : Bytes) :
    ((g, c) ∈ layoutChannels groups ↔ ∃ m ∈ objects, classifyPath m.path = .channel g c) ∧
    (∀ gl ∈ groups, ∀ cm ∈ gl.channels, cm.2 ∈ objects ∧ classifyPath cm.2.path = .channel gl.name cm.1) := by
  constructor
  · unfold layoutChannels
    simp only [List.mem_flatMap, List.mem_map, Prod.mk.injEq]
    constructor
    · rintro ⟨gl, hgl, cm, hcm, rfl, rfl⟩
      rw [fileLayout_channels h gl hgl] at hcm
      exact ⟨cm.2, layoutChannelsOf_mem objects gl.name cm hcm⟩
    · rintro ⟨m, hm, hc⟩
      have hg : g ∈ groups.map (·.name) := by
        rw [fileLayout_names h]; exact mem_layoutNames_of_channel hm hc
      obtain ⟨gl, hgl, rfl⟩ := List.mem_map.mp hg
      have hcn : c ∈ (layoutChannelsOf objects gl.name).map (·.1) :=
        mem_layoutChannelsOf_names.mpr ⟨m, hm, hc⟩
      rw [← fileLayout_channels h gl hgl] at hcn
      obtain ⟨cm, hcm, rfl⟩ := List.mem_map.mp hcn
      exact ⟨gl, hgl, cm, hcm, rfl, rfl⟩
  · intro gl hgl cm hcm
    rw [fileLayout_channels h gl hgl] at hcm
    exact layoutChannelsOf_mem objects gl.name cm hcm

/-! ## 2. values are preserved -/

/-- **C10.2a** the type the writer derives from the NumPy array has the same width and the same NumPy
    kind as the source type, for every type of the table (kernel-checked over `Generated.typeTable`)
    and trivially for unknown codes; the only codes that change are the `…WithUnit` floats -/
theorem rewrittenType_preserves :
    (∀ ty, typeSize (rewrittenType ty) = typeSize ty ∧
      (typeInfo (rewrittenType ty)).bind (·.npKind) = (typeInfo ty).bind (·.npKind) ∧
      (rewrittenType ty = tyString ↔ ty = tyString) ∧ (rewrittenType ty = tyVoid ↔ ty = tyVoid)) ∧
    (∀ t ∈ typeTable, typeSize (rewrittenType t.code) = typeSize t.code ∧
      (typeInfo (rewrittenType t.code)).bind (·.npKind) = t.npKind) ∧
    (∀ t ∈ typeTable, rewrittenType t.code ≠ t.code →
      (t.code = 25 ∧ rewrittenType t.code = 9) ∨ (t.code = 26 ∧ rewrittenType t.code = 10)) ∧
    rewrittenType tyString = tyString ∧ rewrittenType tyTimeStamp = tyTimeStamp :=
  ⟨rewrittenType_spec, by decide, rewrittenType_changes, rewrittenType_string, rewrittenType_timestamp⟩

/-- **C10.2b fixed-width channels** (all numeric types, Boolean, complex, and TimeStamp with at least
    one value).  Source type `ty` of width `sz`, values `vals` of `sz` bytes each, as the reader returns
    them.  The channel's segment declares `rewrittenType ty` (same width), `vals.length` values, its raw
    data are `vals.flatten`, and cutting them into `vals.length` items of `sz` bytes gives `vals`. -/
theorem channel_fixed_width (r : EagerResult) (g : Bytes) (cm : Bytes × ObjMeta) (ty sz : Nat) (v : Nat)
    (hty : cm.2.dataType = some ty) (hsz : typeSize ty = some sz)
    (hvals : ∀ x ∈ chanVals r cm.2, x.length = sz)
    (hts : ty = tyTimeStamp → chanVals r cm.2 ≠ []) :
    let vals := chanVals r cm.2
    let o := chanObj r g cm
    o = .channel g cm.1 ⟨rewrittenType ty, vals⟩ (propsToW cm.2.props) ∧
    typeSize (rewrittenType ty) = some sz ∧
    rawDataIndex o = encLE 4 20 ++ (encLE 4 (rewrittenType ty) ++ encLE 4 1 ++ encLE 8 vals.length) ∧
    toPIdx o = some (rewrittenType ty, vals.length, none) ∧
    objData o = vals.flatten ∧ (objData o).length = vals.length * sz ∧
    dataSize [o] = vals.length * sz ∧
    writeSegment false v [o] =
      leadin false v (metadata [o]).length (vals.length * sz) ++ (metadata [o] ++ vals.flatten) ∧
    splitEvery sz vals.length (objData o) = vals := by
  intro vals o
  have hsz' : typeSize (rewrittenType ty) = some sz := by rw [typeSize_rewrittenType]; exact hsz
  have ho : o = .channel g cm.1 ⟨rewrittenType ty, vals⟩ (propsToW cm.2.props) := by
    show chanObj r g cm = _
    unfold chanObj
    rw [chanData_vals hty]
    rintro (h | h)
    · exact absurd h (typeSize_ne_string hsz)
    · exact hts h
  have hdata : objData o = vals.flatten := by rw [ho]; exact objData_fixed hsz' _ _ _ _
  have hlen : vals.flatten.length = vals.length * sz := Tdms.Proofs.Bytes.flatten_length_of_all vals hvals
  have hds : dataSize [o] = vals.length * sz := by
    rw [ho]
    simp only [dataSize, List.map_cons, List.map_nil, List.sum_cons, List.sum_nil, Nat.add_zero,
      objectDataSize, if_neg (typeSize_ne_string hsz'), hsz', Option.getD_some]
    split
    · rename_i he
      have : vals = [] := by simpa using he
      simp [this]
    · exact Nat.mul_comm _ _
  refine ⟨ho, hsz', ?_, ?_, hdata, by rw [hdata, hlen], hds, ?_, ?_⟩
  · rw [ho]; exact rawDataIndex_fixed hsz' _ _ _ _
  · rw [ho]; exact toPIdx_fixed hsz' _ _ _ _
  · rw [writeSegment_data, hds]
    simp only [List.flatMap_cons, List.flatMap_nil, List.append_nil, hdata]
  · rw [hdata]
    exact Tdms.Proofs.Bytes.splitEvery_flatten (Tdms.Proofs.Bytes.typeSize_pos hsz) vals hvals rfl

/-- **C10.2c** the reader model, pointed at the copy's raw data for such a channel (little-endian
    segment, object of the rewritten type), returns the source values bit for bit -/
theorem channel_fixed_width_reads_back (r : EagerResult) (g : Bytes) (cm : Bytes × ObjMeta) (ty sz : Nat)
    (hty : cm.2.dataType = some ty) (hsz : typeSize ty = some sz)
    (hvals : ∀ x ∈ chanVals r cm.2, x.length = sz) (hts : ty = tyTimeStamp → chanVals r cm.2 ≠ [])
    (copy : Bytes) (pos : Nat) (tr : List (Nat × Nat)) (so : SegObj)
    (hso : so.dataType = some (rewrittenType ty))
    (hcopy : (copy.drop pos).take ((chanVals r cm.2).length * sz) = objData (chanObj r g cm)) :
    (readValues copy .little so (chanVals r cm.2).length).run ⟨pos, tr⟩ =
      .ok (chanVals r cm.2, ⟨pos + (chanVals r cm.2).length * sz, tr ++ [(pos, (chanVals r cm.2).length * sz)]⟩) := by
  obtain ⟨_, hsz', _, _, hdata, _⟩ := channel_fixed_width r g cm ty sz 0 hty hsz hvals hts
  refine Tdms.Proofs.C01.readValues_encObjValues_fixed copy .little so (rewrittenType ty) sz _ pos tr hso hsz' hvals ?_
  rw [hcopy, hdata, Tdms.Proofs.Bytes.encObjValues_fixed .little hsz']
  have hid : storeValue Endian.little (rewrittenType ty) = id := rfl
  rw [hid, List.map_id]

/-- **C10.2d strings** (at least one value): the copy declares `String`, the number of values and the
    total size `4n + Σ len`; the raw data are the offset table followed by the string bytes, exactly
    the format's contiguous string layout `encObjValues .little tyString vals` -/
theorem channel_string (r : EagerResult) (g : Bytes) (cm : Bytes × ObjMeta)
    (hty : cm.2.dataType = some tyString) (hne : chanVals r cm.2 ≠ []) :
    let vals := chanVals r cm.2
    let o := chanObj r g cm
    o = .channel g cm.1 ⟨tyString, vals⟩ (propsToW cm.2.props) ∧
    rawDataIndex o = encLE 4 28 ++ (encLE 4 tyString ++ encLE 4 1 ++ encLE 8 vals.length) ++
        encLE 8 (4 * vals.length + vals.flatten.length) ∧
    objData o = (cumOffsets 0 vals).flatMap (encLE 4) ++ vals.flatten ∧
    objData o = encObjValues .little tyString vals ∧
    (objData o).length = 4 * vals.length + vals.flatten.length := by
  intro vals o
  have ho : o = .channel g cm.1 ⟨tyString, vals⟩ (propsToW cm.2.props) := by
    show chanObj r g cm = _
    unfold chanObj
    rw [chanData_vals hty (fun _ => hne), rewrittenType_string]
  refine ⟨ho, ?_, ?_, ?_, ?_⟩
  · rw [ho]; exact rawDataIndex_string _ _ _ _
  · rw [ho, objData_string]; rfl
  · rw [ho]; exact objData_string _ _ _ _
  · rw [ho, objData_string]; exact Tdms.Proofs.C01.encObjValues_string_size _ _

/-- **C10.2e** the reader's `String.read_values`, pointed at the copy's raw data of a string channel,
    decodes the same byte strings (offsets fit the 32-bit table: total length below `2^32`) -/
theorem channel_string_reads_back (r : EagerResult) (g : Bytes) (cm : Bytes × ObjMeta)
    (hty : cm.2.dataType = some tyString) (hne : chanVals r cm.2 ≠ [])
    (hlen : (chanVals r cm.2).flatten.length < 2 ^ 32)
    (copy rest : Bytes) (pos : Nat) (tr : List (Nat × Nat))
    (hcopy : copy.drop pos = objData (chanObj r g cm) ++ rest) :
    ∃ tr', (readStringValues copy .little (chanVals r cm.2).length).run ⟨pos, tr⟩ =
      .ok (chanVals r cm.2, ⟨pos + (objData (chanObj r g cm)).length, tr'⟩) := by
  obtain ⟨_, _, _, hdata, _⟩ := channel_string r g cm hty hne
  rw [hdata] at hcopy ⊢
  exact Tdms.Proofs.C01.readStringValues_encObjValues copy .little _ pos tr rest hlen hcopy

/-- **C10.2f timestamps** (16-byte values, at least one): type unchanged, bytes copied verbatim -/
theorem channel_timestamp (r : EagerResult) (g : Bytes) (cm : Bytes × ObjMeta)
    (hty : cm.2.dataType = some tyTimeStamp) (hvals : ∀ x ∈ chanVals r cm.2, x.length = 16)
    (hne : chanVals r cm.2 ≠ []) :
    chanObj r g cm = .channel g cm.1 ⟨tyTimeStamp, chanVals r cm.2⟩ (propsToW cm.2.props) ∧
    objData (chanObj r g cm) = (chanVals r cm.2).flatten ∧
    splitEvery 16 (chanVals r cm.2).length (objData (chanObj r g cm)) = chanVals r cm.2 := by
  obtain ⟨h1, _, _, _, h2, _, _, _, h3⟩ :=
    channel_fixed_width r g cm tyTimeStamp 16 0 hty (by decide) hvals (fun _ => hne)
  rw [rewrittenType_timestamp] at h1
  exact ⟨h1, h2, h3⟩

/-- **C10.2g "no data"**: channels without data type, and string / timestamp channels without values,
    are written with the no-data index `0xFFFFFFFF` and no raw data -/
theorem channel_no_data (r : EagerResult) (g : Bytes) (cm : Bytes × ObjMeta)
    (h : cm.2.dataType = none ∨
      (∃ ty, cm.2.dataType = some ty ∧ (ty = tyString ∨ ty = tyTimeStamp) ∧ chanVals r cm.2 = [])) :
    chanObj r g cm = .channel g cm.1 ⟨tyVoid, []⟩ (propsToW cm.2.props) ∧
    rawDataIndex (chanObj r g cm) = [0xFF, 0xFF, 0xFF, 0xFF] ∧
    toPIdx (chanObj r g cm) = none ∧ objData (chanObj r g cm) = [] := by
  have hd : chanData r cm.2 = ⟨tyVoid, []⟩ := by
    rcases h with h | ⟨ty, h1, h2, h3⟩
    · exact chanData_none h
    · exact chanData_empty h1 h2 h3
  unfold chanObj
  rw [hd]
  exact ⟨rfl, rfl, rfl, objData_void _ _ _⟩

/-- the width hypothesis of `channel_fixed_width` is what the contiguous reader guarantees: every value
    `readValues` returns for a fixed-width type has exactly the type's width -/
theorem reader_values_have_type_width (file : Bytes) (e : Endian) (o : SegObj) (n : Nat) (st st' : FState)
    (vals : List Bytes) (ty sz : Nat) (hty : o.dataType = some ty) (hsz : typeSize ty = some sz)
    (h : readValues file e o n st = .ok (vals, st')) : ∀ x ∈ vals, x.length = sz :=
  readValues_widths file e o n st st' vals ty sz hty hsz h

/-- whatever the channel, nothing but the source values is ever written -/
theorem channel_values_only_from_source (r : EagerResult) (m : ObjMeta) :
    (chanData r m).vals = chanVals r m ∨ ((chanData r m).ty = tyVoid ∧ (chanData r m).vals = []) :=
  chanData_vals_cases r m

/-! ## 3. properties are preserved as Python values -/

/-- the written properties, as the strict parser returns them, are the `rereadProp`s of the source
    properties: name, the writer's type code, the writer's value bytes -/
theorem written_props (ps : List PropVal) :
    (propsToW ps).map toPProp = ps.map fun p => ((rereadProp p).name, (rereadProp p).ty, (rereadProp p).val) := by
  simp [propsToW, toPProp, rereadProp, List.map_map, Function.comp_def]

/-- "every property the reader can produce": whatever `read_property` returns is `ReadableProp` -/
theorem reader_props_readable (e : Endian) (n : Nat) (bs rest : Bytes) (ps : List PropVal)
    (h : readProperties e n bs = .ok (ps, rest)) : ∀ p ∈ ps, ReadableProp p :=
  readProperties_readable e n bs rest ps h

/-- **C10.3 `prop_value_preserved`**: for every property `p` the reader can produce, the property
    written for it (`rereadProp p`: the writer's type and bytes for the Python value the reader handed
    out) is again readable and denotes the same Python value -/
theorem prop_value_preserved (p : PropVal) (h : ReadableProp p) :
    propToPyVal (rereadProp p) = propToPyVal p := by
  rcases readable_cases h with h | ⟨h, hl⟩ | ⟨h, hl⟩ | ⟨h, hl⟩ | ⟨h, hl⟩ | ⟨h, hl⟩ | ⟨h, hl⟩ | ⟨h, hl⟩ |
      ⟨h, hl⟩ | ⟨h, hl⟩ | ⟨h, _⟩ | ⟨h, _⟩ | ⟨h, _⟩ | ⟨h, _⟩ | ⟨h, _⟩
  · exact str_reread p h
  · exact timestamp_reread p h hl
  · exact int_reread p (by omega) (by omega) (by omega)
  · exact int_reread p (by omega) (by omega) (by omega)
  · exact int_reread p (by omega) (by omega) (by omega)
  · exact int_reread p (by omega) (by omega) (by omega)
  · exact int_reread p (by omega) (by omega) (by omega)
  · exact int_reread p (by omega) (by omega) (by omega)
  · exact int_reread p (by omega) (by omega) (by omega)
  · exact int_reread p (by omega) (by omega) (by omega)
  · exact f32_reread p (.inl h)
  · exact f64_reread p (.inl h)
  · exact f32_reread p (.inr h)
  · exact f64_reread p (.inr h)
  · exact bool_reread p h

/-- **integers**, all 8 types: the written type (`Int32`, `Int64` or `Uint64`) and bytes decode, with
    the signedness of the written type, to the integer the source property denotes -/
theorem int_value_preserved (p : PropVal) (h : ReadableProp p)
    (hty : p.ty = 1 ∨ p.ty = 2 ∨ p.ty = 3 ∨ p.ty = 4 ∨ p.ty = 5 ∨ p.ty = 6 ∨ p.ty = 7 ∨ p.ty = 8) :
    propToPyVal p = .int (intValueOf p) ∧
    Tdms.Proofs.C07.decodeIntProp (toTdmsValue (propToPyVal p)).1 (toTdmsValue (propToPyVal p)).2 = intValueOf p ∧
    -2 ^ 63 ≤ intValueOf p ∧ intValueOf p < 2 ^ 64 ∧
    (toTdmsValue (propToPyVal p)).1 = intPropertyType (intValueOf p) := by
  have hl : 0 < p.val.length ∧ p.val.length ≤ 8 := by
    rcases readable_cases h with h | ⟨h, hl⟩ | ⟨h, hl⟩ | ⟨h, hl⟩ | ⟨h, hl⟩ | ⟨h, hl⟩ | ⟨h, hl⟩ | ⟨h, hl⟩ |
      ⟨h, hl⟩ | ⟨h, hl⟩ | ⟨h, _⟩ | ⟨h, _⟩ | ⟨h, _⟩ | ⟨h, _⟩ | ⟨h, _⟩ <;>
      first | (constructor <;> omega) | (exfalso; simp only [tyString, tyTimeStamp] at h; omega)
  refine ⟨propToPyVal_int p hty, int_value_preserved' p hty hl.1 hl.2, (intValueOf_range hl.1 hl.2).1,
    (intValueOf_range hl.1 hl.2).2, ?_⟩
  rw [propToPyVal_int p hty]
  rfl

/-- **Boolean** -/
theorem bool_value_preserved (p : PropVal) (h : p.ty = tyBoolean) :
    toTdmsValue (propToPyVal p) = (tyBoolean, [if decLE p.val ≠ 0 then 1 else 0]) ∧
    (decLE (toTdmsValue (propToPyVal p)).2 ≠ 0 ↔ decLE p.val ≠ 0) := by
  rw [propToPyVal_bool p h]
  by_cases hz : decLE p.val = 0 <;> simp [toTdmsValue, hz, decLE]

/-- **strings**: type and bytes unchanged -/
theorem string_value_preserved (p : PropVal) (h : p.ty = tyString) :
    toTdmsValue (propToPyVal p) = (tyString, p.val) := by
  rw [propToPyVal_str p h]; rfl

/-- **timestamps**: the 16 bytes are copied verbatim, and decode to the same `(seconds, fractions)` -/
theorem timestamp_value_preserved (p : PropVal) (h : p.ty = tyTimeStamp) (hl : p.val.length = 16) :
    toTdmsValue (propToPyVal p) = (tyTimeStamp, p.val) ∧
    Timestamp.ofBytesLE (toTdmsValue (propToPyVal p)).2 = Timestamp.ofBytesLE p.val ∧
    Timestamp.ofBytesLE (Timestamp.toBytesLE (Timestamp.ofBytesLE p.val).1 (Timestamp.ofBytesLE p.val).2) =
      Timestamp.ofBytesLE p.val := by
  have hb := timestamp_bytes p h hl
  refine ⟨hb, by rw [hb], ?_⟩
  obtain ⟨h1, h2, h3⟩ := ofBytesLE_range p.val hl
  exact Tdms.Proofs.C12.raw_bytes_roundtrip_LE _ _ h1 h2 h3

/-- **float64** (`DoubleFloat`, `DoubleFloatWithUnit`): the 8 bytes verbatim, written as `DoubleFloat` -/
theorem float64_value_preserved (p : PropVal) (h : p.ty = 10 ∨ p.ty = 26) :
    toTdmsValue (propToPyVal p) = (tyDouble, p.val) := by
  rw [propToPyVal_f64 p h]; rfl

/-- **float32** (`SingleFloat`, `SingleFloatWithUnit`): written as the `DoubleFloat` with the same
    value — same sign and magnitude for ±0, subnormals and normals, same-signed infinity, NaN for NaN
    (`f32ToF64_value`); distinct non-NaN float32 values stay distinct (`f32ToF64_injective`) -/
theorem float32_value_preserved (p : PropVal) (h : p.ty = 9 ∨ p.ty = 25) (hl : p.val.length = 4) :
    toTdmsValue (propToPyVal p) = (tyDouble, encLE 8 (f32ToF64 (decLE p.val))) ∧
    decLE (toTdmsValue (propToPyVal p)).2 = f32ToF64 (decLE p.val) ∧
    f64Val (decLE (toTdmsValue (propToPyVal p)).2) = f32Val (decLE p.val) := by
  have hb : decLE p.val < 2 ^ 32 := by
    have := decLE_lt p.val
    rw [hl] at this
    simpa using this
  have hd : decLE (encLE 8 (f32ToF64 (decLE p.val))) = f32ToF64 (decLE p.val) :=
    decLE_encLE_of_lt (by simpa using f32ToF64_lt _ hb)
  rw [propToPyVal_f32 p h]
  refine ⟨rfl, hd, ?_⟩
  show f64Val (decLE (encLE 8 (f32ToF64 (decLE p.val)))) = _
  rw [hd, f32ToF64_value _ hb]

/-! ## 4. the copy is structurally valid -/

theorem writableProgram_defragSegs_iff (r : EagerResult) (groups : List GroupLayout) :
    WritableProgram [defragSegs r groups] ↔ ∀ objs ∈ defragSegs r groups, WritableObjs objs := by
  unfold WritableProgram
  rw [programSegs_defragSegs]
  simp

/-- the object paths of the copy, in file order -/
def copyPaths (groups : List GroupLayout) : List Bytes :=
  Path.componentsToPathBytes [] ::
    groups.flatMap fun g =>
      Path.componentsToPathBytes [g.name] :: g.channels.map fun cm => Path.componentsToPathBytes [g.name, cm.1]

theorem paths_defragSegs (r : EagerResult) (groups : List GroupLayout) :
    (defragSegs r groups).flatten.map (·.path) = copyPaths groups := by
  rw [defragSegs_flatten]
  unfold copyPaths
  simp only [List.map_cons, rootObj, WObj.path, List.cons.injEq, true_and]
  induction groups with
  | nil => rfl
  | cons g gs ih =>
    simp only [List.flatMap_cons, List.map_append, List.map_cons, groupObj,
      List.map_map, List.cons_append, List.cons.injEq, true_and]
    congr 1

/-- **C10.4** when `defragment` succeeds and the source content fits the fields of the format
    (`WritableProgram`: lengths and counts below `2^32` / `2^64`, values of their type's width), the
    strict structural check of C08 accepts the copy and its index file (every segment self-consistent,
    root first, groups before channels, index = data minus raw data), and the object paths of the copy
    are: root, then for each group its path followed by its channels' paths -/
theorem defrag_valid (file : Bytes) (v : Nat) (hv : v < 2 ^ 31) (d i : Bytes)
    (h : defragment file v = some (d, i)) :
    ∃ r groups, readFile file = .ok r ∧ fileLayout r.state.objects = some groups ∧
      (WritableProgram [defragSegs r groups] →
        checkWritten d (some i) = .ok ((defragSegs r groups).map (expectedSeg v)) ∧
        checkWritten d none = .ok ((defragSegs r groups).map (expectedSeg v)) ∧
        (((defragSegs r groups).map (expectedSeg v)).flatMap fun s => s.objs.map (·.path)) = copyPaths groups ∧
        ((defragSegs r groups).map (expectedSeg v)).length = 1 + (groups.map fun g => 1 + g.channels.length).sum) := by
  obtain ⟨r, groups, hr, hl, _, _, hw, hp⟩ := defragment_some h
  refine ⟨r, groups, hr, hl, fun hW => ?_⟩
  obtain ⟨Ls, hp', h1, h2⟩ := checkWritten_ok v hv _ d i hw hW
  rw [hp] at hp'
  cases hp'
  simp only [List.flatten_cons, List.flatten_nil, List.append_nil] at h1 h2
  refine ⟨h1, h2, ?_, ?_⟩
  · rw [paths_expectedSegs, paths_defragSegs]
  · rw [List.length_map]; exact (defragSegs_structure r groups).2.2.2.2.2.2

/-- sufficient for the property part of `WritableProgram`: readable source properties with names
    (and string values) shorter than `2^32` bytes are re-encoded into writable properties -/
theorem propsToW_writable (ps : List PropVal) (h : ∀ p ∈ ps, ReadableProp p ∧ p.name.length < 2 ^ 32 ∧
      (p.ty = tyString → p.val.length < 2 ^ 32)) :
    ∀ q ∈ propsToW ps, WritableProp q := by
  intro q hq
  obtain ⟨p, hp, rfl⟩ := List.mem_map.mp hq
  obtain ⟨h1, h2, h3⟩ := h p hp
  exact ⟨h2, propToPyVal_writable h1 h3⟩

/-- sufficient for the data part: a fixed-width channel whose values have the type's width -/
theorem chanData_writable_fixed (r : EagerResult) (m : ObjMeta) (ty sz : Nat) (hty : m.dataType = some ty)
    (hsz : typeSize ty = some sz) (hvals : ∀ x ∈ chanVals r m, x.length = sz) (hn : (chanVals r m).length < 2 ^ 64) :
    WritableData (chanData r m) := by
  rcases chanData_vals_cases r m with hv | ⟨h1, h2⟩
  · unfold chanData at hv ⊢
    rw [hty] at hv ⊢
    simp only at hv ⊢
    split
    · simp [WritableData]
    · have hsz' := typeSize_rewrittenType ty
      rw [hsz] at hsz'
      simp only [WritableData, if_neg (typeSize_ne_void hsz'), if_neg (typeSize_ne_string hsz'), hsz']
      exact ⟨hvals, hn⟩
  · unfold WritableData
    rw [if_pos h1]
    exact h2

/-! ## 5. non-vacuity -/

def pRoot : Bytes := [0x2f]                                              -- "/"
def pG : Bytes := [0x2f, 0x27, 0x67, 0x27]                               -- "/'g'"
def pA : Bytes := [0x2f, 0x27, 0x67, 0x27, 0x2f, 0x27, 0x61, 0x27]       -- "/'g'/'a'"
def pS : Bytes := [0x2f, 0x27, 0x67, 0x27, 0x2f, 0x27, 0x73, 0x27]       -- "/'g'/'s'"

/-- a source file with two segments: the int32 channel `a` is fragmented over both (2 + 3 values),
    the string channel `s` has two values, the root has a float32 property `k = 1.5`, the group an
    int8 property `n = -2` -/
def demoSource : FileEnc :=
  [ { hasMeta := true, newList := true, interleaved := false, big := false, rawFlag := true,
      daqmxFlag := false, version := 4713,
      objs := [ ⟨pRoot, .noData, [⟨[0x6b], 9, [0, 0, 0xc0, 0x3f]⟩]⟩,
                ⟨pG, .noData, [⟨[0x6e], 1, [0xfe]⟩]⟩,
                ⟨pA, .full 3 2 0, []⟩,
                ⟨pS, .full 0x20 2 11, []⟩ ],
      padding := 0,
      chunks := [[ [[1, 0, 0, 0], [0xff, 0xff, 0xff, 0xff]], [[0x68, 0x69], [0x78]] ]],
      lengthUnknown := false },
    { hasMeta := true, newList := true, interleaved := false, big := false, rawFlag := true,
      daqmxFlag := false, version := 4713,
      objs := [ ⟨pA, .full 3 3 0, []⟩ ],
      padding := 0,
      chunks := [[ [[3, 0, 0, 0], [4, 0, 0, 0], [5, 0, 0, 0]] ]],
      lengthUnknown := false } ]

def demoBytes : Bytes := match encodeFile demoSource with | .ok b => b | .error _ => []

def demoChannels : List ChannelData :=
  [ ⟨pA, some [[1, 0, 0, 0], [0xff, 0xff, 0xff, 0xff], [3, 0, 0, 0], [4, 0, 0, 0], [5, 0, 0, 0]], []⟩,
    ⟨pS, some [[0x68, 0x69], [0x78]], []⟩ ]

set_option maxRecDepth 100000 in
/-- the source: 263 bytes, two segments, read eagerly -/
theorem demo_source :
    (encodeFile demoSource).toOption.map (·.length) = some 263 ∧
    (readFile demoBytes).toOption.map (·.channels) = some demoChannels ∧
    (readFile demoBytes).toOption.map (·.state.segments.length) = some 2 := by decide +kernel

set_option maxRecDepth 100000 in
/-- `defragment` succeeds; the copy has 4 segments (root, group, two channels), reads back with the
    same channel values, the float32 property widened to the float64 1.5, the int8 property as int32 -/
theorem demo_defragment :
    (defragment demoBytes 4713).isSome = true ∧
    ((defragment demoBytes 4713).bind fun di => (readFile di.1).toOption).map (·.channels) = some demoChannels ∧
    ((defragment demoBytes 4713).bind fun di => (readFile di.1).toOption).map (·.state.segments.length) = some 4 ∧
    ((defragment demoBytes 4713).bind fun di => (readFile di.1).toOption).map
        (fun r => r.state.objects.map fun m => (m.path, m.props, m.dataType, m.numValues)) =
      some [ (pRoot, [⟨[0x6b], 10, [0, 0, 0, 0, 0, 0, 0xf8, 0x3f]⟩], none, 0),
             (pG, [⟨[0x6e], 3, [0xfe, 0xff, 0xff, 0xff]⟩], none, 0),
             (pA, [], some 3, 5), (pS, [], some 0x20, 2) ] := by decide +kernel

set_option maxRecDepth 100000 in
/-- the hypotheses of `defrag_valid` are satisfiable: the demo's segment lists are writable, and the
    strict check accepts the copy with its index -/
theorem demo_valid :
    ((readFile demoBytes).toOption.bind fun r => (fileLayout r.state.objects).map fun groups =>
      (decide (WritableProgram [defragSegs r groups]), copyPaths groups)) =
      some (true, [pRoot, pG, pA, pS]) ∧
    ((defragment demoBytes 4713).map fun di => (checkWritten di.1 (some di.2)).toOption.map (·.length)) =
      some (some 4) := by decide +kernel

/-- the theorems apply to the demo (instantiation of `defrag_valid`) -/
example : ∃ d i, defragment demoBytes 4713 = some (d, i) ∧ (checkWritten d (some i)).isOk = true := by
  cases hd : defragment demoBytes 4713 with
  | none => exact absurd (congrArg Option.isSome hd) (by rw [demo_defragment.1]; decide)
  | some di =>
    obtain ⟨d, i⟩ := di
    refine ⟨d, i, rfl, ?_⟩
    have := demo_valid.2
    rw [hd] at this
    simp only [Option.map_some, Option.some.injEq] at this
    cases hc : checkWritten d (some i) with
    | error e => rw [hc] at this; cases this
    | ok s => rfl

/-- a file whose object path has three components is rejected by the layout (`ObjectPath` raises):
    `defragment` returns `none` -/
example : fileLayout [{ path := Path.componentsToPathBytes [[0x61], [0x62], [0x63]] }] = none := by decide

/-- two channels with the same name in different groups are different channels -/
example : (fileLayout [{ path := Path.componentsToPathBytes [[0x61], [0x63]] },
                       { path := Path.componentsToPathBytes [[0x62], [0x63]] }]).map
    (fun gs => gs.map fun g => (g.name, g.channels.map (·.1))) =
    some [([0x61], [[0x63]]), ([0x62], [[0x63]])] := by decide

end Tdms.Proofs.C10
