import TdmsProofs.C18Lemmas
import TdmsProofs.C18Grid.B
import TdmsProofs.C18Grid.E
import TdmsProofs.C18Grid.J
import TdmsProofs.C18Grid.KMono
import TdmsProofs.C18Grid.KInv
import TdmsProofs.C18Grid.N
import TdmsProofs.C18Grid.R
import TdmsProofs.C18Grid.S
import TdmsProofs.C18Grid.T

/-! # C18 — Thermocouple conversions follow the NIST ITS-90 reference functions

Headline theorems only (definitions and helper lemmas: `C18Lemmas.lean`, grid chunks: `C18Grid/*.lean`).

* `Tdms.Generated.*`  : tables regenerated from `nptdms/thermocouples.py` (exact rationals);
* `Tdms.Reference.*`  : NIST ITS-90 forward tables vendored from `thermocouples_reference` (exact);
* `Tdms.Model.Thermocouple.*` : model of `Thermocouple.celsius_to_mv / mv_to_celsius`,
  `np.piecewise`, `ThermocoupleScaling`.

Proof (∀ / finite-exact): `forward_tables_are_nist`, `forward_is_nist_function`, `pieces_partition`,
`conversions_total`, `boundary_continuous`, `direction_units`.
Grid evidence (kernel-evaluated on explicit rational grids, NOT ∀-theorems): every `*_partial`. -/

namespace Tdms.Proofs.C18
open Tdms.Generated Tdms.Reference Tdms.Model.Thermocouple

/-! ## Tables -/

/-- Each of the eight generated forward tables is the vendored NIST table of the same name:
coefficient lists identical piece by piece, interior boundaries identical, and the exponential term
(type K only; none elsewhere) identical and attached to the same temperatures (`t ≥ 0`).
All 161 coefficients, 10 interior boundaries and the 3 exponential parameters agree exactly. -/
theorem forward_tables_are_nist :
    tcTables.map (·.name) = nistForward.map (·.name) ∧
    (∀ tn ∈ tcTables.zip nistForward, ForwardMatches tn.1 tn.2) ∧
    type_k.expTerm = some nistExpTermK ∧ expTermFrom = nistExpTermKFrom ∧
    (∀ t ∈ tcTables, t.name ≠ "type_k" → t.expTerm = none) := by
  decide +kernel

/-- Only the ends differ: npTDMS leaves the first piece open below and the last piece open above,
where NIST's tables end at `nistRange`. -/
theorem open_ends_vs_nist_range :
    ∀ tn ∈ tcTables.zip nistForward,
      (tn.1.forward.head?.map (·.lo) = some none ∧ tn.1.forward.getLast?.map (·.hi) = some none) ∧
      nistRange tn.1.name = (do
        let a ← tn.2.pieces.head?
        let b ← tn.2.pieces.getLast?
        pure (a.lo, b.hi)) := by
  decide +kernel

/-! ## Partition, totality -/

/-- The finite facts: every forward and inverse piece list is contiguous (first `lo = none`, last
`hi = none`, each `hi` equals the next `lo`, boundaries strictly increasing). -/
theorem tables_contiguous :
    ∀ t ∈ tcTables, contiguous t.forward = true ∧ contiguous t.inverse = true := by
  decide +kernel

/-- `Range(None, None)` (which `Range.__init__` rejects) occurs nowhere. -/
theorem no_piece_unbounded_both :
    ∀ t ∈ tcTables, ∀ p ∈ t.forward ++ t.inverse, ¬ (p.lo = none ∧ p.hi = none) := by
  decide +kernel

/-- For every table and EVERY rational `x`, exactly one forward piece and exactly one inverse piece
accepts `x` (`Range.within_range`: inclusive start, exclusive end).  Hence the `np.piecewise`
conditions never overlap and never leave a gap. -/
theorem pieces_partition :
    ∀ t ∈ tcTables, ∀ x : Rat, acceptCount t.forward x = 1 ∧ acceptCount t.inverse x = 1 := by
  intro t ht x
  have h := tables_contiguous t ht
  exact ⟨acceptCount_contiguous _ h.1 x, acceptCount_contiguous _ h.2 x⟩

/-- Consequently `np.piecewise` (last accepting piece) selects the unique accepting piece — the same
one first-match selection would take — and the conversions are total: the `nan` default branch is
never taken, for any rational input (in or out of NIST's range). -/
theorem conversions_total :
    ∀ t ∈ tcTables, ∀ x : Rat,
      (∃ p, p ∈ t.forward ∧ acceptPiece p x = true ∧ selectPiece t.forward x = some p ∧
            selectFirst t.forward x = some p ∧ forwardPoly t x = some (horner p.coeffs x)) ∧
      (∃ p, p ∈ t.inverse ∧ acceptPiece p x = true ∧ selectPiece t.inverse x = some p ∧
            selectFirst t.inverse x = some p ∧ inversePoly t x = some (horner p.coeffs x)) := by
  intro t ht x
  have h := pieces_partition t ht x
  obtain ⟨p, hp1, hp2, hp3, hp4⟩ := selectPiece_isSome_of_unique t.forward x h.1
  obtain ⟨q, hq1, hq2, hq3, hq4⟩ := selectPiece_isSome_of_unique t.inverse x h.2
  exact ⟨⟨p, hp1, hp2, hp3, hp4, by simp [forwardPoly, evalPieces, hp3]⟩,
         ⟨q, hq1, hq2, hq3, hq4, by simp [inversePoly, evalPieces, hq3]⟩⟩

theorem forwardPoly_ne_none : ∀ t ∈ tcTables, ∀ x : Rat, forwardPoly t x ≠ none := by
  intro t ht x
  obtain ⟨⟨p, _, _, _, _, h⟩, _⟩ := conversions_total t ht x
  simp [h]

theorem inversePoly_ne_none : ∀ t ∈ tcTables, ∀ x : Rat, inversePoly t x ≠ none := by
  intro t ht x
  obtain ⟨_, ⟨p, _, _, _, _, h⟩⟩ := conversions_total t ht x
  simp [h]

/-- The model's forward function IS NIST's function on NIST's range (a ∀ over ℚ): for every NIST
piece `[lo, hi]` and every `lo ≤ x < hi`, `celsius_to_mv x` is that piece's polynomial at `x`, plus
that piece's exponential term (if it has one) with exponent `a1 (x − a2)²`. -/
theorem forward_is_nist_function :
    ∀ tn ∈ tcTables.zip nistForward, ∀ p ∈ tn.2.pieces, ∀ x : Rat, p.lo ≤ x → x < p.hi →
      forwardPoly tn.1 x = some (horner p.coeffs x) ∧
      forwardExp tn.1 x = p.expTerm.map (fun a => (a.1, a.2.1 * ((x - a.2.2) * (x - a.2.2)))) :=
  forward_is_nist_function_aux

/-- … and at the closed upper end of NIST's range (which belongs to the open-ended last piece). -/
theorem forward_is_nist_function_at_top :
    ∀ tn ∈ tcTables.zip nistForward, ∀ p, tn.2.pieces.getLast? = some p →
      forwardPoly tn.1 p.hi = some (horner p.coeffs p.hi) ∧
      forwardExp tn.1 p.hi = p.expTerm.map (fun a => (a.1, a.2.1 * ((p.hi - a.2.2) * (p.hi - a.2.2)))) := by
  decide +kernel

/-! ## Continuity at the piece boundaries (exact rational evaluation) -/

/-- At every interior boundary `b` of the polynomial pieces, `|pᵢ(b) − pᵢ₊₁(b)| ≤ ε`, evaluated
exactly.  Measured jumps (NOTES.md): forward B 2.17e-9, J 7.49e-8, R 1.64e-11 / 1.71e-9,
S 5.81e-11 / 2.73e-10 mV, E/N/T exactly 0; inverse B 0.0267, J 0 / 0.0675, K 0 / 0.0331,
N 0 / 0.0118, R 0.00875 / 0.00233 / 0.00083, S 0.00188 / 0.00285 / 0.00130 °C, E/T exactly 0.
Type K forward is treated separately below (its polynomial pieces differ at 0 °C by exactly the value of
the exponential term). -/
theorem boundary_continuous :
    -- forward (mV)
    JumpsWithin type_b.forward (22 / 10 ^ 10) ∧
    JumpsWithin type_e.forward 0 ∧
    JumpsWithin type_j.forward (75 / 10 ^ 9) ∧
    JumpsWithin type_n.forward 0 ∧
    JumpsWithin type_r.forward (18 / 10 ^ 10) ∧
    JumpsWithin type_s.forward (28 / 10 ^ 11) ∧
    JumpsWithin type_t.forward 0 ∧
    -- inverse (°C)
    JumpsWithin type_b.inverse (27 / 1000) ∧
    JumpsWithin type_e.inverse 0 ∧
    JumpsWithin type_j.inverse (68 / 1000) ∧
    JumpsWithin type_k.inverse (34 / 1000) ∧
    JumpsWithin type_n.inverse (12 / 1000) ∧
    JumpsWithin type_r.inverse (88 / 10000) ∧
    JumpsWithin type_s.inverse (29 / 10000) ∧
    JumpsWithin type_t.inverse 0 ∧
    -- every boundary is covered: number of jumps = number of pieces − 1
    (∀ t ∈ tcTables, (boundaryJumps t.forward).length + 1 = t.forward.length ∧
                     (boundaryJumps t.inverse).length + 1 = t.inverse.length) := by
  decide +kernel

/-- Type K, forward, boundary 0 °C — polynomial part (exact): the two polynomials differ by exactly
0.017600413686 mV, which is what the exponential term contributes at 0 °C up to 2e-9. -/
theorem boundary_continuous_K_poly :
    boundaryJumps type_k.forward = [((0 : Rat), (17600413686 / 10 ^ 12 : Rat))] := by
  decide +kernel

/-- Type K, forward, boundary 0 °C — complete function.  With `(l, u) = expEnclosure (a1·a2²)` (the
rational enclosure of `exp (a1 (0 − a2)²)`, width < 1.1e-34) and `a0 ≥ 0`, the jump
`p₀(0) − (p₁(0) + a0·E)` lies in `[−2e-9, 2e-9]` for both ends `E = l`, `E = u`, hence (monotone in `E`)
for every `E ∈ [l, u]`; measured value −1.974e-9 mV.  `_partial`: that `l ≤ Real.exp (a1·a2²) ≤ u` is
not provable in core Lean (no real `exp`); see `expEnclosure_sound` in the optional `C18ExpSound.lean`. -/
theorem boundary_continuous_K_exp_partial :
    ∃ a0 a1 a2 l u, type_k.expTerm = some (a0, a1, a2) ∧
      expEnclosure (a1 * ((0 - a2) * (0 - a2))) = (l, u) ∧ 0 ≤ a0 ∧ 0 < l ∧ l ≤ u ∧ u - l ≤ 11 / 10 ^ 35 ∧
      -(2 / 10 ^ 9) ≤ 17600413686 / 10 ^ 12 - a0 * u ∧
      17600413686 / 10 ^ 12 - a0 * l ≤ -(19 / 10 ^ 10) := by
  refine ⟨148247 / 1250000, -147929 / 1250000000, 634843 / 5000,
    (expEnclosure ((-147929 / 1250000000 : Rat) * ((0 - 634843 / 5000) * (0 - 634843 / 5000)))).1,
    (expEnclosure ((-147929 / 1250000000 : Rat) * ((0 - 634843 / 5000) * (0 - 634843 / 5000)))).2, ?_⟩
  decide +kernel

/-! ## Direction and units -/

/-- `ThermocoupleScaling.scale`: direction 1 is `1000 · celsius_to_mv(x)` (°C → µV), every other
direction is `mv_to_celsius(x / 1000)` (µV → °C); the exponential term is scaled likewise; missing
properties default to type code 10072 (= type J) and direction 0 (µV → °C); the NI type codes map to
the eight tables. -/
theorem direction_units :
    (∀ t x, scaleDirection t 1 x = (forwardPoly t x).map (fun v => 1000 * v)) ∧
    (∀ t d x, d ≠ 1 → scaleDirection t d x = inversePoly t (x / 1000)) ∧
    (∀ t x, scaleDirectionExp t 1 x = (forwardExp t x).map (fun ae => (1000 * ae.1, ae.2))) ∧
    (∀ t d x, d ≠ 1 → scaleDirectionExp t d x = none) ∧
    fromProperties none none = (10072, 0) ∧
    (∀ c d, fromProperties (some c) (some d) = (c, d)) ∧
    (∀ c, fromProperties (some c) none = (c, 0)) ∧
    (∀ d, fromProperties none (some d) = (10072, d)) ∧
    lookupTable 10072 = some type_j ∧
    (∀ x, scaleFromProperties none none x = some (inversePoly type_j (x / 1000))) ∧
    tcTypeCodes.map (fun c => (c.1, lookupTable c.1)) =
      [(10047, some type_b), (10055, some type_e), (10072, some type_j), (10073, some type_k),
       (10077, some type_n), (10082, some type_r), (10085, some type_s), (10086, some type_t)] := by
  refine ⟨?_, ?_, ?_, ?_, ?_, ?_, ?_, ?_, ?_, ?_, ?_⟩
  · intro t x; simp [scaleDirection]
  · intro t d x hd; simp [scaleDirection, hd]
  · intro t x; simp [scaleDirectionExp]
  · intro t d x hd; simp [scaleDirectionExp, hd]
  · decide +kernel
  · intro c d; rfl
  · intro c; rfl
  · intro d; rfl
  · decide +kernel
  · intro x
    have h : lookupTable 10072 = some type_j := by decide +kernel
    simp [scaleFromProperties, fromProperties, defaultTypeCode, defaultDirection, h, scaleDirection]
  · decide +kernel

/-- the scaling is total (never NaN) in both directions, for all eight tables and all rationals -/
theorem scale_total : ∀ t ∈ tcTables, ∀ (d : Int) (x : Rat), scaleDirection t d x ≠ none := by
  intro t ht d x
  by_cases hd : d = 1
  · have := forwardPoly_ne_none t ht x
    cases h : forwardPoly t x with
    | none => exact absurd h this
    | some v => simp [scaleDirection, hd, h]
  · simpa [scaleDirection, hd] using inversePoly_ne_none t ht (x / 1000)

/-! ## Grid evidence (labelled: kernel-evaluated grid checks, not ∀-theorems) -/

/-- GRID CHECK.  On 501 equally spaced rational temperatures per type (4 chunks × 125 steps) spanning
the region where NIST's function is increasing — the whole NIST range for E, J, K, N, R, S, T and
`[21.03, 1820]` °C for type B — the complete forward function (polynomial, plus for type K the rational
enclosure of the exponential term: upper end at `tᵢ` < lower end at `tᵢ₊₁`) is strictly increasing. -/
theorem monotone_grid_partial : ∀ s ∈ monotoneGrids, IncreasingOnGrid s := by
  intro s hs
  simp only [monotoneGrids, List.mem_cons, List.not_mem_nil, or_false] at hs
  rcases hs with rfl | rfl | rfl | rfl | rfl | rfl | rfl | rfl
  · exact Grid.monoB
  · exact Grid.monoE
  · exact Grid.monoJ
  · exact Grid.monoK
  · exact Grid.monoN
  · exact Grid.monoR
  · exact Grid.monoS
  · exact Grid.monoT

/-- GRID CHECK.  Type B is strictly DEcreasing on the 201-point grid over `[0, 21.02]` °C. -/
theorem type_b_decreasing_grid_partial : DecreasingOnGrid decrSpecB := Grid.decrB

/-- PROOF (exact).  Type B is not monotone on NIST's range: `E(0) = 0 > E(21) `, and the derivative of
the first polynomial changes sign between 21.02 and 21.03 °C (minimum ≈ 21.0203 °C). -/
theorem type_b_minimum_bracket :
    (∃ v0, forwardPoly type_b 0 = some v0 ∧ ∃ v21, forwardPoly type_b 21 = some v21 ∧
        ∃ v100, forwardPoly type_b 100 = some v100 ∧ v21 < v0 ∧ v21 < v100) ∧
    (∃ p, type_b.forward.head? = some p ∧
        horner (derivCoeffs p.coeffs) (2102 / 100) < 0 ∧ 0 < horner (derivCoeffs p.coeffs) (2103 / 100)) := by
  decide +kernel

/-- GRID CHECK.  For every grid temperature `t` (501 per type, domains `invSpec*`: B from 250 °C,
E/K/N/T from −200 °C, J/R/S whole NIST range, up to the top of NIST's range),
`|mv_to_celsius(celsius_to_mv t) − t| ≤ invTol*[k]` where `k` is the inverse piece used.
The tolerances are the maxima observed (on this grid and on a 100 001-point Python sweep) rounded up
to two digits (no NIST-stated error table is available offline; none is assumed).  For type K, `t ≥ 0`, the bound holds for every voltage
in the enclosure of `celsius_to_mv t` (`inverseErrorBound`). -/
theorem inverse_error_grid_partial : ∀ st ∈ inverseGrids, InverseErrorOnGrid st.1 st.2 := by
  intro st hs
  simp only [inverseGrids, List.mem_cons, List.not_mem_nil, or_false] at hs
  rcases hs with rfl | rfl | rfl | rfl | rfl | rfl | rfl | rfl
  · exact Grid.invB
  · exact Grid.invE
  · exact Grid.invJ
  · exact Grid.invK
  · exact Grid.invN
  · exact Grid.invR
  · exact Grid.invS
  · exact Grid.invT

/-- the grids have ≥ 200 (actually 501) points per type and the stated ranges are NIST's -/
theorem grid_sizes :
    (∀ s ∈ monotoneGrids, s.points = 501 ∧ (nistRange s.table.name).map (·.2) = some s.hi) ∧
    (∀ st ∈ inverseGrids, st.1.points = 501 ∧ (nistRange st.1.table.name).map (·.2) = some st.1.hi ∧
        st.2.length = st.1.table.inverse.length) ∧
    monotoneGrids.map (·.table) = tcTables ∧ inverseGrids.map (·.1.table) = tcTables := by
  decide +kernel

/-! ## Non-vacuity -/

example : tcTables.length = 8 ∧ nistForward.length = 8 ∧ (tcTables.zip nistForward).length = 8 := by
  decide +kernel
-- 18 forward pieces, 161 coefficients, 23 inverse pieces
example : (tcTables.map (·.forward.length)).sum = 18 ∧
    (tcTables.map (fun t => (t.forward.map (·.coeffs.length)).sum)).sum = 161 ∧
    (tcTables.map (·.inverse.length)).sum = 23 := by decide +kernel
-- the comparison is sensitive: changing one digit of one coefficient breaks it
example : ¬ ForwardMatches
    { type_t with forward := type_t.forward.map (fun p => { p with coeffs := p.coeffs.map (· + 1 / 10 ^ 30) }) }
    nist_t := by decide +kernel
-- a gap or an overlap is detected
example : contiguous [⟨none, some 1, []⟩, ⟨some 2, none, []⟩] = false := by decide +kernel
example : contiguous [⟨none, some 2, []⟩, ⟨some 1, none, []⟩] = false := by decide +kernel
example : acceptCount [⟨none, some 2, []⟩, ⟨some 1, none, []⟩] (3 / 2) = 2 := by decide +kernel
-- with overlapping conditions np.piecewise takes the LAST piece, first-match the first
example : selectPiece [⟨none, some 2, [1]⟩, ⟨some 1, none, [2]⟩] (3 / 2) = some ⟨some 1, none, [2]⟩ ∧
    selectFirst [⟨none, some 2, [1]⟩, ⟨some 1, none, [2]⟩] (3 / 2) = some ⟨none, some 2, [1]⟩ := by
  decide +kernel
-- the value at a boundary belongs to the upper piece (R: 1064.18 °C)
example : selectPiece type_r.forward (53209 / 50) = type_r.forward[1]? ∧
    selectPiece type_r.forward (53209 / 50 - 1 / 10 ^ 20) = type_r.forward[0]? := by decide +kernel
-- concrete values: type J at 100 °C is 5.269 mV (NIST table value 5.269), 5269 µV back to 100 °C
example : ∃ v, forwardPoly type_j 100 = some v ∧ 5268 / 1000 < v ∧ v < 5270 / 1000 := by decide +kernel
example : ∃ c, scaleDirection type_j 0 5269 = some c ∧ 999 / 10 < c ∧ c < 1001 / 10 := by decide +kernel
example : ∃ v, scaleDirection type_j 1 100 = some v ∧ 5268 < v ∧ v < 5270 := by decide +kernel
-- type K at 100 °C: polynomial part + exponential enclosure = 4.096 mV (NIST table value 4.096)
example : ∃ lu, forwardEnclosure type_k 100 = some lu ∧ 4096 / 1000 < lu.1 ∧ lu.2 < 4097 / 1000 ∧
    lu.2 - lu.1 < 1 / 10 ^ 30 := by decide +kernel
-- the exponential term is not negligible: without it the boundary jump at 0 °C is 0.0176 mV > 2e-9
example : ¬ JumpsWithin type_k.forward (1 / 100) := by decide +kernel
-- jumps are really computed (R has two forward boundaries, both nonzero)
example : (boundaryJumps type_r.forward).map (·.1) = [53209 / 50, 3329 / 2] ∧
    (boundaryJumps type_r.forward).all (fun bj => decide (bj.2 ≠ 0)) = true := by decide +kernel
-- tolerances are tight: B's forward jump exceeds 2.1e-9, J's inverse jump exceeds 0.067
example : ¬ JumpsWithin type_b.forward (21 / 10 ^ 10) ∧ ¬ JumpsWithin type_j.inverse (67 / 1000) := by
  decide +kernel
-- outside the stated domain the inverse error really is large (type B at 0 °C: 98.4 °C)
example : ∃ ie, inverseErrorBound type_b 0 = some ie ∧ ie.1 = 0 ∧ 98 < ie.2 := by decide +kernel
-- the grid predicates can fail: type B is not increasing from 0 °C
example : enclosuresIncreasing ((grid 0 100 10).map (forwardEnclosure type_b)) = false := by decide +kernel
example : inverseErrorsWithin type_j [1 / 1000, 1 / 1000, 1 / 1000] (grid 0 100 10) = false := by
  decide +kernel

end Tdms.Proofs.C18
