/-
  C14 (dtype part) — "channel.dtype … describe what reads return": for a scaled channel the declared
  dtype (`declaredKind` = `MultiScaling._compute_scale_dtype`, which uses `np.result_type`) is the
  dtype of the array the scaling arithmetic really returns (`actualKind`, which uses the dtypes NumPy
  gives `zeros(a) + zeros(b)` and `zeros(b) - zeros(a)`).

  Headline theorems and examples only; helper lemmas are in `Lemmas/C14Lemmas`.
  The NumPy tables are `Tdms/Generated/Dtype.lean`, re-extracted from the installed NumPy on every
  run; all table facts are re-checked by the kernel (`decide +kernel`: no axiom).

  `b1` (bool) is kept out of `numericKinds`: NumPy refuses `bool - bool`, so `subResult "b1" "b1"` is
  `"err"` while `np.result_type` says `"b1"` (`bool_sub_disagrees`).  No TDMS raw type maps to a NumPy
  bool array that would be scaled, so this pair is outside the property.
-/
import TdmsProofs.Lemmas.C14Lemmas

namespace Tdms.Proofs.C14

open Tdms.Model.Scaling Tdms.Generated Tdms.Proofs.C13

/-! ### The NumPy tables -/

/-- On the ten numeric kinds the dtype of a sum / a difference is `np.result_type`. -/
theorem tables_agree : ∀ a ∈ numericKinds, ∀ b ∈ numericKinds,
    addResult a b = resultType a b ∧ subResult a b = resultType a b :=
  tables_agree_numeric

/-- `np.result_type` of numeric kinds is numeric (never `"err"`, never complex or bool). -/
theorem resultType_closed : ∀ a ∈ numericKinds, ∀ b ∈ numericKinds, resultType a b ∈ numericKinds :=
  resultType_closed_numeric

/-- Over all thirteen kinds of the generated tables (adding `c8`, `c16`, `b1`) the only disagreement is
`bool - bool`. -/
theorem tables_agree_except_bool_sub : ∀ a ∈ allKinds, ∀ b ∈ allKinds,
    (addResult a b = resultType a b ∧ subResult a b = resultType a b) ∨ (a = "b1" ∧ b = "b1") := by
  decide +kernel

/-- The disagreeing pair: NumPy raises on `bool - bool`. -/
theorem bool_sub_disagrees :
    subResult "b1" "b1" = "err" ∧ resultType "b1" "b1" = "b1" ∧ addResult "b1" "b1" = "b1" := by
  decide +kernel

/-! ### `channel.dtype` is the dtype of the scaled data -/

section
variable {R : Type} {g : List (Scaling R)} {rawKind : String} {scalerKinds : List (Nat × String)}

/-- Whenever the scaled data has a dtype at all (every input of the output node resolves), that dtype
is numeric and `channel.dtype` reports exactly it. -/
theorem declared_of_actual (hwf : wf g) (hraw : rawKind ∈ numericKinds)
    (hsc : ∀ id k, (id, k) ∈ scalerKinds → k ∈ numericKinds) (k : String)
    (h : actualKind g rawKind scalerKinds (g.length + 1) (g.length - 1) = some k) :
    declaredKind g rawKind scalerKinds (g.length + 1) (g.length - 1) = some k ∧ k ∈ numericKinds := by
  have hpos : 0 < g.length := List.length_pos_iff.2 hwf.1
  exact declared_of_actual_aux hwf hraw hsc _ (by omega) _ (by omega) k h

/-- With every DAQmx scaler id of the graph present in the scaler types, the data always has a dtype. -/
theorem actual_resolves (hwf : wf g) (hres : scalersResolved g scalerKinds) :
    (actualKind g rawKind scalerKinds (g.length + 1) (g.length - 1)).isSome = true := by
  have hpos : 0 < g.length := List.length_pos_iff.2 hwf.1
  exact actual_isSome hwf hres (g.length - 1) (by omega) (g.length + 1) (by omega)

/-- **C14 (dtype).**  For every well-formed graph over numeric raw / scaler types whose scaler ids
are all known, `channel.dtype` equals the dtype of the scaled data.

The hypothesis `scalersResolved` cannot be dropped: see `declared_eq_actual_needs_scalers`. -/
theorem declared_eq_actual (hwf : wf g) (hraw : rawKind ∈ numericKinds)
    (hsc : ∀ id k, (id, k) ∈ scalerKinds → k ∈ numericKinds)
    (hres : scalersResolved g scalerKinds) :
    declaredKind g rawKind scalerKinds (g.length + 1) (g.length - 1) =
      actualKind g rawKind scalerKinds (g.length + 1) (g.length - 1) := by
  obtain ⟨k, hk⟩ := Option.isSome_iff_exists.1 (actual_resolves (rawKind := rawKind) hwf hres)
  rw [hk, (declared_of_actual hwf hraw hsc k hk).1]

/-- Without `scalersResolved` the two can differ only by the data having no dtype at all (reading
fails) while `_compute_scale_dtype`, which never looks at the inputs of a value scale, still answers. -/
theorem actual_none_or_eq (hwf : wf g) (hraw : rawKind ∈ numericKinds)
    (hsc : ∀ id k, (id, k) ∈ scalerKinds → k ∈ numericKinds) :
    actualKind g rawKind scalerKinds (g.length + 1) (g.length - 1) = none ∨
    declaredKind g rawKind scalerKinds (g.length + 1) (g.length - 1) =
      actualKind g rawKind scalerKinds (g.length + 1) (g.length - 1) := by
  cases hk : actualKind g rawKind scalerKinds (g.length + 1) (g.length - 1) with
  | none => exact .inl rfl
  | some k => exact .inr (declared_of_actual hwf hraw hsc k hk).1

/-- If the last scale is Linear / Polynomial / Table / a sensor scaling, `channel.dtype` is `f8`, and
so is the data whenever its input resolves (only `g.length ≤ rawSource` is needed here). -/
theorem f8_for_value_scales_of_input (hlen : g.length ≤ rawSource) (node : Scaling R)
    (hlast : g.getLast? = some node) (hv : isValueScale node = true) :
    declaredKind g rawKind scalerKinds (g.length + 1) (g.length - 1) = some "f8" ∧
    ((∀ src ∈ sources node, (actualKind g rawKind scalerKinds g.length src).isSome = true) →
      actualKind g rawKind scalerKinds (g.length + 1) (g.length - 1) = some "f8") := by
  have hne : g ≠ [] := by rintro rfl; simp at hlast
  have hpos : 0 < g.length := List.length_pos_iff.2 hne
  have hidx : g.length - 1 ≠ rawSource := by omega
  have hget : g[g.length - 1]? = some node := by rw [← List.getLast?_eq_getElem?]; exact hlast
  rw [declaredKind, actualKind]
  simp only [hidx, if_false, hget]
  cases node with
  | linear b m src =>
    refine ⟨rfl, fun h => ?_⟩
    obtain ⟨k, hk⟩ := Option.isSome_iff_exists.1 (h src (by simp [sources])); simp [hk]
  | polynomial cs src =>
    refine ⟨rfl, fun h => ?_⟩
    obtain ⟨k, hk⟩ := Option.isSome_iff_exists.1 (h src (by simp [sources])); simp [hk]
  | table xs ys src =>
    refine ⟨rfl, fun h => ?_⟩
    obtain ⟨k, hk⟩ := Option.isSome_iff_exists.1 (h src (by simp [sources])); simp [hk]
  | sensor n src =>
    refine ⟨rfl, fun h => ?_⟩
    obtain ⟨k, hk⟩ := Option.isSome_iff_exists.1 (h src (by simp [sources])); simp [hk]
  | add l r => simp [isValueScale] at hv
  | subtract l r => simp [isValueScale] at hv
  | daqmx id => simp [isValueScale] at hv
  | noop src => simp [isValueScale] at hv

/-- … hence both are `f8` on a well-formed graph whose scaler ids are all known. -/
theorem f8_for_value_scales (hwf : wf g) (hres : scalersResolved g scalerKinds) (node : Scaling R)
    (hlast : g.getLast? = some node) (hv : isValueScale node = true) :
    declaredKind g rawKind scalerKinds (g.length + 1) (g.length - 1) = some "f8" ∧
    actualKind g rawKind scalerKinds (g.length + 1) (g.length - 1) = some "f8" := by
  have hd := (f8_for_value_scales_of_input (rawKind := rawKind) (scalerKinds := scalerKinds)
    hwf.2.1 node hlast hv).1
  refine ⟨hd, ?_⟩
  obtain ⟨k, hk⟩ := Option.isSome_iff_exists.1 (actual_resolves (rawKind := rawKind) hwf hres)
  have hne : g ≠ [] := hwf.1
  have hpos : 0 < g.length := List.length_pos_iff.2 hne
  have hidx : g.length - 1 ≠ rawSource := by have := hwf.2.1; omega
  have hget : g[g.length - 1]? = some node := by rw [← List.getLast?_eq_getElem?]; exact hlast
  have hk' := hk
  rw [actualKind] at hk'
  simp only [hidx, if_false, hget] at hk'
  rw [hk]
  cases node with
  | linear b m src => simp only [Option.map_eq_some_iff] at hk'; obtain ⟨_, _, rfl⟩ := hk'; rfl
  | polynomial cs src => simp only [Option.map_eq_some_iff] at hk'; obtain ⟨_, _, rfl⟩ := hk'; rfl
  | table xs ys src => simp only [Option.map_eq_some_iff] at hk'; obtain ⟨_, _, rfl⟩ := hk'; rfl
  | sensor n src => simp only [Option.map_eq_some_iff] at hk'; obtain ⟨_, _, rfl⟩ := hk'; rfl
  | add l r => simp [isValueScale] at hv
  | subtract l r => simp [isValueScale] at hv
  | daqmx id => simp [isValueScale] at hv
  | noop src => simp [isValueScale] at hv

end

/-! ### Examples -/

/-- `[linear, noop 0]` on `i4`: declared = actual = `f8`. -/
example : declaredKind ([.linear 0 1 rawSource, .noop 0] : List (Scaling Int)) "i4" [] 3 1 = some "f8"
    ∧ actualKind ([.linear 0 1 rawSource, .noop 0] : List (Scaling Int)) "i4" [] 3 1 = some "f8" := by
  decide +kernel

/-- the same from the theorem: its hypotheses are satisfiable -/
example : declaredKind ([.linear 0 1 rawSource, .noop 0] : List (Scaling Int)) "i4" [] 3 1 =
    actualKind ([.linear 0 1 rawSource, .noop 0] : List (Scaling Int)) "i4" [] 3 1 :=
  declared_eq_actual (g := [.linear 0 1 rawSource, .noop 0]) (by decide) (by decide)
    (by intro id k h; simp at h) (by intro s hs id h; subst h; simp at hs)

/-- adding the raw `i4` data to a `u4` DAQmx scaler: `i8`, declared and actual -/
example : declaredKind ([.daqmx 0, .add rawSource 0] : List (Scaling Int)) "i4" [(0, "u4")] 3 1 = some "i8"
    ∧ actualKind ([.daqmx 0, .add rawSource 0] : List (Scaling Int)) "i4" [(0, "u4")] 3 1 = some "i8" := by
  decide +kernel

/-- A pass-through of integer data keeps the integer type (no `f8`). -/
example : declaredKind ([.noop rawSource] : List (Scaling Int)) "i2" [] 2 0 = some "i2"
    ∧ actualKind ([.noop rawSource] : List (Scaling Int)) "i2" [] 2 0 = some "i2" := by
  decide +kernel

/-- `scalersResolved` is needed in `declared_eq_actual`: a Linear scale fed by DAQmx scaler 5 whose
type is unknown — `_compute_scale_dtype` says `f8` without looking, the data has no dtype (in Python:
`scaler_data_types[5]` is never touched by `dtype`, while reading raises `KeyError`). -/
theorem declared_eq_actual_needs_scalers :
    wf ([.daqmx 5, .linear 0 1 0] : List (Scaling Int)) ∧
    declaredKind ([.daqmx 5, .linear 0 1 0] : List (Scaling Int)) "i4" [] 3 1 = some "f8" ∧
    actualKind ([.daqmx 5, .linear 0 1 0] : List (Scaling Int)) "i4" [] 3 1 = none := by
  refine ⟨by decide, by decide +kernel, by decide +kernel⟩

end Tdms.Proofs.C14
