import TdmsProofs.Lemmas.TiedC12

/-!
# C12 (tied): the GENERATED timestamp arithmetic equals the model

`Tdms.Generated.Code.*` is regenerated from the Python source of npTDMS (`nptdms/timestamp.py`,
`nptdms/types.py` `TimeStamp.__init__`) by `harness/pyast2lean.py`.  The theorems below say that the
generated definitions

* `TdmsTimestamp.as_datetime64`            ↔ `Tdms.Model.Timestamp.steps` / `decode`   (scalar reader)
* `_multiply_high`                         ↔ `mulhi64`                                 (uint64 arithmetic)
* `TimestampArray.as_datetime64_steps`     ↔ `stepsArr`                                (array reader)
* `TimeStamp.init_encode`                  ↔ `encodeFloor`                             (writer)

are the model functions of `Tdms/Model/Timestamp.lean`, about which `TdmsProofs/Properties/C12.lean`
proves the round-trip, monotonicity and exactness theorems.  One element of a numpy `uint64` array is a
`UInt64` (wrapping arithmetic); a Python `int` is an `Int`.

A semantic change of the Python source (`>> 64` → `>> 63`, `min` → `max`, `+ _FRACTIONS_TOLERANCE`
dropped, `& mask` → `| mask`, swapped `factor_high`/`factor_low`, `remainder < zero_delta` → `<=`, a
changed constant or table entry) regenerates a different definition and these proofs stop compiling; a
cosmetic one (renamed locals, comments) does not.

Every `theorem` of this file is a registered proof obligation; helper lemmas are in
`TdmsProofs/Lemmas/TiedC12.lean`.
-/

namespace Tdms.Proofs.C12Tied

open Tdms.Generated Tdms.Generated.Code Tdms.Model.Timestamp Tdms.Proofs.TiedC12

/-! ## 0. constants -/

/-- The generated module constants are the model's, and the generated resolution table is the expected
    one. -/
theorem constants_tied :
    _FRACTIONS_TOLERANCE = ((tol : Nat) : Int) ∧ _MAX_FRACTIONS = ((maxFrac : Nat) : Int) ∧
    _steps_per_second =
      [(['s'], ((1 : Nat) : Int)), (['m', 's'], ((10 ^ 3 : Nat) : Int)), (['u', 's'], ((10 ^ 6 : Nat) : Int)),
       (['n', 's'], ((10 ^ 9 : Nat) : Int)), (['p', 's'], ((10 ^ 12 : Nat) : Int))] := by
  decide

/-! ## 1. scalar reader `TdmsTimestamp.as_datetime64` -/

/-- General form: whenever the generated table maps `resolution` to `R`, the generated reader returns
    `(seconds, steps R frac)` (standing for `EPOCH + seconds s + steps R frac units`). -/
theorem as_datetime64_tied (seconds : Int) (frac : Nat) (resolution : List Char) (R : Nat)
    (h : Py.Dict.getE _steps_per_second resolution = .ok (R : Int)) :
    TdmsTimestamp.as_datetime64 ⟨seconds, (frac : Int)⟩ resolution
      = .ok (seconds, ((steps R frac : Nat) : Int)) :=
  as_datetime64_ok seconds frac resolution R h

/-- The five units of the generated table. -/
theorem as_datetime64_units (seconds : Int) (frac : Nat) :
    TdmsTimestamp.as_datetime64 ⟨seconds, (frac : Int)⟩ ['s']
      = .ok (seconds, ((steps 1 frac : Nat) : Int)) ∧
    TdmsTimestamp.as_datetime64 ⟨seconds, (frac : Int)⟩ ['m', 's']
      = .ok (seconds, ((steps (10 ^ 3) frac : Nat) : Int)) ∧
    TdmsTimestamp.as_datetime64 ⟨seconds, (frac : Int)⟩ ['u', 's']
      = .ok (seconds, ((steps (10 ^ 6) frac : Nat) : Int)) ∧
    TdmsTimestamp.as_datetime64 ⟨seconds, (frac : Int)⟩ ['n', 's']
      = .ok (seconds, ((steps (10 ^ 9) frac : Nat) : Int)) ∧
    TdmsTimestamp.as_datetime64 ⟨seconds, (frac : Int)⟩ ['p', 's']
      = .ok (seconds, ((steps (10 ^ 12) frac : Nat) : Int)) :=
  ⟨as_datetime64_ok _ _ _ _ rfl, as_datetime64_ok _ _ _ _ rfl, as_datetime64_ok _ _ _ _ rfl,
   as_datetime64_ok _ _ _ _ rfl, as_datetime64_ok _ _ _ _ rfl⟩

/-- Any other resolution: `ValueError` (the `KeyError` of the table lookup is caught and replaced). -/
theorem as_datetime64_unknown_resolution (self : TdmsTimestamp) (resolution : List Char)
    (h : resolution ∉ [['s'], ['m', 's'], ['u', 's'], ['n', 's'], ['p', 's']]) :
    TdmsTimestamp.as_datetime64 self resolution = .error "ValueError" :=
  as_datetime64_keyError self resolution (getE_unknown resolution h)

/-- Total description: for every `resolution` the generated reader either raises `ValueError` (unknown
    unit) or returns `(seconds, b)` with `seconds * R + b = decode R seconds frac` for the `R` of that unit. -/
theorem as_datetime64_decode (seconds : Int) (frac : Nat) (resolution : List Char) :
    (resolution ∉ [['s'], ['m', 's'], ['u', 's'], ['n', 's'], ['p', 's']] ∧
      TdmsTimestamp.as_datetime64 ⟨seconds, (frac : Int)⟩ resolution = .error "ValueError") ∨
    (∃ R : Nat, R ∈ [1, 10 ^ 3, 10 ^ 6, 10 ^ 9, 10 ^ 12] ∧
      Py.Dict.getE _steps_per_second resolution = .ok (R : Int) ∧
      ∃ b : Int, TdmsTimestamp.as_datetime64 ⟨seconds, (frac : Int)⟩ resolution = .ok (seconds, b) ∧
        seconds * (R : Int) + b = decode R seconds frac) := by
  by_cases hmem : resolution ∈ [['s'], ['m', 's'], ['u', 's'], ['n', 's'], ['p', 's']]
  · right
    cases hg : Py.Dict.getE _steps_per_second resolution with
    | error e =>
      exfalso
      rcases Py.Dict.getE_cases _steps_per_second resolution with ⟨w, _, hw⟩ | ⟨hne, _⟩
      · rw [hg] at hw; cases hw
      · rw [← steps_per_second_keys, List.mem_map] at hmem
        obtain ⟨kv, hkv, hk⟩ := hmem
        exact hne kv hkv hk
    | ok v =>
      obtain ⟨R, rfl, hR⟩ := getE_ok_nat resolution v hg
      exact ⟨R, hR, rfl, _, as_datetime64_ok seconds frac resolution R hg, rfl⟩
  · left
    exact ⟨hmem, as_datetime64_keyError _ resolution (getE_unknown resolution hmem)⟩

/-! ## 2. `_multiply_high` -/

/-- The generated uint64 computation is the model's `mulhi64`, for every `uint64` element and every
    non-negative Python-int factor (no bound on the factor is needed: `np.uint64(…)` is `% 2^64` on both
    sides). -/
theorem _multiply_high_tied (x : UInt64) (m : Nat) :
    (_multiply_high x (m : Int)).toNat = mulhi64 x.toNat m :=
  multiply_high_toNat x m

/-- Chained with `C12.mulhi64_exact`: the generated function returns the high 64 bits of the 128-bit
    product. -/
theorem _multiply_high_exact (x : UInt64) (m : Nat) (hm : m < 2 ^ 64) :
    (_multiply_high x (m : Int)).toNat = x.toNat * m / 2 ^ 64 :=
  multiply_high_exact x m hm

/-! ## 3. array reader `TimestampArray.as_datetime64` (per element) -/

theorem as_datetime64_steps_tied (x : UInt64) (R : Nat) :
    (TimestampArray.as_datetime64_steps x (R : Int)).toNat = stepsArr R x.toNat :=
  as_datetime64_steps_toNat x R

/-- Chained with `C12.scalar_eq_array`: the generated array reader computes, per element, the same number
    of steps as the generated scalar reader. -/
theorem as_datetime64_steps_eq_scalar (seconds : Int) (x : UInt64) (resolution : List Char) (R : Nat)
    (hR : R < 2 ^ 64) (h : Py.Dict.getE _steps_per_second resolution = .ok (R : Int)) :
    TdmsTimestamp.as_datetime64 ⟨seconds, (x.toNat : Int)⟩ resolution
      = .ok (seconds, ((TimestampArray.as_datetime64_steps x (R : Int)).toNat : Int)) := by
  rw [as_datetime64_steps_toNat, Tdms.Proofs.C12.stepsArr_eq_aux R x.toNat x.toNat_lt hR]
  exact as_datetime64_ok seconds x.toNat resolution R h

/-! ## 4. writer `TimeStamp.__init__` -/

/-- `delta` = microseconds since the TDMS epoch.  The generated writer is the model's `encodeFloor`
    (the `remainder < zero_delta` branch of the Python source is dead code after the `//`). -/
theorem init_encode_tied (delta : Int) :
    TimeStamp.init_encode delta = ((encodeFloor delta).1, (((encodeFloor delta).2 : Nat) : Int)) :=
  init_encode_eq delta

end Tdms.Proofs.C12Tied

