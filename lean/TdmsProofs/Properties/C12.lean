import TdmsProofs.Lemmas.C12Lemmas
import Tdms.Generated.Timestamp
import Mathlib.Algebra.Field.Basic
import Mathlib.Algebra.CharZero.Defs
import Mathlib.Data.Nat.Cast.Basic
import Mathlib.Tactic.FieldSimp
import Mathlib.Tactic.Ring
import Mathlib.Tactic.Linarith
import Mathlib.Tactic.Push
import Mathlib.Algebra.Order.Field.Rat

/-!
  C12 — TDMS timestamp arithmetic: headline theorems.
  All statements quantify over unbounded `Nat`/`Int`; nothing is proved by enumeration.
  Helpers live in `C12Lemmas.lean`; the model lives in `Timestamp.lean` (core Lean only).
-/

namespace Tdms.Proofs.C12
open Tdms.Model.Timestamp


/-! ## 0. Tie to the constants the translator extracts from /repo on every run

If `nptdms/timestamp.py` or `TimeStamp.__init__` change a constant, this stops building. -/

theorem constants_tied :
    Tdms.Generated.fractionsTolerance = tol ∧ Tdms.Generated.maxFractions = maxFrac ∧
    Tdms.Generated.stepsPerSecond = [("s", 1), ("ms", 10^3), ("us", 10^6), ("ns", 10^9), ("ps", 10^12)] ∧
    Tdms.Generated.encoderExpr = "(microseconds << 64) // 10 ** 6" ∧
    Tdms.Generated.encoderShift = 64 ∧ Tdms.Generated.encoderDivisor = 10^6 ∧
    Tdms.Generated.mulhiMask = 2^32 - 1 ∧ Tdms.Generated.mulhiShift = 32 ∧
    Tdms.Generated.epochUnixSeconds = -2082844800 ∧
    Tdms.Generated.writerEpochUnixMicroseconds = Tdms.Generated.epochUnixSeconds * 10^6 := by
  decide

/-! ## 1. Microsecond writer/reader round trip on the fractions word -/

/-- Writing `u` microseconds as 2^-64 fractions and reading back at `us` resolution is the identity. -/
theorem us_roundtrip : ∀ u : Nat, u < 10^6 → steps (10^6) (encodeUs u) = u := by
  intro u hu
  exact us_roundtrip_aux u (by simpa using hu)

/-- The written fractions word always fits an unsigned 64-bit field. -/
theorem encodeUs_lt : ∀ u : Nat, u < 10^6 → encodeUs u < 2^64 := by
  intro u hu
  simpa using encodeUs_lt_aux u (by simpa using hu)

/-- Symmetric tolerance band: any `frac` within `2^11` (in 2^-64 s units) of the exact rational value
    `u·2^64/10^6` — written without division as
    `u·2^64 ≤ (frac + 2^11)·10^6` (not more than 2^11 below) and
    `frac·10^6 ≤ u·2^64 + 2^11·10^6` (not more than 2^11 above) — reads back as `u`.
    The symmetric band IS true (the upper end has ≈1.8·10^13 of head-room, see `us_decode_band_exact`). -/
theorem us_decode_band : ∀ u frac : Nat, u < 10^6 → frac < 2^64 →
    u * 2^64 ≤ (frac + 2^11) * 10^6 → frac * 10^6 ≤ u * 2^64 + 2^11 * 10^6 →
    steps (10^6) frac = u := by
  intro u frac hu _ hlo hhi
  exact us_band_aux u frac (by simpa using hlo) (by simpa using hhi) (by simpa using hu)

/-- The exact (largest) band: below the saturation point `frac + 2^11 ≤ 2^64 - 1`, `frac` reads back as `u`
    iff `u·2^64/10^6 - 2^11 ≤ frac < (u+1)·2^64/10^6 - 2^11` (as exact rationals). -/
theorem us_decode_band_exact : ∀ u frac : Nat, frac + 2^11 ≤ 2^64 - 1 →
    (steps (10^6) frac = u ↔
      (u * 2^64 ≤ (frac + 2^11) * 10^6 ∧ (frac + 2^11) * 10^6 < (u + 1) * 2^64)) := by
  intro u frac hcap
  simpa using us_band_iff_aux u frac (by simpa using hcap)

/-- In the saturated region (`frac + 2^11 > 2^64 - 1`) every `frac` reads as 999999 µs. -/
theorem us_decode_saturated : ∀ frac : Nat, 2^64 - 1 < frac + 2^11 → steps (10^6) frac = 999999 := by
  intro frac h
  exact us_capped_aux frac (by simpa using h)

/-- Just outside the band (one fraction more than 2^11 below the exact value of u = 1): reads as 0. -/
theorem us_decode_band_counterexample_below :
    1 * 2^64 ≤ (18446744071662 + 2^11) * 10^6 ∧ steps (10^6) 18446744071662 = 1 ∧
    ¬ (1 * 2^64 ≤ (18446744071661 + 2^11) * 10^6) ∧ steps (10^6) 18446744071661 = 0 := by decide

/-- Exact upper end of the band for u = 1. -/
theorem us_decode_band_upper_end :
    steps (10^6) 36893488145371 = 1 ∧ steps (10^6) 36893488145372 = 2 := by decide

/-! ## 2. Writer / reader round trip for all microsecond datetimes -/

/-- `TimeStamp(value)` then `as_datetime64('us')` returns `value`, for every (also pre-1904) `delta`,
    provided the truncated float quotient `seconds0` leaves a remainder strictly inside (−1 s, 1 s). -/
theorem encode_decode : ∀ (delta seconds0 : Int),
    (-(10^6 : Int) < delta - seconds0 * 10^6 ∧ delta - seconds0 * 10^6 < 10^6) →
    let (s, f) := encode delta seconds0
    decode (10^6) s f = delta ∧ f < 2^64 := by
  intro delta seconds0 h
  have := encode_decode_aux delta seconds0 (by simp at h; omega)
  generalize encode delta seconds0 = p at this
  obtain ⟨s, f⟩ := p
  simpa using this

/-- Same, in projection form. -/
theorem encode_decode' : ∀ (delta seconds0 : Int),
    (-(10^6 : Int) < delta - seconds0 * 10^6 ∧ delta - seconds0 * 10^6 < 10^6) →
    decode (10^6) (encode delta seconds0).1 (encode delta seconds0).2 = delta ∧
      (encode delta seconds0).2 < 2^64 := by
  intro delta seconds0 h
  simpa using encode_decode_aux delta seconds0 (by simp at h; omega)

/-- Under the same assumption the stored pair does not depend on `seconds0`:
    it is (floor quotient, fractions of the non-negative remainder). -/
theorem encode_canonical : ∀ (delta seconds0 : Int),
    (-(10^6 : Int) < delta - seconds0 * 10^6 ∧ delta - seconds0 * 10^6 < 10^6) →
    encode delta seconds0 = (delta / 10^6, encodeUs (delta % 10^6).toNat) := by
  intro delta seconds0 h
  exact encode_canonical_aux delta seconds0 (by simp at h; omega)

/-- … and the integer handed to `struct.pack('<Q', …)` is in range, so packing cannot fail. -/
theorem encode_frac_in_range : ∀ (delta seconds0 : Int),
    (-(10^6 : Int) < delta - seconds0 * 10^6 ∧ delta - seconds0 * 10^6 < 10^6) →
    0 ≤ encodeFracInt delta seconds0 ∧ encodeFracInt delta seconds0 < 2^64 := by
  intro delta seconds0 h
  simpa using encodeFracInt_range_aux delta seconds0 (by simp at h; omega)

/-- Exact success condition of the writer: `struct.pack('<Q', second_fractions)` is given an in-range
    integer iff the float quotient leaves a remainder in [−1 s, 1 s).  (So the low end of the
    requested hypothesis can be relaxed from `<` to `≤`, see `encode_decode_weak`.) -/
theorem encode_frac_in_range_iff : ∀ (delta seconds0 : Int),
    (0 ≤ encodeFracInt delta seconds0 ∧ encodeFracInt delta seconds0 < 2^64) ↔
      (-(10^6 : Int) ≤ delta - seconds0 * 10^6 ∧ delta - seconds0 * 10^6 < 10^6) := by
  intro delta seconds0
  simpa using encodeFracInt_range_iff_aux delta seconds0

/-- Round trip under the weakest hypothesis under which the writer does not raise. -/
theorem encode_decode_weak : ∀ (delta seconds0 : Int),
    (-(10^6 : Int) ≤ delta - seconds0 * 10^6 ∧ delta - seconds0 * 10^6 < 10^6) →
    decode (10^6) (encode delta seconds0).1 (encode delta seconds0).2 = delta ∧
      (encode delta seconds0).2 < 2^64 ∧
      encode delta seconds0 = (delta / 10^6, encodeUs (delta % 10^6).toNat) := by
  intro delta seconds0 h
  have h' : -1000000 ≤ delta - seconds0 * 1000000 ∧ delta - seconds0 * 1000000 < 1000000 := by
    simpa using h
  have := encode_decode_aux delta seconds0 h'
  exact ⟨this.1, by simpa using this.2, encode_canonical_aux delta seconds0 h'⟩

/-- The assumption is necessary on the high side: if the float quotient is too LOW
    (remainder ≥ 1 s) the fractions integer is ≥ 2^64 and `struct.pack('<Q', …)` raises.
    (Observed in real Python for |delta| > 2^59 µs, see NOTES.md.) -/
theorem encode_low_quotient_overflows : ∀ (delta seconds0 : Int),
    10^6 ≤ delta - seconds0 * 10^6 → 2^64 ≤ encodeFracInt delta seconds0 := by
  intro delta seconds0 h
  simpa using encodeFracInt_overflow_aux delta seconds0 (by simpa using h)

/-- With the exact truncated quotient (`int()` of the exact quotient) the round trip is unconditional. -/
theorem encodeExact_decode : ∀ delta : Int,
    decode (10^6) (encodeExact delta).1 (encodeExact delta).2 = delta := by
  intro delta
  exact (encode_decode_aux delta _ (tdiv_rem_bounds delta)).1

/-! ## 3. Conversion to any resolution stays within one unit, never carries, is monotone -/

/-- exact time − 1 unit < result, and result ≤ exact time + 2^11·R/2^64. -/
theorem convert_within_unit : ∀ R frac : Nat, R ∈ [1, 10^3, 10^6, 10^9] → frac < 2^64 →
    frac * R < (steps R frac + 1) * 2^64 ∧ steps R frac * 2^64 ≤ (frac + 2^11) * R := by
  intro R frac _ hf
  simpa using within_unit_aux R frac (by simpa using hf)

/-- The same two bounds hold for every `R` (in particular also for `ps`, R = 10^12). -/
theorem convert_within_unit_all : ∀ R frac : Nat, frac < 2^64 →
    frac * R < (steps R frac + 1) * 2^64 ∧ steps R frac * 2^64 ≤ (frac + 2^11) * R := by
  intro R frac hf
  simpa using within_unit_aux R frac (by simpa using hf)

/-- The upper slack `2^11·R/2^64` is below one unit for every supported resolution (incl. ps). -/
theorem tolerance_below_unit : ∀ R : Nat, R ∈ [1, 10^3, 10^6, 10^9, 10^12] → 2^11 * R < 2^64 := by
  intro R hR
  simp only [List.mem_cons, List.not_mem_nil, or_false] at hR
  rcases hR with rfl | rfl | rfl | rfl | rfl <;> decide

/-- The sub-second part never carries into the seconds.  TRUE as stated (indeed for every `R > 0`,
    the bound `R ≤ 10^12` is not needed) — thanks to the `min … _MAX_FRACTIONS` saturation. -/
theorem steps_lt : ∀ R frac : Nat, 0 < R → R ≤ 10^12 → steps R frac < R := by
  intro R frac hR _
  exact steps_lt_aux R frac hR

theorem steps_lt_all : ∀ R frac : Nat, 0 < R → steps R frac < R := by
  intro R frac hR
  exact steps_lt_aux R frac hR

/-- Without the saturation the bound WOULD fail: `frac = 2^64 - 1` plus tolerance carries. -/
theorem steps_lt_needs_saturation :
    ¬ ((maxFrac + tol) * 10^6 / 2^64 < 10^6) ∧ steps (10^6) maxFrac = 999999 := by decide

theorem steps_monotone : ∀ R f₁ f₂ : Nat, f₁ ≤ f₂ → steps R f₁ ≤ steps R f₂ :=
  steps_mono_aux

/-- Lexicographic order on (seconds, fractions) is preserved by conversion to any resolution. -/
theorem convert_monotone : ∀ (R : Nat) (s₁ : Int) (f₁ : Nat) (s₂ : Int) (f₂ : Nat),
    0 < R → R ≤ 10^12 → f₁ < 2^64 → f₂ < 2^64 →
    (s₁ < s₂ ∨ (s₁ = s₂ ∧ f₁ ≤ f₂)) → decode R s₁ f₁ ≤ decode R s₂ f₂ := by
  intro R s₁ f₁ s₂ f₂ hR _ _ _ h
  exact decode_mono_aux R s₁ f₁ s₂ f₂ hR h

/-! ## 4. The uint64 array path equals the big-int scalar path -/

/-- `_multiply_high` is exact: no uint64 intermediate wraps. -/
theorem mulhi64_exact : ∀ x m : Nat, x < 2^64 → m < 2^64 → mulhi64 x m = x * m / 2^64 := by
  intro x m hx hm
  simpa using mulhi64_exact_aux x m (by simpa using hx) (by simpa using hm)

theorem scalar_eq_array : ∀ R frac : Nat, frac < 2^64 → R < 2^64 → stepsArr R frac = steps R frac := by
  intro R frac hf hR
  exact stepsArr_eq_aux R frac (by simpa using hf) (by simpa using hR)

theorem decode_eq_decodeArr : ∀ (R : Nat) (s : Int) (frac : Nat), frac < 2^64 → R < 2^64 →
    decodeArr R s frac = decode R s frac := by
  intro R s frac hf hR
  unfold decodeArr decode
  rw [scalar_eq_array R frac hf hR]

/-! ## 5. Raw 16-byte form -/

theorem raw_bytes_roundtrip_LE : ∀ (s : Int) (f : Nat), f < 2^64 → -2^63 ≤ s → s < 2^63 →
    ofBytesLE (toBytesLE s f) = (s, f) := by
  intro s f hf h1 h2
  exact raw_LE_aux s f (by simpa using hf) (by simpa using h1) (by simpa using h2)

theorem raw_bytes_roundtrip_BE : ∀ (s : Int) (f : Nat), f < 2^64 → -2^63 ≤ s → s < 2^63 →
    ofBytesBE (toBytesBE s f) = (s, f) := by
  intro s f hf h1 h2
  exact raw_BE_aux s f (by simpa using hf) (by simpa using h1) (by simpa using h2)

theorem raw_bytes_BE_is_reversed_LE : ∀ (s : Int) (f : Nat),
    toBytesBE s f = (toBytesLE s f).reverse :=
  BE_eq_reverse_LE

theorem raw_bytes_length : ∀ (s : Int) (f : Nat),
    (toBytesLE s f).length = 16 ∧ (toBytesBE s f).length = 16 := by
  intro s f
  simp [toBytesLE, toBytesBE, length_encLE]

/-! ## 6. Waveform time track -/

/-- `np.linspace(off, off + (n-1)*inc, n)[i] = off + i*inc` over any field of characteristic zero. -/
theorem time_track {K : Type} [Field K] [CharZero K] (off inc : K) (n i : ℕ) (hn : 2 ≤ n) :
    linspace off (off + ((n : K) - 1) * inc) n i = off + (i : K) * inc := by
  have hne : (n : K) - 1 ≠ 0 := by
    have h1 : ((n - 1 : ℕ) : K) ≠ 0 := Nat.cast_ne_zero.mpr (by omega)
    rwa [Nat.cast_sub (by omega), Nat.cast_one] at h1
  unfold linspace
  rw [if_neg (by omega), Nat.cast_one]
  field_simp
  ring

/-- Same with the end point computed as Python does, `(len - 1)` in integers first. -/
theorem time_track' {K : Type} [Field K] [CharZero K] (off inc : K) (n i : ℕ) (hn : 2 ≤ n) :
    linspace off (off + ((n - 1 : ℕ) : K) * inc) n i = off + (i : K) * inc := by
  rw [Nat.cast_sub (by omega), Nat.cast_one]
  exact time_track off inc n i hn

/-- Single-sample channel (`n = 1`): the track is just the offset, whatever the stop value. -/
theorem time_track_one {K : Type} [Field K] (off b : K) (i : ℕ) : linspace off b 1 i = off := by
  simp [linspace]

/-- … in particular for the stop value Python computes, `off + (1 - 1) * inc`. -/
theorem time_track_one' {K : Type} [Field K] (off inc : K) (i : ℕ) :
    linspace off (off + ((1 - 1 : ℕ) : K) * inc) 1 i = off :=
  time_track_one off _ i

/-- Last element is the requested stop value. -/
theorem time_track_last {K : Type} [Field K] [CharZero K] (off inc : K) (n : ℕ) (hn : 2 ≤ n) :
    linspace off (off + ((n : K) - 1) * inc) n (n - 1) = off + ((n : K) - 1) * inc := by
  rw [time_track off inc n (n - 1) hn, Nat.cast_sub (by omega), Nat.cast_one]

/-! ## 6b. Absolute time track: `wf_start_time` plus THOSE offsets at the requested accuracy -/

/-- The source of `TdmsChannel.time_track` still has the shape that `absTrack` models: one relative track, scaled by the unit table
    and converted as a whole; the start time is only looked up (and, for a raw timestamp, converted at the accuracy). -/
theorem time_track_source_tied :
    Tdms.Generated.timeTrackRelativeExpr = "np.linspace(offset, offset + (len(self) - 1) * increment, len(self))" ∧
    Tdms.Generated.timeTrackAbsoluteExpr = "start_time + (relative_time * unit_correction).astype(time_type)" ∧
    Tdms.Generated.timeTrackDeltaType = "'timedelta64[{0}]'.format(accuracy)" ∧
    Tdms.Generated.timeTrackUnits = [("s", 1), ("ms", 10^3), ("us", 10^6), ("ns", 10^9)] ∧
    Tdms.Generated.timeTrackStatements =
      ["relative_time = np.linspace(offset, offset + (len(self) - 1) * increment, len(self))",
       "start_time = self.properties['wf_start_time']",
       "start_time = start_time.as_datetime64(accuracy)"] := by
  refine ⟨rfl, rfl, rfl, by decide, rfl⟩

/-- Truncation toward zero moves a value by less than one unit. -/
theorem truncRat_close (x : ℚ) : |((truncRat x : ℤ) : ℚ) - x| < 1 := by
  unfold truncRat
  split
  · have h1 := Rat.floor_le x
    have h2 := Rat.lt_floor_add_one x
    rw [abs_lt]; push_cast at h2 ⊢; constructor <;> linarith
  · have h1 : x ≤ ((x.ceil : ℤ) : ℚ) := Rat.le_ceil
    have h2 : ((x.ceil : ℤ) : ℚ) < x + 1 := by
      have e := Rat.ceil_eq_neg_floor_neg x
      have h3 := Rat.lt_floor_add_one (-x)
      rw [e]; push_cast at h3 ⊢; linarith
    rw [abs_lt]; constructor <;> linarith

/-- Every sample of the absolute track lies less than one unit of the accuracy from the relative time of that sample, measured
    from the start instant: `|(abs[i] − start) − rel[i]·R| < 1`, for every start, accuracy and relative time. -/
theorem absolute_track_within_one_unit (s : ℤ) (R : ℕ) (rel : ℚ) :
    |(((absTrack s R rel - s : ℤ)) : ℚ) - rel * (R : ℚ)| < 1 := by
  have h := truncRat_close (rel * (R : ℚ))
  have e : absTrack s R rel - s = truncRat (rel * (R : ℚ)) := by unfold absTrack; omega
  rw [e]; exact h

/-- A relative time that is a whole number of units is added exactly. -/
theorem absolute_track_exact_on_whole_units (s k : ℤ) (R : ℕ) (rel : ℚ) (h : rel * (R : ℚ) = (k : ℚ)) :
    absTrack s R rel = s + k := by
  unfold absTrack truncRat
  rw [h]
  split
  · rw [Rat.floor_intCast]
  · rw [Rat.ceil_intCast]

/-- With the relative track of `time_track`, sample `i` of a channel with `n ≥ 2` samples is the start instant plus
    `(off + i·inc)·R` truncated: the composition of `time_track` (over ℚ) and `absTrack`. -/
theorem absolute_track_of_linspace (s : ℤ) (R : ℕ) (off inc : ℚ) (n i : ℕ) (hn : 2 ≤ n) :
    absTrack s R (linspace off (off + ((n : ℚ) - 1) * inc) n i) = s + truncRat ((off + (i : ℚ) * inc) * (R : ℚ)) := by
  rw [time_track off inc n i hn]; rfl

/-- Converting the start offset and the sample offsets separately is a different function: half a second offset, half a second
    increment, accuracy one second, sample 1 (exactly one second after the start) would be reported at the start. -/
theorem split_conversion_differs :
    absTrackSplit 0 1 (1/2) (1/2) 1 = 0 ∧ absTrack 0 1 ((1/2 : ℚ) + 1 * (1/2)) = 1 := by
  decide +kernel

/-! ## 7. Non-vacuity and concrete values -/

example : (999999 : Nat) < 10^6 ∧ steps (10^6) (encodeUs 999999) = 999999 := by decide
example : steps (10^6) (encodeUs 1) = 1 := by decide
example : steps (10^6) (encodeUs 0) = 0 := by decide
example : encodeUs 1 = 18446744073709 ∧ encodeUs 999999 = 18446725626965477906 := by decide
-- band hypotheses inhabited (u = 500000, frac = exact value 2^63, and ± 2^11)
example : (500000 : Nat) < 10^6 ∧ (2^63 - 2^11 : Nat) < 2^64 ∧
    500000 * 2^64 ≤ ((2^63 - 2^11) + 2^11) * 10^6 ∧
    (2^63 - 2^11) * 10^6 ≤ 500000 * 2^64 + 2^11 * 10^6 ∧ steps (10^6) (2^63 - 2^11) = 500000 := by decide
example : 500000 * 2^64 ≤ ((2^63 + 2^11) + 2^11) * 10^6 ∧
    (2^63 + 2^11) * 10^6 ≤ 500000 * 2^64 + 2^11 * 10^6 ∧ steps (10^6) (2^63 + 2^11) = 500000 := by decide
-- pre-1904 datetime: delta = -1 µs; exact truncated quotient 0, remainder -1
example : (-(10^6 : Int) < (-1) - 0 * 10^6 ∧ (-1 : Int) - 0 * 10^6 < 10^6) ∧
    encode (-1) 0 = (-1, 18446725626965477906) ∧ decode (10^6) (-1) 18446725626965477906 = -1 := by decide
-- float quotient one too high (remainder negative): still fine
example : (-(10^6 : Int) < 1999999 - 2 * 10^6 ∧ (1999999 : Int) - 2 * 10^6 < 10^6) ∧
    encode 1999999 2 = encode 1999999 1 ∧ encode 1999999 1 = (1, 18446725626965477906) := by decide
-- float quotient one too low: the fractions word overflows (struct.pack would raise)
example : encodeFracInt 2000000 1 = 2^64 := by decide
-- the real-Python witness (datetime 20171-04-24T10:45:05, float quotient 576460752304 = exact − 1)
example : (576460752305000000 : Int) - 576460752304 * 10^6 = 10^6 ∧
    encodeFracInt 576460752305000000 576460752304 = 2^64 := by decide
-- float quotient leaving remainder exactly −1 s (observed for −16364-09-06T13:14:55): still correct
example : encode (-576460752305000000) (-576460752304) = (-576460752305, 0) := by decide
example : encodeExact (-1500000) = (-2, 2^63) ∧ decode (10^6) (-2) (2^63) = -1500000 := by decide
example : (10^9 : Nat) ∈ [1, 10^3, 10^6, 10^9] := by decide
example : steps (10^9) (2^63) = 500000000 ∧ steps 1 (2^64 - 1) = 0 ∧ steps (10^12) (2^64 - 1) = 10^12 - 1 := by
  decide
example : decode (10^3) (-5) 0 ≤ decode (10^3) (-4) 0 ∧ decode (10^3) (-5) 0 = -5000 := by decide
example : mulhi64 (2^64 - 1) (2^64 - 1) = 2^64 - 2 ∧ stepsArr (10^6) (2^64 - 1) = 999999 := by decide
example : ofBytesLE (toBytesLE (-1) 1) = (-1, 1) ∧
    toBytesLE (-2) 1 = [1,0,0,0,0,0,0,0,254,255,255,255,255,255,255,255] ∧
    toBytesBE (-2) 1 = [255,255,255,255,255,255,255,254,0,0,0,0,0,0,0,1] := by decide
example : linspace (1 : ℚ) (1 + ((5 : ℕ) - 1 : ℚ) * (1/4)) 5 3 = 7/4 := by
  rw [show ((5 : ℕ) - 1 : ℚ) = (((5 : ℕ) : ℚ) - 1) by norm_num, time_track _ _ 5 3 (by decide)]; norm_num

/-- The repaired writer (exact floor division) followed by the reader is the identity on every
    microsecond datetime, with no assumption about floating point. -/
theorem encodeFloor_decode : ∀ delta : Int,
    decode (10^6) (encodeFloor delta).1 (encodeFloor delta).2 = delta ∧ (encodeFloor delta).2 < 2^64 := by
  intro delta
  have h := encode_decode' delta (delta / 1000000) (by constructor <;> omega)
  simpa [encodeFloor] using h


end Tdms.Proofs.C12
