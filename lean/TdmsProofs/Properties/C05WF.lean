import TdmsProofs.Lemmas.C05WFMain
import TdmsProofs.Lemmas.C05WFDaqMain
import TdmsProofs.Properties.C05
import TdmsProofs.Properties.C01Multi

/-!
# C05 without well-formedness hypotheses: `IndexWF` for what `TdmsFile.open` produces

C05's `index_history_independent` assumes `IndexWF f`.  Here:

* `openFile_wf` — what holds for `openFile bytes = .ok f` for ARBITRARY bytes, by an invariant of
  `readMetadataLoop` (`Lemmas/C05WF{Parse,Inv,Loop,Facts,Main}.lean`): every segment is the output of
  `_calculate_chunks` (`numChunks`/`override` consistency), declared sizes of standard objects are
  `number_values * size`, and `len(channel)` is the sum over the segments of the value counts of ALL objects
  with that path.
* Which fields of `IndexWF` follow for arbitrary bytes and which are properties of the FILE:
  `override_chunks` is unconditional; `override_le` and `numValues_le` follow from `UniquePaths`
  (and `NoDaqmx`); `noDaqmx`, `interleavedFull`, `uniquePaths` are not consequences of the reader
  (`unique_paths_is_a_file_property` is a 116-byte file that violates `uniquePaths` AND `numValues_le`).
* `index_history_independent_encoded` — no hypothesis on the open file at all for `openFile (encodeFile e)`,
  `e` in C01Multi's class.

Core Lean only.
-/

namespace Tdms.Proofs.C05WF

open Tdms Tdms.Model Tdms.Generated Tdms.Proofs.C04 Tdms.Proofs.C05 Tdms.Proofs.C01Multi

/-! ## 1. arbitrary bytes -/

/-- **What `TdmsFile.open` guarantees about its segment table, for ARBITRARY bytes.**
    1. every segment is what `_calculate_chunks` returns: a chunk size `c` exists, the data region is not
       negative, and either there is no override and the region is exactly `numChunks` chunks, or there is
       an override `ov`, `numChunks ≥ 1`, the region is `numChunks - 1` chunks plus `0 < r < c` bytes, and
       `ov` is `_compute_final_chunk_lengths` of `r`;
    2. every object without DAQmx metadata and of fixed-width type declares `dataSize = numberValues * size`;
    3. `len(channel)` (`object_metadata[p].num_values`) is the sum over all segments of
       `_number_of_segment_values` of EVERY object with path `p`. -/
theorem openFile_wf (bytes : Bytes) (f : OpenFile) (h : openFile bytes = .ok f) :
    (∀ s ∈ f.segments, ∃ c, chunkSize s.objects = .ok c ∧ s.dataPosition ≤ s.nextSegmentPos ∧
      ((s.override = none ∧ s.nextSegmentPos - s.dataPosition = s.numChunks * c) ∨
       (∃ ov r, s.override = some ov ∧ 0 < r ∧ r < c ∧ 1 ≤ s.numChunks ∧
          s.nextSegmentPos - s.dataPosition = (s.numChunks - 1) * c + r ∧
          computeFinalChunkLengths s c r = .ok ov))) ∧
    (∀ s ∈ f.segments, ∀ o ∈ s.objects, o.daq = none → ∀ sz, o.dataType.bind typeSize = some sz →
      o.dataSize = o.numberValues * sz) ∧
    (∀ p, chanLen f p = (f.segments.map fun s =>
      ((s.objects.filter (·.path = p)).map fun o => numberOfSegmentValues o s).sum).sum) := by
  obtain ⟨_, prev, hi⟩ := openFile_inv bytes f h
  refine ⟨?_, fun s hs o ho => hi.segOK s hs o ho, fun p => hi.counts p⟩
  intro s hs
  obtain ⟨s0, h0, hcalc⟩ := hi.calcd s hs
  exact calculateChunks_inv h0 hcalc

/-- **Per segment, given distinct paths and a non-DAQmx reader**: an override implies at least one chunk,
    data objects declare `number_values * size` bytes, the truncated final chunk holds at most
    `number_values` values of every object, and paths without data have final length 0. -/
theorem openFile_segment_facts (bytes : Bytes) (f : OpenFile) (h : openFile bytes = .ok f) (s : Segment)
    (hs : s ∈ f.segments) (hk : dataReaderKind s ≠ .ok .daqmx) (hnd : (s.objects.map (·.path)).Nodup) :
    (∀ ov, s.override = some ov → 1 ≤ s.numChunks) ∧
    (∀ o ∈ s.objects.filter (·.hasData), ∀ sz, o.dataType.bind typeSize = some sz →
      o.dataSize = o.numberValues * sz) ∧
    (∀ ov, s.override = some ov → ∀ o ∈ s.objects, overrideGet ov o.path ≤ o.numberValues) ∧
    (∀ ov, s.override = some ov → ∀ p, p ∉ (s.objects.filter (·.hasData)).map (·.path) →
      overrideGet ov p = 0) := by
  obtain ⟨_, prev, hi⟩ := openFile_inv bytes f h
  have := segFacts_of_inv hi s hs hk hnd
  exact ⟨this.override_chunks, this.dataSize_eq, this.override_le, this.override_absent⟩

/-- **`len(channel)` = last offset of the index**, given distinct paths per segment -/
theorem openFile_len_eq_index_total (bytes : Bytes) (f : OpenFile) (h : openFile bytes = .ok f)
    (hu : UniquePaths f) (p : Bytes) : chanLen f p = indexTotal f p := by
  obtain ⟨_, prev, hi⟩ := openFile_inv bytes f h
  exact chanLen_eq_indexTotal hi hu p

/-- **`IndexWF` for what `openFile` returns** on arbitrary bytes, from the three decidable properties of the
    segment table that are properties of the file: distinct paths per segment, no DAQmx segment, no
    truncated interleaved segment -/
theorem indexWF_of_openFile (bytes : Bytes) (f : OpenFile) (h : openFile bytes = .ok f)
    (hu : UniquePaths f) (hnd : NoDaqmx f) (hil : InterleavedFull f) : IndexWF f := by
  obtain ⟨_, prev, hi⟩ := openFile_inv bytes f h
  exact indexWF_of_inv hi hu hnd hil

/-- C04's layout hypotheses for what `openFile` returns on arbitrary bytes: the layout of every path is
    well formed (truncated final chunk `≤` full chunk, override ⇒ a chunk exists) and
    `object_metadata[p].num_values` is the layout's total -/
theorem openFile_layout_wf (bytes : Bytes) (f : OpenFile) (h : openFile bytes = .ok f)
    (hu : UniquePaths f) (hnd : NoDaqmx f) (p : Bytes) :
    WellFormed (f.segments.map (layoutOf p)) ∧
      ((f.objects.get p).map (·.numValues)).getD 0 = total (f.segments.map (layoutOf p)) := by
  obtain ⟨_, prev, hi⟩ := openFile_inv bytes f h
  exact layout_of_inv hi hu hnd p

/-- `index` is history independent on every opened file with the three file properties -/
theorem index_history_independent_of_openFile (bytes : Bytes) (f : OpenFile) (h : openFile bytes = .ok f)
    (hu : UniquePaths f) (hnd : NoDaqmx f) (hil : InterleavedFull f) (ops : List Op) (p : Bytes) (i : Int) :
    (step f (run f {} ops) (.index p i)).2 = (step f {} (.index p i)).2 :=
  index_history_independent f (indexWF_of_openFile bytes f h hu hnd hil) ops p i

/-! ## 2. encoded files: no hypothesis on the open file -/

/-- `IndexWF` holds for `openFile (encodeFile e)` -/
theorem indexWF_encoded (e : FileEnc) (h : MultiStd e) (fit : FileFits e) (bytes : Bytes)
    (hb : encodeFile e = .ok bytes) (hlen : bytes.length < 2 ^ 63) :
    ∃ f, openFile bytes = .ok f ∧ IndexWF f := by
  obtain ⟨f, hopen, hu, hk, hov⟩ := file_props_encoded e h fit bytes hb hlen
  refine ⟨f, hopen, indexWF_of_openFile bytes f hopen hu ?_ ?_⟩
  · intro s hs hd; rw [hk s hs] at hd; cases hd
  · intro s hs _; exact hov s hs

/-- **`index` is history independent on the lazily opened encoding**: after ANY history of operations
    (`index`, `slice`, `read`, iterators, in any interleaving) an index read returns what it returns on a
    freshly opened file -/
theorem index_history_independent_encoded (e : FileEnc) (h : MultiStd e) (fit : FileFits e) (bytes : Bytes)
    (hb : encodeFile e = .ok bytes) (hlen : bytes.length < 2 ^ 63) :
    ∃ f, openFile bytes = .ok f ∧ ∀ (ops : List Op) (p : Bytes) (i : Int),
      (step f (run f {} ops) (.index p i)).2 = (step f {} (.index p i)).2 := by
  obtain ⟨f, hopen, hwf⟩ := indexWF_encoded e h fit bytes hb hlen
  exact ⟨f, hopen, fun ops p i => index_history_independent f hwf ops p i⟩

/-! ## 3. non-vacuity, and why `uniquePaths` is a hypothesis -/

/-- C01Multi's seven-segment file satisfies the hypotheses; the theorem applied to it -/
example : ∃ bytes f, encodeFile exFile = .ok bytes ∧ openFile bytes = .ok f ∧ IndexWF f ∧
    ∀ (ops : List Op) (p : Bytes) (i : Int),
      (step f (run f {} ops) (.index p i)).2 = (step f {} (.index p i)).2 := by
  obtain ⟨acts, _, hb⟩ := encodeFile_multi_bytes exFile exFile_std
  have hl := exFile_length
  rw [hb] at hl
  simp only [Except.toOption, Option.map_some, Option.some.injEq] at hl
  obtain ⟨f, hopen, hwf⟩ := indexWF_encoded exFile exFile_std exFile_fits _ hb (by rw [hl]; decide)
  exact ⟨_, f, hb, hopen, hwf, fun ops p i => index_history_independent f hwf ops p i⟩

/-- … and the index reads on it really return data after a history (kernel evaluation): the string
    channel `s`, index 5 after a window read, an index read elsewhere and a slice -/
example : (match encodeFile exFile with
    | .ok b => match openFile b with
      | .ok f => some ((step f (run f {} [.read C01Multi.exA 1 (some 3), .index C01Multi.exS 0, .slice C01Multi.exB none none none])
                        (.index C01Multi.exS 5)).2, (step f {} (.index C01Multi.exS 5)).2)
      | .error _ => none
    | .error _ => none) = some (.value [2, 3], .value [2, 3]) := by decide +kernel

/-- a 116-byte file whose only segment starts a new object list naming the path `/'g'/'a'` twice
    (2 values per chunk, then 1 value per chunk; 12 bytes of data) -/
def dupFile : Bytes :=
  [84, 68, 83, 109, 14, 0, 0, 0, 105, 18, 0, 0, 88, 0, 0, 0, 0, 0, 0, 0, 76, 0, 0, 0, 0, 0, 0, 0, 2, 0, 0, 0, 8,
   0, 0, 0, 47, 39, 103, 39, 47, 39, 97, 39, 20, 0, 0, 0, 3, 0, 0, 0, 1, 0, 0, 0, 2, 0, 0, 0, 0, 0, 0, 0, 0, 0, 0, 0, 8,
   0, 0, 0, 47, 39, 103, 39, 47, 39, 97, 39, 20, 0, 0, 0, 3, 0, 0, 0, 1, 0, 0, 0, 1, 0, 0, 0, 0, 0, 0, 0, 0, 0, 0, 0, 1,
   0, 0, 0, 2, 0, 0, 0, 3, 0, 0, 0]

/-- **`uniquePaths` is a property of the file, not of the reader**: on `dupFile` the reader keeps both
    objects; `len(channel) = 3` (both are counted) but the index (which takes the LAST object of a path)
    ends at 1, so `numValues_le` fails, `channel[1]` raises although `1 < len(channel)`, `channel[0]` is a
    value of the FIRST object, and the eager read returns the single value of the LAST object -/
theorem unique_paths_is_a_file_property :
    (match openFile dupFile with
      | .ok f => decide (¬ UniquePaths f) && decide (NoDaqmx f) && decide (InterleavedFull f) &&
          decide (chanLen f C01Multi.exA = 3) && decide (indexTotal f C01Multi.exA = 1) &&
          decide ((step f {} (.index C01Multi.exA 0)).2 = .value [1, 0, 0, 0]) &&
          decide ((step f {} (.index C01Multi.exA 1)).2 = .error .other)
      | .error _ => false) = true ∧
    (match readFile dupFile with
      | .ok r => r.channels.map (·.data) == [some [[3, 0, 0, 0]]]
      | .error _ => false) = true := by decide +kernel


/-! ## 4. DAQmx chunk locality (the lemma C05 named as missing) -/

/-- **Chunk locality for files with DAQmx segments** whose data objects all declare the same number of
    values per chunk (`IndexWFD`: C05's `IndexWF` with `noDaqmx` replaced by uniformity of every DAQmx
    segment, and `override_le` asked for data objects only).  `IndexWF f → IndexWFD f`
    (`IndexWFD.of_indexWF`). -/
theorem chunk_local_daqmx (f : OpenFile) (hwf : IndexWFD f) : ChunkLocal f := chunkLocal_of_wfd f hwf

/-- **`index` is history independent on files with (uniform) DAQmx segments**: C05's
    `index_history_independent_partial` with its hypothesis `ChunkLocal f` discharged -/
theorem index_history_independent_daqmx (f : OpenFile) (hwf : IndexWFD f) (ops : List Op) (p : Bytes) (i : Int) :
    (step f (run f {} ops) (.index p i)).2 = (step f {} (.index p i)).2 :=
  index_history_independent_partial f (chunkLocal_of_wfd f hwf) ops p i

/-- `IndexWFD` for what `openFile` returns on arbitrary bytes, from three properties of the file: distinct
    paths per segment, uniform DAQmx segments, no truncated interleaved segment -/
theorem indexWFD_of_openFile (bytes : Bytes) (f : OpenFile) (h : openFile bytes = .ok f)
    (hu : UniquePaths f) (hdq : DaqUniformFile f) (hil : InterleavedFull f) : IndexWFD f := by
  obtain ⟨_, prev, hi⟩ := openFile_inv bytes f h
  exact indexWFD_of_inv hi hu hdq hil

/-- a 216-byte file with one DAQmx segment: two Int32 channels `a`, `b` sharing one raw buffer of 8-byte
    rows (`a` at byte 0, `b` at byte 4), 2 rows per chunk, 2 chunks -/
def dmxFile : Bytes :=
  [84, 68, 83, 109, 142, 0, 0, 0, 105, 18, 0, 0, 172, 0, 0, 0, 0, 0, 0, 0, 140, 0, 0, 0, 0, 0, 0, 0, 2, 0, 0, 0,
   8, 0, 0, 0, 47, 39, 103, 39, 47, 39, 97, 39, 105, 18, 0, 0, 3, 0, 0, 0, 1, 0, 0, 0, 2, 0, 0, 0, 0, 0, 0, 0, 1, 0, 0, 0,
   5, 0, 0, 0, 0, 0, 0, 0, 0, 0, 0, 0, 0, 0, 0, 0, 0, 0, 0, 0, 1, 0, 0, 0, 8, 0, 0, 0, 0, 0, 0, 0, 8, 0, 0, 0, 47, 39,
   103, 39, 47, 39, 98, 39, 105, 18, 0, 0, 3, 0, 0, 0, 1, 0, 0, 0, 2, 0, 0, 0, 0, 0, 0, 0, 1, 0, 0, 0, 5, 0, 0, 0, 0, 0,
   0, 0, 4, 0, 0, 0, 0, 0, 0, 0, 0, 0, 0, 0, 1, 0, 0, 0, 8, 0, 0, 0, 0, 0, 0, 0, 1, 0, 0, 0, 11, 0, 0, 0, 2, 0, 0, 0, 12,
   0, 0, 0, 3, 0, 0, 0, 13, 0, 0, 0, 4, 0, 0, 0, 14, 0, 0, 0]

/-- the DAQmx example is read by the DAQmx reader, satisfies the three file properties, and index reads
    on it after a history return the data (kernel evaluation) -/
theorem dmxFile_facts :
    (match openFile dmxFile with
      | .ok f => decide (UniquePaths f) && daqUniformFileB f && decide (InterleavedFull f) &&
          decide (f.segments.map (fun s => dataReaderKind s) = [.ok .daqmx]) &&
          decide (runOps f {} [.index C01Multi.exB 3, .index C01Multi.exB 2, .read C01Multi.exA 1 (some 2),
              .index C01Multi.exA 0, .index C01Multi.exB (-4)] =
            [.value [14, 0, 0, 0], .value [13, 0, 0, 0],
             .readOut (some { data := some [[2, 0, 0, 0], [3, 0, 0, 0]], scalers := [] }),
             .value [1, 0, 0, 0], .value [11, 0, 0, 0]])
      | .error _ => false) = true := by decide +kernel

/-- the theorem applied to the DAQmx example: its hypotheses are satisfiable on a file that really has a
    DAQmx segment -/
example : ∃ f, openFile dmxFile = .ok f ∧ IndexWFD f ∧ ∀ (ops : List Op) (p : Bytes) (i : Int),
    (step f (run f {} ops) (.index p i)).2 = (step f {} (.index p i)).2 := by
  have hfacts := dmxFile_facts
  cases hopen : openFile dmxFile with
  | error e => rw [hopen] at hfacts; cases hfacts
  | ok f =>
    rw [hopen] at hfacts
    simp only [Bool.and_eq_true, decide_eq_true_eq] at hfacts
    obtain ⟨⟨⟨⟨hu, hdq⟩, hil⟩, _⟩, _⟩ := hfacts
    have hwf := indexWFD_of_openFile dmxFile f hopen hu (daqUniformFileB_sound hdq) hil
    exact ⟨f, rfl, hwf, fun ops p i => index_history_independent_daqmx f hwf ops p i⟩


/-- two DAQmx channels SHARING one raw buffer but declaring different chunk sizes (2 and 1 values per
    chunk; rejected by the spec's `wfDaqChunk`) -/
def dmxBad : FileEnc := [
  { C01Multi.exSeg0 with
      daqmxFlag := true,
      objs := [⟨C01Multi.exA, .daqmx false 3 2 [⟨5, 0, 0, 0, 0⟩] [8], []⟩,
               ⟨C01Multi.exB, .daqmx false 3 1 [⟨5, 0, 4, 0, 0⟩] [8], []⟩],
      chunks := [[[[1, 0, 0, 0, 11, 0, 0, 0], [2, 0, 0, 0, 12, 0, 0, 0]]],
                 [[[3, 0, 0, 0, 13, 0, 0, 0], [4, 0, 0, 0, 14, 0, 0, 0]]]] } ]

/-- **uniformity of DAQmx segments is needed**: on `dmxBad` the chunk of `b` holds 2 values although `b`
    declares 1 per chunk, the cache bounds reach into the next chunk, and `b[1]` is 12 after `b[0]` was read
    but 13 on a freshly opened file — index reads ARE history dependent in the model (kernel evaluation) -/
theorem daq_uniform_is_needed :
    (match encodeFile dmxBad with
      | .ok b => match openFile b with
        | .ok f => !daqUniformFileB f &&
            decide (runOps f {} [.index C01Multi.exB 0, .index C01Multi.exB 1] =
              [.value [11, 0, 0, 0], .value [12, 0, 0, 0]]) &&
            decide (runOps f {} [.index C01Multi.exB 1] = [.value [13, 0, 0, 0]])
        | .error _ => false
      | .error _ => false) = true := by decide +kernel

end Tdms.Proofs.C05WF
