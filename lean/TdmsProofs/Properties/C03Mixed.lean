import TdmsProofs.Properties.C03
import TdmsProofs.Lemmas.C03MixedGeneral

/-!
# C03 on files mixing contiguous and INTERLEAVED segments — every lazy path: headline theorems

`Properties/C03.lean` covers every lazy access path for contiguous segments, and for interleaved
segments only the whole-channel reads.  Here: **every window** `read_data(offset, length)`, slices,
integer indices (with the one-chunk cache) and `channel.data_chunks()` on files whose segments are
contiguous or interleaved — complete, or with a truncated final chunk (part 3).

Why the C04 window theorem did not apply: it is stated for the chunk-by-chunk supplier `supOf`, while
`segReadChannel` returns ONE coalesced chunk for all planned chunks of an interleaved segment (and an
extra empty chunk for a segment without the raw-data flag).  The missing piece is §0:
`trimStream_coalesce` — trimming `skip` values at the front and everything beyond the window at the back
of a concatenation is insensitive to how the concatenation is chunked — together with the fact (kept
internal in C04, re-derived in `Lemmas/C03MixedStep.lean`) that every run the window loop plans satisfies
`TrimOk`, chunk by chunk and coalesced.

Vocabulary (definitions in `Lemmas/C03Mixed*.lean`):

* `SegsMixedWinWf file segs` (= `SegsWOk`): every segment starts with the `TDSm` tag, has pairwise distinct
  object paths, has no chunks unless it carries the raw-data flag, and is either contiguous with exact
  chunks (`ContigOk`, as in `SegsWf`) or INTERLEAVED with (`InterWOk`) fixed-width objects whose
  `data_size = number_values · size`, a successful read, and as many complete rows as the metadata says:
  for every data object `o`, `len(eager column of o) = (layoutOf o.path s).nvals`
  (`cs · numChunks`, or `cs · (numChunks - 1) + override` for a truncated final chunk).
  Decidable: `segsWOkB`.
* `eager` = `valuesIn r.channels p`, what `readFile` holds.

Nothing is proved by enumeration except the labelled examples.  Core Lean only (no Mathlib).
-/

namespace Tdms.Proofs.C03

open Tdms Tdms.Generated Tdms.Model Tdms.Proofs.Bytes Tdms.Proofs.C04 Tdms.Proofs.C01Compose

/-- the invariant on the segments of a reader state, both layouts, for window reads (`SegWOk` for every segment) -/
abbrev SegsMixedWinWf (file : Bytes) (segs : List Segment) : Prop := SegsWOk file segs

/-! ## 0. Trimming is insensitive to chunking -/

/-- **`trimStream_coalesce`.**  `trimStream len · skip vr` is the per-chunk arithmetic of
    `read_raw_data_for_channel` (`skip` for the first chunk, running `values_read`, `trim` once the window
    is full).  For two runs of chunks with the SAME concatenation, both satisfying `TrimOk` (the values
    to skip lie in the first chunk; every chunk starts at or before the window end), the values kept and
    the final `values_read` coincide. -/
theorem trimStream_coalesce' (len : Int) (ds ds' : List (List Bytes)) (skip : Nat) (vr : Int)
    (hflat : ds.flatten = ds'.flatten) (h : TrimOk len ds skip vr) (h' : TrimOk len ds' skip vr) :
    dataOf (trimStream len (wrap ds) skip vr).1 = dataOf (trimStream len (wrap ds') skip vr).1 ∧
    (trimStream len (wrap ds) skip vr).2 = (trimStream len (wrap ds') skip vr).2 :=
  trimStream_coalesce len ds ds' skip vr hflat h h'

/-- closed form behind it: under `TrimOk` the values kept are the slice `[skip : len - vr + skip]` of the
    concatenation -/
theorem trimStream_closed_form (len : Int) (ds : List (List Bytes)) (skip : Nat) (vr : Int)
    (h : TrimOk len ds skip vr) :
    dataOf (trimStream len (wrap ds) skip vr).1 = sl ds.flatten skip (len - vr + skip) :=
  trimStream_closed len ds skip vr h

/-- **every run the window loop plans may be trimmed chunk by chunk and coalesced** (same hypotheses as
    C04's `seg_step`; `a`, `e`: window relative to the segment start; `planA` is `segPlan` on a layout):
    the plan exists, chunk offset and chunk count are non-negative and inside the segment, and the
    planned run satisfies `TrimOk` in both forms. -/
theorem planned_run_trimOk (l : SegL) (v : Nat → List Bytes) (hwf : l.WF) (hcs : 0 < l.cs) (hv : ChunksOk l v)
    (isStart isEnd : Bool) (a e vr : Int)
    (hs : isStart = true → 0 ≤ a ∧ a < l.nvals) (hns : isStart = false → a < 0)
    (hvr : vr = if isStart then 0 else -a)
    (he : isEnd = true → e ≤ l.nvals ∧ a ≤ e ∧ (isStart = false → 0 < e))
    (hne : isEnd = false → (l.nvals : Int) ≤ e) :
    ∃ co skip nc, planA l isStart isEnd a (l.nvals - e) = some (co, skip, nc) ∧
      0 ≤ co ∧ 0 ≤ nc ∧ co.toNat + nc.toNat ≤ l.k ∧
      TrimOk (e - a) ((List.range' co.toNat nc.toNat).map v) skip.toNat vr ∧
      TrimOk (e - a) [((List.range' co.toNat nc.toNat).map v).flatten] skip.toNat vr :=
  seg_step_trimOk l v hwf hcs hv isStart isEnd a e vr hs hns hvr he hne

/-- **the pure window over ANY supplier that is trim-equivalent to the chunk-by-chunk one** (`SupEquiv`:
    wherever the planned run satisfies `TrimOk` in both forms, `trimStream` keeps the same values and
    leaves the same `values_read`) is `full[offset : offset + length]` — C04's window theorem for
    suppliers that coalesce consecutive chunks or insert empty chunks. -/
theorem window_eq_slice_coalescing (segs : List Segment) (p : Bytes) (vals : Vals) (numValues : Nat)
    (hwf : WellFormed (segs.map (layoutOf p))) (hvals : ValsOk (segs.map (layoutOf p)) vals)
    (hnum : numValues = total (segs.map (layoutOf p)))
    (sup : Supplier) (hsup : SupEquiv segs p vals sup)
    (offset : Int) (length : Option Int) (h0 : 0 ≤ offset) (hl : ∀ l, length = some l → 0 ≤ l) :
    dataOf (windowPureG segs p numValues sup offset length)
      = takeOpt length ((full (segs.map (layoutOf p)) vals).drop offset.toNat) := by
  rw [windowPureG_supEquiv segs p vals numValues hwf hvals hnum sup hsup offset length h0 hl]
  exact window_eq_slice_segments segs p vals numValues hwf hvals hnum offset length h0 hl

/-! ## 1. Key lemmas on ARBITRARY bytes: one interleaved segment -/

/-- **Rows of a sub-range.**  `rowsAt file w pos n` are the complete rows of `w` bytes among the `n` rows
    requested at `pos` (`read_interleaved_segment_bytes`).  Requesting `b` rows from row `a` returns rows
    `[a, a+b)` of any larger request starting at row 0 — for every file length. -/
theorem interleaved_rows_sub (file : Bytes) (w : Nat) (hw : 0 < w) (a b n pos : Nat) (h : a + b ≤ n) :
    rowsAt file w (pos + w * a) b = ((rowsAt file w pos n).drop a).take b :=
  rowsAt_sub file w hw a b n pos h

/-- **Interleaved segment, any chunk range.**  For an interleaved segment with fixed-width objects whose
    read succeeds (`InterBase`; no hypothesis on the file length or on `override`), distinct object paths,
    and a channel `p` with values in it: the lazy read of chunks `[co, co+nc)` (`0 ≤ nc`, inside the
    segment) succeeds from any file state and returns — after the optional empty chunk — ONE chunk
    holding `eagerColumn[cs·co : cs·(co+nc)]`, where `segE file s p` is what the eager reader holds for
    `p` in this segment. -/
theorem interleaved_range_agrees (file : Bytes) (s : Segment) (p : Bytes) (h : SegWOk file s) (hi : InterBase file s)
    (hcs : (layoutOf p s).cs ≠ 0) (co : Nat) (nc : Int) (h0 : 0 ≤ nc) (hin : co + nc.toNat ≤ s.numChunks) (st : FState) :
    ∃ st', segReadChannel file s p co (some nc) st =
      .ok ((if !hasFlag s.toc kTocRawData then [({} : ChanChunk)] else []) ++
        [({ data := some (((segE file s p).drop ((layoutOf p s).cs * co)).take ((layoutOf p s).cs * nc.toNat)) } : ChanChunk)],
        st') :=
  segReadChannel_interW h hi p hcs co nc h0 hin st

/-- the eager read of a file satisfying the invariant holds, for every path, the concatenation over the
    segments of `segE` -/
theorem eager_eq_segments (file : Bytes) (r : EagerResult) (h : readFile file = .ok r)
    (hwf : SegsMixedWinWf file r.state.segments) (p : Bytes) :
    valuesIn r.channels p = r.state.segments.flatMap fun s => segE file s p :=
  readFile_eagerW file r h hwf p

/-! ## 2. Windows, `read_data`, slices -/

/-- **`window_eq_eager_mixed` — every window.**  On a file mixing contiguous and interleaved segments,
    `read_data(offset, length)` on the open file returns `eager[offset : offset + length]`, for every
    `offset ≥ 0` and every `length` (`none` or `≥ 0`), from any file state. -/
theorem window_eq_eager_mixed (file : Bytes) (r : EagerResult) (h : readFile file = .ok r)
    (hwf : SegsMixedWinWf file r.state.segments) (p : Bytes) (m : ObjMeta)
    (hc : ChanOk r.state.objects r.state.segments p m) (hty : m.dataType.isSome = true)
    (offset : Int) (length : Option Int) (h0 : 0 ≤ offset) (hl : ∀ l, length = some l → 0 ≤ l) (st : FState) :
    ∃ st' out, (channelReadData (openOf file r) p offset length).run st = .ok (some out, st') ∧
      out.data.getD [] = takeOpt length ((valuesIn r.channels p).drop offset.toNat) := by
  obtain ⟨st', out, hrun, hd⟩ := channelReadData_windowW (openOf file r) p m hwf hc hty offset length h0 hl st
  exact ⟨st', out, hrun, by rw [hd, readFile_eagerW file r h hwf p]; rfl⟩

/-- the same with the hypotheses of `window_full_eq_eager_mixed` (`SegsMixedWf`) plus `InterFits` for
    every segment: interleaved segments have fixed-width objects with `data_size = number_values · size`
    and their raw data lie inside the file -/
theorem window_eq_eager_mixed' (file : Bytes) (r : EagerResult) (h : readFile file = .ok r)
    (hwf : SegsMixedWf file r.state.segments) (hfit : ∀ s ∈ r.state.segments, InterFits file s)
    (p : Bytes) (m : ObjMeta)
    (hc : ChanOk r.state.objects r.state.segments p m) (hty : m.dataType.isSome = true)
    (offset : Int) (length : Option Int) (h0 : 0 ≤ offset) (hl : ∀ l, length = some l → 0 ≤ l) (st : FState) :
    ∃ st' out, (channelReadData (openOf file r) p offset length).run st = .ok (some out, st') ∧
      out.data.getD [] = takeOpt length ((valuesIn r.channels p).drop offset.toNat) :=
  window_eq_eager_mixed file r h (fun s hs => (hwf s hs).toW (hfit s hs)) p m hc hty offset length h0 hl st

/-- the generator behind it: the chunks `read_raw_data_for_channel(path, offset, length)` yields,
    concatenated, are `eager[offset : offset + length]` -/
theorem channel_chunks_window_eq_eager_mixed (file : Bytes) (r : EagerResult) (h : readFile file = .ok r)
    (hwf : SegsMixedWinWf file r.state.segments) (p : Bytes) (m : ObjMeta)
    (hc : ChanOk r.state.objects r.state.segments p m)
    (offset : Int) (length : Option Int) (h0 : 0 ≤ offset) (hl : ∀ l, length = some l → 0 ≤ l) (st : FState) :
    ∃ cs st', (readRawDataForChannel (openOf file r) p offset length).run st = .ok (cs, st') ∧
      dataOf cs = takeOpt length ((valuesIn r.channels p).drop offset.toNat) := by
  obtain ⟨cs, st', hrun, hd⟩ := readRawDataForChannel_windowW (openOf file r) p m hwf hc offset length h0 hl st
  exact ⟨cs, st', hrun, by rw [hd, readFile_eagerW file r h hwf p]; rfl⟩

/-- **`channel[a:b:c]` on a mixed file** is CPython's slice of the eager values, for all
    `a b c : Option Int` (`ValueError` ↦ `stepZero`), from any file state (`channel[:]` included). -/
theorem slice_eq_eager_mixed (file : Bytes) (r : EagerResult) (h : readFile file = .ok r)
    (hwf : SegsMixedWinWf file r.state.segments) (p : Bytes) (m : ObjMeta)
    (hc : ChanOk r.state.objects r.state.segments p m) (hty : m.dataType.isSome = true)
    (a b c : Option Int) (st : FState) :
    match Tdms.Spec.PySlice.pySlice (valuesIn r.channels p) a b c with
    | .error _ => (channelReadSlice (openOf file r) p a b c).run st = .error .stepZero
    | .ok xs => ∃ st', (channelReadSlice (openOf file r) p a b c).run st = .ok (xs, st') := by
  have := channelReadSlice_eagerW (openOf file r) p m hwf hc hty a b c st
  rw [readFile_eagerW file r h hwf p]
  exact this

/-- the channel has as many eager values as `len(channel)` says -/
theorem eager_length_eq_numValues_mixed (file : Bytes) (r : EagerResult) (h : readFile file = .ok r)
    (hwf : SegsMixedWinWf file r.state.segments) (p : Bytes) (m : ObjMeta)
    (hc : ChanOk r.state.objects r.state.segments p m) : (valuesIn r.channels p).length = m.numValues := by
  rw [readFile_eagerW file r h hwf p, eagerW_length file r.state.segments p hwf hc.wf, hc.num]

/-! ## 3. Integer indexing -/

/-- **`index_eq_eager_mixed`**: `channel[i]` for `-n ≤ i < n` with the one-chunk cache in ANY state
    consistent with the file returns `eager[i mod n]` and leaves a consistent cache — from any file state.
    (For an interleaved segment the cached chunk is the slice of `cs` rows that `num_chunks = 1` reads.) -/
theorem index_eq_eager_mixed (file : Bytes) (r : EagerResult) (h : readFile file = .ok r)
    (hwf : SegsMixedWinWf file r.state.segments) (p : Bytes) (m : ObjMeta)
    (hc : ChanOk r.state.objects r.state.segments p m)
    (cache : Option ChunkCache) (hcache : CacheOk? (valuesIn r.channels p) cache)
    (index : Int) (hidx : -(m.numValues : Int) ≤ index ∧ index < m.numValues) (st : FState) :
    ∃ v cache' st', (channelReadAtIndex (openOf file r) p cache index).run st = .ok ((v, cache'), st') ∧
      (valuesIn r.channels p)[(index % (m.numValues : Int)).toNat]? = some v ∧
      CacheOk? (valuesIn r.channels p) cache' := by
  rw [readFile_eagerW file r h hwf p] at hcache ⊢
  exact channelReadAtIndex_eagerW (openOf file r) p m hwf hc cache hcache index hidx st

/-- reading the indices `i0, i0+1, …, i0+n-1` in turn (cache threaded through) returns `eager[i0 : i0+n]` -/
theorem index_scan_eq_eager_mixed (file : Bytes) (r : EagerResult) (h : readFile file = .ok r)
    (hwf : SegsMixedWinWf file r.state.segments) (p : Bytes) (m : ObjMeta)
    (hc : ChanOk r.state.objects r.state.segments p m)
    (n i0 : Nat) (cache : Option ChunkCache) (hcache : CacheOk? (valuesIn r.channels p) cache)
    (hle : i0 + n ≤ m.numValues) (st : FState) :
    ∃ cache' st', (indexScan (openOf file r) p n i0 cache).run st
        = .ok ((((valuesIn r.channels p).drop i0).take n, cache'), st') ∧
      CacheOk? (valuesIn r.channels p) cache' := by
  rw [readFile_eagerW file r h hwf p] at hcache ⊢
  exact indexScan_eagerW (openOf file r) p m hwf hc n i0 cache hcache hle st

/-! ## 4. `channel.data_chunks()` -/

/-- **`channel.data_chunks()` and iteration over a channel of a mixed file** (the state machine `ChanIter`
    consumed by `chanIterAll`; an interleaved segment contributes ONE chunk): the chunks concatenate to
    the channel's eager data, and the offset reported with each chunk is the number of values delivered
    before it. -/
theorem channel_data_chunks_eq_eager_mixed (file : Bytes) (r : EagerResult) (h : readFile file = .ok r)
    (hwf : SegsMixedWinWf file r.state.segments) (p : Bytes) (m : ObjMeta)
    (hc : ChanOk r.state.objects r.state.segments p m) :
    ∃ N, ∀ n st, N ≤ n → ∃ out st', (chanIterAll (openOf file r) n (newChanIter (openOf file r) p)).run st = .ok (out, st') ∧
      dataOf (out.map (·.1)) = valuesIn r.channels p ∧
      ∀ j x, out[j]? = some x → x.2 = (dataOf ((out.take j).map (·.1))).length := by
  refine ⟨(chanTailW (openOf file r) p m.numValues (chanEnd (openOf file r) p m.numValues + 1 - chanStart (openOf file r) p)
    (chanStart (openOf file r) p)).length, fun n st hn => ?_⟩
  obtain ⟨out, st', hrun, hd, hoff⟩ := chanIterAll_eagerW (openOf file r) p m hwf hc n hn st
  exact ⟨out, st', hrun, by rw [hd, readFile_eagerW file r h hwf p]; rfl, hoff⟩

/-- one `next()` of a suspended channel iterator, in any state reachable from a fresh one (`ChanInvW`),
    from any file state: it yields the next chunk of the planned reads with the running offset
    (`ChanStepSpecW`) — reusable for arbitrary interleavings of operations (C05). -/
theorem channel_iter_next_mixed (f : OpenFile) (p : Bytes) (m : ObjMeta) (hok : SegsMixedWinWf f.file f.segments)
    (hc : ChanOk f.objects f.segments p m) (fuel : Nat) (it : ChanIter) (st : FState)
    (hinv : ChanInvW f p m.numValues it) (hfuel : f.segments.length + 1 ≤ it.seg + fuel) :
    ∃ r it' st', chanIterNext f fuel it st = .ok ((r, it'), st') ∧ ChanStepSpecW f p m.numValues it r it' :=
  chanIterNext_specW f p m hok hc fuel it st hinv hfuel

/-! ## 5. When the invariant holds; truncated interleaved final chunks (part 3) -/

/-- `SegsWf` (contiguous files) implies `SegsMixedWinWf` -/
theorem segsMixedWinWf_of_segsWf (file : Bytes) (segs : List Segment) (h : SegsWf file segs) : SegsMixedWinWf file segs :=
  fun s hs => (h s hs).toW

/-- `SegsMixedWf` plus `InterFits` implies `SegsMixedWinWf` -/
theorem segsMixedWinWf_of_mixedWf (file : Bytes) (segs : List Segment) (h : SegsMixedWf file segs)
    (hfit : ∀ s ∈ segs, InterFits file s) : SegsMixedWinWf file segs :=
  fun s hs => (h s hs).toW (hfit s hs)

/-- **the eager column of an interleaved segment holds the complete rows**: for every data object `o`,
    with `w` the row width (`segCsz s = w · number_values`), `len(column) = min (number_values · numChunks)
    ((len(file) - dataPosition) / w)` — whatever the file length. -/
theorem interleaved_complete_rows (file : Bytes) (s : Segment) (hb : InterBase file s)
    (hnd : (s.objects.map (·.path)).Nodup) (o : SegObj) (hod : o ∈ dataObjs s) :
    ∃ w, 0 < w ∧ segCsz s = w * o.numberValues ∧
      (segE file s o.path).length = min (o.numberValues * s.numChunks) ((file.length - s.dataPosition) / w) :=
  interB_rows hb hnd o hod

/-- **Part 3 — a truncated interleaved segment at the end of the file.**  If `calculateChunks` produced
    the segment (`CalcOut`), it carries an override and ends where the file ends, then the override
    lengths are the numbers of complete rows of the truncated final chunk: the interleaved invariant
    `InterWOk` holds, so all theorems of this file apply (lazy = eager on the truncated file). -/
theorem truncated_interleaved_at_eof (file : Bytes) (s : Segment) (hb : InterBase file s)
    (hnd : (s.objects.map (·.path)).Nodup) (hcalc : CalcOut s) (ov : List (Bytes × Nat))
    (hov : s.override = some ov) (heof : s.nextSegmentPos = file.length) : InterWOk file s :=
  interW_of_eof hb hnd hcalc ov hov heof

/-- **any accepted file mixing contiguous and interleaved segments**: `SegsMixedWinWf` and `ChanOk` for the
    reader state of any byte string `readMetadata` accepts, from per-segment hypotheses (`SegShapeW`:
    distinct paths, no chunks without the raw-data flag, and either contiguous with exact chunks, or
    interleaved with fixed-width objects and a successful read — not truncated, or truncated and ending
    at the end of the file). -/
theorem invariants_hold_mixed_win (file : Bytes) (st : ReaderState) (h : readMetadata file = .ok st)
    (hshape : ∀ s ∈ st.segments, SegShapeW file s) :
    SegsMixedWinWf file st.segments ∧ ∀ p m, st.objects.get p = some m → ChanOk st.objects st.segments p m :=
  readMetadata_invariants_mixedW file st h hshape

/-- the executable checkers are sound -/
theorem invariants_of_check_mixed (file : Bytes) (segs : List Segment) (objects : ObjMetas) (p : Bytes)
    (h1 : segsWOkB file segs = true) (h2 : chanOkB objects segs p = true) :
    SegsMixedWinWf file segs ∧ ∃ m, ChanOk objects segs p m :=
  ⟨segsWOkB_sound h1, chanOkB_sound h2⟩

/-! ## 6. Examples: the hypotheses are satisfiable, and needed (closed terms, by kernel evaluation) -/

section Examples

/-- the mixed file of `Properties/C03.lean` (interleaved segment: Int32 `a`, `b`, 2 chunks of 3 rows;
    then a contiguous segment with 2 values of `a`): all hypotheses hold for both channels -/
theorem exInter_checkW : checkAllW exInterBytes [exA, exB] = true := by decide +kernel

/-- the four-segment contiguous file of `Properties/C03.lean` satisfies the mixed invariant as well -/
theorem exMulti_checkW : checkAllW exMultiBytes [exA, exB, exS] = true := by decide +kernel

/-- the theorems instantiated (NOT by evaluation): `a.read_data(2, 5)` on the mixed file crosses the two
    chunks of the interleaved segment and the segment boundary -/
example : ∀ st, ∃ r st' out, readFile exInterBytes = .ok r ∧
    (channelReadData (openOf exInterBytes r) exA 2 (some 5)).run st = .ok (some out, st') ∧
    out.data.getD [] = [i32 3, i32 4, i32 5, i32 6, i32 7] := by
  intro st
  obtain ⟨r, hr, hwf, hch⟩ := checkAllW_sound exInter_checkW
  obtain ⟨m, hm⟩ := hch exA (by simp)
  have hv := exInter_check
  have h4 := exInter_check_mixed
  rw [hr] at hv h4
  simp only [Bool.and_eq_true, decide_eq_true_eq] at hv h4
  have hty : m.dataType.isSome = true := by
    have := h4.2
    rw [hm.get] at this
    simpa using this
  obtain ⟨st', out, h1, h2⟩ := window_eq_eager_mixed exInterBytes r hr hwf exA m hm hty 2 (some 5) (by decide)
    (by intro l h; cases h; decide) st
  refine ⟨r, st', out, hr, h1, ?_⟩
  rw [h2, hv.1.2]
  decide

/-- `b[-2]` on the mixed file, empty cache: the value and a consistent cache -/
example : ∀ st, ∃ r v cache' st', readFile exInterBytes = .ok r ∧
    (channelReadAtIndex (openOf exInterBytes r) exB none (-2)).run st = .ok ((v, cache'), st') ∧ v = i32 15 := by
  intro st
  obtain ⟨r, hr, hwf, hch⟩ := checkAllW_sound exInter_checkW
  obtain ⟨m, hm⟩ := hch exB (by simp)
  have hv := exInter_check
  rw [hr] at hv
  simp only [Bool.and_eq_true, decide_eq_true_eq] at hv
  have hlen := eager_length_eq_numValues_mixed exInterBytes r hr hwf exB m hm
  rw [hv.2] at hlen
  have hn : m.numValues = 6 := by simpa using hlen.symm
  obtain ⟨v, c', st', h1, h2, _⟩ := index_eq_eager_mixed exInterBytes r hr hwf exB m hm none trivial (-2)
    (by rw [hn]; decide) st
  refine ⟨r, v, c', st', hr, h1, ?_⟩
  rw [hv.2, hn] at h2
  have : ((-2 : Int) % ((6 : Nat) : Int)).toNat = 4 := by decide
  rw [this] at h2
  simpa using h2.symm

/-- one interleaved segment: Int32 `a`, `b`, 2 chunks of 3 rows (152 bytes) -/
def exI1 : FileEnc :=
  [ { exMk true true true [⟨exA, .full 3 3 0, []⟩, ⟨exB, .full 3 3 0, []⟩]
        [[[i32 1, i32 2, i32 3], [i32 11, i32 12, i32 13]], [[i32 4, i32 5, i32 6], [i32 14, i32 15, i32 16]]]
      with interleaved := true } ]

def exI1Bytes : Bytes := (encodeFile exI1).toOption.getD []

/-- **part 3**: the file cut 5 bytes short — the last row is incomplete; `readMetadata` records 2 chunks
    with the override `a ↦ 2, b ↦ 2`; the eager read holds 5 values per channel; all hypotheses hold -/
theorem exI1_truncated_check : checkAllW (exI1Bytes.take 147) [exA, exB] = true := by decide +kernel

theorem exI1_truncated_facts :
    ((readFile (exI1Bytes.take 147)).toOption.map fun r =>
      (r.state.segments.map fun s => (s.numChunks, s.override.map fun ov => (overrideGet ov exA, overrideGet ov exB)),
       valuesIn r.channels exA, valuesIn r.channels exB))
    = some ([(2, some (2, 2))], [i32 1, i32 2, i32 3, i32 4, i32 5], [i32 11, i32 12, i32 13, i32 14, i32 15]) := by
  decide +kernel

/-- … and they follow from `invariants_hold_mixed_win` (not from evaluating `segE`): its hypotheses are
    properties of the segment records, the success of the read, and `nextSegmentPos = len(file)` -/
example : (match readMetadata (exI1Bytes.take 147) with
    | .ok st => st.segments.all fun s =>
        decide ((s.objects.map (·.path)).Nodup) && hasFlag s.toc kTocRawData && sizedOkB s &&
        (match dataReaderKind s with | .ok .interleaved => true | _ => false) && (interRead (exI1Bytes.take 147) s).toOption.isSome &&
        decide (s.nextSegmentPos = 147)
    | .error _ => false) = true := by decide +kernel

/-- the window theorem instantiated on the truncated file: `b.read_data(1, 10)` = the 4 remaining values -/
example : ∀ st, ∃ r st' out, readFile (exI1Bytes.take 147) = .ok r ∧
    (channelReadData (openOf (exI1Bytes.take 147) r) exB 1 (some 10)).run st = .ok (some out, st') ∧
    out.data.getD [] = [i32 12, i32 13, i32 14, i32 15] := by
  intro st
  obtain ⟨r, hr, hwf, hch⟩ := checkAllW_sound exI1_truncated_check
  obtain ⟨m, hm⟩ := hch exB (by simp)
  have hv := exI1_truncated_facts
  rw [hr] at hv
  simp only [Except.toOption, Option.map_some, Option.some.injEq, Prod.mk.injEq] at hv
  have hty : m.dataType.isSome = true := by
    have h1 : ((readFile (exI1Bytes.take 147)).toOption.map fun r => (r.state.objects.get exB).map (·.dataType.isSome))
        = some (some true) := by decide +kernel
    rw [hr] at h1
    simp only [Except.toOption, Option.map_some, Option.some.injEq, hm.get] at h1
    exact h1
  obtain ⟨st', out, h1, h2⟩ := window_eq_eager_mixed (exI1Bytes.take 147) r hr hwf exB m hm hty 1 (some 10) (by decide)
    (by intro l h; cases h; decide) st
  refine ⟨r, st', out, hr, h1, ?_⟩
  rw [h2, hv.2.2]
  decide

/-! ### the hypotheses are needed -/

/-- the interleaved segment of `exI1` followed by `extra` stray bytes that its lead-in counts as raw data,
    then a contiguous segment with 2 values of `a` -/
def exStray (extra : Nat) : Bytes :=
  (exI1Bytes.take 12 ++ [(124 + extra).toUInt8] ++ exI1Bytes.drop 13) ++ List.replicate extra 9 ++
    ((encodeFile [exMk true true true [⟨exA, .full 3 2 0, []⟩] [[[i32 7, i32 8]]]]).toOption.getD [])

/-- **"as many complete rows as the metadata says" is needed** (an interleaved segment with a truncated
    final chunk that is NOT at the end of the file): `readMetadata` accepts the file (3 chunks, override
    1 row), the interleaved reader ignores the override and reads `3 · 3` rows — into the next segment.
    The eager read raises (`overflow`: NumPy's "could not broadcast"), while the lazy `read_data()` returns
    9 values without raising: the 6 real ones, a row of stray bytes, then values decoded from the stray
    bytes and from the NEXT SEGMENT'S LEAD-IN — and the 2 values of the second segment are lost.
    `SegsMixedWinWf` fails. -/
example : (match readFile (exStray 12) with | .error .overflow => true | _ => false) = true ∧
    ((openFile (exStray 12)).toOption.map fun f =>
      (segsWOkB f.file f.segments,
       f.segments.map fun s => (s.numChunks, s.override.map fun ov => overrideGet ov exA),
       (f.objects.get exA).map (·.numValues)))
    = some (false, [(3, some 1), (1, none)], some 9) ∧
    ((openFile (exStray 12)).toOption.map fun f =>
       match (channelReadData f exA 0 none).run {} with
       | .ok (some o, _) => o.data.getD []
       | _ => [])
    = some [i32 1, i32 2, i32 3, i32 4, i32 5, i32 6, [9, 9, 9, 9], [9, 9, 9, 9], [14, 0, 0, 0]] := by
  refine ⟨?_, ?_, ?_⟩ <;> decide +kernel

end Examples

end Tdms.Proofs.C03
