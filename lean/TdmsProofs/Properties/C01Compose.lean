/-
  C01 ("reading returns exactly the content the file encodes"): the COMPOSED theorem for files of one
  segment.

  The model reader (`Tdms/Model/Reader.lean`, `Tdms/Model/Data.lean`) applied to the spec encoding
  (`Tdms/Spec/Format.lean`) of a one-segment well-formed file returns exactly the spec's meaning
  (`Tdms/Spec/Meaning.lean`).  Lemmas live in `TdmsProofs/Lemmas/C01Compose{Spec,Meta,Data,File,Main}.lean`
  and build on the layer theorems of `C01Layers.lean` and the loop lemmas of `C06.lean`.  Core Lean only.

  The class of segments (`SingleStd s`, defined in `C01ComposeMain.lean`):
    * `s.hasMeta = true`, `s.interleaved = false`, `s.lengthUnknown = false`;
    * every object's index is `noData` or `full ty n total` (`stdIdx`; no `matchesPrev`, no DAQmx);
    * `wellFormed [s] = true` (distinct paths, fixed-width or string types, every chunk shaped by
      `wfStdChunk`, every chunk non-empty in bytes, version 4712/4713, `chunks ≠ [] → rawFlag`).
  `newList`, `big`, `rawFlag`, `daqmxFlag`, `version`, `padding`, the number of objects, their properties and
  the number of chunks are arbitrary.
  Size side conditions (`SegFits s`, defined in `C01ComposeMeta.lean`): fewer than 2^32 objects, `objFits`
  for every object (the predicate of the layer lemmas), string data of one chunk below 2^32 bytes (its
  offsets are 4-byte fields); and the file is shorter than 2^63 bytes.
-/
import TdmsProofs.Lemmas.C01ComposeMain

namespace Tdms.Proofs.C01Compose

open Tdms Tdms.Generated Tdms.Model Tdms.Proofs.Bytes

/-- the bytes of a one-segment file of the class -/
theorem encodeFile_single_bytes (s : SegEnc) (h : SingleStd s) :
    encodeFile [s] = .ok (encodeSeg s (s.objs.map actOf)) ∧
    activeLists none [] [s] = .ok [s.objs.map actOf] :=
  ⟨encodeFile_single s h.wfSingle, h.wfSingle.acts⟩

/-! ## 1. metadata -/

-- `objMetaOf k o` (defined in `C01ComposeMain.lean`) is the `object_metadata` entry the reader ends with:
--   { path := o.path, props := (o.props.foldl setProp []).map canonProp, dataType := tyOf o,
--     scalerTypes := none, numValues := nvals o * k }
-- i.e. the data type of the index, `n · k` values, and the properties with last-write-wins per name (the
-- spec's `setProp` fold) in the reader's canonical form.

/-- **metadata of a one-segment file**: one segment at position 0 whose raw data start after the lead-in,
    the metadata and the padding and run to the end of the file, `k` chunks, no truncation; one
    `SegObj` per object (`segObjOf` of `ObjectLemmas.lean`), one `ObjMeta` per object in order; and the
    second iteration of the loop meets the end of the file. -/
theorem read_metadata_single (s : SegEnc) (h : SingleStd s) (fit : SegFits s) (bytes : Bytes)
    (hb : encodeFile [s] = .ok bytes) (hlen : bytes.length < 2 ^ 63) :
    ∃ st seg, readMetadata bytes = .ok st ∧ st.segments = [seg] ∧
      seg.position = 0 ∧ seg.toc = tocMask s ∧
      seg.dataPosition = 28 + (encMeta s.endian s.objs).length + s.padding ∧
      seg.nextSegmentPos = bytes.length ∧ seg.numChunks = s.chunks.length ∧ seg.override = none ∧
      seg.incomplete = false ∧ seg.objects = s.objs.map segObjOf ∧
      st.objects = s.objs.map (objMetaOf s.chunks.length) ∧
      st.version = some (s.version : Int) ∧
      readLeadIn (bytes.drop seg.nextSegmentPos) seg.nextSegmentPos false (some bytes.length) = .ok none := by
  have w := h.wfSingle
  rw [encodeFile_single s w] at hb
  injection hb with hb
  subst hb
  obtain ⟨prev, hmeta⟩ := readMetadata_single s h.hasMeta h.contiguous h.lengthKnown h.stdObjs w fit hlen
  refine ⟨_, _, hmeta, rfl, rfl, rfl, ?_, rfl, rfl, rfl, rfl, rfl, ?_, rfl, ?_⟩
  · show 28 + (segMeta s).length = _
    simp [segMeta, h.hasMeta]; omega
  · show s.objs.map (metaOf s.chunks.length) = _
    exact List.map_congr_left fun o _ => metaOf_eq_objMetaOf _ o
  · show readLeadIn (List.drop (encodeSeg s (s.objs.map actOf)).length _) _ false _ = _
    rw [List.drop_length]
    rfl

/-! ## 2. raw data -/

/-- chunk `ch` as the reader yields it: the data objects' paths, in order, each with its values -/
def chunkOf (s : SegEnc) (ch : List (List Bytes)) : RawChunk :=
  (((dataOs s.objs).map (·.path)).zip ch).map fun pv => (pv.1, { data := some pv.2 })

/-- **raw data of a one-segment file**: started from any file state, the reader yields the `k` chunks in
    order (preceded by the empty chunk npTDMS emits for a segment without the raw-data flag) -/
theorem read_data_single (s : SegEnc) (h : SingleStd s) (fit : SegFits s) (bytes : Bytes)
    (hb : encodeFile [s] = .ok bytes) (hlen : bytes.length < 2 ^ 63) (fs : FState) :
    ∃ st fs', readMetadata bytes = .ok st ∧
      (readRawDataAll bytes st.segments).run fs =
        .ok ((if !s.rawFlag then [[]] else []) ++ s.chunks.map (chunkOf s), fs') := by
  have w := h.wfSingle
  rw [encodeFile_single s w] at hb
  injection hb with hb
  subst hb
  obtain ⟨prev, hmeta⟩ := readMetadata_single s h.hasMeta h.contiguous h.lengthKnown h.stdObjs w fit hlen
  obtain ⟨fs', hdata⟩ := readRawDataAll_single s h.contiguous h.stdObjs w fit fs
  refine ⟨_, fs', hmeta, ?_⟩
  rw [rawChunksOf_eq s w] at hdata
  exact hdata

/-! ## 3. the composed theorem -/

/-- **reading returns exactly the content the file encodes** (one-segment files): `readFile` succeeds on
    the encoding, `denote` is defined, and both list the same objects in the same order with the same data
    types, the same properties (name, type, canonical value; last write wins) and the same values. -/
theorem read_encode_single (s : SegEnc) (h : SingleStd s) (fit : SegFits s) (hch : onlyChannelsHaveData s)
    (bytes : Bytes) (hb : encodeFile [s] = .ok bytes) (hlen : bytes.length < 2 ^ 63) :
    ∃ r c, readFile bytes = .ok r ∧ denote [s] = .ok c ∧ content r = contentOfDenote c := by
  have w := h.wfSingle
  rw [encodeFile_single s w] at hb
  injection hb with hb
  subst hb
  obtain ⟨prev, hread⟩ := readFile_single s h fit hch hlen
  exact ⟨_, _, hread, denote_single s h.hasMeta w, content_eq s hch _ prev⟩

/-- what `denote` says about values, in closed form: the `i`-th data object holds the concatenation, over
    the chunks in file order, of the `i`-th value list of each chunk; objects without data hold nothing -/
theorem denote_single_values (s : SegEnc) (h : SingleStd s) :
    ∃ c, denote [s] = .ok c ∧ c.map (·.path) = s.objs.map (·.path) ∧
      (∀ (i : Nat) (hi : i < (dataOs s.objs).length),
        ((c.find? (·.path = (dataOs s.objs)[i].path)).map (·.values)) =
          some (s.chunks.flatMap (·.getD i []))) ∧
      (∀ o ∈ s.objs, isFull o = false → ((c.find? (·.path = o.path)).map (·.values)) = some []) := by
  have w := h.wfSingle
  have hnd := dataOs_nodup s.objs w.nodup
  have hok : ∀ ch ∈ s.chunks, lensOK (dataOs s.objs) ch :=
    fun ch hc => lensOK_of_wfStdChunk _ ch (w.chunks ch hc)
  refine ⟨_, denote_single s h.hasMeta w, ?_, ?_, ?_⟩
  · rw [withVals_paths]; simp [List.map_map, Function.comp_def, base]
  · intro i hi
    rw [find_withVals _ _ _ (List.mem_map.mpr ⟨_, (dataOs_sub (List.getElem_mem hi)).1, rfl⟩),
      valsAfter_at _ hnd i hi _ _ hok]
    simp
  · intro o ho hf
    rw [find_withVals _ _ _ (List.mem_map.mpr ⟨o, ho, rfl⟩), valsAfter_not_mem]
    intro hmem
    obtain ⟨d, hd, hde⟩ := List.mem_map.mp hmem
    obtain ⟨hdm, hfull⟩ := dataOs_sub hd
    -- distinct paths: `d = o`
    have : d = o := eq_of_nodup_map_path s.objs w.nodup hdm ho hde
    subst this
    rw [hf] at hfull; cases hfull

/-! ## 5. non-vacuity: a concrete file -/

section Example

/-- `/` with a string property; group `/'g'` with a Boolean property written twice (non-canonical byte 7,
    then 0) and an Int32 property; Int32 channel `/'g'/'a'` (2 values per chunk) with a property; string
    channel `/'g'/'s'` (2 strings per chunk); channel `/'g'/'n'` without data; 3 bytes of padding;
    2 chunks. -/
def exSeg : SegEnc :=
  { hasMeta := true, newList := true, interleaved := false, big := false, rawFlag := true, daqmxFlag := false,
    version := 4713,
    objs := [
      ⟨[47], .noData, [⟨[110], 0x20, [102, 105]⟩]⟩,
      ⟨[47, 39, 103, 39], .noData, [⟨[102], 0x21, [7]⟩, ⟨[120], 3, [1, 0, 0, 0]⟩, ⟨[102], 0x21, [0]⟩]⟩,
      ⟨[47, 39, 103, 39, 47, 39, 97, 39], .full 3 2 0, [⟨[117], 0x20, [86]⟩]⟩,
      ⟨[47, 39, 103, 39, 47, 39, 115, 39], .full 0x20 2 11, []⟩,
      ⟨[47, 39, 103, 39, 47, 39, 110, 39], .noData, []⟩ ],
    padding := 3,
    chunks := [ [[[1, 0, 0, 0], [2, 0, 0, 0]], [[97, 98], [99]]],
                [[[3, 0, 0, 0], [4, 0, 0, 0]], [[], [120, 121, 122]]] ],
    lengthUnknown := false }

/-- the content both sides must produce -/
def exContent : List ObjView :=
  [ ⟨[47], none, [⟨[110], 0x20, [102, 105]⟩], []⟩,
    ⟨[47, 39, 103, 39], none, [⟨[102], 0x21, [0]⟩, ⟨[120], 3, [1, 0, 0, 0]⟩], []⟩,
    ⟨[47, 39, 103, 39, 47, 39, 97, 39], some 3, [⟨[117], 0x20, [86]⟩],
      [[1, 0, 0, 0], [2, 0, 0, 0], [3, 0, 0, 0], [4, 0, 0, 0]]⟩,
    ⟨[47, 39, 103, 39, 47, 39, 115, 39], some 0x20, [], [[97, 98], [99], [], [120, 121, 122]]⟩,
    ⟨[47, 39, 103, 39, 47, 39, 110, 39], none, [], []⟩ ]

/-- both sides evaluate to the same content (kernel evaluation of the model and of the spec) -/
theorem exSeg_read : ((encodeFile [exSeg]).toOption.bind fun b => (readFile b).toOption.map content) =
    some exContent := by decide +kernel

theorem exSeg_denote : (denote [exSeg]).toOption.map contentOfDenote = some exContent := by decide +kernel

theorem exSeg_length : (encodeFile [exSeg]).toOption.map (·.length) = some 264 := by decide +kernel

/-- the hypotheses of the theorems hold for the example -/
theorem exSeg_std : SingleStd exSeg where
  hasMeta := rfl
  contiguous := rfl
  lengthKnown := rfl
  stdObjs := by
    intro o ho
    simp only [exSeg, List.mem_cons, List.not_mem_nil, or_false] at ho
    rcases ho with rfl | rfl | rfl | rfl | rfl
    · exact .inl rfl
    · exact .inl rfl
    · exact .inr ⟨_, _, _, rfl⟩
    · exact .inr ⟨_, _, _, rfl⟩
    · exact .inl rfl
  wf := by decide +kernel

theorem exSeg_fits : SegFits exSeg where
  nObjs := by decide
  objs := by
    intro o ho
    simp only [exSeg, List.mem_cons, List.not_mem_nil, or_false] at ho
    rcases ho with rfl | rfl | rfl | rfl | rfl <;>
      simp [objFits, idxFits, propFits, tyString]
  strData := by
    intro o ho n total hidx
    simp only [exSeg, List.mem_cons, List.not_mem_nil, or_false] at ho
    rcases ho with rfl | rfl | rfl | rfl | rfl <;> simp [tyString] at hidx
    omega

theorem exSeg_channels : onlyChannelsHaveData exSeg := by
  intro o ho hf
  simp only [exSeg, List.mem_cons, List.not_mem_nil, or_false] at ho
  rcases ho with rfl | rfl | rfl | rfl | rfl <;> first | (cases hf; done) | decide

/-- the composed theorem applied to the example: its hypotheses are satisfiable -/
example : ∃ r c, readFile (encodeSeg exSeg (exSeg.objs.map actOf)) = .ok r ∧ denote [exSeg] = .ok c ∧
    content r = contentOfDenote c :=
  read_encode_single exSeg exSeg_std exSeg_fits exSeg_channels _ (encodeFile_single_bytes exSeg exSeg_std).1
    (by
      have h := exSeg_length
      rw [(encodeFile_single_bytes exSeg exSeg_std).1] at h
      simp only [Except.toOption, Option.map_some, Option.some.injEq] at h
      rw [h]; decide)

/-- ... and the content it speaks about is the expected one -/
example : ∀ r c, readFile (encodeSeg exSeg (exSeg.objs.map actOf)) = .ok r → denote [exSeg] = .ok c →
    content r = exContent ∧ contentOfDenote c = exContent := by
  intro r c hr hc
  have h1 := exSeg_read
  have h2 := exSeg_denote
  rw [(encodeFile_single_bytes exSeg exSeg_std).1] at h1
  simp only [Except.toOption, Option.bind_some, hr, Option.map_some, Option.some.injEq] at h1
  simp only [hc, Except.toOption, Option.map_some, Option.some.injEq] at h2
  exact ⟨h1, h2⟩

/-- **`onlyChannelsHaveData` cannot be dropped**: a group object carrying data is well-formed for the spec
    and has a meaning, but the reader raises (`_read_data` has no receiver for a non-channel path) -/
def exGroupData : SegEnc :=
  { exSeg with objs := [⟨[47, 39, 103, 39], .full 3 1 0, []⟩], chunks := [[[[1, 0, 0, 0]]]] }

example : wellFormed [exGroupData] = true ∧
    (denote [exGroupData]).toOption.map contentOfDenote = some [⟨[47, 39, 103, 39], some 3, [], [[1, 0, 0, 0]]⟩] ∧
    ((encodeFile [exGroupData]).toOption.map fun b => (readFile b).toOption.isNone) = some true := by
  decide +kernel

end Example

/-! ## axioms -/


end Tdms.Proofs.C01Compose
