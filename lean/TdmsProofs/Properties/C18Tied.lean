import Tdms.Model.Thermocouple
import Tdms.Generated.Code2

/-!
# C18 (tied): which piece of a thermocouple polynomial applies — `Range`, `Polynomial.within_range`,
`_verify_contiguous` of `nptdms/thermocouples.py`

Generated definitions (`Tdms.Generated.Code2`) against `Tdms/Model/Thermocouple.lean` (`acceptPiece`), over `Rat`.
A piece `p : TcPiece` of the generated tables stands for the Python object
`Polynomial(Range(p.lo, p.hi), p.coeffs)` (`pyPoly p`).  Not translated: `np.piecewise` (which of several accepting
pieces wins: numpy semantics, modelled by `selectPiece`), `poly.polyval`, the exponential term.  Core Lean only.
-/

namespace Tdms.Proofs.C18Tied

open Tdms.Generated Tdms.Generated.Code2 Tdms.Model.Thermocouple

def pyRange (p : TcPiece) : Range Rat := ⟨p.lo, p.hi⟩
def pyPoly (p : TcPiece) : Polynomial Rat := ⟨pyRange p, p.coeffs⟩

/-- **`Range.within_range`** = `acceptPiece`: inclusive start, exclusive end, `None` = unbounded.  `h`: not both
    bounds are `None` (`Range.__init__` rejects that; the model says "accept", Python would raise TypeError) -/
theorem Range.within_range_tied (p : TcPiece) (x : Rat) (h : p.lo.isSome = true ∨ p.hi.isSome = true) :
    Code2.Range.within_range (pyRange p) x = .ok (acceptPiece p x) := by
  unfold Code2.Range.within_range acceptPiece pyRange
  cases hlo : p.lo with
  | none =>
    cases hhi : p.hi with
    | none => simp [hlo, hhi] at h
    | some e => rfl
  | some s =>
    cases hhi : p.hi with
    | none => rfl
    | some e => rfl

/-- the excluded case: a range without bounds cannot be tested -/
theorem Range.within_range_unbounded (x : Rat) :
    Code2.Range.within_range (⟨none, none⟩ : Range Rat) x = .error "TypeError" := rfl

/-- boundaries: the start belongs to the range, the end does not -/
theorem Range.within_range_boundaries (s e : Rat) (h : s < e) :
    Code2.Range.within_range (⟨some s, some e⟩ : Range Rat) s = .ok true ∧
    Code2.Range.within_range (⟨some s, some e⟩ : Range Rat) e = .ok false ∧
    Code2.Range.within_range (⟨none, some e⟩ : Range Rat) e = .ok false ∧
    Code2.Range.within_range (⟨some s, none⟩ : Range Rat) s = .ok true := by
  have h1 : ¬ e < e := Rat.lt_irrefl
  have h2 : s ≤ s := Rat.le_refl
  refine ⟨?_, ?_, ?_, ?_⟩
  · show Except.ok (decide (s ≤ s) && decide (s < e)) = Except.ok true
    simp [h, h2]
  · show Except.ok (decide (s ≤ e) && decide (e < e)) = Except.ok false
    simp [h1]
  · show Except.ok (decide (e < e)) = Except.ok false
    simp [h1]
  · show Except.ok (decide (s ≤ s)) = Except.ok true
    simp [h2]

/-- **`Range.__init__`**: at least one bound, and `start < end` when both are given (ValueError otherwise) -/
theorem Range.__init___tied (lo hi : Option Rat) :
    Code2.Range.__init__ lo hi =
      match lo, hi with
      | none, none => .error "ValueError"
      | some s, some e => if s ≥ e then .error "ValueError" else .ok ⟨some s, some e⟩
      | lo, hi => .ok ⟨lo, hi⟩ := by
  unfold Code2.Range.__init__
  cases lo with
  | none => cases hi <;> rfl
  | some s =>
    cases hi with
    | none => rfl
    | some e =>
      show (if s ≥ e then _ else _) = (if s ≥ e then _ else _)
      split <;> rfl

/-- **`Polynomial.within_range`** delegates to its range -/
theorem Polynomial.within_range_tied (p : TcPiece) (x : Rat) (h : p.lo.isSome = true ∨ p.hi.isSome = true) :
    Code2.Polynomial.within_range (pyPoly p) x = .ok (acceptPiece p x) := by
  unfold Code2.Polynomial.within_range pyPoly
  exact Range.within_range_tied p x h

/-- consecutive pieces share their boundary: the end of a piece (when it has one) is the start of the next -/
def contiguousFrom (prev : Option Rat) : List TcPiece → Bool
  | [] => true
  | p :: rest =>
    (match prev with
      | none => true
      | some e => decide (p.lo = some e)) && contiguousFrom p.hi rest

theorem forE_contiguous (f : Polynomial Rat → Option Rat → Except Py.Exc (Py.Step (Option Rat)))
    (hf : ∀ (q : Polynomial Rat) (prev : Option Rat), f q prev =
      match prev with
      | none => .ok (.next q.applicable_range.«end»)
      | some e => if q.applicable_range.start ≠ some e then .error "ValueError" else .ok (.next q.applicable_range.«end»)) :
    ∀ (ps : List TcPiece) (prev : Option Rat),
      (∃ last, Py.forE (ps.map pyPoly) prev f = .ok last ∧ contiguousFrom prev ps = true) ∨
      (Py.forE (ps.map pyPoly) prev f = .error "ValueError" ∧ contiguousFrom prev ps = false) := by
  intro ps
  induction ps with
  | nil => intro prev; exact Or.inl ⟨prev, rfl, rfl⟩
  | cons p rest ih =>
    intro prev
    simp only [List.map_cons, Py.forE, contiguousFrom, hf]
    cases prev with
    | none =>
      simp only [Bool.true_and]
      exact ih p.hi
    | some e =>
      by_cases hp : p.lo = some e
      · have : (pyPoly p).applicable_range.start = some e := hp
        simp only [this, ne_eq, not_true_eq_false, if_false, hp, decide_true, Bool.true_and]
        exact ih p.hi
      · have : ¬ (pyPoly p).applicable_range.start = some e := hp
        simp only [ne_eq, this, not_false_eq_true, if_true, hp, decide_false, Bool.false_and]
        simp

theorem verify_of_body (f : Polynomial Rat → Option Rat → Except Py.Exc (Py.Step (Option Rat)))
    (hf : ∀ (q : Polynomial Rat) (prev : Option Rat), f q prev =
      match prev with
      | none => .ok (.next q.applicable_range.«end»)
      | some e => if q.applicable_range.start ≠ some e then .error "ValueError" else .ok (.next q.applicable_range.«end»))
    (ps : List TcPiece) :
    (Py.forE (ps.map pyPoly) none f >>= fun _ => (pure () : Except Py.Exc Unit)) =
      if contiguousFrom none ps then .ok () else .error "ValueError" := by
  rcases forE_contiguous f hf ps none with ⟨last, h1, h2⟩ | ⟨h1, h2⟩
  · simp only [h2, if_true]; rw [h1]; rfl
  · simp only [h2, Bool.false_eq_true, if_false]; rw [h1]; rfl

/-- **`_verify_contiguous`**: ValueError exactly when two consecutive pieces do not share their boundary -/
theorem _verify_contiguous_tied (ps : List TcPiece) :
    _verify_contiguous (ps.map pyPoly) = if contiguousFrom none ps then .ok () else .error "ValueError" := by
  unfold _verify_contiguous
  exact verify_of_body _ (fun q prev => by cases prev <;> rfl) ps

/-- the tables of all eight thermocouple types pass the check of `Thermocouple.__init__` -/
theorem tables_contiguous :
    ∀ t ∈ tcTables, _verify_contiguous (t.forward.map pyPoly) = .ok () ∧ _verify_contiguous (t.inverse.map pyPoly) = .ok () := by
  have key : ∀ b : Bool, ((if b = true then Except.ok () else Except.error "ValueError" : Except Py.Exc Unit) = .ok ()) ↔
      b = true := by
    intro b; cases b <;> simp
  have hall : ∀ t ∈ tcTables, contiguousFrom none t.forward = true ∧ contiguousFrom none t.inverse = true := by decide +kernel
  intro t ht
  simp only [_verify_contiguous_tied, key]
  exact hall t ht

end Tdms.Proofs.C18Tied
