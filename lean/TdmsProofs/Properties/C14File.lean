/-
  C14 at FILE level — "every successful read returns an array whose dtype equals `channel.dtype`, and a full read
  has exactly `len(channel)` elements".

  `declaredKindIn D (content r) p` is `channel.dtype` of channel `p` of the read file (the raw dtype without
  scaling, else `MultiScaling.get_dtype`), `actualKindIn` the dtype of the array `_scale_data` really builds, both
  computed from the scaling the FILE's properties define (channel, else group, else root) and the channel's data
  type; `numValuesOf r p` is `len(channel)` = `object_metadata[p].num_values` as the reader recorded it.

  Composition of C13File's `fileFacts` / `scaledChannel_of_facts` (C01Multi + C04Whole) with C14
  (`declared_eq_actual`, `declared_of_actual`) and the new link between values and dtypes `actual_of_computed`
  (an element that evaluates has a dtype).  Same class of files and same parameters as `C13File.lean`.
-/
import TdmsProofs.Properties.C13File

namespace Tdms.Proofs.C14File

open Tdms Tdms.Generated Tdms.Model Tdms.Model.Scaling Tdms.Proofs.C13 Tdms.Proofs.C14 Tdms.Proofs.C01Multi
open Tdms.Proofs.C13File
open Tdms.Proofs.C01Compose (content contentOfDenote ObjView)

/-! ## 1. `channel.dtype` = dtype of the scaled data, from the file's properties -/

section
variable {R : Type} (D : Dec R) [NatCast R] [LT R] [DecidableRel (α := R) (· < ·)]

/-- **C14 (dtype) on whole files.**  For every numeric channel `oc` of `denote e` (raw kind `rk`), with
    `specScaling D c oc.path g` the scaling the file's properties define (channel, else group, else root):
    * error ⇒ neither dtype exists (`get_scaling` raises);
    * none ⇒ both are the raw dtype;
    * a graph ⇒ `channel.dtype` and the actual dtype are `declaredKind` / `actualKind` of that graph on `rk` without
      scaler types; on a well-formed graph they are equal when the graph uses no DAQmx scaler
      (`scalersResolved graph []`), and in any case the actual dtype, when there is one, is the declared one. -/
theorem file_dtype_declared_eq_actual (e : FileEnc) (h : MultiStd e) (fit : FileFits e)
    (hch : onlyChannelsHaveDataM e) (bytes : Bytes) (hb : encodeFile e = .ok bytes) (hlen : bytes.length < 2 ^ 63) :
    ∃ r c, readFile bytes = .ok r ∧ denote e = .ok c ∧
      ∀ oc ∈ c, ∀ ty g ch, oc.ty = some ty → numericTy ty = true → channelParts oc.path = some (g, ch) →
        ∃ rk, kindOf ty = some rk ∧ rk ∈ numericKinds ∧
          match specScaling D c oc.path g with
          | .error _ => declaredKindIn D (content r) oc.path = none ∧ actualKindIn D (content r) oc.path = none
          | .ok none => declaredKindIn D (content r) oc.path = some rk ∧ actualKindIn D (content r) oc.path = some rk
          | .ok (some graph) =>
            declaredKindIn D (content r) oc.path = declaredKind graph rk [] (graph.length + 1) (graph.length - 1) ∧
            actualKindIn D (content r) oc.path = actualKind graph rk [] (graph.length + 1) (graph.length - 1) ∧
            (wf graph → scalersResolved graph [] →
              declaredKindIn D (content r) oc.path = actualKindIn D (content r) oc.path) ∧
            (wf graph → ∀ k, actualKindIn D (content r) oc.path = some k →
              declaredKindIn D (content r) oc.path = some k ∧ k ∈ numericKinds) := by
  obtain ⟨f, r, c, hf⟩ := fileFacts e h fit hch bytes hb hlen
  refine ⟨r, c, hf.read, hf.meaning, ?_⟩
  intro oc hoc ty g ch hty hnum hp
  obtain ⟨rk, hrk, hmem⟩ := numericTy_kind hnum
  refine ⟨rk, hrk, hmem, ?_⟩
  have hd := kindIn_denote D declaredKind c hf.nodup oc hoc ty hty hnum g ch hp
  have ha := kindIn_denote D actualKind c hf.nodup oc hoc ty hty hnum g ch hp
  unfold declaredKindIn actualKindIn
  rw [hf.same, hd, ha, hrk]
  cases specScaling D c oc.path g with
  | error e => exact ⟨rfl, rfl⟩
  | ok sc =>
    cases sc with
    | none => exact ⟨rfl, rfl⟩
    | some graph =>
      refine ⟨rfl, rfl, ?_, ?_⟩
      · intro hwf hres
        exact declared_eq_actual hwf hmem (by intro id k hk; cases hk) hres
      · intro hwf k hk
        exact declared_of_actual hwf hmem (by intro id k hk; cases hk) k hk

end

section
variable {R : Type} [Add R] [Sub R] [Mul R] [OfNat R 0] (D : Dec R)
variable (interp : List R → List R → R → R) (env : Nat → R → R)
variable [NatCast R] [LT R] [DecidableRel (α := R) (· < ·)]

/-- **every successful read returns an array whose dtype equals `channel.dtype`** (files of the class; the graph the
    file's properties define is assumed well-formed): whenever the scaled data of a numeric channel contain an
    element that evaluates (`.ok v`), the array has a dtype, it is a numeric one, and `channel.dtype` is that dtype.
    (No hypothesis on DAQmx scalers: an element of a non-DAQmx channel whose graph uses a DAQmx scaler does not
    evaluate.) -/
theorem file_dtype_of_returned_data (e : FileEnc) (h : MultiStd e) (fit : FileFits e)
    (hch : onlyChannelsHaveDataM e) (bytes : Bytes) (hb : encodeFile e = .ok bytes) (hlen : bytes.length < 2 ^ 63) :
    ∃ r c, readFile bytes = .ok r ∧ denote e = .ok c ∧
      ∀ oc ∈ c, ∀ ty g ch, oc.ty = some ty → numericTy ty = true → channelParts oc.path = some (g, ch) →
        (∀ graph, specScaling D c oc.path g = .ok (some graph) → wf graph) →
        ∀ xs, scaledChannel D interp env r oc.path = some xs → ∀ v, .ok v ∈ xs →
          ∃ k, k ∈ numericKinds ∧ declaredKindIn D (content r) oc.path = some k ∧
            actualKindIn D (content r) oc.path = some k := by
  obtain ⟨f, r, c, hf⟩ := fileFacts e h fit hch bytes hb hlen
  refine ⟨r, c, hf.read, hf.meaning, ?_⟩
  intro oc hoc ty g ch hty hnum hp hwf xs hxs v hv
  obtain ⟨rk, hrk, hmem⟩ := numericTy_kind hnum
  have hd := kindIn_denote D declaredKind c hf.nodup oc hoc ty hty hnum g ch hp
  have ha := kindIn_denote D actualKind c hf.nodup oc hoc ty hty hnum g ch hp
  rw [scaledChannel_of_facts D interp env hf oc hoc ty hty hnum g ch hp] at hxs
  unfold declaredKindIn actualKindIn
  rw [hf.same, hd, ha, hrk]
  cases hs : specScaling D c oc.path g with
  | error e => rw [hs] at hxs; cases hxs
  | ok sc =>
    rw [hs] at hxs
    cases sc with
    | none => exact ⟨rk, hmem, rfl, rfl⟩
    | some graph =>
      have hwfg := hwf graph hs
      simp only [Option.some.injEq] at hxs
      subst hxs
      simp only [scaleValues, scaleArray, List.mem_map] at hv
      obtain ⟨raw, ⟨b, _, rfl⟩, hraw⟩ := hv
      have hsome := actual_of_computed interp env graph (rawOf D ty b) rk []
        (by intro id hid; simp [rawOf] at hid) _ _ v hraw
      obtain ⟨k, hk⟩ := Option.isSome_iff_exists.1 hsome
      obtain ⟨hdk, hkn⟩ := declared_of_actual hwfg hmem (by intro id k hk; cases hk) k hk
      exact ⟨k, hkn, hdk, hk⟩

/-! ## 2. a full read has exactly `len(channel)` elements -/

/-- **the scaled data of a channel have `len(channel)` elements**: the number of values the reader recorded in
    `object_metadata` (`numValuesOf`), which is the number of values `denote` assigns to the channel -/
theorem file_scaled_length (e : FileEnc) (h : MultiStd e) (fit : FileFits e)
    (hch : onlyChannelsHaveDataM e) (bytes : Bytes) (hb : encodeFile e = .ok bytes) (hlen : bytes.length < 2 ^ 63) :
    ∃ r c, readFile bytes = .ok r ∧ denote e = .ok c ∧
      ∀ oc ∈ c, numValuesOf r oc.path = oc.values.length ∧
        ∀ xs, scaledChannel D interp env r oc.path = some xs → xs.length = numValuesOf r oc.path := by
  obtain ⟨f, r, c, hf⟩ := fileFacts e h fit hch bytes hb hlen
  refine ⟨r, c, hf.read, hf.meaning, ?_⟩
  intro oc hoc
  have hn := numValuesOf_facts hf oc hoc
  refine ⟨hn, ?_⟩
  intro xs hxs
  rw [raw_unchanged, rawValues_denote hf.same hf.nodup hoc] at hxs
  rw [hn]
  exact scaledPure_length D interp env _ _ _ _ _ _ _ hxs

/-- … and so has the full scaled read on the lazily opened file, from any file state -/
theorem file_scaled_lazy_length (e : FileEnc) (h : MultiStd e) (fit : FileFits e)
    (hch : onlyChannelsHaveDataM e) (bytes : Bytes) (hb : encodeFile e = .ok bytes) (hlen : bytes.length < 2 ^ 63) :
    ∃ f r c, openFile bytes = .ok f ∧ readFile bytes = .ok r ∧ denote e = .ok c ∧
      ∀ oc ∈ c, oc.ty.isSome = true → ∀ st : FState, ∃ st' res,
        (scaledReadData D interp env f oc.path 0 none).run st = .ok (res, st') ∧
          ∀ xs, res = some xs → xs.length = numValuesOf r oc.path := by
  obtain ⟨f, r, c, hf⟩ := fileFacts e h fit hch bytes hb hlen
  refine ⟨f, r, c, hf.opened, hf.read, hf.meaning, ?_⟩
  intro oc hoc hty st
  obtain ⟨st', hrun⟩ := scaled_window_of_facts D interp env hf oc hoc hty 0 none (by decide)
    (by intro l hl; cases hl) st
  refine ⟨st', _, hrun, ?_⟩
  intro xs hxs
  cases hsc : scaledChannel D interp env r oc.path with
  | none => rw [hsc] at hxs; cases hxs
  | some ys =>
    rw [hsc] at hxs
    simp only [Option.map_some, takeOptG, Int.toNat_zero, List.drop_zero, Option.some.injEq] at hxs
    subst hxs
    rw [raw_unchanged, rawValues_denote hf.same hf.nodup hoc] at hsc
    rw [numValuesOf_facts hf oc hoc]
    exact scaledPure_length D interp env _ _ _ _ _ _ _ hsc

end

/-! ## 3. non-vacuity: `scFile` of `C13File.lean`, and a file with an unscaled and a pass-through channel -/

section Example

/-- dtypes of the three channels of `scFile` (Int32 with Linear → Polynomial, Int16 with the group's Linear, DoubleFloat
    with the root's Linear): declared = actual = `f8`; lengths recorded by the reader: 4 each -/
theorem scFile_kinds : ((encodeFile scFile).toOption.bind fun b => (readFile b).toOption.map fun r =>
      [sA, sB, sC].map fun p => (declaredKindIn decQ (content r) p, actualKindIn decQ (content r) p, numValuesOf r p,
        (scaledChannel decQ interpRat envId r p).map (·.length))) =
    some [(some "f8", some "f8", 4, some 4), (some "f8", some "f8", 4, some 4), (some "f8", some "f8", 4, some 4)] := by
  decide +kernel

def sP : Bytes := utf8 "/'g'/'p'"
def sQ : Bytes := utf8 "/'g'/'q'"
def sR : Bytes := utf8 "/'g'/'r'"

/-- one segment, no scaling on root or group: `p` (Int16) has no scaling at all; `q` (Uint8) has one AdvancedAPI
    (pass-through) scale; `r` (Int16) has a Linear scale fed by scale 0, which is a DAQmx scaler (no
    `NI_Scale[0]_Scale_Type`) — on a non-DAQmx channel that scaler does not exist -/
def plainFile : FileEnc := [
  { scSeg0 with
      objs := [⟨sRoot, .noData, []⟩, ⟨sG, .noData, [pStr "description" "no scaling here"]⟩,
               ⟨sP, .full 2 3 6, []⟩,
               ⟨sQ, .full 5 3 3, [pU32 "NI_Number_Of_Scales" 1, pStr "NI_Scale[0]_Scale_Type" "AdvancedAPI"]⟩,
               ⟨sR, .full 2 3 6, [pU32 "NI_Number_Of_Scales" 2, pStr "NI_Scale[1]_Scale_Type" "Linear",
                 pF64 "NI_Scale[1]_Linear_Slope" d2, pF64 "NI_Scale[1]_Linear_Y_Intercept" d0,
                 pU32 "NI_Scale[1]_Linear_Input_Source" 0]⟩],
      chunks := [[[[1, 0], [0xFF, 0xFF], [3, 0]], [[7], [8], [200]], [[1, 0], [2, 0], [3, 0]]]] } ]

theorem plainFile_std : MultiStd plainFile := multiStdB_sound (by decide +kernel)
theorem plainFile_fits : FileFits plainFile := fileFitsB_sound (by decide +kernel)
theorem plainFile_channels : onlyChannelsHaveDataM plainFile := onlyChannelsHaveDataB_sound (by decide +kernel)
theorem plainFile_length : (encodeFile plainFile).toOption.map (·.length) = some 498 := by decide +kernel

/-- `p`: unscaled, the raw values, dtype `i2`; `q`: passed through, dtype `u1`; `r`: `channel.dtype` says `f8` but
    every element raises `KeyError` (no scaler 0) and the data have no dtype — the case `scalersResolved` excludes
    in `file_dtype_declared_eq_actual` and in which `file_dtype_of_returned_data` says nothing (nothing is returned) -/
theorem plainFile_read : ((encodeFile plainFile).toOption.bind fun b => (readFile b).toOption.map fun r =>
      [sP, sQ, sR].map (scaledChannel decQ interpRat envId r)) =
    some [some [.ok 1, .ok (-1), .ok 3], some [.ok 7, .ok 8, .ok 200],
          some [.error .keyError, .error .keyError, .error .keyError]] := by decide +kernel

theorem plainFile_kinds : ((encodeFile plainFile).toOption.bind fun b => (readFile b).toOption.map fun r =>
      [sP, sQ, sR].map fun p => (declaredKindIn decQ (content r) p, actualKindIn decQ (content r) p, numValuesOf r p)) =
    some [(some "i2", some "i2", 3), (some "u1", some "u1", 3), (some "f8", none, 3)] := by decide +kernel

/-- the hypotheses of the headline theorems are satisfiable: `file_dtype_of_returned_data` applied to `plainFile`,
    for the channels whose graph is well-formed (checked by evaluation for all three) -/
example : ∃ bytes r c, encodeFile plainFile = .ok bytes ∧ readFile bytes = .ok r ∧ denote plainFile = .ok c ∧
    ∀ oc ∈ c, ∀ ty g ch, oc.ty = some ty → numericTy ty = true → channelParts oc.path = some (g, ch) →
      (∀ graph, specScaling decQ c oc.path g = .ok (some graph) → wf graph) →
      ∀ xs, scaledChannel decQ interpRat envId r oc.path = some xs → ∀ v, .ok v ∈ xs →
        ∃ k, k ∈ numericKinds ∧ declaredKindIn decQ (content r) oc.path = some k ∧
          actualKindIn decQ (content r) oc.path = some k := by
  obtain ⟨acts, _, hb⟩ := encodeFile_multi_bytes plainFile plainFile_std
  have hl := plainFile_length
  rw [hb] at hl
  simp only [Except.toOption, Option.map_some, Option.some.injEq] at hl
  obtain ⟨r, c, h1, h2, h3⟩ := file_dtype_of_returned_data decQ interpRat envId plainFile plainFile_std
    plainFile_fits plainFile_channels _ hb (by rw [hl]; decide)
  exact ⟨_, r, c, hb, h1, h2, h3⟩

/-- the graphs of `plainFile` and of `scFile` are well-formed, and only `r` uses a DAQmx scaler -/
theorem example_graphs_wf :
    ((denote plainFile).toOption.map fun c => [sP, sQ, sR].map fun p =>
      match specScaling decQ c p (utf8 "g") with
      | .ok (some graph) => some (decide (wf graph), graph.all fun s => match s with | .daqmx _ => false | _ => true)
      | _ => none) = some [none, some (true, true), some (true, false)] ∧
    ((denote scFile).toOption.map fun c => [(sA, "g"), (sB, "g"), (sC, "h")].map fun (p, g) =>
      match specScaling decQ c p (utf8 g) with
      | .ok (some graph) => some (decide (wf graph), graph.all fun s => match s with | .daqmx _ => false | _ => true)
      | _ => none) = some [some (true, true), some (true, true), some (true, true)] := by
  decide +kernel

end Example

end Tdms.Proofs.C14File
