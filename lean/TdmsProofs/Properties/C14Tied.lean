import TdmsProofs.Lemmas.TiedScalingEval

/-!
# C14 (tied): the declared dtype of scaled data — `MultiScaling._compute_scale_dtype`, `MultiScaling.get_dtype`

The generated definitions are parametrised by the numpy calls they make: `np.result_type` (here the model's
`resultType`, a table extracted from the installed NumPy) and `np.dtype(name)` (`pyDtypeOf`: `'float64'` is the model's
`"f8"`).  A `TdmsType` class is identified with its `.nptype`, a dtype with its kind string.  The result is compared
through `Except.toOption` (the model's `declaredKind` answers `none` where Python raises IndexError / KeyError /
RecursionError).
-/

namespace Tdms.Proofs.C14Tied

open Tdms.Model.Scaling Tdms.Generated Tdms.Generated.Code2 Tdms.Proofs.Tied2

variable {R : Type} [CommRing R] [DecidableEq R]

/-- **`MultiScaling._compute_scale_dtype`** = the model's `declaredKind`: raw type for the raw input, the scaler's
    type for a DAQmx scaler, `np.result_type` of both operands for Add / Subtract, the input's type for
    AdvancedAPI, `float64` for every other scaling -/
theorem _compute_scale_dtype_tied (ms : MultiScaling R) (g : List (Tdms.Model.Scaling.Scaling R))
    (habs : AbsList ms.scalings g) (rawKind : String) (sk : List (Nat × String)) (fuel idx : Nat) :
    (MultiScaling._compute_scale_dtype fuel resultType pyDtypeOf ms (.int (idx : Int)) ⟨rawKind⟩ (pyKinds sk)).toOption =
      declaredKind g rawKind sk fuel idx :=
  compute_scale_dtype_tied ms g habs rawKind sk fuel idx

/-- **`MultiScaling.get_dtype`**: the dtype of the last scale -/
theorem get_dtype_tied' (ms : MultiScaling R) (g : List (Tdms.Model.Scaling.Scaling R))
    (habs : AbsList ms.scalings g) (hg : g ≠ []) (rawKind : String) (sk : List (Nat × String)) :
    (MultiScaling.get_dtype (g.length + 1) resultType pyDtypeOf ms ⟨rawKind⟩ (pyKinds sk)).toOption =
      declaredKind g rawKind sk (g.length + 1) (g.length - 1) :=
  get_dtype_tied ms g habs hg rawKind sk

/-- the only dtype name the code asks numpy for is `float64` -/
theorem float64_is_f8 : pyDtypeOf "float64".toList = "f8" := by decide

end Tdms.Proofs.C14Tied
