import TdmsProofs.Lemmas.TiedC04Seg

/-!
# C04 / C19 (tied): `TdmsSegment.read_raw_data_for_channel` — seek position and stop chunk

The generated definition (the file object is its position, `_read_channel_data_chunks` and
`RawChannelDataChunk.empty()` are parameters) and the model's `segReadChannel` both factor through
`segSeekPos` (where the file is positioned: `data_position`, plus `chunk_size * chunk_offset` when
`chunk_offset > 0`), `segStop` (`num_chunks` of the segment, or `num_chunks + chunk_offset`) and the test of the
`kTocRawData` flag for the extra empty chunk.
-/

namespace Tdms.Proofs.C04SegTied

open Tdms Tdms.Model Tdms.Generated Tdms.Generated.Code Tdms.Proofs.Tied

/-- generated side, for an arbitrary chunk reader `rc`; `hcons` as in `C06Tied._get_chunk_size_all_tied` -/
theorem segment_read_raw_data_for_channel_tied {Chunk : Type} (empty : Chunk)
    (rc : Int → Py.Path → Int → Int → Int → List Chunk) (s : Segment) (f0 : Int) (p : Bytes) (co : Nat)
    (nc : Option Int) (hcons : DaqConsistent s.objects) :
    Agrees (fun (cs : Nat) =>
        ((if hasFlag s.toc kTocRawData then [] else [empty]) ++
            rc (segSeekPos s cs co : Nat) p (co : Int) (segStop s co nc) (cs : Int),
          pySegC s (some (cs : Int)) (haveDaqmxObjects s.objects).toOption))
      (chunkSize s.objects)
      (TdmsSegment.read_raw_data_for_channel empty rc (pySeg s) f0 p (co : Int) nc) :=
  seg_read_generated empty rc s f0 p co nc hcons

/-- model side: `segReadChannel` is the same plan followed by the chunk reader of the model -/
theorem segReadChannel_plan (file : Bytes) (s : Segment) (p : Bytes) (co : Nat) (nc : Option Int) (σ : FState) :
    (segReadChannel file s p co nc).run σ =
      match chunkSize s.objects with
      | .error e => .error e
      | .ok cs =>
        match (segReadTail file s p cs co (segStop s co nc)).run { σ with pos := segSeekPos s cs co } with
        | .ok (out, σ') => .ok ((if !hasFlag s.toc kTocRawData then [({} : ChanChunk)] else []) ++ out, σ')
        | .error e => .error e :=
  seg_read_model file s p co nc σ

end Tdms.Proofs.C04SegTied

