/-
  C01 / C11 / C15 / C08 — the constants of the format that spec and model take from the library (re-extracted on every run
  into `Tdms.Generated`) are the constants of the TDMS format description (`Tdms.FormatReference`, hand-written from NI's
  document). Without this theorem a changed constant in the library would change the spec's encoder and the reader's model
  together and every generated file would still agree.
-/
import Tdms.Generated.Types
import Tdms.FormatReference

namespace Tdms.Proofs.C01Reference

open Tdms.Generated

/-- type codes, names, value sizes and numpy kinds -/
theorem type_table_is_reference :
    typeTable.map (fun t => (t.code, t.name, t.size, t.npKind)) = Tdms.FormatReference.tdsTypes := by decide

/-- the struct formats used to decode property values -/
theorem struct_formats_are_reference :
    typeTable.filterMap (fun t => t.structFmt.map fun f => (t.code, f)) = Tdms.FormatReference.structFormats := by decide

/-- ToC masks, raw-data-index sentinels and DAQmx tags -/
theorem format_constants_are_reference :
    kTocMetaData = Tdms.FormatReference.kTocMetaData ∧ kTocNewObjList = Tdms.FormatReference.kTocNewObjList ∧
    kTocRawData = Tdms.FormatReference.kTocRawData ∧ kTocInterleavedData = Tdms.FormatReference.kTocInterleavedData ∧
    kTocBigEndian = Tdms.FormatReference.kTocBigEndian ∧ kTocDAQmxRawData = Tdms.FormatReference.kTocDAQmxRawData ∧
    rawDataIndexNoData = Tdms.FormatReference.rawDataIndexNoData ∧
    rawDataIndexMatchesPrevious = Tdms.FormatReference.rawDataIndexMatchesPrevious ∧
    formatChangingScaler = Tdms.FormatReference.formatChangingScaler ∧
    digitalLineScaler = Tdms.FormatReference.digitalLineScaler := by decide

/-- DAQmx scaler type codes and scaler record layouts -/
theorem daqmx_tables_are_reference :
    daqmxTypes = Tdms.FormatReference.daqmxTypes ∧
    (daqmxScalerRecordSize, daqmxScalerRecordFmt) = Tdms.FormatReference.daqmxScalerRecord ∧
    (digitalLineScalerRecordSize, digitalLineScalerRecordFmt) = Tdms.FormatReference.digitalLineScalerRecord := by decide

end Tdms.Proofs.C01Reference
