import TdmsProofs.Lemmas.TiedWriter

/-!
# C07 (tied): which TDMS type a Python value gets — `_to_tdms_value`, `to_int_property_value`, `_infer_dtype` of
`nptdms/writer.py`

Generated definitions (`Tdms.Generated.Code2`) against `Tdms/Model/Writer.lean`.  The constructors `Uint64(v)`,
`Int64(v)`, `Int32(v)` and `np.dtype(name)` are parameters of the generated definitions; they are instantiated by
"(type code, value)" and by the dtype name.  (The model's `intPropertyType` / `inferDtype` are themselves driven by
rule tables extracted from the source by another generator; these theorems tie the CODE, statement by statement.)
-/

namespace Tdms.Proofs.C07Tied

open Tdms Tdms.Generated Tdms.Generated.Code2 Tdms.Model.Writer Tdms.Proofs.Tied2W

/-- **`to_int_property_value`**: `Uint64` from `2^63`, `Int64` outside the 32-bit range, else `Int32` -/
theorem to_int_property_value_tied (v : Int) :
    to_int_property_value (fun x => (tyUint64, x)) (fun x => (tyInt64, x)) (fun x => (tyInt32, x)) v =
      (intPropertyType v, v) :=
  to_int_property_value_eq v

/-- the boundaries, through the generated code -/
theorem to_int_property_value_boundaries :
    to_int_property_value (fun _ => "Uint64") (fun _ => "Int64") (fun _ => "Int32") (2 ^ 63) = "Uint64" ∧
    to_int_property_value (fun _ => "Uint64") (fun _ => "Int64") (fun _ => "Int32") (2 ^ 63 - 1) = "Int64" ∧
    to_int_property_value (fun _ => "Uint64") (fun _ => "Int64") (fun _ => "Int32") (2 ^ 31) = "Int64" ∧
    to_int_property_value (fun _ => "Uint64") (fun _ => "Int64") (fun _ => "Int32") (2 ^ 31 - 1) = "Int32" ∧
    to_int_property_value (fun _ => "Uint64") (fun _ => "Int64") (fun _ => "Int32") (-2 ^ 31) = "Int32" ∧
    to_int_property_value (fun _ => "Uint64") (fun _ => "Int64") (fun _ => "Int32") (-2 ^ 31 - 1) = "Int64" := by
  decide

/-- **`_infer_dtype`** on a non-empty list of Python ints = the model's `inferDtype` (the eight-way chain on the
    maximum and the minimum).  The elements are ints by the signature table (`isinstance(data[0], int)` is true). -/
theorem _infer_dtype_tied (data : List Int) (h : data ≠ []) :
    _infer_dtype String.ofList data = .ok (some (inferDtype data)) :=
  infer_dtype_eq data h

/-- an empty list: no dtype is inferred (`np.array` decides) -/
theorem _infer_dtype_empty : _infer_dtype String.ofList [] = .ok none := infer_dtype_empty

/-! ## `_to_tdms_value`: dispatch on the runtime class of a property value

A value is of one of the runtime classes of the generated union `PyValue` (its content `payload` is opaque); which of
them are instances of the classes the code tests with `isinstance` is the TRUSTED table `ISINSTANCE2` of the
translator (`bool ⊂ int`, `np.float64 ⊂ float` and `⊂ np.number`).  The constructors are parameters. -/

section Dispatch
variable {P TV : Type} (np_typed as_tdms : PyValue P → TV) (as_int : PyValue P → Int)
  (mk_Boolean mk_DoubleFloat mk_TimeStamp mk_String : PyValue P → TV) (mk_Uint64 mk_Int64 mk_Int32 : Int → TV)

/-- **`_to_tdms_value`**: the first matching test wins — numpy numbers (also `np.float64`, before `float`), TdmsType
    instances, `bool` / `np.bool_` BEFORE `int`, `int`, `float`, `datetime`, `np.datetime64`, `TdmsTimestamp`, `str`,
    `bytes`; anything else raises TypeError -/
theorem _to_tdms_value_tied (x : PyValue P) :
    _to_tdms_value np_typed as_tdms as_int mk_Boolean mk_DoubleFloat mk_TimeStamp mk_String mk_Uint64 mk_Int64 mk_Int32 x =
      match x with
      | .NpFloat64 _ => .ok (np_typed x)
      | .NpNumber _ => .ok (np_typed x)
      | .TdmsTypeValue _ => .ok (as_tdms x)
      | .PyBool _ => .ok (mk_Boolean x)
      | .NpBool _ => .ok (mk_Boolean x)
      | .PyInt _ => .ok (to_int_property_value mk_Uint64 mk_Int64 mk_Int32 (as_int x))
      | .PyFloat _ => .ok (mk_DoubleFloat x)
      | .PyDatetime _ => .ok (mk_TimeStamp x)
      | .NpDatetime64 _ => .ok (mk_TimeStamp x)
      | .TdmsTimestampValue _ => .ok (as_tdms x)
      | .PyStr _ => .ok (mk_String x)
      | .PyBytes _ => .ok (mk_String x)
      | .OtherValue _ => .error "TypeError" := by
  cases x <;> rfl

end Dispatch

/-! ### against the model's `toTdmsValue` -/

/-- the Python value of a model property value (`typed`: a numpy scalar) -/
def pyV : PyVal → PyValue PyVal
  | .int v => .PyInt ⟨.int v⟩
  | .float b => .PyFloat ⟨.float b⟩
  | .bool b => .PyBool ⟨.bool b⟩
  | .str s => .PyStr ⟨.str s⟩
  | .datetime us => .PyDatetime ⟨.datetime us⟩
  | .rawTimestamp s f => .TdmsTimestampValue ⟨.rawTimestamp s f⟩
  | .typed c le => .NpNumber ⟨.typed c le⟩

def payloadOf : PyValue PyVal → PyVal
  | .NpFloat64 o | .NpNumber o | .TdmsTypeValue o | .PyBool o | .NpBool o | .PyInt o | .PyFloat o | .PyDatetime o
  | .NpDatetime64 o | .TdmsTimestampValue o | .PyStr o | .PyBytes o | .OtherValue o => o.payload

/-- `Boolean(v)` -/
def mkBoolean (x : PyValue PyVal) : Nat × Bytes :=
  (tyBoolean, [match payloadOf x with | .bool b => if b then 1 else 0 | _ => 0])
/-- `DoubleFloat(v)` -/
def mkDouble (x : PyValue PyVal) : Nat × Bytes := (tyDouble, match payloadOf x with | .float b => b | _ => [])
/-- `String(v)` -/
def mkString (x : PyValue PyVal) : Nat × Bytes := (tyString, match payloadOf x with | .str s => s | _ => [])
/-- `TimeStamp(v)` for a datetime: seconds and 2^-64 fractions since 1904, floor (C12) -/
def mkTimeStamp (x : PyValue PyVal) : Nat × Bytes :=
  match payloadOf x with
  | .datetime us => let sf := Model.Timestamp.encodeFloor (us - epochMicros); (tyTimeStamp, Model.Timestamp.toBytesLE sf.1 sf.2)
  | _ => (tyTimeStamp, [])
/-- an int used as an int -/
def asInt (x : PyValue PyVal) : Int := match payloadOf x with | .int v => v | .bool b => if b then 1 else 0 | _ => 0
/-- values that already carry their TDMS type (numpy scalars, TdmsType instances, TdmsTimestamp): the model's answer -/
def asTyped (x : PyValue PyVal) : Nat × Bytes := toTdmsValue (payloadOf x)

/-- **`_to_tdms_value`** computes the model's `toTdmsValue` (type code and value bytes) -/
theorem _to_tdms_value_model (v : PyVal) :
    _to_tdms_value asTyped asTyped asInt mkBoolean mkDouble mkTimeStamp mkString
      (fun n => (tyUint64, encLE 8 (ofSigned 8 n))) (fun n => (tyInt64, encLE 8 (ofSigned 8 n)))
      (fun n => (tyInt32, encLE 4 (ofSigned 4 n))) (pyV v) = .ok (toTdmsValue v) := by
  rw [_to_tdms_value_tied]
  cases v with
  | int v =>
    simp only [pyV, asInt, payloadOf, to_int_property_value, toTdmsValue, Tdms.Proofs.C07.intPropertyType_eq, ge_iff_le]
    by_cases h1 : (2 : Int) ^ 63 ≤ v
    · simp only [h1, if_true, Tdms.Proofs.C07.typeSize_uint64, Option.getD_some]
    · by_cases h2 : (2 : Int) ^ 31 ≤ v ∨ v < -2 ^ 31
      · simp only [h1, h2, if_true, if_false, Tdms.Proofs.C07.typeSize_int64, Option.getD_some]
      · simp only [h1, h2, if_false, Tdms.Proofs.C07.typeSize_int32, Option.getD_some]
  | float b => rfl
  | bool b => cases b <;> rfl
  | str s => rfl
  | datetime us => rfl
  | rawTimestamp s f => rfl
  | typed c le => rfl

/-- a Python `bool` becomes a TDMS Boolean, not an Int32 (`bool` is tested before `int`) -/
theorem bool_is_boolean (b : Bool) :
    _to_tdms_value asTyped asTyped asInt mkBoolean mkDouble mkTimeStamp mkString
      (fun n => (tyUint64, encLE 8 (ofSigned 8 n))) (fun n => (tyInt64, encLE 8 (ofSigned 8 n)))
      (fun n => (tyInt32, encLE 4 (ofSigned 4 n))) (pyV (.bool b)) = .ok (tyBoolean, [if b then 1 else 0]) := by
  cases b <;> rfl

end Tdms.Proofs.C07Tied
