/-
  C06 ("a file cut short by a crash reads as a prefix of the complete file"): the WHOLE-FILE theorems, for files
  of one segment (sections 0–2: every cut offset, exact result) and for files of several self-describing segments
  with one object signature (section 3: every cut offset, all values of the segments wholly before the cut are
  kept, monotonicity in the cut offset).

  `bytes` is the spec encoding (`Tdms/Spec/Format.lean`) of a one-segment well-formed file of the class
  `CutStd` / `SegFits` / `onlyChannelsHaveData` (the class of `C01Compose.lean`: metadata present, contiguous
  data, every object `noData` or a full standard index, fixed-width or string types, any byte order, any padding,
  any number of chunks — and, beyond `C01Compose.lean`, the next-segment offset of the lead-in either explicit or
  the length-unknown marker `0xFFFF_FFFF_FFFF_FFFF`).  For EVERY `k ≤ bytes.length` the model reader
  (`Tdms/Model/Reader.lean`, `Tdms/Model/Data.lean`) applied to `bytes.take k` succeeds, and what it returns is
  described exactly.  The theorems compose the arithmetic core `C06.lean` (number of chunks, final chunk lengths,
  contiguous fit) with the lemmas of the uncut whole-file theorem `C01Compose.lean`; lemmas live in
  `TdmsProofs/Lemmas/C06Whole{Defs,Meta,Data,File}.lean` (one segment) and
  `TdmsProofs/Lemmas/C06WholeMulti{Meta,Data,File}.lean` (several segments).  Core Lean only.

  Geometry of the cut (definitions in `C06WholeDefs.lean`, all executable):
    * `dataPosOf s = 28 + metadata length + padding` — start of the raw data (`dataPosOf_eq`);
    * `chunkBytes s.objs` — bytes of one chunk; `cutQ s k`, `cutR s k` — quotient and remainder of
      `k - dataPosOf s` by it: complete chunks before the cut, bytes of the chunk containing the cut
      (`cut_geometry`);
    * `hasStr s` — some data object holds strings.

  What the model does (= what npTDMS does), proved below:
    * `k < dataPosOf s` (cut inside the lead-in, the metadata or the padding): the segment is dropped, the result
      is the empty file (no segment, no object, no channel); the version number is recorded iff `28 ≤ k`.
    * `dataPosOf s ≤ k`: one segment ending at `k`, flagged incomplete iff `k < bytes.length` or the lead-in
      carries the length-unknown marker (then also the uncut file is "incomplete"); the same objects,
      types and properties as the complete file; every channel holds all its values of the `cutQ` complete chunks
      and, from the chunk containing the cut, the complete values lying before the cut (contiguous fit
      `min n ⌊(r - start) / size⌋`) — EXCEPT when a string channel is present: then the truncated chunk is
      dropped for EVERY channel of the segment (`_compute_final_chunk_lengths` returns no lengths), also for
      fixed-width channels that lie wholly before the cut.
-/
import TdmsProofs.Lemmas.C06WholeMultiFile
import TdmsProofs.Properties.C01Compose

namespace Tdms.Proofs.C06Whole

open Tdms Tdms.Generated Tdms.Model Tdms.Proofs.Bytes Tdms.Proofs.C01Compose

/-! ## 0. the class, geometry -/

-- `CutStd s` (`C06WholeDefs.lean`): `s.hasMeta = true`, `s.interleaved = false`, every object `noData` or a full
-- standard index (`stdIdx`), `wellFormed [s] = true`.  It is `SingleStd s` of `C01Compose.lean` WITHOUT
-- `s.lengthUnknown = false`: the lead-in may carry the `0xFFFF_FFFF_FFFF_FFFF` marker a crashed writer leaves.

/-- every file of the class of `C01Compose.lean` is in the class -/
theorem cutStd_of_singleStd (s : SegEnc) (h : SingleStd s) : CutStd s := CutStd.of_singleStd h

/-- the bytes of the file -/
theorem encodeFile_cutStd (s : SegEnc) (h : CutStd s) : encodeFile [s] = .ok (encodeSeg s (s.objs.map actOf)) :=
  encodeFile_single s h.wfSingle

/-- the raw data start after the lead-in, the metadata and the padding -/
theorem dataPosOf_eq (s : SegEnc) (h : CutStd s) :
    dataPosOf s = 28 + (encMeta s.endian s.objs).length + s.padding := by
  simp [dataPosOf, segMeta, h.hasMeta]; omega

/-- `cutQ` complete chunks and `cutR` further bytes lie between the start of the raw data and the cut; the file
    ends after `s.chunks.length` chunks; a cut inside a chunk (`cutR ≠ 0`) is inside the file and inside chunk
    number `cutQ` -/
theorem cut_geometry (s : SegEnc) (h : CutStd s) (bytes : Bytes) (hb : encodeFile [s] = .ok bytes) (k : Nat)
    (hk1 : dataPosOf s ≤ k) (hk : k ≤ bytes.length) :
    k = dataPosOf s + (cutQ s k * chunkBytes s.objs + cutR s k) ∧
    bytes.length = dataPosOf s + s.chunks.length * chunkBytes s.objs ∧
    cutQ s k ≤ s.chunks.length ∧
    (cutR s k ≠ 0 → cutR s k < chunkBytes s.objs ∧ cutQ s k < s.chunks.length ∧ k < bytes.length) := by
  have w := h.wfSingle
  rw [encodeFile_single s w] at hb
  injection hb with hb
  subst hb
  refine ⟨cut_div_mod s k hk1, file_length s w h.contiguous, cutQ_le s w h.contiguous k hk1 hk, ?_⟩
  intro hr
  obtain ⟨_, h2, h3, h4⟩ := cutR_pos_imp s w h.contiguous k hk1 hk hr
  exact ⟨h2, h4, h3⟩

/-! ## 1. the whole-file truncation theorem -/

/-- **monotonicity in the cut offset**: for `k ≤ k' ≤ bytes.length` both reads succeed and every channel's values
    in the file cut after `k` bytes are a prefix of its values in the file cut after `k'` bytes — cutting later
    never loses anything, cutting earlier never invents anything. -/
theorem read_cut_single_mono (s : SegEnc) (h : CutStd s) (fit : SegFits s) (hch : onlyChannelsHaveData s)
    (bytes : Bytes) (hb : encodeFile [s] = .ok bytes) (hlen : bytes.length < 2 ^ 63) (k k' : Nat)
    (hkk : k ≤ k') (hk' : k' ≤ bytes.length) :
    ∃ r r', readFile (bytes.take k) = .ok r ∧ readFile (bytes.take k') = .ok r' ∧
      ∀ p, valuesIn r.channels p <+: valuesIn r'.channels p := by
  have w := h.wfSingle
  rw [encodeFile_single s w] at hb
  injection hb with hb
  subst hb
  have hr' : ∃ r', readFile ((encodeSeg s (s.objs.map actOf)).take k') = .ok r' := by
    by_cases hk1 : k' < dataPosOf s
    · exact ⟨_, readFile_dropped s h hlen k' hk1⟩
    · obtain ⟨prev', hcut'⟩ := readFile_cut s h fit hch hlen k' (by omega) hk'
      exact ⟨_, hcut'⟩
  by_cases hk1 : k < dataPosOf s
  · obtain ⟨r', hr'⟩ := hr'
    exact ⟨_, r', readFile_dropped s h hlen k hk1, hr', fun p => List.nil_prefix⟩
  · have hk1' : dataPosOf s ≤ k := by omega
    obtain ⟨prev, hcut⟩ := readFile_cut s h fit hch hlen k hk1' (by omega)
    obtain ⟨prev', hcut'⟩ := readFile_cut s h fit hch hlen k' (by omega) hk'
    refine ⟨_, _, hcut, hcut', ?_⟩
    intro p
    show valuesIn (cutChannels s k) p <+: valuesIn (cutChannels s k') p
    unfold cutChannels
    by_cases hp : p ∈ (dataOs s.objs).map (·.path)
    · obtain ⟨d, hd, rfl⟩ := List.mem_map.mp hp
      obtain ⟨i, hi, rfl⟩ := List.getElem_of_mem hd
      rw [valuesIn_rcv_data s hch w _ i hi, valuesIn_rcv_data s hch w _ i hi]
      exact cutVals_mono s h.contiguous h.stdObjs w k k' hk1' hkk hk' i hi
    · rw [valuesIn_rcv_other s _ p hp]
      exact List.nil_prefix

/-- **a one-segment file cut after `k` bytes, any `k`**: reading never fails; every channel's values are a prefix
    of its values in the complete file; `len(channel)` (`numValues`) is the number of values returned; a cut
    before the raw data gives the empty file; a cut at or after the start of the raw data gives one segment that
    ends at the cut, is flagged incomplete exactly when bytes are missing (or the lead-in carries the
    length-unknown marker), and lists the objects of the complete file with the same data types and properties. -/
theorem read_cut_single (s : SegEnc) (h : CutStd s) (fit : SegFits s) (hch : onlyChannelsHaveData s)
    (bytes : Bytes) (hb : encodeFile [s] = .ok bytes) (hlen : bytes.length < 2 ^ 63) (k : Nat)
    (hk : k ≤ bytes.length) :
    ∃ r r', readFile bytes = .ok r ∧ readFile (bytes.take k) = .ok r' ∧
      (∀ p, valuesIn r'.channels p <+: valuesIn r.channels p) ∧
      (∀ m ∈ r'.state.objects, m.numValues = (valuesIn r'.channels m.path).length) ∧
      (k < dataPosOf s →
        r'.state.segments = [] ∧ r'.state.objects = [] ∧ r'.channels = [] ∧
        r'.state.version = if k < 28 then none else some (s.version : Int)) ∧
      (dataPosOf s ≤ k →
        (∃ seg, r'.state.segments = [seg] ∧ seg.position = 0 ∧ seg.dataPosition = dataPosOf s ∧
          seg.nextSegmentPos = k ∧ (seg.incomplete = true ↔ (s.lengthUnknown = true ∨ k < bytes.length))) ∧
        r'.state.objects.map (fun m => (m.path, m.dataType, m.props)) =
          r.state.objects.map (fun m => (m.path, m.dataType, m.props)) ∧
        r'.state.version = r.state.version) := by
  obtain ⟨r', r, hr', hr, hpre⟩ := read_cut_single_mono s h fit hch bytes hb hlen k bytes.length hk (Nat.le_refl _)
  rw [List.take_length] at hr
  refine ⟨r, r', hr, hr', hpre, ?_⟩
  have w := h.wfSingle
  rw [encodeFile_single s w] at hb
  injection hb with hb
  subst hb
  have hLd : dataPosOf s ≤ (encodeSeg s (s.objs.map actOf)).length := by
    rw [file_length s w h.contiguous]; omega
  obtain ⟨prevL, hfull⟩ := readFile_cut s h fit hch hlen _ hLd (Nat.le_refl _)
  rw [List.take_length, hr] at hfull
  injection hfull with hfull
  subst hfull
  by_cases hk1 : k < dataPosOf s
  · rw [readFile_dropped s h hlen k hk1] at hr'
    injection hr' with hr'
    subst hr'
    refine ⟨?_, ?_, ?_⟩
    · intro m hm
      have hobjs : (droppedState s k).objects = [] := by unfold droppedState; split <;> rfl
      simp only [hobjs] at hm
      cases hm
    · intro _
      refine ⟨?_, ?_, rfl, ?_⟩ <;> (unfold droppedState; split <;> rfl)
    · intro h'; omega
  · have hk1' : dataPosOf s ≤ k := by omega
    obtain ⟨prev', hcut⟩ := readFile_cut s h fit hch hlen k hk1' hk
    rw [hcut] at hr'
    injection hr' with hr'
    subst hr'
    refine ⟨?_, fun h' => absurd h' hk1, fun _ => ⟨?_, ?_, rfl⟩⟩
    · intro m hm
      obtain ⟨o, ho, rfl⟩ := List.mem_map.mp hm
      show cutNum s k o = (valuesIn (cutChannels s k) o.path).length
      unfold cutChannels cutNum
      cases hf : isFull o with
      | true =>
        have hd : o ∈ dataOs s.objs := by simp [dataOs, ho, hf]
        obtain ⟨i, hi, rfl⟩ := List.getElem_of_mem hd
        rw [valuesIn_rcv_data s hch w _ i hi]
        exact (cutVals_length s h.contiguous h.stdObjs w k hk1' hk i hi).symm
      | false =>
        rw [valuesIn_rcv_other s _ o.path]
        · rfl
        · intro hmem
          obtain ⟨d, hd, hde⟩ := List.mem_map.mp hmem
          obtain ⟨hdm, hfull⟩ := dataOs_sub hd
          have : d = o := eq_of_nodup_map_path s.objs w.nodup hdm ho hde
          subst this
          rw [hf] at hfull; cases hfull
    · exact ⟨_, rfl, rfl, rfl, rfl, by simp [cutSeg]⟩
    · show (s.objs.map (metaN (cutNum s k))).map _ = (s.objs.map (metaN (cutNum s _))).map _
      rw [List.map_map, List.map_map]
      rfl

/-! ## 2. the values, exactly -/

/-- **the values of the cut file in closed form** (cut at or after the start of the raw data): data object `i`
    holds all its values of the `cutQ s k` complete chunks followed by the first `finalCount s k i` of its values
    in the chunk containing the cut, where (`C06WholeFile.lean`)
      `finalCount s k i o = if cutR s k = 0 ∨ hasStr s then 0 else min (nvals o) ((cutR s k - startOf s i) / valSize o)`,
    `startOf s i` being the byte offset of the object inside a chunk and `valSize o` the width of its type;
    objects without data hold nothing.  In particular every value of every chunk lying wholly before the cut is
    returned. -/
theorem read_cut_single_values (s : SegEnc) (h : CutStd s) (fit : SegFits s) (hch : onlyChannelsHaveData s)
    (bytes : Bytes) (hb : encodeFile [s] = .ok bytes) (hlen : bytes.length < 2 ^ 63) (k : Nat)
    (hk1 : dataPosOf s ≤ k) (hk : k ≤ bytes.length) :
    ∃ r', readFile (bytes.take k) = .ok r' ∧
      (∀ (i : Nat) (hi : i < (dataOs s.objs).length),
        valuesIn r'.channels (dataOs s.objs)[i].path =
          (s.chunks.take (cutQ s k)).flatMap (·.getD i []) ++
            ((s.chunks.getD (cutQ s k) []).getD i []).take (finalCount s k i (dataOs s.objs)[i]) ∧
        (s.chunks.take (cutQ s k)).flatMap (·.getD i []) <+: valuesIn r'.channels (dataOs s.objs)[i].path) ∧
      (∀ p, p ∉ (dataOs s.objs).map (·.path) → valuesIn r'.channels p = []) := by
  have w := h.wfSingle
  rw [encodeFile_single s w] at hb
  injection hb with hb
  subst hb
  obtain ⟨prev', hcut⟩ := readFile_cut s h fit hch hlen k hk1 hk
  refine ⟨_, hcut, ?_, ?_⟩
  · intro i hi
    have hv : valuesIn (cutChannels s k) (dataOs s.objs)[i].path =
        (s.chunks.take (cutQ s k)).flatMap (·.getD i []) ++
          ((s.chunks.getD (cutQ s k) []).getD i []).take (finalCount s k i (dataOs s.objs)[i]) := by
      unfold cutChannels
      rw [valuesIn_rcv_data s hch w _ i hi]
      have := cutVals_eq s k i hi
      unfold cutVals at this
      rw [this, finLen_closed s h.stdObjs w k i hi]
      by_cases hr : cutR s k = 0
      · simp [hr, finalCount]
      · simp [hr]
    refine ⟨hv, ?_⟩
    show _ <+: valuesIn (cutChannels s k) _
    rw [hv]
    exact List.prefix_append _ _
  · intro p hp
    show valuesIn (cutChannels s k) p = []
    unfold cutChannels
    exact valuesIn_rcv_other s _ p hp

/-- the same against the spec's meaning: `denote [s]` is defined, the complete file reads as `denote [s]`
    (this extends `C01Compose.read_encode_single` to lead-ins with the length-unknown marker), and the values the
    cut file returns for an object are a prefix of the values `denote` assigns to it -/
theorem read_cut_single_denote (s : SegEnc) (h : CutStd s) (fit : SegFits s) (hch : onlyChannelsHaveData s)
    (bytes : Bytes) (hb : encodeFile [s] = .ok bytes) (hlen : bytes.length < 2 ^ 63) (k : Nat)
    (hk : k ≤ bytes.length) :
    ∃ c r r', denote [s] = .ok c ∧ readFile bytes = .ok r ∧ content r = contentOfDenote c ∧
      readFile (bytes.take k) = .ok r' ∧ ∀ oc ∈ c, valuesIn r'.channels oc.path <+: oc.values := by
  obtain ⟨r, r', hr, hr', hpre, _⟩ := read_cut_single s h fit hch bytes hb hlen k hk
  have w := h.wfSingle
  have hc := denote_single s h.hasMeta w
  have hcont : content r = contentOfDenote (withVals (s.objs.map base)
      (valsAfter (dataOs s.objs) (fun _ => []) s.chunks)) := by
    rw [encodeFile_single s w] at hb
    injection hb with hb
    subst hb
    have hLd : dataPosOf s ≤ (encodeSeg s (s.objs.map actOf)).length := by
      rw [file_length s w h.contiguous]; omega
    obtain ⟨prevL, hfull⟩ := readFile_cut s h fit hch hlen _ hLd (Nat.le_refl _)
    rw [List.take_length, hr] at hfull
    injection hfull with hfull
    subst hfull
    exact content_at_end s h.contiguous w hch prevL
  refine ⟨_, r, r', hc, hr, hcont, hr', ?_⟩
  intro oc hoc
  have hmem : (⟨oc.path, oc.ty, oc.props.map canonProp, oc.values⟩ : ObjView) ∈
      contentOfDenote (withVals (s.objs.map base) (valsAfter (dataOs s.objs) (fun _ => []) s.chunks)) :=
    List.mem_map.mpr ⟨oc, hoc, rfl⟩
  rw [← hcont] at hmem
  obtain ⟨m, _, hm⟩ := List.mem_map.mp hmem
  have h1 : m.path = oc.path := congrArg ObjView.path hm
  have h2 : valuesIn r.channels m.path = oc.values := congrArg ObjView.values hm
  rw [← h2, h1]
  exact hpre oc.path

/-! ## 3. several segments -/

-- `MultiStd s₀ rest` (`C06WholeMultiFile.lean`), the class of files `s₀ :: rest` of several SELF-DESCRIBING segments:
--   * every segment on its own is in the one-segment class (`CutStd`, `SegFits`): metadata present, contiguous,
--     every object `noData` or a full standard index, `wellFormed [x]`;
--   * every later segment starts a new object list (`newList = true`) and lists objects with the signature of the
--     first segment: `x.objs.map sigOf = s₀.objs.map sigOf`, `sigOf o = (o.path, tyOf o)` — same paths in the same
--     order, same data types, hence the same objects with and without data; values per chunk, number of chunks,
--     properties, padding, byte order, version may differ from segment to segment;
--   * only the last segment may carry the length-unknown marker; only channels have data.
-- `encAll ss` is the concatenation of the segments' bytes, `encLen x` the length of one segment,
-- `fullVals x i` / `cutVals x k i` the values of data object `i` in segment `x` complete / cut after `k` bytes
-- (`cutVals_eq`, `finLen_closed`: the closed form of section 2), and
--   `valsAt ss K i` = the segments lying wholly before byte `K` in full, then the segment containing byte `K` up
--   to the cut (nothing of it when its raw data are not reached).

/-- the bytes of such a file are the concatenation of the bytes of its segments, each laid out as on its own -/
theorem encodeFile_multiStd (s₀ : SegEnc) (rest : List SegEnc) (H : MultiStd s₀ rest) :
    encodeFile (s₀ :: rest) = .ok (encAll (s₀ :: rest)) :=
  encodeFile_multi s₀ rest H.first fun x hx => ⟨(H.later x hx).1, (H.later x hx).2.2.1, (H.later x hx).2.2.2⟩

/-- **cut at or after a segment boundary**: the file is `s₀ :: mid ++ s :: post`, the cut falls `k` bytes into
    segment `s` (`0 ≤ k ≤ encLen s`; `k = 0` is the cut exactly at the boundary), so the segments `s₀ :: mid` lie
    wholly before the cut.  Reading never fails; data object `i` holds ALL its values of the segments `s₀ :: mid`,
    followed by its values in `s` up to the cut (none when the raw data of `s` are not reached: then `s` is
    dropped); `len(channel)` is the number of values returned; the complete segments are listed as complete,
    and `s` — when it is kept — ends at the cut. -/
theorem read_cut_multi_boundary (s₀ : SegEnc) (mid : List SegEnc) (s : SegEnc) (post : List SegEnc)
    (H : MultiStd s₀ (mid ++ s :: post)) (bytes : Bytes) (hb : encodeFile (s₀ :: mid ++ s :: post) = .ok bytes)
    (hlen : bytes.length < 2 ^ 63) (k : Nat) (hk : k ≤ encLen s) :
    ∃ r', readFile (bytes.take ((encAll (s₀ :: mid)).length + k)) = .ok r' ∧
      (∀ (i : Nat) (hi : i < (dataOs s₀.objs).length),
        valuesIn r'.channels (dataOs s₀.objs)[i].path =
          fullValsOf (s₀ :: mid) i ++ (if dataPosOf s ≤ k then cutVals s k i else []) ∧
        fullValsOf (s₀ :: mid) i <+: valuesIn r'.channels (dataOs s₀.objs)[i].path) ∧
      (∀ p, p ∉ (dataOs s₀.objs).map (·.path) → valuesIn r'.channels p = []) ∧
      (∀ m ∈ r'.state.objects, m.numValues = (valuesIn r'.channels m.path).length) ∧
      r'.state.segments = runSegs 0 (s₀ :: mid) ++
        (if dataPosOf s ≤ k then [cutSegAt s (encAll (s₀ :: mid)).length k] else []) := by
  have hb' := encodeFile_multiStd s₀ (mid ++ s :: post) H
  rw [show s₀ :: (mid ++ s :: post) = s₀ :: mid ++ s :: post from rfl] at hb'
  rw [hb'] at hb
  injection hb with hb
  subst hb
  have HOK := multiOK_of_multiStd s₀ mid s post H hlen
  have w₀ := H.first.wfSingle
  obtain ⟨prev, hread⟩ := readFile_multi s₀ mid s HOK H.channels k hk
  rw [take_encAll (s₀ :: mid) s post k hk]
  refine ⟨_, hread, ?_, ?_, ?_, multiState_segments s₀ mid s k prev⟩
  · intro i hi
    have hv : valuesIn (multiChannels s₀ mid s k) (dataOs s₀.objs)[i].path =
        fullValsOf (s₀ :: mid) i ++ (if dataPosOf s ≤ k then cutVals s k i else []) := by
      unfold multiChannels
      rw [valuesIn_rcv_data s₀ H.channels w₀ _ i hi, multiChunks_vals s₀ mid s HOK k i]
    refine ⟨hv, ?_⟩
    show _ <+: valuesIn (multiChannels s₀ mid s k) _
    rw [hv]
    exact List.prefix_append _ _
  · intro p hp
    show valuesIn (multiChannels s₀ mid s k) p = []
    unfold multiChannels
    exact valuesIn_rcv_other s₀ _ p hp
  · intro m hm
    rw [multiState_objects] at hm
    obtain ⟨o, ho, rfl⟩ := List.mem_map.mp hm
    show multiNf s₀ mid s k o.path = (valuesIn (multiChannels s₀ mid s k) o.path).length
    unfold multiChannels
    cases hf : isFull o with
    | true =>
      have hd : o ∈ dataOs s₀.objs := by simp [dataOs, ho, hf]
      obtain ⟨i, hi, rfl⟩ := List.getElem_of_mem hd
      rw [valuesIn_rcv_data s₀ H.channels w₀ _ i hi]
      exact multi_count s₀ mid s HOK k hk i hi
    | false =>
      rw [valuesIn_rcv_other s₀ _ o.path, multiNf_nodata s₀ mid s HOK k o ho hf]
      · rfl
      · intro hmem
        obtain ⟨d, hd, hde⟩ := List.mem_map.mp hmem
        obtain ⟨hdm, hfull⟩ := dataOs_sub hd
        have : d = o := eq_of_nodup_map_path s₀.objs w₀.nodup hdm ho hde
        subst this
        rw [hf] at hfull; cases hfull

/-- `file_status`: in the situation of `read_cut_multi_boundary` the segments lying wholly before the cut are
    reported complete, and the segment containing the cut — when its raw data are reached, otherwise it is not
    listed at all — is reported incomplete exactly when bytes of it are missing (or its lead-in carries the
    length-unknown marker) -/
theorem read_cut_multi_status (s₀ : SegEnc) (mid : List SegEnc) (s : SegEnc) (post : List SegEnc)
    (H : MultiStd s₀ (mid ++ s :: post)) (k : Nat) :
    (runSegs 0 (s₀ :: mid) ++ (if dataPosOf s ≤ k then [cutSegAt s (encAll (s₀ :: mid)).length k] else [])).map
        (·.incomplete) =
      List.replicate (s₀ :: mid).length false ++
        (if dataPosOf s ≤ k then [s.lengthUnknown || decide (k < encLen s)] else []) := by
  have hknown : ∀ x ∈ s₀ :: mid, x.lengthUnknown = false := fun x hx =>
    H.known x (mem_dropLast_of_append_cons (s₀ :: mid) s post x hx)
  have hrun : ∀ (ss : List SegEnc) (P : Nat), (∀ x ∈ ss, x.lengthUnknown = false) →
      (runSegs P ss).map (·.incomplete) = List.replicate ss.length false := by
    intro ss
    induction ss with
    | nil => intro P _; rfl
    | cons x xs ih =>
      intro P hall
      simp only [runSegs, List.map_cons, List.length_cons, List.replicate_succ,
        ih _ (fun y hy => hall y (List.mem_cons_of_mem _ hy))]
      congr 1
      simp [cutSegAt, cutSeg, hall x List.mem_cons_self]
  rw [List.map_append, hrun _ 0 hknown]
  congr 1
  split
  · simp [cutSegAt, cutSeg]
  · rfl

/-- **a file of several segments cut after `K` bytes, any `K`**: reading never fails; data object `i` holds
    `valsAt (s₀ :: rest) K i`; every channel's values are a prefix of its values in the complete file, which are
    the concatenation of its values over all segments; `len(channel)` is the number of values returned. -/
theorem read_cut_multi (s₀ : SegEnc) (rest : List SegEnc) (H : MultiStd s₀ rest) (bytes : Bytes)
    (hb : encodeFile (s₀ :: rest) = .ok bytes) (hlen : bytes.length < 2 ^ 63) (K : Nat) (hK : K ≤ bytes.length) :
    ∃ r r', readFile bytes = .ok r ∧ readFile (bytes.take K) = .ok r' ∧
      (∀ p, valuesIn r'.channels p <+: valuesIn r.channels p) ∧
      (∀ m ∈ r'.state.objects, m.numValues = (valuesIn r'.channels m.path).length) ∧
      (∀ (i : Nat) (hi : i < (dataOs s₀.objs).length),
        valuesIn r'.channels (dataOs s₀.objs)[i].path = valsAt (s₀ :: rest) K i ∧
        valuesIn r.channels (dataOs s₀.objs)[i].path = fullValsOf (s₀ :: rest) i) := by
  rw [encodeFile_multiStd s₀ rest H] at hb
  injection hb with hb
  subst hb
  have heach := multiStd_each s₀ rest H
  obtain ⟨r', hr', hv', ho', hn'⟩ := readFile_at s₀ rest H hlen K hK
  obtain ⟨r, hr, hv, ho, _⟩ := readFile_at s₀ rest H hlen _ (Nat.le_refl _)
  rw [List.take_length] at hr
  have hwf : ∀ x ∈ s₀ :: rest, x.interleaved = false ∧ WfSingle x :=
    fun x hx => ⟨(heach x hx).1.contiguous, (heach x hx).1.wfSingle⟩
  refine ⟨r, r', hr, hr', ?_, hn', fun i hi => ⟨hv' i hi, ?_⟩⟩
  · intro p
    by_cases hp : p ∈ (dataOs s₀.objs).map (·.path)
    · obtain ⟨d, hd, rfl⟩ := List.mem_map.mp hp
      obtain ⟨i, hi, rfl⟩ := List.getElem_of_mem hd
      rw [hv' i hi, hv i hi]
      exact valsAt_mono i (s₀ :: rest) K _
        (fun x hx => ⟨(heach x hx).1, by rw [dataOs_length_sig s₀.objs x.objs (heach x hx).2]; exact hi⟩)
        hK (Nat.le_refl _)
    · rw [ho' p hp]; exact List.nil_prefix
  · rw [hv i hi]
    exact valsAt_end i (s₀ :: rest) hwf (by simp)

/-- **monotonicity in the cut offset, several segments**: for `K ≤ K' ≤ bytes.length` both reads succeed and every
    channel's values in the file cut after `K` bytes are a prefix of its values in the file cut after `K'` bytes.
    In particular a cut at or after a segment boundary keeps all values of every earlier cut. -/
theorem read_cut_multi_mono (s₀ : SegEnc) (rest : List SegEnc) (H : MultiStd s₀ rest) (bytes : Bytes)
    (hb : encodeFile (s₀ :: rest) = .ok bytes) (hlen : bytes.length < 2 ^ 63) (K K' : Nat) (hKK : K ≤ K')
    (hK' : K' ≤ bytes.length) :
    ∃ r r', readFile (bytes.take K) = .ok r ∧ readFile (bytes.take K') = .ok r' ∧
      ∀ p, valuesIn r.channels p <+: valuesIn r'.channels p := by
  rw [encodeFile_multiStd s₀ rest H] at hb
  injection hb with hb
  subst hb
  have heach := multiStd_each s₀ rest H
  obtain ⟨r, hr, hv, ho, _⟩ := readFile_at s₀ rest H hlen K (by omega)
  obtain ⟨r', hr', hv', ho', _⟩ := readFile_at s₀ rest H hlen K' hK'
  refine ⟨r, r', hr, hr', ?_⟩
  intro p
  by_cases hp : p ∈ (dataOs s₀.objs).map (·.path)
  · obtain ⟨d, hd, rfl⟩ := List.mem_map.mp hp
    obtain ⟨i, hi, rfl⟩ := List.getElem_of_mem hd
    rw [hv i hi, hv' i hi]
    exact valsAt_mono i (s₀ :: rest) K K'
      (fun x hx => ⟨(heach x hx).1, by rw [dataOs_length_sig s₀.objs x.objs (heach x hx).2]; exact hi⟩)
      hKK hK'
  · rw [ho p hp]; exact List.nil_prefix

/-! ## 4. non-vacuity: concrete files, every cut offset -/

section Example

/-- executable comparison of the model's result on the file cut after `k` bytes with the closed form the lemmas
    establish (`droppedState` / `cutSeg` / `cutNum` / `cutChannels` of `C06WholeDefs.lean`) -/
def cutAgrees (s : SegEnc) (k : Nat) : Bool :=
  match encodeFile [s] with
  | .error _ => false
  | .ok file =>
    match readFile (file.take k) with
    | .error _ => false
    | .ok r =>
      if k < dataPosOf s then
        r.state.segments == [] && r.state.objects == [] && r.channels == [] &&
          r.state.version == (droppedState s k).version
      else
        r.state.segments == [cutSeg s file.length k] && r.state.objects == s.objs.map (metaN (cutNum s k)) &&
          r.channels == cutChannels s k && r.state.version == some (s.version : Int)

/-- what a user sees of the file cut after `k` bytes: incomplete flag, and per object the path's last byte,
    `len(channel)` and the values -/
structure CutView where
  ok : Bool                              -- the read succeeded
  incomplete : List Bool                 -- the `incomplete` flag of every segment
  objs : List (Nat × List Bytes)         -- per object: `len(channel)` and the values
deriving DecidableEq, Repr

def cutView (s : SegEnc) (k : Nat) : CutView :=
  match encodeFile [s] with
  | .error _ => ⟨false, [], []⟩
  | .ok file =>
    match readFile (file.take k) with
    | .error _ => ⟨false, [], []⟩
    | .ok r => ⟨true, r.state.segments.map (·.incomplete),
        r.state.objects.map fun m => (m.numValues, valuesIn r.channels m.path)⟩

/-- the same for a file of several segments -/
def cutView2 (s₀ : SegEnc) (rest : List SegEnc) (K : Nat) : CutView :=
  match encodeFile (s₀ :: rest) with
  | .error _ => ⟨false, [], []⟩
  | .ok file =>
    match readFile (file.take K) with
    | .error _ => ⟨false, [], []⟩
    | .ok r => ⟨true, r.state.segments.map (·.incomplete),
        r.state.objects.map fun m => (m.numValues, valuesIn r.channels m.path)⟩

/-- `exSeg` of `C01Compose.lean` (264 bytes: Int32 channel `a` and string channel `s`, 2 + 2 values per chunk,
    two chunks of 19 bytes, raw data from byte 226) meets all hypotheses of the theorems of this file -/
example (k : Nat) (hk : k ≤ (encodeSeg exSeg (exSeg.objs.map actOf)).length) :
    ∃ r r', readFile (encodeSeg exSeg (exSeg.objs.map actOf)) = .ok r ∧
      readFile ((encodeSeg exSeg (exSeg.objs.map actOf)).take k) = .ok r' ∧
      (∀ p, valuesIn r'.channels p <+: valuesIn r.channels p) := by
  have hL : (encodeSeg exSeg (exSeg.objs.map actOf)).length = 264 := by
    have h := exSeg_length
    rw [(encodeFile_single_bytes exSeg exSeg_std).1] at h
    simpa [Except.toOption] using h
  obtain ⟨r, r', h1, h2, h3, _⟩ := read_cut_single exSeg (CutStd.of_singleStd exSeg_std) exSeg_fits exSeg_channels _
    (encodeFile_single_bytes exSeg exSeg_std).1 (by rw [hL]; decide) k hk
  exact ⟨r, r', h1, h2, h3⟩

theorem exSeg_dataPos : dataPosOf exSeg = 226 ∧ chunkBytes exSeg.objs = 19 ∧ hasStr exSeg = true := by
  decide +kernel

/-- kernel evaluation of the model on EVERY cut offset of `exSeg` (in three ranges): the model returns what the
    closed form says -/
theorem exSeg_cuts_meta : (List.range 226).all (cutAgrees exSeg) = true := by decide +kernel
theorem exSeg_cuts_data1 : ((List.range 20).map (· + 226)).all (cutAgrees exSeg) = true := by decide +kernel
theorem exSeg_cuts_data2 : ((List.range 19).map (· + 246)).all (cutAgrees exSeg) = true := by decide +kernel

/-- a string channel is present, so a truncated chunk is dropped entirely: cut one byte before the end (263),
    or anywhere inside the second chunk, both channels keep only the values of the first chunk; cut on the chunk
    boundary (245) likewise; cut inside the first chunk (244) nothing is left; cut in the padding (225) the
    segment is dropped -/
theorem exSeg_views :
    cutView exSeg 264 = ⟨true, [false], [(0, []), (0, []), (4, [[1, 0, 0, 0], [2, 0, 0, 0], [3, 0, 0, 0], [4, 0, 0, 0]]),
      (4, [[97, 98], [99], [], [120, 121, 122]]), (0, [])]⟩ ∧
    cutView exSeg 263 = ⟨true, [true], [(0, []), (0, []), (2, [[1, 0, 0, 0], [2, 0, 0, 0]]),
      (2, [[97, 98], [99]]), (0, [])]⟩ ∧
    cutView exSeg 245 = ⟨true, [true], [(0, []), (0, []), (2, [[1, 0, 0, 0], [2, 0, 0, 0]]),
      (2, [[97, 98], [99]]), (0, [])]⟩ ∧
    cutView exSeg 244 = ⟨true, [true], [(0, []), (0, []), (0, []), (0, []), (0, [])]⟩ ∧
    cutView exSeg 226 = ⟨true, [true], [(0, []), (0, []), (0, []), (0, []), (0, [])]⟩ ∧
    cutView exSeg 225 = ⟨true, [], []⟩ := by decide +kernel

/-- fixed-width channels only: Int32 `a` (2 values per chunk), Int16 `b` (3), Double `c` (1); a chunk is
    8 + 6 + 8 = 22 bytes, two chunks, raw data from byte 205, 249 bytes -/
def exFixed : SegEnc :=
  { exSeg with
    objs := [
      ⟨[47], .noData, [⟨[110], 0x20, [102, 105]⟩]⟩,
      ⟨[47, 39, 103, 39, 47, 39, 97, 39], .full 3 2 0, [⟨[117], 0x20, [86]⟩]⟩,
      ⟨[47, 39, 103, 39, 47, 39, 98, 39], .full 2 3 0, []⟩,
      ⟨[47, 39, 103, 39, 47, 39, 110, 39], .noData, []⟩,
      ⟨[47, 39, 103, 39, 47, 39, 99, 39], .full 10 1 0, []⟩ ],
    chunks := [ [[[1, 0, 0, 0], [2, 0, 0, 0]], [[5, 5], [6, 6], [7, 7]], [[1, 2, 3, 4, 5, 6, 7, 8]]],
                [[[3, 0, 0, 0], [4, 0, 0, 0]], [[8, 8], [9, 9], [10, 10]], [[11, 12, 13, 14, 15, 16, 17, 18]]] ] }

theorem exFixed_std : SingleStd exFixed where
  hasMeta := rfl
  contiguous := rfl
  lengthKnown := rfl
  stdObjs := by
    intro o ho
    simp only [exFixed, List.mem_cons, List.not_mem_nil, or_false] at ho
    rcases ho with rfl | rfl | rfl | rfl | rfl
    · exact .inl rfl
    · exact .inr ⟨_, _, _, rfl⟩
    · exact .inr ⟨_, _, _, rfl⟩
    · exact .inl rfl
    · exact .inr ⟨_, _, _, rfl⟩
  wf := by decide +kernel

theorem exFixed_fits : SegFits exFixed where
  nObjs := by decide
  objs := by
    intro o ho
    simp only [exFixed, List.mem_cons, List.not_mem_nil, or_false] at ho
    rcases ho with rfl | rfl | rfl | rfl | rfl <;>
      simp [objFits, idxFits, propFits, tyString]
  strData := by
    intro o ho n total hidx
    simp only [exFixed, List.mem_cons, List.not_mem_nil, or_false] at ho
    rcases ho with rfl | rfl | rfl | rfl | rfl <;> simp [tyString] at hidx

theorem exFixed_channels : onlyChannelsHaveData exFixed := by
  intro o ho hf
  simp only [exFixed, List.mem_cons, List.not_mem_nil, or_false] at ho
  rcases ho with rfl | rfl | rfl | rfl | rfl <;> first | (cases hf; done) | decide

theorem exFixed_dataPos : dataPosOf exFixed = 205 ∧ chunkBytes exFixed.objs = 22 ∧ hasStr exFixed = false ∧
    (encodeFile [exFixed]).toOption.map (·.length) = some 249 := by decide +kernel

/-- the theorems apply to `exFixed` -/
example (k : Nat) (hk1 : dataPosOf exFixed ≤ k) (hk : k ≤ (encodeSeg exFixed (exFixed.objs.map actOf)).length) :
    ∃ r', readFile ((encodeSeg exFixed (exFixed.objs.map actOf)).take k) = .ok r' ∧
      ∀ (i : Nat) (hi : i < (dataOs exFixed.objs).length),
        (exFixed.chunks.take (cutQ exFixed k)).flatMap (·.getD i []) <+:
          valuesIn r'.channels (dataOs exFixed.objs)[i].path := by
  have hL : (encodeSeg exFixed (exFixed.objs.map actOf)).length = 249 := by
    have h := exFixed_dataPos.2.2.2
    rw [(encodeFile_single_bytes exFixed exFixed_std).1] at h
    simpa [Except.toOption] using h
  obtain ⟨r', h1, h2, _⟩ := read_cut_single_values exFixed (CutStd.of_singleStd exFixed_std) exFixed_fits exFixed_channels _
    (encodeFile_single_bytes exFixed exFixed_std).1 (by rw [hL]; decide) k hk1 hk
  exact ⟨r', h1, fun i hi => (h2 i hi).2⟩

/-- kernel evaluation of the model on every cut offset inside the raw data of `exFixed`, and on some before -/
theorem exFixed_cuts_data1 : ((List.range 23).map (· + 205)).all (cutAgrees exFixed) = true := by decide +kernel
theorem exFixed_cuts_data2 : ((List.range 22).map (· + 228)).all (cutAgrees exFixed) = true := by decide +kernel
theorem exFixed_cuts_meta : [0, 3, 4, 27, 28, 29, 100, 201, 202, 204].all (cutAgrees exFixed) = true := by
  decide +kernel

/-- the contiguous fit: in the second chunk (bytes 227 … 248; `a` at 227, `b` at 235, `c` at 241)
    * cut at 248 (one byte missing): `a`, `b` complete, `c` loses its value of the second chunk;
    * cut at 240 (5 of the 6 bytes of `b`): `a` whole, `b` has 2 of 3 values, `c` nothing;
    * cut at 230 (3 of the 8 bytes of `a`): nothing of the second chunk;
    * cut at 227 (chunk boundary): the first chunk, no override -/
theorem exFixed_views :
    cutView exFixed 248 = ⟨true, [true], [(0, []), (4, [[1, 0, 0, 0], [2, 0, 0, 0], [3, 0, 0, 0], [4, 0, 0, 0]]),
      (6, [[5, 5], [6, 6], [7, 7], [8, 8], [9, 9], [10, 10]]), (0, []), (1, [[1, 2, 3, 4, 5, 6, 7, 8]])]⟩ ∧
    cutView exFixed 240 = ⟨true, [true], [(0, []), (4, [[1, 0, 0, 0], [2, 0, 0, 0], [3, 0, 0, 0], [4, 0, 0, 0]]),
      (5, [[5, 5], [6, 6], [7, 7], [8, 8], [9, 9]]), (0, []), (1, [[1, 2, 3, 4, 5, 6, 7, 8]])]⟩ ∧
    cutView exFixed 230 = ⟨true, [true], [(0, []), (2, [[1, 0, 0, 0], [2, 0, 0, 0]]),
      (3, [[5, 5], [6, 6], [7, 7]]), (0, []), (1, [[1, 2, 3, 4, 5, 6, 7, 8]])]⟩ ∧
    cutView exFixed 227 = ⟨true, [true], [(0, []), (2, [[1, 0, 0, 0], [2, 0, 0, 0]]),
      (3, [[5, 5], [6, 6], [7, 7]]), (0, []), (1, [[1, 2, 3, 4, 5, 6, 7, 8]])]⟩ ∧
    cutView exFixed 249 = ⟨true, [false], [(0, []), (4, [[1, 0, 0, 0], [2, 0, 0, 0], [3, 0, 0, 0], [4, 0, 0, 0]]),
      (6, [[5, 5], [6, 6], [7, 7], [8, 8], [9, 9], [10, 10]]), (0, []),
      (2, [[1, 2, 3, 4, 5, 6, 7, 8], [11, 12, 13, 14, 15, 16, 17, 18]])]⟩ := by decide +kernel

/-- **the string rule loses complete data**: `exSeg` cut at 263 keeps 2 of the 4 Int32 values of channel `a`
    although all 8 bytes of its second-chunk values (bytes 245 … 252) are in the cut file; the same file without
    the string channel would keep them (contiguous fit).  This is npTDMS behaviour
    (`_compute_final_chunk_lengths` returns no lengths when a channel has no fixed width), stated as such. -/
theorem exSeg_string_rule : finalCount exSeg 263 0 (dataOs exSeg.objs)[0] = 0 ∧ cutR exSeg 263 = 18 ∧
    startOf exSeg 0 = 0 ∧ valSize (dataOs exSeg.objs)[0] = 4 := by decide +kernel

/-- the same file with the length-unknown marker in its lead-in (what a crashed writer leaves behind) -/
def exSegU : SegEnc := { exSeg with lengthUnknown := true }

theorem exSegU_std : CutStd exSegU where
  hasMeta := rfl
  contiguous := rfl
  stdObjs := exSeg_std.stdObjs
  wf := by decide +kernel

/-- the theorems apply to it (`SegFits` and `onlyChannelsHaveData` do not look at the marker) -/
example (k : Nat) (hk : k ≤ (encodeSeg exSegU (exSegU.objs.map actOf)).length) :
    ∃ r r', readFile (encodeSeg exSegU (exSegU.objs.map actOf)) = .ok r ∧
      readFile ((encodeSeg exSegU (exSegU.objs.map actOf)).take k) = .ok r' ∧
      (∀ p, valuesIn r'.channels p <+: valuesIn r.channels p) := by
  have hL : (encodeSeg exSegU (exSegU.objs.map actOf)).length = 264 := by decide +kernel
  obtain ⟨r, r', h1, h2, h3, _⟩ := read_cut_single exSegU exSegU_std ⟨exSeg_fits.nObjs, exSeg_fits.objs,
    exSeg_fits.strData⟩ exSeg_channels _ (encodeFile_cutStd exSegU exSegU_std) (by rw [hL]; decide) k hk
  exact ⟨r, r', h1, h2, h3⟩

/-- kernel evaluation on every cut offset of its raw data and some before; the complete file (264) is flagged
    incomplete too -/
theorem exSegU_cuts_data : ((List.range 39).map (· + 226)).all (cutAgrees exSegU) = true := by decide +kernel
theorem exSegU_cuts_meta : [0, 27, 28, 100, 222, 223, 225].all (cutAgrees exSegU) = true := by decide +kernel
theorem exSegU_views :
    cutView exSegU 264 = ⟨true, [true], [(0, []), (0, []), (4, [[1, 0, 0, 0], [2, 0, 0, 0], [3, 0, 0, 0], [4, 0, 0, 0]]),
      (4, [[97, 98], [99], [], [120, 121, 122]]), (0, [])]⟩ ∧
    cutView exSegU 263 = ⟨true, [true], [(0, []), (0, []), (2, [[1, 0, 0, 0], [2, 0, 0, 0]]),
      (2, [[97, 98], [99]]), (0, [])]⟩ := by decide +kernel

/-! ### several segments -/

/-- a second segment with the signature of `exFixed`: the same five objects, but 1 / 2 / 1 values per chunk,
    three chunks (14 bytes each), other properties, one byte of padding; 250 bytes, raw data from byte 202 -/
def exFixed2 : SegEnc :=
  { exFixed with
    objs := [
      ⟨[47], .noData, [⟨[110], 0x20, [103]⟩]⟩,
      ⟨[47, 39, 103, 39, 47, 39, 97, 39], .full 3 1 0, []⟩,
      ⟨[47, 39, 103, 39, 47, 39, 98, 39], .full 2 2 0, [⟨[117], 0x20, [87]⟩]⟩,
      ⟨[47, 39, 103, 39, 47, 39, 110, 39], .noData, []⟩,
      ⟨[47, 39, 103, 39, 47, 39, 99, 39], .full 10 1 0, []⟩ ],
    padding := 1,
    chunks := [ [[[9, 0, 0, 0]], [[1, 1], [2, 2]], [[21, 22, 23, 24, 25, 26, 27, 28]]],
                [[[8, 0, 0, 0]], [[3, 3], [4, 4]], [[31, 32, 33, 34, 35, 36, 37, 38]]],
                [[[7, 0, 0, 0]], [[5, 5], [6, 6]], [[41, 42, 43, 44, 45, 46, 47, 48]]] ] }

theorem exFixed2_std : CutStd exFixed2 where
  hasMeta := rfl
  contiguous := rfl
  stdObjs := by
    intro o ho
    simp only [exFixed2, List.mem_cons, List.not_mem_nil, or_false] at ho
    rcases ho with rfl | rfl | rfl | rfl | rfl
    · exact .inl rfl
    · exact .inr ⟨_, _, _, rfl⟩
    · exact .inr ⟨_, _, _, rfl⟩
    · exact .inl rfl
    · exact .inr ⟨_, _, _, rfl⟩
  wf := by decide +kernel

theorem exFixed2_fits : SegFits exFixed2 where
  nObjs := by decide
  objs := by
    intro o ho
    simp only [exFixed2, List.mem_cons, List.not_mem_nil, or_false] at ho
    rcases ho with rfl | rfl | rfl | rfl | rfl <;>
      simp [objFits, idxFits, propFits, tyString]
  strData := by
    intro o ho n total hidx
    simp only [exFixed2, List.mem_cons, List.not_mem_nil, or_false] at ho
    rcases ho with rfl | rfl | rfl | rfl | rfl <;> simp [tyString] at hidx

/-- the three-segment file `exFixed, exFixed2, exFixed` (249 + 250 + 249 = 748 bytes) is in the class, and it is
    well-formed as a whole -/
theorem exMulti_std : MultiStd exFixed [exFixed2, exFixed] where
  first := CutStd.of_singleStd exFixed_std
  firstFits := exFixed_fits
  channels := exFixed_channels
  later := by
    intro x hx
    simp only [List.mem_cons, List.not_mem_nil, or_false] at hx
    rcases hx with rfl | rfl
    · exact ⟨exFixed2_std, exFixed2_fits, rfl, by decide⟩
    · exact ⟨CutStd.of_singleStd exFixed_std, exFixed_fits, rfl, rfl⟩
  known := by
    intro x hx
    simp only [List.dropLast, List.mem_cons, List.not_mem_nil, or_false] at hx
    rcases hx with rfl | rfl <;> rfl

theorem exMulti_wf : wellFormed [exFixed, exFixed2, exFixed] = true ∧
    (encodeFile [exFixed, exFixed2, exFixed]).toOption.map (·.length) = some 748 ∧
    encLen exFixed = 249 ∧ encLen exFixed2 = 250 ∧ dataPosOf exFixed2 = 202 := by decide +kernel

/-- the theorems apply to it, at every cut offset -/
example (K : Nat) (hK : K ≤ (encAll [exFixed, exFixed2, exFixed]).length) :
    ∃ r r', readFile (encAll [exFixed, exFixed2, exFixed]) = .ok r ∧
      readFile ((encAll [exFixed, exFixed2, exFixed]).take K) = .ok r' ∧
      (∀ p, valuesIn r'.channels p <+: valuesIn r.channels p) := by
  have hL : (encAll [exFixed, exFixed2, exFixed]).length = 748 := by decide +kernel
  obtain ⟨r, r', h1, h2, h3, _⟩ := read_cut_multi exFixed [exFixed2, exFixed] exMulti_std _
    (encodeFile_multiStd _ _ exMulti_std) (by rw [hL]; decide) K hK
  exact ⟨r, r', h1, h2, h3⟩

/-- executable comparison of the model's result on the multi-segment file cut after `K` bytes with `valsAt` -/
def multiAgrees (s₀ : SegEnc) (rest : List SegEnc) (K : Nat) : Bool :=
  match encodeFile (s₀ :: rest) with
  | .error _ => false
  | .ok file =>
    match readFile (file.take K) with
    | .error _ => false
    | .ok r =>
      ((List.range (dataOs s₀.objs).length).all fun i =>
        valuesIn r.channels (((dataOs s₀.objs).map (·.path)).getD i []) == valsAt (s₀ :: rest) K i) &&
      r.state.objects.all fun m => m.numValues == (valuesIn r.channels m.path).length

/-- kernel evaluation of the model around every place of interest: inside the first segment, at and around the
    two boundaries (249, 499), inside lead-in / metadata / raw data of the second and third segment, at the end -/
theorem exMulti_cuts1 : [0, 100, 204, 205, 227, 240, 248, 249, 250, 276, 277, 300, 450, 451, 452].all
    (multiAgrees exFixed [exFixed2, exFixed]) = true := by decide +kernel
theorem exMulti_cuts2 : [453, 460, 464, 465, 466, 470, 479, 480, 492, 493, 498, 499, 500, 526, 527].all
    (multiAgrees exFixed [exFixed2, exFixed]) = true := by decide +kernel
theorem exMulti_cuts3 : [600, 703, 704, 705, 712, 718, 725, 726, 727, 735, 740, 746, 747, 748].all
    (multiAgrees exFixed [exFixed2, exFixed]) = true := by decide +kernel

/-- what a user sees: cut exactly at the first boundary (249) — the first segment, complete; cut 27 bytes into
    the second segment (inside its lead-in) — the same; cut inside the second chunk of the second segment
    (byte 249 + 202 + 14 + 9 = 474: `a` whole, `b` has 2 of its 5 bytes) — first segment, first chunk, and `a` of
    the second chunk; cut at the second boundary (499) — two complete segments -/
theorem exMulti_views :
    cutView2 exFixed [exFixed2, exFixed] 249 = ⟨true, [false], [(0, []), (4, [[1, 0, 0, 0], [2, 0, 0, 0], [3, 0, 0, 0], [4, 0, 0, 0]]),
      (6, [[5, 5], [6, 6], [7, 7], [8, 8], [9, 9], [10, 10]]), (0, []),
      (2, [[1, 2, 3, 4, 5, 6, 7, 8], [11, 12, 13, 14, 15, 16, 17, 18]])]⟩ ∧
    cutView2 exFixed [exFixed2, exFixed] 276 = cutView2 exFixed [exFixed2, exFixed] 249 ∧
    cutView2 exFixed [exFixed2, exFixed] 474 = ⟨true, [false, true], [(0, []),
      (6, [[1, 0, 0, 0], [2, 0, 0, 0], [3, 0, 0, 0], [4, 0, 0, 0], [9, 0, 0, 0], [8, 0, 0, 0]]),
      (9, [[5, 5], [6, 6], [7, 7], [8, 8], [9, 9], [10, 10], [1, 1], [2, 2], [3, 3]]), (0, []),
      (3, [[1, 2, 3, 4, 5, 6, 7, 8], [11, 12, 13, 14, 15, 16, 17, 18], [21, 22, 23, 24, 25, 26, 27, 28]])]⟩ ∧
    cutView2 exFixed [exFixed2, exFixed] 499 = ⟨true, [false, false], [(0, []),
      (7, [[1, 0, 0, 0], [2, 0, 0, 0], [3, 0, 0, 0], [4, 0, 0, 0], [9, 0, 0, 0], [8, 0, 0, 0], [7, 0, 0, 0]]),
      (12, [[5, 5], [6, 6], [7, 7], [8, 8], [9, 9], [10, 10], [1, 1], [2, 2], [3, 3], [4, 4], [5, 5], [6, 6]]), (0, []),
      (5, [[1, 2, 3, 4, 5, 6, 7, 8], [11, 12, 13, 14, 15, 16, 17, 18], [21, 22, 23, 24, 25, 26, 27, 28],
        [31, 32, 33, 34, 35, 36, 37, 38], [41, 42, 43, 44, 45, 46, 47, 48]])]⟩ := by decide +kernel

end Example

end Tdms.Proofs.C06Whole
